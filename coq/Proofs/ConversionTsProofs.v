(* C35: proofs about Model/Conversion.v -- timezone independence, RFC 3339 and the full-precision layouts of
   Model/TsText.v, and the witnesses of the known findings. *)
From Coq Require Import String.
From Coq Require Import List NArith ZArith Bool Lia.
From VRL Require Import Base.Bytes Base.Value Base.Lit Model.ConvRes Model.IntText Model.NumFns Model.UnixTs Model.TsText.
From VRL Require Import Proofs.IntTextProofs Proofs.UnixTsProofs Proofs.TsTextProofs.
From VRL Require Import Model.Conversion Proofs.ConversionProofs.
Import ListNotations.
Local Open Scope Z_scope.

(* ================= timezone independence ================= *)

Section TzIndep.
  Variable tzT : Type.
  Variable cz : bytes -> bytes -> option dt.
  Variable c3 c2 : bytes -> option dt.

  (* a format with (what format_has_zone takes for) a zone: neither the default timezone nor anything chrono does with
     a timezone is consulted *)
  Theorem tz_indep_fmt (cl cl' : tzT -> bytes -> bytes -> option dt) fmt tz1 tz2 s :
    format_has_zone fmt = true ->
    convert tzT cl cz c3 c2 (conv_timestamp tzT fmt tz1) s = convert tzT cl' cz c3 c2 (conv_timestamp tzT fmt tz2) s.
  Proof. intros H. unfold conv_timestamp. rewrite H. reflexivity. Qed.

  Definition tz_free (c : conversion tzT) : bool :=
    match c with CTimestamp _ | CTimestampFmt _ _ => false | _ => true end.

  (* by name: whatever the name, unless it denotes the auto-detecting conversion or a format without a zone, the
     result is the same under every default timezone *)
  Theorem tz_indep_names (cl cl' : tzT -> bytes -> bytes -> option dt) name tz1 tz2 c1 s :
    parse_conv tzT name tz1 = Some c1 -> tz_free c1 = true ->
    exists c2', parse_conv tzT name tz2 = Some c2' /\
                convert tzT cl cz c3 c2 c1 s = convert tzT cl' cz c3 c2 c2' s.
  Proof.
    unfold parse_conv. destruct (split_bar name) as [a [fmt|]].
    - destruct (bytes_eqb (trim a) name_timestamp); [|discriminate].
      unfold conv_timestamp. destruct (format_has_zone (trim fmt)).
      + intros H _. inversion H; subst. eexists. split; reflexivity.
      + intros H F. inversion H; subst. discriminate.
    - destruct (mem (trim a) names_bytes); [intros H _; inversion H; subst; eexists; split; reflexivity|].
      destruct (mem (trim a) names_integer); [intros H _; inversion H; subst; eexists; split; reflexivity|].
      destruct (mem (trim a) names_float); [intros H _; inversion H; subst; eexists; split; reflexivity|].
      destruct (mem (trim a) names_boolean); [intros H _; inversion H; subst; eexists; split; reflexivity|].
      destruct (bytes_eqb (trim a) name_timestamp); [|discriminate].
      intros H F. inversion H; subst. discriminate.
  Qed.

  Lemma first_local_none (cl : tzT -> bytes -> bytes -> option dt) tz s fmts :
    (forall f, In f fmts -> cl tz s f = None) -> first_local tzT cl tz s fmts = None.
  Proof.
    induction fmts as [|f r IH]; intros H; cbn [first_local]; [reflexivity|].
    unfold datetime_from_str. rewrite (H f (or_introl eq_refl)). apply IH. intros g Hg. apply H. right. exact Hg.
  Qed.

  (* the auto-detecting conversion: a text that no zone-less format of the list accepts, under either timezone, is
     converted to the same instant (or the same error) under both *)
  Theorem tz_indep_auto (cl : tzT -> bytes -> bytes -> option dt) tz1 tz2 s :
    (forall f, In f local_formats -> cl tz1 s f = None /\ cl tz2 s f = None) ->
    convert tzT cl cz c3 c2 (CTimestamp tz1) s = convert tzT cl cz c3 c2 (CTimestamp tz2) s.
  Proof.
    intros H. cbn [convert]. unfold Conversion.parse_timestamp.
    rewrite (first_local_none cl tz1 s local_formats) by (intros f Hf; apply (H f Hf)).
    rewrite (first_local_none cl tz2 s local_formats) by (intros f Hf; apply (H f Hf)).
    reflexivity.
  Qed.
End TzIndep.

(* the side condition is satisfiable with a successful conversion, and it cannot be dropped: with a zone-less format
   matching, the default timezone decides the instant *)
Lemma tz_indep_auto_inhabited :
  (exists (cl : bool -> bytes -> bytes -> option dt) (c3 : bytes -> option dt) (s : bytes),
      (forall f, In f local_formats -> cl true s f = None /\ cl false s f = None)
      /\ convert bool cl (fun _ _ => None) c3 (fun _ => None) (CTimestamp true) s = COk (VTs 1572139800000000005))
  /\ (exists (cl : bool -> bytes -> bytes -> option dt) (s : bytes),
      convert bool cl (fun _ _ => None) (fun _ => None) (fun _ => None) (CTimestamp true) s
      <> convert bool cl (fun _ _ => None) (fun _ => None) (fun _ => None) (CTimestamp false) s).
Proof.
  split.
  - exists (fun _ _ _ => None), (fun _ => Some (1572139800, 5)), (ascii_bytes "2019-10-27T01:30:00.000000005+00:00").
    split; [intros; split; reflexivity | vm_compute; reflexivity].
  - exists (fun (tz : bool) _ _ => if tz then Some (1500007200, 0) else Some (1500000000, 0)), (ascii_bytes "2017-07-14 04:40:00").
    vm_compute. discriminate.
Qed.

(* ================= RFC 3339 ================= *)

Lemma parse_digits_bad neg radix c : to_digit radix c = None ->
  forall s acc, In c s -> parse_digits neg radix s acc = None.
Proof.
  intros Hc. induction s as [|x s IH]; intros acc Hin; [destruct Hin|].
  cbn [parse_digits]. destruct Hin as [->|Hin].
  - rewrite Hc. reflexivity.
  - destruct (to_digit radix x); [|reflexivity].
    destruct (ConvRes.in_i64 (acc * radix)); [|reflexivity].
    destruct (ConvRes.in_i64 (if neg then acc * radix - _ else acc * radix + _)); [|reflexivity].
    apply IH. exact Hin.
Qed.

(* a text with a 'T' after its first byte is not an integer *)
Lemma not_int_T c0 s : In 84%N s -> parse_i64 (c0 :: s) = None.
Proof.
  intros Hin. unfold parse_i64, from_str_radix.
  assert (HT : to_digit 10 84%N = None) by reflexivity.
  destruct s as [|c1 r]; [destruct Hin|].
  destruct (c0 =? 43)%N; [apply parse_digits_bad with (c := 84%N); assumption|].
  destruct (c0 =? 45)%N; [apply parse_digits_bad with (c := 84%N); assumption|].
  apply parse_digits_bad with (c := 84%N); [exact HT | right; exact Hin].
Qed.

Lemma year_text_nonempty y : exists c r, year_text y = c :: r.
Proof.
  unfold year_text. destruct ((0 <=? y) && (y <=? 9999)).
  - cbn [pad_digits]. destruct (pad_digits 3 (y / 10)); cbn; eauto.
  - eauto.
Qed.

Lemma rfc3339_text_not_int ns : parse_i64 (format_layout LRfc3339 ns) = None.
Proof.
  unfold format_layout. cbv zeta.
  destruct (civil_from_days (ns / 1000000000 / 86400)) as [[y m] d].
  destruct (year_text_nonempty y) as (c & r & ->).
  cbn [app]. apply not_int_T.
  apply in_or_app. right. right. apply in_or_app. right. right. apply in_or_app. right. left. reflexivity.
Qed.

Lemma datetime_to_utc_of_ns ns : datetime_to_utc (dt_of_ns ns) = ROk ns.
Proof.
  unfold datetime_to_utc, dt_of_ns.
  replace (ns mod 1000000000 <? 1000000000) with true by (symmetry; apply Z.ltb_lt; apply Z.mod_pos_bound; lia).
  cbn [orb]. f_equal. pose proof (Z.div_mod ns 1000000000 ltac:(lia)). lia.
Qed.

Section Rfc3339.
  Variable tzT : Type.
  Variable cl : tzT -> bytes -> bytes -> option dt.
  Variable cz : bytes -> bytes -> option dt.
  Variable c3 c2 : bytes -> option dt.

  (* chrono, about the text DateTime::<Utc>::to_rfc3339() prints (= format_layout LRfc3339, tied by the correspondence):
     none of the zone-less formats accepts it (each of them ends where the offset begins: TOO_LONG), and
     parse_from_rfc3339 reads it back *)
  Hypothesis local_reject : forall tz ns f, In f local_formats -> cl tz (format_layout LRfc3339 ns) f = None.
  Hypothesis rfc3339_reads_back : forall ns, ts_in_range ns = true ->
    c3 (format_layout LRfc3339 ns) = Some (dt_of_ns ns).

  Theorem rfc3339_roundtrip ns tz : ts_in_range ns = true ->
    convert tzT cl cz c3 c2 (CTimestamp tz) (format_layout LRfc3339 ns) = COk (VTs ns).
  Proof.
    intros Hr. cbn [convert]. unfold Conversion.parse_timestamp.
    rewrite (first_local_none tzT cl tz _ local_formats) by (intros f Hf; apply local_reject; exact Hf).
    unfold parse_unix_timestamp. rewrite rfc3339_text_not_int.
    rewrite (rfc3339_reads_back ns Hr), datetime_to_utc_of_ns. reflexivity.
  Qed.
End Rfc3339.

(* ================= the full-precision layouts of Model/TsText.v as conversion formats ================= *)

Definition layout_fmt (l : layout) : bytes :=
  ascii_bytes (match l with
               | LIsoNano => "%Y-%m-%dT%H:%M:%S%.9f%z"
               | LIsoAuto => "%Y-%m-%dT%H:%M:%S%.f%:z"
               | LRfc3339 => "%+"
               | LSpaceNum => "%Y-%m-%d %H:%M:%S.%f"
               end)%string.

Lemma layout_fmt_ok l : layout_of (layout_fmt l) = Some l.
Proof. destruct l; reflexivity. Qed.

Definition zoned_layout (l : layout) : bool := match l with LSpaceNum => false | _ => true end.

Lemma zoned_layout_has_zone l : format_has_zone (layout_fmt l) = zoned_layout l.
Proof. destruct l; vm_compute; reflexivity. Qed.

Section Layouts.
  Variable tzT : Type.
  Variable cl : tzT -> bytes -> bytes -> option dt.
  Variable cz : bytes -> bytes -> option dt.
  Variable c3 c2 : bytes -> option dt.
  Variable utc : tzT.

  (* chrono agrees with the parser model of Model/TsText.v (which C25's correspondence ties to chrono) wherever that
     model gives an answer: DateTime::parse_from_str for the zoned layouts, the UTC default timezone for the other *)
  Definition agrees (chrono : bytes -> bytes -> option dt) (l : layout) : Prop :=
    forall s ns, parse_layout l s = Some (ROk ns) ->
      exists d, chrono s (layout_fmt l) = Some d /\ datetime_to_utc d = ROk ns.

  Theorem layout_roundtrip_zoned l ns tz : zoned_layout l = true -> agrees cz l -> ts_in_range ns = true ->
    convert tzT cl cz c3 c2 (conv_timestamp tzT (layout_fmt l) tz) (format_layout l ns) = COk (VTs ns).
  Proof.
    intros Hz Ha Hr. unfold conv_timestamp. rewrite zoned_layout_has_zone, Hz. cbn [convert].
    destruct (Ha _ _ (layout_roundtrip l ns Hr)) as (d & -> & ->). reflexivity.
  Qed.

  Theorem layout_roundtrip_local ns : agrees (cl utc) LSpaceNum -> ts_in_range ns = true ->
    convert tzT cl cz c3 c2 (conv_timestamp tzT (layout_fmt LSpaceNum) utc) (format_layout LSpaceNum ns) = COk (VTs ns).
  Proof.
    intros Ha Hr. unfold conv_timestamp. rewrite zoned_layout_has_zone. cbn [zoned_layout convert].
    unfold datetime_from_str.
    destruct (Ha _ _ (layout_roundtrip LSpaceNum ns Hr)) as (d & -> & ->). reflexivity.
  Qed.
End Layouts.

(* the hypotheses are satisfiable: a chrono that is the TsText model *)
Definition model_chrono (s fmt : bytes) : option dt :=
  match layout_of fmt with
  | Some l => match parse_layout l s with
              | Some (ROk ns) => Some (dt_of_ns ns)
              | _ => None
              end
  | None => None
  end.

(* ================= witnesses of the known findings ================= *)

(* %::z and %:::z print (and, for the former, parse) an explicit numeric offset, but format_has_zone does not
   look for them: such a format goes through the default timezone, and chrono then rejects a text whose offset is not
   the default timezone's (Parsed::to_datetime_with_timezone: IMPOSSIBLE) *)
Lemma zone_spec_refuted :
  format_has_zone (ascii_bytes "%F %T %::z") = false /\ format_has_zone (ascii_bytes "%F %T %:::z") = false
  /\ exists (cl : bool -> bytes -> bytes -> option dt) (s : bytes),
       convert bool cl (fun _ _ => None) (fun _ => None) (fun _ => None)
               (conv_timestamp bool (ascii_bytes "%F %T %::z") true) s
       <> convert bool cl (fun _ _ => None) (fun _ => None) (fun _ => None)
               (conv_timestamp bool (ascii_bytes "%F %T %::z") false) s.
Proof.
  split; [reflexivity|]. split; [reflexivity|].
  exists (fun (tz : bool) _ _ => if tz then Some (1500000000, 0) else None), (ascii_bytes "2017-07-14 04:40:00 +02:00").
  vm_compute. discriminate.
Qed.

(* "%%z" is a literal '%' followed by the letter z, yet format_has_zone takes it for a zone: the format is handed to
   DateTime::parse_from_str, which can never produce an offset from it *)
Lemma literal_percent_refuted :
  format_has_zone (ascii_bytes "%F %T %%z") = true
  /\ forall tz : unit, conv_timestamp unit (ascii_bytes "%F %T %%z") tz = CTimestampTzFmt (ascii_bytes "%F %T %%z").
Proof. split; [reflexivity | intros; reflexivity]. Qed.

(* a leap second (nanos >= 10^9) whose UTC second is not 59 -- which chrono produces for second 60 under a timezone
   whose offset is not a whole number of minutes -- makes datetime_to_utc panic *)
Lemma leap_panic_refuted :
  exists (d : dt) (cl : unit -> bytes -> bytes -> option dt) (fmt s : bytes),
    datetime_to_utc d = RPanic
    /\ convert unit cl (fun _ _ => None) (fun _ => None) (fun _ => None) (CTimestampFmt fmt tt) s = CPanic
    /\ convert unit cl (fun _ _ => None) (fun _ => None) (fun _ => None) (CTimestamp tt) s = CPanic.
Proof.
  exists (-2840143949, 1000000000), (fun _ _ _ => Some (-2840143949, 1000000000)),
         (ascii_bytes "%F %T"), (ascii_bytes "1880-01-01 00:00:60").
  repeat split; vm_compute; reflexivity.
Qed.
