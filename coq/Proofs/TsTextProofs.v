(* Proofs about Model/TsText.v: the calendar formulas are mutually inverse on every day number, and on each of
   the four full-precision layouts the modelled parser reads the modelled formatter's output back as the same
   timestamp, for every timestamp chrono can hold. *)
From Coq Require Import String.
From Coq Require Import List NArith ZArith Bool Lia.
From VRL Require Import Base.Bytes Base.Value Model.ConvRes Model.IntText Model.UnixTs Proofs.IntTextProofs.
From VRL Require Import Model.TsText.
Import ListNotations.
Local Open Scope Z_scope.
Ltac Zify.zify_post_hook ::= Z.div_mod_to_equations.

(* ================= calendar ================= *)

Lemma yoe_spec doe : 0 <= doe <= 146096 ->
  let yoe := (doe - doe / 1460 + doe / 36524 - doe / 146096) / 365 in
  0 <= yoe <= 399 /\ 0 <= doe - (365 * yoe + yoe / 4 - yoe / 100) <= 365.
Proof. intros H. cbv zeta. lia. Qed.

Theorem days_civil z : let '(y, m, d) := civil_from_days z in days_from_civil y m d = z.
Proof.
  unfold civil_from_days. cbv zeta.
  set (zz := z + 719468). set (era := zz / 146097). set (doe := zz - era * 146097).
  assert (Hdoe : 0 <= doe <= 146096) by (unfold doe, era; lia).
  pose proof (yoe_spec doe Hdoe) as Hy. cbv zeta in Hy.
  set (yoe := (doe - doe / 1460 + doe / 36524 - doe / 146096) / 365) in *.
  set (doy := doe - (365 * yoe + yoe / 4 - yoe / 100)) in *.
  destruct Hy as [Hyoe Hdoy].
  set (mp := (5 * doy + 2) / 153).
  assert (Hmp : 0 <= mp <= 11) by (unfold mp; lia).
  unfold days_from_civil.
  destruct (mp <? 10) eqn:E1.
  - apply Z.ltb_lt in E1.
    replace (mp + 3 <=? 2) with false by (symmetry; apply Z.leb_gt; lia).
    replace (2 <? mp + 3) with true by (symmetry; apply Z.ltb_lt; lia).
    cbv zeta.
    replace ((yoe + era * 400) / 400) with era by lia.
    replace (yoe + era * 400 - era * 400) with yoe by lia.
    replace (mp + 3 - 3) with mp by lia.
    unfold doy, doe, zz. lia.
  - apply Z.ltb_ge in E1.
    replace (mp - 9 <=? 2) with true by (symmetry; apply Z.leb_le; lia).
    replace (2 <? mp - 9) with false by (symmetry; apply Z.ltb_ge; lia).
    cbv zeta.
    replace (yoe + era * 400 + 1 - 1) with (yoe + era * 400) by lia.
    replace ((yoe + era * 400) / 400) with era by lia.
    replace (yoe + era * 400 - era * 400) with yoe by lia.
    replace (mp - 9 + 9) with mp by lia.
    unfold doy, doe, zz. lia.
Qed.

(* month and day of a day number are a calendar month and day *)
Lemma civil_fields z : let '(y, m, d) := civil_from_days z in 1 <= m <= 12 /\ 1 <= d <= 31.
Proof.
  unfold civil_from_days. cbv zeta.
  set (zz := z + 719468). set (era := zz / 146097). set (doe := zz - era * 146097).
  assert (Hdoe : 0 <= doe <= 146096) by (unfold doe, era; lia).
  pose proof (yoe_spec doe Hdoe) as Hy. cbv zeta in Hy.
  set (yoe := (doe - doe / 1460 + doe / 36524 - doe / 146096) / 365) in *.
  set (doy := doe - (365 * yoe + yoe / 4 - yoe / 100)) in *.
  destruct Hy as [Hyoe Hdoy].
  set (mp := (5 * doy + 2) / 153).
  assert (Hmp : 0 <= mp <= 11) by (unfold mp; lia).
  assert (Hd : 1 <= doy - (153 * mp + 2) / 5 + 1 <= 31) by (unfold mp; lia).
  destruct (mp <? 10) eqn:E1; [apply Z.ltb_lt in E1 | apply Z.ltb_ge in E1]; split; lia.
Qed.

Definition days_min : Z := -96465292.
Definition days_max : Z := 95026236.

(* the years chrono can hold *)
Lemma civil_year_range z : days_min <= z <= days_max ->
  let '(y, m, d) := civil_from_days z in -262143 <= y <= 262142.
Proof.
  unfold days_min, days_max. intros Hz.
  unfold civil_from_days. cbv zeta.
  set (zz := z + 719468). set (era := zz / 146097). set (doe := zz - era * 146097).
  assert (Hdoe : 0 <= doe <= 146096) by (unfold doe, era; lia).
  pose proof (yoe_spec doe Hdoe) as Hy. cbv zeta in Hy.
  set (yoe := (doe - doe / 1460 + doe / 36524 - doe / 146096) / 365) in *.
  set (doy := doe - (365 * yoe + yoe / 4 - yoe / 100)) in *.
  destruct Hy as [Hyoe Hdoy].
  set (mp := (5 * doy + 2) / 153).
  assert (Hmp : 0 <= mp <= 11) by (unfold mp; lia).
  assert (Hera : -656 <= era <= 655) by (unfold era, zz; lia).
  (* only the first and the last era need a closer look *)
  assert (Hlo : era = -656 -> 256 <= yoe /\ (yoe = 256 -> 306 <= doy)).
  { intros E. assert (93808 <= doe) by (unfold doe, zz in *; lia). unfold yoe, doy. split; lia. }
  assert (Hhi : era = 655 -> yoe <= 142 /\ (yoe = 142 -> doy <= 305)).
  { intros E. assert (doe <= 52169) by (unfold doe, zz in *; lia). unfold yoe, doy. split; lia. }
  destruct (mp <? 10) eqn:E1; [apply Z.ltb_lt in E1 | apply Z.ltb_ge in E1].
  - replace (mp + 3 <=? 2) with false by (symmetry; apply Z.leb_gt; lia).
    assert (doy <= 305) by (unfold mp in E1; lia). lia.
  - replace (mp - 9 <=? 2) with true by (symmetry; apply Z.leb_le; lia).
    assert (306 <= doy) by (unfold mp in E1; lia). lia.
Qed.

(* ================= digits ================= *)

Lemma dchar_digit_char d : 0 <= d < 10 -> dchar d = digit_char d.
Proof. intros H. unfold dchar, digit_char. replace (d <? 10) with true by (symmetry; apply Z.ltb_lt; lia). reflexivity. Qed.

Lemma pad_length w : forall n, length (pad_digits w n) = w.
Proof. induction w as [|w IH]; intros n; cbn [pad_digits]; [reflexivity|]. rewrite app_length, IH. cbn. lia. Qed.

Lemma pad_uval w : forall n acc, 0 <= n < 10 ^ Z.of_nat w ->
  uval 10 (pad_digits w n) acc = Some (acc * 10 ^ Z.of_nat w + n).
Proof.
  induction w as [|w IH]; intros n acc Hn.
  - cbn in Hn. cbn [pad_digits uval]. f_equal. cbn. lia.
  - cbn [pad_digits]. rewrite uval_app.
    assert (Hp : 10 ^ Z.of_nat (S w) = 10 * 10 ^ Z.of_nat w) by (rewrite Nat2Z.inj_succ, Z.pow_succ_r by lia; reflexivity).
    assert (Hpos : 0 < 10 ^ Z.of_nat w) by (apply Z.pow_pos_nonneg; lia).
    rewrite IH by (rewrite Hp in Hn; lia).
    cbn [uval]. rewrite dchar_digit_char by lia. rewrite digit_char_val by lia. f_equal. rewrite Hp. lia.
Qed.

Lemma to_digit10 c d : to_digit 10 c = Some d -> is_digit c = true /\ d = Z.of_N c - 48.
Proof.
  unfold to_digit, digit_val, is_digit. intros H.
  destruct ((48 <=? Z.of_N c) && (Z.of_N c <=? 57)) eqn:E1.
  - apply andb_true_iff in E1. destruct E1 as [A B]. apply Z.leb_le in A. apply Z.leb_le in B.
    destruct (Z.of_N c - 48 <? 10); inversion H; subst. split; [|reflexivity].
    apply andb_true_iff; split; apply N.leb_le; lia.
  - destruct ((97 <=? Z.of_N c) && (Z.of_N c <=? 122)) eqn:E2.
    + apply andb_true_iff in E2. destruct E2 as [A B]. apply Z.leb_le in A.
      destruct (Z.of_N c - 87 <? 10) eqn:L; [apply Z.ltb_lt in L; lia | discriminate].
    + destruct ((65 <=? Z.of_N c) && (Z.of_N c <=? 90)) eqn:E3; [|discriminate].
      apply andb_true_iff in E3. destruct E3 as [A B]. apply Z.leb_le in A. apply Z.leb_le in B.
      destruct (Z.of_N c - 55 <? 10) eqn:L; [apply Z.ltb_lt in L; lia | discriminate].
Qed.

(* what may follow a digit string that scan::number reads to its end *)
Definition non_digit_start (rest : bytes) : Prop :=
  match rest with [] => True | c :: _ => is_digit c = false end.

Lemma number_loop_digits : forall s rest fuel min max i acc v,
  uval 10 s acc = Some v -> 0 <= acc -> v <= i64_max ->
  (i + length s <= max)%nat -> (length s < fuel)%nat ->
  ((i + length s = max)%nat \/ (non_digit_start rest /\ (min <= i + length s)%nat)) ->
  number_loop fuel (s ++ rest) min max i acc = POk v rest.
Proof.
  induction s as [|c s IH]; intros rest fuel min max i acc v Hu Ha Hv Hmax Hfuel Hstop.
  - cbn [uval] in Hu. inversion Hu; subst. cbn [app length] in *. rewrite Nat.add_0_r in *.
    destruct fuel as [|f]; [lia|]. cbn [number_loop].
    destruct Hstop as [E|[Hnd Hmin]].
    + replace (Nat.leb max i) with true by (symmetry; apply Nat.leb_le; lia). reflexivity.
    + destruct (Nat.leb max i); [reflexivity|].
      destruct rest as [|c r]; [reflexivity|]. cbn in Hnd. rewrite Hnd.
      replace (Nat.ltb i min) with false by (symmetry; apply Nat.ltb_ge; lia). reflexivity.
  - cbn [uval] in Hu. destruct (to_digit 10 c) as [d|] eqn:D; [|discriminate].
    destruct (to_digit10 c d D) as [Hc Hd]. pose proof (to_digit_range _ _ _ D) as Hr.
    cbn [app length] in *. destruct fuel as [|f]; [lia|]. cbn [number_loop].
    replace (Nat.leb max i) with false by (symmetry; apply Nat.leb_gt; lia).
    rewrite Hc. rewrite <- Hd.
    assert (Hge : acc * 10 + d <= v) by (eapply uval_ge; [| |exact Hu]; lia).
    replace (in_i64 (acc * 10 + d)) with true
      by (symmetry; unfold in_i64, i64_min, i64_max in *; apply andb_true_iff; split; apply Z.leb_le; lia).
    apply (IH rest f min max (S i) (acc * 10 + d) v Hu); try lia.
    destruct Hstop as [E|[Hnd Hmin]]; [left; lia | right; split; [exact Hnd | lia]].
Qed.

(* a zero-padded field of the field's own width: no look-ahead needed *)
Lemma number_pad_min w min n rest : (1 <= min <= w)%nat -> (w <= 18)%nat -> 0 <= n < 10 ^ Z.of_nat w ->
  number (pad_digits w n ++ rest) min w = POk n rest.
Proof.
  intros Hw Hw18 Hn. unfold number. rewrite app_length, pad_length.
  replace (Nat.ltb (w + length rest) min) with false by (symmetry; apply Nat.ltb_ge; lia).
  assert (Hu : uval 10 (pad_digits w n) 0 = Some n) by (rewrite pad_uval by exact Hn; f_equal; lia).
  assert (Hb : n <= i64_max).
  { assert (10 ^ Z.of_nat w <= 10 ^ 18) by (apply Z.pow_le_mono_r; lia). unfold i64_max. lia. }
  apply (number_loop_digits _ rest _ min w O 0 n Hu); rewrite ?pad_length; lia.
Qed.

Lemma number_pad w n rest : (1 <= w)%nat -> (w <= 18)%nat -> 0 <= n < 10 ^ Z.of_nat w ->
  number (pad_digits w n ++ rest) 1 w = POk n rest.
Proof. intros. apply number_pad_min; lia. Qed.

Lemma pad_head w n : exists c tl, pad_digits (S w) n = c :: tl /\ is_digit c = true.
Proof.
  revert n. induction w as [|w IH]; intros n.
  - cbn [pad_digits app]. exists (dchar (n mod 10)), []. split; [reflexivity|].
    assert (0 <= n mod 10 < 10) by (apply Z.mod_pos_bound; lia). unfold is_digit, dchar.
    apply andb_true_iff; split; apply N.leb_le; lia.
  - destruct (IH (n / 10)) as (c & tl & E & Hc). change (pad_digits (S (S w)) n) with (pad_digits (S w) (n / 10) ++ [dchar (n mod 10)]).
    rewrite E. exists c, (tl ++ [dchar (n mod 10)]). split; [reflexivity | exact Hc].
Qed.

Lemma digit_not_ws c : is_digit c = true -> is_ws c = false /\ (128 <=? c)%N = false /\ (c =? 45)%N = false /\ (c =? 43)%N = false /\ (c =? 46)%N = false.
Proof.
  unfold is_digit, is_ws. intros H. apply andb_true_iff in H. destruct H as [A B]. apply N.leb_le in A. apply N.leb_le in B.
  repeat split; try (apply N.eqb_neq; lia); try (apply N.leb_gt; lia).
  apply orb_false_iff; split; [apply andb_false_iff; right; apply N.leb_gt; lia | apply N.eqb_neq; lia].
Qed.

Lemma trim_digit_head c s : is_digit c = true -> trim_start (c :: s) = POk tt (c :: s).
Proof. intros H. destruct (digit_not_ws c H) as (W & A & _). cbn [trim_start]. rewrite W, A. reflexivity. Qed.

(* a two-digit field *)
Lemma numeric2 n rest : 0 <= n < 100 -> numeric 2 false (pad_digits 2 n ++ rest) = POk n rest.
Proof.
  intros Hn. unfold numeric. destruct (pad_head 1 n) as (c & tl & E & Hc).
  rewrite E. cbn [app]. rewrite trim_digit_head by exact Hc. cbn [pbind]. rewrite app_comm_cons, <- E.
  apply number_pad; lia.
Qed.

Lemma numeric9 n rest : 0 <= n < 1000000000 -> numeric 9 false (pad_digits 9 n ++ rest) = POk n rest.
Proof.
  intros Hn. unfold numeric. destruct (pad_head 8 n) as (c & tl & E & Hc).
  rewrite E. cbn [app]. rewrite trim_digit_head by exact Hc. cbn [pbind]. rewrite app_comm_cons, <- E.
  apply number_pad; lia.
Qed.

(* the year, which is followed by "-" *)
Lemma numeric_year y rest : -262143 <= y <= 262142 ->
  numeric 4 true (year_text y ++ 45%N :: rest) = POk y (45%N :: rest).
Proof.
  intros Hy. unfold numeric, year_text. cbv zeta.
  destruct ((0 <=? y) && (y <=? 9999)) eqn:E.
  - apply andb_true_iff in E. destruct E as [A B]. apply Z.leb_le in A. apply Z.leb_le in B.
    destruct (pad_head 3 y) as (c & tl & Ep & Hc). rewrite Ep. cbn [app].
    rewrite trim_digit_head by exact Hc. cbn [pbind].
    destruct (digit_not_ws c Hc) as (_ & _ & M & P & _). rewrite M, P.
    rewrite app_comm_cons, <- Ep. apply number_pad; lia.
  - assert (Hy' : y < 0 \/ 9999 < y).
    { apply andb_false_iff in E. destruct E as [E|E]; [apply Z.leb_gt in E | apply Z.leb_gt in E]; lia. }
    set (a := Z.abs y). assert (Ha : 0 < a <= 262143) by (unfold a; lia).
    set (sign := if y <? 0 then 45%N else 43%N).
    match goal with |- context [sign :: ?x] => remember x as digs eqn:Ed end.
    assert (Hd : exists P, uval 10 digs 0 = Some a /\ digs <> [] /\ (length digs <= 64)%nat /\ P = tt).
    { rewrite Ed. destruct (a <? 10000) eqn:L.
      - apply Z.ltb_lt in L. exists tt. rewrite pad_uval by (change (10 ^ Z.of_nat 4) with 10000; lia).
        split; [f_equal; lia|]. split; [destruct (pad_head 3 a) as (c & tl & Ep & _); rewrite Ep; discriminate|].
        rewrite pad_length. split; [lia | reflexivity].
      - destruct (digits_spec 10 ltac:(lia) 64%nat a []) as (s & P & Hs & Hne & Hv); [lia | |].
        { split; [lia|]. assert (10 ^ 6 <= 10 ^ Z.of_nat 64) by (apply Z.pow_le_mono_r; lia). lia. }
        rewrite app_nil_r in Hs. rewrite Hs. exists tt. split; [rewrite Hv; f_equal; lia|]. split; [exact Hne|].
        pose proof (digits_loop_length 10 64 a [] s Hs) as Hl. cbn [length] in Hl. split; [lia | reflexivity]. }
    destruct Hd as (_ & Hu & Hne & Hl & _).
    cbn [app].
    assert (Hs : is_ws sign = false /\ (128 <=? sign)%N = false) by (unfold sign; destruct (y <? 0); split; reflexivity).
    destruct Hs as [Hs1 Hs2]. cbn [trim_start]. rewrite Hs1, Hs2. cbn [pbind].
    assert (Hnum : number (digs ++ 45%N :: rest) 1 (length (digs ++ 45%N :: rest)) = POk a (45%N :: rest)).
    { unfold number. rewrite app_length. cbn [length].
      replace (Nat.ltb (length digs + S (length rest)) 1) with false by (symmetry; apply Nat.ltb_ge; lia).
      apply number_loop_digits with (acc := 0); try lia; try exact Hu.
      - unfold i64_max. lia.
      - right. split; [reflexivity|]. destruct digs; [congruence | cbn [length]; lia]. }
    unfold sign. destruct (y <? 0) eqn:N.
    + apply Z.ltb_lt in N. change ((45 =? 45)%N) with true. cbv iota. rewrite Hnum. cbn [pbind]. f_equal. unfold a. lia.
    + apply Z.ltb_ge in N. change ((43 =? 45)%N) with false. change ((43 =? 43)%N) with true. cbv iota.
      rewrite Hnum. f_equal. unfold a. lia.
Qed.

(* ================= date, time of day, fraction ================= *)

Lemma trim_ascii_head c s : is_ws c = false -> (128 <=? c)%N = false -> trim_start (c :: s) = POk tt (c :: s).
Proof. intros W A. cbn [trim_start]. rewrite W, A. reflexivity. Qed.

Lemma parse_date_text relaxed y m d rest :
  -262143 <= y <= 262142 -> 1 <= m <= 12 -> 1 <= d <= 31 ->
  parse_date relaxed (year_text y ++ 45%N :: pad_digits 2 m ++ 45%N :: pad_digits 2 d ++ rest) = POk (y, m, d) rest.
Proof.
  intros Hy Hm Hd. unfold parse_date.
  rewrite numeric_year by exact Hy. cbn [pbind].
  replace (in_i32 y) with true by (symmetry; unfold in_i32; apply andb_true_iff; split; apply Z.leb_le; lia).
  cbn [negb].
  assert (Sp : forall s, (if relaxed then trim_start (45%N :: s) else POk tt (45%N :: s)) = POk tt (45%N :: s))
    by (intros s; destruct relaxed; reflexivity).
  rewrite Sp. cbn [pbind literal]. change ((45 =? 45)%N) with true. cbv iota. cbn [pbind].
  rewrite numeric2 by lia. cbn [pbind].
  replace (check_range 1 12 m) with true by (symmetry; unfold check_range; apply andb_true_iff; split; apply Z.leb_le; lia).
  cbn [negb]. rewrite Sp. cbn [pbind literal]. change ((45 =? 45)%N) with true. cbv iota. cbn [pbind].
  rewrite numeric2 by lia. cbn [pbind].
  replace (check_range 1 31 d) with true by (symmetry; unfold check_range; apply andb_true_iff; split; apply Z.leb_le; lia).
  reflexivity.
Qed.

Lemma parse_hms_text relaxed hh mm ss rest :
  0 <= hh <= 23 -> 0 <= mm <= 59 -> 0 <= ss <= 59 ->
  parse_hms relaxed (pad_digits 2 hh ++ 58%N :: pad_digits 2 mm ++ 58%N :: pad_digits 2 ss ++ rest) = POk (hh, mm, ss) rest.
Proof.
  intros Hh Hm Hs. unfold parse_hms.
  rewrite numeric2 by lia. cbn [pbind].
  replace (check_range 0 23 hh) with true by (symmetry; unfold check_range; apply andb_true_iff; split; apply Z.leb_le; lia).
  cbn [negb].
  assert (Sp : forall s, (if relaxed then trim_start (58%N :: s) else POk tt (58%N :: s)) = POk tt (58%N :: s))
    by (intros s; destruct relaxed; reflexivity).
  rewrite Sp. cbn [pbind literal]. change ((58 =? 58)%N) with true. cbv iota. cbn [pbind].
  rewrite numeric2 by lia. cbn [pbind].
  replace (check_range 0 59 mm) with true by (symmetry; unfold check_range; apply andb_true_iff; split; apply Z.leb_le; lia).
  cbn [negb]. rewrite Sp. cbn [pbind literal]. change ((58 =? 58)%N) with true. cbv iota. cbn [pbind].
  rewrite numeric2 by lia. cbn [pbind].
  replace (check_range 0 60 ss) with true by (symmetry; unfold check_range; apply andb_true_iff; split; apply Z.leb_le; lia).
  reflexivity.
Qed.

Lemma nanosecond9_text nanos rest : 0 <= nanos < 1000000000 ->
  nanosecond9_opt (frac9 nanos ++ rest) = POk (Some nanos) rest.
Proof.
  intros Hn. unfold nanosecond9_opt, frac9. cbn [app]. change ((46 =? 46)%N) with true. cbv iota.
  rewrite number_pad_min by lia. reflexivity.
Qed.

(* a fraction of w digits followed by the offset sign *)
Lemma nanosecond_digits w k rest : (1 <= w <= 9)%nat -> 0 <= k < 10 ^ Z.of_nat w ->
  nanosecond_opt (46%N :: pad_digits w k ++ 43%N :: rest) = POk (Some (k * scale9 w)) (43%N :: rest).
Proof.
  intros Hw Hk. unfold nanosecond_opt. change ((46 =? 46)%N) with true. cbv iota.
  assert (Hnum : number (pad_digits w k ++ 43%N :: rest) 1 9 = POk k (43%N :: rest)).
  { unfold number. rewrite app_length, pad_length.
    replace (Nat.ltb (w + length (43%N :: rest)) 1) with false by (symmetry; apply Nat.ltb_ge; lia).
    assert (Hu : uval 10 (pad_digits w k) 0 = Some k) by (rewrite pad_uval by exact Hk; f_equal; lia).
    assert (Hb : k <= i64_max).
    { assert (10 ^ Z.of_nat w <= 10 ^ 9) by (apply Z.pow_le_mono_r; lia). unfold i64_max. lia. }
    apply (number_loop_digits _ (43%N :: rest) _ 1%nat 9%nat O 0 k Hu); rewrite ?pad_length; try lia.
    right. split; [reflexivity | lia]. }
  rewrite Hnum. cbn [pbind skip_digits]. change (is_digit 43) with false. cbv iota.
  rewrite app_length, pad_length. cbn [length].
  replace (w + S (length rest) - S (length rest))%nat with w by lia. reflexivity.
Qed.

Lemma nanosecond_auto_text nanos rest : 0 <= nanos < 1000000000 ->
  exists o, nanosecond_opt (frac_auto nanos ++ 43%N :: rest) = POk o (43%N :: rest)
            /\ match o with Some n => n | None => 0 end = nanos.
Proof.
  intros Hn. unfold frac_auto.
  destruct (nanos =? 0) eqn:E0.
  - apply Z.eqb_eq in E0. exists None. split; [reflexivity | lia].
  - destruct (nanos mod 1000000 =? 0) eqn:E1.
    + apply Z.eqb_eq in E1. eexists. cbn [app]. rewrite (nanosecond_digits 3) by (try lia; change (10 ^ Z.of_nat 3) with 1000; lia).
      split; [reflexivity|]. cbn [scale9]. lia.
    + destruct (nanos mod 1000 =? 0) eqn:E2.
      * apply Z.eqb_eq in E2. eexists. cbn [app]. rewrite (nanosecond_digits 6) by (try lia; change (10 ^ Z.of_nat 6) with 1000000; lia).
        split; [reflexivity|]. cbn [scale9]. lia.
      * eexists. cbn [app]. rewrite (nanosecond_digits 9) by (try lia; change (10 ^ Z.of_nat 9) with 1000000000; lia).
        split; [reflexivity|]. cbn [scale9]. lia.
Qed.

(* ================= the instant ================= *)

Lemma ts_days_range ns : ts_in_range ns = true -> days_min <= ns / 1000000000 / 86400 <= days_max.
Proof.
  unfold ts_in_range, secs_in_range, ts_min_secs, ts_max_secs, days_min, days_max. intros H.
  apply andb_true_iff in H. destruct H as [A B]. apply Z.leb_le in A. apply Z.leb_le in B. lia.
Qed.

Lemma resolve_fields ns nano_opt :
  ts_in_range ns = true ->
  match nano_opt with Some n => n | None => 0 end = ns mod 1000000000 ->
  let secs := ns / 1000000000 in
  let sod := secs mod 86400 in
  resolve (civil_from_days (secs / 86400)) (sod / 3600, (sod / 60) mod 60, sod mod 60) nano_opt 0 = ROk ns.
Proof.
  intros Hr Hnano. cbv zeta.
  pose proof (ts_days_range ns Hr) as Hd.
  set (secs := ns / 1000000000) in *. set (days := secs / 86400) in *. set (sod := secs mod 86400).
  pose proof (days_civil days) as Hdc. pose proof (civil_fields days) as Hcf. pose proof (civil_year_range days Hd) as Hyr.
  destruct (civil_from_days days) as [[y m] d] eqn:Ec.
  unfold resolve. rewrite Hnano.
  assert (Hv : valid_ymd y m d = true).
  { unfold valid_ymd. rewrite Hdc, Ec, !Z.eqb_refl.
    repeat (apply andb_true_iff; split); try (apply Z.leb_le; lia); reflexivity. }
  rewrite Hv. cbn [negb]. change ((-86400 <? 0) && (0 <? 86400)) with true. cbn [negb].
  assert (Hs : 0 <= sod < 86400) by (unfold sod; apply Z.mod_pos_bound; lia).
  replace (sod mod 60 =? 60) with false by (symmetry; apply Z.eqb_neq; lia).
  rewrite Hdc.
  replace (days * 86400 + sod / 3600 * 3600 + sod / 60 mod 60 * 60 + sod mod 60 - 0) with secs by (unfold days, sod; lia).
  unfold ts_in_range in Hr. fold secs in Hr. rewrite Hr. f_equal. unfold secs. lia.
Qed.

(* ================= the four layouts ================= *)

Theorem layout_roundtrip l ns : ts_in_range ns = true -> parse_layout l (format_layout l ns) = Some (ROk ns).
Proof.
  intros Hr. unfold format_layout. cbv zeta.
  pose proof (ts_days_range ns Hr) as Hd.
  pose proof (resolve_fields ns) as Hres. cbv zeta in Hres.
  set (secs := ns / 1000000000) in *. set (nanos := ns mod 1000000000) in *.
  set (days := secs / 86400) in *. set (sod := secs mod 86400) in *.
  pose proof (civil_fields days) as Hcf. pose proof (civil_year_range days Hd) as Hyr.
  destruct (civil_from_days days) as [[y m] d] eqn:Ec. destruct Hcf as [Hm Hdd].
  assert (Hs : 0 <= sod < 86400) by (unfold sod; apply Z.mod_pos_bound; lia).
  assert (Hn : 0 <= nanos < 1000000000) by (unfold nanos; apply Z.mod_pos_bound; lia).
  set (hh := sod / 3600) in *. set (mm := (sod / 60) mod 60) in *. set (ss := sod mod 60) in *.
  assert (Hhh : 0 <= hh <= 23) by (unfold hh; lia).
  assert (Hmm : 0 <= mm <= 59) by (unfold mm; lia).
  assert (Hss : 0 <= ss <= 59) by (unfold ss; lia).
  destruct l; unfold parse_layout.
  - (* %Y-%m-%dT%H:%M:%S%.9f%z *)
    rewrite parse_date_text by assumption. cbn [finish literal]. change ((84 =? 84)%N) with true. cbv iota. cbn [finish].
    rewrite parse_hms_text by assumption. cbn [finish].
    rewrite nanosecond9_text by assumption. cbn [finish].
    change (trim_start (ascii_bytes "+0000")) with (POk tt (ascii_bytes "+0000")). cbn [finish].
    change (timezone_offset false (ascii_bytes "+0000")) with (POk 0 []). cbn [finish].
    f_equal. apply Hres; [exact Hr | reflexivity].
  - (* %Y-%m-%dT%H:%M:%S%.f%:z *)
    rewrite parse_date_text by assumption. cbn [finish literal]. change ((84 =? 84)%N) with true. cbv iota. cbn [finish].
    rewrite parse_hms_text by assumption. cbn [finish].
    change (ascii_bytes "+00:00") with (43%N :: [48; 48; 58; 48; 48]%N).
    destruct (nanosecond_auto_text nanos [48; 48; 58; 48; 48]%N Hn) as (o & Ho & Hov). rewrite Ho. cbn [finish].
    change (trim_start [43; 48; 48; 58; 48; 48]%N) with (POk tt [43; 48; 48; 58; 48; 48]%N). cbn [finish].
    change (timezone_offset false [43; 48; 48; 58; 48; 48]%N) with (POk 0 []). cbn [finish].
    f_equal. apply Hres; [exact Hr | exact Hov].
  - (* %+ *)
    rewrite parse_date_text by assumption. cbn [finish].
    change ((84 =? 116)%N || (84 =? 84)%N || (84 =? 32)%N) with true. cbn [negb]. cbv iota.
    rewrite parse_hms_text by assumption. cbn [finish].
    change (ascii_bytes "+00:00") with (43%N :: [48; 48; 58; 48; 48]%N).
    destruct (nanosecond_auto_text nanos [48; 48; 58; 48; 48]%N Hn) as (o & Ho & Hov). rewrite Ho. cbn [finish].
    change (trim_start [43; 48; 48; 58; 48; 48]%N) with (POk tt [43; 48; 48; 58; 48; 48]%N). cbn [finish].
    change (trim_start [43; 48; 48; 58; 48; 48]%N) with (POk tt [43; 48; 48; 58; 48; 48]%N). cbn [finish].
    change ((43 =? 85)%N || (43 =? 117)%N) with false. cbn [andb]. cbv iota.
    change (timezone_offset true [43; 48; 48; 58; 48; 48]%N) with (POk 0 []). cbn [finish].
    f_equal. apply Hres; [exact Hr | exact Hov].
  - (* %Y-%m-%d %H:%M:%S.%f *)
    rewrite parse_date_text by assumption. cbn [finish].
    destruct (pad_head 1 hh) as (c & tl & Ep & Hc).
    assert (Ht : forall s, trim_start (32%N :: pad_digits 2 hh ++ s) = POk tt (pad_digits 2 hh ++ s)).
    { intros s. rewrite Ep. cbn [app]. change (trim_start (32%N :: c :: tl ++ s)) with (trim_start (c :: tl ++ s)).
      apply trim_digit_head. exact Hc. }
    rewrite Ht. cbn [finish].
    rewrite parse_hms_text by assumption. cbn [finish literal]. change ((46 =? 46)%N) with true. cbv iota. cbn [finish].
    rewrite <- (app_nil_r (pad_digits 9 nanos)). rewrite numeric9 by assumption. cbn [finish].
    f_equal. apply Hres; [exact Hr | reflexivity].
Qed.

(* the stdlib calls on a timestamp value *)
Theorem timestamp_text_roundtrip fmt l ns :
  layout_of fmt = Some l -> ts_in_range ns = true ->
  exists s, format_timestamp (VTs ns) (VBytes fmt) = Some (ROk (VBytes s))
            /\ parse_timestamp (VBytes s) (VBytes fmt) = Some (ROk (VTs ns)).
Proof.
  intros Hl Hr. unfold format_timestamp, parse_timestamp. rewrite Hl. eexists. split; [reflexivity|].
  rewrite (layout_roundtrip l ns Hr). reflexivity.
Qed.
