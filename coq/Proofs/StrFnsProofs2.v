(* More proofs about Model/StrFns.v (C28): case-insensitive starts_with outside the known class; the pieces of a
   split are valid UTF-8, hence join(split(s, d), d) = s on the functions themselves. *)
From Coq Require Import List NArith ZArith Bool Lia.
From VRL Require Import Base.Bytes Base.Value Model.CodecUtf8 Model.CaseTables Model.StrFns
     Proofs.CodecProofs Proofs.PercentProofs Proofs.PunycodeProofs Proofs.StrUtf8 Proofs.StrFnsProofs.
Import ListNotations.
Local Open Scope N_scope.

(* ---------- case-insensitive starts_with outside the known class ---------- *)
Definition ulen (c : N) : nat := length (utf8_of_cp c).
Definition low1 (c : N) : N := match lower_cp c with [d] => d | _ => c end.
(* a char whose lowercase is one char of the same encoded length *)
Definition len_stable (c : N) : bool :=
  match lower_cp c with [d] => Nat.eqb (ulen d) (ulen c) | _ => false end.
Definition blen (l : list N) : nat := length (utf8_of_cps l).

Lemma blen_cons c l : blen (c :: l) = (ulen c + blen l)%nat.
Proof. unfold blen, ulen. rewrite utf8_of_cps_cons, app_length. reflexivity. Qed.

Lemma ulen_pos c : (1 <= ulen c)%nat.
Proof. unfold ulen. pose proof (utf8_of_cp_nonempty c). destruct (utf8_of_cp c); [contradiction | cbn; lia]. Qed.

Lemma ascii_lower_table : forallb (fun c => bytes_eqb (lower_cp c) [ascii_lower c]) (map N.of_nat (seq 0 128)) = true.
Proof. vm_compute. reflexivity. Qed.

Lemma lower_cp_ascii c : c < 128 -> lower_cp c = [ascii_lower c].
Proof.
  intros H. pose proof ascii_lower_table as T. rewrite forallb_forall in T.
  apply bytes_eqb_eq, T. apply in_map_iff. exists (N.to_nat c). split; [lia|]. apply in_seq. lia.
Qed.

Lemma ci_char_eq_stable a b : len_stable a = true -> len_stable b = true ->
  ci_char_eq a b = (low1 a =? low1 b).
Proof.
  unfold len_stable, low1, ci_char_eq. intros Ha Hb.
  destruct ((a <? 128) && (b <? 128)) eqn:E.
  - apply andb_true_iff in E. destruct E as [E1 E2]. apply N.ltb_lt in E1, E2.
    rewrite (lower_cp_ascii a E1), (lower_cp_ascii b E2). reflexivity.
  - destruct (lower_cp a) as [|da [|? ?]]; try discriminate.
    destruct (lower_cp b) as [|db [|? ?]]; try discriminate.
    cbn [zip_all]. apply andb_true_r.
Qed.

Lemma stable_ulen a b : len_stable a = true -> len_stable b = true -> low1 a = low1 b -> ulen a = ulen b.
Proof.
  unfold len_stable, low1. intros Ha Hb E.
  destruct (lower_cp a) as [|da [|? ?]]; try discriminate.
  destruct (lower_cp b) as [|db [|? ?]]; try discriminate.
  apply Nat.eqb_eq in Ha, Hb. subst. lia.
Qed.

Lemma zip_to_prefix cp : forall cs, forallb len_stable cp = true -> forallb len_stable cs = true ->
  zip_all ci_char_eq cp cs = true -> (blen cp <= blen cs)%nat ->
  is_prefix (map low1 cp) (map low1 cs) = true.
Proof.
  induction cp as [|a cp IH]; intros cs Hp Hs Hz Hl; [reflexivity|].
  destruct cs as [|b cs].
  - rewrite blen_cons in Hl. pose proof (ulen_pos a). unfold blen in Hl. cbn in Hl. lia.
  - cbn [forallb] in Hp, Hs. apply andb_true_iff in Hp, Hs. destruct Hp as [Ha Hp]. destruct Hs as [Hb Hs].
    cbn [zip_all] in Hz. apply andb_true_iff in Hz. destruct Hz as [Hab Hz].
    rewrite (ci_char_eq_stable a b Ha Hb) in Hab. cbn [map is_prefix]. rewrite Hab. cbn [andb].
    apply N.eqb_eq in Hab. pose proof (stable_ulen a b Ha Hb Hab) as Hu.
    rewrite !blen_cons in Hl. apply IH; try assumption. lia.
Qed.

Lemma prefix_to_zip cp : forall cs, forallb len_stable cp = true -> forallb len_stable cs = true ->
  is_prefix (map low1 cp) (map low1 cs) = true ->
  zip_all ci_char_eq cp cs = true /\ (blen cp <= blen cs)%nat.
Proof.
  induction cp as [|a cp IH]; intros cs Hp Hs H; [split; [reflexivity | unfold blen; cbn; lia]|].
  destruct cs as [|b cs]; [discriminate|].
  cbn [forallb] in Hp, Hs. apply andb_true_iff in Hp, Hs. destruct Hp as [Ha Hp]. destruct Hs as [Hb Hs].
  cbn [map is_prefix] in H. apply andb_true_iff in H. destruct H as [Hab H].
  destruct (IH cs Hp Hs H) as [Hz Hl]. cbn [zip_all]. rewrite (ci_char_eq_stable a b Ha Hb), Hab, Hz.
  apply N.eqb_eq in Hab. pose proof (stable_ulen a b Ha Hb Hab). rewrite !blen_cons. split; [reflexivity | lia].
Qed.

(* ---------- the Chars iterator on valid UTF-8 yields exactly the chars ---------- *)
Lemma ci_items_valid_aux (n : nat) : forall s, (length s <= n)%nat -> valid_utf8 s = true ->
  ci_items s = map CIok (utf8_chars s).
Proof.
  induction n as [|n IH]; intros s Hl Hv.
  - destruct s; [reflexivity | cbn in Hl; lia].
  - destruct s as [|b0 r]; [reflexivity|].
    cbn [valid_utf8 utf8_chars ci_items] in *. cbn [length] in Hl.
    destruct (b0 <? 128) eqn:E0.
    { cbn [map]. f_equal. apply IH; [lia | exact Hv]. }
    destruct (width2 b0) eqn:W2.
    { destruct r as [|b1 r1]; [discriminate|]. apply andb_true_iff in Hv. destruct Hv as [Hc Hv]. rewrite Hc.
      unfold width2 in W2. apply in_range_iff' in W2. rewrite (ltb_t b0 224) by lia.
      cbn [map]. f_equal. apply IH; [cbn [length] in Hl; lia | exact Hv]. }
    destruct (width3 b0) eqn:W3.
    { destruct r as [|b1 [|b2 r2]]; try discriminate.
      apply andb_true_iff in Hv. destruct Hv as [Hv Hr]. rewrite Hv.
      unfold width3 in W3. apply in_range_iff' in W3. rewrite (ltb_f b0 224), (ltb_t b0 240) by lia.
      cbn [map]. f_equal. apply IH; [cbn [length] in Hl; lia | exact Hr]. }
    destruct (width4 b0) eqn:W4.
    { destruct r as [|b1 [|b2 [|b3 r3]]]; try discriminate.
      apply andb_true_iff in Hv. destruct Hv as [Hv Hr]. rewrite Hv.
      unfold width4 in W4. apply in_range_iff' in W4. rewrite (ltb_f b0 224), (ltb_f b0 240) by lia.
      cbn [map]. f_equal. apply IH; [cbn [length] in Hl; lia | exact Hr]. }
    discriminate.
Qed.

Theorem ci_items_valid s : valid_utf8 s = true -> ci_items s = map CIok (utf8_chars s).
Proof. apply (ci_items_valid_aux (length s)); lia. Qed.

Lemma zip_all_map_ok a : forall b,
  zip_all ci_item_eq (map CIok a) (map CIok b) = zip_all ci_char_eq a b.
Proof.
  induction a as [|x a IH]; intros [|y b]; try reflexivity. cbn [map zip_all ci_item_eq]. rewrite IH. reflexivity.
Qed.

Lemma starts_with_ci_valid s p : valid_utf8 s = true -> valid_utf8 p = true ->
  starts_with_ci s p =
  if (length s <? length p)%nat then false else zip_all ci_char_eq (utf8_chars p) (utf8_chars s).
Proof.
  intros Vs Vp. unfold starts_with_ci. rewrite (ci_items_valid s Vs), (ci_items_valid p Vp), zip_all_map_ok.
  reflexivity.
Qed.

(* ---------- a case-sensitive match of a valid needle is a case-insensitive match, whatever the haystack ---------- *)
Lemma ci_items_app_aux (n : nat) : forall p t, (length p <= n)%nat -> valid_utf8 p = true ->
  ci_items (p ++ t) = ci_items p ++ ci_items t.
Proof.
  induction n as [|n IH]; intros p t Hl Hv.
  - destruct p; [reflexivity | cbn in Hl; lia].
  - destruct p as [|b0 r]; [reflexivity|].
    cbn [valid_utf8] in Hv. cbn [app ci_items]. cbn [length] in Hl.
    destruct (b0 <? 128). { cbn [app]. f_equal. apply IH; [lia | exact Hv]. }
    destruct (width2 b0).
    { destruct r as [|b1 r1]; [discriminate|]. apply andb_true_iff in Hv. destruct Hv as [Hc Hv].
      cbn [app]. rewrite Hc. cbn [app]. f_equal. apply IH; [cbn [length] in Hl; lia | exact Hv]. }
    destruct (width3 b0).
    { destruct r as [|b1 [|b2 r2]]; try discriminate.
      apply andb_true_iff in Hv. destruct Hv as [Hv Hr]. cbn [app]. rewrite Hv. cbn [app]. f_equal.
      apply IH; [cbn [length] in Hl; lia | exact Hr]. }
    destruct (width4 b0).
    { destruct r as [|b1 [|b2 [|b3 r3]]]; try discriminate.
      apply andb_true_iff in Hv. destruct Hv as [Hv Hr]. cbn [app]. rewrite Hv. cbn [app]. f_equal.
      apply IH; [cbn [length] in Hl; lia | exact Hr]. }
    discriminate.
Qed.

Lemma ci_items_app p t : valid_utf8 p = true -> ci_items (p ++ t) = ci_items p ++ ci_items t.
Proof. apply (ci_items_app_aux (length p)); lia. Qed.

Lemma zip_all_eqb_refl l : zip_all N.eqb l l = true.
Proof. induction l as [|x l IH]; [reflexivity|]. cbn [zip_all]. rewrite N.eqb_refl. exact IH. Qed.

Lemma ci_char_eq_refl c : ci_char_eq c c = true.
Proof.
  unfold ci_char_eq. destruct ((c <? 128) && (c <? 128)); [apply N.eqb_refl | apply zip_all_eqb_refl].
Qed.

Lemma ci_item_eq_refl x : ci_item_eq x x = true.
Proof. destruct x; cbn [ci_item_eq]; [apply ci_char_eq_refl | apply N.eqb_refl]. Qed.

Lemma zip_all_prefix_refl l r : zip_all ci_item_eq l (l ++ r) = true.
Proof. induction l as [|x l IH]; [reflexivity|]. cbn [app zip_all]. rewrite ci_item_eq_refl. exact IH. Qed.

Theorem starts_with_cs_ci s p : valid_utf8 p = true -> starts_with_cs s p = true -> starts_with_ci s p = true.
Proof.
  intros Vp H. apply starts_with_cs_spec in H. destruct H as [t ->]. unfold starts_with_ci.
  rewrite (proj2 (Nat.ltb_ge (length (p ++ t)) (length p))) by (rewrite app_length; lia).
  rewrite (ci_items_app p t Vp). apply zip_all_prefix_refl.
Qed.

(* ...but not of a needle that ends in the middle of a char of the haystack: starts_with(x"c3a9", x"c3") *)
Lemma starts_with_cs_ci_needs_valid :
  starts_with_cs [195; 169] [195] = true /\ starts_with_ci [195; 169] [195] = false.
Proof. vm_compute. split; reflexivity. Qed.

(* the class of the known finding C28-starts-with-ci-zip *)
Definition KnownC28_sw_zip (s p : bytes) : bool :=
  negb (forallb len_stable (utf8_chars s) && forallb len_stable (utf8_chars p)).

Theorem starts_with_ci_spec s p : valid_utf8 s = true -> valid_utf8 p = true -> KnownC28_sw_zip s p = false ->
  starts_with_ci s p = is_prefix (map low1 (utf8_chars p)) (map low1 (utf8_chars s)).
Proof.
  intros Vs Vp K. unfold KnownC28_sw_zip in K. apply negb_false_iff, andb_true_iff in K. destruct K as [Ks Kp].
  rewrite (starts_with_ci_valid s p Vs Vp).
  assert (Ls : length s = blen (utf8_chars s)) by (unfold blen; rewrite utf8_reencode by exact Vs; reflexivity).
  assert (Lp : length p = blen (utf8_chars p)) by (unfold blen; rewrite utf8_reencode by exact Vp; reflexivity).
  destruct (is_prefix (map low1 (utf8_chars p)) (map low1 (utf8_chars s))) eqn:P.
  - destruct (prefix_to_zip _ _ Kp Ks P) as [Hz Hl].
    rewrite (proj2 (Nat.ltb_ge (length s) (length p))) by lia. exact Hz.
  - destruct (length s <? length p)%nat eqn:G; [reflexivity|]. apply Nat.ltb_ge in G.
    destruct (zip_all ci_char_eq (utf8_chars p) (utf8_chars s)) eqn:Z; [|reflexivity].
    rewrite (zip_to_prefix _ _ Kp Ks Z) in P by lia. discriminate.
Qed.
(* ---------- the pieces of a split are valid UTF-8, so join's lossy conversion leaves them alone ---------- *)
Definition starts_at_boundary (r : bytes) : Prop := match r with [] => True | x :: _ => is_cont x = false end.

Lemma ok3_cont b0 b1 : width3 b0 = true -> ok3 b0 b1 = true -> is_cont b1 = true.
Proof.
  intros W H. destruct (ok3_bounds b0 b1 W H) as [Hb _]. unfold is_cont, in_range.
  rewrite (proj2 (N.leb_le 128 b1)), (proj2 (N.leb_le b1 191)) by lia. reflexivity.
Qed.

Lemma ok4_cont b0 b1 : width4 b0 = true -> ok4 b0 b1 = true -> is_cont b1 = true.
Proof.
  intros W H. destruct (ok4_bounds b0 b1 W H) as [Hb _]. unfold is_cont, in_range.
  rewrite (proj2 (N.leb_le 128 b1)), (proj2 (N.leb_le b1 191)) by lia. reflexivity.
Qed.

Lemma valid_split_aux (n : nat) : forall b r, (length b <= n)%nat -> valid_utf8 (b ++ r) = true ->
  starts_at_boundary r -> valid_utf8 b = true /\ valid_utf8 r = true.
Proof.
  induction n as [|n IH]; intros b r Hl Hv Hr.
  - destruct b; [split; [reflexivity | exact Hv] | cbn in Hl; lia].
  - destruct b as [|b0 b']; [split; [reflexivity | exact Hv]|].
    cbn [length] in Hl. cbn [app valid_utf8] in Hv |- *.
    destruct (b0 <? 128). { apply IH; [lia | exact Hv | exact Hr]. }
    destruct (width2 b0).
    { destruct b' as [|b1 b''].
      - cbn [app] in Hv. destruct r as [|x r]; [discriminate|]. apply andb_true_iff in Hv. destruct Hv as [Hc _].
        cbn in Hr. congruence.
      - cbn [app] in Hv. apply andb_true_iff in Hv. destruct Hv as [Hc Hv]. rewrite Hc. cbn [andb].
        apply IH; [cbn [length] in Hl; lia | exact Hv | exact Hr]. }
    destruct (width3 b0) eqn:W3.
    { destruct b' as [|b1 [|b2 b'']].
      - cbn [app] in Hv. destruct r as [|x [|y r]]; try discriminate.
        apply andb_true_iff in Hv. destruct Hv as [Hv _]. apply andb_true_iff in Hv. destruct Hv as [H1 _].
        pose proof (ok3_cont b0 x W3 H1). cbn in Hr. congruence.
      - cbn [app] in Hv. destruct r as [|y r]; try discriminate.
        apply andb_true_iff in Hv. destruct Hv as [Hv _]. apply andb_true_iff in Hv. destruct Hv as [_ H2].
        cbn in Hr. congruence.
      - cbn [app] in Hv. apply andb_true_iff in Hv. destruct Hv as [Hv Hrest]. rewrite Hv. cbn [andb].
        apply IH; [cbn [length] in Hl; lia | exact Hrest | exact Hr]. }
    destruct (width4 b0) eqn:W4.
    { destruct b' as [|b1 [|b2 [|b3 b'']]].
      - cbn [app] in Hv. destruct r as [|x [|y [|z r]]]; try discriminate.
        apply andb_true_iff in Hv. destruct Hv as [Hv _]. apply andb_true_iff in Hv. destruct Hv as [Hv _].
        apply andb_true_iff in Hv. destruct Hv as [H1 _].
        pose proof (ok4_cont b0 x W4 H1). cbn in Hr. congruence.
      - cbn [app] in Hv. destruct r as [|y [|z r]]; try discriminate.
        apply andb_true_iff in Hv. destruct Hv as [Hv _]. apply andb_true_iff in Hv. destruct Hv as [Hv _].
        apply andb_true_iff in Hv. destruct Hv as [_ H2]. cbn in Hr. congruence.
      - cbn [app] in Hv. destruct r as [|z r]; try discriminate.
        apply andb_true_iff in Hv. destruct Hv as [Hv _]. apply andb_true_iff in Hv. destruct Hv as [_ H3].
        cbn in Hr. congruence.
      - cbn [app] in Hv. apply andb_true_iff in Hv. destruct Hv as [Hv Hrest]. rewrite Hv. cbn [andb].
        apply IH; [cbn [length] in Hl; lia | exact Hrest | exact Hr]. }
    discriminate.
Qed.

Lemma valid_split b r : valid_utf8 (b ++ r) = true -> starts_at_boundary r ->
  valid_utf8 b = true /\ valid_utf8 r = true.
Proof. apply (valid_split_aux (length b)); lia. Qed.

Lemma valid_head_boundary p : valid_utf8 p = true -> starts_at_boundary p.
Proof.
  destruct p as [|x p]; [intros _; exact I|]. cbn [valid_utf8 starts_at_boundary]. unfold is_cont, in_range.
  destruct (x <? 128) eqn:E0.
  { intros _. apply N.ltb_lt in E0. rewrite (proj2 (N.leb_gt 128 x)) by lia. reflexivity. }
  destruct (width2 x) eqn:W2.
  { intros _. unfold width2 in W2. apply in_range_iff' in W2. rewrite (proj2 (N.leb_gt x 191)) by lia. apply andb_false_r. }
  destruct (width3 x) eqn:W3.
  { intros _. unfold width3 in W3. apply in_range_iff' in W3. rewrite (proj2 (N.leb_gt x 191)) by lia. apply andb_false_r. }
  destruct (width4 x) eqn:W4.
  { intros _. unfold width4 in W4. apply in_range_iff' in W4. rewrite (proj2 (N.leb_gt x 191)) by lia. apply andb_false_r. }
  discriminate.
Qed.

Lemma valid_app_prefix p a : valid_utf8 p = true -> valid_utf8 (p ++ a) = valid_utf8 a.
Proof.
  intros Hp. rewrite <- (utf8_reencode p Hp). apply valid_of_cps_app, chars_scalar, Hp.
Qed.

Lemma find_sub_valid p v b a : valid_utf8 p = true -> p <> [] -> valid_utf8 v = true ->
  find_sub p v = Some (b, a) -> valid_utf8 b = true /\ valid_utf8 a = true.
Proof.
  intros Hp Hne Hv F. pose proof (find_sub_some _ _ _ _ F) as E. subst v.
  destruct (valid_split b (p ++ a) Hv) as [Hb Hpa].
  - pose proof (valid_head_boundary p Hp) as H. destruct p; [contradiction | exact H].
  - split; [exact Hb|]. rewrite valid_app_prefix in Hpa by exact Hp. exact Hpa.
Qed.

Definition all_valid (l : list bytes) : Prop := Forall (fun x => valid_utf8 x = true) l.

Lemma splitn_ne_valid fuel : forall n p v, valid_utf8 p = true -> p <> [] -> valid_utf8 v = true ->
  all_valid (splitn_ne fuel n p v).
Proof.
  induction fuel as [|f IH]; intros n p v Hp Hne Hv; cbn [splitn_ne]; [repeat constructor; exact Hv|].
  destruct (n =? 0); [constructor|]. destruct (n =? 1); [repeat constructor; exact Hv|].
  destruct (find_sub p v) as [[b a]|] eqn:F; [|repeat constructor; exact Hv].
  destruct (find_sub_valid p v b a Hp Hne Hv F) as [Hb Ha]. constructor; [exact Hb | apply IH; assumption].
Qed.

Lemma all_valid_concat l : all_valid l -> valid_utf8 (concat l) = true.
Proof. induction 1 as [|x l Hx _ IH]; [reflexivity|]. cbn [concat]. apply valid_utf8_app; assumption. Qed.

Lemma all_valid_firstn n l : all_valid l -> all_valid (firstn n l).
Proof. apply forall_firstn. Qed.

Lemma all_valid_skipn n l : all_valid l -> all_valid (skipn n l).
Proof.
  revert l; induction n as [|n IH]; intros l H; [exact H|]. destruct H as [|x l _ Hl]; [constructor|]. apply IH; exact Hl.
Qed.

Lemma char_pieces_valid v : valid_utf8 v = true -> all_valid (char_pieces v).
Proof.
  intros Hv. unfold char_pieces. apply Forall_map. eapply Forall_impl; [|apply (chars_scalar v Hv)].
  cbn beta. intros c Hc. rewrite <- (app_nil_r (utf8_of_cp c)). rewrite valid_cp by exact Hc. reflexivity.
Qed.

Lemma split_empty_valid n v : valid_utf8 v = true -> all_valid (split_empty n v).
Proof.
  intros Hv. unfold split_empty.
  assert (Hall : all_valid ([] :: char_pieces v ++ [[]])).
  { constructor; [reflexivity|]. apply Forall_app; split; [apply char_pieces_valid; exact Hv | repeat constructor]. }
  destruct (n =? 0); [constructor|]. destruct (_ <=? n); [exact Hall|].
  rewrite take_n_firstn. apply Forall_app; split; [apply all_valid_firstn; exact Hall|].
  constructor; [|constructor]. apply all_valid_concat, all_valid_skipn, Hall.
Qed.

Theorem split_pieces_valid s d limit : all_valid (split_str s d limit).
Proof.
  unfold split_str. destruct (utf8_lossy d) as [|x p] eqn:E.
  - apply split_empty_valid, valid_lossy.
  - apply splitn_ne_valid; [rewrite <- E; apply valid_lossy | discriminate | apply valid_lossy].
Qed.

Lemma all_bytes_valid l : all_valid l -> all_bytes (map VBytes l) = Some l.
Proof.
  induction 1 as [|x l Hx _ IH]; [reflexivity|]. cbn [map all_bytes]. rewrite IH, (lossy_valid x Hx). reflexivity.
Qed.

(* the law on the functions themselves: join(split(s, d, limit: n), d) = s (lossily converted) for n >= 1 *)
Theorem fn_join_split s d limit : (1 <= limit)%Z ->
  exists l, fn_split (VBytes s) (VBytes d) (VInt limit) = ROk (VArr l)
            /\ fn_join (VArr l) (Some (VBytes d)) = ROk (VBytes (utf8_lossy s)).
Proof.
  intros Hl. eexists. split; [reflexivity|]. unfold fn_join.
  rewrite (all_bytes_valid _ (split_pieces_valid s d limit)), (join_split s d limit Hl). reflexivity.
Qed.
