(* The run of a program depends on the function semantics only through the functions it calls
   (C14: results are a function of source, event, metadata and those functions; C36: a parameter
   such as the timezone that reaches only F can matter only through calls sensitive to it). *)
From Coq Require Import List NArith ZArith Bool Lia.
From VRL Require Import Base.Bytes Base.Value Model.ValueCrud Model.Expr Model.Eval Model.Info
     Proofs.ExprInd Proofs.EvalProofs.
Import ListNotations.

Section Ext.
  Variable F1 F2 : fname -> list value -> option value.
  Variable binop : opcode -> value -> value -> option value.

  Definition agree_on (fs : list fname) : Prop := forall f, In f fs -> forall args, F1 f args = F2 f args.

  Lemma agree_app_l a b : agree_on (a ++ b) -> agree_on a.
  Proof. intros H f Hf. apply H. apply in_or_app; auto. Qed.
  Lemma agree_app_r a b : agree_on (a ++ b) -> agree_on b.
  Proof. intros H f Hf. apply H. apply in_or_app; auto. Qed.

  Definition ext_expr (e : expr) : Prop :=
    agree_on (fnames e) -> forall s, eval F1 binop e s = eval F2 binop e s.

  Lemma fl_eq es :
    (fix fl (l : list expr) : list fname := match l with [] => [] | x :: r => fnames x ++ fl r end) es
    = fnames_l es.
  Proof. induction es as [|x r IH]; cbn; auto; try (rewrite IH; reflexivity). Qed.

  Lemma blk_ext es : Forall ext_expr es -> agree_on (fnames_l es) ->
    forall s, blk F1 binop es s = blk F2 binop es s.
  Proof.
    induction 1 as [|e es He Hes IH]; intros Ha s; [reflexivity|].
    unfold fnames_l in Ha. cbn [flat_map] in Ha. fold (fnames_l es) in Ha.
    pose proof (He (agree_app_l _ _ Ha) s) as E1. specialize (IH (agree_app_r _ _ Ha)).
    destruct es as [|e2 es'].
    - cbn [blk]. exact E1.
    - change (blk F1 binop (e :: e2 :: es') s) with
        (match eval F1 binop e s with (inl _, s') => blk F1 binop (e2 :: es') s' | (inr er, s') => (inr er, s') end).
      change (blk F2 binop (e :: e2 :: es') s) with
        (match eval F2 binop e s with (inl _, s') => blk F2 binop (e2 :: es') s' | (inr er, s') => (inr er, s') end).
      rewrite E1. destruct (eval F2 binop e s) as [[v|er] s']; auto.
  Qed.

  Lemma arr_go_ext es : Forall ext_expr es -> agree_on (fnames_l es) ->
    forall acc s, arr_go F1 binop es acc s = arr_go F2 binop es acc s.
  Proof.
    induction 1 as [|e es He Hes IH]; intros Ha acc s; [reflexivity|].
    unfold fnames_l in Ha. cbn [flat_map] in Ha. fold (fnames_l es) in Ha.
    cbn [arr_go]. rewrite (He (agree_app_l _ _ Ha) s).
    destruct (eval F2 binop e s) as [[v|er] s']; auto. apply IH. eapply agree_app_r; eauto.
  Qed.

  Lemma obj_go_ext kvs : Forall (fun kv => ext_expr (snd kv)) kvs ->
    agree_on (flat_map (fun kv => fnames (snd kv)) kvs) ->
    forall acc s, obj_go F1 binop kvs acc s = obj_go F2 binop kvs acc s.
  Proof.
    induction 1 as [|[k e] kvs He Hes IH]; intros Ha acc s; [reflexivity|].
    cbn [flat_map snd] in Ha. cbn [obj_go]. cbn [snd] in He. rewrite (He (agree_app_l _ _ Ha) s).
    destruct (eval F2 binop e s) as [[v|er] s']; auto. apply IH. eapply agree_app_r; eauto.
  Qed.

  Lemma call_go_ext f es : Forall ext_expr es -> agree_on (f :: fnames_l es) ->
    forall acc s, call_go F1 binop f es acc s = call_go F2 binop f es acc s.
  Proof.
    intros Hes. revert f. induction Hes as [|e es He Hes IH]; intros f Ha acc s.
    - cbn [call_go]. rewrite (Ha f (or_introl eq_refl)). reflexivity.
    - unfold fnames_l in Ha. cbn [flat_map] in Ha. fold (fnames_l es) in Ha.
      cbn [call_go].
      assert (Ae : agree_on (fnames e)). { intros g Hg. apply Ha. right. apply in_or_app; auto. }
      rewrite (He Ae s). destruct (eval F2 binop e s) as [[v|er] s']; auto.
      apply IH. intros g [->|Hg]; apply Ha; [left; auto|right; apply in_or_app; auto].
  Qed.

  Lemma kv_eq kvs :
    (fix go (l : list (bytes * expr)) : list fname :=
       match l with [] => [] | kv :: r => fnames (snd kv) ++ go r end) kvs
    = flat_map (fun kv => fnames (snd kv)) kvs.
  Proof. induction kvs as [|x r IH]; cbn; auto; try (rewrite IH; reflexivity). Qed.

  Lemma run1_ext b1 b2 p a : (forall s, b1 s = b2 s) -> forall s, run1 b1 p a s = run1 b2 p a s.
  Proof. intros H s. unfold run1. destruct (bind_param s p a) as [o s1]. rewrite H. reflexivity. Qed.

  Lemma run2_ext b1 b2 p0 p1 a b : (forall s, b1 s = b2 s) -> forall s, run2 b1 p0 p1 a b s = run2 b2 p0 p1 a b s.
  Proof.
    intros H s. unfold run2. destruct (bind_param s p0 a) as [o s1]. destruct (bind_param s1 p1 b) as [o1 s2].
    rewrite H. reflexivity.
  Qed.

  Lemma loop_ext {X Y} (st1 st2 : X -> state -> (Y + err) * state) :
    (forall a s, st1 a s = st2 a s) -> forall items s, loop st1 items s = loop st2 items s.
  Proof.
    intros H. induction items as [|a r IH]; intros s; cbn [loop]; auto.
    rewrite H. destruct (st2 a s) as [[b|e] s']; auto. rewrite IH. reflexivity.
  Qed.

  Lemma run_closure_ext b1 b2 ps cf v : (forall s, b1 s = b2 s) ->
    forall s, run_closure b1 ps cf v s = run_closure b2 ps cf v s.
  Proof.
    intros H s. assert (H1 := fun p a => run1_ext b1 b2 p a H). assert (H2 := fun p0 p1 a b => run2_ext b1 b2 p0 p1 a b H).
    unfold run_closure.
    destruct cf, v; auto; f_equal; apply loop_ext; intros a s1.
    - unfold step_each_kv. rewrite H2. reflexivity.
    - unfold step_each_iv. rewrite H2. reflexivity.
    - unfold step_filter_kv. rewrite H2. reflexivity.
    - unfold step_filter_iv. rewrite H2. reflexivity.
    - unfold step_mapk. rewrite H1. reflexivity.
    - unfold step_mapv_kv. rewrite H1. reflexivity.
    - unfold step_mapv. rewrite H1. reflexivity.
  Qed.

  Theorem eval_ext e : ext_expr e.
  Proof.
    induction e using expr_ind'; unfold ext_expr in *; intros Ha s; try reflexivity.
    - cbn [eval fnames] in *. rewrite (IHe Ha s). reflexivity.
    - change (eval F1 binop (EArr es) s) with (arr_go F1 binop es [] s).
      change (eval F2 binop (EArr es) s) with (arr_go F2 binop es [] s).
      cbn [fnames] in Ha. rewrite fl_eq in Ha. apply arr_go_ext; auto.
    - change (eval F1 binop (EObj kvs) s) with (obj_go F1 binop kvs [] s).
      change (eval F2 binop (EObj kvs) s) with (obj_go F2 binop kvs [] s).
      cbn [fnames] in Ha. rewrite kv_eq in Ha. apply obj_go_ext; auto.
    - change (eval F1 binop (EBlock es) s) with (blk F1 binop es s).
      change (eval F2 binop (EBlock es) s) with (blk F2 binop es s).
      cbn [fnames] in Ha. rewrite fl_eq in Ha. apply blk_ext; auto.
    - cbn [eval fnames] in *. apply IHe; auto.
    - rewrite !eval_if. cbn [fnames] in Ha. rewrite !fl_eq in Ha.
      rewrite (blk_ext c H (agree_app_l _ _ Ha) s).
      destruct (blk F2 binop c s) as [[v|er] s']; auto.
      destruct (try_boolean v) as [[|]|]; auto.
      + apply blk_ext; auto. eapply agree_app_l. eapply agree_app_r; eauto.
      + destruct f as [fb|]; auto. cbn in H1. apply blk_ext; auto.
        assert (A2 := agree_app_r _ _ (agree_app_r _ _ Ha)). rewrite fl_eq in A2. exact A2.
    - cbn [fnames] in Ha.
      pose proof (IHe1 (agree_app_l _ _ Ha)) as E1. pose proof (IHe2 (agree_app_r _ _ Ha)) as E2.
      destruct o;
        try (rewrite !eval_plain by reflexivity; rewrite E1; destruct (eval F2 binop e1 s) as [[v|er] s']; auto;
             rewrite E2; reflexivity).
      + rewrite !eval_or, E1. destruct (eval F2 binop e1 s) as [[v|er] s']; auto. destruct (falsy v); auto.
      + rewrite !eval_and, E1. destruct (eval F2 binop e1 s) as [[v|er] s']; auto. destruct (falsy v); auto.
        rewrite E2. reflexivity.
      + rewrite !eval_err, E1. destruct (eval F2 binop e1 s) as [[v|[ | | | ]] s']; auto.
    - cbn [eval fnames] in *. rewrite (IHe Ha s). reflexivity.
    - cbn [eval fnames] in *. rewrite (IHe Ha s). reflexivity.
    - rewrite !eval_assign_inf. cbn [fnames] in Ha. rewrite (IHe Ha s). reflexivity.
    - destruct m as [m|]; [|reflexivity]. cbn [eval fnames] in *. cbn in H. rewrite (H Ha s). reflexivity.
    - cbn [eval fnames] in *. rewrite (IHe Ha s). reflexivity.
    - change (eval F1 binop (ECall f args) s) with (call_go F1 binop f args [] s).
      change (eval F2 binop (ECall f args) s) with (call_go F2 binop f args [] s).
      cbn [fnames] in Ha. rewrite fl_eq in Ha. apply call_go_ext; auto.
    - rewrite !eval_closure. cbn [fnames] in Ha. rewrite fl_eq in Ha.
      rewrite (IHe (agree_app_l _ _ Ha) s). destruct (eval F2 binop e s) as [[v|er] s']; auto.
      assert (Hb : forall s0, blk F1 binop body s0 = blk F2 binop body s0).
      { apply blk_ext; auto. eapply agree_app_r; eauto. }
      apply run_closure_ext. exact Hb.
  Qed.

  Theorem run_ext es : agree_on (fnames_l es) -> forall s, run F1 binop es s = run F2 binop es s.
  Proof.
    intros Ha s. unfold run. destruct (pop_fault s) as [bad fs]. destruct bad; auto.
    assert (E : forall s0, eval F1 binop (EBlock es) s0 = eval F2 binop (EBlock es) s0).
    { intros s0. apply eval_ext. cbn [fnames]. rewrite fl_eq. exact Ha. }
    rewrite E. reflexivity.
  Qed.
End Ext.
