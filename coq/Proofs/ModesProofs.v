(* Inversion of the modes of Model/Modes.v for every data length, over an arbitrary block cipher:
   CBC needs D k (E k b) = b on 16-byte blocks; CFB, OFB and CTR only use E (both directions) and need
   nothing but |E k b| = 16. *)
From Coq Require Import List NArith Bool Arith Lia.
From VRL Require Import Base.Bytes Model.Modes.
Import ListNotations.

(* ---------- xor ---------- *)

Lemma xorb_length a b : length (xorb a b) = Nat.min (length a) (length b).
Proof. revert b; induction a as [|x a IH]; intros [|y b]; cbn; auto. Qed.

Lemma xorb_cancel a b : (length a <= length b)%nat -> xorb (xorb a b) b = a.
Proof.
  revert b; induction a as [|x a IH]; intros [|y b] H; cbn in *; try reflexivity; try lia.
  rewrite N.lxor_assoc, N.lxor_nilpotent, N.lxor_0_r. f_equal. apply IH. lia.
Qed.

(* ---------- chunking ---------- *)

(* every chunk but the last is a whole block, the last has 1..16 bytes *)
Fixpoint shaped (l : list bytes) : Prop :=
  match l with
  | [] => True
  | c :: r => match r with
              | [] => (1 <= length c <= 16)%nat
              | _ => length c = 16%nat /\ shaped r
              end
  end.

Definition full (l : list bytes) : Prop := Forall (fun c => length c = 16%nat) l.

Lemma full_shaped l : full l -> shaped l.
Proof.
  induction 1 as [|c r Hc Hr IH]; [exact I|]. cbn. destruct r; [lia|]. split; assumption.
Qed.

Lemma firstn_app_exact {A} (l1 l2 : list A) : firstn (length l1) (l1 ++ l2) = l1.
Proof. induction l1; cbn; [reflexivity|]. f_equal. assumption. Qed.

Lemma skipn_app_exact {A} (l1 l2 : list A) : skipn (length l1) (l1 ++ l2) = l2.
Proof. induction l1; cbn; [reflexivity|]. assumption. Qed.

Lemma concat_chunks_f n d : (length d <= n)%nat -> concat (chunks_f n d) = d.
Proof.
  revert d; induction n as [|n IH]; intros d H.
  - destruct d; [reflexivity | cbn in H; lia].
  - cbn [chunks_f]. destruct d as [|x d]; [reflexivity|].
    cbn [concat]. rewrite IH; [apply firstn_skipn|].
    rewrite skipn_length. cbn [length] in *. lia.
Qed.

Lemma concat_chunks d : concat (chunks d) = d.
Proof. apply concat_chunks_f. lia. Qed.

Lemma chunks_f_shaped n d : (length d <= n)%nat -> shaped (chunks_f n d).
Proof.
  revert d; induction n as [|n IH]; intros d H; [exact I|].
  cbn [chunks_f]. destruct d as [|x d]; [exact I|].
  assert (Hs : (length (skipn 16 (x :: d)) <= n)%nat) by (rewrite skipn_length; cbn [length] in *; lia).
  specialize (IH _ Hs).
  destruct (chunks_f n (skipn 16 (x :: d))) as [|c' r'] eqn:E.
  - cbn [shaped]. rewrite firstn_length. cbn [length]. lia.
  - cbn [shaped]. split; [|exact IH].
    rewrite firstn_length.
    destruct (Nat.le_gt_cases 16 (length (x :: d))) as [Hge|Hlt]; [lia|].
    (* fewer than 16 bytes: nothing is left, so there is no next chunk *)
    rewrite skipn_all2 in E by lia. destruct n; discriminate.
Qed.

Lemma chunks_shaped d : shaped (chunks d).
Proof. apply chunks_f_shaped. lia. Qed.

Lemma chunks_f_S n d : d <> [] -> chunks_f (S n) d = firstn 16 d :: chunks_f n (skipn 16 d).
Proof. destruct d; [congruence | reflexivity]. Qed.

Lemma chunks_f_concat l : shaped l -> forall n, (length (concat l) <= n)%nat -> chunks_f n (concat l) = l.
Proof.
  induction l as [|c r IH]; intros Hs n Hn.
  - destruct n; reflexivity.
  - cbn [shaped] in Hs. destruct r as [|c2 r2].
    + cbn [concat] in *. rewrite app_nil_r in *. destruct c as [|x c]; [cbn in Hs; lia|].
      destruct n; [cbn in Hn; lia|]. cbn [chunks_f].
      rewrite firstn_all2 by lia. rewrite skipn_all2 by lia.
      destruct n; reflexivity.
    + destruct Hs as [Hc Hs].
      change (concat (c :: c2 :: r2)) with (c ++ concat (c2 :: r2)) in *.
      rewrite app_length in Hn.
      destruct n; [lia|].
      rewrite chunks_f_S.
      2:{ intros Ey. apply (f_equal (@length N)) in Ey. rewrite app_length in Ey. cbn [length] in Ey. lia. }
      rewrite <- Hc at 1 2.
      rewrite firstn_app_exact, skipn_app_exact. f_equal. apply IH; [exact Hs | lia].
Qed.

Lemma chunks_concat l : shaped l -> chunks (concat l) = l.
Proof. intros H. apply chunks_f_concat; [exact H | lia]. Qed.

Lemma chunks_f_full n d :
  (length d <= n)%nat -> (length d mod 16 = 0)%nat -> full (chunks_f n d).
Proof.
  revert d; induction n as [|n IH]; intros d H Hm; [constructor|].
  cbn [chunks_f]. destruct d as [|x d]; [constructor|].
  assert (Hge : (16 <= length (x :: d))%nat).
  { destruct (Nat.le_gt_cases 16 (length (x :: d))) as [?|Hlt]; [assumption|].
    rewrite Nat.mod_small in Hm by lia. cbn in Hm. lia. }
  constructor.
  - rewrite firstn_length. lia.
  - apply IH.
    + rewrite skipn_length. cbn [length] in *. lia.
    + rewrite skipn_length.
      replace (length (x :: d)) with ((length (x :: d) - 16) + 1 * 16)%nat in Hm by lia.
      rewrite Nat.mod_add in Hm by lia. exact Hm.
Qed.

Lemma chunks_full d : (length d mod 16 = 0)%nat -> full (chunks d).
Proof. apply chunks_f_full. lia. Qed.

Lemma concat_full_length l : full l -> length (concat l) = (16 * length l)%nat.
Proof.
  induction 1 as [|c r Hc Hr IH]; [reflexivity|]. cbn [concat length]. rewrite app_length, IH, Hc. lia.
Qed.

(* the frame shared by the four modes: a chunk-wise encoder that keeps the chunk shape, and a decoder that
   inverts it chunk list by chunk list *)
Lemma chunkwise_roundtrip (enc dec : list bytes -> list bytes) d :
  (forall l, shaped l -> shaped (enc l)) ->
  (forall l, shaped l -> dec (enc l) = l) ->
  concat (dec (chunks (concat (enc (chunks d))))) = d.
Proof.
  intros Hshape Hinv.
  rewrite chunks_concat by (apply Hshape, chunks_shaped).
  rewrite Hinv by apply chunks_shaped. apply concat_chunks.
Qed.

Section Modes.
  Variable E D : cipher.
  Hypothesis E_len : forall k b, length b = 16%nat -> length (E k b) = 16%nat.

  (* ---------- CFB ---------- *)

  Lemma cfb_enc_shaped k l : forall st, length st = 16%nat -> shaped l -> shaped (cfb_enc E k st l).
  Proof.
    induction l as [|p r IH]; intros st Hst Hs; [exact I|].
    cbn [cfb_enc]. cbn [shaped] in Hs. destruct r as [|p2 r2].
    - cbn [cfb_enc shaped]. rewrite xorb_length. lia.
    - destruct Hs as [Hp Hs].
      assert (Hc : length (xorb p st) = 16%nat) by (rewrite xorb_length; lia).
      specialize (IH (E k (xorb p st)) (E_len k _ Hc) Hs).
      cbn [cfb_enc] in IH |- *. cbn [shaped]. split; [exact Hc | exact IH].
  Qed.

  Lemma cfb_dec_enc k l : forall st, length st = 16%nat -> shaped l -> cfb_dec E k st (cfb_enc E k st l) = l.
  Proof.
    induction l as [|p r IH]; intros st Hst Hs; [reflexivity|].
    cbn [cfb_enc cfb_dec]. cbn [shaped] in Hs. destruct r as [|p2 r2].
    - cbn [cfb_enc cfb_dec]. rewrite xorb_cancel by lia. reflexivity.
    - destruct Hs as [Hp Hs].
      assert (Hc : length (xorb p st) = 16%nat) by (rewrite xorb_length; lia).
      rewrite xorb_cancel by lia. f_equal. apply IH; [apply E_len; exact Hc | exact Hs].
  Qed.

  Theorem cfb_roundtrip k iv d :
    length iv = 16%nat -> cfb_decrypt E k iv (cfb_encrypt E k iv d) = d.
  Proof.
    intros Hiv. unfold cfb_decrypt, cfb_encrypt.
    apply (chunkwise_roundtrip (cfb_enc E k (E k iv)) (cfb_dec E k (E k iv))).
    - intros l. apply cfb_enc_shaped. apply E_len. exact Hiv.
    - intros l. apply cfb_dec_enc. apply E_len. exact Hiv.
  Qed.

  Lemma cfb_enc_length k l : forall st, length st = 16%nat -> shaped l ->
    length (concat (cfb_enc E k st l)) = length (concat l).
  Proof.
    induction l as [|p r IH]; intros st Hst Hs; [reflexivity|].
    cbn [cfb_enc concat]. rewrite !app_length. cbn [shaped] in Hs. destruct r as [|p2 r2].
    - cbn. rewrite xorb_length. lia.
    - destruct Hs as [Hp Hs].
      assert (Hc : length (xorb p st) = 16%nat) by (rewrite xorb_length; lia).
      rewrite (IH _ (E_len k _ Hc) Hs). lia.
  Qed.

  (* ---------- OFB ---------- *)

  Lemma ofb_run_shaped k l : forall st, length st = 16%nat -> shaped l -> shaped (ofb_run E k st l).
  Proof.
    induction l as [|p r IH]; intros st Hst Hs; [exact I|].
    cbn [ofb_run]. cbn [shaped] in Hs. pose proof (E_len k st Hst) as Hst'. destruct r as [|p2 r2].
    - cbn [ofb_run shaped]. rewrite xorb_length. lia.
    - destruct Hs as [Hp Hs]. specialize (IH (E k st) Hst' Hs).
      cbn [ofb_run] in IH |- *. cbn [shaped]. split; [rewrite xorb_length; lia | exact IH].
  Qed.

  Lemma ofb_run_twice k l : forall st, length st = 16%nat -> shaped l -> ofb_run E k st (ofb_run E k st l) = l.
  Proof.
    induction l as [|p r IH]; intros st Hst Hs; [reflexivity|].
    cbn [ofb_run]. pose proof (E_len k st Hst) as Hst'.
    assert (Hp : (length p <= 16)%nat) by (cbn [shaped] in Hs; destruct r; lia).
    rewrite xorb_cancel by lia. f_equal. apply IH; [exact Hst'|].
    cbn [shaped] in Hs. destruct r; [exact I | apply Hs].
  Qed.

  Theorem ofb_roundtrip k iv d :
    length iv = 16%nat -> ofb_apply E k iv (ofb_apply E k iv d) = d.
  Proof.
    intros Hiv. unfold ofb_apply.
    apply (chunkwise_roundtrip (ofb_run E k iv) (ofb_run E k iv)).
    - intros l. apply ofb_run_shaped. exact Hiv.
    - intros l. apply ofb_run_twice. exact Hiv.
  Qed.

  Lemma ofb_run_length k l : forall st, length st = 16%nat -> shaped l ->
    length (concat (ofb_run E k st l)) = length (concat l).
  Proof.
    induction l as [|p r IH]; intros st Hst Hs; [reflexivity|].
    cbn [ofb_run concat]. rewrite !app_length. pose proof (E_len k st Hst) as Hst'.
    assert (Hp : (length p <= 16)%nat) by (cbn [shaped] in Hs; destruct r; lia).
    rewrite xorb_length. rewrite IH; [lia | exact Hst' |].
    cbn [shaped] in Hs. destruct r; [exact I | apply Hs].
  Qed.

  (* ---------- CTR ---------- *)

  Lemma le_bytes_length n v : length (le_bytes n v) = n.
  Proof. revert v; induction n; intros v; cbn; auto. Qed.

  Lemma ctr_block_length fl iv i : length iv = 16%nat -> length (ctr_block fl iv i) = 16%nat.
  Proof.
    intros H. destruct fl; unfold ctr_block, be_bytes;
      rewrite app_length, ?rev_length, le_bytes_length, ?firstn_length, ?skipn_length; lia.
  Qed.

  Lemma ctr_run_shaped fl k iv l : length iv = 16%nat -> forall i, shaped l -> shaped (ctr_run E fl k iv i l).
  Proof.
    intros Hiv. induction l as [|p r IH]; intros i Hs; [exact I|].
    cbn [ctr_run]. cbn [shaped] in Hs.
    pose proof (E_len k _ (ctr_block_length fl iv i Hiv)) as Hks. destruct r as [|p2 r2].
    - cbn [ctr_run shaped]. rewrite xorb_length. lia.
    - destruct Hs as [Hp Hs]. specialize (IH (i + 1)%N Hs).
      cbn [ctr_run] in IH |- *. cbn [shaped]. split; [rewrite xorb_length; lia | exact IH].
  Qed.

  Lemma ctr_run_twice fl k iv l : length iv = 16%nat ->
    forall i, shaped l -> ctr_run E fl k iv i (ctr_run E fl k iv i l) = l.
  Proof.
    intros Hiv. induction l as [|p r IH]; intros i Hs; [reflexivity|].
    cbn [ctr_run]. pose proof (E_len k _ (ctr_block_length fl iv i Hiv)) as Hks.
    assert (Hp : (length p <= 16)%nat) by (cbn [shaped] in Hs; destruct r; lia).
    rewrite xorb_cancel by lia. f_equal. apply IH.
    cbn [shaped] in Hs. destruct r; [exact I | apply Hs].
  Qed.

  Theorem ctr_roundtrip fl k iv d :
    length iv = 16%nat -> ctr_apply E fl k iv (ctr_apply E fl k iv d) = d.
  Proof.
    intros Hiv. unfold ctr_apply.
    apply (chunkwise_roundtrip (ctr_run E fl k iv 0%N) (ctr_run E fl k iv 0%N)).
    - intros l. apply ctr_run_shaped. exact Hiv.
    - intros l. apply ctr_run_twice. exact Hiv.
  Qed.

  Lemma ctr_run_length fl k iv l : length iv = 16%nat -> forall i, shaped l ->
    length (concat (ctr_run E fl k iv i l)) = length (concat l).
  Proof.
    intros Hiv. induction l as [|p r IH]; intros i Hs; [reflexivity|].
    cbn [ctr_run concat]. rewrite !app_length.
    pose proof (E_len k _ (ctr_block_length fl iv i Hiv)) as Hks.
    assert (Hp : (length p <= 16)%nat) by (cbn [shaped] in Hs; destruct r; lia).
    rewrite xorb_length. rewrite IH; [lia|].
    cbn [shaped] in Hs. destruct r; [exact I | apply Hs].
  Qed.

  (* ---------- CBC ---------- *)

  Hypothesis block_inv : forall k b, length b = 16%nat -> D k (E k b) = b.

  Lemma cbc_enc_full k l : forall prev, length prev = 16%nat -> full l -> full (cbc_enc E k prev l).
  Proof.
    induction l as [|p r IH]; intros prev Hprev Hf; [constructor|].
    inversion Hf as [|? ? Hp Hr]; subst. cbn [cbc_enc].
    assert (Hx : length (xorb p prev) = 16%nat) by (rewrite xorb_length; lia).
    constructor; [apply E_len; exact Hx|]. apply IH; [apply E_len; exact Hx | exact Hr].
  Qed.

  Lemma cbc_dec_enc k l : forall prev, length prev = 16%nat -> full l ->
    cbc_dec D k prev (cbc_enc E k prev l) = l.
  Proof.
    induction l as [|p r IH]; intros prev Hprev Hf; [reflexivity|].
    inversion Hf as [|? ? Hp Hr]; subst. cbn [cbc_enc cbc_dec].
    assert (Hx : length (xorb p prev) = 16%nat) by (rewrite xorb_length; lia).
    rewrite block_inv by exact Hx. rewrite xorb_cancel by lia. f_equal.
    apply IH; [apply E_len; exact Hx | exact Hr].
  Qed.

  Theorem cbc_roundtrip k iv d :
    length iv = 16%nat -> (length d mod 16 = 0)%nat -> cbc_decrypt D k iv (cbc_encrypt E k iv d) = d.
  Proof.
    intros Hiv Hd. unfold cbc_decrypt, cbc_encrypt.
    pose proof (chunks_full d Hd) as Hf.
    rewrite chunks_concat by (apply full_shaped, cbc_enc_full; assumption).
    rewrite cbc_dec_enc by assumption. apply concat_chunks.
  Qed.

  Lemma cbc_encrypt_length k iv d :
    length iv = 16%nat -> (length d mod 16 = 0)%nat -> length (cbc_encrypt E k iv d) = length d.
  Proof.
    intros Hiv Hd. unfold cbc_encrypt. pose proof (chunks_full d Hd) as Hf.
    rewrite (concat_full_length _ (cbc_enc_full k _ iv Hiv Hf)).
    rewrite <- (concat_chunks d) at 2. rewrite (concat_full_length _ Hf).
    f_equal. clear Hf. generalize iv. induction (chunks d); intros; cbn; auto.
  Qed.
End Modes.

Lemma cfb_encrypt_length E (E_len : forall k b, length b = 16%nat -> length (E k b) = 16%nat) k iv d :
  length iv = 16%nat -> length (cfb_encrypt E k iv d) = length d.
Proof.
  intros Hiv. unfold cfb_encrypt. rewrite (cfb_enc_length E E_len) by (auto using chunks_shaped).
  rewrite concat_chunks. reflexivity.
Qed.

Lemma ofb_apply_length E (E_len : forall k b, length b = 16%nat -> length (E k b) = 16%nat) k iv d :
  length iv = 16%nat -> length (ofb_apply E k iv d) = length d.
Proof.
  intros Hiv. unfold ofb_apply. rewrite (ofb_run_length E E_len) by (auto using chunks_shaped).
  rewrite concat_chunks. reflexivity.
Qed.

Lemma ctr_apply_length E (E_len : forall k b, length b = 16%nat -> length (E k b) = 16%nat) fl k iv d :
  length iv = 16%nat -> length (ctr_apply E fl k iv d) = length d.
Proof.
  intros Hiv. unfold ctr_apply. rewrite (ctr_run_length E E_len) by (auto using chunks_shaped).
  rewrite concat_chunks. reflexivity.
Qed.
