(* C21, part 4: from parse_value/print_value to the VRL functions parse_json / encode_json
   (lossy UTF-8 conversion of the text, BOM stripping, trailing whitespace, fuel), and the float-free corollary. *)
From Coq Require Import List NArith ZArith Bool Lia.
From Coq Require Import Floats.SpecFloat.
From VRL Require Import Base.Bytes Base.Value Base.Lit Model.Json
  Proofs.JsonTextProofs Proofs.JsonNumProofs Proofs.JsonProofs.
Import ListNotations.
Local Open Scope N_scope.

(* ---------------------------------------------------------------------------------------------- *)
(** * The printed text is valid UTF-8 *)

Lemma ascii_repeat n : ascii (repeat 32 n).
Proof. induction n; cbn [repeat]; constructor; [lia | assumption]. Qed.

Lemma ascii_sep pretty first ind : ascii (sep pretty first ind).
Proof.
  unfold sep, indent. destruct pretty, first; try apply ascii_app; try apply ascii_repeat;
    repeat constructor; lia.
Qed.

Lemma ascii_close pretty ind : ascii (close pretty ind).
Proof. unfold close, indent. destruct pretty; [constructor; [lia | apply ascii_repeat] | constructor]. Qed.

Lemma ascii_colon pretty : ascii (colon pretty).
Proof. destruct pretty; repeat constructor; lia. Qed.

Lemma ascii_print_u n : ascii (print_u n).
Proof.
  unfold print_u. generalize (lsd_digits (S (S (N.to_nat (N.log2 n)))) n).
  generalize (lsd (S (S (N.to_nat (N.log2 n)))) n). intros l Hl.
  apply Forall_rev in Hl. induction Hl as [|d l' Hd _ IH]; cbn [map]; constructor; [lia | exact IH].
Qed.

Lemma ascii_print_int z : ascii (print_int z).
Proof.
  destruct z; cbn [print_int]; [repeat constructor; lia | apply ascii_print_u |].
  constructor; [lia | apply ascii_print_u].
Qed.

Section Top.
  Variable ff : spec_float -> bytes.
  Variable ft : Z -> bytes.
  Notation fok := (fok ff).

  Definition U8 (v : value) : Prop :=
    jrep fok v = true -> forall pretty ind, utf8_ok (print_value ff ft pretty ind v) = true.

  Lemma elems_utf8 l : Forall U8 l -> forallb (jrep fok) l = true ->
    forall pretty ind first, utf8_ok (print_elems ff ft pretty ind first l) = true.
  Proof.
    induction 1 as [|x l Hx _ IH]; intros Hj pretty ind first; cbn [print_elems].
    - apply utf8_ok_app_both; [apply ascii_utf8_ok, ascii_close | reflexivity].
    - cbn [forallb] in Hj. apply andb_true_iff in Hj as [Hjx Hjl].
      apply utf8_ok_app_both; [apply ascii_utf8_ok, ascii_sep|].
      apply utf8_ok_app_both; [apply Hx; exact Hjx | apply IH; exact Hjl].
  Qed.

  Lemma members_utf8 l : Forall (fun kv => U8 (snd kv)) l -> jrep_pairs fok l = true ->
    forall pretty ind first, utf8_ok (print_members ff ft pretty ind first l) = true.
  Proof.
    induction 1 as [|[k x] l Hx _ IH]; intros Hj pretty ind first; cbn [print_members].
    - apply utf8_ok_app_both; [apply ascii_utf8_ok, ascii_close | reflexivity].
    - fold (print_members ff ft pretty ind). cbn [jrep_pairs] in Hj. fold (jrep_pairs fok) in Hj.
      apply andb_true_iff in Hj as [Hj Hjl]. apply andb_true_iff in Hj as [Hk Hjx]. cbn [snd] in Hx.
      apply utf8_ok_app_both; [apply ascii_utf8_ok, ascii_sep|].
      apply utf8_ok_app_both; [apply print_string_utf8; exact Hk|].
      apply utf8_ok_app_both; [apply ascii_utf8_ok, ascii_colon|].
      apply utf8_ok_app_both; [apply Hx; exact Hjx | apply IH; exact Hjl].
  Qed.

  Lemma print_utf8 : forall v, U8 v.
  Proof.
    induction v as [b|src|z|f|b|ns|kvs IHk|vs IHv|] using value_ind'; unfold U8; intros Hj pretty ind;
      cbn [jrep] in Hj; try discriminate.
    - cbn [print_value]. rewrite (lossy_id b Hj). apply print_string_utf8. exact Hj.
    - apply ascii_utf8_ok, ascii_print_int.
    - apply andb_true_iff in Hj as [Hfin Hf]. cbn [print_value]. rewrite Hfin.
      destruct (fok_spec ff f Hf) as [Ha _]. apply ascii_utf8_ok. exact Ha.
    - destruct b; reflexivity.
    - change (keys_sorted kvs && jrep_pairs fok kvs = true) in Hj. apply andb_true_iff in Hj as [_ Hjp].
      destruct kvs as [|kv kvs]; [reflexivity|]. rewrite print_obj_eq.
      change (utf8_ok ([123] ++ print_members ff ft pretty ind true (kv :: kvs)) = true).
      apply utf8_ok_app_both; [reflexivity | apply members_utf8; assumption].
    - destruct vs as [|x vs]; [reflexivity|]. rewrite print_arr_eq.
      change (utf8_ok ([91] ++ print_elems ff ft pretty ind true (x :: vs)) = true).
      apply utf8_ok_app_both; [reflexivity | apply elems_utf8; assumption].
    - reflexivity.
  Qed.

  Lemma strip_boms_head c r : c <> 239 -> strip_boms (c :: r) = c :: r.
  Proof.
    intros Hc. destruct r as [|b [|d r']]; try reflexivity.
    cbn [strip_boms]. apply N.eqb_neq in Hc. rewrite Hc. reflexivity.
  Qed.

  (* parse_json (encode_json v): equal up to one ulp on floats whose text is read back within one ulp *)
  Theorem roundtrip_close pretty v :
    jrep fok v = true -> vdepth v < 128 ->
    exists v', parse_json (encode_json ff ft pretty v) = Some v' /\ value_close v v' = true.
  Proof.
    intros Hj Hd. unfold parse_json, encode_json.
    rewrite (lossy_id _ (print_utf8 v Hj pretty 0%nat)).
    destruct (print_head ff ft pretty 0%nat v Hj) as (c & r & E & Hs).
    destruct (is_start_facts c Hs) as (_ & _ & _ & _ & _ & H239).
    assert (Hb : strip_boms (print_value ff ft pretty 0 v) = print_value ff ft pretty 0 v).
    { rewrite E. apply strip_boms_head. exact H239. }
    rewrite Hb. unfold parse_doc.
    set (txt := print_value ff ft pretty 0 v).
    destruct (rt_all ff ft v Hj pretty 0%nat (S (S (length txt + length txt))) 128 []) as (v' & Hp & Hc);
      [fold txt; lia | exact Hd | reflexivity |].
    fold txt in Hp. rewrite app_nil_r in Hp. rewrite Hp. exists v'. split; [reflexivity | exact Hc].
  Qed.
End Top.

(* ---------------------------------------------------------------------------------------------- *)
(** * Float-free values come back exactly *)

Definition no_float : spec_float -> bool := fun _ => false.

Definition CloseEq (v : value) : Prop :=
  jrep no_float v = true -> forall v', value_close v v' = true -> v' = v.

Lemma scalar_close_eq a b : value_eqb a b = true -> b = a.
Proof. intros H. apply value_eqb_eq in H. congruence. Qed.

Lemma list_close_eq l : Forall CloseEq l -> forallb (jrep no_float) l = true ->
  forall l', list_close l l' = true -> l' = l.
Proof.
  induction 1 as [|x l Hx _ IH]; intros Hj [|x' l'] Hc; try discriminate; [reflexivity|].
  cbn [forallb] in Hj. apply andb_true_iff in Hj as [Hjx Hjl].
  cbn [list_close] in Hc. apply andb_true_iff in Hc as [Hcx Hcl].
  rewrite (Hx Hjx x' Hcx), (IH Hjl l' Hcl). reflexivity.
Qed.

Lemma pairs_close_eq l : Forall (fun kv => CloseEq (snd kv)) l -> jrep_pairs no_float l = true ->
  forall l', pairs_close l l' = true -> l' = l.
Proof.
  induction 1 as [|[k x] l Hx _ IH]; intros Hj [|[k' x'] l'] Hc; try discriminate; [reflexivity|].
  cbn [jrep_pairs] in Hj. fold (jrep_pairs no_float) in Hj.
  apply andb_true_iff in Hj as [Hj Hjl]. apply andb_true_iff in Hj as [_ Hjx]. cbn [snd] in Hx.
  cbn [pairs_close] in Hc. apply andb_true_iff in Hc as [Hc Hcl]. apply andb_true_iff in Hc as [Hk Hcx].
  apply bytes_eqb_eq in Hk. subst k'.
  rewrite (Hx Hjx x' Hcx), (IH Hjl l' Hcl). reflexivity.
Qed.

Lemma close_eq : forall v, CloseEq v.
Proof.
  induction v as [b|src|z|f|b|ns|kvs IHk|vs IHv|] using value_ind'; unfold CloseEq; intros Hj v' Hc;
    cbn [jrep] in Hj; try discriminate.
  - apply scalar_close_eq. exact Hc.
  - apply scalar_close_eq. exact Hc.
  - unfold no_float in Hj. rewrite andb_false_r in Hj. discriminate.
  - apply scalar_close_eq. exact Hc.
  - change (keys_sorted kvs && jrep_pairs no_float kvs = true) in Hj. apply andb_true_iff in Hj as [_ Hjp].
    destruct v'; try discriminate. rewrite close_obj_eq in Hc. f_equal. apply pairs_close_eq; assumption.
  - destruct v'; try discriminate. rewrite close_arr_eq in Hc. f_equal. apply list_close_eq; assumption.
  - apply scalar_close_eq. exact Hc.
Qed.

(* a float-free representable value is representable whatever the float printer is *)
Definition Mono (fok2 : spec_float -> bool) (v : value) : Prop := jrep no_float v = true -> jrep fok2 v = true.

Lemma jrep_mono fok2 : forall v, Mono fok2 v.
Proof.
  induction v as [b|src|z|f|b|ns|kvs IHk|vs IHv|] using value_ind'; unfold Mono; intros Hj;
    cbn [jrep] in *; try discriminate; try exact Hj.
  - unfold no_float in Hj. rewrite andb_false_r in Hj. discriminate.
  - change (keys_sorted kvs && jrep_pairs no_float kvs = true) in Hj.
    change (keys_sorted kvs && jrep_pairs fok2 kvs = true).
    apply andb_true_iff in Hj as [Hs Hjp]. rewrite Hs. cbn [andb].
    clear Hs. induction IHk as [|[k x] l Hx _ IH]; [reflexivity|].
    cbn [jrep_pairs] in *. fold (jrep_pairs no_float) in Hjp. fold (jrep_pairs fok2).
    apply andb_true_iff in Hjp as [Hj Hjl]. apply andb_true_iff in Hj as [Hk Hjx]. cbn [snd] in Hx.
    rewrite Hk, (Hx Hjx), (IH Hjl). reflexivity.
  - induction IHv as [|x l Hx _ IH]; [reflexivity|].
    cbn [forallb] in *. apply andb_true_iff in Hj as [Hjx Hjl]. rewrite (Hx Hjx), (IH Hjl). reflexivity.
Qed.

Theorem roundtrip_exact ff ft pretty v :
  jrep no_float v = true -> vdepth v < 128 ->
  parse_json (encode_json ff ft pretty v) = Some v.
Proof.
  intros Hj Hd.
  destruct (roundtrip_close ff ft pretty v (jrep_mono (fok ff) v Hj) Hd) as (v' & Hp & Hc).
  rewrite Hp. f_equal. apply close_eq; assumption.
Qed.

(* ---------------------------------------------------------------------------------------------- *)
(** * Strings and integers on their own *)

(* any byte string, as the parser sees it: print_string then parse_doc *)
Theorem string_roundtrip_raw s : parse_doc (print_string s) = Some (VBytes s).
Proof.
  unfold parse_doc, print_string.
  rewrite parse_value_str.
  change (escape_body s ++ [34]) with (escape_body s ++ 34 :: []).
  rewrite parse_string_print. reflexivity.
Qed.

Theorem int_roundtrip ff ft pretty z :
  in_i64 z = true -> parse_json (encode_json ff ft pretty (VInt z)) = Some (VInt z).
Proof. intros H. apply roundtrip_exact; [exact H | reflexivity]. Qed.

(* ---------------------------------------------------------------------------------------------- *)
(** * The lossy conversion always produces valid UTF-8 (so arbitrary bytes come back as their lossy form) *)

Lemma FFFD_char : is_char FFFD.
Proof. cbn. repeat split; reflexivity. Qed.

Lemma utf8_ok_FFFD s : utf8_ok (FFFD ++ s) = utf8_ok s.
Proof. apply utf8_ok_char. exact FFFD_char. Qed.

Lemma lossy_valid s : utf8_ok (lossy_utf8 s) = true.
Proof.
  remember (length s) as n eqn:Hn. revert s Hn.
  induction n as [n IH] using lt_wf_ind. intros s Hn.
  assert (R : forall t, (length t < n)%nat -> utf8_ok (lossy_utf8 t) = true).
  { intros t Ht. apply (IH (length t) Ht t eq_refl). }
  destruct s as [|b0 r]; [reflexivity|]. cbn [length] in Hn.
  cbn [lossy_utf8]. destruct (lead_of b0) eqn:Hl.
  - change (b0 :: lossy_utf8 r) with ([b0] ++ lossy_utf8 r). rewrite utf8_ok_char by exact Hl.
    apply R. lia.
  - destruct r as [|b1 r1]; [reflexivity|]. cbn [length] in Hn. destruct (is_cont b1) eqn:H1.
    + change (b0 :: b1 :: lossy_utf8 r1) with ([b0; b1] ++ lossy_utf8 r1).
      rewrite utf8_ok_char by (split; assumption). apply R. lia.
    + rewrite utf8_ok_FFFD. apply R. cbn [length]. lia.
  - destruct r as [|b1 r1]; [reflexivity|]. cbn [length] in Hn. destruct (second_ok b0 b1) eqn:H1.
    + destruct r1 as [|b2 r2]; [reflexivity|]. cbn [length] in Hn. destruct (is_cont b2) eqn:H2.
      * change (b0 :: b1 :: b2 :: lossy_utf8 r2) with ([b0; b1; b2] ++ lossy_utf8 r2).
        rewrite utf8_ok_char by (repeat split; assumption). apply R. lia.
      * rewrite utf8_ok_FFFD. apply R. cbn [length]. lia.
    + rewrite utf8_ok_FFFD. apply R. cbn [length]. lia.
  - destruct r as [|b1 r1]; [reflexivity|]. cbn [length] in Hn. destruct (second_ok b0 b1) eqn:H1.
    + destruct r1 as [|b2 r2]; [reflexivity|]. cbn [length] in Hn. destruct (is_cont b2) eqn:H2.
      * destruct r2 as [|b3 r3]; [reflexivity|]. cbn [length] in Hn. destruct (is_cont b3) eqn:H3.
        -- change (b0 :: b1 :: b2 :: b3 :: lossy_utf8 r3) with ([b0; b1; b2; b3] ++ lossy_utf8 r3).
           rewrite utf8_ok_char by (repeat split; assumption). apply R. lia.
        -- rewrite utf8_ok_FFFD. apply R. cbn [length]. lia.
      * rewrite utf8_ok_FFFD. apply R. cbn [length]. lia.
    + rewrite utf8_ok_FFFD. apply R. cbn [length]. lia.
  - rewrite utf8_ok_FFFD. apply R. lia.
Qed.

Lemma lossy_idem s : lossy_utf8 (lossy_utf8 s) = lossy_utf8 s.
Proof. apply lossy_id, lossy_valid. Qed.

(* Value::Bytes with arbitrary content: what comes back is its lossy conversion *)
Theorem bytes_roundtrip ff ft pretty b :
  parse_json (encode_json ff ft pretty (VBytes b)) = Some (VBytes (lossy_utf8 b)).
Proof.
  pose proof (roundtrip_exact ff ft pretty (VBytes (lossy_utf8 b))) as H.
  cbn [jrep vdepth] in H. unfold encode_json in *. cbn [print_value] in *.
  rewrite lossy_idem in H. apply H; [apply lossy_valid | reflexivity].
Qed.
