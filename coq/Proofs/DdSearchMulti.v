(* Proofs about Model/DdSearch.v (C30), part 5: a bare multi-word term as the whole query ("a b c"). *)
From Coq Require Import String List NArith ZArith Bool Lia.
From Coq Require Import Floats.SpecFloat.
From VRL Require Import Base.Bytes Base.Value Base.Lit Model.DdNode Model.DdSearch
  Proofs.DdSearchProofs Proofs.DdSearchNum Proofs.DdSearchRT.
Import ListNotations.
Local Open Scope N_scope.

Lemma escape_app a b : lucene_escape (a ++ b) = lucene_escape a ++ lucene_escape b.
Proof.
  induction a as [|c a IH]; [reflexivity|]. cbn [app lucene_escape]. rewrite IH.
  destruct (lucene_special c); reflexivity.
Qed.

Lemma escape_join ws : lucene_escape (join_sp ws) = join_sp (map lucene_escape ws).
Proof.
  induction ws as [|w ws IH]; [reflexivity|]. destruct ws as [|w' ws]; [reflexivity|].
  change (join_sp (w :: w' :: ws)) with (w ++ 32 :: join_sp (w' :: ws)).
  change (join_sp (map lucene_escape (w :: w' :: ws)))
    with (lucene_escape w ++ 32 :: join_sp (map lucene_escape (w' :: ws))).
  rewrite escape_app. cbn [lucene_escape]. change (lucene_special 32) with false. cbv iota. rewrite IH. reflexivity.
Qed.

(* the escaped words, joined by one blank; R = what follows the first word *)
Definition after_first (ws : list bytes) : bytes :=
  match ws with [] => [] | _ => 32 :: join_sp (map lucene_escape ws) end.

Lemma join_cons w ws : join_sp (map lucene_escape (w :: ws)) = lucene_escape w ++ after_first ws.
Proof. destruct ws; cbn; [rewrite app_nil_r|]; reflexivity. Qed.

Lemma after_first_stops ws : stops (after_first ws) = true.
Proof. destruct ws; reflexivity. Qed.

Lemma words_head w ws :
  term_ok w = true -> exists c r, join_sp (map lucene_escape (w :: ws)) = c :: r /\ is_ws c = false.
Proof.
  intros T. destruct (term_ok_parts w T) as (N & W & _). destruct (escaped_head w N W) as (c & r & E & Hc).
  rewrite join_cons, E. exists c, (r ++ after_first ws). split; [reflexivity | apply head_ok_not_ws; exact Hc].
Qed.

Lemma kw_and_or_words w ws : term_ok w = true -> kw_and_or (join_sp (map lucene_escape (w :: ws))) = false.
Proof.
  intros T. destruct (term_ok_parts w T) as (N & W & U & K). rewrite join_cons.
  unfold kw_free in K. apply negb_true_iff in K. split_orb_false K. unfold kw_and_or.
  rewrite !kw_lit_escaped; auto using after_first_stops; cbn; tauto.
Qed.

Lemma item_words w ws :
  term_ok w = true -> forallb term_ok ws = true ->
  multiterm_item (join_sp (map lucene_escape (w :: ws))) = Some (lucene_escape w, after_first ws).
Proof.
  intros T Ts. unfold multiterm_item, multiterm_lookahead.
  destruct (words_head w ws T) as (c & r & E & Wc). rewrite E, (skip_head c r Wc), <- E. rewrite join_cons.
  rewrite (lex_term_escaped w _ T (after_first_stops ws)).
  destruct ws as [|w' ws]; [reflexivity|]. cbn [after_first]. cbn [forallb] in Ts. apply andb_true_iff in Ts as [T' _].
  change ((32 =? 58) || (32 =? 42)) with false. change (is_ws 32) with true. cbv iota.
  change (skip (32 :: join_sp (map lucene_escape (w' :: ws)))) with (skip (join_sp (map lucene_escape (w' :: ws)))).
  destruct (words_head w' ws T') as (c' & r' & E' & Wc'). rewrite E', (skip_head c' r' Wc'), <- E'.
  rewrite (kw_and_or_words w' ws T'). reflexivity.
Qed.

Lemma more_words ws : forall fuel,
  forallb term_ok ws = true -> (List.length ws <= fuel)%nat ->
  multiterm_more fuel (after_first ws) = (map lucene_escape ws, []).
Proof.
  induction ws as [|w ws IH]; intros fuel Ts L.
  - destruct fuel; reflexivity.
  - destruct fuel as [|fuel]; [cbn in L; lia|]. cbn [forallb] in Ts. apply andb_true_iff in Ts as [T Ts].
    cbn [after_first multiterm_more].
    change (skip (32 :: join_sp (map lucene_escape (w :: ws)))) with (skip (join_sp (map lucene_escape (w :: ws)))).
    destruct (words_head w ws T) as (c & r & E & Wc). rewrite E, (skip_head c r Wc), <- E.
    rewrite (item_words w ws T Ts). rewrite (IH fuel Ts); [reflexivity | cbn in L; lia].
Qed.

Lemma after_first_length ws : (List.length ws <= List.length (after_first ws))%nat.
Proof.
  induction ws as [|w ws IH]; [cbn; lia|]. cbn [after_first]. rewrite join_cons. cbn [List.length]. rewrite app_length. lia.
Qed.

Lemma map_unescape_escape ws : map unescape (map lucene_escape ws) = ws.
Proof. induction ws as [|w ws IH]; [reflexivity|]. cbn. rewrite unescape_lucene_escape, IH. reflexivity. Qed.

(* "w1 w2 .. wk" as the whole query: read as one multiterm and joined again *)
Theorem multiterm_roundtrip (fdisp : spec_float -> bytes) w ws :
  forallb term_ok (w :: ws) = true ->
  all_whitespace (to_lucene fdisp (NTerm DEFAULT_FIELD (join_sp (w :: ws)))) = false ->
  parse (to_lucene fdisp (NTerm DEFAULT_FIELD (join_sp (w :: ws)))) = PRNode (NTerm DEFAULT_FIELD (join_sp (w :: ws))).
Proof.
  intros Ts Wn. cbn [forallb] in Ts. apply andb_true_iff in Ts as [T Ts].
  change (to_lucene fdisp (NTerm DEFAULT_FIELD (join_sp (w :: ws)))) with (lucene_escape (join_sp (w :: ws))) in *.
  unfold parse. rewrite Wn. rewrite escape_join.
  cbn [parse_query]. unfold parse_query_body, parse_multiterm.
  rewrite (item_words w ws T Ts).
  rewrite (more_words ws _ Ts (after_first_length ws)).
  change (parse_more (parse_query (List.length (join_sp (map lucene_escape (w :: ws))))) (List.length (@nil N)) DEFAULT_FIELD [])
    with (@nil qitem, @nil N).
  cbv beta iota. cbn [skip app]. unfold fold_query. cbn [fold_items].
  change (lucene_escape w :: map lucene_escape ws) with (map lucene_escape (w :: ws)).
  rewrite map_unescape_escape. reflexivity.
Qed.
