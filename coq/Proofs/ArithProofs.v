(* Proofs about Model/Arith.v (C10, C11).  Everything here is closed under the global context (no axioms);
   the statements that need the real-number semantics of binary64 are in Proofs/ArithFloatProofs.v. *)
From Coq Require Import List NArith ZArith Bool Lia.
From Coq Require Import Floats.SpecFloat.
From VRL Require Import Base.Bytes Base.Value Model.Arith.
Import ListNotations.
Local Open Scope Z_scope.

(* ================================================================================================ *)
(* i64                                                                                              *)
(* ================================================================================================ *)

Lemma wrap64_range z : in_i64 (wrap64 z).
Proof.
  unfold in_i64, wrap64, two63, two64.
  pose proof (Z.mod_pos_bound (z + 9223372036854775808) 18446744073709551616 ltac:(lia)). lia.
Qed.

Lemma wrap64_congr z : exists k, wrap64 z = z + k * two64.
Proof.
  unfold wrap64, two63, two64.
  exists (- ((z + 9223372036854775808) / 18446744073709551616)).
  pose proof (Z.div_mod (z + 9223372036854775808) 18446744073709551616 ltac:(lia)). lia.
Qed.

Lemma wrap64_mod z : (wrap64 z - z) mod two64 = 0.
Proof.
  destruct (wrap64_congr z) as [k ->]. replace (z + k * two64 - z) with (k * two64) by lia.
  apply Z.mod_mul. unfold two64; lia.
Qed.

Lemma wrap64_id z : in_i64 z -> wrap64 z = z.
Proof.
  unfold in_i64, wrap64, two63, two64. intros H. rewrite Z.mod_small; lia.
Qed.

(* the wrap is the only representative in range *)
Lemma wrap64_unique z r : in_i64 r -> (r - z) mod two64 = 0 -> r = wrap64 z.
Proof.
  intros Hr Hm. pose proof (wrap64_range z) as Hw. destruct (wrap64_congr z) as [k Hk].
  apply Z.mod_divide in Hm; [|unfold two64; lia]. destruct Hm as [j Hj].
  unfold in_i64, two63 in *. unfold two64 in *.
  assert (r - wrap64 z = (j - k) * 18446744073709551616) by lia.
  assert (j - k = 0) by nia. lia.
Qed.

Lemma wrapping_rem_eq a b : wrapping_rem a b = Z.rem a b.
Proof.
  unfold wrapping_rem. destruct (Z.eqb_spec b (-1)) as [->|]; [|reflexivity].
  symmetry. change (-1) with (- (1)). rewrite Z.rem_opp_r by lia. apply Z.rem_1_r.
Qed.

Lemma rem_abs_le a b : b <> 0 -> Z.abs (Z.rem a b) <= Z.abs a.
Proof.
  intros Hb. rewrite <- Z.rem_abs by assumption.
  destruct (Z.eq_dec (Z.abs b) 0); [lia|].
  apply Z.rem_le; lia.
Qed.

Lemma rem_in_i64 a b : in_i64 a -> b <> 0 -> in_i64 (Z.rem a b).
Proof.
  unfold in_i64, two63. intros Ha Hb. pose proof (rem_abs_le a b Hb).
  destruct (Z.le_gt_cases 0 a) as [H0|H0].
  - pose proof (Z.rem_nonneg a b Hb H0). lia.
  - pose proof (Z.rem_nonpos a b Hb ltac:(lia)). lia.
Qed.

(* ================================================================================================ *)
(* f64 comparison                                                                                   *)
(* ================================================================================================ *)

Lemma SFcompare_some f g : f_is_nan f = false -> f_is_nan g = false -> exists c, SFcompare f g = Some c.
Proof. destruct f, g; cbn; intros; try discriminate; eauto. Qed.

Lemma SFcompare_none f g : SFcompare f g = None -> f_is_nan f = true \/ f_is_nan g = true.
Proof. destruct f, g; cbn; intros; try discriminate; auto. Qed.

Lemma SFcompare_antisym f g c : SFcompare f g = Some c -> SFcompare g f = Some (CompOpp c).
Proof.
  destruct f as [s|s| |s m e], g as [t|t| |t n e']; cbn; try discriminate;
    intros H; inversion H; subst; clear H;
    try (destruct s; reflexivity); try (destruct t; reflexivity); try (destruct s, t; reflexivity).
  destruct s, t; try reflexivity.
  - rewrite (Z.compare_antisym e e'). destruct (e ?= e'); cbn; try reflexivity.
    rewrite (Pos.compare_cont_antisym m n Eq). cbn. reflexivity.
  - rewrite (Z.compare_antisym e e'). destruct (e ?= e'); cbn; try reflexivity.
    rewrite (Pos.compare_cont_antisym m n Eq). cbn. rewrite ?CompOpp_involutive. reflexivity.
Qed.

Lemma SFcompare_refl f : f_is_nan f = false -> SFcompare f f = Some Eq.
Proof.
  destruct f as [s|s| |s m e]; cbn; try discriminate; intros _; try reflexivity.
  - destruct s; reflexivity.
  - rewrite Z.compare_refl. change (Pos.compare_cont Eq m m) with (Pos.compare m m). rewrite Pos.compare_refl.
    destruct s; reflexivity.
Qed.

(* float equality: the same datum, or the two zeros *)
Lemma f_eq_iff f g : f_is_nan f = false -> f_is_nan g = false ->
  (f_eq f g = true <-> f = g \/ (f_is_zero f = true /\ f_is_zero g = true)).
Proof.
  intros Hf Hg. unfold f_eq, SFeqb. split.
  - destruct f as [s|s| |s m e], g as [t|t| |t n e']; cbn in *; try discriminate; auto;
      try (destruct s; discriminate); try (destruct t; discriminate).
    + destruct s, t; try discriminate; auto.
    + destruct s, t; try discriminate.
      * destruct (e ?= e') eqn:E; try discriminate. apply Z.compare_eq in E. subst e'.
        change (Pos.compare_cont Eq m n) with (Pos.compare m n).
        destruct (m ?= n)%positive eqn:E2; try discriminate. apply Pos.compare_eq in E2. subst. auto.
      * destruct (e ?= e') eqn:E; try discriminate. apply Z.compare_eq in E. subst e'.
        change (Pos.compare_cont Eq m n) with (Pos.compare m n).
        destruct (m ?= n)%positive eqn:E2; try discriminate. apply Pos.compare_eq in E2. subst. auto.
  - intros [->|[Hz1 Hz2]].
    + rewrite SFcompare_refl; auto.
    + destruct f, g; cbn in *; try discriminate. reflexivity.
Qed.

(* the four orderings and equality, read off one SFcompare *)
Lemma f_cmp_table f g c : SFcompare f g = Some c ->
  f_lt f g = match c with Lt => true | _ => false end
  /\ f_eq f g = match c with Eq => true | _ => false end
  /\ f_gt f g = match c with Gt => true | _ => false end
  /\ f_le f g = match c with Gt => false | _ => true end
  /\ f_ge f g = match c with Lt => false | _ => true end.
Proof.
  intros H. pose proof (SFcompare_antisym _ _ _ H) as H'.
  unfold f_lt, f_eq, f_gt, f_le, f_ge, SFltb, SFeqb, SFleb. rewrite H, H'. destruct c; cbn; auto.
Qed.

Lemma f_trichotomy f g : f_is_nan f = false -> f_is_nan g = false ->
  exactly_one (f_lt f g) (f_eq f g) (f_gt f g) = true
  /\ f_le f g = (f_lt f g || f_eq f g) /\ f_ge f g = (f_gt f g || f_eq f g).
Proof.
  intros Hf Hg. destruct (SFcompare_some f g Hf Hg) as [c Hc].
  destruct (f_cmp_table f g c Hc) as (-> & -> & -> & -> & ->). destruct c; cbn; auto.
Qed.

(* ================================================================================================ *)
(* `i as f64` is never NaN (binary_normalize never produces the NaN branch of binary_round_aux)     *)
(* ================================================================================================ *)

Section NoNan.
  Variables prec emax : Z.

  Lemma shr_1_nonneg mrs : 0 <= shr_m mrs -> 0 <= shr_m (shr_1 mrs).
  Proof. destruct mrs as [m r s]. destruct m as [|[p|p|]|p]; cbn; lia. Qed.

  Lemma iter_pos_inv {A} (P : A -> Prop) (f : A -> A) :
    (forall x, P x -> P (f x)) -> forall n x, P x -> P (iter_pos f n x).
  Proof. intros Hf. induction n as [n IH|n IH|]; intros x Hx; cbn; auto. Qed.

  Lemma shr_nonneg mrs e n : 0 <= shr_m mrs -> 0 <= shr_m (fst (shr mrs e n)).
  Proof.
    intros H. unfold shr. destruct n; cbn; auto.
    apply (iter_pos_inv (fun x => 0 <= shr_m x)); auto. apply shr_1_nonneg.
  Qed.

  Lemma shr_fexp_nonneg m e l : 0 <= m -> 0 <= shr_m (fst (shr_fexp prec emax m e l)).
  Proof.
    intros H. unfold shr_fexp. apply shr_nonneg. destruct l as [|[]]; cbn; assumption.
  Qed.

  Lemma round_nearest_even_nonneg m l : 0 <= m -> 0 <= round_nearest_even m l.
  Proof. intros H. destruct l as [|[]]; cbn; try lia. destruct (Z.even m); lia. Qed.

  Lemma binary_round_aux_not_nan sx mx ex lx : 0 <= mx ->
    f_is_nan (binary_round_aux prec emax sx mx ex lx) = false.
  Proof.
    intros H. unfold binary_round_aux.
    pose proof (shr_fexp_nonneg mx ex lx H) as H1.
    destruct (shr_fexp prec emax mx ex lx) as [mrs' e']. cbn [fst] in H1.
    pose proof (shr_fexp_nonneg _ e' loc_Exact (round_nearest_even_nonneg _ (loc_of_shr_record mrs') H1)) as H2.
    destruct (shr_fexp prec emax (round_nearest_even (shr_m mrs') (loc_of_shr_record mrs')) e' loc_Exact) as [mrs'' e''].
    cbn [fst] in H2. destruct (shr_m mrs'') as [|p|p]; cbn; try reflexivity; try lia.
    destruct (Zle_bool e'' (emax - prec)); reflexivity.
  Qed.

  Lemma binary_round_not_nan sx mx ex : f_is_nan (binary_round prec emax sx mx ex) = false.
  Proof.
    unfold binary_round. destruct (shl_align mx ex (fexp prec emax (Z.pos (digits2_pos mx) + ex))) as [mz ez].
    apply binary_round_aux_not_nan. lia.
  Qed.

  Lemma binary_normalize_not_nan m e s : f_is_nan (binary_normalize prec emax m e s) = false.
  Proof. destruct m; cbn; auto using binary_round_not_nan. Qed.
End NoNan.

Lemma of_i64_not_nan a : f_is_nan (of_i64 a) = false.
Proof. apply binary_normalize_not_nan. Qed.

Lemma f_eq_refl f : f_is_nan f = false -> f_eq f f = true.
Proof. intros H. unfold f_eq, SFeqb. rewrite SFcompare_refl; auto. Qed.

(* ================================================================================================ *)
(* C10: consistency of the six comparison operators, kind by kind                                   *)
(* ================================================================================================ *)

Lemma ne_is_not_eq x y : exists b, binop OEq x y = Ok (VBool b) /\ binop ONe x y = Ok (VBool (negb b)).
Proof. exists (eq_lossy x y). split; reflexivity. Qed.

(* two numbers (integers converted): everything goes through one SFcompare *)
Lemma float_like_consistent f g : f_is_nan f = false -> f_is_nan g = false ->
  exists lt eq gt,
    f_lt f g = lt /\ f_eq f g = eq /\ f_gt f g = gt /\ exactly_one lt eq gt = true
    /\ f_le f g = (lt || eq) /\ f_ge f g = (gt || eq).
Proof.
  intros Hf Hg. destruct (f_trichotomy f g Hf Hg) as (H1 & H2 & H3).
  exists (f_lt f g), (f_eq f g), (f_gt f g). repeat split; auto.
Qed.

Lemma float_consistent f g : f_is_nan f = false -> f_is_nan g = false -> cmp_consistent (VFloat f) (VFloat g).
Proof.
  intros Hf Hg. destruct (float_like_consistent f g Hf Hg) as (lt & eq & gt & H1 & H2 & H3 & H4 & H5 & H6).
  exists lt, eq, gt. cbn. unfold try_lt, try_gt, try_le, try_ge, try_cmp, f_cmp. cbn.
  rewrite H1, H2, H3, H5, H6. repeat split; auto.
Qed.

Lemma mixed_consistent_l a g : f_is_nan g = false -> cmp_consistent (VInt a) (VFloat g).
Proof.
  intros Hg. destruct (float_like_consistent (of_i64 a) g (of_i64_not_nan a) Hg)
    as (lt & eq & gt & H1 & H2 & H3 & H4 & H5 & H6).
  exists lt, eq, gt. cbn. unfold try_lt, try_gt, try_le, try_ge, try_cmp, f_cmp. cbn.
  rewrite H1, H2, H3, H5, H6. repeat split; auto.
Qed.

Lemma mixed_consistent_r f b : f_is_nan f = false -> cmp_consistent (VFloat f) (VInt b).
Proof.
  intros Hf. destruct (float_like_consistent f (of_i64 b) Hf (of_i64_not_nan b))
    as (lt & eq & gt & H1 & H2 & H3 & H4 & H5 & H6).
  exists lt, eq, gt. cbn. unfold try_lt, try_gt, try_le, try_ge, try_cmp, f_cmp. cbn.
  rewrite H1, H2, H3, H5, H6. repeat split; auto.
Qed.

(* integers: the four orderings are the exact Z comparisons, for all pairs *)
Lemma int_order a b :
  binop OLt (VInt a) (VInt b) = Ok (VBool (a <? b)) /\ binop OGt (VInt a) (VInt b) = Ok (VBool (b <? a))
  /\ binop OLe (VInt a) (VInt b) = Ok (VBool (a <=? b)) /\ binop OGe (VInt a) (VInt b) = Ok (VBool (b <=? a)).
Proof.
  cbn. unfold try_lt, try_gt, try_le, try_ge, try_cmp, z_cmp.
  rewrite Z.gtb_ltb, Z.geb_leb. repeat split; reflexivity.
Qed.

Lemma int_eq_exact a b : eq_lossy (VInt a) (VInt b) = (a =? b).
Proof. reflexivity. Qed.

Lemma int_consistent a b : cmp_consistent (VInt a) (VInt b).
Proof.
  exists (a <? b), (a =? b), (b <? a).
  destruct (int_order a b) as (H1 & H2 & H3 & H4).
  rewrite H1, H2, H3, H4. cbn [binop]. rewrite (int_eq_exact a b).
  repeat split; auto.
  - unfold exactly_one. destruct (Z.ltb_spec a b), (Z.eqb_spec a b), (Z.ltb_spec b a); cbn; try reflexivity; lia.
  - do 2 f_equal. destruct (Z.leb_spec a b), (Z.ltb_spec a b), (Z.eqb_spec a b); cbn; try reflexivity; lia.
  - do 2 f_equal. destruct (Z.leb_spec b a), (Z.ltb_spec b a), (Z.eqb_spec a b); cbn; try reflexivity; lia.
Qed.

Lemma ts_consistent s t : cmp_consistent (VTs s) (VTs t).
Proof.
  exists (s <? t), (s =? t), (t <? s). cbn. unfold try_lt, try_gt, try_le, try_ge, try_cmp, z_cmp.
  rewrite Z.gtb_ltb, Z.geb_leb. repeat split; auto.
  - unfold exactly_one. destruct (Z.ltb_spec s t), (Z.eqb_spec s t), (Z.ltb_spec t s); cbn; try reflexivity; lia.
  - do 2 f_equal. destruct (Z.leb_spec s t), (Z.ltb_spec s t), (Z.eqb_spec s t); cbn; try reflexivity; lia.
  - do 2 f_equal. destruct (Z.leb_spec t s), (Z.ltb_spec t s), (Z.eqb_spec s t); cbn; try reflexivity; lia.
Qed.

Lemma bytes_eqb_cmp s t : bytes_eqb s t = match bytes_cmp s t with Eq => true | _ => false end.
Proof.
  destruct (bytes_cmp s t) eqn:E.
  - apply bytes_cmp_eq in E. subst. apply bytes_eqb_refl.
  - apply bytes_eqb_neq. intros ->. rewrite bytes_cmp_refl in E. discriminate.
  - apply bytes_eqb_neq. intros ->. rewrite bytes_cmp_refl in E. discriminate.
Qed.

Lemma bytes_consistent s t : cmp_consistent (VBytes s) (VBytes t).
Proof.
  exists (bytes_ltb s t), (bytes_eqb s t), (bytes_ltb t s).
  cbn. unfold try_lt, try_gt, try_le, try_ge, try_cmp, b_cmp, bytes_ltb.
  rewrite (bytes_eqb_cmp s t), (bytes_cmp_antisym s t).
  destruct (bytes_cmp s t); cbn; repeat split; reflexivity.
Qed.

(* ================================================================================================ *)
(* C10: equality of non-numbers is structural (the two float zeros identified)                      *)
(* ================================================================================================ *)

Lemma f_eq_norm0 f g : f_is_nan f = false -> f_eq f g = sf_eqb (f_norm0 f) (f_norm0 g).
Proof.
  intros Hf. destruct (f_is_nan g) eqn:Hg.
  - destruct g; try discriminate. destruct f; cbn in *; try discriminate; reflexivity.
  - destruct (f_eq f g) eqn:E.
    + apply (f_eq_iff f g Hf Hg) in E. destruct E as [->|[Hz1 Hz2]].
      * symmetry. apply sf_eqb_eq. reflexivity.
      * destruct f, g; cbn in *; try discriminate. reflexivity.
    + symmetry. destruct (sf_eqb (f_norm0 f) (f_norm0 g)) eqn:E2; [|reflexivity].
      apply sf_eqb_eq in E2.
      assert (f_eq f g = true) as E3; [|congruence].
      apply (f_eq_iff f g Hf Hg).
      destruct f, g; cbn in *; try discriminate; auto; inversion E2; subst; auto.
Qed.

Lemma value_eq_structural v : no_nan v = true -> forall w, value_eq v w = value_eqb (norm_zero v) (norm_zero w).
Proof.
  induction v using value_ind'; intros Hn w; destruct w; cbn in *; try reflexivity.
  - apply f_eq_norm0. destruct f; cbn in *; congruence.
  - (* objects *)
    rename kvs0 into l2. revert l2. induction H as [|[k1 v1] r1 Hv Hr IH]; intros [|[k2 v2] r2]; cbn in *; try reflexivity.
    apply andb_true_iff in Hn. destruct Hn as [Hn1 Hn2].
    rewrite (Hv Hn1 v2). rewrite (IH Hn2 r2). reflexivity.
  - (* arrays *)
    rename vs0 into l2. revert l2. induction H as [|v1 r1 Hv Hr IH]; intros [|v2 r2]; cbn in *; try reflexivity.
    apply andb_true_iff in Hn. destruct Hn as [Hn1 Hn2].
    rewrite (Hv Hn1 v2). rewrite (IH Hn2 r2). reflexivity.
Qed.

Lemma struct_eq v w : is_number v = false -> no_nan v = true ->
  eq_lossy v w = value_eqb (norm_zero v) (norm_zero w).
Proof.
  intros Hnum Hn. destruct v; try discriminate; cbn [eq_lossy]; apply value_eq_structural; assumption.
Qed.


(* without float zeros inside, norm_zero is the identity: plain structural equality *)
Lemma norm_zero_id v : no_float_zero v = true -> norm_zero v = v.
Proof.
  induction v using value_ind'; intros Hn; cbn in *; try reflexivity.
  - destruct f; cbn in *; try discriminate; reflexivity.
  - f_equal. induction H as [|[k1 v1] r1 Hv Hr IH]; cbn in *; try reflexivity.
    apply andb_true_iff in Hn. destruct Hn as [Hn1 Hn2]. rewrite (Hv Hn1), (IH Hn2). reflexivity.
  - f_equal. induction H as [|v1 r1 Hv Hr IH]; cbn in *; try reflexivity.
    apply andb_true_iff in Hn. destruct Hn as [Hn1 Hn2]. rewrite (Hv Hn1), (IH Hn2). reflexivity.
Qed.

(* mixed equality: the integer is converted, then the floats are compared; in both orders *)
Lemma mixed_eq a f :
  eq_lossy (VInt a) (VFloat f) = f_eq (of_i64 a) f /\ eq_lossy (VFloat f) (VInt a) = f_eq f (of_i64 a)
  /\ eq_lossy (VInt a) (VFloat f) = eq_lossy (VFloat (of_i64 a)) (VFloat f)
  /\ eq_lossy (VFloat f) (VInt a) = eq_lossy (VFloat f) (VFloat (of_i64 a)).
Proof. repeat split; reflexivity. Qed.

(* a number never equals a non-number *)
Lemma number_ne_other v w : is_number v = true -> is_number w = false -> eq_lossy v w = false /\ eq_lossy w v = false.
Proof.
  intros Hv Hw. destruct v; try discriminate; destruct w; try discriminate; split; reflexivity.
Qed.

(* ================================================================================================ *)
(* C11                                                                                              *)
(* ================================================================================================ *)

Lemma int_wrap a b :
  try_add (VInt a) (VInt b) = Ok (VInt (wrap64 (a + b)))
  /\ try_sub (VInt a) (VInt b) = Ok (VInt (wrap64 (a - b)))
  /\ try_mul (VInt a) (VInt b) = Ok (VInt (wrap64 (a * b))).
Proof. repeat split; reflexivity. Qed.

Lemma float_result_ok f v : float_result f = Ok v -> v = VFloat f /\ f_is_nan f = false.
Proof. unfold float_result. destruct (f_is_nan f); intros H; inversion H; auto. Qed.

Lemma float_result_err f e : float_result f = Err e -> e = ENan /\ f_is_nan f = true.
Proof. unfold float_result. destruct (f_is_nan f); intros H; inversion H; auto. Qed.


Lemma div_spec x y : is_number x = true -> is_number y = true ->
  try_div x y = if divisor_is_zero y then Err EDivZero else float_result (f_div (to_f x) (to_f y)).
Proof.
  intros Hx Hy. destruct x; try discriminate; destruct y; try discriminate; cbn.
  - destruct z0; reflexivity.
  - destruct (f_is_zero f); reflexivity.
  - destruct z; reflexivity.
  - destruct (f_is_zero f0); reflexivity.
Qed.

Lemma rem_spec x y : is_number x = true -> is_number y = true ->
  try_rem x y =
  if divisor_is_zero y then Err EDivZero
  else match x, y with
       | VInt a, VInt b => Ok (VInt (Z.rem a b))
       | _, _ => float_result (sf_rem (to_f x) (to_f y))
       end.
Proof.
  intros Hx Hy. destruct x; try discriminate; destruct y; try discriminate; cbn.
  - destruct z0; try reflexivity; rewrite wrapping_rem_eq; reflexivity.
  - destruct (f_is_zero f); reflexivity.
  - destruct z; reflexivity.
  - destruct (f_is_zero f0); reflexivity.
Qed.

(* division (and mod) fail with "divide by zero" exactly when the divisor is 0 / 0.0 / -0.0, whatever is on the left *)
Lemma div_zero_iff x y : try_div x y = Err EDivZero <-> divisor_is_zero y = true.
Proof.
  split.
  - destruct x, y; cbn; try discriminate; auto;
      try (match goal with |- context [match ?z with Z0 => _ | Zpos _ => _ | Zneg _ => _ end] => destruct z end);
      try (match goal with |- context [f_is_zero ?g] => destruct (f_is_zero g) end);
      auto; try discriminate;
      intros H; apply float_result_err in H; destruct H; discriminate.
  - destruct y; cbn; try discriminate.
    + destruct z; try discriminate. destruct x; reflexivity.
    + intros Hz. destruct x; cbn; rewrite ?Hz; reflexivity.
Qed.

Lemma rem_zero_iff x y : try_rem x y = Err EDivZero <-> divisor_is_zero y = true.
Proof.
  split.
  - destruct x, y; cbn; try discriminate; auto;
      try (match goal with |- context [match ?z with Z0 => _ | Zpos _ => _ | Zneg _ => _ end] => destruct z end);
      try (match goal with |- context [f_is_zero ?g] => destruct (f_is_zero g) end);
      auto; try discriminate;
      intros H; apply float_result_err in H; destruct H; discriminate.
  - destruct y; cbn; try discriminate.
    + destruct z; try discriminate. destruct x; reflexivity.
    + intros Hz. destruct x; cbn; rewrite ?Hz; reflexivity.
Qed.

(* division always yields a float *)
Lemma div_yields_float x y v : try_div x y = Ok v -> exists f, v = VFloat f /\ f_is_nan f = false.
Proof.
  destruct x, y; cbn; try discriminate;
    try (destruct z; try discriminate); try (destruct z0; try discriminate);
    try (destruct (f_is_zero f); try discriminate); try (destruct (f_is_zero f0); try discriminate);
    intros H; apply float_result_ok in H; destruct H as [-> H]; eauto.
Qed.

(* a float result is never NaN, for every operator and every pair of operands *)
Lemma never_nan o x y f : binop o x y = Ok (VFloat f) -> f_is_nan f = false.
Proof.
  destruct o; cbn; try discriminate;
    unfold try_gt, try_ge, try_lt, try_le;
    destruct x, y; cbn; try discriminate;
    try (destruct z; try discriminate); try (destruct z0; try discriminate);
    try (match goal with |- context [f_is_zero ?g] => destruct (f_is_zero g); try discriminate end);
    intros H; try (apply float_result_ok in H; destruct H as [H1 H2]; inversion H1; subst; assumption);
    inversion H.
Qed.

(* mixed integer/float arithmetic = the float operation on the converted integer *)
Lemma mixed_arith_l a g :
  try_add (VInt a) (VFloat g) = try_add (VFloat (of_i64 a)) (VFloat g)
  /\ try_sub (VInt a) (VFloat g) = try_sub (VFloat (of_i64 a)) (VFloat g)
  /\ try_mul (VInt a) (VFloat g) = try_mul (VFloat (of_i64 a)) (VFloat g)
  /\ try_div (VInt a) (VFloat g) = try_div (VFloat (of_i64 a)) (VFloat g)
  /\ try_rem (VInt a) (VFloat g) = try_rem (VFloat (of_i64 a)) (VFloat g).
Proof. repeat split; reflexivity. Qed.

Lemma mixed_arith_r f b :
  try_add (VFloat f) (VInt b) = try_add (VFloat f) (VFloat (of_i64 b))
  /\ try_sub (VFloat f) (VInt b) = try_sub (VFloat f) (VFloat (of_i64 b))
  /\ try_mul (VFloat f) (VInt b) = try_mul (VFloat f) (VFloat (of_i64 b)).
Proof. repeat split; reflexivity. Qed.

(* ... for / and mod with the integer on the right the divisor test is made on the integer *)
Lemma mixed_div_r f b :
  (b = 0 -> try_div (VFloat f) (VInt b) = Err EDivZero /\ try_rem (VFloat f) (VInt b) = Err EDivZero
            /\ try_div (VFloat f) (VFloat (of_i64 b)) = Err EDivZero /\ try_rem (VFloat f) (VFloat (of_i64 b)) = Err EDivZero)
  /\ (b <> 0 -> try_div (VFloat f) (VInt b) = float_result (f_div f (of_i64 b))
                /\ try_rem (VFloat f) (VInt b) = float_result (sf_rem f (of_i64 b))).
Proof.
  split.
  - intros ->. repeat split; reflexivity.
  - intros Hb. destruct b; try contradiction; split; reflexivity.
Qed.

Lemma mixed_div_r_conv f b : f_is_zero (of_i64 b) = false -> b <> 0 ->
  try_div (VFloat f) (VInt b) = try_div (VFloat f) (VFloat (of_i64 b))
  /\ try_rem (VFloat f) (VInt b) = try_rem (VFloat f) (VFloat (of_i64 b)).
Proof.
  intros Hz Hb. cbn. rewrite Hz. destruct b; try contradiction; split; reflexivity.
Qed.

(* strings *)
Lemma concat_spec s t :
  try_add (VBytes s) (VBytes t) = Ok (VBytes (s ++ t))
  /\ try_add (VBytes s) VNull = Ok (VBytes s) /\ try_add VNull (VBytes t) = Ok (VBytes t)
  /\ try_add (VBytes s) VNull = try_add (VBytes s) (VBytes []) /\ try_add VNull (VBytes t) = try_add (VBytes []) (VBytes t).
Proof. repeat split; try reflexivity. cbn. rewrite app_nil_r. reflexivity. Qed.

Lemma concat_repeat_nil {A} n : concat (repeat (@nil A) n) = [].
Proof. induction n; cbn; auto. Qed.

Lemma bytes_repeat_spec s n : bytes_repeat s (as_usize n) = concat (repeat s (Z.to_nat (Z.max n 0))).
Proof.
  unfold bytes_repeat, as_usize.
  assert (Z.to_nat (if n <? 0 then 0 else n) = Z.to_nat (Z.max n 0)) as E
    by (destruct (Z.ltb_spec n 0); f_equal; lia).
  destruct s as [|c s]; [symmetry; apply concat_repeat_nil|]. rewrite E. reflexivity.
Qed.

Lemma repeat_spec s n :
  try_mul (VBytes s) (VInt n) = Ok (VBytes (concat (repeat s (Z.to_nat (Z.max n 0)))))
  /\ try_mul (VInt n) (VBytes s) = Ok (VBytes (concat (repeat s (Z.to_nat (Z.max n 0))))).
Proof. cbn. rewrite bytes_repeat_spec. split; reflexivity. Qed.

Lemma repeat_length (s : bytes) n :
  length (concat (repeat s (Z.to_nat (Z.max n 0)))) = (Z.to_nat (Z.max n 0) * length s)%nat.
Proof. induction (Z.to_nat (Z.max n 0)); cbn; auto. rewrite app_length, IHn0. reflexivity. Qed.

(* integer mod: truncating remainder (sign of the dividend), defined for every non-zero divisor incl. MIN % -1 *)
Lemma int_rem a b : b <> 0 ->
  try_rem (VInt a) (VInt b) = Ok (VInt (Z.rem a b))
  /\ a = b * Z.quot a b + Z.rem a b /\ Z.abs (Z.rem a b) < Z.abs b /\ 0 <= Z.rem a b * a
  /\ (in_i64 a -> in_i64 (Z.rem a b)).
Proof.
  intros Hb. split; [|split; [|split; [|split]]].
  - cbn. destruct b; try contradiction; rewrite wrapping_rem_eq; reflexivity.
  - apply Z.quot_rem'.
  - apply Z.rem_bound_abs. assumption.
  - apply Z.rem_sign_mul. assumption.
  - intros Ha. apply (rem_in_i64 a b Ha Hb).
Qed.

(* operands of kinds an operator does not support: an error, never a value *)
Lemma float_ops_def f g :
  try_add (VFloat f) (VFloat g) = float_result (SFadd 53 1024 f g)
  /\ try_sub (VFloat f) (VFloat g) = float_result (SFsub 53 1024 f g)
  /\ try_mul (VFloat f) (VFloat g) = float_result (SFmul 53 1024 f g)
  /\ (f_is_zero g = false -> try_div (VFloat f) (VFloat g) = float_result (SFdiv 53 1024 f g)).
Proof. repeat split; try reflexivity. intros H. cbn. rewrite H. reflexivity. Qed.

(* what the answers are, for byte strings (lexicographic on the bytes) and timestamps (the instant) *)
Lemma bytes_order s t :
  binop OEq (VBytes s) (VBytes t) = Ok (VBool (bytes_eqb s t))
  /\ binop OLt (VBytes s) (VBytes t) = Ok (VBool (bytes_ltb s t))
  /\ binop OGt (VBytes s) (VBytes t) = Ok (VBool (bytes_ltb t s)).
Proof.
  cbn. unfold try_lt, try_gt, try_cmp, b_cmp, bytes_ltb. rewrite (bytes_cmp_antisym s t).
  destruct (bytes_cmp s t); repeat split; reflexivity.
Qed.

Lemma ts_order s t :
  binop OEq (VTs s) (VTs t) = Ok (VBool (s =? t))
  /\ binop OLt (VTs s) (VTs t) = Ok (VBool (s <? t))
  /\ binop OGt (VTs s) (VTs t) = Ok (VBool (t <? s)).
Proof.
  cbn. unfold try_lt, try_gt, try_cmp, z_cmp. rewrite Z.gtb_ltb. repeat split; reflexivity.
Qed.

Lemma struct_eq_plain v w : is_number v = false -> no_nan v = true ->
  no_float_zero v = true -> no_float_zero w = true -> eq_lossy v w = value_eqb v w.
Proof.
  intros H1 H2 H3 H4. rewrite (struct_eq v w H1 H2), (norm_zero_id v H3), (norm_zero_id w H4). reflexivity.
Qed.


Lemma not_orderable x y o : orderable x y = false -> try_cmp o x y = Err EType.
Proof. destruct x, y; cbn; try discriminate; reflexivity. Qed.

(* the witness of the former finding C10-int-eq-lossy (2^53 + 1 and 2^53): the two conversions to f64 still
   coincide, and the integers now compare unequal, with exactly `>` true *)
Lemma int_eq_former_witness :
  let a := 9007199254740993 in let b := 9007199254740992 in
  in_i64 a /\ in_i64 b /\ known_int_eq a b = true
  /\ binop OEq (VInt a) (VInt b) = Ok (VBool false) /\ binop ONe (VInt a) (VInt b) = Ok (VBool true)
  /\ binop OGt (VInt a) (VInt b) = Ok (VBool true) /\ binop OLt (VInt a) (VInt b) = Ok (VBool false)
  /\ binop OEq (VInt a) (VFloat (of_i64 b)) = Ok (VBool true).
Proof.
  cbv zeta. split; [unfold in_i64, two63; lia|]. split; [unfold in_i64, two63; lia|].
  repeat split; vm_compute; reflexivity.
Qed.
