(* C15: accepted programs leave read-only (recursive) paths unchanged. *)
From Coq Require Import List NArith ZArith Bool Lia.
From VRL Require Import Base.Bytes Base.Value Model.ValueCrud Model.Expr Model.Eval Model.Info Model.ReadOnly
     Proofs.ValueCrudProofs Proofs.EvalProofs Proofs.InfoProofs.
Import ListNotations.

(* q and P name separate locations: field-only, neither a prefix of the other *)
Definition sep (q P : path) : Prop :=
  fields_only q = true /\ fields_only P = true /\ is_prefix q P = false /\ is_prefix P q = false.

Lemma fields_only_all p : fields_only p = all_fields p.
Proof. induction p as [|[k|i] p IH]; cbn; auto. Qed.

(* removal without compaction leaves separate field locations alone *)
Lemma rm_frame q : forall c P r c',
  sep q P -> rm c q false = Some (r, c') -> get c' P = get c P.
Proof.
  induction q as [|[f|i] q IH]; intros c P r c' [Hq [HP [H1 H2]]] Hrm; cbn in Hq; try discriminate.
  destruct P as [|[g|j] P]; cbn in HP, H1, H2; try discriminate.
  cbn [rm] in Hrm. destruct c as [?|?|?|?|?|?|m|a|]; try discriminate.
  destruct q as [|s q'].
  - destruct (obj_get m f) as [old|] eqn:Ef; try discriminate. inversion Hrm; subst.
    cbn [get]. destruct (bytes_eqb f g) eqn:E.
    + cbn in H1. discriminate.
    + apply bytes_eqb_neq in E. rewrite obj_get_remove_other by congruence. reflexivity.
  - destruct (obj_get m f) as [c1|] eqn:Ef; try discriminate.
    destruct (rm c1 (s :: q') false) as [[prev c1']|] eqn:Er; try discriminate.
    inversion Hrm; subst. cbn [andb]. cbn [get].
    destruct (bytes_eqb f g) eqn:E.
    + apply bytes_eqb_eq in E. subst g. rewrite obj_get_set_same, Ef.
      eapply IH; eauto. rewrite ?bytes_eqb_refl in *. cbn in H1, H2.
      repeat split; auto.
    + apply bytes_eqb_neq in E. rewrite obj_get_set_other by congruence. reflexivity.
Qed.

Lemma remove_frame v q P :
  sep q P -> get (snd (remove v q false)) P = get v P.
Proof.
  intros H. unfold remove. destruct q as [|s q].
  - destruct H as [_ [_ [H1 _]]]. cbn in H1. discriminate.
  - destruct (rm v (s :: q) false) as [[prev v']|] eqn:E; cbn [snd]; auto.
    eapply rm_frame; eauto.
Qed.

Lemma insert_frame_sep v q P x : sep q P -> get (insert v q x) P = get v P.
Proof.
  intros [Hq [HP [H1 H2]]]. apply insert_frame_fields; rewrite <- ?fields_only_all; auto.
Qed.

(* the relation carried through evaluation: locations separate from everything the report lets the
   program write or (without compaction) delete keep their value *)
Definition keeps (Q : list qent) (A : list (prefix * path)) (s s' : state) : Prop :=
  forall pfx P,
    (forall q, In (pfx, q) A -> sep q P) ->
    (forall c q, In (Some c, (pfx, q)) Q -> sep q P /\ c = false) ->
    get (tval s' pfx) P = get (tval s pfx) P.

Lemma keeps_vars Q A s s' : ev s' = ev s -> md s' = md s -> tlog s' = tlog s -> keeps Q A s s'.
Proof. intros He Hm _ pfx P _ _. destruct pfx; cbn; congruence. Qed.

Lemma keeps_trans Q A s1 s2 s3 : keeps Q A s1 s2 -> keeps Q A s2 s3 -> keeps Q A s1 s3.
Proof. intros H1 H2 pfx P HA HQ. rewrite (H2 pfx P HA HQ). apply H1; auto. Qed.

Lemma keeps_weaken Q A Q' A' s s' : incl Q Q' -> incl A A' -> keeps Q A s s' -> keeps Q' A' s s'.
Proof. intros IQ IA H pfx P HA HQ. apply H; intros; [apply HA|eapply HQ]; auto. Qed.

Lemma keeps_get s pfx p : keeps [(None, (pfx, p))] [] s (snd (t_get s pfx p)).
Proof. unfold t_get. destruct (pop_fault s). intros pfx' P _ _. destruct pfx'; reflexivity. Qed.

Lemma keeps_insert s pfx p v : keeps [] [(pfx, p)] s (t_insert s pfx p v).
Proof.
  unfold t_insert. destruct (pop_fault s) as [bad fs]. intros pfx' P HA _.
  destruct pfx, pfx'; cbn [with_target tval ev md]; auto; destruct bad; auto;
    apply insert_frame_sep; apply HA; left; reflexivity.
Qed.

Lemma keeps_remove s pfx p c : keeps [(Some c, (pfx, p))] [] s (snd (t_remove s pfx p c)).
Proof.
  unfold t_remove. destruct (pop_fault s) as [bad fs]. intros pfx' P _ HQ.
  destruct bad.
  - destruct pfx, pfx'; reflexivity.
  - destruct (remove (tval s pfx) p c) as [r v'] eqn:E.
    destruct pfx, pfx'; cbn [snd with_target tval ev md] in *; auto;
      destruct (HQ c p (or_introl eq_refl)) as [Hs ->];
      match type of E with remove ?vv _ _ = _ => pose proof (remove_frame vv p P Hs) as G end;
      rewrite E in G; exact G.
Qed.

Theorem run_keeps F binop es s : keeps (queries_l es) (assigns_l es) s (snd (run F binop es s)).
Proof.
  exact (run_R keeps keeps_vars keeps_trans keeps_weaken keeps_get keeps_insert keeps_remove F binop es s).
Qed.

(* ---------- from the compiler's acceptance to separation ---------- *)

Lemma starts_with_prefix p pre : fields_only pre = true -> starts_with p pre = is_prefix pre p.
Proof.
  revert p; induction pre as [|[k|i] pre IH]; intros p H; destruct p as [|t p]; cbn in *;
    try discriminate; auto.
  rewrite IH by auto. destruct t; cbn; auto. rewrite bytes_eqb_sym. reflexivity.
Qed.

Lemma not_read_only_sep cfg r pfx q :
  In r cfg -> ro_rec r = true -> ro_pfx r = pfx ->
  fields_only q = true -> fields_only (ro_p r) = true ->
  is_read_only cfg pfx q = false -> sep q (ro_p r).
Proof.
  intros Hin Hrec Hp Hq HP Hro. unfold is_read_only in Hro.
  set (f := fun r0 : ro_path => pfx_eq (ro_pfx r0) pfx &&
              (starts_with (ro_p r0) q || (if ro_rec r0 then starts_with q (ro_p r0) else path_eq q (ro_p r0)))) in *.
  assert (H : f r = false).
  { destruct (f r) eqn:E; auto.
    assert (X : existsb f cfg = true) by (apply existsb_exists; exists r; auto). congruence. }
  unfold f in H.
  cbn in H. rewrite Hp, Hrec in H. replace (pfx_eq pfx pfx) with true in H by (destruct pfx; reflexivity).
  cbn in H. apply orb_false_iff in H. destruct H as [Ha Hb].
  rewrite starts_with_prefix in Ha, Hb by auto. repeat split; auto.
Qed.

Theorem accepted_keeps_recursive_read_only F binop cfg es s r :
  ro_accepts cfg es = true -> no_compact_del es = true ->
  In r cfg -> ro_rec r = true -> fields_only (ro_p r) = true ->
  (forall w, In w (writes es) -> fields_only (snd w) = true) ->
  get (tval (snd (run F binop es s)) (ro_pfx r)) (ro_p r) = get (tval s (ro_pfx r)) (ro_p r).
Proof.
  intros Hacc Hnc Hin Hrec HP Hw.
  unfold ro_accepts in Hacc. rewrite forallb_forall in Hacc.
  apply (run_keeps F binop es s (ro_pfx r) (ro_p r)).
  - intros q Hq.
    assert (Hi : In (ro_pfx r, q) (writes es)) by (unfold writes; apply in_or_app; auto).
    apply (not_read_only_sep cfg r (ro_pfx r) q); auto.
    + apply (Hw _ Hi).
    + specialize (Hacc _ Hi). cbn in Hacc. apply negb_true_iff in Hacc. exact Hacc.
  - intros c q Hq.
    assert (Hi : In (ro_pfx r, q) (writes es)).
    { unfold writes, del_paths. apply in_or_app. right. apply in_flat_map.
      exists (Some c, (ro_pfx r, q)). split; auto. cbn. auto. }
    split.
    + apply (not_read_only_sep cfg r (ro_pfx r) q); auto.
      * apply (Hw _ Hi).
      * specialize (Hacc _ Hi). cbn in Hacc. apply negb_true_iff in Hacc. exact Hacc.
    + unfold no_compact_del in Hnc. rewrite forallb_forall in Hnc. specialize (Hnc _ Hq). cbn in Hnc.
      destruct c; auto; discriminate.
Qed.
