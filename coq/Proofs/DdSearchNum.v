(* Proofs about Model/DdSearch.v (C30), part 2: integer bounds are printed and read back exactly. *)
From Coq Require Import String List NArith ZArith Bool Lia.
From VRL Require Import Base.Bytes Base.Value Base.Lit Model.DdNode Model.DdSearch Proofs.DdSearchProofs.
Import ListNotations.
Local Open Scope N_scope.

Definition all_digits (s : bytes) : bool := forallb is_digit s.

Lemma is_digit_spec c : is_digit c = true <-> 48 <= c <= 57.
Proof. unfold is_digit. rewrite andb_true_iff, !N.leb_le. tauto. Qed.

Lemma dec_value_app a b acc : dec_value (a ++ b) acc = dec_value b (dec_value a acc).
Proof. revert acc; induction a as [|c a IH]; intros acc; cbn; auto. Qed.

Definition digit_of (d : Z) : N := Z.to_N d + 48.

Lemma digit_of_ok d : (0 <= d < 10)%Z -> is_digit (digit_of d) = true /\ Z.of_N (digit_of d - 48) = d.
Proof.
  intros H. unfold digit_of. split.
  - apply is_digit_spec. lia.
  - replace (Z.to_N d + 48 - 48) with (Z.to_N d) by lia. rewrite Z2N.id; lia.
Qed.

(* pos_digits writes the decimal digits of n in front of acc *)
Lemma pos_digits_spec fuel : forall n acc,
  (0 < n < 2 ^ Z.of_nat fuel)%Z ->
  exists ds, pos_digits fuel n acc = ds ++ acc /\ all_digits ds = true /\ nonempty ds = true /\
             dec_value ds 0 = n.
Proof.
  induction fuel as [|f IH]; intros n acc H.
  - cbn in H. lia.
  - cbn [pos_digits]. fold (digit_of (n mod 10)).
    assert (0 <= n mod 10 < 10)%Z as Hd by (apply Z.mod_pos_bound; lia).
    destruct (digit_of_ok _ Hd) as [D1 D2].
    destruct (Z.eqb_spec (n / 10) 0) as [Hq|Hq].
    + exists [digit_of (n mod 10)]. repeat split; cbn; auto.
      * rewrite D1. reflexivity.
      * rewrite D2. rewrite (Z.div_mod n 10) at 2 by lia. rewrite Hq. lia.
    + assert (0 < n / 10 < 2 ^ Z.of_nat f)%Z as Hq'.
      { split.
        - assert (0 <= n / 10)%Z by (apply Z.div_pos; lia). lia.
        - rewrite Nat2Z.inj_succ, Z.pow_succ_r in H by lia.
          apply Z.div_lt_upper_bound; lia. }
      destruct (IH (n / 10)%Z (digit_of (n mod 10) :: acc) Hq') as (ds & E & A & N & V).
      exists (ds ++ [digit_of (n mod 10)]). repeat split.
      * rewrite E, <- app_assoc. reflexivity.
      * unfold all_digits in *. rewrite forallb_app, A. cbn. rewrite D1. reflexivity.
      * destruct ds; [discriminate | reflexivity].
      * rewrite dec_value_app, V. cbn. rewrite D2. rewrite (Z.div_mod n 10) at 3 by lia. lia.
Qed.

Lemma pos_digits_top n :
  (0 <= n)%Z ->
  exists ds, pos_digits (S (Z.to_nat (Z.log2 n))) n [] = ds /\ all_digits ds = true /\ nonempty ds = true /\
             dec_value ds 0 = n.
Proof.
  intros H. destruct (Z.eq_dec n 0) as [->|Hn].
  - exists [48]. repeat split.
  - assert (0 < n)%Z as Hp by lia.
    destruct (pos_digits_spec (S (Z.to_nat (Z.log2 n))) n []) as (ds & E & A & N & V).
    { split; [lia|]. rewrite Nat2Z.inj_succ, Z2Nat.id by apply Z.log2_nonneg.
      apply Z.log2_spec. lia. }
    exists ds. rewrite app_nil_r in E. auto.
Qed.

(* the decimal text of z: an optional minus and a non-empty run of digits whose value is |z| *)
Lemma dec_of_Z_shape z :
  exists ds, dec_of_Z z = (if (z <? 0)%Z then [45] else []) ++ ds /\ all_digits ds = true /\
             nonempty ds = true /\ dec_value ds 0 = Z.abs z.
Proof.
  unfold dec_of_Z. destruct (Z.ltb_spec z 0) as [Hn|Hp].
  - destruct (pos_digits_top (- z)%Z) as (ds & E & A & N & V); [lia|].
    exists ds. rewrite E. repeat split; auto. rewrite V. lia.
  - destruct (pos_digits_top z Hp) as (ds & E & A & N & V).
    exists ds. rewrite E. repeat split; auto. rewrite V. lia.
Qed.

Lemma digits_app ds rest :
  all_digits ds = true -> (match rest with [] => true | c :: _ => negb (is_digit c) end) = true ->
  digits (ds ++ rest) = (ds, rest).
Proof.
  intros A R. induction ds as [|c ds IH].
  - destruct rest as [|c r]; [reflexivity|]. cbn. apply negb_true_iff in R. rewrite R. reflexivity.
  - cbn in A. apply andb_true_iff in A as [A1 A2]. cbn. rewrite A1, IH; auto.
Qed.

Lemma digits_all ds : all_digits ds = true -> digits ds = (ds, []).
Proof. intros A. rewrite <- (app_nil_r ds) at 1. apply digits_app; auto. Qed.

Lemma digit_head_facts c : is_digit c = true ->
  (c =? 45) = false /\ (c =? 43) = false /\ (c =? 92) = false /\ (c =? 34) = false /\ (c =? 42) = false.
Proof.
  intros H. apply is_digit_spec in H. repeat split; apply N.eqb_neq; lia.
Qed.

Definition i64_range (z : Z) : bool := ((- 2 ^ 63 <=? z) && (z <? 2 ^ 63))%Z.

Theorem parse_i64_dec z : i64_range z = true -> parse_i64 (dec_of_Z z) = Some z.
Proof.
  intros R. destruct (dec_of_Z_shape z) as (ds & E & A & N & V). rewrite E.
  unfold parse_i64. destruct ds as [|d ds]; [discriminate|].
  cbn [all_digits forallb] in A. apply andb_true_iff in A as [Ad A].
  destruct (digit_head_facts d Ad) as (H45 & H43 & _).
  destruct (Z.ltb_spec z 0) as [Hn|Hp].
  - cbn [app split_sign]. rewrite N.eqb_refl.
    rewrite digits_all by (cbn; rewrite Ad, A; reflexivity).
    rewrite V. replace (- Z.abs z)%Z with z by lia. unfold i64_range in R. rewrite R. reflexivity.
  - cbn [app split_sign]. rewrite H45, H43.
    rewrite digits_all by (cbn; rewrite Ad, A; reflexivity).
    rewrite V. replace (Z.abs z) with z by lia. unfold i64_range in R. rewrite R. reflexivity.
Qed.

Lemma strip_prefix_app p r : strip_prefix p (p ++ r) = Some r.
Proof. induction p as [|c p IH]; cbn; [reflexivity | rewrite N.eqb_refl; exact IH]. Qed.

Lemma strip_prefix_head_neq c p x s : (x =? c) = false -> strip_prefix (c :: p) (x :: s) = None.
Proof. intros H. cbn. rewrite H. reflexivity. Qed.

(* what follows a number so that NUMERIC_TERM stops after it *)
Definition num_stop (rest : bytes) : bool :=
  match rest with [] => true | c :: _ => negb (is_digit c) && negb (c =? 46) && negb (c =? 69) end.

Theorem lex_numeric_term_dec z rest :
  num_stop rest = true -> lex_numeric_term (dec_of_Z z ++ rest) = Some (dec_of_Z z, rest).
Proof.
  intros S. destruct (dec_of_Z_shape z) as (ds & E & A & N & V). rewrite E.
  assert (match rest with [] => true | c :: _ => negb (is_digit c) end = true) as S1.
  { destruct rest as [|c r]; [reflexivity|]. cbn in S. apply andb_true_iff in S as [S _].
    apply andb_true_iff in S as [S _]. exact S. }
  assert (strip_prefix [46] rest = None) as S2.
  { destruct rest as [|c r]; [reflexivity|]. cbn in S. apply andb_true_iff in S as [S _].
    apply andb_true_iff in S as [_ S]. apply negb_true_iff in S. cbn. rewrite S. reflexivity. }
  assert (strip_prefix [69] rest = None) as S3.
  { destruct rest as [|c r]; [reflexivity|]. cbn in S. apply andb_true_iff in S as [_ S].
    apply negb_true_iff in S. cbn. rewrite S. reflexivity. }
  unfold lex_numeric_term, num_value.
  destruct ds as [|d ds]; [discriminate|].
  assert (is_digit d = true) as Ad. { cbn in A. apply andb_true_iff in A as [Ad _]. exact Ad. }
  destruct (digit_head_facts d Ad) as (H45 & _ & H92 & _).
  destruct (Z.ltb_spec z 0) as [Hn|Hp].
  - rewrite <- app_assoc. rewrite (strip_prefix_app [45]).
    rewrite digits_app by auto. rewrite S2. cbn [app]. rewrite S3. reflexivity.
  - cbn [app]. rewrite (strip_prefix_head_neq 45 [] d _ H45), (strip_prefix_head_neq 92 [45] d _ H92).
    change (d :: ds ++ rest) with ((d :: ds) ++ rest). rewrite digits_app by auto.
    rewrite S2. cbn [app]. rewrite S3. reflexivity.
Qed.

(* a decimal integer text has no backslash, no quote, no whitespace and none of the range delimiters *)
Definition int_char (c : N) : bool := is_digit c || (c =? 45).

Lemma dec_of_Z_chars z : forallb int_char (dec_of_Z z) = true.
Proof.
  destruct (dec_of_Z_shape z) as (ds & E & A & _). rewrite E, forallb_app.
  assert (forallb int_char ds = true) as ->.
  { unfold all_digits in A. rewrite forallb_forall in *. intros c Hc. unfold int_char. rewrite (A c Hc). reflexivity. }
  destruct (z <? 0)%Z; reflexivity.
Qed.

Lemma unescape_go_int s : forallb int_char s = true -> unescape_go false s = s.
Proof.
  induction s as [|c s IH]; [reflexivity|]. cbn [forallb]. intros H. apply andb_true_iff in H as [Hc H].
  cbn [unescape_go]. assert (c =? 92 = false) as ->.
  { unfold int_char in Hc. apply orb_true_iff in Hc as [Hc|Hc].
    - apply (digit_head_facts c Hc).
    - apply N.eqb_eq in Hc. subst. reflexivity. }
  rewrite IH; auto.
Qed.

Lemma dec_of_Z_head z : exists c r, dec_of_Z z = c :: r /\ int_char c = true.
Proof.
  pose proof (dec_of_Z_chars z) as H. destruct (dec_of_Z_shape z) as (ds & E & _ & N & _).
  destruct (dec_of_Z z) as [|c r] eqn:D.
  - destruct ds; [discriminate|]. destruct (z <? 0)%Z; discriminate.
  - exists c, r. split; auto. cbn in H. apply andb_true_iff in H as [H _]. exact H.
Qed.

Lemma int_char_not_quote c : int_char c = true -> (c =? 34) = false /\ (c =? 42) = false.
Proof.
  unfold int_char. intros H. apply orb_true_iff in H as [H|H].
  - destruct (digit_head_facts c H) as (_ & _ & _ & A & B). auto.
  - apply N.eqb_eq in H. subst. split; reflexivity.
Qed.

(* ComparisonValue::from on the printed integer gives the integer back *)
Theorem cval_from_dec z : i64_range z = true -> cval_from (dec_of_Z z) = CInt z.
Proof.
  intros R. unfold cval_from, unescape. rewrite unescape_go_int by apply dec_of_Z_chars.
  destruct (dec_of_Z_head z) as (c & r & E & Hc). destruct (int_char_not_quote c Hc) as [Q S].
  assert (escape_quotes (dec_of_Z z) = dec_of_Z z) as ->.
  { rewrite E. cbn. rewrite Q. reflexivity. }
  assert (bytes_eqb (dec_of_Z z) [42] = false) as ->.
  { rewrite E. cbn. rewrite S. reflexivity. }
  rewrite parse_i64_dec by exact R. reflexivity.
Qed.
