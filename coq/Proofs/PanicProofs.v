(* C04 (runtime part, Core VRL): the two `expect`s of the modelled runtime - Block::resolve on an empty
   block, filter's "compiler guarantees boolean return type" - are the only sources of a panic; a
   program without empty blocks and without filter closures never panics, in any state and under any
   fault schedule, for every function/operator semantics. *)
From Coq Require Import List NArith ZArith Bool Lia.
From VRL Require Import Base.Bytes Base.Value Model.ValueCrud Model.Expr Model.Eval
     Proofs.ExprInd Proofs.EvalProofs.
Import ListNotations.

Definition nonempty {A} (l : list A) : bool := match l with [] => false | _ => true end.

Fixpoint pf (e : expr) : bool :=
  let pl := fix pl (l : list expr) : bool := match l with [] => true | x :: r => pf x && pl r end in
  match e with
  | EBlock es => nonempty es && pl es
  | EIf c t f => nonempty c && pl c && nonempty t && pl t &&
                 match f with Some fb => nonempty fb && pl fb | None => true end
  | EClosure cf arg ps body =>
      match cf with CFilter => false | _ => true end && pf arg && nonempty body && pl body
  | EQExpr e1 _ | EGroup e1 | ENot e1 | EAssign _ e1 | EAssignInf _ _ e1 _ | EReturn e1 => pf e1
  | EArr es | ECall _ es => pl es
  | EObj kvs => (fix go (l : list (bytes * expr)) : bool :=
                   match l with [] => true | kv :: r => pf (snd kv) && go r end) kvs
  | EOp _ a b => pf a && pf b
  | EAbort (Some m) => pf m
  | _ => true
  end.

Definition pfl (es : list expr) : bool := forallb pf es.

Definition no_panic {X} (r : X + err) : Prop := match r with inr Panic => False | _ => True end.

Section PanicProofs.
  Variable F : fname -> list value -> option value.
  Variable binop : opcode -> value -> value -> option value.
  Notation evl := (eval F binop).

  Definition ok_expr (e : expr) : Prop := pf e = true -> forall s, no_panic (fst (evl e s)).

  Lemma pl_eq es : (fix pl (l : list expr) : bool := match l with [] => true | x :: r => pf x && pl r end) es = pfl es.
  Proof. induction es as [|x r IH]; cbn; auto; try (rewrite IH; reflexivity). Qed.

  Lemma blk_np es : Forall ok_expr es -> nonempty es = true -> pfl es = true ->
    forall s, no_panic (fst (blk F binop es s)).
  Proof.
    induction 1 as [|e es He Hes IH]; intros Hn Hp s; [discriminate|].
    cbn [pfl forallb] in Hp. apply andb_true_iff in Hp. destruct Hp as [Hpe Hps].
    specialize (He Hpe s). destruct es as [|e2 es'].
    - cbn [blk]. exact He.
    - change (blk F binop (e :: e2 :: es') s) with
        (match evl e s with (inl _, s') => blk F binop (e2 :: es') s' | (inr er, s') => (inr er, s') end).
      destruct (evl e s) as [[v|er] s']; cbn [fst] in *.
      + apply IH; auto.
      + exact He.
  Qed.

  Lemma arr_go_np es : Forall ok_expr es -> pfl es = true ->
    forall acc s, no_panic (fst (arr_go F binop es acc s)).
  Proof.
    induction 1 as [|e es He Hes IH]; intros Hp acc s; cbn [arr_go]; [exact I|].
    cbn [pfl forallb] in Hp. apply andb_true_iff in Hp. destruct Hp as [Hpe Hps].
    specialize (He Hpe s). destruct (evl e s) as [[v|er] s']; cbn [fst] in *; auto; try (apply IH; auto).
  Qed.

  Lemma call_go_np f es : Forall ok_expr es -> pfl es = true ->
    forall acc s, no_panic (fst (call_go F binop f es acc s)).
  Proof.
    induction 1 as [|e es He Hes IH]; intros Hp acc s; cbn [call_go].
    - destruct (F f (rev acc)); exact I.
    - cbn [pfl forallb] in Hp. apply andb_true_iff in Hp. destruct Hp as [Hpe Hps].
      specialize (He Hpe s). destruct (evl e s) as [[v|er] s']; cbn [fst] in *; auto; try (apply IH; auto).
  Qed.

  Lemma obj_go_np kvs : Forall (fun kv => ok_expr (snd kv)) kvs -> forallb (fun kv => pf (snd kv)) kvs = true ->
    forall acc s, no_panic (fst (obj_go F binop kvs acc s)).
  Proof.
    induction 1 as [|[k e] kvs He Hes IH]; intros Hp acc s; cbn [obj_go]; [exact I|].
    cbn [forallb snd] in Hp. apply andb_true_iff in Hp. destruct Hp as [Hpe Hps].
    cbn [snd] in He. specialize (He Hpe s). destruct (evl e s) as [[v|er] s']; cbn [fst] in *; auto; try (apply IH; auto).
  Qed.

  Lemma kv_pf_eq kvs :
    (fix go (l : list (bytes * expr)) : bool := match l with [] => true | kv :: r => pf (snd kv) && go r end) kvs
    = forallb (fun kv => pf (snd kv)) kvs.
  Proof. induction kvs as [|x r IH]; cbn; auto; try (rewrite IH; reflexivity). Qed.

  (* closures other than filter *)
  Lemma iter_result_np r : no_panic r -> no_panic (iter_result r).
  Proof. destruct r as [v|[ | | | ]]; cbn; auto. Qed.

  Lemma run1_np body p a : (forall s, no_panic (fst (body s))) -> forall s, no_panic (fst (run1 body p a s)).
  Proof.
    intros Hb s. unfold run1. destruct (bind_param s p a) as [o s1]. specialize (Hb s1).
    destruct (body s1) as [r s2]. cbn [fst] in *. apply iter_result_np; auto.
  Qed.

  Lemma run2_np body p0 p1 a b : (forall s, no_panic (fst (body s))) -> forall s, no_panic (fst (run2 body p0 p1 a b s)).
  Proof.
    intros Hb s. unfold run2. destruct (bind_param s p0 a) as [o s1]. destruct (bind_param s1 p1 b) as [o1 s2].
    specialize (Hb s2). destruct (body s2) as [r s3]. cbn [fst] in *. apply iter_result_np; auto.
  Qed.

  Lemma loop_np {X Y} (step : X -> state -> (Y + err) * state) :
    (forall a s, no_panic (fst (step a s))) -> forall items s, no_panic (fst (loop step items s)).
  Proof.
    intros Hs. induction items as [|a r IH]; intros s; cbn [loop]; [exact I|].
    specialize (Hs a s). destruct (step a s) as [[b|e] s']; cbn [fst] in *.
    - specialize (IH s'). destruct (loop step r s') as [[bs|e] s'']; cbn [fst] in *; auto.
    - destruct e; auto.
  Qed.

  Lemma lift_np {A} (f : A -> value) x : no_panic (fst x) -> no_panic (fst (lift f x)).
  Proof. destruct x as [[a|e] s0]; cbn; auto. Qed.

  Lemma run_closure_np body ps cf v :
    cf <> CFilter -> (forall s, no_panic (fst (body s))) -> forall s, no_panic (fst (run_closure body ps cf v s)).
  Proof.
    intros Hcf Hb s.
    assert (H1 := fun p a => run1_np body p a Hb). assert (H2 := fun p0 p1 a b => run2_np body p0 p1 a b Hb).
    unfold run_closure.
    destruct cf, v; try congruence; try exact I; try apply H1; apply lift_np; apply loop_np; intros a s1.
    - unfold step_each_kv. specialize (H2 (param ps 0) (param ps 1) (VBytes (fst a)) (snd a) s1).
      destruct (run2 _ _ _ _ _ _) as [[?|?] ?]; cbn [fst] in *; auto.
    - unfold step_each_iv. specialize (H2 (param ps 0) (param ps 1) (VInt (fst a)) (snd a) s1).
      destruct (run2 _ _ _ _ _ _) as [[?|?] ?]; cbn [fst] in *; auto.
    - unfold step_mapk. specialize (H1 (param ps 0) (VBytes (fst a)) s1).
      destruct (run1 _ _ _ _) as [[[]|?] ?]; cbn [fst] in *; auto; exact I.
    - unfold step_mapv_kv. specialize (H1 (param ps 0) (snd a) s1).
      destruct (run1 _ _ _ _) as [[?|?] ?]; cbn [fst] in *; auto.
    - unfold step_mapv. specialize (H1 (param ps 0) a s1).
      destruct (run1 _ _ _ _) as [[?|?] ?]; cbn [fst] in *; auto.
  Qed.

  Theorem eval_no_panic e : ok_expr e.
  Proof.
    induction e using expr_ind'; unfold ok_expr in *; intros Hp s; try exact I.
    - cbn [eval]. destruct (t_get s pfx p). exact I.
    - cbn [eval pf] in *. specialize (IHe Hp s). destruct (evl e s) as [[v|er] s']; cbn [fst] in *; auto.
    - change (evl (EArr es) s) with (arr_go F binop es [] s). cbn [pf] in Hp. rewrite pl_eq in Hp. apply arr_go_np; auto.
    - change (evl (EObj kvs) s) with (obj_go F binop kvs [] s). cbn [pf] in Hp. rewrite kv_pf_eq in Hp. apply obj_go_np; auto.
    - change (evl (EBlock es) s) with (blk F binop es s). cbn [pf] in Hp. rewrite pl_eq in Hp.
      apply andb_true_iff in Hp. destruct Hp. apply blk_np; auto.
    - cbn [eval pf] in *. apply IHe; auto.
    - rewrite eval_if. cbn [pf] in Hp. rewrite !pl_eq in Hp.
      repeat (apply andb_true_iff in Hp; destruct Hp as [Hp ?]).
      pose proof (blk_np c H Hp H5 s) as Hc.
      destruct (blk F binop c s) as [[v|er] s']; cbn [fst] in *; auto.
      destruct (try_boolean v) as [[|]|]; cbn [fst]; auto.
      + apply blk_np; auto.
      + destruct f as [fb|]; cbn [fst]; auto. cbn in H1. rewrite pl_eq in H2.
        apply andb_true_iff in H2. destruct H2. apply blk_np; auto.
    - cbn [pf] in Hp. apply andb_true_iff in Hp. destruct Hp as [Ha Hb].
      pose proof (IHe1 Ha) as E1. pose proof (IHe2 Hb) as E2.
      destruct o;
        try (rewrite eval_plain by reflexivity; specialize (E1 s); destruct (evl e1 s) as [[v|er] s']; cbn [fst] in *; auto;
             specialize (E2 s'); destruct (evl e2 s') as [[w|er] s'']; cbn [fst] in *; auto; destruct (binop _ v w); exact I).
      + rewrite eval_or. specialize (E1 s). destruct (evl e1 s) as [[v|er] s']; cbn [fst] in *; auto.
        destruct (falsy v); cbn [fst]; auto.
      + rewrite eval_and. specialize (E1 s). destruct (evl e1 s) as [[v|er] s']; cbn [fst] in *; auto.
        destruct (falsy v); cbn [fst]; auto. specialize (E2 s').
        destruct (evl e2 s') as [[w|er] s'']; cbn [fst] in *; auto. destruct (try_and v w); exact I.
      + rewrite eval_err. specialize (E1 s). destruct (evl e1 s) as [[v|[ | | | ]] s']; cbn [fst] in *; auto.
    - cbn [eval pf] in *. specialize (IHe Hp s). destruct (evl e s) as [[v|er] s']; cbn [fst] in *; auto.
      destruct (try_boolean v); exact I.
    - cbn [eval pf] in *. specialize (IHe Hp s). destruct (evl e s) as [[v|er] s']; cbn [fst] in *; auto.
    - rewrite eval_assign_inf. cbn [pf] in Hp. specialize (IHe Hp s).
      destruct (evl e s) as [[v|[ | | | ]] s']; cbn [fst] in *; auto.
    - destruct m as [m|]; cbn [eval pf] in *; [|exact I]. cbn in H. specialize (H Hp s).
      destruct (evl m s) as [[[]|er] s']; cbn [fst] in *; auto.
    - cbn [eval pf] in *. specialize (IHe Hp s). destruct (evl e s) as [[v|er] s']; cbn [fst] in *; auto.
    - change (evl (ECall f args) s) with (call_go F binop f args [] s). cbn [pf] in Hp. rewrite pl_eq in Hp.
      apply call_go_np; auto.
    - cbn [eval]. destruct (t_remove s pfx p c). exact I.
    - cbn [eval]. destruct (var_get (vars s) x); [|exact I]. destruct (remove v p c). exact I.
    - cbn [eval]. destruct (t_get s pfx p). exact I.
    - rewrite eval_closure. cbn [pf] in Hp. rewrite pl_eq in Hp.
      repeat (apply andb_true_iff in Hp; destruct Hp as [Hp ?]).
      match goal with Hx : pf e = true |- _ => specialize (IHe Hx s) end.
      destruct (evl e s) as [[v|er] s']; cbn [fst] in *; auto.
      apply run_closure_np.
      + destruct cf; try discriminate; congruence.
      + intros s0. apply blk_np; auto.
  Qed.

  Theorem run_no_panic es s :
    nonempty es = true -> pfl es = true -> fst (run F binop es s) <> Panicked.
  Proof.
    intros Hn Hp. unfold run. destruct (pop_fault s) as [bad fs]. destruct bad; [discriminate|].
    assert (H : pf (EBlock es) = true) by (cbn [pf]; rewrite pl_eq, Hn, Hp; reflexivity).
    pose proof (eval_no_panic (EBlock es) H (mkState (vars s) (ev s) (md s) (tlog s) fs)) as N.
    destruct (evl (EBlock es) _) as [[v|[ | | | ]] s']; cbn [fst] in *; try discriminate. contradiction.
  Qed.
End PanicProofs.
