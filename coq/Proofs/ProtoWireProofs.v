(* Round trips of the protobuf wire primitives of Model/Proto.v: varint, zigzag, fixed width, keys,
   length-delimited payloads, and whole record sequences. *)
From Coq Require Import List NArith ZArith Bool Arith Lia.
From VRL Require Import Base.Bytes Model.Proto.
Import ListNotations.

Local Open Scope N_scope.

(* ---------- varint ---------- *)

Lemma pow2_7_mul i : 2 ^ (7 * (i + 1)) = 128 * 2 ^ (7 * i).
Proof. replace (7 * (i + 1)) with (7 * i + 7) by lia. rewrite N.pow_add_r. change (2 ^ 7) with 128. lia. Qed.

Lemma varint_f_roundtrip : forall (fuel : nat) (i acc n : N) (rest : bytes),
  i + N.of_nat fuel = 10 -> i <= 9 -> n < 2 ^ (64 - 7 * i) ->
  decode_varint_f fuel i acc (encode_varint_f fuel n ++ rest) = Some (acc + n * 2 ^ (7 * i), rest).
Proof.
  induction fuel as [|f IH]; intros i acc n rest Hi Hle Hn.
  - exfalso. cbn in Hi. lia.
  - cbn [encode_varint_f decode_varint_f].
    destruct (n <? 128) eqn:E.
    + apply N.ltb_lt in E. cbn [app]. rewrite (proj2 (N.ltb_lt _ _) E).
      rewrite N.mod_small by lia.
      destruct (i =? 9) eqn:E9.
      * apply N.eqb_eq in E9. subst i. change (2 ^ (64 - 7 * 9)) with 2 in Hn.
        replace (2 <=? n) with false by (symmetry; apply (proj2 (N.leb_gt _ _)); lia). reflexivity.
      * reflexivity.
    + apply N.ltb_ge in E. cbn [app].
      assert (Hb : n mod 128 < 128) by (apply N.mod_lt; lia).
      replace (n mod 128 + 128 <? 128) with false by (symmetry; apply (proj2 (N.ltb_ge _ _)); apply N.le_add_l).
      replace ((n mod 128 + 128) mod 128) with (n mod 128).
      2:{ rewrite <- N.add_mod_idemp_r by lia. rewrite N.mod_same by lia. rewrite N.add_0_r, N.mod_mod by lia. reflexivity. }
      assert (Hi9 : i < 9).
      { destruct (N.lt_ge_cases i 9) as [?|Hge]; [assumption|]. exfalso.
        assert (i = 9) by lia. subst i. change (2 ^ (64 - 7 * 9)) with 2 in Hn. lia. }
      rewrite IH.
      * f_equal. f_equal. rewrite pow2_7_mul.
        pose proof (N.div_mod n 128 ltac:(lia)) as Hdm. nia.
      * lia.
      * lia.
      * apply N.div_lt_upper_bound; [lia|].
        replace (64 - 7 * i) with (7 + (64 - 7 * (i + 1))) in Hn by lia.
        rewrite N.pow_add_r in Hn. change (2 ^ 7) with 128 in Hn. exact Hn.
Qed.

Theorem varint_roundtrip n rest :
  n < 2 ^ 64 -> decode_varint (encode_varint n ++ rest) = Some (n, rest).
Proof.
  intros H. unfold decode_varint, encode_varint.
  rewrite varint_f_roundtrip by (cbn; lia). f_equal. f_equal. cbn. lia.
Qed.

Lemma encode_varint_f_length fuel n : (1 <= fuel)%nat -> (1 <= length (encode_varint_f fuel n) <= fuel)%nat.
Proof.
  revert n. induction fuel as [|f IH]; intros n H; [lia|].
  cbn [encode_varint_f]. destruct (n <? 128); cbn [length]; [lia|].
  destruct f as [|f']; [cbn; lia|]. specialize (IH (n / 128) ltac:(lia)). lia.
Qed.

Lemma encode_varint_length n : (1 <= length (encode_varint n) <= 10)%nat.
Proof. apply encode_varint_f_length. lia. Qed.

(* ---------- zigzag ---------- *)

Local Open Scope Z_scope.

Theorem zigzag_roundtrip z : unzigzag (zigzag z) = z.
Proof.
  unfold zigzag, unzigzag. destruct (z <? 0) eqn:E.
  - apply Z.ltb_lt in E.
    assert (Hodd : N.even (Z.to_N (-2 * z - 1)) = false).
    { replace (Z.to_N (-2 * z - 1)) with (1 + 2 * Z.to_N (- z - 1))%N by lia.
      rewrite N.even_add_mul_2. reflexivity. }
    rewrite Hodd.
    replace ((Z.to_N (-2 * z - 1) + 1) / 2)%N with (Z.to_N (- z)).
    + lia.
    + replace (Z.to_N (-2 * z - 1) + 1)%N with (Z.to_N (- z) * 2)%N by lia.
      rewrite N.div_mul by lia. reflexivity.
  - apply Z.ltb_ge in E.
    assert (Heven : N.even (Z.to_N (2 * z)) = true).
    { replace (Z.to_N (2 * z)) with (2 * Z.to_N z)%N by lia. rewrite N.even_mul. reflexivity. }
    rewrite Heven.
    replace (Z.to_N (2 * z)) with (Z.to_N z * 2)%N by lia. rewrite N.div_mul by lia. lia.
Qed.

Lemma zigzag_bound bits z : 0 < bits -> - 2 ^ (bits - 1) <= z < 2 ^ (bits - 1) -> (zigzag z < 2 ^ Z.to_N bits)%N.
Proof.
  intros Hb Hz. unfold zigzag.
  assert (Hp : 2 ^ bits = 2 * 2 ^ (bits - 1)).
  { replace bits with (1 + (bits - 1)) at 1 by lia. rewrite Z.pow_add_r by lia. reflexivity. }
  assert (Hc : Z.of_N (2 ^ Z.to_N bits) = 2 ^ bits).
  { rewrite N2Z.inj_pow. rewrite Z2N.id by lia. reflexivity. }
  destruct (z <? 0) eqn:E; [apply Z.ltb_lt in E | apply Z.ltb_ge in E]; lia.
Qed.

(* ---------- fixed width ---------- *)

Local Open Scope N_scope.

Theorem le_roundtrip : forall (n : nat) (v : N), v < 256 ^ N.of_nat n -> le_val (le_bytes n v) = v.
Proof.
  induction n as [|n IH]; intros v H.
  - cbn in *. lia.
  - cbn [le_bytes le_val]. rewrite IH.
    + pose proof (N.div_mod v 256 ltac:(lia)). lia.
    + apply N.div_lt_upper_bound; [lia|].
      rewrite Nat2N.inj_succ, N.pow_succ_r' in H. exact H.
Qed.

Lemma le_bytes_length n v : length (le_bytes n v) = n.
Proof. revert v; induction n; intros v; cbn; auto. Qed.

Lemma le_val_bound : forall b, wf_bytes b = true -> le_val b < 256 ^ N.of_nat (length b).
Proof.
  induction b as [|x b IH]; intros H; [cbn; lia|].
  cbn [wf_bytes forallb] in H. apply andb_true_iff in H. destruct H as [Hx Hb]. apply N.ltb_lt in Hx.
  specialize (IH Hb). cbn [le_val length]. rewrite Nat2N.inj_succ, N.pow_succ_r'. nia.
Qed.

(* the bytes themselves come back, not only the number (wire data -> number -> wire data) *)
Theorem le_bytes_val : forall b, wf_bytes b = true -> le_bytes (length b) (le_val b) = b.
Proof.
  induction b as [|x b IH]; intros H; [reflexivity|].
  cbn [wf_bytes forallb] in H. apply andb_true_iff in H. destruct H as [Hx Hb]. apply N.ltb_lt in Hx.
  cbn [le_val length le_bytes].
  replace (x + 256 * le_val b) with (x + le_val b * 256) by lia.
  rewrite N.mod_add, N.div_add by lia.
  rewrite (N.mod_small x) by exact Hx. rewrite (N.div_small x) by exact Hx. rewrite N.add_0_l.
  rewrite IH by exact Hb. reflexivity.
Qed.

(* ---------- keys, payloads, records ---------- *)

Lemma take_app (a r : bytes) : take (length a) (a ++ r) = Some (a, r).
Proof.
  unfold take. rewrite app_length.
  replace (Nat.ltb (length a + length r) (length a)) with false by (symmetry; apply Nat.ltb_ge; lia).
  f_equal. f_equal.
  - induction a; cbn; [reflexivity|]. f_equal. assumption.
  - induction a; cbn; [reflexivity|]. assumption.
Qed.

Theorem key_roundtrip num wt rest :
  1 <= num -> num < 2 ^ 29 -> wt <= 5 ->
  decode_key (encode_key num wt ++ rest) = POk (num, wt, rest).
Proof.
  intros H1 H2 Hw. unfold decode_key, encode_key.
  assert (Hk : num * 8 + wt < 2 ^ 32) by (change (2 ^ 32) with (2 ^ 29 * 8); lia).
  rewrite varint_roundtrip by (change (2 ^ 64) with (2 ^ 32 * 2 ^ 32); nia).
  replace (4294967295 <? num * 8 + wt) with false by (symmetry; apply (proj2 (N.ltb_ge _ _)); change (2 ^ 32) with 4294967296 in Hk; lia).
  assert (Hm : (num * 8 + wt) mod 8 = wt).
  { replace (num * 8 + wt) with (wt + num * 8) by lia. rewrite N.mod_add by lia. apply N.mod_small. lia. }
  assert (Hd : (num * 8 + wt) / 8 = num).
  { replace (num * 8 + wt) with (wt + num * 8) by lia. rewrite N.div_add by lia. rewrite (N.div_small wt) by lia. lia. }
  rewrite Hm, Hd.
  replace (5 <? wt) with false by (symmetry; apply (proj2 (N.ltb_ge _ _)); lia).
  replace (num =? 0) with false by (symmetry; apply (proj2 (N.eqb_neq _ _)); lia). reflexivity.
Qed.

(* a wire value a writer can produce *)
Definition wf_wval (w : wval) : Prop :=
  match w with
  | WVarint n => n < 2 ^ 64
  | WF64 b => length b = 8%nat
  | WF32 b => length b = 4%nat
  | WLen b => N.of_nat (length b) < 2 ^ 64
  end.

Theorem wval_roundtrip w rest :
  wf_wval w -> decode_wval (wire_type w) (ser_wval w ++ rest) = POk (w, rest).
Proof.
  destruct w as [n|b|b|b]; cbn [wf_wval wire_type ser_wval]; intros H; unfold decode_wval; cbn [N.eqb Pos.eqb].
  - rewrite varint_roundtrip by exact H. reflexivity.
  - rewrite <- H, take_app. reflexivity.
  - rewrite <- app_assoc, varint_roundtrip by exact H. rewrite Nat2N.id, take_app. reflexivity.
  - rewrite <- H, take_app. reflexivity.
Qed.

(* the statement named in the plan: a length-delimited payload is read back whatever follows it *)
Corollary len_delim_roundtrip b rest :
  N.of_nat (length b) < 2 ^ 64 ->
  decode_wval 2 (encode_varint (N.of_nat (length b)) ++ b ++ rest) = POk (WLen b, rest).
Proof. intros H. rewrite app_assoc. exact (wval_roundtrip (WLen b) rest H). Qed.

Definition wf_record (r : record) : Prop := 1 <= fst r /\ fst r < 2 ^ 29 /\ wf_wval (snd r).

Lemma ser_record_nonempty r : ser_record r <> [].
Proof.
  unfold ser_record, encode_key. pose proof (encode_varint_length (fst r * 8 + wire_type (snd r))) as H.
  destruct (encode_varint _); [cbn in H; lia | discriminate].
Qed.

Lemma wire_type_le5 w : wire_type w <= 5.
Proof. destruct w; cbn; lia. Qed.

Lemma parse_records_f_roundtrip : forall rs fuel,
  Forall wf_record rs -> (length (ser_records rs) <= fuel)%nat ->
  parse_records_f fuel (ser_records rs) = POk rs.
Proof.
  induction rs as [|r rs IH]; intros fuel Hwf Hlen.
  - destruct fuel; reflexivity.
  - inversion Hwf as [|? ? Hr Hrs]; subst. destruct Hr as (H1 & H2 & Hw).
    unfold ser_records in *. cbn [map concat] in *.
    pose proof (ser_record_nonempty r) as Hne.
    destruct fuel as [|f].
    { rewrite app_length in Hlen. destruct (ser_record r); [congruence | cbn in Hlen; lia]. }
    cbn [parse_records_f].
    destruct (ser_record r ++ concat (map ser_record rs)) as [|y t] eqn:Ey.
    { destruct (ser_record r); [congruence | discriminate]. }
    rewrite <- Ey. unfold ser_record at 1. rewrite <- !app_assoc.
    rewrite key_roundtrip by (assumption || apply wire_type_le5). cbn [pbind].
    rewrite wval_roundtrip by exact Hw. cbn [pbind].
    rewrite IH; [destruct r; reflexivity | exact Hrs |].
    rewrite <- Ey in Hlen. rewrite app_length in Hlen.
    assert (1 <= length (ser_record r))%nat by (destruct (ser_record r); [congruence | cbn; lia]). lia.
Qed.

Theorem records_roundtrip rs : Forall wf_record rs -> parse_records (ser_records rs) = POk rs.
Proof. intros H. apply parse_records_f_roundtrip; [exact H | lia]. Qed.
