(* C27 — proofs about the VRL glue of the digest functions (Model/DigestGlue.v), the HMAC construction
   (Model/Hmac.v) and the output encoders. *)
From Coq Require Import List NArith ZArith Bool String Ascii Lia.
From VRL Require Import Base.Bytes Base.Value Base.Lit Model.DigestWord Model.DigestMd5 Model.DigestSha1
     Model.DigestSha2 Model.DigestSha3 Model.Hmac Model.Crc Model.XxHash Model.Seahash Model.Base64 Model.DigestGlue.
Import ListNotations.
Local Open Scope N_scope.

(* ------------------------------------------------------------------------------------------ hex *)
Lemma hexdigit_inj a b : hexdigit a = hexdigit b -> a = b.
Proof.
  unfold hexdigit. destruct (a <? 10) eqn:Ea; destruct (b <? 10) eqn:Eb;
    try apply N.ltb_lt in Ea; try apply N.ltb_lt in Eb;
    try apply N.ltb_ge in Ea; try apply N.ltb_ge in Eb; lia.
Qed.

Lemma hex_inj a b : hex a = hex b -> a = b.
Proof.
  revert b; induction a as [|x a IH]; intros [|y b]; cbn [hex]; try discriminate; auto.
  intros H. injection H as H1 H2 H3.
  apply hexdigit_inj in H1. apply hexdigit_inj in H2.
  f_equal; [| apply IH; exact H3].
  rewrite (N.div_mod x 16) by lia. rewrite (N.div_mod y 16) by lia. rewrite H1, H2. reflexivity.
Qed.

Lemma hex_length b : List.length (hex b) = (2 * List.length b)%nat.
Proof. induction b as [|x b IH]; cbn [hex List.length]; [reflexivity | rewrite IH; lia]. Qed.

Lemma hex_app a b : hex (a ++ b) = hex a ++ hex b.
Proof. induction a as [|x a IH]; cbn [hex app]; [reflexivity | rewrite IH; reflexivity]. Qed.

(* every output character is one of 0-9 a-f when the input is a byte string *)
Lemma hex_alphabet b : wf_bytes b = true ->
  forallb (fun c => ((48 <=? c) && (c <=? 57)) || ((97 <=? c) && (c <=? 102))) (hex b) = true.
Proof.
  induction b as [|x b IH]; cbn [hex wf_bytes forallb]; [reflexivity |].
  intros H. apply andb_true_iff in H as [Hx Hb]. apply N.ltb_lt in Hx.
  assert (Hd : forall n, n < 16 ->
             ((48 <=? hexdigit n) && (hexdigit n <=? 57)) || ((97 <=? hexdigit n) && (hexdigit n <=? 102)) = true).
  { intros n Hn. unfold hexdigit. destruct (n <? 10) eqn:E.
    - apply N.ltb_lt in E. apply orb_true_iff; left. apply andb_true_iff; split; apply N.leb_le; lia.
    - apply N.ltb_ge in E. apply orb_true_iff; right. apply andb_true_iff; split; apply N.leb_le; lia. }
  rewrite Hd by (apply N.div_lt_upper_bound; lia).
  rewrite Hd by (apply N.mod_lt; lia).
  cbn. apply IH; exact Hb.
Qed.

(* ------------------------------------------------------------------------------------------ decimal *)
Definition undec_step (a c : N) : N := a * 10 + (c - 48).
Definition undec (l : bytes) : N := fold_left undec_step l 0.

Lemma dec_aux_spec fuel : forall n acc, n < 10 ^ N.of_nat fuel ->
  fold_left undec_step (dec_aux fuel n acc) 0 = fold_left undec_step acc n.
Proof.
  induction fuel as [|f IH]; intros n acc Hn.
  - cbn in Hn. assert (n = 0) by lia. subst. reflexivity.
  - cbn [dec_aux]. destruct (n <? 10) eqn:E.
    + apply N.ltb_lt in E. cbn [fold_left]. unfold undec_step at 2.
      rewrite N.mod_small by lia. f_equal. lia.
    + apply N.ltb_ge in E. rewrite IH.
      * cbn [fold_left]. unfold undec_step at 2. f_equal.
        pose proof (N.div_mod n 10 ltac:(lia)) as Hd.
        revert Hd. generalize (n / 10) as q, (n mod 10) as r. intros q r Hd. lia.
      * rewrite Nat2N.inj_succ, N.pow_succ_r' in Hn. apply N.div_lt_upper_bound; lia.
Qed.

Lemma undec_dec n : undec (dec n) = n.
Proof.
  unfold undec, dec. rewrite dec_aux_spec; [reflexivity |].
  rewrite Nat2N.inj_succ, N2Nat.id, N.pow_succ_r'.
  pose proof (N.size_gt n) as H.
  assert (2 ^ N.size n <= 10 ^ N.size n) by (apply N.pow_le_mono_l; lia).
  assert (0 < 10 ^ N.size n) by (apply N.neq_0_lt_0, N.pow_nonzero; lia).
  lia.
Qed.

Lemma dec_inj a b : dec a = dec b -> a = b.
Proof. intros H. rewrite <- (undec_dec a), <- (undec_dec b), H. reflexivity. Qed.

(* ------------------------------------------------------------------------------------------ u64 as i64 *)
Lemma to_i64_inj a b : a < 2 ^ 64 -> b < 2 ^ 64 -> to_i64 a = to_i64 b -> a = b.
Proof.
  unfold to_i64. intros Ha Hb.
  change (2 ^ 64) with 18446744073709551616 in *.
  change (2 ^ 63) with 9223372036854775808.
  change (2 ^ 64)%Z with 18446744073709551616%Z.
  destruct (a <? 9223372036854775808) eqn:Ea; destruct (b <? 9223372036854775808) eqn:Eb;
    try apply N.ltb_lt in Ea; try apply N.ltb_lt in Eb; try apply N.ltb_ge in Ea; try apply N.ltb_ge in Eb; lia.
Qed.

Lemma to_i64_range a : a < 2 ^ 64 -> (- 2 ^ 63 <= to_i64 a < 2 ^ 63)%Z.
Proof.
  unfold to_i64. intros Ha.
  change (2 ^ 64) with 18446744073709551616 in *.
  change (2 ^ 63) with 9223372036854775808.
  change (2 ^ 64)%Z with 18446744073709551616%Z. change (2 ^ 63)%Z with 9223372036854775808%Z.
  destruct (a <? 9223372036854775808) eqn:Ea;
    try apply N.ltb_lt in Ea; try apply N.ltb_ge in Ea; lia.
Qed.

(* ------------------------------------------------------------------------------------------ HMAC *)
Lemma blen_app a b : blen (a ++ b) = blen a + blen b.
Proof. unfold blen. rewrite app_length. lia. Qed.

Lemma blen_zeros n : blen (zeros n) = n.
Proof. unfold blen, zeros. rewrite repeat_length. apply N2Nat.id. Qed.

Section HmacLemmas.
  Variable H : bytes -> bytes.
  Variable B : N.

  Lemma hmac_def key msg :
    hmac H B key msg =
    H (xor_bytes 0x5c (hmac_key H B key) ++ H (xor_bytes 0x36 (hmac_key H B key) ++ msg)).
  Proof. reflexivity. Qed.

  Lemma hmac_key_short key : blen key <= B -> hmac_key H B key = key ++ zeros (B - blen key).
  Proof.
    intros Hk. unfold hmac_key, hmac_key0.
    destruct (B <? blen key) eqn:E; [apply N.ltb_lt in E; lia | reflexivity].
  Qed.

  Lemma hmac_key_long key : B < blen key -> hmac_key H B key = H key ++ zeros (B - blen (H key)).
  Proof.
    intros Hk. unfold hmac_key, hmac_key0.
    destruct (B <? blen key) eqn:E; [reflexivity | apply N.ltb_ge in E; lia].
  Qed.

  (* K' has exactly the block size as soon as the hash output fits in a block *)
  Lemma hmac_key_length key : (forall m, blen (H m) <= B) -> blen (hmac_key H B key) = B.
  Proof.
    intros Hout. unfold hmac_key, hmac_key0.
    destruct (B <? blen key) eqn:E.
    - rewrite blen_app, blen_zeros. specialize (Hout key). lia.
    - apply N.ltb_ge in E. rewrite blen_app, blen_zeros. lia.
  Qed.
End HmacLemmas.

(* the five hashes `hmac` accepts produce less than a block *)
Lemma N_to_be_length n x : List.length (N_to_be n x) = n.
Proof. induction n as [|k IH]; cbn [N_to_be List.length]; [reflexivity | rewrite IH; reflexivity]. Qed.

Lemma sha1_length m : blen (sha1 m) = 20.
Proof.
  unfold sha1, blen.
  destruct (fold_left sha1_block _ sha1_init) as [[[[a b] c] d] e].
  rewrite !app_length, !N_to_be_length. reflexivity.
Qed.

Lemma sha2_words_length A iv m : List.length (sha2_compress_all A iv m) = 8%nat.
Proof.
  unfold sha2_compress_all, words_of.
  destruct (fold_left (sha2_block A) _ _) as [[[[[[[a b] c] d] e] f] g] h]. reflexivity.
Qed.

Lemma flat_map_const_length {X} (f : X -> bytes) k (l : list X) :
  (forall x, List.length (f x) = k) -> List.length (flat_map f l) = (k * List.length l)%nat.
Proof.
  intros Hf. induction l as [|x l IH]; cbn [flat_map List.length]; [lia |].
  rewrite app_length, Hf, IH. lia.
Qed.

Lemma sha2_generic_length A iv out m : (out <= a_wbytes A * 8)%nat ->
  List.length (sha2_generic A iv out m) = out.
Proof.
  intros Ho. unfold sha2_generic. rewrite firstn_length.
  rewrite (flat_map_const_length _ (a_wbytes A)) by (intros; apply N_to_be_length).
  rewrite sha2_words_length. lia.
Qed.

Lemma hmac_hash_fits a m : blen (hmac_hash a m) <= hmac_block a.
Proof.
  destruct a; cbn [hmac_hash hmac_block].
  - rewrite sha1_length. lia.
  - unfold blen, sha224. rewrite sha2_generic_length by (cbn; lia). cbn; lia.
  - unfold blen, sha256. rewrite sha2_generic_length by (cbn; lia). cbn; lia.
  - unfold blen, sha384. rewrite sha2_generic_length by (cbn; lia). cbn; lia.
  - unfold blen, sha512. rewrite sha2_generic_length by (cbn; lia). cbn; lia.
Qed.

(* ------------------------------------------------------------------------------------------ name lookup *)
Lemma lookup_some {A} (name_of : A -> string) all n a :
  lookup name_of all n = Some a -> In a all /\ str (name_of a) = n.
Proof.
  unfold lookup. intros Hf. apply find_some in Hf as [Hin He]. split; [exact Hin |].
  apply bytes_eqb_eq; exact He.
Qed.

Lemma lookup_none {A} (name_of : A -> string) all n :
  lookup name_of all n = None -> forall a, In a all -> str (name_of a) <> n.
Proof.
  unfold lookup. intros Hf a Hin E.
  pose proof (find_none _ _ Hf a Hin) as Hn. cbn in Hn. rewrite E, bytes_eqb_refl in Hn. discriminate.
Qed.

Lemma sha2_all_complete v : In v sha2_all.
Proof. destruct v; cbn; tauto. Qed.
Lemma sha3_all_complete v : In v sha3_all.
Proof. destruct v; cbn; tauto. Qed.
Lemma hmac_all_complete v : In v hmac_all.
Proof. destruct v; cbn; tauto. Qed.
Lemma xxh_all_complete v : In v xxh_all.
Proof. destruct v; cbn; tauto. Qed.

Lemma sha2_lookup_name v : lookup sha2_name sha2_all (str (sha2_name v)) = Some v.
Proof. destruct v; reflexivity. Qed.
Lemma sha3_lookup_name v : lookup sha3_name sha3_all (str (sha3_name v)) = Some v.
Proof. destruct v; reflexivity. Qed.
Lemma hmac_lookup_name v : lookup hmac_name hmac_all (str (hmac_name v)) = Some v.
Proof. destruct v; reflexivity. Qed.
Lemma xxh_lookup_name v : lookup xxh_name xxh_all (str (xxh_name v)) = Some v.
Proof. destruct v; reflexivity. Qed.

(* ASCII lower-casing of a name (what a user who writes "sha-256" passes) *)
Definition lower_ascii (b : bytes) : bytes := map (fun x => if (65 <=? x) && (x <=? 90) then x + 32 else x) b.

Lemma hmac_upper_name v : name_upper (str (hmac_name v)) = str (hmac_name v)
                          /\ name_upper (lower_ascii (str (hmac_name v))) = str (hmac_name v).
Proof. destruct v; split; reflexivity. Qed.
Lemma xxh_upper_name v : name_upper (str (xxh_name v)) = str (xxh_name v)
                         /\ name_upper (lower_ascii (str (xxh_name v))) = str (xxh_name v).
Proof. destruct v; split; reflexivity. Qed.

(* ------------------------------------------------------------------------------------------ sha2 / sha3 *)
Lemma glue_sha2 v b : vrl_sha2 (ALit (str (sha2_name v))) (VBytes b) = ROk (VBytes (hex (sha2_spec v b))).
Proof. unfold vrl_sha2, enum_arg. rewrite sha2_lookup_name. reflexivity. Qed.

Lemma glue_sha2_default b : vrl_sha2 ADefault (VBytes b) = ROk (VBytes (hex (sha512_256 b))).
Proof. reflexivity. Qed.

Lemma sha2_accepted a x r : vrl_sha2 a x = ROk r ->
  exists v b, x = VBytes b /\ r = VBytes (hex (sha2_spec v b))
              /\ ((a = ADefault /\ v = S512_256) \/ a = ALit (str (sha2_name v))).
Proof.
  unfold vrl_sha2, enum_arg, with_bytes. destruct a as [|n|d]; try discriminate.
  - destruct x as [b| | | | | | | |]; cbn [as_bytes]; try discriminate. intros E; injection E as <-.
    exists S512_256, b. split; [reflexivity | split; [reflexivity | left; split; reflexivity]].
  - destruct (lookup sha2_name sha2_all n) as [v|] eqn:L; [|discriminate].
    apply lookup_some in L as [_ <-].
    destruct x as [b| | | | | | | |]; cbn [as_bytes]; try discriminate. intros E; injection E as <-.
    exists v, b. split; [reflexivity | split; [reflexivity | right; reflexivity]].
Qed.

Lemma glue_sha3 v b : vrl_sha3 (ALit (str (sha3_name v))) (VBytes b) = ROk (VBytes (hex (sha3_spec v b))).
Proof. unfold vrl_sha3, enum_arg. rewrite sha3_lookup_name. reflexivity. Qed.

Lemma glue_sha3_default b : vrl_sha3 ADefault (VBytes b) = ROk (VBytes (hex (sha3_512 b))).
Proof. reflexivity. Qed.

Lemma sha3_accepted a x r : vrl_sha3 a x = ROk r ->
  exists v b, x = VBytes b /\ r = VBytes (hex (sha3_spec v b))
              /\ ((a = ADefault /\ v = T512) \/ a = ALit (str (sha3_name v))).
Proof.
  unfold vrl_sha3, enum_arg, with_bytes. destruct a as [|n|d]; try discriminate.
  - destruct x as [b| | | | | | | |]; cbn [as_bytes]; try discriminate. intros E; injection E as <-.
    exists T512, b. split; [reflexivity | split; [reflexivity | left; split; reflexivity]].
  - destruct (lookup sha3_name sha3_all n) as [v|] eqn:L; [|discriminate].
    apply lookup_some in L as [_ <-].
    destruct x as [b| | | | | | | |]; cbn [as_bytes]; try discriminate. intros E; injection E as <-.
    exists v, b. split; [reflexivity | split; [reflexivity | right; reflexivity]].
Qed.

(* ------------------------------------------------------------------------------------------ hmac *)
(* the spelling of the name argument, however it was passed *)
Definition name_given (a : varg) : option bytes :=
  match a with ADefault => None | ALit n => Some n | ADyn v => as_bytes v end.

Lemma glue_hmac alg k b :
  vrl_hmac (ADyn (VBytes (str (hmac_name alg)))) (VBytes b) (VBytes k) = ROk (VBytes (hmac_spec alg k b))
  /\ vrl_hmac (ALit (str (hmac_name alg))) (VBytes b) (VBytes k) = ROk (VBytes (hmac_spec alg k b)).
Proof.
  unfold vrl_hmac, with_bytes, runtime_name; cbn [as_bytes].
  rewrite (proj1 (hmac_upper_name alg)), hmac_lookup_name. split; reflexivity.
Qed.

Lemma glue_hmac_default k b : vrl_hmac ADefault (VBytes b) (VBytes k) = ROk (VBytes (hmac_spec HSha256 k b)).
Proof. reflexivity. Qed.

Lemma hmac_accepted a x key r : vrl_hmac a x key = ROk r ->
  exists alg b k, x = VBytes b /\ key = VBytes k /\ r = VBytes (hmac_spec alg k b)
    /\ match a with
       | ADefault => alg = HSha256
       | _ => exists n, name_given a = Some n /\ name_upper n = str (hmac_name alg)
       end.
Proof.
  unfold vrl_hmac, with_bytes.
  destruct x as [b| | | | | | | |]; cbn [as_bytes]; try discriminate.
  destruct key as [k| | | | | | | |]; cbn [as_bytes]; try discriminate.
  destruct a as [|n|d]; cbn [runtime_name].
  - intros E. cbn in E. injection E as <-. exists HSha256, b, k. auto.
  - destruct (lookup hmac_name hmac_all (name_upper n)) as [alg|] eqn:L; [|discriminate].
    intros E; injection E as <-. apply lookup_some in L as [_ L].
    exists alg, b, k. repeat split; auto. exists n. auto.
  - destruct d as [n| | | | | | | |]; cbn [as_bytes]; try discriminate.
    destruct (lookup hmac_name hmac_all (name_upper n)) as [alg|] eqn:L; [|discriminate].
    intros E; injection E as <-. apply lookup_some in L as [_ L].
    exists alg, b, k. repeat split; auto. exists n. auto.
Qed.

Lemma glue_hmac_encoded alg k b :
  wrap_res WHex (vrl_hmac (ADyn (VBytes (str (hmac_name alg)))) (VBytes b) (VBytes k))
    = ROk (VBytes (hex (hmac_spec alg k b)))
  /\ wrap_res WB64 (vrl_hmac (ADyn (VBytes (str (hmac_name alg)))) (VBytes b) (VBytes k))
    = ROk (VBytes (b64_encode false true (hmac_spec alg k b))).
Proof. rewrite (proj1 (glue_hmac alg k b)). split; reflexivity. Qed.

(* ------------------------------------------------------------------------------------------ xxhash *)
Lemma glue_xxhash v b :
  vrl_xxhash (ADyn (VBytes (str (xxh_name v)))) (VBytes b) = ROk (xxh_spec v b)
  /\ vrl_xxhash (ALit (str (xxh_name v))) (VBytes b) = ROk (xxh_spec v b).
Proof.
  unfold vrl_xxhash, with_bytes, runtime_name; cbn [as_bytes].
  rewrite (proj1 (xxh_upper_name v)), xxh_lookup_name. split; reflexivity.
Qed.

Lemma glue_xxhash_default b : vrl_xxhash ADefault (VBytes b) = ROk (VInt (Z.of_N (xxh32 b))).
Proof. reflexivity. Qed.

Lemma xxhash_accepted a x r : vrl_xxhash a x = ROk r ->
  exists v b, x = VBytes b /\ r = xxh_spec v b
    /\ match a with
       | ADefault => v = X32
       | _ => exists n, name_given a = Some n /\ name_upper n = str (xxh_name v)
       end.
Proof.
  unfold vrl_xxhash, with_bytes.
  destruct x as [b| | | | | | | |]; cbn [as_bytes]; try discriminate.
  destruct a as [|n|d]; cbn [runtime_name].
  - intros E. cbn in E. injection E as <-. exists X32, b. auto.
  - destruct (lookup xxh_name xxh_all (name_upper n)) as [v|] eqn:L; [|discriminate].
    intros E; injection E as <-. apply lookup_some in L as [_ L].
    exists v, b. repeat split; auto. exists n. auto.
  - destruct d as [n| | | | | | | |]; cbn [as_bytes]; try discriminate.
    destruct (lookup xxh_name xxh_all (name_upper n)) as [v|] eqn:L; [|discriminate].
    intros E; injection E as <-. apply lookup_some in L as [_ L].
    exists v, b. repeat split; auto. exists n. auto.
Qed.

(* ------------------------------------------------------------------------------------------ crc *)
Definition crc_name (e : crc_entry) : string := fst (fst e).
Definition crc_check (e : crc_entry) : N := snd e.

Definition params_eqb (p q : crc_params) : bool :=
  (c_width p =? c_width q) && (c_poly p =? c_poly q) && (c_init p =? c_init q)
  && Bool.eqb (c_refin p) (c_refin q) && Bool.eqb (c_refout p) (c_refout q) && (c_xorout p =? c_xorout q).

Definition entry_eqb (e f : crc_entry) : bool :=
  String.eqb (crc_name e) (crc_name f) && params_eqb (snd (fst e)) (snd (fst f)) && (snd e =? snd f).

Lemma entry_eqb_eq e f : entry_eqb e f = true -> e = f.
Proof.
  destruct e as [[n p] c], f as [[m q] d]. unfold entry_eqb, params_eqb, crc_name; cbn [fst snd].
  destruct p as [w1 p1 i1 ri1 ro1 x1], q as [w2 p2 i2 ri2 ro2 x2]; cbn [c_width c_poly c_init c_refin c_refout c_xorout].
  rewrite !andb_true_iff. intros [[Hn [[[[[H1 H2] H3] H4] H5] H6]] Hc].
  apply String.eqb_eq in Hn. apply N.eqb_eq in H1, H2, H3, H6, Hc. apply Bool.eqb_prop in H4, H5.
  subst. reflexivity.
Qed.

(* evaluated once over the 112 entries: the name is its own upper-case form, its lower-case spelling
   upper-cases back to it, it looks itself up, and the model reproduces the catalogue's check value *)
Definition crc_entry_ok (e : crc_entry) : bool :=
  bytes_eqb (name_upper (str (crc_name e))) (str (crc_name e))
  && bytes_eqb (name_upper (lower_ascii (str (crc_name e)))) (str (crc_name e))
  && match crc_lookup (str (crc_name e)) with Some f => entry_eqb f e | None => false end.

Lemma crc_catalogue_ok : forallb crc_entry_ok crc_catalogue = true.
Proof. vm_compute. reflexivity. Qed.

Lemma crc_entry_facts e : In e crc_catalogue ->
  name_upper (str (crc_name e)) = str (crc_name e)
  /\ name_upper (lower_ascii (str (crc_name e))) = str (crc_name e)
  /\ crc_lookup (str (crc_name e)) = Some e.
Proof.
  intros Hin. pose proof (proj1 (forallb_forall _ _) crc_catalogue_ok e Hin) as H.
  unfold crc_entry_ok in H. rewrite !andb_true_iff in H. destruct H as [[H1 H2] H3].
  apply bytes_eqb_eq in H1, H2.
  destruct (crc_lookup (str (crc_name e))) as [f|]; [|discriminate].
  apply entry_eqb_eq in H3. subst. auto.
Qed.

Definition nine_digits : bytes := [49; 50; 51; 52; 53; 54; 55; 56; 57].     (* "123456789" *)

Lemma crc_check_all : forallb (fun e => crc_spec e nine_digits =? crc_check e) crc_catalogue = true.
Proof. vm_compute. reflexivity. Qed.

Lemma crc_catalogue_check e : In e crc_catalogue -> crc_spec e nine_digits = crc_check e.
Proof.
  intros Hin. apply N.eqb_eq. exact (proj1 (forallb_forall _ _) crc_check_all e Hin).
Qed.

Lemma glue_crc e b : In e crc_catalogue ->
  vrl_crc (ADyn (VBytes (str (crc_name e)))) (VBytes b) = ROk (VBytes (dec (crc_spec e b)))
  /\ vrl_crc (ALit (str (crc_name e))) (VBytes b) = ROk (VBytes (dec (crc_spec e b))).
Proof.
  intros Hin. destruct (crc_entry_facts e Hin) as (Hu & _ & Hl).
  unfold vrl_crc, with_bytes, runtime_name; cbn [as_bytes]. rewrite Hu, Hl. split; reflexivity.
Qed.

Lemma crc_default_entry : exists e, In e crc_catalogue /\ crc_name e = "CRC_32_ISO_HDLC"%string
  /\ snd (fst e) = mkCrc 32 0x04c11db7 0xffffffff true true 0xffffffff
  /\ forall b, vrl_crc ADefault (VBytes b) = ROk (VBytes (dec (crc_spec e b))).
Proof.
  destruct (crc_lookup (str "CRC_32_ISO_HDLC")) as [e|] eqn:L; [|vm_compute in L; discriminate].
  exists e. pose proof L as L'. vm_compute in L'. injection L' as <-.
  split; [| split; [reflexivity | split; [reflexivity |]]].
  - apply lookup_some in L as [Hin _]. exact Hin.
  - intros b. unfold vrl_crc, with_bytes, runtime_name; cbn [as_bytes].
    change (name_upper (str "CRC_32_ISO_HDLC")) with (str "CRC_32_ISO_HDLC"). rewrite L. reflexivity.
Qed.

Lemma crc_accepted a x r : vrl_crc a x = ROk r ->
  exists e b, In e crc_catalogue /\ x = VBytes b /\ r = VBytes (dec (crc_spec e b))
    /\ match a with
       | ADefault => crc_name e = "CRC_32_ISO_HDLC"%string
       | _ => exists n, name_given a = Some n /\ name_upper n = str (crc_name e)
       end.
Proof.
  unfold vrl_crc, with_bytes.
  destruct a as [|n|d]; cbn [runtime_name].
  - destruct x as [b| | | | | | | |]; cbn [as_bytes]; try discriminate.
    destruct (crc_lookup (name_upper (str "CRC_32_ISO_HDLC"))) as [e|] eqn:L; [|discriminate].
    intros E; injection E as <-. apply lookup_some in L as [Hin L].
    exists e, b. repeat split; auto.
    change (name_upper (str "CRC_32_ISO_HDLC")) with (str "CRC_32_ISO_HDLC") in L.
    clear -L. unfold crc_name. revert L. generalize (fst (fst e)) as s. intros s.
    generalize "CRC_32_ISO_HDLC"%string as t. revert s.
    induction s as [|c s IH]; intros [|d t]; cbn; try discriminate; auto.
    intros E. injection E as E1 E2. f_equal; [| apply IH; exact E2].
    rewrite <- (ascii_N_embedding c), <- (ascii_N_embedding d), E1. reflexivity.
  - destruct x as [b| | | | | | | |]; cbn [as_bytes]; try discriminate.
    destruct (crc_lookup (name_upper n)) as [e|] eqn:L; [|discriminate].
    intros E; injection E as <-. apply lookup_some in L as [Hin L].
    exists e, b. repeat split; auto. exists n. auto.
  - destruct d as [n| | | | | | | |]; cbn [as_bytes]; try discriminate.
    destruct x as [b| | | | | | | |]; cbn [as_bytes]; try discriminate.
    destruct (crc_lookup (name_upper n)) as [e|] eqn:L; [|discriminate].
    intros E; injection E as <-. apply lookup_some in L as [Hin L].
    exists e, b. repeat split; auto. exists n. auto.
Qed.

(* ------------------------------------------------------------------------------------------ lower case *)
Lemma lowercase_names :
  (forall alg k b, vrl_hmac (ADyn (VBytes (lower_ascii (str (hmac_name alg))))) (VBytes b) (VBytes k)
                   = ROk (VBytes (hmac_spec alg k b)))
  /\ (forall v b, vrl_xxhash (ADyn (VBytes (lower_ascii (str (xxh_name v))))) (VBytes b) = ROk (xxh_spec v b))
  /\ (forall e b, In e crc_catalogue ->
        vrl_crc (ADyn (VBytes (lower_ascii (str (crc_name e))))) (VBytes b) = ROk (VBytes (dec (crc_spec e b)))).
Proof.
  split; [| split].
  - intros alg k b. unfold vrl_hmac, with_bytes, runtime_name; cbn [as_bytes].
    rewrite (proj2 (hmac_upper_name alg)), hmac_lookup_name. reflexivity.
  - intros v b. unfold vrl_xxhash, with_bytes, runtime_name; cbn [as_bytes].
    rewrite (proj2 (xxh_upper_name v)), xxh_lookup_name. reflexivity.
  - intros e b Hin. destruct (crc_entry_facts e Hin) as (_ & Hu & Hl).
    unfold vrl_crc, with_bytes, runtime_name; cbn [as_bytes]. rewrite Hu, Hl. reflexivity.
Qed.

(* sha2 / sha3 do not fold case: a lower-case literal does not compile *)
Lemma sha2_case_sensitive v x : vrl_sha2 (ALit (lower_ascii (str (sha2_name v)))) x = RCompile.
Proof. destruct v; reflexivity. Qed.
Lemma sha3_case_sensitive v x : vrl_sha3 (ALit (lower_ascii (str (sha3_name v)))) x = RCompile.
Proof. destruct v; reflexivity. Qed.

(* ------------------------------------------------------------------------------------------ type errors *)
Lemma type_errors x : as_bytes x = None ->
  vrl_md5 x = RErr EType /\ vrl_sha1 x = RErr EType /\ vrl_seahash x = RErr EType
  /\ (forall a r, vrl_sha2 a x <> ROk r) /\ (forall a r, vrl_sha3 a x <> ROk r)
  /\ (forall a k r, vrl_hmac a x k <> ROk r) /\ (forall a b r, vrl_hmac a (VBytes b) x <> ROk r)
  /\ (forall a r, vrl_crc a x <> ROk r) /\ (forall a r, vrl_xxhash a x <> ROk r).
Proof.
  intros Hx.
  repeat split; unfold vrl_md5, vrl_sha1, vrl_seahash, vrl_sha2, vrl_sha3, vrl_hmac, vrl_crc, vrl_xxhash, with_bytes;
    cbn [as_bytes]; rewrite ?Hx; try reflexivity.
  - intros a r. destruct (enum_arg sha2_name sha2_all S512_256 a); discriminate.
  - intros a r. destruct (enum_arg sha3_name sha3_all T512 a); discriminate.
  - intros a k r. discriminate.
  - intros a b r. discriminate.
  - intros a r. destruct (runtime_name "CRC_32_ISO_HDLC" a); discriminate.
  - intros a r. discriminate.
Qed.

(* ------------------------------------------------------------------------------------------ output sizes *)
Lemma N_to_le_length n x : List.length (N_to_le n x) = n.
Proof. revert x; induction n as [|k IH]; intros x; cbn [N_to_le List.length]; [reflexivity | rewrite IH; reflexivity]. Qed.

Lemma md5_length m : List.length (md5 m) = 16%nat.
Proof.
  unfold md5. destruct (fold_left md5_block _ md5_init) as [[[a b] c] d].
  rewrite !app_length, !N_to_le_length. reflexivity.
Qed.

Lemma iota_length rc a : List.length (iota rc a) = List.length a.
Proof. destruct a; reflexivity. Qed.

Lemma keccak_round_length a rc : List.length (keccak_round a rc) = 25%nat.
Proof. unfold keccak_round. rewrite iota_length. unfold chi. rewrite map_length. reflexivity. Qed.

Lemma keccak_rounds_length l : forall a, List.length a = 25%nat ->
  List.length (fold_left keccak_round l a) = 25%nat.
Proof.
  induction l as [|rc l IH]; intros a Ha; cbn [fold_left]; [exact Ha |].
  apply IH. apply keccak_round_length.
Qed.

Lemma keccak_f_length a : List.length (keccak_f a) = 25%nat.
Proof.
  unfold keccak_f, keccak_RC. cbn [fold_left]. apply keccak_round_length.
Qed.

Lemma absorb_all_length l : forall st, List.length st = 25%nat ->
  List.length (fold_left absorb l st) = 25%nat.
Proof.
  induction l as [|blk l IH]; intros st Hs; cbn [fold_left]; [exact Hs |].
  apply IH. unfold absorb. apply keccak_f_length.
Qed.

Lemma sha3_generic_length out m : (out <= 200)%nat -> List.length (sha3_generic out m) = out.
Proof.
  intros Ho. unfold sha3_generic. rewrite firstn_length.
  rewrite (flat_map_const_length _ 8%nat) by (intros; apply N_to_le_length).
  rewrite absorb_all_length by (apply repeat_length). lia.
Qed.

Lemma sha1_length' m : List.length (sha1 m) = 20%nat.
Proof. pose proof (sha1_length m) as H. unfold blen in H. lia. Qed.

Definition sha2_outlen (v : sha2_variant) : nat :=
  match v with S224 => 28 | S256 => 32 | S384 => 48 | S512 => 64 | S512_224 => 28 | S512_256 => 32 end.
Definition sha3_outlen (v : sha3_variant) : nat :=
  match v with T224 => 28 | T256 => 32 | T384 => 48 | T512 => 64 end.
Definition hmac_outlen (a : hmac_alg) : nat :=
  match a with HSha1 => 20 | HSha224 => 28 | HSha256 => 32 | HSha384 => 48 | HSha512 => 64 end.

Lemma sha2_spec_length v m : List.length (sha2_spec v m) = sha2_outlen v.
Proof. destruct v; cbn [sha2_spec sha2_outlen]; apply sha2_generic_length; cbn; lia. Qed.

Lemma sha3_spec_length v m : List.length (sha3_spec v m) = sha3_outlen v.
Proof. destruct v; cbn [sha3_spec sha3_outlen]; apply sha3_generic_length; lia. Qed.

Lemma hmac_hash_length a m : List.length (hmac_hash a m) = hmac_outlen a.
Proof.
  destruct a; cbn [hmac_hash hmac_outlen]; try (apply sha2_generic_length; cbn; lia). apply sha1_length'.
Qed.

Lemma hmac_spec_length a k m : List.length (hmac_spec a k m) = hmac_outlen a.
Proof. unfold hmac_spec, hmac. apply hmac_hash_length. Qed.

(* ------------------------------------------------------------------------------------------ word ranges *)
Lemma lt_pow2_bits a n : a < 2 ^ n <-> (forall k, n <= k -> N.testbit a k = false).
Proof.
  split.
  - intros Ha k Hk. destruct (N.eq_dec a 0) as [->|Hz]; [apply N.bits_0 |].
    apply N.bits_above_log2. apply N.log2_lt_pow2 in Ha; lia.
  - intros Hb. destruct (N.eq_dec a 0) as [->|Hz]; [apply N.neq_0_lt_0, N.pow_nonzero; lia |].
    apply N.log2_lt_pow2; [lia |].
    destruct (N.lt_ge_cases (N.log2 a) n) as [Hl|Hl]; [exact Hl |].
    specialize (Hb (N.log2 a) Hl). rewrite N.bit_log2 in Hb by exact Hz. discriminate.
Qed.

Lemma lxor_lt a b n : a < 2 ^ n -> b < 2 ^ n -> N.lxor a b < 2 ^ n.
Proof.
  rewrite !lt_pow2_bits. intros Ha Hb k Hk. rewrite N.lxor_spec, Ha, Hb by exact Hk. reflexivity.
Qed.

Lemma shiftr_lt a k n : a < 2 ^ n -> N.shiftr a k < 2 ^ n.
Proof.
  rewrite !lt_pow2_bits. intros Ha j Hj. rewrite N.shiftr_spec by lia. apply Ha. lia.
Qed.

Lemma land_ones_lt a n : N.land a (N.ones n) < 2 ^ n.
Proof. rewrite N.land_ones. apply N.mod_lt. apply N.pow_nonzero. lia. Qed.

Lemma trunc64_lt a : trunc64 a < 2 ^ 64.
Proof. unfold trunc64. change mask64 with (N.ones 64). apply land_ones_lt. Qed.
Lemma trunc32_lt a : trunc32 a < 2 ^ 32.
Proof. unfold trunc32. change mask32 with (N.ones 32). apply land_ones_lt. Qed.

Lemma xorshift_lt x k n : x < 2 ^ n -> xorshift x k < 2 ^ n.
Proof. intros Hx. unfold xorshift. apply lxor_lt; [exact Hx | apply shiftr_lt; exact Hx]. Qed.

Lemma xxh64_avalanche_lt h : xxh64_avalanche h < 2 ^ 64.
Proof. unfold xxh64_avalanche. apply lxor_lt; [| apply shiftr_lt]; apply trunc64_lt. Qed.

Lemma xxh3_avalanche_lt h : xxh3_avalanche h < 2 ^ 64.
Proof. unfold xxh3_avalanche. apply xorshift_lt. apply trunc64_lt. Qed.

Lemma xxh32_lt m : xxh32 m < 2 ^ 32.
Proof.
  unfold xxh32, xxh32_avalanche. apply lxor_lt; [| apply shiftr_lt]; apply trunc32_lt.
Qed.

Lemma xxh64_lt m : xxh64 m < 2 ^ 64.
Proof. unfold xxh64. apply xxh64_avalanche_lt. Qed.

Lemma xxh3_64_lt m : xxh3_64 m < 2 ^ 64.
Proof.
  unfold xxh3_64.
  repeat match goal with |- (if ?c then _ else _) < _ => destruct c end.
  - apply xxh64_avalanche_lt.
  - apply xxh64_avalanche_lt.
  - unfold xxh3_64_4to8, xxh3_rrmxmx. apply xorshift_lt, trunc64_lt.
  - apply xxh3_avalanche_lt.
  - apply xxh3_avalanche_lt.
  - apply xxh3_avalanche_lt.
  - apply xxh3_avalanche_lt.
Qed.

Lemma seahash_lt m : seahash m < 2 ^ 64.
Proof.
  unfold seahash. destruct (fold_left sea_write _ sea_init) as [[[a b] c] d].
  unfold sea_diffuse. apply trunc64_lt.
Qed.
