(* Infrastructure for the type-soundness proofs of C01 / C02: well-formed values are preserved by the
   value-level operations, the kind of a value contains it, arrays / objects built from members are
   members, LocalEnv operations seen through lookup. *)
From Coq Require Import List NArith ZArith Bool Lia.
From VRL Require Import Base.Bytes Base.Value Model.ValueCrud Model.Kind Model.KindCrud Model.KindDomains
  Model.Expr Model.Eval Model.TypeInfo
  Proofs.ValueCrudProofs Proofs.KindBasics Proofs.KindMergeProofs Proofs.KindGetProofs Proofs.KindInsertProofs
  Proofs.KindRemoveProofs Proofs.TypeConstProofs.
Import ListNotations.

(* ---------- sorted objects ---------- *)

Lemma wf_obj_intro m : obj_sorted m = true -> (forall g w, In (g, w) m -> wf_value w = true) -> wf_value (VObj m) = true.
Proof.
  intros Hs Hall. cbn [wf_value]. rewrite Hs. cbn [andb]. clear Hs.
  induction m as [|[k v] m IH]; auto. cbn [snd]. rewrite (Hall k v (or_introl eq_refl)). cbn [andb].
  apply IH. intros; eapply Hall; right; eauto.
Qed.

Lemma wf_arr_intro vs : (forall x, In x vs -> wf_value x = true) -> wf_value (VArr vs) = true.
Proof.
  intros Hall. cbn [wf_value]. induction vs as [|y vs IH]; auto.
  rewrite (Hall y (or_introl eq_refl)). cbn [andb]. apply IH. intros; apply Hall; right; auto.
Qed.

Lemma wf_arr_in vs x : wf_value (VArr vs) = true -> In x vs -> wf_value x = true.
Proof.
  intros Hwf Hin. destruct (In_nth_error _ _ Hin) as [n Hn]. eapply wf_arr; eauto.
Qed.

Lemma cmp_lt_gt a b : bytes_cmp a b = Gt -> bytes_cmp b a = Lt.
Proof. intros H. rewrite bytes_cmp_antisym, H. reflexivity. Qed.

(* the head of a sorted list is below everything in the list *)
Definition all_above (k : bytes) (m : obj) : Prop := forall g w, In (g, w) m -> bytes_cmp k g = Lt.

Lemma sorted_cons k v m : obj_sorted m = true -> all_above k m -> obj_sorted ((k, v) :: m) = true.
Proof.
  intros Hs Ha. destruct m as [|[k' v'] m']; auto.
  change (obj_sorted ((k, v) :: (k', v') :: m')) with (bytes_ltb k k' && obj_sorted ((k', v') :: m')).
  rewrite Hs. unfold bytes_ltb. rewrite (Ha k' v' (or_introl eq_refl)). reflexivity.
Qed.

Lemma sorted_obj_set m k x : obj_sorted m = true -> obj_sorted (obj_set m k x) = true.
Proof.
  induction m as [|[k' v] m IH]; intros Hs; cbn; auto.
  destruct (bytes_cmp k' k) eqn:E.
  - apply bytes_cmp_eq in E; subst k'. apply sorted_cons; [eapply sorted_tail; eauto|].
    intros g w Hin. eapply sorted_head_lt; eauto.
  - apply sorted_cons; [apply IH; eapply sorted_tail; eauto|].
    intros g w Hin. destruct (in_obj_set_sorted _ _ _ (sorted_tail _ _ _ Hs) _ _ Hin) as [[-> _]|[_ Hin']]; auto.
    eapply sorted_head_lt; eauto.
  - apply sorted_cons; auto. intros g w [H|Hin].
    + inversion H; subst. apply cmp_lt_gt; auto.
    + eapply bytes_cmp_lt_trans; [apply cmp_lt_gt; eauto|]. eapply sorted_head_lt; eauto.
Qed.

Lemma wf_obj_set m k x : wf_value (VObj m) = true -> wf_value x = true -> wf_value (VObj (obj_set m k x)) = true.
Proof.
  intros Hm Hx. destruct (wf_obj _ Hm) as [Hs Hall]. apply wf_obj_intro.
  - apply sorted_obj_set; auto.
  - intros g w Hin. destruct (in_obj_set_sorted _ _ _ Hs _ _ Hin) as [[_ ->]|[_ Hin']]; eauto.
Qed.

Lemma wf_nil_obj : wf_value (VObj []) = true.
Proof. reflexivity. Qed.

(* ---------- arrays ---------- *)

Lemma in_list_set {A} (l : list A) : forall n x y, In y (list_set l n x) -> y = x \/ In y l.
Proof.
  induction l as [|z l IH]; intros n x y Hin; cbn in *; [contradiction|].
  destruct n; cbn in Hin.
  - destruct Hin as [->|H]; auto.
  - destruct Hin as [->|H]; auto. destruct (IH _ _ _ H); auto.
Qed.

Lemma in_arr_set a i x y : In y (arr_set a i x) -> y = x \/ y = VNull \/ In y a.
Proof.
  unfold arr_set. destruct (0 <=? i)%Z.
  - destruct (Nat.leb (length a) (Z.to_nat i)).
    + rewrite !in_app_iff. intros [H|[H|H]]; auto.
      * apply repeat_spec in H. auto.
      * destruct H as [->|[]]; auto.
    + intros H. destruct (in_list_set _ _ _ _ H); auto.
  - destruct (Nat.ltb (length a) (Z.to_nat (- i))).
    + intros [->|H]; auto. rewrite in_app_iff in H. destruct H as [H|H]; auto. apply repeat_spec in H. auto.
    + intros H. destruct (in_list_set _ _ _ _ H); auto.
Qed.

Lemma wf_arr_set a i x : wf_value (VArr a) = true -> wf_value x = true -> wf_value (VArr (arr_set a i x)) = true.
Proof.
  intros Ha Hx. apply wf_arr_intro. intros y Hin.
  destruct (in_arr_set _ _ _ _ Hin) as [->|[->|H]]; auto. eapply wf_arr_in; eauto.
Qed.

(* ---------- Value::get / insert keep values well-formed ---------- *)

Lemma wf_obj_get m f w : wf_value (VObj m) = true -> obj_get m f = Some w -> wf_value w = true.
Proof. intros Hm Hg. destruct (wf_obj _ Hm) as [_ Hall]. eapply Hall. apply obj_get_in; eauto. Qed.

Lemma wf_arr_get a i w : wf_value (VArr a) = true -> arr_get a i = Some w -> wf_value w = true.
Proof.
  intros Ha Hg. unfold arr_get in Hg. destruct (arr_index (length a) i); [|discriminate].
  eapply wf_arr; eauto.
Qed.

Lemma wf_get p : forall v w, wf_value v = true -> get v p = Some w -> wf_value w = true.
Proof.
  induction p as [|[f|i] p IH]; intros v w Hv Hg; cbn in Hg.
  - inversion Hg; subst; auto.
  - destruct v; try discriminate. destruct (obj_get kvs f) as [c|] eqn:E; [|discriminate].
    eapply IH; [|eauto]. eapply wf_obj_get; eauto.
  - destruct v; try discriminate. destruct (arr_get vs i) as [c|] eqn:E; [|discriminate].
    eapply IH; [|eauto]. eapply wf_arr_get; eauto.
Qed.

Lemma wf_ins x : wf_value x = true -> forall p slot,
  (forall v, slot = Some v -> wf_value v = true) -> wf_value (ins slot p x) = true.
Proof.
  intros Hx. induction p as [|[f|i] p IH]; intros slot Hs; cbn [ins]; auto.
  - set (m := match slot with Some (VObj m) => m | _ => [] end).
    assert (wf_value (VObj m) = true) as Hm.
    { unfold m. destruct slot as [[]|]; auto; apply Hs; reflexivity. }
    apply wf_obj_set; auto. apply IH. intros v Hv. eapply wf_obj_get; eauto.
  - set (a := match slot with Some (VArr a) => a | _ => [] end).
    assert (wf_value (VArr a) = true) as Ha.
    { unfold a. destruct slot as [[]|]; auto; apply Hs; reflexivity. }
    apply wf_arr_set; auto. apply IH. intros v Hv. eapply wf_arr_get; eauto.
Qed.

Lemma wf_insert v p x : wf_value v = true -> wf_value x = true -> wf_value (insert v p x) = true.
Proof. intros Hv Hx. unfold insert. apply wf_ins; auto. intros w Hw. inversion Hw; subst; auto. Qed.

Lemma wf_or_null o : (forall v, o = Some v -> wf_value v = true) -> wf_value (or_null o) = true.
Proof. destruct o; cbn; auto. Qed.

(* ---------- the kind of a value contains it ---------- *)

Fixpoint indexed_from {A} (l : list A) (i : nat) : list (nat * A) :=
  match l with [] => [] | x :: r => (i, x) :: indexed_from r (S i) end.

Lemma aget_indexed_from {A} (l : list A) : forall i n,
  aget Nat.eqb (indexed_from l i) n = if Nat.ltb n i then None else nth_error l (n - i).
Proof.
  induction l as [|x l IH]; intros i n; cbn [indexed_from aget].
  - destruct (Nat.ltb n i); auto. destruct (n - i); reflexivity.
  - destruct (Nat.eqb_spec i n) as [->|Hne].
    + rewrite Nat.ltb_irrefl, Nat.sub_diag. reflexivity.
    + rewrite IH. destruct (Nat.ltb_spec n i), (Nat.ltb_spec n (S i)); try lia; auto.
      replace (n - i) with (S (n - S i)) by lia. reflexivity.
Qed.

Lemma keys_indexed_from {A} (l : list A) : forall i n, In n (map fst (indexed_from l i)) -> i <= n < i + length l.
Proof.
  induction l as [|x l IH]; intros i n Hin; cbn in *; [contradiction|].
  destruct Hin as [<-|H]; [lia|]. specialize (IH _ _ H). lia.
Qed.

Lemma arr_kind_eq ks : arr_kind ks = k_array (mkC (indexed_from ks 0) (UExact k_undefined)).
Proof.
  unfold arr_kind. do 2 f_equal. generalize 0. induction ks as [|x ks IH]; intros i; cbn; auto. rewrite IH. reflexivity.
Qed.

Lemma unknown_kind_closed {K} (l : list (K * kind)) : unknown_kind (mkC l (UExact k_undefined)) = k_undefined.
Proof. reflexivity. Qed.

Lemma forall2_length {A B} (R : A -> B -> Prop) l1 l2 : Forall2 R l1 l2 -> length l1 = length l2.
Proof. induction 1; cbn; auto. Qed.

(* an array whose elements are members of the listed kinds, one by one *)
Lemma member_arr_kind vs ks : Forall2 (fun v k => member v k = true) vs ks -> member (VArr vs) (arr_kind ks) = true.
Proof.
  intros H. rewrite arr_kind_eq, member_arr. cbn [arr_of k_array]. apply arr_ok_intro.
  - intros i x Hn. unfold coll_at. cbn [known]. rewrite aget_indexed_from. cbn. rewrite Nat.sub_0_r.
    revert i Hn. induction H as [|v k vs ks Hv _ IH]; intros [|i] Hn; cbn in *; try discriminate.
    + inversion Hn; subst; auto.
    + apply IH; auto.
  - intros i Hl. unfold coll_at. cbn [known]. rewrite aget_indexed_from. cbn. rewrite Nat.sub_0_r.
    rewrite (forall2_length _ _ _ H) in Hl. destruct (nth_error ks i) eqn:E; [|reflexivity].
    assert (i < length ks) by (apply nth_error_Some; congruence). lia.
Qed.

Lemma aget_map_val2 {K A B} (keqb : K -> K -> bool) (f : A -> B) (m : list (K * A)) k :
  aget keqb (map (fun kv => (fst kv, f (snd kv))) m) k = option_map f (aget keqb m k).
Proof. induction m as [|[k0 y] m IH]; cbn; auto. destruct (keqb k0 k); auto. Qed.

Lemma aget_obj_get (m : obj) f : aget bytes_eqb m f = obj_get m f.
Proof. induction m as [|[k x] r IH]; cbn; auto; rewrite IH; reflexivity. Qed.

Lemma obj_kinds_eq kvs :
  (fix go (l : list (bytes * value)) : list (bytes * kind) :=
     match l with [] => [] | kv :: r => (fst kv, kind_of_value (snd kv)) :: go r end) kvs
  = map (fun kv => (fst kv, kind_of_value (snd kv))) kvs.
Proof. induction kvs as [|kv r IH]; cbn; auto; rewrite IH; reflexivity. Qed.

Lemma arr_kinds_eq vs : forall i,
  (fix go (l : list value) (i : nat) : list (nat * kind) :=
     match l with [] => [] | x :: r => (i, kind_of_value x) :: go r (S i) end) vs i
  = indexed_from (map kind_of_value vs) i.
Proof. induction vs as [|x r IH]; intros i; cbn; auto; rewrite IH; reflexivity. Qed.

Lemma member_kind_of_value : forall v, wf_value v = true -> member v (kind_of_value v) = true.
Proof.
  induction v using value_ind'; intros Hwf; try reflexivity.
  - (* objects *)
    destruct (wf_obj _ Hwf) as [Hs Hall]. cbn [kind_of_value]. rewrite obj_kinds_eq.
    rewrite member_obj. cbn [obj_of k_object]. apply obj_ok_intro.
    + intros f w Hin. unfold coll_at. cbn [known].
      rewrite (aget_map_val2 bytes_eqb kind_of_value), aget_obj_get.
      rewrite (sorted_in_get _ Hs _ _ Hin). cbn [option_map].
      rewrite Forall_forall in H. apply (H (f, w) Hin). eapply Hall; eauto.
    + intros f Hf. unfold coll_at. cbn [known].
      rewrite (aget_map_val2 bytes_eqb kind_of_value), aget_obj_get, Hf. reflexivity.
  - (* arrays *)
    cbn [kind_of_value]. rewrite arr_kinds_eq. rewrite <- arr_kind_eq. apply member_arr_kind.
    induction vs as [|x r IH]; constructor.
    + inversion H; subst. apply H2. eapply wf_arr_in; eauto. left; auto.
    + apply IH; [inversion H; auto|]. apply wf_arr_intro. intros y Hy. eapply wf_arr_in; eauto. right; auto.
Qed.
