(* C33: proofs about Model/SpanArith.v (the span arithmetic of verify_overwritable). *)
From Coq Require Import String.
From Coq Require Import List NArith Bool Lia.
From VRL Require Import Base.Bytes Base.Lit Model.SpanArith.
Import ListNotations.
Local Open Scope N_scope.

Lemma walk_in_all : forall rsegs valid parent x,
  walk rsegs valid parent = Some x -> In x (all_spans rsegs parent).
Proof.
  induction rsegs as [|sg r IH]; intros valid parent x H; cbn [walk all_spans] in *; [discriminate|].
  destruct (step parent sg) as [ss p'].
  destruct valid as [|[|] vs].
  - inversion H; subst. left. reflexivity.
  - right. eapply IH. exact H.
  - inversion H; subst. left. reflexivity.
Qed.

(* ---------- within the text: unconditional ---------- *)

Lemma all_spans_bounds len : forall rsegs parent ss ps,
  s_end parent <= len -> In (ss, ps) (all_spans rsegs parent) ->
  s_start ss <= s_end ss /\ s_end ss <= len /\ s_end ps <= len /\ s_start ps = s_start parent
  /\ s_end ss <= s_end parent /\ s_end ps <= s_end parent.
Proof.
  induction rsegs as [|sg r IH]; intros parent ss ps Hp Hin; cbn [all_spans] in Hin; [destruct Hin|].
  destruct (step parent sg) as [ss0 p0] eqn:E.
  assert (Hs : s_start ss0 <= s_end ss0 /\ s_end ss0 = s_end parent /\ s_end p0 <= s_end parent
               /\ s_start p0 = s_start parent).
  { destruct sg; cbn [step] in E; inversion E; subst; cbn [s_start s_end]; repeat split; lia. }
  destruct Hs as (H1 & H2 & H3 & H4).
  destruct Hin as [Hin|Hin].
  - inversion Hin; subst. repeat split; try lia.
  - destruct (IH p0 ss ps ltac:(lia) Hin) as (A & B & C & D & F & G). repeat split; try lia.
Qed.

Theorem assign_in_bounds segs valid target len ss ps :
  s_start target <= s_end target -> s_end target <= len ->
  verify_overwritable_spans segs valid target = Some (ss, ps) ->
  in_bounds len ss = true /\ s_end ps <= len /\ s_start ps = s_start target
  /\ s_end ss <= s_end target /\ s_end ps <= s_end target.
Proof.
  intros Ho Hl H. unfold verify_overwritable_spans in H. apply walk_in_all in H.
  destruct (all_spans_bounds len _ _ _ _ Hl H) as (A & B & C & D & F & G).
  unfold in_bounds. repeat split; try assumption.
  apply andb_true_iff. split; apply N.leb_le; assumption.
Qed.

(* ---------- the parent span is ordered when the printed segments fit into the target text ---------- *)

Lemma all_spans_fit : forall rsegs parent ss ps,
  s_start parent <= s_end parent -> total_width rsegs <= s_end parent - s_start parent ->
  In (ss, ps) (all_spans rsegs parent) ->
  s_start parent <= s_start ss /\ s_start ss <= s_end ss /\ s_end ss <= s_end parent
  /\ s_start ps = s_start parent /\ s_start parent <= s_end ps /\ s_end ps <= s_end parent.
Proof.
  induction rsegs as [|sg r IH]; intros parent ss ps Ho Hw Hin; cbn [all_spans] in Hin; [destruct Hin|].
  cbn [total_width] in Hw.
  destruct (step parent sg) as [ss0 p0] eqn:E.
  assert (Hs : s_start parent <= s_start ss0 /\ s_start ss0 <= s_end ss0 /\ s_end ss0 = s_end parent
               /\ s_start p0 = s_start parent /\ s_start parent <= s_end p0 /\ s_end p0 <= s_end parent
               /\ total_width r <= s_end p0 - s_start p0).
  { destruct sg; cbn [step seg_width] in *; inversion E; subst; cbn [s_start s_end]; repeat split; lia. }
  destruct Hs as (H1 & H2 & H3 & H4 & H5 & H6 & H7).
  destruct Hin as [Hin|Hin].
  - inversion Hin; subst. repeat split; lia.
  - destruct (IH p0 ss ps ltac:(lia) H7 Hin) as (A & B & C & D & F & G). repeat split; lia.
Qed.

Lemma total_width_app a b : total_width (a ++ b) = total_width a + total_width b.
Proof. induction a as [|x a IH]; cbn [app total_width]; [reflexivity | rewrite IH; lia]. Qed.

Lemma total_width_rev segs : total_width (rev segs) = total_width segs.
Proof.
  induction segs as [|sg r IH]; [reflexivity|]. cbn [rev]. rewrite total_width_app, IH. cbn [total_width]. lia.
Qed.

Theorem assign_ordered segs valid target len ss ps :
  s_start target <= s_end target -> s_end target <= len ->
  total_width segs <= s_end target - s_start target ->
  verify_overwritable_spans segs valid target = Some (ss, ps) ->
  in_bounds len ss = true /\ in_bounds len ps = true
  /\ s_start target <= s_start ss /\ s_end ss <= s_end target /\ s_start ps = s_start target /\ s_end ps <= s_end target.
Proof.
  intros Ho Hl Hw H. unfold verify_overwritable_spans in H. apply walk_in_all in H.
  assert (Hw' : total_width (rev segs) <= s_end target - s_start target) by (rewrite total_width_rev; exact Hw).
  destruct (all_spans_fit _ _ _ _ Ho Hw' H) as (A & B & C & D & F & G).
  unfold in_bounds. repeat split; try lia; apply andb_true_iff; split; apply N.leb_le; lia.
Qed.

(* ---------- character boundaries on an ASCII target ---------- *)

Lemma boundary_ascii src a b p :
  ascii_between src a b -> is_boundary src a = true -> is_boundary src b = true -> b <= N.of_nat (length src) ->
  a <= p -> p <= b -> is_boundary src p = true.
Proof.
  intros Ha Hba Hbb Hl H1 H2.
  destruct (N.eq_dec p b) as [->|Hne]; [exact Hbb|].
  destruct (N.eq_dec p a) as [->|Hna]; [exact Hba|].
  unfold is_boundary.
  destruct (N.eqb_spec p 0); [reflexivity|].
  destruct (N.ltb_spec (N.of_nat (length src)) p); [lia|].
  destruct (N.eqb_spec p (N.of_nat (length src))); [reflexivity|].
  specialize (Ha p H1 ltac:(lia)). unfold is_cont.
  replace (128 <=? nth (N.to_nat p) src 0) with false by (symmetry; apply N.leb_gt; exact Ha).
  reflexivity.
Qed.

Theorem assign_boundary_ascii src segs valid target ss ps :
  s_start target <= s_end target -> s_end target <= N.of_nat (length src) ->
  total_width segs <= s_end target - s_start target ->
  ascii_between src (s_start target) (s_end target) ->
  is_boundary src (s_start target) = true -> is_boundary src (s_end target) = true ->
  verify_overwritable_spans segs valid target = Some (ss, ps) ->
  span_ok src ss = true /\ span_ok src ps = true.
Proof.
  intros Ho Hl Hw Ha Hb1 Hb2 H.
  destruct (assign_ordered segs valid target _ ss ps Ho Hl Hw H) as (A & B & C & D & E & F).
  unfold in_bounds in A, B. apply andb_true_iff in A. apply andb_true_iff in B.
  destruct A as [A1 A2]. destruct B as [B1 B2].
  apply N.leb_le in A1. apply N.leb_le in B1.
  assert (Bd : forall p, s_start target <= p -> p <= s_end target -> is_boundary src p = true)
    by (intros p P1 P2; eapply boundary_ascii; eassumption).
  unfold span_ok. split; repeat (apply andb_true_iff; split); try assumption;
    try (apply N.leb_le; assumption); apply Bd; lia.
Qed.

(* ---------- refuted parts ---------- *)

(* a quoted field with a multi-byte character and escape sequences: the printed name is shorter than its source
   text, the label starts inside the character.   x = 1 \n x."é\t\t" = 2   (target x."é\t\t" = bytes 6..16) *)
Definition refute_src : bytes := hx "78203d20310a782e22c3a95c745c7422203d20320a"%string.

Lemma assign_boundary_refuted :
  exists src segs target ss ps,
    s_start target <= s_end target /\ s_end target <= N.of_nat (length src)
    /\ total_width segs <= s_end target - s_start target
    /\ is_boundary src (s_start target) = true /\ is_boundary src (s_end target) = true
    /\ verify_overwritable_spans segs [] target = Some (ss, ps)
    /\ is_boundary src (s_start ss) = false.
Proof.
  exists refute_src, [SegField 6], (mkSpan 6 16), (mkSpan 10 16), (mkSpan 6 9).
  vm_compute. repeat split; try reflexivity; discriminate.
Qed.

(* the arithmetic alone does not keep the parent span ordered: a printed segment longer than the target text *)
Lemma assign_parent_order_refuted :
  exists segs target ss ps,
    s_start target <= s_end target /\ verify_overwritable_spans segs [] target = Some (ss, ps)
    /\ s_end ps < s_start ps.
Proof.
  exists [SegField 4], (mkSpan 5 7), (mkSpan 3 7), (mkSpan 5 2). vm_compute. repeat split; try reflexivity; discriminate.
Qed.
