(* C34, semantic half: the Core-VRL evaluator is insensitive to the Target log, every construct is a
   congruence for "same result, same variables / event / metadata", syntactically effect-free
   expressions are pure, and deleting effect-free infallible non-last statements from any blocks of a
   program does not change its run.  Everything is proved for arbitrary F and binop. *)
From Coq Require Import List NArith ZArith Bool Lia PeanoNat.
From VRL Require Import Base.Bytes Base.Value Model.ValueCrud Model.Expr Model.Eval Model.Unused
     Proofs.ExprInd Proofs.EvalProofs.
Import ListNotations.
Local Open Scope list_scope.

(* ---------- induction principle for the nested inductive pexpr ---------- *)
Section pexpr_ind_nested.
  Variable P : pexpr -> Prop.
  Hypothesis HLit : forall v, P (PLit v).
  Hypothesis HVar : forall x, P (PVar x).
  Hypothesis HQExt : forall pfx p, P (PQExt pfx p).
  Hypothesis HQVar : forall x p, P (PQVar x p).
  Hypothesis HQExpr : forall e p, P e -> P (PQExpr e p).
  Hypothesis HGroup : forall e, P e -> P (PGroup e).
  Hypothesis HBlock : forall es, Forall P es -> P (PBlock es).
  Hypothesis HArr : forall es, Forall P es -> P (PArr es).
  Hypothesis HObj : forall kvs, Forall (fun kv => P (snd kv)) kvs -> P (PObj kvs).
  Hypothesis HIf : forall c t f, Forall P c -> Forall P t -> opt_holds (Forall P) f -> P (PIf c t f).
  Hypothesis HOp : forall o a b, P a -> P b -> P (POp o a b).
  Hypothesis HNot : forall e, P e -> P (PNot e).
  Hypothesis HAssign : forall t e, P e -> P (PAssign t e).
  Hypothesis HAssignInf : forall ok er e d, P e -> P (PAssignInf ok er e d).
  Hypothesis HAbort : forall m, opt_holds P m -> P (PAbort m).
  Hypothesis HReturn : forall e, P e -> P (PReturn e).
  Hypothesis HCall : forall f bang args, Forall P args -> P (PCall f bang args).
  Hypothesis HDelExt : forall pfx p, P (PDelExt pfx p).
  Hypothesis HDelVar : forall x p, P (PDelVar x p).
  Hypothesis HExistsExt : forall pfx p, P (PExistsExt pfx p).
  Hypothesis HExistsVar : forall x p, P (PExistsVar x p).
  Hypothesis HClosure : forall cf bang arg ps body, P arg -> Forall P body -> P (PClosure cf bang arg ps body).

  Fixpoint pexpr_ind' (e : pexpr) : P e :=
    let fl := fix fl (l : list pexpr) : Forall P l :=
                match l with
                | [] => Forall_nil _
                | x :: r => Forall_cons x (pexpr_ind' x) (fl r)
                end in
    match e with
    | PLit v => HLit v
    | PVar x => HVar x
    | PQExt pfx p => HQExt pfx p
    | PQVar x p => HQVar x p
    | PQExpr e1 p => HQExpr e1 p (pexpr_ind' e1)
    | PGroup e1 => HGroup e1 (pexpr_ind' e1)
    | PBlock es => HBlock es (fl es)
    | PArr es => HArr es (fl es)
    | PObj kvs =>
        HObj kvs ((fix go (l : list (bytes * pexpr)) : Forall (fun kv => P (snd kv)) l :=
                     match l with
                     | [] => Forall_nil _
                     | kv :: r => Forall_cons kv (pexpr_ind' (snd kv)) (go r)
                     end) kvs)
    | PIf c t f =>
        HIf c t f (fl c) (fl t)
            (match f as f0 return opt_holds (Forall P) f0 with
             | Some fb => fl fb
             | None => I
             end)
    | POp o a b => HOp o a b (pexpr_ind' a) (pexpr_ind' b)
    | PNot e1 => HNot e1 (pexpr_ind' e1)
    | PAssign t e1 => HAssign t e1 (pexpr_ind' e1)
    | PAssignInf ok er e1 d => HAssignInf ok er e1 d (pexpr_ind' e1)
    | PAbort m =>
        HAbort m (match m as m0 return opt_holds P m0 with
                  | Some e1 => pexpr_ind' e1
                  | None => I
                  end)
    | PReturn e1 => HReturn e1 (pexpr_ind' e1)
    | PCall f bang args => HCall f bang args (fl args)
    | PDelExt pfx p => HDelExt pfx p
    | PDelVar x p => HDelVar x p
    | PExistsExt pfx p => HExistsExt pfx p
    | PExistsVar x p => HExistsVar x p
    | PClosure cf bang arg ps body => HClosure cf bang arg ps body (pexpr_ind' arg) (fl body)
    end.
End pexpr_ind_nested.

(* ---------- states that differ only in the Target log ---------- *)

Definition core (s : state) := (vars s, ev s, md s).

(* same variables, event and metadata; the fault schedule is exhausted (no Target operation is rejected) *)
Definition R (s s' : state) : Prop := core s = core s' /\ faults s = [] /\ faults s' = [].

Definition sim (x y : res * state) : Prop := fst x = fst y /\ R (snd x) (snd y).

Lemma R_parts s s' : R s s' -> vars s = vars s' /\ ev s = ev s' /\ md s = md s' /\ faults s = [] /\ faults s' = [].
Proof. intros [H [H1 H2]]. unfold core in H. inversion H. auto. Qed.

Lemma R_intro s s' : vars s = vars s' -> ev s = ev s' -> md s = md s' -> faults s = [] -> faults s' = [] -> R s s'.
Proof. intros A B C D E. unfold R, core. rewrite A, B, C. auto. Qed.

Lemma R_mk vs e m l l' : R (mkState vs e m l []) (mkState vs e m l' []).
Proof. repeat split. Qed.

Lemma R_trans s1 s2 s3 : R s1 s2 -> R s2 s3 -> R s1 s3.
Proof. intros [A [B C]] [D [E G]]. repeat split; auto. congruence. Qed.

Lemma R_sym s1 s2 : R s1 s2 -> R s2 s1.
Proof. intros [A [B C]]. repeat split; auto. Qed.

Ltac dR H :=
  let a := fresh "Hv" in let b := fresh "He" in let c := fresh "Hm" in
  let d := fresh "Hf" in let e := fresh "Hf'" in
  destruct (R_parts _ _ H) as [a [b [c [d e]]]].

Lemma tval_R s s' pfx : R s s' -> tval s pfx = tval s' pfx.
Proof. intros H. dR H. destruct pfx; cbn; auto. Qed.

Lemma t_get_R s s' pfx p : R s s' ->
  fst (t_get s pfx p) = fst (t_get s' pfx p) /\ R (snd (t_get s pfx p)) (snd (t_get s' pfx p)).
Proof.
  intros H. pose proof (tval_R _ _ pfx H) as Ht. dR H.
  unfold t_get, pop_fault. rewrite Hf, Hf'. cbn [fst snd]. rewrite Ht. split; auto.
  apply R_intro; cbn; congruence.
Qed.

Lemma t_insert_R s s' pfx p v : R s s' -> R (t_insert s pfx p v) (t_insert s' pfx p v).
Proof.
  intros H. pose proof (tval_R _ _ pfx H) as Ht. dR H.
  unfold t_insert, pop_fault. rewrite Hf, Hf'. rewrite Ht.
  destruct pfx; cbn [with_target]; apply R_intro; cbn; congruence.
Qed.

Lemma t_remove_R s s' pfx p c : R s s' ->
  fst (t_remove s pfx p c) = fst (t_remove s' pfx p c) /\ R (snd (t_remove s pfx p c)) (snd (t_remove s' pfx p c)).
Proof.
  intros H. pose proof (tval_R _ _ pfx H) as Ht. dR H.
  unfold t_remove, pop_fault. rewrite Hf, Hf'. rewrite Ht.
  destruct (remove (tval s' pfx) p c) as [r v']. cbn [fst snd]. split; auto.
  destruct pfx; cbn [with_target]; apply R_intro; cbn; congruence.
Qed.

Lemma set_vars_R s s' vs : R s s' -> R (set_vars s vs) (set_vars s' vs).
Proof. intros H. dR H. unfold set_vars. apply R_intro; cbn; congruence. Qed.

Lemma target_insert_R s s' t v : R s s' -> R (target_insert s t v) (target_insert s' t v).
Proof.
  intros H. destruct t as [|x p|pfx p]; cbn [target_insert]; auto.
  - dR H. rewrite Hv. destruct p; [apply set_vars_R; auto|].
    destruct (var_get (vars s') x); apply set_vars_R; auto.
  - apply t_insert_R; auto.
Qed.

Lemma bind_param_R s s' x v : R s s' ->
  fst (bind_param s x v) = fst (bind_param s' x v) /\ R (snd (bind_param s x v)) (snd (bind_param s' x v)).
Proof.
  intros H. destruct x as [x|]; cbn [bind_param fst snd]; auto.
  dR H. rewrite Hv. split; auto. apply set_vars_R; auto.
Qed.

Lemma cleanup_param_R s s' x o : R s s' -> R (cleanup_param s x o) (cleanup_param s' x o).
Proof.
  intros H. dR H. destruct x as [x|], o as [o|]; cbn [cleanup_param]; auto; rewrite Hv; apply set_vars_R; auto.
Qed.

Section Cong.
  Variable F : fname -> list value -> option value.
  Variable binop : opcode -> value -> value -> option value.
  Notation evl := (eval F binop).

  (* two expressions that behave alike from alike states *)
  Definition eqv (a b : expr) : Prop := forall s s', R s s' -> sim (evl a s) (evl b s').
  Definition beqv (f g : state -> res * state) : Prop := forall s s', R s s' -> sim (f s) (g s').

  Ltac step H s s' HR v er s1 s1' HR1 :=
    let X := fresh "X" in
    pose proof (H s s' HR) as X; unfold sim in X;
    destruct (evl _ s) as [[v|er] s1]; destruct (evl _ s') as [[?v|?er] s1'];
    cbn [fst snd] in X; destruct X as [X HR1]; inversion X; subst; clear X.

  Lemma sim_refl r s s' : R s s' -> sim (r, s) (r, s').
  Proof. split; auto. Qed.

  (* ----- single-child constructors ----- *)
  Lemma eqv_group a a' : eqv a a' -> eqv (EGroup a) (EGroup a').
  Proof. intros H s s' HR. cbn [eval]. apply H; auto. Qed.

  Lemma eqv_qexpr a a' p : eqv a a' -> eqv (EQExpr a p) (EQExpr a' p).
  Proof. intros H s s' HR. cbn [eval]. step H s s' HR v er s1 s1' HR1; apply sim_refl; auto. Qed.

  Lemma eqv_not a a' : eqv a a' -> eqv (ENot a) (ENot a').
  Proof. intros H s s' HR. cbn [eval]. step H s s' HR v er s1 s1' HR1; apply sim_refl; auto. Qed.

  Lemma eqv_return a a' : eqv a a' -> eqv (EReturn a) (EReturn a').
  Proof. intros H s s' HR. cbn [eval]. step H s s' HR v er s1 s1' HR1; apply sim_refl; auto. Qed.

  Lemma eqv_abort a a' : eqv a a' -> eqv (EAbort (Some a)) (EAbort (Some a')).
  Proof.
    intros H s s' HR. cbn [eval]. step H s s' HR v er s1 s1' HR1.
    - destruct v0; apply sim_refl; auto.
    - apply sim_refl; auto.
  Qed.

  Lemma eqv_assign t a a' : eqv a a' -> eqv (EAssign t a) (EAssign t a').
  Proof.
    intros H s s' HR. cbn [eval]. step H s s' HR v er s1 s1' HR1.
    - split; auto. cbn [snd]. apply target_insert_R; auto.
    - apply sim_refl; auto.
  Qed.

  Lemma eqv_assign_inf ok er_t a a' d : eqv a a' -> eqv (EAssignInf ok er_t a d) (EAssignInf ok er_t a' d).
  Proof.
    intros H s s' HR. rewrite !eval_assign_inf. step H s s' HR v er s1 s1' HR1.
    - split; auto. cbn [snd]. repeat apply target_insert_R; auto.
    - destruct er0; [|apply sim_refl; auto..].
      split; auto. cbn [snd]. repeat apply target_insert_R; auto.
  Qed.

  (* ----- operators ----- *)
  Lemma eqv_op o a a' b b' : eqv a a' -> eqv b b' -> eqv (EOp o a b) (EOp o a' b').
  Proof.
    intros Ha Hb s s' HR.
    destruct o;
      try (rewrite !eval_plain by reflexivity; step Ha s s' HR v er s1 s1' HR1; [|apply sim_refl; auto];
           step Hb s1 s1' HR1 w er2 s2 s2' HR2; apply sim_refl; auto).
    - rewrite !eval_or. step Ha s s' HR v er s1 s1' HR1; [|apply sim_refl; auto].
      destruct (falsy v0); [apply Hb; auto|apply sim_refl; auto].
    - rewrite !eval_and. step Ha s s' HR v er s1 s1' HR1; [|apply sim_refl; auto].
      destruct (falsy v0); [apply sim_refl; auto|].
      step Hb s1 s1' HR1 w er2 s2 s2' HR2; apply sim_refl; auto.
    - rewrite !eval_err. step Ha s s' HR v er s1 s1' HR1; [apply sim_refl; auto|].
      destruct er0; [apply Hb; auto|apply sim_refl; auto..].
  Qed.

  (* ----- lists ----- *)
  Lemma arr_go_cong es es' : Forall2 eqv es es' ->
    forall acc s s', R s s' -> sim (arr_go F binop es acc s) (arr_go F binop es' acc s').
  Proof.
    induction 1 as [|a a' es es' Ha Hes IH]; intros acc s s' HR; cbn [arr_go].
    - apply sim_refl; auto.
    - step Ha s s' HR v er s1 s1' HR1; [apply IH; auto|apply sim_refl; auto].
  Qed.

  Lemma eqv_arr es es' : Forall2 eqv es es' -> eqv (EArr es) (EArr es').
  Proof. intros H s s' HR. rewrite !eval_arr. apply arr_go_cong; auto. Qed.

  Lemma call_go_cong f es es' : Forall2 eqv es es' ->
    forall acc s s', R s s' -> sim (call_go F binop f es acc s) (call_go F binop f es' acc s').
  Proof.
    induction 1 as [|a a' es es' Ha Hes IH]; intros acc s s' HR; cbn [call_go].
    - apply sim_refl; auto.
    - step Ha s s' HR v er s1 s1' HR1; [apply IH; auto|apply sim_refl; auto].
  Qed.

  Lemma eqv_call f es es' : Forall2 eqv es es' -> eqv (ECall f es) (ECall f es').
  Proof. intros H s s' HR. rewrite !eval_call. apply call_go_cong; auto. Qed.

  Definition kv_eqv (a b : bytes * expr) : Prop := fst a = fst b /\ eqv (snd a) (snd b).

  Lemma obj_go_cong kvs kvs' : Forall2 kv_eqv kvs kvs' ->
    forall acc s s', R s s' -> sim (obj_go F binop kvs acc s) (obj_go F binop kvs' acc s').
  Proof.
    induction 1 as [|[k a] [k' a'] es es' [Hk Ha] Hes IH]; intros acc s s' HR; cbn [obj_go].
    - apply sim_refl; auto.
    - cbn [fst snd] in Hk, Ha. subst k'.
      step Ha s s' HR v er s1 s1' HR1; [apply IH; auto|apply sim_refl; auto].
  Qed.

  Lemma eqv_obj kvs kvs' : Forall2 kv_eqv kvs kvs' -> eqv (EObj kvs) (EObj kvs').
  Proof. intros H s s' HR. rewrite !eval_obj. apply obj_go_cong; auto. Qed.

  (* blocks: related statement lists, possibly of different lengths *)
  Lemma blk_cons e r s : r <> [] ->
    blk F binop (e :: r) s =
    match evl e s with (inl _, s1) => blk F binop r s1 | (inr er, s1) => (inr er, s1) end.
  Proof. destruct r; [congruence|reflexivity]. Qed.

  Lemma blk_cong es es' : Forall2 eqv es es' -> beqv (blk F binop es) (blk F binop es').
  Proof.
    induction 1 as [|a a' es es' Ha Hes IH]; intros s s' HR.
    - cbn [blk]. apply sim_refl; auto.
    - destruct Hes as [|b b' es es' Hb Hes].
      + cbn [blk]. apply Ha; auto.
      + rewrite !blk_cons by discriminate.
        step Ha s s' HR v er s1 s1' HR1; [apply IH; auto|apply sim_refl; auto].
  Qed.

  Lemma eqv_block es es' : beqv (blk F binop es) (blk F binop es') -> eqv (EBlock es) (EBlock es').
  Proof. intros H s s' HR. rewrite !eval_block. apply H; auto. Qed.

  Lemma eqv_if c c' t t' f f' :
    beqv (blk F binop c) (blk F binop c') -> beqv (blk F binop t) (blk F binop t') ->
    match f, f' with
    | Some fb, Some fb' => beqv (blk F binop fb) (blk F binop fb')
    | None, None => True
    | _, _ => False
    end ->
    eqv (EIf c t f) (EIf c' t' f').
  Proof.
    intros Hc Ht Hf s s' HR. rewrite !eval_if.
    pose proof (Hc s s' HR) as X. unfold sim in X.
    destruct (blk F binop c s) as [[v|er] s1]; destruct (blk F binop c' s') as [[v'|er'] s1'];
      cbn [fst snd] in X; destruct X as [X HR1]; inversion X; subst; [|apply sim_refl; auto].
    destruct (try_boolean v') as [[|]|]; [apply Ht; auto| |apply sim_refl; auto].
    destruct f, f'; try contradiction; [apply Hf; auto|apply sim_refl; auto].
  Qed.

  (* ----- closures ----- *)
  Lemma run1_cong body body' p a : beqv body body' -> beqv (run1 body p a) (run1 body' p a).
  Proof.
    intros Hb s s' HR. unfold run1.
    destruct (bind_param_R s s' p a HR) as [E1 E2].
    destruct (bind_param s p a) as [old s1], (bind_param s' p a) as [old' s1']. cbn [fst snd] in *. subst old'.
    pose proof (Hb s1 s1' E2) as X. unfold sim in X.
    destruct (body s1) as [r s2], (body' s1') as [r' s2']. cbn [fst snd] in X. destruct X as [X HR2]. subst r'.
    split; auto. cbn [snd]. apply cleanup_param_R; auto.
  Qed.

  Lemma run2_cong body body' p0 p1 a b : beqv body body' -> beqv (run2 body p0 p1 a b) (run2 body' p0 p1 a b).
  Proof.
    intros Hb s s' HR. unfold run2.
    destruct (bind_param_R s s' p0 a HR) as [E1 E2].
    destruct (bind_param s p0 a) as [old s1], (bind_param s' p0 a) as [old' s1']. cbn [fst snd] in *. subst old'.
    destruct (bind_param_R s1 s1' p1 b E2) as [E3 E4].
    destruct (bind_param s1 p1 b) as [old1 s2], (bind_param s1' p1 b) as [old1' s2']. cbn [fst snd] in *. subst old1'.
    pose proof (Hb s2 s2' E4) as X. unfold sim in X.
    destruct (body s2) as [r s3], (body' s2') as [r' s3']. cbn [fst snd] in X. destruct X as [X HR3]. subst r'.
    split; auto. cbn [snd]. repeat apply cleanup_param_R; auto.
  Qed.

  Definition step_sim {A B} (f g : A -> state -> (B + err) * state) : Prop :=
    forall a s s', R s s' -> fst (f a s) = fst (g a s') /\ R (snd (f a s)) (snd (g a s')).

  Lemma loop_cong {A B} (f g : A -> state -> (B + err) * state) : step_sim f g ->
    forall items s s', R s s' ->
      fst (loop f items s) = fst (loop g items s') /\ R (snd (loop f items s)) (snd (loop g items s')).
  Proof.
    intros Hs. induction items as [|a r IH]; intros s s' HR; cbn [loop].
    - split; auto.
    - destruct (Hs a s s' HR) as [E1 E2].
      destruct (f a s) as [[b|e] s1], (g a s') as [[b'|e'] s1']; cbn [fst snd] in *; inversion E1; subst; [|split; auto].
      destruct (IH s1 s1' E2) as [E3 E4].
      destruct (loop f r s1) as [[bs|e] s2], (loop g r s1') as [[bs'|e'] s2']; cbn [fst snd] in *;
        inversion E3; subst; split; auto.
  Qed.

  Lemma lift_cong {A} (h : A -> value) (x y : (A + err) * state) :
    fst x = fst y /\ R (snd x) (snd y) -> sim (lift h x) (lift h y).
  Proof.
    destruct x as [[a|e] s], y as [[a'|e'] s']; cbn [fst snd]; intros [E HR]; inversion E; subst; apply sim_refl; auto.
  Qed.

  Lemma run_closure_cong body body' ps cf v : beqv body body' ->
    beqv (run_closure body ps cf v) (run_closure body' ps cf v).
  Proof.
    intros Hb s s' HR.
    assert (H1 := fun p a => run1_cong body body' p a Hb).
    assert (H2 := fun p0 p1 a b => run2_cong body body' p0 p1 a b Hb).
    unfold run_closure.
    destruct cf, v; try (apply sim_refl; auto); try (apply H1; auto);
      apply lift_cong; apply loop_cong; auto; intros a s0 s0' HR0.
    - unfold step_each_kv. pose proof (H2 (param ps 0) (param ps 1) (VBytes (fst a)) (snd a) s0 s0' HR0) as X.
      unfold sim in X. destruct (run2 body _ _ _ _ s0) as [[?|?] ?], (run2 body' _ _ _ _ s0') as [[?|?] ?];
        cbn [fst snd] in *; destruct X as [X HX]; inversion X; subst; split; auto.
    - unfold step_each_iv. pose proof (H2 (param ps 0) (param ps 1) (VInt (fst a)) (snd a) s0 s0' HR0) as X.
      unfold sim in X. destruct (run2 body _ _ _ _ s0) as [[?|?] ?], (run2 body' _ _ _ _ s0') as [[?|?] ?];
        cbn [fst snd] in *; destruct X as [X HX]; inversion X; subst; split; auto.
    - unfold step_filter_kv. pose proof (H2 (param ps 0) (param ps 1) (VBytes (fst a)) (snd a) s0 s0' HR0) as X.
      unfold sim in X. destruct (run2 body _ _ _ _ s0) as [[?|?] ?], (run2 body' _ _ _ _ s0') as [[?|?] ?];
        cbn [fst snd] in *; destruct X as [X HX]; inversion X; subst; [|split; auto].
      destruct v0; split; auto.
    - unfold step_filter_iv. pose proof (H2 (param ps 0) (param ps 1) (VInt (fst a)) (snd a) s0 s0' HR0) as X.
      unfold sim in X. destruct (run2 body _ _ _ _ s0) as [[?|?] ?], (run2 body' _ _ _ _ s0') as [[?|?] ?];
        cbn [fst snd] in *; destruct X as [X HX]; inversion X; subst; [|split; auto].
      destruct v0; split; auto.
    - unfold step_mapk. pose proof (H1 (param ps 0) (VBytes (fst a)) s0 s0' HR0) as X.
      unfold sim in X. destruct (run1 body _ _ s0) as [[?|?] ?], (run1 body' _ _ s0') as [[?|?] ?];
        cbn [fst snd] in *; destruct X as [X HX]; inversion X; subst; [|split; auto].
      destruct v0; split; auto.
    - unfold step_mapv_kv. pose proof (H1 (param ps 0) (snd a) s0 s0' HR0) as X.
      unfold sim in X. destruct (run1 body _ _ s0) as [[?|?] ?], (run1 body' _ _ s0') as [[?|?] ?];
        cbn [fst snd] in *; destruct X as [X HX]; inversion X; subst; split; auto.
    - unfold step_mapv. pose proof (H1 (param ps 0) a s0 s0' HR0) as X.
      unfold sim in X. destruct (run1 body _ _ s0) as [[?|?] ?], (run1 body' _ _ s0') as [[?|?] ?];
        cbn [fst snd] in *; destruct X as [X HX]; inversion X; subst; split; auto.
  Qed.

  Lemma eqv_closure cf a a' ps body body' :
    eqv a a' -> beqv (blk F binop body) (blk F binop body') -> eqv (EClosure cf a ps body) (EClosure cf a' ps body').
  Proof.
    intros Ha Hb s s' HR. rewrite !eval_closure.
    step Ha s s' HR v er s1 s1' HR1; [|apply sim_refl; auto].
    apply run_closure_cong; auto.
  Qed.

  (* ----- leaves, and reflexivity: evaluation does not look at the Target log ----- *)
  Lemma eqv_leaf_qext pfx p : eqv (EQExt pfx p) (EQExt pfx p).
  Proof.
    intros s s' HR. cbn [eval]. destruct (t_get_R s s' pfx p HR) as [E1 E2].
    destruct (t_get s pfx p) as [r s1], (t_get s' pfx p) as [r' s1']. cbn [fst snd] in *. subst. apply sim_refl; auto.
  Qed.

  Lemma Forall2_refl {A} (Q : A -> A -> Prop) l : Forall (fun x => Q x x) l -> Forall2 Q l l.
  Proof. induction 1; constructor; auto. Qed.

  Theorem eqv_refl e : eqv e e.
  Proof.
    induction e using expr_ind'.
    - intros s s' HR. cbn [eval]. apply sim_refl; auto.
    - intros s s' HR. cbn [eval]. dR HR. rewrite Hv. apply sim_refl; auto.
    - apply eqv_leaf_qext.
    - intros s s' HR. cbn [eval]. dR HR. rewrite Hv. apply sim_refl; auto.
    - apply eqv_qexpr; auto.
    - apply eqv_arr. apply Forall2_refl; auto.
    - apply eqv_obj. apply Forall2_refl. eapply Forall_impl; [|exact H]. intros kv Hkv. split; auto.
    - apply eqv_block. apply blk_cong. apply Forall2_refl; auto.
    - apply eqv_group; auto.
    - apply eqv_if; try (apply blk_cong; apply Forall2_refl; auto).
      destruct f; auto. apply blk_cong. apply Forall2_refl; auto.
    - apply eqv_op; auto.
    - apply eqv_not; auto.
    - apply eqv_assign; auto.
    - apply eqv_assign_inf; auto.
    - destruct m as [m|]; [apply eqv_abort; exact H|]. intros s s' HR. cbn [eval]. apply sim_refl; auto.
    - apply eqv_return; auto.
    - apply eqv_call. apply Forall2_refl; auto.
    - intros s s' HR. cbn [eval]. destruct (t_remove_R s s' pfx p c HR) as [E1 E2].
      destruct (t_remove s pfx p c) as [r s1], (t_remove s' pfx p c) as [r' s1']. cbn [fst snd] in *. subst. apply sim_refl; auto.
    - intros s s' HR. cbn [eval]. dR HR. rewrite Hv. destruct (var_get (vars s') x); [|apply sim_refl; auto].
      destruct (remove v p c). split; auto. cbn [snd]. apply set_vars_R; auto.
    - intros s s' HR. cbn [eval]. destruct (t_get_R s s' pfx p HR) as [E1 E2].
      destruct (t_get s pfx p) as [r s1], (t_get s' pfx p) as [r' s1']. cbn [fst snd] in *. subst. apply sim_refl; auto.
    - intros s s' HR. cbn [eval]. dR HR. rewrite Hv. apply sim_refl; auto.
    - apply eqv_closure; auto. apply blk_cong. apply Forall2_refl; auto.
  Qed.
End Cong.

(* ---------- purity of syntactically effect-free expressions ---------- *)
Section Pure.
  Variable F : fname -> list value -> option value.
  Variable binop : opcode -> value -> value -> option value.
  Variable tf : fname -> nat -> bool.
  Hypothesis tf_total : forall f args, tf f (List.length args) = true -> F f args <> None.
  Notation evl := (eval F binop).

  (* the result of a pure evaluation: a value, or (when failure is allowed) a plain error *)
  Definition ok_res (t : bool) (r : res) : Prop :=
    match r with inl _ => True | inr Error => t = false | inr _ => False end.

  Definition pur_f (t : bool) (f : state -> res * state) : Prop :=
    forall s, faults s = [] -> R s (snd (f s)) /\ ok_res t (fst (f s)).
  Definition pur (t : bool) (e : expr) : Prop := pur_f t (evl e).

  Lemma R_self s : faults s = [] -> R s s.
  Proof. intros H. repeat split; auto. Qed.

  Lemma R_faults_r s s1 : R s s1 -> faults s1 = [].
  Proof. intros [_ [_ H]]; auto. Qed.

  Lemma ok_weaken t r : ok_res true r -> ok_res t r.
  Proof. destruct r as [v|[ | | | ]]; cbn; auto; discriminate. Qed.

  Lemma pur_weaken e : pur true e -> pur false e.
  Proof. intros H s Hs. destruct (H s Hs). split; auto. apply ok_weaken; auto. Qed.

  Ltac pstep H s Hs v er s1 HR1 Hok :=
    let X := fresh "X" in
    pose proof (H s Hs) as X; destruct (evl _ s) as [[v|er] s1]; cbn [fst snd] in X; destruct X as [HR1 Hok].

  Lemma arr_go_pur t es : Forall (pur t) es ->
    forall acc, pur_f t (arr_go F binop es acc).
  Proof.
    induction 1 as [|a es Ha Hes IH]; intros acc s Hs; cbn [arr_go].
    - cbn [fst snd]. split; [apply R_self; auto|exact I].
    - pstep Ha s Hs v er s1 HR1 Hok; [|split; auto].
      destruct (IH (v :: acc) s1 (R_faults_r _ _ HR1)) as [HR2 Hok2]. split; auto. eapply R_trans; eauto.
  Qed.

  Lemma call_go_pur t f es : Forall (pur t) es ->
    forall acc, (t = true -> tf f (List.length es + List.length acc) = true) -> pur_f t (call_go F binop f es acc).
  Proof.
    induction 1 as [|a es Ha Hes IH]; intros acc Hf s Hs; cbn [call_go].
    - cbn [fst snd]. split; [apply R_self; auto|].
      destruct (F f (rev acc)) eqn:E; cbn; auto.
      destruct t; auto. exfalso. eapply (tf_total f (rev acc)); eauto. rewrite rev_length. apply Hf; auto.
    - pstep Ha s Hs v er s1 HR1 Hok; [|split; auto].
      assert (Hf' : t = true -> tf f (List.length es + List.length (v :: acc)) = true).
      { intros Ht. cbn [List.length]. rewrite Nat.add_succ_r. apply Hf; auto. }
      destruct (IH (v :: acc) Hf' s1 (R_faults_r _ _ HR1)) as [HR2 Hok2]. split; auto. eapply R_trans; eauto.
  Qed.

  Lemma obj_go_pur t kvs : Forall (fun kv => pur t (snd kv)) kvs ->
    forall acc, pur_f t (obj_go F binop kvs acc).
  Proof.
    induction 1 as [|[k a] es Ha Hes IH]; intros acc s Hs; cbn [obj_go].
    - cbn [fst snd]. split; [apply R_self; auto|exact I].
    - cbn [snd] in Ha. pstep Ha s Hs v er s1 HR1 Hok; [|split; auto].
      destruct (IH (obj_set acc k v) s1 (R_faults_r _ _ HR1)) as [HR2 Hok2]. split; auto. eapply R_trans; eauto.
  Qed.

  Lemma blk_pur t es : es <> [] -> Forall (pur t) es -> pur_f t (blk F binop es).
  Proof.
    intros Hne H. induction H as [|a es Ha Hes IH]; [congruence|]. intros s Hs.
    destruct es as [|b es'].
    - cbn [blk]. apply Ha; auto.
    - rewrite blk_cons by discriminate.
      pstep Ha s Hs v er s1 HR1 Hok; [|split; auto].
      destruct (IH ltac:(discriminate) s1 (R_faults_r _ _ HR1)) as [HR2 Hok2]. split; auto. eapply R_trans; eauto.
  Qed.

  Lemma kv_insert_Forall (Q : bytes * expr -> Prop) k e l : Q (k, e) -> Forall Q l -> Forall Q (kv_insert k e l).
  Proof.
    intros Hq. induction 1 as [|[k' e'] r Hx Hr IH]; cbn [kv_insert]; [constructor; auto|].
    destruct (bytes_cmp k k'); repeat (constructor; auto).
  Qed.

  Lemma kv_sort_Forall (Q : bytes * expr -> Prop) l : Forall Q l -> Forall Q (kv_sort l).
  Proof.
    unfold kv_sort. assert (G : forall acc, Forall Q acc -> Forall Q l ->
      Forall Q (fold_left (fun acc kv => kv_insert (fst kv) (snd kv) acc) l acc)).
    { induction l as [|[k e] r IH]; intros acc Ha Hl; cbn [fold_left]; auto.
      inversion Hl; subst. apply IH; auto. apply kv_insert_Forall; auto. }
    intros H. apply G; auto.
  Qed.

  Lemma forallb_Forall_map (Q : pexpr -> Prop) (g : pexpr -> bool) (Pg : expr -> Prop) es :
    Forall Q es -> (forall x, Q x -> g x = true -> Pg (elab x)) -> forallb g es = true -> Forall Pg (map elab es).
  Proof.
    intros H Hx. induction H as [|x r Hq Hr IH]; cbn [forallb map]; intros Hb; constructor;
      apply andb_true_iff in Hb; destruct Hb; auto.
  Qed.

  Lemma nonempty_map {A B} (g : A -> B) l : nonempty l = true -> map g l <> [].
  Proof. destruct l; cbn; [discriminate|discriminate]. Qed.

  Definition Ppure (e : pexpr) : Prop :=
    (eff_free e = true -> pur false (elab e)) /\ (total tf e = true -> pur true (elab e)).

  Lemma pur_leaf t r : (forall s, faults s = [] -> R s (snd (r s)) /\ ok_res t (fst (r s))) -> pur_f t r.
  Proof. auto. Qed.

  Lemma t_get_self s pfx p : faults s = [] -> R s (snd (t_get s pfx p)).
  Proof.
    intros H. unfold t_get, pop_fault. rewrite H. cbn [snd]. apply R_intro; cbn; auto.
  Qed.

  Theorem pure_eval e : Ppure e.
  Proof.
    induction e using pexpr_ind'; unfold Ppure; cbn [eff_free total elab].
    - (* lit *) split; intros _ s Hs; cbn [eval fst snd]; (split; [apply R_self; auto|exact I]).
    - split; intros _ s Hs; cbn [eval fst snd]; (split; [apply R_self; auto|exact I]).
    - split; intros _ s Hs; cbn [eval]; pose proof (t_get_self s pfx p Hs) as X;
        destruct (t_get s pfx p) as [r s1]; cbn [fst snd] in *; (split; [auto|exact I]).
    - split; intros _ s Hs; cbn [eval fst snd]; (split; [apply R_self; auto|exact I]).
    - (* qexpr *) destruct IHe as [I1 I2]. split; intros H s Hs; cbn [eval].
      + pstep (I1 H) s Hs v er s1 HR1 Hok; cbn [fst snd]; split; auto; exact I.
      + pstep (I2 H) s Hs v er s1 HR1 Hok; cbn [fst snd]; split; auto; exact I.
    - (* group *) destruct IHe as [I1 I2]. split; intros H s Hs; cbn [eval]; [apply (I1 H)|apply (I2 H)]; auto.
    - (* block *) split; intros Hb; apply andb_true_iff in Hb; destruct Hb as [Hn Hb]; intros s Hs;
        rewrite eval_block; apply blk_pur; auto using nonempty_map.
      + eapply forallb_Forall_map; [exact H| |exact Hb]. intros x [Q _]; auto.
      + eapply forallb_Forall_map; [exact H| |exact Hb]. intros x [_ Q]; auto.
    - (* arr *) split; intros Hb s Hs; rewrite eval_arr; apply arr_go_pur; auto.
      + eapply forallb_Forall_map; [exact H| |exact Hb]. intros x [Q _]; auto.
      + eapply forallb_Forall_map; [exact H| |exact Hb]. intros x [_ Q]; auto.
    - (* obj *)
      assert (G : forall t (g : pexpr -> bool), (forall x, Ppure x -> g x = true -> pur t (elab x)) ->
                forallb (fun kv => g (snd kv)) kvs = true ->
                Forall (fun kv => pur t (snd kv)) (map (fun kv => (fst kv, elab (snd kv))) kvs)).
      { intros t g Hg. induction H as [|kv r Hq Hr IH]; cbn [forallb map]; intros Hb; constructor;
          apply andb_true_iff in Hb; destruct Hb; auto. cbn [snd]. auto. }
      split; intros Hb s Hs; rewrite eval_obj; apply obj_go_pur; auto; apply kv_sort_Forall.
      + apply (G false eff_free); auto. intros x [Q _]; auto.
      + apply (G true (total tf)); auto. intros x [_ Q]; auto.
    - (* if *) split; [|discriminate]. intros Hb.
      repeat (apply andb_true_iff in Hb; destruct Hb as [Hb ?]).
      assert (Hc : pur_f false (blk F binop (map elab c))).
      { apply blk_pur; auto using nonempty_map. eapply forallb_Forall_map; [exact H| |eassumption]. intros x [Q _]; auto. }
      assert (Ht : pur_f false (blk F binop (map elab t))).
      { apply blk_pur; auto using nonempty_map. eapply forallb_Forall_map; [exact H0| |eassumption]. intros x [Q _]; auto. }
      intros s Hs. rewrite eval_if.
      pose proof (Hc s Hs) as X. destruct (blk F binop (map elab c) s) as [[v|er] s1]; cbn [fst snd] in X;
        destruct X as [HR1 Hok]; [|split; auto].
      destruct (try_boolean v) as [[|]|].
      + destruct (Ht s1 (R_faults_r _ _ HR1)) as [HR2 Hok2]. split; auto. eapply R_trans; eauto.
      + destruct f as [fb|]; [|cbn [fst snd]; split; auto; exact I].
        cbn in H1. apply andb_true_iff in H2. destruct H2 as [Hn Hf].
        assert (Hfb : pur_f false (blk F binop (map elab fb))).
        { apply blk_pur; auto using nonempty_map. eapply forallb_Forall_map; [exact H1| |eassumption]. intros x [Q _]; auto. }
        destruct (Hfb s1 (R_faults_r _ _ HR1)) as [HR2 Hok2]. split; auto. eapply R_trans; eauto.
      + cbn [fst snd]. split; auto. reflexivity.
    - (* op *) destruct IHe1 as [A1 A2], IHe2 as [B1 B2]. split.
      + intros Hb. apply andb_true_iff in Hb. destruct Hb as [Ha Hb]. intros s Hs.
        destruct o;
          try (rewrite eval_plain by reflexivity; pstep (A1 Ha) s Hs v er s1 HR1 Hok; [|split; auto];
               pstep (B1 Hb) s1 (R_faults_r _ _ HR1) w er2 s2 HR2 Hok2; cbn [fst snd];
               (split; [eapply R_trans; eauto|]); [destruct (binop _ v w); cbn; auto|auto]).
        * rewrite eval_or. pstep (A1 Ha) s Hs v er s1 HR1 Hok; [|split; auto].
          destruct (falsy v); [|cbn [fst snd]; split; auto].
          destruct (B1 Hb s1 (R_faults_r _ _ HR1)) as [HR2 Hok2]. split; auto. eapply R_trans; eauto.
        * rewrite eval_and. pstep (A1 Ha) s Hs v er s1 HR1 Hok; [|split; auto].
          destruct (falsy v); [cbn [fst snd]; split; auto; exact I|].
          pstep (B1 Hb) s1 (R_faults_r _ _ HR1) w er2 s2 HR2 Hok2; cbn [fst snd];
            (split; [eapply R_trans; eauto|]); [destruct (try_and v w); cbn; auto|auto].
        * rewrite eval_err. pstep (A1 Ha) s Hs v er s1 HR1 Hok; [cbn [fst snd]; split; auto|].
          destruct er; cbn in Hok; try contradiction.
          destruct (B1 Hb s1 (R_faults_r _ _ HR1)) as [HR2 Hok2]. split; auto. eapply R_trans; eauto.
      + destruct o; try discriminate; intros Hb; apply andb_true_iff in Hb; destruct Hb as [Ha Hb]; intros s Hs.
        * rewrite eval_or. pstep (A2 Ha) s Hs v er s1 HR1 Hok; [|split; auto].
          destruct (falsy v); [|cbn [fst snd]; split; auto].
          destruct (B2 Hb s1 (R_faults_r _ _ HR1)) as [HR2 Hok2]. split; auto. eapply R_trans; eauto.
        * rewrite eval_err. pstep (A1 Ha) s Hs v er s1 HR1 Hok; [cbn [fst snd]; split; auto; exact I|].
          destruct er; cbn in Hok; try contradiction.
          destruct (B2 Hb s1 (R_faults_r _ _ HR1)) as [HR2 Hok2]. split; auto. eapply R_trans; eauto.
    - (* not *) destruct IHe as [I1 I2]. split; [|discriminate]. intros H s Hs. cbn [eval].
      pstep (I1 H) s Hs v er s1 HR1 Hok; cbn [fst snd]; split; auto. destruct (try_boolean v); cbn; auto.
    - split; discriminate.
    - split; discriminate.
    - split; discriminate.
    - split; discriminate.
    - (* call *) split; intros Hb s Hs; rewrite eval_call.
      + apply call_go_pur; auto; [|discriminate].
        eapply forallb_Forall_map; [exact H| |exact Hb]. intros x [Q _]; auto.
      + apply andb_true_iff in Hb. destruct Hb as [Hf Hb]. apply call_go_pur; auto.
        * eapply forallb_Forall_map; [exact H| |exact Hb]. intros x [_ Q]; auto.
        * intros _. cbn [List.length]. rewrite Nat.add_0_r, map_length. exact Hf.
    - split; discriminate.
    - split; discriminate.
    - split; intros _ s Hs; cbn [eval]; pose proof (t_get_self s pfx p Hs) as X;
        destruct (t_get s pfx p) as [r s1]; cbn [fst snd] in *; (split; [auto|exact I]).
    - split; intros _ s Hs; cbn [eval fst snd]; (split; [apply R_self; auto|exact I]).
    - split; discriminate.
  Qed.

  Corollary total_pure e : total tf e = true ->
    forall s, faults s = [] -> exists v s1, evl (elab e) s = (inl v, s1) /\ R s s1.
  Proof.
    intros H s Hs. destruct (pure_eval e) as [_ Q]. destruct (Q H s Hs) as [HR Hok].
    destruct (evl (elab e) s) as [[v|er] s1]; cbn [fst snd] in *.
    - eauto.
    - destruct er; cbn in Hok; try contradiction; discriminate.
  Qed.
End Pure.

(* ---------- deleting effect-free infallible statements ---------- *)
Section Delete.
  Variable F : fname -> list value -> option value.
  Variable binop : opcode -> value -> value -> option value.
  Variable tf : fname -> nat -> bool.
  Hypothesis tf_total : forall f args, tf f (List.length args) = true -> F f args <> None.
  Notation evl := (eval F binop).
  Notation D := (total tf).

  Definition Pdel (e : pexpr) : Prop :=
    forall sel p, sel_ok D sel p e = true -> eqv F binop (elab e) (elab (pdel sel p e)).

  Lemma mapi_cons {A B} (f : nat -> A -> B) i x r : mapi f i (x :: r) = f i x :: mapi f (S i) r.
  Proof. reflexivity. Qed.

  Lemma drop_stmts_cons2 {A} (sel : nat -> bool) i (x y : A) r :
    drop_stmts sel i (x :: y :: r) = if sel i then drop_stmts sel (S i) (y :: r) else x :: drop_stmts sel (S i) (y :: r).
  Proof. reflexivity. Qed.

  Lemma drop_stmts_cons_ne {A} (sel : nat -> bool) i (x : A) l : l <> [] ->
    drop_stmts sel i (x :: l) = if sel i then drop_stmts sel (S i) l else x :: drop_stmts sel (S i) l.
  Proof. destruct l; [congruence|reflexivity]. Qed.

  Lemma mapi_nonempty {A B} (f : nat -> A -> B) i l : l <> [] -> mapi f i l <> [].
  Proof. destruct l; [congruence|discriminate]. Qed.

  Lemma drop_stmts_nonempty {A} (sel : nat -> bool) (l : list A) : forall i, l <> [] -> drop_stmts sel i l <> [].
  Proof.
    induction l as [|x r IH]; intros i H; [congruence|].
    destruct r as [|y r']; [cbn; discriminate|].
    rewrite drop_stmts_cons2. destruct (sel i); [apply IH; discriminate|discriminate].
  Qed.

  Lemma stmts_ok_cons2 {A} (Dx : A -> bool) (sel : nat -> bool) i (x y : A) r :
    stmts_ok Dx sel i (x :: y :: r) = (if sel i then Dx x else true) && stmts_ok Dx sel (S i) (y :: r).
  Proof. reflexivity. Qed.

  Lemma foralli_cons {A} (f : nat -> A -> bool) i x r : foralli f i (x :: r) = f i x && foralli f (S i) r.
  Proof. reflexivity. Qed.

  (* children that are not statements: pointwise related *)
  Lemma kids_cong sel p es : Forall Pdel es -> forall off,
    foralli (fun i x => sel_ok D sel (p ++ [i]) x) off es = true ->
    Forall2 (eqv F binop) (map elab es) (map elab (mapi (fun i x => pdel sel (p ++ [i]) x) off es)).
  Proof.
    induction 1 as [|x r Hx Hr IH]; intros off Hb; cbn [map]; [constructor|].
    rewrite foralli_cons in Hb. apply andb_true_iff in Hb. destruct Hb as [H1 H2].
    rewrite mapi_cons. cbn [map]. constructor; auto.
  Qed.

  (* statements: the selected non-last ones are dropped *)
  Lemma blk_drop sel p es : Forall Pdel es -> forall off,
    stmts_ok D (fun i => sel (p ++ [i])) off es = true ->
    foralli (fun i x => sel_ok D sel (p ++ [i]) x) off es = true ->
    beqv (blk F binop (map elab es))
         (blk F binop (map elab (drop_stmts (fun i => sel (p ++ [i])) off
                                            (mapi (fun i x => pdel sel (p ++ [i]) x) off es)))).
  Proof.
    induction 1 as [|x r Hx Hr IH]; intros off Hs Hk s s' HR.
    - cbn. split; auto.
    - destruct r as [|y r'].
      + cbn [mapi drop_stmts map blk]. rewrite foralli_cons in Hk. apply andb_true_iff in Hk. destruct Hk as [H1 _].
        apply Hx; auto.
      + rewrite foralli_cons in Hk. apply andb_true_iff in Hk. destruct Hk as [H1 H2].
        rewrite stmts_ok_cons2 in Hs. apply andb_true_iff in Hs. destruct Hs as [Hd Hs].
        rewrite mapi_cons, drop_stmts_cons_ne by (apply mapi_nonempty; discriminate).
        cbn [map]. rewrite blk_cons by discriminate.
        destruct (sel (p ++ [off])) eqn:Esel.
        * (* dropped: the statement is pure *)
          destruct (R_parts _ _ HR) as [_ [_ [_ [Hf _]]]].
          destruct (total_pure F binop tf tf_total x Hd s Hf) as [v [s1 [E HR1]]].
          rewrite E. apply (IH (S off) Hs H2). eapply R_trans; [apply R_sym; exact HR1|exact HR].
        * cbn [map]. rewrite blk_cons.
          2:{ intros C. apply map_eq_nil in C. revert C. apply drop_stmts_nonempty. apply mapi_nonempty. discriminate. }
          pose proof (Hx sel (p ++ [off]) H1 s s' HR) as X. unfold sim in X.
          destruct (evl (elab x) s) as [[v|er] s1]; destruct (evl (elab (pdel sel (p ++ [off]) x)) s') as [[v'|er'] s1'];
            cbn [fst snd] in X; destruct X as [X HR1]; inversion X; subst; [|split; auto].
          apply (IH (S off) Hs H2); auto.
  Qed.

  Lemma kv_insert_cong k e e' l l' : eqv F binop e e' -> Forall2 (kv_eqv F binop) l l' ->
    Forall2 (kv_eqv F binop) (kv_insert k e l) (kv_insert k e' l').
  Proof.
    intros He. induction 1 as [|[k1 a] [k2 b] r r' [Hk Hab] Hr IH]; cbn [kv_insert].
    - constructor; [split; auto|constructor].
    - cbn [fst snd] in Hk, Hab. subst k2. destruct (bytes_cmp k k1).
      + constructor; [split; auto|auto].
      + constructor; [split; auto|]. constructor; [split; auto|auto].
      + constructor; [split; auto|auto].
  Qed.

  Lemma kv_sort_cong l l' : Forall2 (kv_eqv F binop) l l' -> Forall2 (kv_eqv F binop) (kv_sort l) (kv_sort l').
  Proof.
    unfold kv_sort.
    assert (G : forall l l', Forall2 (kv_eqv F binop) l l' -> forall acc acc', Forall2 (kv_eqv F binop) acc acc' ->
      Forall2 (kv_eqv F binop) (fold_left (fun acc kv => kv_insert (fst kv) (snd kv) acc) l acc)
                               (fold_left (fun acc kv => kv_insert (fst kv) (snd kv) acc) l' acc')).
    { induction 1 as [|[k a] [k' b] r r' [Hk Hab] Hr IH]; intros acc acc' Ha; cbn [fold_left]; auto.
      cbn [fst snd] in *. subst k'. apply IH. apply kv_insert_cong; auto. }
    intros H. apply G; auto.
  Qed.

  Theorem pdel_eqv e : Pdel e.
  Proof.
    induction e using pexpr_ind'; intros sel q Hok; cbn [sel_ok] in Hok; cbn [pdel elab];
      try apply eqv_refl.
    - apply eqv_qexpr; auto.
    - apply eqv_group; auto.
    - (* block *) apply andb_true_iff in Hok. destruct Hok as [H1 H2].
      apply eqv_block. apply blk_drop; auto.
    - apply eqv_arr. apply kids_cong; auto.
    - (* obj *) apply eqv_obj. apply kv_sort_cong.
      revert Hok. generalize 0. induction H as [|kv r Hx Hr IH]; intros off Hb; cbn [map]; [constructor|].
      rewrite foralli_cons in Hb. apply andb_true_iff in Hb. destruct Hb as [H1 H2].
      rewrite mapi_cons. cbn [map]. constructor; auto. split; cbn [fst snd]; auto.
    - (* if *) apply andb_true_iff in Hok. destruct Hok as [Hok H4]. apply andb_true_iff in Hok. destruct Hok as [H2 H3].
      apply andb_true_iff in H3. destruct H3 as [H3a H3b].
      apply eqv_if.
      + apply blk_cong. apply kids_cong; auto.
      + apply blk_drop; auto.
      + destruct f as [fb|]; auto. apply andb_true_iff in H4. destruct H4 as [H4a H4b]. apply blk_drop; auto.
    - apply andb_true_iff in Hok. destruct Hok. apply eqv_op; auto.
    - apply eqv_not; auto.
    - apply eqv_assign; auto.
    - apply eqv_assign_inf; auto.
    - destruct m as [m|]; cbn [pdel elab]; [|apply eqv_refl]. apply eqv_abort. apply H; auto.
    - apply eqv_return; auto.
    - apply eqv_call. apply kids_cong; auto.
    - (* closure *) apply andb_true_iff in Hok. destruct Hok as [H1 H2]. apply andb_true_iff in H2. destruct H2 as [H2a H2b].
      apply eqv_closure; auto. apply blk_drop; auto.
  Qed.

  (* program level *)
  Theorem pdel_run sel es : sel_ok_prog D sel es = true ->
    forall s, faults s = [] ->
      fst (run F binop (elab_prog es) s) = fst (run F binop (elab_prog (pdel_prog sel es)) s)
      /\ core (snd (run F binop (elab_prog es) s)) = core (snd (run F binop (elab_prog (pdel_prog sel es)) s)).
  Proof.
    intros Hok s Hs. unfold sel_ok_prog in Hok. apply andb_true_iff in Hok. destruct Hok as [H1 H2].
    assert (Hall : Forall Pdel es) by (apply Forall_forall; intros x _; apply pdel_eqv).
    pose proof (blk_drop sel [] es Hall 0 H1 H2) as B.
    unfold run, pop_fault. rewrite Hs. cbn [fst snd].
    set (s0 := mkState (vars s) (ev s) (md s) (tlog s) []).
    assert (HR : R s0 s0) by (repeat split; auto).
    specialize (B s0 s0 HR). unfold elab_prog, pdel_prog. rewrite !eval_block. unfold sim in B.
    cbn [app] in B.
    destruct (blk F binop (map elab es) s0) as [r1 s1].
    destruct (blk F binop _ s0) as [r2 s2]. cbn [fst snd] in B. destruct B as [E [Hc _]]. subst r2.
    destruct r1 as [v|[ | | | ]]; cbn [fst snd]; auto.
  Qed.
End Delete.
