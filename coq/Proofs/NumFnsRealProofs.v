(* The real-valued bound for round / ceil / floor with a precision, on the regime where it holds: the multiplier w is a
   finite positive binary64, the product x * w is exact (no rounding in the multiplication) and the final quotient does not
   overflow.  Then the only rounding is the final division, and the result y satisfies
       |y - x| <= 1/w + ulp(y)/2,      ceil: x <= y,      floor: y <= x
   over the reals (with w = 10^p exactly this is the rounding clause of C29, up to the representation error of y).
   Flocq 4.1: Bmult/Bdiv through the SpecFloat bridge, Bdiv_correct, error_le_half_ulp_round, round_le.
   Depends on the four axioms of Coq's classical reals, like Proofs/NumFnsFloatProofs.v. *)
From Coq Require Import ZArith Reals Lia Lra Floats SpecFloat Bool Psatz.
From Flocq Require Import Core.Core IEEE754.BinarySingleNaN IEEE754.PrimFloat.
From VRL Require Import Base.Bytes Base.Value Model.ConvRes Model.Arith Model.IntText Model.NumFns.
From VRL Require Import Proofs.ArithProofs Proofs.ArithFloatProofs Proofs.NumFnsProofs Proofs.NumFnsFloatProofs.
Local Open Scope Z_scope.

Local Existing Instance Hprec.
Local Existing Instance Hmax.

Notation R_of := (SF2R radix2).

(* ---------- exact values: Z statements as real statements ---------- *)

Lemma bpow_neg_scale e : e < 0 -> (bpow radix2 e * IZR (2 ^ (- e)) = 1)%R.
Proof.
  intros He. rewrite (IZR_Zpower radix2) by lia. rewrite <- bpow_plus.
  replace (e + - e) with 0 by lia. reflexivity.
Qed.

(* x * D = M for x = (s, m, e), e < 0, D = 2^(-e), M = +-m *)
Lemma R_of_scaled s m e : e < 0 -> (R_of (S754_finite s m e) * IZR (2 ^ (- e)) = IZR (cond_Zopp s (Zpos m)))%R.
Proof.
  intros He. unfold SF2R, F2R. cbn [Fnum Fexp]. rewrite Rmult_assoc, (bpow_neg_scale e He). ring.
Qed.

Lemma int_value_R f n : f_int_value f = Some n -> R_of f = IZR n.
Proof.
  destruct f as [s|s| |s m e]; cbn [f_int_value]; try discriminate.
  - intros H. inversion H. reflexivity.
  - destruct (Z.leb_spec 0 e) as [He|He].
    + intros H. inversion H. unfold SF2R, F2R. cbn [Fnum Fexp].
      rewrite <- (IZR_Zpower radix2) by exact He. rewrite <- mult_IZR. f_equal.
      change (radix_val radix2) with 2. destruct s; unfold cond_Zopp; [rewrite Z.mul_opp_l|]; reflexivity.
    + destruct (Z.eqb_spec (Zpos m mod 2 ^ (- e)) 0) as [Hz|Hz]; [|discriminate].
      intros H. inversion H.
      assert (HD : 0 < 2 ^ (- e)) by (apply Z.pow_pos_nonneg; lia).
      assert (Hm : Zpos m = 2 ^ (- e) * (Zpos m / 2 ^ (- e))).
      { pose proof (Z.div_mod (Zpos m) (2 ^ (- e)) ltac:(lia)). lia. }
      pose proof (R_of_scaled s m e He) as Hs.
      assert (Hd : (0 < IZR (2 ^ (- e)))%R) by (apply IZR_lt; exact HD).
      apply (Rmult_eq_reg_r (IZR (2 ^ (- e)))); [|lra]. rewrite Hs, <- mult_IZR. f_equal.
      rewrite Hm at 1. destruct s; unfold cond_Zopp; [rewrite <- Z.mul_opp_l|]; ring.
Qed.

(* ---------- f64::floor / ceil / round over the reals ---------- *)

Lemma f_rint_R k t : valid_binary prec emax t = true -> f_is_finite t = true ->
  let T := R_of t in
  let K := R_of (f_rint k t) in
  match k with
  | KFloor => (K <= T < K + 1)%R
  | KCeil => (K - 1 < T <= K)%R
  | KRound => (Rabs (T - K) <= / 2)%R
  end.
Proof.
  intros Hv Hf. cbv zeta. destruct t as [s|s| |s m e]; try discriminate.
  - cbn. destruct k; try rewrite Rminus_0_r, Rabs_R0; lra.
  - destruct (Z.leb_spec 0 e) as [He|He].
    + rewrite (f_rint_integer k s m e He). destruct k; try (rewrite Rminus_diag_eq by reflexivity; rewrite Rabs_R0); lra.
    + pose proof (valid_mantissa_bound s m e Hv) as Hm.
      destruct (f_rint_spec k s m e He Hm) as (n & Hval & _ & Hlaw). cbv zeta in Hlaw.
      rewrite (int_value_R _ n Hval).
      pose proof (R_of_scaled s m e He) as Hs.
      assert (HD : 0 < 2 ^ (- e)) by (apply Z.pow_pos_nonneg; lia).
      assert (Hd : (0 < IZR (2 ^ (- e)))%R) by (apply IZR_lt; exact HD).
      set (T := R_of (S754_finite s m e)) in *. set (d := IZR (2 ^ (- e))) in *.
      set (M := cond_Zopp s (Zpos m)) in *. set (D := 2 ^ (- e)) in *.
      destruct k.
      * destruct Hlaw as [Hl _].
        assert (H2 : (2 * Rabs (IZR M - IZR n * d) <= d)%R).
        { unfold d. rewrite <- mult_IZR, <- minus_IZR, <- abs_IZR. change 2%R with (IZR 2). rewrite <- mult_IZR.
          apply IZR_le. exact Hl. }
        rewrite <- Hs in H2.
        replace (T * d - IZR n * d)%R with ((T - IZR n) * d)%R in H2 by ring.
        rewrite Rabs_mult, (Rabs_pos_eq d) in H2 by lra.
        apply (Rmult_le_reg_r d); [exact Hd|]. lra.
      * destruct Hlaw as [H1 H2]. apply IZR_lt in H1. apply IZR_le in H2.
        rewrite mult_IZR, minus_IZR in H1. rewrite mult_IZR in H2. fold d in H1, H2. rewrite <- Hs in H1, H2.
        split; [apply (Rmult_lt_reg_r d); [exact Hd|]; lra | apply (Rmult_le_reg_r d); [exact Hd|]; lra].
      * destruct Hlaw as [H1 H2]. apply IZR_le in H1. apply IZR_lt in H2.
        rewrite mult_IZR in H1. rewrite mult_IZR, plus_IZR in H2. fold d in H1, H2. rewrite <- Hs in H1, H2.
        split; [apply (Rmult_le_reg_r d); [exact Hd|]; lra | apply (Rmult_lt_reg_r d); [exact Hd|]; lra].
Qed.

(* ---------- the bound ---------- *)

Theorem round_good_R (k : rkind) (x w : spec_float) :
  valid_binary prec emax x = true -> f_is_finite x = true ->
  valid_binary prec emax w = true -> f_is_finite w = true -> (0 < R_of w)%R ->
  let t := f_mul x w in
  let y := f_div (f_rint k t) w in
  R_of t = (R_of x * R_of w)%R ->          (* the multiplication does not round *)
  f_is_finite t = true ->
  f_is_finite y = true ->                   (* the quotient does not overflow *)
  (Rabs (R_of y - R_of x) <= / R_of w + / 2 * ulp radix2 (fexp prec emax) (R_of y))%R
  /\ (k = KCeil -> (R_of x <= R_of y)%R)
  /\ (k = KFloor -> (R_of y <= R_of x)%R).
Proof.
  intros Hvx Hfx Hvw Hfw Hwpos t y Hexact Hft Hfy.
  assert (Hvt : valid_binary prec emax t = true).
  { unfold t. destruct (valid_is_B x Hvx) as (bx & ->). destruct (valid_is_B w Hvw) as (bw & ->).
    rewrite f_mul_B. apply valid_binary_B2SF. }
  pose proof (f_rint_valid k t Hvt) as Hvk.
  pose proof (f_rint_R k t Hvt Hft) as Hrint. cbv zeta in Hrint.
  destruct (valid_is_B (f_rint k t) Hvk) as (bk & Ek).
  destruct (valid_is_B w Hvw) as (bw & Ew).
  assert (Ey : y = B2SF (Bdiv mode_NE bk bw)).
  { transitivity (f_div (B2SF bk) (B2SF bw)); [unfold y; rewrite Ek, <- Ew; reflexivity | apply f_div_B]. }
  assert (RW : R_of w = B2R bw) by (rewrite Ew; apply SF2R_B2SF).
  assert (RK : R_of (f_rint k t) = B2R bk) by (rewrite Ek; apply SF2R_B2SF).
  assert (Hw0 : B2R bw <> 0%R) by (rewrite <- RW; lra).
  pose proof (Bdiv_correct prec emax Hprec Hmax mode_NE bk bw Hw0) as Hdiv.
  set (q := (B2R bk / B2R bw)%R) in *.
  destruct (Rlt_bool_spec (Rabs (round radix2 (fexp prec emax) (round_mode mode_NE) q)) (bpow radix2 emax)) as [Hlt|Hge].
  2:{ exfalso. rewrite Ey, Hdiv in Hfy. unfold binary_overflow in Hfy. cbn in Hfy. discriminate. }
  destruct Hdiv as (HRy & _ & _).
  assert (RY : R_of y = round radix2 (fexp prec emax) (round_mode mode_NE) q).
  { rewrite Ey, SF2R_B2SF. exact HRy. }
  set (X := R_of x) in *. set (W := R_of w) in *. set (T := R_of t) in *. set (K := R_of (f_rint k t)) in *.
  assert (Hq : q = (K / W)%R) by (unfold q; rewrite <- RK, <- RW; reflexivity).
  assert (HX : X = (T / W)%R) by (rewrite Hexact; field; lra).
  assert (Hinv : (0 < / W)%R) by (apply Rinv_0_lt_compat; exact Hwpos).
  (* the rounding error of the division *)
  assert (Herr : (Rabs (R_of y - q) <= / 2 * ulp radix2 (fexp prec emax) (R_of y))%R).
  { rewrite RY. apply error_le_half_ulp_round; [apply fexp_correct; exact Hprec | apply fexp_monotone]. }
  (* x is a binary64 number: rounding it is the identity *)
  assert (HgX : generic_format radix2 (fexp prec emax) X).
  { unfold X. destruct (valid_is_B x Hvx) as (bx & ->). rewrite SF2R_B2SF. apply generic_format_B2R. }
  assert (HrX : round radix2 (fexp prec emax) (round_mode mode_NE) X = X).
  { apply round_generic; [apply valid_rnd_round_mode | exact HgX]. }
  split; [|split].
  - (* distance *)
    assert (Hdist : (Rabs (q - X) <= / W)%R).
    { rewrite Hq, HX. replace (K / W - T / W)%R with ((K - T) * / W)%R by (field; lra).
      rewrite Rabs_mult, (Rabs_pos_eq (/ W)) by lra.
      assert (Rabs (K - T) <= 1)%R.
      { destruct k.
        - rewrite Rabs_minus_sym. lra.
        - apply Rabs_le. lra.
        - apply Rabs_le. lra. }
      nra. }
    replace (R_of y - X)%R with ((R_of y - q) + (q - X))%R by ring.
    eapply Rle_trans; [apply Rabs_triang|]. lra.
  - intros ->. rewrite RY, <- HrX. apply round_le; [apply fexp_correct; exact Hprec | apply valid_rnd_round_mode |].
    rewrite Hq, HX. apply Rmult_le_compat_r; lra.
  - intros ->. rewrite RY, <- HrX. apply round_le; [apply fexp_correct; exact Hprec | apply valid_rnd_round_mode |].
    rewrite Hq, HX. apply Rmult_le_compat_r; lra.
Qed.

(* ---------- the decidable regime RcGood implies the hypotheses of round_good_R ---------- *)

Lemma product_exact_R x w t : product_exact x w t = true -> R_of t = (R_of x * R_of w)%R.
Proof.
  destruct x as [sx|sx| |sx mx ex]; destruct w as [sw|sw| |sw mw ew]; destruct t as [st|st| |st mt et];
    cbn [product_exact]; try discriminate.
  - intros _. cbn. ring.
  - intros H. apply andb_true_iff in H. destruct H as [Hs Hm]. apply eqb_prop in Hs. apply Z.eqb_eq in Hm.
    unfold SF2R, F2R. cbn [Fnum Fexp].
    assert (Hsign : forall a b : positive, (IZR (cond_Zopp sx (Zpos a)) * IZR (cond_Zopp sw (Zpos b)) =
                                             IZR (cond_Zopp st (Zpos a * Zpos b)))%R).
    { intros a b. rewrite <- mult_IZR. f_equal. subst st. destruct sx, sw; cbn [xorb cond_Zopp]; lia. }
    set (e := Z.min (ex + ew) et) in *.
    assert (He1 : 0 <= ex + ew - e) by (unfold e; lia). assert (He2 : 0 <= et - e) by (unfold e; lia).
    transitivity (IZR (cond_Zopp st (Zpos mt * 2 ^ (et - e))) * bpow radix2 e)%R.
    + replace (cond_Zopp st (Zpos mt * 2 ^ (et - e))) with (cond_Zopp st (Zpos mt) * 2 ^ (et - e))
        by (destruct st; unfold cond_Zopp; [rewrite Z.mul_opp_l|]; reflexivity).
      rewrite mult_IZR, (IZR_Zpower radix2) by exact He2. rewrite Rmult_assoc, <- bpow_plus.
      replace (et - e + e) with et by lia. reflexivity.
    + rewrite <- Hm.
      replace (cond_Zopp st (Zpos mx * Zpos mw * 2 ^ (ex + ew - e))) with (cond_Zopp st (Zpos mx * Zpos mw) * 2 ^ (ex + ew - e))
        by (destruct st; unfold cond_Zopp; [rewrite Z.mul_opp_l|]; reflexivity).
      rewrite mult_IZR, (IZR_Zpower radix2) by exact He1. rewrite Rmult_assoc, <- bpow_plus.
      replace (ex + ew - e + e) with (ex + ew) by lia. rewrite bpow_plus, <- Hsign. ring.
Qed.

(* Outside the four known regimes (round_class = RcGood), with the multiplier equal to 10^p: the rounding clause of C29
   holds, up to half a unit in the last place of the result. *)
Theorem round_good (pow10 : Z -> spec_float) (k : rkind) (x : spec_float) (p : Z) :
  valid_binary prec emax x = true -> f_is_finite x = true ->
  valid_binary prec emax (pow10 p) = true -> R_of (pow10 p) = IZR (10 ^ p) ->
  round_class k x p (pow10 p) = RcGood ->
  exists y, round_fn pow10 k (VFloat x) (Some (VInt p)) = ROk (VFloat y)
    /\ f_is_finite y = true
    /\ (Rabs (R_of y - R_of x) <= / IZR (10 ^ p) + / 2 * ulp radix2 (fexp prec emax) (R_of y))%R
    /\ (k = KCeil -> (R_of x <= R_of y)%R)
    /\ (k = KFloor -> (R_of y <= R_of x)%R).
Proof.
  intros Hvx Hfx Hvw HRw Hc. unfold round_class in Hc.
  set (w := pow10 p) in *. set (t := f_mul x w) in *. set (y := f_div (f_rint k t) w) in *.
  destruct (negb (f_is_finite w) || f_is_zero w || negb (f_is_zero x) && (f_is_zero t || negb (f_is_finite t))
            || negb (f_is_finite y)) eqn:E1; [discriminate|].
  destruct (match t with S754_finite _ _ e => 0 <=? e | _ => false end) eqn:E2; [discriminate|].
  destruct ((p <? 0) || (22 <? p)) eqn:E3; [discriminate|].
  destruct (negb (product_exact x w t)) eqn:E4; [discriminate|].
  apply negb_false_iff in E4.
  apply orb_false_iff in E1. destruct E1 as [E1 Ey]. apply negb_false_iff in Ey.
  apply orb_false_iff in E1. destruct E1 as [E1 Et].
  apply orb_false_iff in E1. destruct E1 as [Ew Ew0]. apply negb_false_iff in Ew.
  apply orb_false_iff in E3. destruct E3 as [Ep _]. apply Z.ltb_ge in Ep.
  assert (Hwpos : (0 < R_of w)%R).
  { rewrite HRw. apply IZR_lt. apply Z.pow_pos_nonneg; lia. }
  assert (Hft : f_is_finite t = true).
  { destruct t; try reflexivity; destruct x, w; cbn in E4; discriminate. }
  pose proof (product_exact_R x w t E4) as Hex.
  destruct (round_good_R k x w Hvx Hfx Hvw Ew Hwpos Hex Hft Ey) as (B1 & B2 & B3).
  exists y. split.
  - unfold round_fn, round_to_precision. fold w. fold t. fold y. destruct y; try discriminate; reflexivity.
  - split; [exact Ey|]. rewrite <- HRw. split; [exact B1|]. split; [exact B2 | exact B3].
Qed.

(* the hypotheses of round_good are satisfiable: 10.0 is 10^1, and round(2.5, precision: 1) is in the good regime *)
Lemma ten_R : R_of (S754_finite false 5629499534213120 (-49)) = IZR (10 ^ 1).
Proof.
  unfold SF2R, F2R. cbn [cond_Zopp Fnum Fexp].
  change (bpow radix2 (-49)) with (/ IZR (Z.pow_pos 2 49))%R.
  change (Z.pow_pos 2 49) with 562949953421312. change (10 ^ 1) with 10. field.
Qed.

Lemma round_good_inhabited :
  let pow10 := fun _ : Z => S754_finite false 5629499534213120 (-49) in
  let x := S754_finite false 5629499534213120 (-51) in          (* 2.5 *)
  valid_binary prec emax x = true /\ f_is_finite x = true /\ valid_binary prec emax (pow10 1) = true
  /\ R_of (pow10 1) = IZR (10 ^ 1) /\ round_class KRound x 1 (pow10 1) = RcGood.
Proof. cbv zeta. repeat split; try reflexivity. apply ten_R. Qed.
