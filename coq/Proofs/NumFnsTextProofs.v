(* to_float / parse_float on the decimal text of an integer: the model's correctly rounded decimal parser reads the digits
   of any i64 z back as `z as f64`, so to_float (to_string z) = to_float z for every i64.  Closed, no real numbers. *)
From Coq Require Import List NArith ZArith Bool Lia.
From Coq Require Import Floats.SpecFloat.
From VRL Require Import Base.Bytes Base.Value Base.Lit Model.ConvRes Model.Arith Model.IntText Model.NumFns.
From VRL Require Import Proofs.ArithProofs Proofs.IntTextProofs Proofs.NumFnsProofs.
Import ListNotations.
Local Open Scope Z_scope.

Lemma to_digit10 c d : to_digit 10 c = Some d -> is_dig c = true /\ d = Z.of_N c - 48.
Proof.
  unfold to_digit, digit_val, is_dig. intros H.
  destruct ((48 <=? Z.of_N c) && (Z.of_N c <=? 57)) eqn:E1.
  - apply andb_true_iff in E1. destruct E1 as [A B]. apply Z.leb_le in A. apply Z.leb_le in B.
    destruct (Z.of_N c - 48 <? 10); inversion H. split; [|reflexivity].
    apply andb_true_iff. split; apply N.leb_le; lia.
  - exfalso. destruct ((97 <=? Z.of_N c) && (Z.of_N c <=? 122)) eqn:E2.
    + apply andb_true_iff in E2. destruct E2 as [A B]. apply Z.leb_le in A.
      destruct (Z.ltb_spec (Z.of_N c - 87) 10); [lia | discriminate].
    + destruct ((65 <=? Z.of_N c) && (Z.of_N c <=? 90)) eqn:E3; [|discriminate].
      apply andb_true_iff in E3. destruct E3 as [A B]. apply Z.leb_le in A.
      destruct (Z.ltb_spec (Z.of_N c - 55) 10); [lia | discriminate].
Qed.

Lemma uval_span s : forall a v, uval 10 s a = Some v -> span_digits s = (s, []) /\ digits_val a s = v.
Proof.
  induction s as [|c s IH]; intros a v H; cbn [uval] in H.
  - inversion H. split; reflexivity.
  - destruct (to_digit 10 c) as [d|] eqn:D; [|discriminate].
    destruct (to_digit10 c d D) as [Hd ->]. destruct (IH _ _ H) as [Hs Hv].
    cbn [span_digits digits_val]. rewrite Hd, Hs. split; [reflexivity | exact Hv].
Qed.

Lemma strip_zeros_cons c r : c <> 48%N -> strip_zeros (c :: r) = c :: r.
Proof.
  intros Hc. destruct c as [|p]; [reflexivity|].
  do 6 (destruct p as [p|p|]; try reflexivity). congruence.
Qed.

Lemma digits_val_strip s : digits_val 0 (strip_zeros s) = digits_val 0 s.
Proof.
  induction s as [|c r IH]; [reflexivity|].
  destruct (N.eq_dec c 48) as [->|Hc].
  - cbn [strip_zeros]. rewrite IH. reflexivity.
  - rewrite strip_zeros_cons by exact Hc. reflexivity.
Qed.

Lemma strip_zeros_length s : (length (strip_zeros s) <= length s)%nat.
Proof.
  induction s as [|c r IH]; [cbn; lia|].
  destruct (N.eq_dec c 48) as [->|Hc].
  - cbn [strip_zeros length]. lia.
  - rewrite strip_zeros_cons by exact Hc. lia.
Qed.

(* a non-empty all-digit string of at most 300 characters with value n, read with sign `neg` *)
Lemma parse_number_digits neg s n : s <> [] -> (length s <= 300)%nat -> uval 10 s 0 = Some n ->
  parse_number neg s =
  Some (if n =? 0 then S754_zero neg else binary_normalize 53 1024 (cond_Zopp neg n) 0 neg).
Proof.
  intros Hne Hlen Hu. destruct (uval_span s 0 n Hu) as [Hs Hv].
  unfold parse_number. rewrite Hs. rewrite app_nil_r.
  destruct s as [|c0 s0]; [congruence|]. set (s := c0 :: s0) in *.
  pose proof (digits_val_strip s) as Hst. pose proof (strip_zeros_length s) as Hsl.
  rewrite Hv in Hst.
  destruct (strip_zeros s) as [|c1 r1] eqn:Esig.
  - cbn in Hst. rewrite <- Hst. reflexivity.
  - rewrite Hst. unfold dec_to_f64. cbn [length].
    set (nd := Z.of_nat (S (length r1))).
    assert (Hnd : 0 < nd <= 300) by (unfold nd; cbn [length] in Hsl; lia).
    replace (0 - Z.of_nat 0) with 0 by reflexivity.
    replace (310 <=? nd + 0) with false by (symmetry; apply Z.leb_gt; lia).
    replace (nd + 0 <=? -324) with false by (symmetry; apply Z.leb_gt; lia).
    cbn [Z.leb Z.compare]. rewrite Z.pow_0_r, Z.mul_1_r.
    destruct (Z.eqb_spec n 0) as [->|Hn]; [destruct neg; reflexivity | reflexivity].
Qed.

Lemma binary_normalize_szero z a b : z <> 0 -> binary_normalize 53 1024 z 0 a = binary_normalize 53 1024 z 0 b.
Proof. destruct z; [congruence|reflexivity|reflexivity]. Qed.

(* the decimal text of z parses to `z as f64` *)
Lemma parse_f64_int_text z s : ConvRes.in_i64 z = true -> int_to_string z = ROk s -> parse_f64 s = Some (of_i64 z).
Proof.
  intros Hz Hs. unfold ConvRes.in_i64, i64_min, i64_max in Hz.
  apply andb_true_iff in Hz. destruct Hz as [Hlo Hhi]. apply Z.leb_le in Hlo. apply Z.leb_le in Hhi.
  unfold int_to_string in Hs.
  destruct (digits_loop 64 10 (Z.abs z) []) as [ds|] eqn:Hd; [|discriminate].
  pose proof (pow64_bound 10 ltac:(lia)) as Hp.
  destruct (digits_spec 10 ltac:(lia) 64%nat (Z.abs z) [] ltac:(lia) ltac:(lia)) as (ds' & P & Hds & Hne & Hv).
  rewrite app_nil_r in Hds. rewrite Hd in Hds. inversion Hds; subst ds'. clear Hds.
  pose proof (digits_loop_length 10 _ _ _ _ Hd) as Hlen. cbn [length] in Hlen.
  specialize (Hv 0). rewrite Z.mul_0_l, Z.add_0_l in Hv.
  assert (Hpn : forall neg, parse_number neg ds =
            Some (if Z.abs z =? 0 then S754_zero neg else binary_normalize 53 1024 (cond_Zopp neg (Z.abs z)) 0 neg))
    by (intros neg; apply parse_number_digits; [exact Hne | lia | exact Hv]).
  destruct (Z.ltb_spec z 0) as [Hneg|Hpos]; inversion Hs; subst s.
  - unfold parse_f64. cbn [N.eqb Pos.eqb orb]. destruct ds as [|c0 r0]; [congruence|].
    rewrite Hpn. replace (Z.abs z =? 0) with false by (symmetry; apply Z.eqb_neq; lia).
    cbn [cond_Zopp]. replace (- Z.abs z) with z by lia. unfold of_i64. f_equal. apply binary_normalize_szero. lia.
  - destruct ds as [|c0 r0]; [congruence|].
    assert (Hc : to_digit 10 c0 <> None).
    { cbn [uval] in Hv. destruct (to_digit 10 c0); [discriminate | discriminate]. }
    destruct (to_digit 10 c0) as [d0|] eqn:D0; [|congruence].
    destruct (to_digit_not_sign 10 c0 d0 D0) as [H43 H45].
    unfold parse_f64.
    replace (c0 =? 45)%N with false by (symmetry; apply N.eqb_neq; exact H45).
    replace (c0 =? 43)%N with false by (symmetry; apply N.eqb_neq; exact H43).
    cbn [orb]. rewrite Hpn. replace (Z.abs z) with z by lia. cbn [cond_Zopp].
    destruct (Z.eqb_spec z 0) as [->|Hnz]; reflexivity.
Qed.

(* to_float and parse_float on the text of an integer agree with to_float on the integer, for every i64 *)
Theorem to_float_int_text fmt_f64 fmt_ts z : ConvRes.in_i64 z = true ->
  exists s, to_string fmt_f64 fmt_ts (VInt z) = ROk (VBytes s)
            /\ to_float (VBytes s) = to_float (VInt z)
            /\ parse_float (VBytes s) = to_float (VInt z).
Proof.
  intros Hz. destruct (int_text_roundtrip fmt_f64 fmt_ts z Hz) as (s & Hs & _).
  exists s. split; [exact Hs|].
  unfold to_string in Hs. destruct (int_to_string z) as [s0| | |] eqn:Hi; cbn [res_bind] in Hs; try discriminate.
  inversion Hs; subst s0.
  pose proof (parse_f64_int_text z s Hz Hi) as Hp.
  pose proof (of_i64_not_nan z) as Hn.
  unfold to_float, parse_float, bytes_to_float. rewrite Hp, Hn.
  destruct (of_i64 z); try discriminate; split; reflexivity.
Qed.
