(* Proofs about Model/Casing.v (C28): on printable ASCII, snakecase / kebabcase / screamingsnakecase are idempotent;
   camelcase and pascalcase are not. *)
From Coq Require Import List NArith Bool Lia.
From VRL Require Import Base.Bytes.
From VRL Require Import Model.Casing.
Import ListNotations.
Local Open Scope N_scope.

Ltac bool_to_prop :=
  repeat match goal with
  | H : _ && _ = true |- _ => apply andb_true_iff in H; destruct H
  | H : _ || _ = false |- _ => apply orb_false_iff in H; destruct H
  | H : negb _ = true |- _ => apply negb_true_iff in H
  | H : (_ <=? _) = true |- _ => apply N.leb_le in H
  | H : (_ <=? _) = false |- _ => apply N.leb_gt in H
  | H : (_ =? _) = true |- _ => apply N.eqb_eq in H
  | H : (_ =? _) = false |- _ => apply N.eqb_neq in H
  end.

(* ---------- character classes under to_lower / to_upper ---------- *)
Definition is_letter (c : N) : bool := is_lower c || is_upper c.

(* a pair of neighbours inside one word of the segmentation never is letter|digit or digit|letter *)
Definition pair_ok (c0 c1 : N) : bool :=
  negb (is_letter c0 && is_digit c1) && negb (is_digit c0 && is_letter c1).

Fixpoint adj_ok (w : bytes) : bool :=
  match w with
  | c0 :: ((c1 :: _) as r) => pair_ok c0 c1 && adj_ok r
  | _ => true
  end.

Definition no_sep (w : bytes) : bool := forallb (fun c => negb (is_sep c)) w.
Definition okw (w : bytes) : Prop := w <> [] /\ no_sep w = true /\ adj_ok w = true.

Lemma class_cases c : 
  (is_lower c = true /\ is_upper c = false /\ is_digit c = false /\ is_sep c = false)
  \/ (is_lower c = false /\ is_upper c = true /\ is_digit c = false /\ is_sep c = false)
  \/ (is_lower c = false /\ is_upper c = false /\ is_digit c = true /\ is_sep c = false)
  \/ (is_lower c = false /\ is_upper c = false /\ is_digit c = false).
Proof.
  unfold is_lower, is_upper, is_digit, is_sep.
  destruct (97 <=? c) eqn:A; destruct (c <=? 122) eqn:B; destruct (65 <=? c) eqn:C; destruct (c <=? 90) eqn:D;
  destruct (48 <=? c) eqn:E; destruct (c <=? 57) eqn:F; destruct (c =? 32) eqn:G; destruct (c =? 45) eqn:H;
  destruct (c =? 95) eqn:I; cbn; bool_to_prop; try lia; tauto.
Qed.

Lemma lower_classes c : is_lower (to_lower c) = is_letter c /\ is_upper (to_lower c) = false
  /\ is_digit (to_lower c) = is_digit c /\ is_sep (to_lower c) = is_sep c.
Proof.
  unfold to_lower, is_letter. destruct (is_upper c) eqn:U.
  - unfold is_upper in U. bool_to_prop. unfold is_lower, is_upper, is_digit, is_sep.
    rewrite (proj2 (N.leb_le 97 (c + 32))), (proj2 (N.leb_le (c + 32) 122)) by lia.
    rewrite (proj2 (N.leb_gt (c + 32) 90)), (proj2 (N.leb_gt (c + 32) 57)), (proj2 (N.leb_gt c 57)) by lia.
    rewrite (proj2 (N.eqb_neq (c + 32) 32)), (proj2 (N.eqb_neq (c + 32) 45)), (proj2 (N.eqb_neq (c + 32) 95)) by lia.
    rewrite (proj2 (N.eqb_neq c 32)), (proj2 (N.eqb_neq c 45)), (proj2 (N.eqb_neq c 95)) by lia.
    rewrite !andb_false_r, orb_true_r. cbn. auto.
  - rewrite orb_false_r. auto.
Qed.

Lemma upper_classes c : is_upper (to_upper c) = is_letter c /\ is_lower (to_upper c) = false
  /\ is_digit (to_upper c) = is_digit c /\ is_sep (to_upper c) = is_sep c.
Proof.
  unfold to_upper, is_letter. destruct (is_lower c) eqn:L.
  - unfold is_lower in L. bool_to_prop. unfold is_lower, is_upper, is_digit, is_sep.
    rewrite (proj2 (N.leb_le 65 (c - 32))), (proj2 (N.leb_le (c - 32) 90)) by lia.
    rewrite (proj2 (N.leb_gt 97 (c - 32))), (proj2 (N.leb_gt (c - 32) 57)) by lia.
    rewrite (proj2 (N.leb_gt c 57)) by lia.
    rewrite (proj2 (N.eqb_neq (c - 32) 32)), (proj2 (N.eqb_neq (c - 32) 45)), (proj2 (N.eqb_neq (c - 32) 95)) by lia.
    rewrite (proj2 (N.eqb_neq c 32)), (proj2 (N.eqb_neq c 45)), (proj2 (N.eqb_neq c 95)) by lia.
    rewrite !andb_false_r. cbn. auto.
  - cbn [orb]. auto.
Qed.

Lemma pair_ok_sym a b : pair_ok a b = pair_ok b a.
Proof.
  unfold pair_ok, is_letter.
  destruct (class_cases a) as [H|[H|[H|H]]]; destruct (class_cases b) as [K|[K|[K|K]]];
    repeat match goal with H : _ /\ _ |- _ => destruct H end;
    repeat match goal with H : _ = _ |- _ => rewrite H end; reflexivity.
Qed.

(* ---------- every word of the segmentation is non-empty, separator-free and has no letter|digit neighbours ---------- *)
Definition cur_ok (cur : list N) (s : bytes) : Prop :=
  no_sep cur = true /\ adj_ok cur = true
  /\ match cur, s with
     | p :: _, c :: _ => is_sep c = true \/ pair_ok p c = true
     | _, _ => True
     end.

Lemma no_sep_rev l : no_sep (rev l) = no_sep l.
Proof.
  unfold no_sep. induction l as [|x l IH]; [reflexivity|]. cbn [rev forallb].
  rewrite forallb_app, IH. cbn [forallb]. rewrite andb_true_r. apply andb_comm.
Qed.

Lemma adj_ok_app_single l x : adj_ok (l ++ [x]) = adj_ok l && match rev l with p :: _ => pair_ok p x | [] => true end.
Proof.
  induction l as [|a l IH]; [reflexivity|].
  destruct l as [|b l].
  - cbn. rewrite andb_true_r. reflexivity.
  - change (adj_ok ((a :: b :: l) ++ [x])) with (pair_ok a b && adj_ok ((b :: l) ++ [x])).
    rewrite IH. change (adj_ok (a :: b :: l)) with (pair_ok a b && adj_ok (b :: l)).
    rewrite andb_assoc. f_equal.
    cbn [rev]. destruct (rev l ++ [b]) as [|p q] eqn:E; [destruct (rev l); discriminate|].
    cbn [app]. reflexivity.
Qed.

Lemma adj_ok_rev l : adj_ok (rev l) = adj_ok l.
Proof.
  induction l as [|x l IH]; [reflexivity|].
  cbn [rev]. rewrite adj_ok_app_single, IH, rev_involutive.
  destruct l as [|y l]; [reflexivity|].
  change (adj_ok (x :: y :: l)) with (pair_ok x y && adj_ok (y :: l)). rewrite (pair_ok_sym y x). apply andb_comm.
Qed.

Lemma okw_of_cur c cur : is_sep c = false -> no_sep cur = true -> adj_ok cur = true ->
  match cur with p :: _ => pair_ok p c = true | [] => True end -> okw (rev (c :: cur)).
Proof.
  intros Hc Hs Ha Hp. repeat split.
  - cbn [rev]. destruct (rev cur); discriminate.
  - rewrite no_sep_rev. unfold no_sep in *. cbn [forallb]. rewrite Hc, Hs. reflexivity.
  - rewrite adj_ok_rev. destruct cur as [|p q]; [reflexivity|].
    change (adj_ok (c :: p :: q)) with (pair_ok c p && adj_ok (p :: q)). rewrite pair_ok_sym, Hp, Ha. reflexivity.
Qed.

Lemma lb_false_pair c c1 r : is_sep c = false -> letter_boundary c (c1 :: r) = false ->
  is_sep c1 = true \/ pair_ok c c1 = true.
Proof.
  intros Hs H. right. unfold letter_boundary in H. unfold pair_ok, is_letter.
  destruct (class_cases c) as [K|[K|[K|K]]]; destruct (class_cases c1) as [L|[L|[L|L]]];
    repeat match goal with H : _ /\ _ |- _ => destruct H end;
    repeat match goal with E : is_lower _ = _ |- _ => rewrite E in * end;
    repeat match goal with E : is_upper _ = _ |- _ => rewrite E in * end;
    repeat match goal with E : is_digit _ = _ |- _ => rewrite E in * end;
    cbn in *; try reflexivity; try discriminate;
    repeat rewrite ?orb_true_r, ?orb_false_r, ?andb_true_r, ?andb_false_r in H; try discriminate.
Qed.

Lemma words_go_okw s : forall cur, cur_ok cur s -> Forall okw (words_go s cur).
Proof.
  induction s as [|c r IH]; intros cur [Hs [Ha Hp]].
  - cbn [words_go]. destruct cur as [|p q]; [constructor|].
    cbn [push_word]. constructor; [|constructor].
    unfold no_sep in Hs. cbn [forallb] in Hs. apply andb_true_iff in Hs. destruct Hs as [Hp1 Hs].
    apply negb_true_iff in Hp1.
    apply okw_of_cur; try assumption.
    + destruct q as [|p2 q]; [reflexivity|].
      change (adj_ok (p :: p2 :: q)) with (pair_ok p p2 && adj_ok (p2 :: q)) in Ha.
      apply andb_true_iff in Ha. apply Ha.
    + destruct q as [|p2 q]; [exact I|].
      change (adj_ok (p :: p2 :: q)) with (pair_ok p p2 && adj_ok (p2 :: q)) in Ha.
      apply andb_true_iff in Ha. rewrite pair_ok_sym. apply Ha.
  - cbn [words_go]. destruct (is_sep c) eqn:Sc.
    + assert (Hrest : Forall okw (words_go r [])) by (apply IH; repeat split; reflexivity).
      destruct cur as [|p q]; [exact Hrest|]. cbn [push_word]. constructor; [|exact Hrest].
      unfold no_sep in Hs. cbn [forallb] in Hs. apply andb_true_iff in Hs. destruct Hs as [Hp1 Hs].
      apply negb_true_iff in Hp1.
      apply okw_of_cur; try assumption.
      * destruct q as [|p2 q]; [reflexivity|].
        change (adj_ok (p :: p2 :: q)) with (pair_ok p p2 && adj_ok (p2 :: q)) in Ha.
        apply andb_true_iff in Ha. apply Ha.
      * destruct q as [|p2 q]; [exact I|].
        change (adj_ok (p :: p2 :: q)) with (pair_ok p p2 && adj_ok (p2 :: q)) in Ha.
        apply andb_true_iff in Ha. rewrite pair_ok_sym. apply Ha.
    + assert (Hpc : match cur with p :: _ => pair_ok p c = true | [] => True end).
      { destruct cur as [|p q]; [exact I|]. destruct Hp as [Hp|Hp]; [congruence | exact Hp]. }
      destruct (letter_boundary c r) eqn:B.
      * constructor; [apply okw_of_cur; assumption|]. apply IH. repeat split; reflexivity.
      * apply IH. repeat split.
        -- unfold no_sep in *. cbn [forallb]. rewrite Sc, Hs. reflexivity.
        -- destruct cur as [|p q]; [reflexivity|].
           change (adj_ok (c :: p :: q)) with (pair_ok c p && adj_ok (p :: q)). rewrite pair_ok_sym, Hpc, Ha. reflexivity.
        -- destruct r as [|c1 r']; [exact I|]. apply (lb_false_pair c c1 r' Sc B).
Qed.

Theorem words_okw s : Forall okw (words s).
Proof. apply words_go_okw. repeat split; reflexivity. Qed.

(* ---------- re-segmenting the joined, case-mapped words gives the same words ---------- *)
Definition no_upper (l : bytes) : bool := forallb (fun c => negb (is_upper c)) l.
Definition no_lower (l : bytes) : bool := forallb (fun c => negb (is_lower c)) l.

(* in a string without capitals (or without small letters) a zero-width boundary needs a letter|digit pair *)
Lemma lb_flat c0 r : no_upper (c0 :: r) = true \/ no_lower (c0 :: r) = true ->
  match r with c1 :: _ => is_sep c1 = true \/ pair_ok c0 c1 = true | [] => True end ->
  letter_boundary c0 r = false.
Proof.
  intros Hflat Hp. destruct r as [|c1 r']; [reflexivity|].
  unfold letter_boundary.
  assert (Hc2 : no_lower (c0 :: c1 :: r') = true -> match r' with c2 :: _ => is_lower c2 | [] => false end = false).
  { intros H. destruct r' as [|c2 r'']; [reflexivity|]. unfold no_lower in H. cbn [forallb] in H.
    apply andb_true_iff in H. destruct H as [_ H]. apply andb_true_iff in H. destruct H as [_ H].
    apply andb_true_iff in H. destruct H as [H _]. apply negb_true_iff in H. exact H. }
  assert (Hcl : (is_upper c0 = false /\ is_upper c1 = false)
                \/ (is_lower c0 = false /\ is_lower c1 = false
                    /\ match r' with c2 :: _ => is_lower c2 | [] => false end = false)).
  { destruct Hflat as [H|H].
    - left. unfold no_upper in H. cbn [forallb] in H. apply andb_true_iff in H. destruct H as [H0 H].
      apply andb_true_iff in H. destruct H as [H1 _]. apply negb_true_iff in H0, H1. auto.
    - right. pose proof (Hc2 H) as H2. unfold no_lower in H. cbn [forallb] in H. apply andb_true_iff in H.
      destruct H as [H0 H]. apply andb_true_iff in H. destruct H as [H1 _]. apply negb_true_iff in H0, H1. auto. }
  clear Hflat Hc2.
  assert (Hpair : (is_letter c0 && is_digit c1 = false) /\ (is_digit c0 && is_letter c1 = false)).
  { destruct Hp as [Hs|Hp].
    - destruct (class_cases c1) as [K|[K|[K|K]]]; repeat match goal with H : _ /\ _ |- _ => destruct H end;
        try congruence. unfold is_letter.
      repeat match goal with E : _ = false |- _ => rewrite E end. rewrite !andb_false_r. auto.
    - unfold pair_ok in Hp. apply andb_true_iff in Hp. destruct Hp as [P1 P2]. apply negb_true_iff in P1, P2. auto. }
  destruct Hpair as [P1 P2]. unfold is_letter in P1, P2.
  destruct Hcl as [[U0 U1]|[L0 [L1 L2]]].
  - rewrite U0, U1 in *. rewrite orb_false_r in P1, P2. rewrite P1, P2. rewrite !andb_false_r. reflexivity.
  - rewrite L0, L1, L2 in *. cbn [orb] in P1, P2. rewrite P1, P2. rewrite !andb_false_r. reflexivity.
Qed.

Fixpoint adj_all (w : bytes) : Prop :=
  match w with
  | c0 :: ((c1 :: _) as r) => pair_ok c0 c1 = true /\ adj_all r
  | _ => True
  end.

Lemma adj_ok_all w : adj_ok w = true -> adj_all w.
Proof.
  induction w as [|c0 w IH]; [intros _; exact I|]. destruct w as [|c1 w]; [intros _; exact I|].
  change (adj_ok (c0 :: c1 :: w)) with (pair_ok c0 c1 && adj_ok (c1 :: w)). intros H.
  apply andb_true_iff in H. destruct H as [H1 H2]. split; [exact H1 | apply IH; exact H2].
Qed.

(* a clean word followed by the end or by a separator comes out as one word *)
Lemma words_go_clean w : forall tail cur,
  no_sep w = true -> adj_all w ->
  (no_upper (w ++ tail) = true \/ no_lower (w ++ tail) = true) ->
  (tail = [] \/ exists d rest, tail = d :: rest /\ is_sep d = true) ->
  words_go (w ++ tail) cur =
  push_word (rev w ++ cur) (match tail with [] => [] | _ :: rest => words_go rest [] end).
Proof.
  induction w as [|c w IH]; intros tail cur Hs Ha Hflat Ht.
  - cbn [app rev]. destruct Ht as [->|[d [rest [-> Hd]]]]; [reflexivity|].
    cbn [words_go]. rewrite Hd. reflexivity.
  - cbn [app words_go]. unfold no_sep in Hs. cbn [forallb] in Hs. apply andb_true_iff in Hs. destruct Hs as [Hc Hs].
    apply negb_true_iff in Hc. rewrite Hc.
    assert (B : letter_boundary c (w ++ tail) = false).
    { apply lb_flat; [exact Hflat|].
      destruct w as [|c1 w'].
      - cbn [app]. destruct Ht as [->|[d [rest [-> Hd]]]]; [exact I | left; exact Hd].
      - cbn [app]. right. apply Ha. }
    rewrite B.
    assert (Hflat' : no_upper (w ++ tail) = true \/ no_lower (w ++ tail) = true).
    { destruct Hflat as [H|H]; [left|right]; unfold no_upper, no_lower in *; cbn [app forallb] in H;
        apply andb_true_iff in H; apply H. }
    assert (Ha' : adj_all w) by (destruct w as [|c1 w']; [exact I | apply Ha]).
    rewrite (IH tail (c :: cur) Hs Ha' Hflat' Ht). cbn [rev]. rewrite <- app_assoc. reflexivity.
Qed.

Definition flat_words (ws : list bytes) : Prop :=
  Forall (fun w => w <> [] /\ no_sep w = true /\ adj_all w) ws
  /\ (Forall (fun w => no_upper w = true) ws \/ Forall (fun w => no_lower w = true) ws).

Lemma forallb_join (f : N -> bool) d ws : forallb f d = true -> Forall (fun w => forallb f w = true) ws ->
  forallb f (join_with d ws) = true.
Proof.
  intros Hd. induction 1 as [|w ws Hw _ IH]; [reflexivity|].
  destruct ws as [|w2 ws]; [exact Hw|].
  change (join_with d (w :: w2 :: ws)) with (w ++ d ++ join_with d (w2 :: ws)).
  rewrite !forallb_app, Hw, Hd, IH. reflexivity.
Qed.

Lemma words_join d ws : is_sep d = true -> is_upper d = false -> is_lower d = false -> flat_words ws ->
  words (join_with [d] ws) = ws.
Proof.
  intros Hd Hdu Hdl [Hws Hflat]. unfold words.
  induction Hws as [|w ws [Hne [Hs Ha]] Hws IH]; [reflexivity|].
  assert (Hflat' : Forall (fun w => no_upper w = true) ws \/ Forall (fun w => no_lower w = true) ws).
  { destruct Hflat as [H|H]; [left|right]; inversion H; assumption. }
  destruct ws as [|w2 ws].
  - cbn [join_with]. rewrite <- (app_nil_r w) at 1.
    rewrite (words_go_clean w [] [] Hs Ha); [|rewrite app_nil_r; destruct Hflat as [H|H]; [left|right]; inversion H; assumption | left; reflexivity].
    rewrite app_nil_r. destruct (rev w) eqn:E; [apply (f_equal (@rev N)) in E; rewrite rev_involutive in E; contradiction|].
    cbn [push_word]. rewrite <- E, rev_involutive. reflexivity.
  - change (join_with [d] (w :: w2 :: ws)) with (w ++ d :: join_with [d] (w2 :: ws)).
    rewrite (words_go_clean w (d :: join_with [d] (w2 :: ws)) [] Hs Ha).
    + rewrite app_nil_r. destruct (rev w) eqn:E; [apply (f_equal (@rev N)) in E; rewrite rev_involutive in E; contradiction|].
      cbn [push_word]. rewrite <- E, rev_involutive. f_equal. apply IH. exact Hflat'.
    + destruct Hflat as [H|H]; [left|right]; unfold no_upper, no_lower in *; rewrite forallb_app; cbn [forallb];
        inversion H as [|? ? Hw Hrest]; subst; rewrite Hw; cbn [andb].
      * rewrite Hdu. cbn [negb andb]. apply (forallb_join (fun c => negb (is_upper c)) [d]); [cbn; rewrite Hdu; reflexivity | exact Hrest].
      * rewrite Hdl. cbn [negb andb]. apply (forallb_join (fun c => negb (is_lower c)) [d]); [cbn; rewrite Hdl; reflexivity | exact Hrest].
    + right. eexists; eexists; split; [reflexivity | exact Hd].
Qed.

(* ---------- mapping the words to one case keeps them clean ---------- *)
Lemma pair_ok_map (f : N -> N) a b :
  (forall c, is_letter (f c) = is_letter c /\ is_digit (f c) = is_digit c) -> pair_ok (f a) (f b) = pair_ok a b.
Proof. intros H. unfold pair_ok. destruct (H a) as [-> ->]. destruct (H b) as [-> ->]. reflexivity. Qed.

Lemma lower_letter_digit c : is_letter (to_lower c) = is_letter c /\ is_digit (to_lower c) = is_digit c.
Proof.
  destruct (lower_classes c) as [H1 [H2 [H3 _]]]. split; [|exact H3]. unfold is_letter at 1. rewrite H1, H2.
  apply orb_false_r.
Qed.

Lemma upper_letter_digit c : is_letter (to_upper c) = is_letter c /\ is_digit (to_upper c) = is_digit c.
Proof.
  destruct (upper_classes c) as [H1 [H2 [H3 _]]]. split; [|exact H3]. unfold is_letter at 1. rewrite H1, H2.
  reflexivity.
Qed.

Lemma adj_all_map (f : N -> N) w :
  (forall c, is_letter (f c) = is_letter c /\ is_digit (f c) = is_digit c) -> adj_all w -> adj_all (map f w).
Proof.
  intros Hf. induction w as [|c0 w IH]; [intros _; exact I|]. destruct w as [|c1 w]; [intros _; exact I|].
  intros [H1 H2]. cbn [map]. split; [rewrite pair_ok_map by exact Hf; exact H1 | apply IH; exact H2].
Qed.

Lemma forallb_map' {A B} (g : B -> bool) (f : A -> B) l : forallb g (map f l) = forallb (fun x => g (f x)) l.
Proof. induction l as [|x l IH]; [reflexivity|]. cbn [map forallb]. rewrite IH. reflexivity. Qed.

Lemma forallb_ext' {A} (f g : A -> bool) l : (forall x, f x = g x) -> forallb f l = forallb g l.
Proof. intros H. induction l as [|x l IH]; [reflexivity|]. cbn [forallb]. rewrite H, IH. reflexivity. Qed.

Lemma flat_words_lower ws : Forall okw ws -> flat_words (map (map to_lower) ws).
Proof.
  intros H. split.
  - apply Forall_map. eapply Forall_impl; [|exact H]. cbn beta. intros w [Hne [Hs Ha]]. repeat split.
    + destruct w; [contradiction | discriminate].
    + unfold no_sep in *. rewrite forallb_map'. rewrite <- Hs. apply forallb_ext'.
      intros c. destruct (lower_classes c) as [_ [_ [_ ->]]]. reflexivity.
    + apply adj_all_map; [exact lower_letter_digit | apply adj_ok_all; exact Ha].
  - left. apply Forall_map. apply Forall_forall. intros w _. unfold no_upper. rewrite forallb_map'.
    apply forallb_forall. intros c _. destruct (lower_classes c) as [_ [-> _]]. reflexivity.
Qed.

Lemma flat_words_upper ws : Forall okw ws -> flat_words (map (map to_upper) ws).
Proof.
  intros H. split.
  - apply Forall_map. eapply Forall_impl; [|exact H]. cbn beta. intros w [Hne [Hs Ha]]. repeat split.
    + destruct w; [contradiction | discriminate].
    + unfold no_sep in *. rewrite forallb_map'. rewrite <- Hs. apply forallb_ext'.
      intros c. destruct (upper_classes c) as [_ [_ [_ ->]]]. reflexivity.
    + apply adj_all_map; [exact upper_letter_digit | apply adj_ok_all; exact Ha].
  - right. apply Forall_map. apply Forall_forall. intros w _. unfold no_lower. rewrite forallb_map'.
    apply forallb_forall. intros c _. destruct (upper_classes c) as [_ [-> _]]. reflexivity.
Qed.

Lemma to_lower_idem c : to_lower (to_lower c) = to_lower c.
Proof. unfold to_lower at 1. destruct (lower_classes c) as [_ [-> _]]. reflexivity. Qed.
Lemma to_upper_idem c : to_upper (to_upper c) = to_upper c.
Proof. unfold to_upper at 1. destruct (upper_classes c) as [_ [-> _]]. reflexivity. Qed.

Lemma map_map_idem (f : N -> N) (ws : list bytes) : (forall c, f (f c) = f c) ->
  map (map f) (map (map f) ws) = map (map f) ws.
Proof.
  intros H. rewrite map_map. apply map_ext. intros w. rewrite map_map. apply map_ext. exact H.
Qed.

Theorem lowercase_convert_idem d s : is_sep d = true ->
  convert PLowercase [d] (convert PLowercase [d] s) = convert PLowercase [d] s.
Proof.
  intros Hd. unfold convert at 1. cbn [mutate].
  assert (Hcl : is_upper d = false /\ is_lower d = false).
  { destruct (class_cases d) as [K|[K|[K|K]]]; repeat match goal with H : _ /\ _ |- _ => destruct H end; try congruence; auto. }
  unfold convert. cbn [mutate]. change (map (mutate_word WLower)) with (map (map to_lower)).
  rewrite (words_join d _ Hd (proj1 Hcl) (proj2 Hcl) (flat_words_lower _ (words_okw s))).
  rewrite map_map_idem by exact to_lower_idem. reflexivity.
Qed.

Theorem uppercase_convert_idem d s : is_sep d = true ->
  convert PUppercase [d] (convert PUppercase [d] s) = convert PUppercase [d] s.
Proof.
  intros Hd.
  assert (Hcl : is_upper d = false /\ is_lower d = false).
  { destruct (class_cases d) as [K|[K|[K|K]]]; repeat match goal with H : _ /\ _ |- _ => destruct H end; try congruence; auto. }
  unfold convert. cbn [mutate]. change (map (mutate_word WUpper)) with (map (map to_upper)).
  rewrite (words_join d _ Hd (proj1 Hcl) (proj2 Hcl) (flat_words_upper _ (words_okw s))).
  rewrite map_map_idem by exact to_upper_idem. reflexivity.
Qed.

Theorem snakecase_idem s : snakecase (snakecase s) = snakecase s.
Proof. apply lowercase_convert_idem. reflexivity. Qed.
Theorem kebabcase_idem s : kebabcase (kebabcase s) = kebabcase s.
Proof. apply lowercase_convert_idem. reflexivity. Qed.
Theorem screamingsnakecase_idem s : screamingsnakecase (screamingsnakecase s) = screamingsnakecase s.
Proof. apply uppercase_convert_idem. reflexivity. Qed.

(* camelcase("x_a_b") = "xAB", camelcase("xAB") = "xAb";  pascalcase("a_b") = "AB", pascalcase("AB") = "Ab" *)
Theorem camel_pascal_not_idem :
  (exists s, forallb printable s = true /\ camelcase (camelcase s) <> camelcase s)
  /\ (exists s, forallb printable s = true /\ pascalcase (pascalcase s) <> pascalcase s).
Proof.
  split; [exists [120; 95; 97; 95; 98] | exists [97; 95; 98]]; vm_compute; split; try reflexivity; discriminate.
Qed.
