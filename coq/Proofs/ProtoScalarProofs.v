(* One value of a scalar kind through the wire: encoder -> wire value -> decoder, single records and packed
   payloads (Model/Proto.v). *)
From Coq Require Import List NArith ZArith Znumtheory Bool Arith Lia.
From Coq Require Import Floats.SpecFloat.
From VRL Require Import Base.Bytes Base.Lit Model.CodecUtf8 Model.Proto Proofs.ProtoWireProofs.
Import ListNotations.

Local Open Scope Z_scope.

Definition len_ok (b : bytes) : Prop := (N.of_nat (length b) < 2 ^ 64)%N.

(* a value of a non-message kind, in the range of the kind *)
Definition wt_plain (k : skind) (v : pval) : Prop :=
  match k, v with
  | (KInt32 | KSint32 | KSfixed32), PInt z => - 2 ^ 31 <= z < 2 ^ 31
  | (KInt64 | KSint64 | KSfixed64), PInt z => - 2 ^ 63 <= z < 2 ^ 63
  | (KUint32 | KFixed32), PInt z => 0 <= z < 2 ^ 32
  | (KUint64 | KFixed64), PInt z => 0 <= z < 2 ^ 64
  | KDouble, PF64 f => f64_of_bits (f64_to_bits f) = f /\ 0 <= f64_to_bits f < 2 ^ 64
  | KFloat, PF32 f => f32_of_bits (f32_to_bits f) = f /\ 0 <= f32_to_bits f < 2 ^ 32
  | KBool, PBool _ => True
  | KString, PStr s => valid_utf8 s = true /\ len_ok s
  | KBytes, PBytes s => len_ok s
  | KEnum _ _, PEnum z => - 2 ^ 31 <= z < 2 ^ 31
  | _, _ => False
  end.

Definition is_msg_kind (k : skind) : bool := match k with KMsg _ => true | _ => false end.

(* ---------- integer readings ---------- *)

Lemma wrap_s_id bits z : 0 < bits -> - 2 ^ (bits - 1) <= z < 2 ^ (bits - 1) -> wrap_s bits z = z.
Proof.
  intros Hb Hz. unfold wrap_s.
  assert (Hp : 2 ^ bits = 2 * 2 ^ (bits - 1)).
  { replace bits with (1 + (bits - 1)) at 1 by lia. rewrite Z.pow_add_r by lia. reflexivity. }
  assert (Hpos : 0 < 2 ^ (bits - 1)) by (apply Z.pow_pos_nonneg; lia).
  destruct (Z.ltb_spec (z mod 2 ^ bits) (2 ^ (bits - 1))) as [L|G].
  - destruct (Z.neg_nonneg_cases z) as [Hneg|Hnn].
    + exfalso. replace z with ((z + 2 ^ bits) + (-1) * 2 ^ bits) in L by lia.
      rewrite Z.mod_add in L by lia. rewrite Z.mod_small in L by lia. lia.
    + apply Z.mod_small. lia.
  - destruct (Z.neg_nonneg_cases z) as [Hneg|Hnn].
    + replace z with ((z + 2 ^ bits) + (-1) * 2 ^ bits) at 1 by lia.
      rewrite Z.mod_add by lia. rewrite Z.mod_small by lia. lia.
    + exfalso. rewrite Z.mod_small in G by lia. lia.
Qed.

Lemma wrap_s_mod64 bits z : 0 < bits <= 64 -> wrap_s bits (z mod two64) = wrap_s bits z.
Proof.
  intros Hb. unfold wrap_s, two64. change 18446744073709551616 with (2 ^ 64).
  assert (Hd : (2 ^ bits | 2 ^ 64)).
  { exists (2 ^ (64 - bits)). rewrite <- Z.pow_add_r by lia. f_equal. lia. }
  rewrite <- (Zmod_div_mod (2 ^ bits) (2 ^ 64) z); [reflexivity | apply Z.pow_pos_nonneg; lia | reflexivity | exact Hd].
Qed.

Lemma to_u64_lt z : (to_u64 z < 2 ^ 64)%N.
Proof.
  unfold to_u64, two64. pose proof (Z.mod_pos_bound z 18446744073709551616 ltac:(lia)) as H.
  change (2 ^ 64)%N with 18446744073709551616%N. lia.
Qed.

Lemma to_u64_of z : Z.of_N (to_u64 z) = z mod two64.
Proof. unfold to_u64, two64. pose proof (Z.mod_pos_bound z 18446744073709551616 ltac:(lia)). lia. Qed.

Lemma signed_through_u64 bits z :
  0 < bits <= 64 -> - 2 ^ (bits - 1) <= z < 2 ^ (bits - 1) -> wrap_s bits (Z.of_N (to_u64 z)) = z.
Proof. intros Hb Hz. rewrite to_u64_of, wrap_s_mod64 by lia. apply wrap_s_id; lia. Qed.

Lemma wrap_u_id bits z : 0 <= z < 2 ^ bits -> wrap_u bits z = z.
Proof. intros H. unfold wrap_u. apply Z.mod_small. exact H. Qed.

Lemma zigzag_lt64 z : - 2 ^ 63 <= z < 2 ^ 63 -> (zigzag z < 2 ^ 64)%N.
Proof. intros H. exact (zigzag_bound 64 z ltac:(lia) H). Qed.

Lemma zigzag_lt32 z : - 2 ^ 31 <= z < 2 ^ 31 -> (zigzag z < 2 ^ 32)%N.
Proof. intros H. exact (zigzag_bound 32 z ltac:(lia) H). Qed.

Lemma le4 v : (v < 2 ^ 32)%N -> le_val (le_bytes 4 v) = v.
Proof. intros H. apply (le_roundtrip 4). exact H. Qed.
Lemma le8 v : (v < 2 ^ 64)%N -> le_val (le_bytes 8 v) = v.
Proof. intros H. apply (le_roundtrip 8). exact H. Qed.

Lemma zn_lt (z : Z) (b : N) : 0 <= z < Z.of_N b -> (Z.to_N z < b)%N.
Proof. lia. Qed.

(* ---------- one value ---------- *)

Section Plain.
  Variable P : pool.
  Variable em : msgdesc -> dmsg -> bytes.

  Lemma plain_roundtrip k v :
    is_msg_kind k = false -> wt_plain k v ->
    exists w, enc_scalar P em k v = Some w /\ wf_wval w /\ dec_plain k w = POk v
              /\ (is_packable k = true -> wire_type w = packed_wt k /\ enc_packed_elem k v = ser_wval w).
  Proof.
    intros Hk Hw.
    destruct k; try discriminate; destruct v; cbn [wt_plain] in Hw; try contradiction;
      cbn [enc_scalar dec_plain enc_packed_elem is_packable packed_wt];
      eexists; (split; [reflexivity|]); cbn [wf_wval wire_type ser_wval dec_plain expect_varint expect_f32 expect_f64 expect_len pbind].
    - (* int32 *) split; [apply to_u64_lt|]. split; [|intros _; split; reflexivity].
      rewrite signed_through_u64 by lia. reflexivity.
    - (* int64 *) split; [apply to_u64_lt|]. split; [|intros _; split; reflexivity].
      rewrite signed_through_u64 by lia. reflexivity.
    - (* uint32 *) split; [apply zn_lt; cbn; lia|]. split; [|intros _; split; reflexivity].
      rewrite Z2N.id by lia. rewrite wrap_u_id by lia. reflexivity.
    - (* uint64 *) split; [apply zn_lt; cbn; lia|]. split; [|intros _; split; reflexivity].
      rewrite Z2N.id by lia. reflexivity.
    - (* sint32 *) pose proof (zigzag_lt32 z Hw) as Hz.
      split; [change (2 ^ 64)%N with (2 ^ 32 * 2 ^ 32)%N; nia|]. split; [|intros _; split; reflexivity].
      change 4294967296%N with (2 ^ 32)%N. rewrite N.mod_small by exact Hz. rewrite zigzag_roundtrip. reflexivity.
    - (* sint64 *) split; [apply zigzag_lt64; exact Hw|]. split; [|intros _; split; reflexivity].
      rewrite zigzag_roundtrip. reflexivity.
    - (* fixed32 *) rewrite wrap_u_id by lia. split; [apply le_bytes_length|]. split; [|intros _; split; reflexivity].
      rewrite le4 by (apply zn_lt; cbn; lia). rewrite Z2N.id by lia. reflexivity.
    - (* fixed64 *) rewrite wrap_u_id by lia. split; [apply le_bytes_length|]. split; [|intros _; split; reflexivity].
      rewrite le8 by (apply zn_lt; cbn; lia). rewrite Z2N.id by lia. reflexivity.
    - (* sfixed32 *) split; [apply le_bytes_length|]. split; [|intros _; split; reflexivity].
      assert (Hm : 0 <= wrap_u 32 z < 2 ^ 32) by (unfold wrap_u; apply Z.mod_pos_bound; lia).
      rewrite le4 by (apply zn_lt; cbn; lia). rewrite Z2N.id by lia.
      unfold wrap_u. replace (wrap_s 32 (z mod 2 ^ 32)) with (wrap_s 32 z).
      + rewrite wrap_s_id by lia. reflexivity.
      + unfold wrap_s. rewrite Z.mod_mod by lia. reflexivity.
    - (* sfixed64 *) split; [apply le_bytes_length|]. split; [|intros _; split; reflexivity].
      assert (Hm : 0 <= wrap_u 64 z < 2 ^ 64) by (unfold wrap_u; apply Z.mod_pos_bound; lia).
      rewrite le8 by (apply zn_lt; cbn; lia). rewrite Z2N.id by lia.
      unfold wrap_u. replace (wrap_s 64 (z mod 2 ^ 64)) with (wrap_s 64 z).
      + rewrite wrap_s_id by lia. reflexivity.
      + unfold wrap_s. rewrite Z.mod_mod by lia. reflexivity.
    - (* double *) destruct Hw as [Hc Hb]. split; [apply le_bytes_length|]. split; [|intros _; split; reflexivity].
      rewrite le8 by (apply zn_lt; cbn; lia). rewrite Z2N.id by lia. rewrite Hc. reflexivity.
    - (* float *) destruct Hw as [Hc Hb]. split; [apply le_bytes_length|]. split; [|intros _; split; reflexivity].
      rewrite le4 by (apply zn_lt; cbn; lia). rewrite Z2N.id by lia. rewrite Hc. reflexivity.
    - (* bool *) split; [destruct b; cbn; lia|]. split; [|intros _; split; reflexivity].
      destruct b; reflexivity.
    - (* string *) destruct Hw as [Hu Hl]. split; [exact Hl|]. split; [|discriminate]. rewrite Hu. reflexivity.
    - (* bytes *) split; [exact Hw|]. split; [reflexivity | discriminate].
    - (* enum *) split; [apply to_u64_lt|]. split; [|intros _; split; reflexivity].
      rewrite signed_through_u64 by lia. reflexivity.
  Qed.
End Plain.

(* ---------- packed payloads ---------- *)

Lemma ser_wval_nonempty w : wire_type w <> 2%N -> wf_wval w -> ser_wval w <> [].
Proof.
  destruct w as [n|b|b|b]; cbn [ser_wval wire_type wf_wval]; intros Hn Hw.
  - pose proof (encode_varint_length n). destruct (encode_varint n); [cbn in *; lia | discriminate].
  - destruct b; [cbn in Hw; discriminate Hw | discriminate].
  - congruence.
  - destruct b; [cbn in Hw; discriminate Hw | discriminate].
Qed.

Lemma packed_wt_not_len k : packed_wt k <> 2%N.
Proof. destruct k; cbn; discriminate. Qed.

Lemma packed_roundtrip (P : pool) (em : msgdesc -> dmsg -> bytes) k : is_packable k = true ->
  forall l fuel, Forall (wt_plain k) l ->
  (length (concat (map (enc_packed_elem k) l)) <= fuel)%nat ->
  dec_packed_f fuel k (concat (map (enc_packed_elem k) l)) = POk l.
Proof.
  intros Hp. assert (Hk : is_msg_kind k = false) by (destruct k; try reflexivity; discriminate).
  induction l as [|x l IH]; intros fuel Hwt Hlen.
  - destruct fuel; reflexivity.
  - inversion Hwt as [|? ? Hx Hl]; subst.
    destruct (plain_roundtrip P em k x Hk Hx) as (w & He & Hw & Hd & Hpk).
    destruct (Hpk Hp) as [Hwt' Hser].
    cbn [map concat] in *. rewrite Hser in *.
    assert (Hne : ser_wval w <> []) by (apply ser_wval_nonempty; [rewrite Hwt'; apply packed_wt_not_len | exact Hw]).
    destruct fuel as [|f].
    { rewrite app_length in Hlen. destruct (ser_wval w); [congruence | cbn in Hlen; lia]. }
    cbn [dec_packed_f].
    destruct (ser_wval w ++ concat (map (enc_packed_elem k) l)) as [|y t] eqn:Ey.
    { destruct (ser_wval w); [congruence | discriminate]. }
    rewrite <- Ey. rewrite <- Hwt'. rewrite wval_roundtrip by exact Hw. cbn [pbind]. rewrite Hd. cbn [pbind].
    rewrite IH; [reflexivity | exact Hl |].
    rewrite <- Ey in Hlen. rewrite app_length in Hlen.
    assert (1 <= length (ser_wval w))%nat by (destruct (ser_wval w); [congruence | cbn; lia]). lia.
Qed.
