(* Proofs about Model/IntText.v: format_radix produces, for every radix 2..36, a digit string whose value is
   the number (fuel 64 always suffices, i64::MIN included), and from_str_radix reads it back, range checks included. *)
From Coq Require Import List NArith ZArith Bool Lia.
From VRL Require Import Base.Bytes Base.Value Model.ConvRes Model.IntText.
Import ListNotations.
Local Open Scope Z_scope.

(* ---------- digits ---------- *)

Lemma digit_char_val m radix :
  0 <= m < radix -> radix <= 36 -> to_digit radix (digit_char m) = Some m.
Proof.
  intros Hm Hr. unfold to_digit, digit_val, digit_char.
  destruct (m <? 10) eqn:E.
  - apply Z.ltb_lt in E. rewrite Z2N.id by lia.
    replace ((48 <=? 48 + m) && (48 + m <=? 57)) with true
      by (symmetry; apply andb_true_iff; split; apply Z.leb_le; lia).
    replace (48 + m - 48) with m by lia.
    replace (m <? radix) with true by (symmetry; apply Z.ltb_lt; lia). reflexivity.
  - apply Z.ltb_ge in E. rewrite Z2N.id by lia.
    replace ((48 <=? 87 + m) && (87 + m <=? 57)) with false
      by (symmetry; apply andb_false_iff; right; apply Z.leb_gt; lia).
    replace ((97 <=? 87 + m) && (87 + m <=? 122)) with true
      by (symmetry; apply andb_true_iff; split; apply Z.leb_le; lia).
    replace (87 + m - 87) with m by lia.
    replace (m <? radix) with true by (symmetry; apply Z.ltb_lt; lia). reflexivity.
Qed.

Lemma to_digit_range radix c d : to_digit radix c = Some d -> 0 <= d < radix.
Proof.
  unfold to_digit, digit_val. intros H.
  destruct ((48 <=? Z.of_N c) && (Z.of_N c <=? 57)) eqn:E1.
  - apply andb_true_iff in E1. destruct E1 as [A B]. apply Z.leb_le in A. apply Z.leb_le in B.
    destruct (Z.of_N c - 48 <? radix) eqn:L; inversion H; subst. apply Z.ltb_lt in L. lia.
  - destruct ((97 <=? Z.of_N c) && (Z.of_N c <=? 122)) eqn:E2.
    + apply andb_true_iff in E2. destruct E2 as [A B]. apply Z.leb_le in A. apply Z.leb_le in B.
      destruct (Z.of_N c - 87 <? radix) eqn:L; inversion H; subst. apply Z.ltb_lt in L. lia.
    + destruct ((65 <=? Z.of_N c) && (Z.of_N c <=? 90)) eqn:E3; [|discriminate].
      apply andb_true_iff in E3. destruct E3 as [A B]. apply Z.leb_le in A. apply Z.leb_le in B.
      destruct (Z.of_N c - 55 <? radix) eqn:L; inversion H; subst. apply Z.ltb_lt in L. lia.
Qed.

Lemma to_digit_not_sign radix c d : to_digit radix c = Some d -> c <> 43%N /\ c <> 45%N.
Proof. intros H; split; intros ->; vm_compute in H; discriminate. Qed.

(* value of a digit string without the range checks *)
Fixpoint uval (radix : Z) (s : bytes) (a : Z) : option Z :=
  match s with
  | [] => Some a
  | c :: s' => match to_digit radix c with
               | Some d => uval radix s' (a * radix + d)
               | None => None
               end
  end.

Lemma uval_app radix s1 s2 a :
  uval radix (s1 ++ s2) a = match uval radix s1 a with Some v => uval radix s2 v | None => None end.
Proof.
  revert a; induction s1 as [|c s1 IH]; intros a; cbn [app uval]; [reflexivity|].
  destruct (to_digit radix c); [apply IH | reflexivity].
Qed.

Lemma uval_ge radix s : 1 <= radix -> forall a v, 0 <= a -> uval radix s a = Some v -> a <= v.
Proof.
  intros Hr. induction s as [|c s IH]; intros a v Ha H; cbn [uval] in H.
  - inversion H; lia.
  - destruct (to_digit radix c) as [d|] eqn:D; [|discriminate].
    apply to_digit_range in D. apply IH in H; nia.
Qed.

(* the digit loop of format_radix *)
Lemma digits_spec radix : 2 <= radix <= 36 ->
  forall fuel x acc, (0 < fuel)%nat -> 0 <= x < radix ^ Z.of_nat fuel ->
  exists s P, digits_loop fuel radix x acc = Some (s ++ acc) /\ s <> [] /\
              forall a, uval radix s a = Some (a * P + x).
Proof.
  intros Hr. induction fuel as [|f IH]; intros x acc Hf Hx.
  - lia.
  - cbn [digits_loop].
    assert (Hm : 0 <= x mod radix < radix) by (apply Z.mod_pos_bound; lia).
    assert (Hdm : x = radix * (x / radix) + x mod radix) by (apply Z.div_mod; lia).
    destruct (x / radix =? 0) eqn:E.
    + apply Z.eqb_eq in E. exists [digit_char (x mod radix)], radix. split; [reflexivity|]. split; [discriminate|].
      intros a. cbn [uval]. rewrite digit_char_val by lia. f_equal. lia.
    + apply Z.eqb_neq in E.
      assert (Hx' : 0 <= x / radix < radix ^ Z.of_nat f).
      { split; [apply Z.div_pos; lia|]. apply Z.div_lt_upper_bound; [lia|].
        rewrite Nat2Z.inj_succ, Z.pow_succ_r in Hx by lia. lia. }
      assert (Hf' : (0 < f)%nat).
      { destruct f; [|lia]. cbn in Hx'. assert (0 <= x / radix) by lia. lia. }
      destruct (IH (x / radix) (digit_char (x mod radix) :: acc) Hf' Hx') as (s' & P' & Hs & Hne & Hv).
      exists (s' ++ [digit_char (x mod radix)]), (P' * radix). split.
      * rewrite Hs. f_equal. rewrite <- app_assoc. reflexivity.
      * split; [destruct s'; discriminate|].
        intros a. rewrite uval_app, Hv. cbn [uval]. rewrite digit_char_val by lia. f_equal. lia.
Qed.

Lemma pow64_bound radix : 2 <= radix -> 2 ^ 64 <= radix ^ Z.of_nat 64.
Proof. intros H. change (Z.of_nat 64) with 64. apply Z.pow_le_mono_l. lia. Qed.

(* ---------- from_str_radix on such a string ---------- *)

Lemma parse_pos radix : 1 <= radix ->
  forall s a v, 0 <= a -> uval radix s a = Some v -> v <= i64_max ->
  parse_digits false radix s a = Some v.
Proof.
  intros Hr. induction s as [|c s IH]; intros a v Ha H Hv; cbn [uval parse_digits] in *.
  - assumption.
  - destruct (to_digit radix c) as [d|] eqn:D; [|discriminate].
    pose proof (to_digit_range _ _ _ D) as Hd.
    assert (Hge : a * radix + d <= v) by (eapply uval_ge; eauto; nia).
    assert (I1 : in_i64 (a * radix) = true).
    { unfold in_i64, i64_min, i64_max in *. apply andb_true_iff; split; apply Z.leb_le; nia. }
    assert (I2 : in_i64 (a * radix + d) = true).
    { unfold in_i64, i64_min, i64_max in *. apply andb_true_iff; split; apply Z.leb_le; nia. }
    rewrite I1, I2. apply IH; auto. nia.
Qed.

Lemma parse_neg radix : 1 <= radix ->
  forall s a v, 0 <= a -> uval radix s a = Some v -> i64_min <= - v ->
  parse_digits true radix s (- a) = Some (- v).
Proof.
  intros Hr. induction s as [|c s IH]; intros a v Ha H Hv; cbn [uval parse_digits] in *.
  - inversion H; reflexivity.
  - destruct (to_digit radix c) as [d|] eqn:D; [|discriminate].
    pose proof (to_digit_range _ _ _ D) as Hd.
    assert (Hge : a * radix + d <= v) by (eapply uval_ge; eauto; nia).
    assert (I1 : in_i64 (- a * radix) = true).
    { unfold in_i64, i64_min, i64_max in *. apply andb_true_iff; split; apply Z.leb_le; nia. }
    assert (I2 : in_i64 (- a * radix - d) = true).
    { unfold in_i64, i64_min, i64_max in *. apply andb_true_iff; split; apply Z.leb_le; nia. }
    rewrite I1, I2. replace (- a * radix - d) with (- (a * radix + d)) by lia. apply IH; auto. nia.
Qed.

Lemma from_str_radix_digits radix s v :
  1 <= radix -> s <> [] -> uval radix s 0 = Some v -> v <= i64_max -> from_str_radix s radix = Some v.
Proof.
  intros Hr Hne Hu Hv. destruct s as [|c tl]; [congruence|].
  assert (Hc : c <> 43%N /\ c <> 45%N).
  { cbn [uval] in Hu. destruct (to_digit radix c) eqn:D; [|discriminate]. eapply to_digit_not_sign; eauto. }
  destruct Hc as [H1 H2]. apply N.eqb_neq in H1. apply N.eqb_neq in H2.
  unfold from_str_radix. destruct tl as [|c2 tl]; rewrite ?H1, ?H2; cbn [orb]; apply parse_pos; auto; lia.
Qed.

Lemma from_str_radix_neg_digits radix s v :
  1 <= radix -> s <> [] -> uval radix s 0 = Some v -> i64_min <= - v -> from_str_radix (45%N :: s) radix = Some (- v).
Proof.
  intros Hr Hne Hu Hv. destruct s as [|c tl]; [congruence|].
  unfold from_str_radix. change ((45 =? 43)%N) with false. change ((45 =? 45)%N) with true. cbv iota.
  change 0 with (- 0). apply parse_neg; auto; lia.
Qed.

(* ---------- the pair ---------- *)

Theorem format_radix_roundtrip radix z :
  2 <= radix <= 36 -> in_i64 z = true ->
  exists s, format_radix z radix = ROk s /\ from_str_radix s radix = Some z.
Proof.
  intros Hr Hz. unfold in_i64, i64_min, i64_max in *.
  apply andb_true_iff in Hz. destruct Hz as [Hlo Hhi]. apply Z.leb_le in Hlo. apply Z.leb_le in Hhi.
  pose proof (pow64_bound radix ltac:(lia)) as Hp.
  unfold format_radix. cbv zeta.
  destruct (digits_spec radix Hr 64%nat (Z.abs z) []) as (s & P & Hs & Hne & Hv); [lia|lia|].
  rewrite app_nil_r in Hs. rewrite Hs.
  destruct (z <? 0) eqn:Neg.
  - apply Z.ltb_lt in Neg. eexists; split; [reflexivity|].
    replace (Some z) with (Some (- Z.abs z)) by (f_equal; lia).
    apply from_str_radix_neg_digits; [lia | exact Hne | rewrite Hv; f_equal; lia | unfold i64_min; lia].
  - apply Z.ltb_ge in Neg. eexists; split; [reflexivity|].
    replace (Some z) with (Some (Z.abs z)) by (f_equal; lia).
    apply from_str_radix_digits; [lia | exact Hne | rewrite Hv; f_equal; lia | unfold i64_max; lia].
Qed.

Theorem int_roundtrip base z :
  2 <= base <= 36 -> in_i64 z = true ->
  exists s, format_int (VInt z) (VInt base) = ROk (VBytes s)
            /\ parse_int (VBytes s) (Some (VInt base)) = ROk (VInt z).
Proof.
  intros Hb Hz. destruct (format_radix_roundtrip base z Hb Hz) as (s & Hf & Hp).
  exists s. unfold format_int, parse_int.
  replace ((2 <=? base) && (base <=? 36)) with true
    by (symmetry; apply andb_true_iff; split; apply Z.leb_le; lia).
  rewrite Hf. cbn [res_bind skipn]. rewrite Hp. split; reflexivity.
Qed.

(* format_radix never runs out of fuel and never panics *)
Theorem format_radix_total radix z :
  2 <= radix <= 36 -> in_i64 z = true -> exists s, format_radix z radix = ROk s.
Proof. intros A B. destruct (format_radix_roundtrip radix z A B) as (s & H & _). eauto. Qed.

(* default base on both sides: format_int(z) prints base 10, parse_int(s) picks the base from the prefix *)
Lemma decimal_first_char z s :
  in_i64 z = true -> format_radix z 10 = ROk s ->
  (z = 0 /\ s = [48%N]) \/ (z <> 0 /\ exists c tl, s = c :: tl /\ c <> 48%N).
Proof.
  intros Hz Hf. destruct (Z.eq_dec z 0) as [->|Hnz].
  - left. split; auto. vm_compute in Hf. inversion Hf; reflexivity.
  - right. split; auto.
    (* the first digit of a positive number is not '0' *)
    assert (G : forall fuel x acc r, 0 < x -> digits_loop fuel 10 x acc = Some r ->
                exists c tl, r = c :: tl /\ c <> 48%N).
    { induction fuel as [|f IH]; intros x acc r Hx H; cbn [digits_loop] in H; [discriminate|].
      destruct (x / 10 =? 0) eqn:E.
      - apply Z.eqb_eq in E. inversion H; subst. eexists; eexists; split; [reflexivity|].
        assert (x mod 10 = x) by (rewrite (Z.div_mod x 10) at 2 by lia; lia).
        assert (0 <= x mod 10 < 10) by (apply Z.mod_pos_bound; lia).
        unfold digit_char. replace (x mod 10 <? 10) with true by (symmetry; apply Z.ltb_lt; lia). lia.
      - apply Z.eqb_neq in E. eapply IH; [|exact H].
        assert (0 <= x / 10) by (apply Z.div_pos; lia). lia. }
    unfold format_radix in Hf. cbv zeta in Hf.
    destruct (digits_loop 64 10 (Z.abs z) []) as [r|] eqn:D; [|discriminate].
    destruct (z <? 0); inversion Hf; subst.
    + exists 45%N. eexists. split; [reflexivity | discriminate].
    + eapply G; [|exact D]. lia.
Qed.

Theorem int_roundtrip_default z :
  in_i64 z = true ->
  exists s, format_int_opt (VInt z) None = ROk (VBytes s) /\ parse_int (VBytes s) None = ROk (VInt z).
Proof.
  intros Hz. destruct (format_radix_roundtrip 10 z ltac:(lia) Hz) as (s & Hf & Hp).
  exists s. unfold format_int_opt, format_int. cbn [Z.leb andb]. change ((2 <=? 10) && (10 <=? 36)) with true. cbv iota.
  rewrite Hf. cbn [res_bind]. split; [reflexivity|].
  destruct (decimal_first_char z s Hz Hf) as [[-> ->]|[Hnz (c & tl & -> & Hc)]].
  - vm_compute. reflexivity.
  - unfold parse_int.
    assert (E : match c :: tl with
                | 48%N :: rest => match rest with
                                  | 98%N :: _ => ROk (2, 2%nat) | 111%N :: _ => ROk (8, 2%nat)
                                  | 120%N :: _ => ROk (16, 2%nat) | _ => ROk (8, O) end
                | _ :: _ => ROk (10, O)
                | [] => RErr
                end = ROk (10, O)).
    { destruct c as [|p]; [reflexivity|].
      do 6 (destruct p as [p|p|]; try reflexivity). congruence. }
    rewrite E. cbn [res_bind skipn]. rewrite Hp. reflexivity.
Qed.

(* the former finding (12bd79c): the minimum integer is printed and read back like every other one *)
Theorem format_int_min_roundtrips base : 2 <= base <= 36 ->
  exists s, format_int (VInt i64_min) (VInt base) = ROk (VBytes s)
            /\ parse_int (VBytes s) (Some (VInt base)) = ROk (VInt i64_min).
Proof. intros Hb. apply int_roundtrip; [exact Hb | reflexivity]. Qed.

(* ---------- further facts about the digit strings, used by the IP text proofs ---------- *)

Lemma digits_loop_length radix : forall fuel x acc r,
  digits_loop fuel radix x acc = Some r -> (length r <= fuel + length acc)%nat.
Proof.
  induction fuel as [|f IH]; intros x acc r H; cbn [digits_loop] in H; [discriminate|].
  destruct (x / radix =? 0).
  - inversion H; subst. cbn [length]. lia.
  - apply IH in H. cbn [length] in H. lia.
Qed.

(* the most significant digit of a positive number is not '0' *)
Lemma digits_first_nonzero radix : 2 <= radix <= 36 -> forall fuel x acc r,
  0 < x -> digits_loop fuel radix x acc = Some r -> exists c tl, r = c :: tl /\ c <> 48%N.
Proof.
  intros Hr. induction fuel as [|f IH]; intros x acc r Hx H; cbn [digits_loop] in H; [discriminate|].
  assert (Hm : 0 <= x mod radix < radix) by (apply Z.mod_pos_bound; lia).
  destruct (x / radix =? 0) eqn:E.
  - apply Z.eqb_eq in E. inversion H; subst. eexists; eexists; split; [reflexivity|].
    assert (x mod radix = x) by (rewrite (Z.div_mod x radix) at 2 by lia; nia).
    unfold digit_char. destruct (x mod radix <? 10); lia.
  - apply Z.eqb_neq in E. eapply IH; [|exact H].
    assert (0 <= x / radix) by (apply Z.div_pos; lia). lia.
Qed.

Lemma digits_zero radix fuel acc : 2 <= radix -> digits_loop (S fuel) radix 0 acc = Some (48%N :: acc).
Proof. intros Hr. cbn [digits_loop]. rewrite Z.div_0_l, Z.mod_0_l by lia. reflexivity. Qed.

Lemma uval_all_digits radix s : forall a v, uval radix s a = Some v -> Forall (fun c => to_digit radix c <> None) s.
Proof.
  induction s as [|c s IH]; intros a v H; [constructor|]. cbn [uval] in H.
  destruct (to_digit radix c) eqn:D; [|discriminate]. constructor; [congruence | eapply IH; eauto].
Qed.
