(* Proofs about Model/UnixTs.v: integer -> timestamp -> integer is exact in every unit; timestamp -> integer ->
   timestamp is the truncation of the timestamp to the unit (towards minus infinity), hence exact on multiples
   of the unit. *)
From Coq Require Import List NArith ZArith Bool Lia.
From VRL Require Import Base.Bytes Base.Value Model.ConvRes Model.UnixTs.
Local Open Scope Z_scope.
Ltac Zify.zify_post_hook ::= Z.div_mod_to_equations.

Lemma in_i64_iff z : in_i64 z = true <-> - 2 ^ 63 <= z <= 2 ^ 63 - 1.
Proof. unfold in_i64, i64_min, i64_max. rewrite andb_true_iff, !Z.leb_le. tauto. Qed.

Lemma secs_in_range_iff s : secs_in_range s = true <-> ts_min_secs <= s <= ts_max_secs.
Proof. unfold secs_in_range. rewrite andb_true_iff, !Z.leb_le. tauto. Qed.

Theorem from_to_unix u v t :
  in_i64 v = true -> from_unix_timestamp (VInt v) u = ROk t -> to_unix_timestamp t u = ROk (VInt v).
Proof.
  intros Hv H. apply in_i64_iff in Hv. destruct u; cbn [from_unix_timestamp] in H; unfold from_timestamp in H.
  - destruct (secs_in_range v); inversion H; subst. cbn [to_unix_timestamp]. unfold ts_secs.
    do 2 f_equal. lia.
  - destruct (secs_in_range (v / 1000)); inversion H; subst. cbn [to_unix_timestamp]. unfold ts_secs, ts_subsec.
    do 2 f_equal. lia.
  - destruct (secs_in_range (v / 1000000)); inversion H; subst. cbn [to_unix_timestamp]. unfold ts_secs, ts_subsec.
    do 2 f_equal. lia.
  - inversion H; subst. cbn [to_unix_timestamp]. unfold ts_secs, ts_subsec.
    destruct (v / 1000000000 <? 0) eqn:N.
    + apply Z.ltb_lt in N.
      replace (in_i64 ((v / 1000000000 + 1) * 1000000000)) with true by (symmetry; apply in_i64_iff; lia).
      replace ((v / 1000000000 + 1) * 1000000000 + (v mod 1000000000 - 1000000000)) with v by lia.
      replace (in_i64 v) with true by (symmetry; apply in_i64_iff; lia). reflexivity.
    + apply Z.ltb_ge in N.
      replace (in_i64 (v / 1000000000 * 1000000000)) with true by (symmetry; apply in_i64_iff; lia).
      replace (v / 1000000000 * 1000000000 + v mod 1000000000) with v by lia.
      replace (in_i64 v) with true by (symmetry; apply in_i64_iff; lia). reflexivity.
Qed.

(* to_unix_timestamp fails only for nanoseconds outside i64 *)
Theorem to_unix_nanos ns :
  to_unix_timestamp (VTs ns) Nanoseconds = if in_i64 ns then ROk (VInt ns) else RErr.
Proof.
  cbn [to_unix_timestamp]. unfold ts_secs, ts_subsec.
  destruct (ns / 1000000000 <? 0) eqn:N.
  - apply Z.ltb_lt in N.
    replace ((ns / 1000000000 + 1) * 1000000000 + (ns mod 1000000000 - 1000000000)) with ns by lia.
    destruct (in_i64 ns) eqn:I.
    + apply in_i64_iff in I.
      replace (in_i64 ((ns / 1000000000 + 1) * 1000000000)) with true by (symmetry; apply in_i64_iff; lia). reflexivity.
    + rewrite andb_false_r. reflexivity.
  - apply Z.ltb_ge in N.
    replace (ns / 1000000000 * 1000000000 + ns mod 1000000000) with ns by lia.
    destruct (in_i64 ns) eqn:I.
    + apply in_i64_iff in I.
      replace (in_i64 (ns / 1000000000 * 1000000000)) with true by (symmetry; apply in_i64_iff; lia). reflexivity.
    + rewrite andb_false_r. reflexivity.
Qed.

Theorem to_from_unix u ns :
  ts_in_range ns = true -> (u = Nanoseconds -> in_i64 ns = true) ->
  exists v, to_unix_timestamp (VTs ns) u = ROk (VInt v) /\ in_i64 v = true
            /\ from_unix_timestamp (VInt v) u = ROk (VTs (ns - ns mod unit_ns u)).
Proof.
  intros Hr Hn. unfold ts_in_range in Hr. pose proof Hr as Hr'. apply secs_in_range_iff in Hr'.
  unfold ts_min_secs, ts_max_secs in Hr'.
  destruct u.
  - eexists. split; [reflexivity|]. unfold ts_secs. split; [apply in_i64_iff; lia|].
    cbn [from_unix_timestamp unit_ns]. unfold from_timestamp. rewrite Hr. do 2 f_equal. lia.
  - eexists. split; [reflexivity|]. unfold ts_secs, ts_subsec. split; [apply in_i64_iff; lia|].
    cbn [from_unix_timestamp unit_ns]. unfold from_timestamp.
    replace ((ns / 1000000000 * 1000 + ns mod 1000000000 / 1000000) / 1000) with (ns / 1000000000) by lia.
    rewrite Hr. do 2 f_equal. lia.
  - eexists. split; [reflexivity|]. unfold ts_secs, ts_subsec. split; [apply in_i64_iff; lia|].
    cbn [from_unix_timestamp unit_ns]. unfold from_timestamp.
    replace ((ns / 1000000000 * 1000000 + ns mod 1000000000 / 1000) / 1000000) with (ns / 1000000000) by lia.
    rewrite Hr. do 2 f_equal. lia.
  - specialize (Hn eq_refl). exists ns. rewrite to_unix_nanos, Hn. split; [reflexivity|]. split; [reflexivity|].
    cbn [from_unix_timestamp unit_ns]. do 2 f_equal. rewrite Z.mod_1_r. lia.
Qed.

Corollary to_from_unix_exact u ns :
  ts_in_range ns = true -> (u = Nanoseconds -> in_i64 ns = true) -> ns mod unit_ns u = 0 ->
  exists v, to_unix_timestamp (VTs ns) u = ROk (VInt v) /\ from_unix_timestamp (VInt v) u = ROk (VTs ns).
Proof.
  intros A B C. destruct (to_from_unix u ns A B) as (v & H1 & _ & H2). exists v. split; [exact H1|].
  rewrite H2, C. do 2 f_equal. lia.
Qed.

(* the timestamp that comes back is never later than the original and less than one unit earlier *)
Lemma truncation_bounds u ns : ns - unit_ns u < ns - ns mod unit_ns u <= ns.
Proof. destruct u; cbn [unit_ns]; lia. Qed.
