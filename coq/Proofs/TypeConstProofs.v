(* C12: an expression the compiler resolves to a constant evaluates to that constant and changes
   nothing, in every run-time state whose variables hold the constants the type state records. *)
From Coq Require Import List NArith ZArith Bool Lia.
From VRL Require Import Base.Bytes Base.Value Model.ValueCrud Model.Kind Model.KindCrud Model.Expr Model.Eval
  Model.TypeInfo Proofs.ExprInd Proofs.EvalProofs Proofs.TypeInfoEqs.
Import ListNotations.

(* every variable the type state holds a constant for holds that constant *)
Definition consts_ok (G : tstate) (s : state) : Prop :=
  forall x t c, lvar (locals G) x = Some (t, Some c) -> var_get (vars s) x = Some c.

Section ConstSound.
  Variable F : fname -> list value -> option value.
  Variable binop : opcode -> value -> value -> option value.
  Variable T : fname -> list tdef -> list tdef -> tdef.
  Notation ev := (eval F binop).
  Notation rc := (resolve_constant binop).

  Definition const_sound_at (e : expr) : Prop :=
    forall G s c, consts_ok G s -> rc e G = Some c -> ev e s = (inl c, s).

  (* the list loops of resolve_constant for arrays and objects *)
  Fixpoint rc_arr (es : list expr) (acc : list value) (G : tstate) : option value :=
    match es with
    | [] => Some (VArr (rev acc))
    | e1 :: es' => match rc e1 G with Some v => rc_arr es' (v :: acc) G | None => None end
    end.
  Fixpoint rc_obj (kvs : list (bytes * expr)) (acc : obj) (G : tstate) : option value :=
    match kvs with
    | [] => Some (VObj acc)
    | (k, e1) :: kvs' => match rc e1 G with Some v => rc_obj kvs' (obj_set acc k v) G | None => None end
    end.
  Lemma rc_arr_eq es G : rc (EArr es) G = rc_arr es [] G.
  Proof.
    cbn [resolve_constant]. generalize (@nil value). induction es as [|e1 es IH]; intros acc; cbn; auto.
    destruct (rc e1 G); auto.
  Qed.
  Lemma rc_obj_eq kvs G : rc (EObj kvs) G = rc_obj kvs [] G.
  Proof.
    cbn [resolve_constant]. generalize (@nil (bytes * value)). induction kvs as [|[k e1] kvs IH]; intros acc; cbn; auto.
    destruct (rc e1 G); auto.
  Qed.

  Lemma arr_const es : Forall const_sound_at es -> forall acc G s c, consts_ok G s ->
    rc_arr es acc G = Some c -> arr_go F binop es acc s = (inl c, s).
  Proof.
    induction 1 as [|e1 es H1 _ IH]; intros acc G s c Hok Hrc; cbn in *.
    - inversion Hrc; reflexivity.
    - destruct (rc e1 G) as [v|] eqn:E; [|discriminate]. rewrite (H1 G s v Hok E). eapply IH; eauto.
  Qed.

  Lemma obj_const kvs : Forall (fun kv => const_sound_at (snd kv)) kvs -> forall acc G s c, consts_ok G s ->
    rc_obj kvs acc G = Some c -> obj_go F binop kvs acc s = (inl c, s).
  Proof.
    induction 1 as [|[k e1] kvs H1 _ IH]; intros acc G s c Hok Hrc; cbn in *.
    - inversion Hrc; reflexivity.
    - destruct (rc e1 G) as [v|] eqn:E; [|discriminate]. rewrite (H1 G s v Hok E). eapply IH; eauto.
  Qed.

  Theorem const_sound : forall e, const_sound_at e.
  Proof.
    induction e using expr_ind'; intros G s cv Hok Hrc; try (cbn in Hrc; discriminate).
    - (* literal *) cbn in *. inversion Hrc; reflexivity.
    - (* variable *)
      cbn in *. destruct (lvar (locals G) x) as [[t o]|] eqn:E; [|discriminate]. cbn in Hrc. subst o.
      rewrite (Hok x t cv E). reflexivity.
    - (* variable path *)
      cbn in *. destruct (lvar (locals G) x) as [[t [v|]]|] eqn:E; try discriminate.
      rewrite (Hok x t v E). cbn. rewrite Hrc. reflexivity.
    - (* array *) rewrite eval_arr. rewrite rc_arr_eq in Hrc. eapply arr_const; eauto.
    - (* object *) rewrite eval_obj. rewrite rc_obj_eq in Hrc. eapply obj_const; eauto.
    - (* group *) cbn in *. eapply IHe; eauto.
    - (* arithmetic on two numeric constants *)
      cbn [resolve_constant] in Hrc.
      destruct (rc e1 G) as [x|] eqn:E1; [|discriminate].
      destruct (rc e2 G) as [y|] eqn:E2; [|discriminate].
      destruct (is_number x && is_number y); [|discriminate].
      assert (plain o = true /\ binop o x y = Some cv) as [Hp Hb].
      { destruct o; try discriminate; auto. }
      rewrite (eval_plain F binop o e1 e2 s Hp), (IHe1 G s x Hok E1), (IHe2 G s y Hok E2), Hb. reflexivity.
  Qed.

  (* an expression with a constant leaves the type state as it is *)
  Definition no_effect_at (e : expr) : Prop :=
    forall G cv, rc e G = Some cv -> forall G', fst (type_info binop T e G') = G'.

  Lemma arr_no_effect es : Forall no_effect_at es -> forall G accv cv, rc_arr es accv G = Some cv ->
    forall G' acc fal, fst (ti_arr binop T es G' acc fal) = G'.
  Proof.
    induction 1 as [|e1 es H1 _ IH]; intros G accv cv Hrc G' acc fal; cbn in *; auto.
    destruct (rc e1 G) as [v|] eqn:E; [|discriminate].
    pose proof (H1 G v E G') as Hs. destruct (type_info binop T e1 G') as [s' r0]. cbn [fst] in Hs. rewrite Hs.
    match goal with |- context [if ?b then _ else _] => destruct b end; cbn [fst]; auto. eapply IH; eauto.
  Qed.

  Lemma obj_no_effect kvs : Forall (fun kv => no_effect_at (snd kv)) kvs -> forall G accv cv, rc_obj kvs accv G = Some cv ->
    forall G' acc fal ret, fst (ti_obj binop T kvs G' acc fal ret) = G'.
  Proof.
    induction 1 as [|[k e1] kvs H1 _ IH]; intros G accv cv Hrc G' acc fal ret; cbn in *; auto.
    destruct (rc e1 G) as [v|] eqn:E; [|discriminate].
    pose proof (H1 G v E G') as Hs. destruct (type_info binop T e1 G') as [s' r0]. cbn [fst] in Hs. rewrite Hs.
    match goal with |- context [if ?b then _ else _] => destruct b end; cbn [fst]; auto. eapply IH; eauto.
  Qed.

  Lemma const_no_type_effect : forall e, no_effect_at e.
  Proof.
    induction e using expr_ind'; intros G cv Hrc G'; try (cbn in Hrc; discriminate); try reflexivity.
    - rewrite rc_arr_eq in Hrc. rewrite ti_arr_eq. eapply arr_no_effect; eauto.
    - rewrite rc_obj_eq in Hrc. rewrite ti_obj_eq. eapply obj_no_effect; eauto.
    - cbn in *. eapply IHe; eauto.
    - cbn [resolve_constant] in Hrc.
      destruct (rc e1 G) as [x|] eqn:E1; [|discriminate].
      destruct (rc e2 G) as [y|] eqn:E2; [|discriminate].
      destruct (is_number x && is_number y); [|discriminate].
      cbn [type_info]. pose proof (IHe1 G x E1 G') as H1.
      destruct (type_info binop T e1 G') as [s1 l]. cbn [fst] in H1. subst s1.
      pose proof (IHe2 G y E2 G') as H2.
      destruct o; try discriminate;
        destruct (type_info binop T e2 G') as [s2 r]; cbn [fst] in H2; subst;
        repeat match goal with |- context [if ?b then _ else _] => destruct b end; reflexivity.
  Qed.
End ConstSound.

(* ---------- assigning a constant establishes the invariant for the assigned variable ---------- *)

Lemma var_get_set_same vs x v : var_get (var_set vs x v) x = Some v.
Proof. unfold var_set. cbn. rewrite bytes_eqb_refl. reflexivity. Qed.

Lemma var_get_remove_other vs x y : bytes_eqb x y = false -> var_get (var_remove vs x) y = var_get vs y.
Proof.
  intros H. induction vs as [|[z w] vs IH]; cbn; auto.
  destruct (bytes_eqb z x) eqn:Ezx.
  - apply bytes_eqb_eq in Ezx; subst z. rewrite IH. rewrite H. reflexivity.
  - cbn. destruct (bytes_eqb z y); auto.
Qed.

Lemma var_get_set_other vs x y v : bytes_eqb x y = false -> var_get (var_set vs x v) y = var_get vs y.
Proof. intros H. unfold var_set. cbn. rewrite H. apply var_get_remove_other; auto. Qed.

Lemma lvar_remove_other l x y : bytes_eqb x y = false -> lvar (lremove l x) y = lvar l y.
Proof.
  intros H. induction l as [|[z w] l IH]; cbn; auto.
  destruct (bytes_eqb z x) eqn:Ezx.
  - apply bytes_eqb_eq in Ezx; subst z. rewrite IH. rewrite H. reflexivity.
  - cbn. destruct (bytes_eqb z y); auto.
Qed.

Lemma lvar_lset l x y d : lvar (lset l x d) y = if bytes_eqb x y then Some d else lvar l y.
Proof.
  unfold lset. cbn. destruct (bytes_eqb x y) eqn:E; auto. apply lvar_remove_other; auto.
Qed.

Section AssignConst.
  Variable F : fname -> list value -> option value.
  Variable binop : opcode -> value -> value -> option value.
  Variable T : fname -> list tdef -> list tdef -> tdef.

  (* `x = e` with e a compile-time constant: x holds the constant afterwards, the constant is what the
     type state records for x, and every other recorded constant still holds *)
  Theorem assign_constant_sound x e G s c :
    consts_ok G s -> resolve_constant binop e G = Some c ->
    eval F binop (EAssign (TVar x []) e) s = (inl c, set_vars s (var_set (vars s) x c))
    /\ (exists t, lvar (locals (fst (type_info binop T (EAssign (TVar x []) e) G))) x = Some (t, Some c))
    /\ consts_ok (fst (type_info binop T (EAssign (TVar x []) e) G)) (set_vars s (var_set (vars s) x c)).
  Proof.
    intros Hok Hrc.
    pose proof (const_sound F binop e G s c Hok Hrc) as Hev.
    pose proof (const_no_type_effect binop T e G c Hrc G) as Hst.
    cbn [eval type_info]. rewrite Hev. cbn [target_insert].
    destruct (type_info binop T e G) as [G1 r] eqn:Et. cbn [fst] in Hst. subst G1.
    cbn [fst insert_type_def]. rewrite Hrc. repeat split.
    - eexists. cbn [locals]. rewrite lvar_lset, bytes_eqb_refl. reflexivity.
    - intros y t cy Hy. cbn [locals] in Hy. rewrite lvar_lset in Hy. cbn [set_vars vars].
      destruct (bytes_eqb x y) eqn:Exy.
      + apply bytes_eqb_eq in Exy; subst y. inversion Hy; subst. apply var_get_set_same.
      + rewrite var_get_set_other by auto. eapply Hok; eauto.
  Qed.
End AssignConst.
