From Coq Require Import List NArith ZArith Bool Lia.
From VRL Require Import Base.Bytes Base.Value Model.ValueCrud.
Import ListNotations.

(* ---------- objects ---------- *)

Lemma cmp_eqb a b : bytes_eqb a b = match bytes_cmp a b with Eq => true | _ => false end.
Proof.
  destruct (bytes_cmp a b) eqn:E.
  - apply bytes_cmp_eq in E. subst. apply bytes_eqb_refl.
  - apply bytes_eqb_neq. intros ->. rewrite bytes_cmp_refl in E. discriminate.
  - apply bytes_eqb_neq. intros ->. rewrite bytes_cmp_refl in E. discriminate.
Qed.

Lemma obj_get_set_same m k x : obj_get (obj_set m k x) k = Some x.
Proof.
  induction m as [|[k' v] m IH]; cbn.
  - rewrite bytes_eqb_refl. reflexivity.
  - destruct (bytes_cmp k' k) eqn:E; cbn.
    + rewrite bytes_eqb_refl. reflexivity.
    + rewrite cmp_eqb, E. exact IH.
    + rewrite bytes_eqb_refl. reflexivity.
Qed.

Lemma obj_get_set_other m k k' x : k' <> k -> obj_get (obj_set m k x) k' = obj_get m k'.
Proof.
  intros Hne. induction m as [|[k0 v] m IH]; cbn.
  - apply bytes_eqb_neq in Hne. rewrite bytes_eqb_sym, Hne. reflexivity.
  - destruct (bytes_cmp k0 k) eqn:E; cbn.
    + apply bytes_cmp_eq in E. subst k0.
      assert (H : bytes_eqb k k' = false) by (apply bytes_eqb_neq; congruence).
      rewrite H. reflexivity.
    + destruct (bytes_eqb k0 k'); auto.
    + assert (H : bytes_eqb k k' = false) by (apply bytes_eqb_neq; congruence).
      rewrite H. reflexivity.
Qed.

Lemma obj_get_remove_other m k k' : k' <> k -> obj_get (obj_remove m k) k' = obj_get m k'.
Proof.
  intros Hne. induction m as [|[k0 v] m IH]; cbn; auto.
  destruct (bytes_eqb k0 k) eqn:E; cbn.
  - apply bytes_eqb_eq in E. subst k0.
    assert (H : bytes_eqb k k' = false) by (apply bytes_eqb_neq; congruence).
    rewrite H. reflexivity.
  - destruct (bytes_eqb k0 k'); auto.
Qed.

(* ---------- arrays ---------- *)

Lemma nth_error_list_set_same {A} (l : list A) n x :
  n < length l -> nth_error (list_set l n x) n = Some x.
Proof.
  revert n; induction l as [|y l IH]; intros [|n] H; cbn in *; try lia; auto.
  apply IH. lia.
Qed.

Lemma nth_error_list_set_other {A} (l : list A) n m x :
  n <> m -> nth_error (list_set l n x) m = nth_error l m.
Proof.
  revert n m; induction l as [|y l IH]; intros [|n] [|m] H; cbn in *; try congruence; auto.
Qed.

Lemma length_list_set {A} (l : list A) n x : length (list_set l n x) = length l.
Proof. revert n; induction l as [|y l IH]; intros [|n]; cbn; auto. Qed.

Lemma nth_error_repeat {A} (x : A) n k : k < n -> nth_error (repeat x n) k = Some x.
Proof.
  revert k; induction n as [|n IH]; intros [|k] H; cbn; try lia; auto. apply IH; lia.
Qed.

Lemma length_arr_set a i x :
  length (arr_set a i x) =
  if (0 <=? i)%Z then Nat.max (length a) (S (Z.to_nat i))
  else Nat.max (length a) (Z.to_nat (- i)).
Proof.
  unfold arr_set. destruct (0 <=? i)%Z eqn:Hi.
  - destruct (Nat.leb_spec (length a) (Z.to_nat i)).
    + rewrite !app_length, repeat_length. cbn. lia.
    + rewrite length_list_set. lia.
  - destruct (Nat.ltb_spec (length a) (Z.to_nat (- i))).
    + cbn. rewrite app_length, repeat_length. lia.
    + rewrite length_list_set. lia.
Qed.

Lemma arr_get_set_same a i x : arr_get (arr_set a i x) i = Some x.
Proof.
  unfold arr_get. rewrite length_arr_set. unfold arr_index, arr_set.
  destruct (0 <=? i)%Z eqn:Hi.
  - destruct (Nat.leb_spec (length a) (Z.to_nat i)).
    + rewrite app_assoc, nth_error_app2; rewrite app_length, repeat_length.
      * replace (Z.to_nat i - (length a + (Z.to_nat i - length a))) with 0 by lia. reflexivity.
      * lia.
    + apply nth_error_list_set_same. lia.
  - apply Z.leb_gt in Hi.
    destruct (Nat.ltb_spec (length a) (Z.to_nat (- i))).
    + replace (Z.of_nat (Nat.max (length a) (Z.to_nat (- i))) + i)%Z with 0%Z by lia.
      reflexivity.
    + replace (Nat.max (length a) (Z.to_nat (- i))) with (length a) by lia.
      destruct (0 <=? Z.of_nat (length a) + i)%Z eqn:Hj; [|apply Z.leb_gt in Hj; lia].
      replace (Z.to_nat (Z.of_nat (length a) + i)) with (length a - Z.to_nat (- i)) by lia.
      apply nth_error_list_set_same. lia.
Qed.

(* ---------- law 1: get after insert ---------- *)

Lemma get_ins p : forall slot x, get (ins slot p x) p = Some x.
Proof.
  induction p as [|[k|i] p IH]; intros slot x; cbn.
  - reflexivity.
  - rewrite obj_get_set_same. apply IH.
  - rewrite arr_get_set_same. apply IH.
Qed.

Theorem get_insert v p x : get (insert v p x) p = Some x.
Proof. apply get_ins. Qed.

(* ---------- insert returns the previous occupant = what get returned ---------- *)

Lemma arr_get_nil i : arr_get [] i = None.
Proof. unfold arr_get. destruct (arr_index _ i) as [[|n]|]; reflexivity. Qed.

Lemma ins_prev_none p : ins_prev None p = None.
Proof.
  induction p as [|[k|i] p IH]; [reflexivity|exact IH|].
  cbn. rewrite arr_get_nil. exact IH.
Qed.

Lemma ins_prev_get p : forall v, ins_prev (Some v) p = get v p.
Proof.
  induction p as [|[k|i] p IH]; intros v; cbn; auto.
  - destruct v as [?|?|?|?|?|?|m|a|]; cbn; try apply ins_prev_none.
    destruct (obj_get m k) eqn:E; auto. apply ins_prev_none.
  - destruct v as [?|?|?|?|?|?|m|a|]; cbn; rewrite ?arr_get_nil; try apply ins_prev_none.
    destruct (arr_get a i) eqn:E; auto. apply ins_prev_none.
Qed.

Theorem insert_prev_get v p : insert_prev v p = get v p.
Proof. apply ins_prev_get. Qed.
