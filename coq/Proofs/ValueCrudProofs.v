From Coq Require Import List NArith ZArith Bool Lia.
From VRL Require Import Base.Bytes Base.Value Model.ValueCrud.
Import ListNotations.

(* ---------- objects ---------- *)

Lemma cmp_eqb a b : bytes_eqb a b = match bytes_cmp a b with Eq => true | _ => false end.
Proof.
  destruct (bytes_cmp a b) eqn:E.
  - apply bytes_cmp_eq in E. subst. apply bytes_eqb_refl.
  - apply bytes_eqb_neq. intros ->. rewrite bytes_cmp_refl in E. discriminate.
  - apply bytes_eqb_neq. intros ->. rewrite bytes_cmp_refl in E. discriminate.
Qed.

Lemma obj_get_set_same m k x : obj_get (obj_set m k x) k = Some x.
Proof.
  induction m as [|[k' v] m IH]; cbn.
  - rewrite bytes_eqb_refl. reflexivity.
  - destruct (bytes_cmp k' k) eqn:E; cbn.
    + rewrite bytes_eqb_refl. reflexivity.
    + rewrite cmp_eqb, E. exact IH.
    + rewrite bytes_eqb_refl. reflexivity.
Qed.

Lemma obj_get_set_other m k k' x : k' <> k -> obj_get (obj_set m k x) k' = obj_get m k'.
Proof.
  intros Hne. induction m as [|[k0 v] m IH]; cbn.
  - apply bytes_eqb_neq in Hne. rewrite bytes_eqb_sym, Hne. reflexivity.
  - destruct (bytes_cmp k0 k) eqn:E; cbn.
    + apply bytes_cmp_eq in E. subst k0.
      assert (H : bytes_eqb k k' = false) by (apply bytes_eqb_neq; congruence).
      rewrite H. reflexivity.
    + destruct (bytes_eqb k0 k'); auto.
    + assert (H : bytes_eqb k k' = false) by (apply bytes_eqb_neq; congruence).
      rewrite H. reflexivity.
Qed.

Lemma obj_get_remove_other m k k' : k' <> k -> obj_get (obj_remove m k) k' = obj_get m k'.
Proof.
  intros Hne. induction m as [|[k0 v] m IH]; cbn; auto.
  destruct (bytes_eqb k0 k) eqn:E; cbn.
  - apply bytes_eqb_eq in E. subst k0.
    assert (H : bytes_eqb k k' = false) by (apply bytes_eqb_neq; congruence).
    rewrite H. reflexivity.
  - destruct (bytes_eqb k0 k'); auto.
Qed.

(* ---------- arrays ---------- *)

Lemma nth_error_list_set_same {A} (l : list A) n x :
  n < length l -> nth_error (list_set l n x) n = Some x.
Proof.
  revert n; induction l as [|y l IH]; intros [|n] H; cbn in *; try lia; auto.
  apply IH. lia.
Qed.

Lemma nth_error_list_set_other {A} (l : list A) n m x :
  n <> m -> nth_error (list_set l n x) m = nth_error l m.
Proof.
  revert n m; induction l as [|y l IH]; intros [|n] [|m] H; cbn in *; try congruence; auto.
Qed.

Lemma length_list_set {A} (l : list A) n x : length (list_set l n x) = length l.
Proof. revert n; induction l as [|y l IH]; intros [|n]; cbn; auto. Qed.

Lemma nth_error_repeat {A} (x : A) n k : k < n -> nth_error (repeat x n) k = Some x.
Proof.
  revert k; induction n as [|n IH]; intros [|k] H; cbn; try lia; auto. apply IH; lia.
Qed.

Lemma length_arr_set a i x :
  length (arr_set a i x) =
  if (0 <=? i)%Z then Nat.max (length a) (S (Z.to_nat i))
  else Nat.max (length a) (Z.to_nat (- i)).
Proof.
  unfold arr_set. destruct (0 <=? i)%Z eqn:Hi.
  - destruct (Nat.leb_spec (length a) (Z.to_nat i)).
    + rewrite !app_length, repeat_length. cbn. lia.
    + rewrite length_list_set. lia.
  - destruct (Nat.ltb_spec (length a) (Z.to_nat (- i))).
    + cbn. rewrite app_length, repeat_length. lia.
    + rewrite length_list_set. lia.
Qed.

Lemma arr_get_set_same a i x : arr_get (arr_set a i x) i = Some x.
Proof.
  unfold arr_get. rewrite length_arr_set. unfold arr_index, arr_set.
  destruct (0 <=? i)%Z eqn:Hi.
  - destruct (Nat.leb_spec (length a) (Z.to_nat i)).
    + rewrite app_assoc, nth_error_app2; rewrite app_length, repeat_length.
      * replace (Z.to_nat i - (length a + (Z.to_nat i - length a))) with 0 by lia. reflexivity.
      * lia.
    + apply nth_error_list_set_same. lia.
  - apply Z.leb_gt in Hi.
    destruct (Nat.ltb_spec (length a) (Z.to_nat (- i))).
    + replace (Z.of_nat (Nat.max (length a) (Z.to_nat (- i))) + i)%Z with 0%Z by lia.
      reflexivity.
    + replace (Nat.max (length a) (Z.to_nat (- i))) with (length a) by lia.
      destruct (0 <=? Z.of_nat (length a) + i)%Z eqn:Hj; [|apply Z.leb_gt in Hj; lia].
      replace (Z.to_nat (Z.of_nat (length a) + i)) with (length a - Z.to_nat (- i)) by lia.
      apply nth_error_list_set_same. lia.
Qed.

(* ---------- law 1: get after insert ---------- *)

Lemma get_ins p : forall slot x, get (ins slot p x) p = Some x.
Proof.
  induction p as [|[k|i] p IH]; intros slot x; cbn.
  - reflexivity.
  - rewrite obj_get_set_same. apply IH.
  - rewrite arr_get_set_same. apply IH.
Qed.

Theorem get_insert v p x : get (insert v p x) p = Some x.
Proof. apply get_ins. Qed.

(* ---------- insert returns the previous occupant = what get returned ---------- *)

Lemma arr_get_nil i : arr_get [] i = None.
Proof. unfold arr_get. destruct (arr_index _ i) as [[|n]|]; reflexivity. Qed.

Lemma ins_prev_none p : ins_prev None p = None.
Proof.
  induction p as [|[k|i] p IH]; [reflexivity|exact IH|].
  cbn. rewrite arr_get_nil. exact IH.
Qed.

Lemma ins_prev_get p : forall v, ins_prev (Some v) p = get v p.
Proof.
  induction p as [|[k|i] p IH]; intros v; cbn; auto.
  - destruct v as [?|?|?|?|?|?|m|a|]; cbn; try apply ins_prev_none.
    destruct (obj_get m k) eqn:E; auto. apply ins_prev_none.
  - destruct v as [?|?|?|?|?|?|m|a|]; cbn; rewrite ?arr_get_nil; try apply ins_prev_none.
    destruct (arr_get a i) eqn:E; auto. apply ins_prev_none.
Qed.

Theorem insert_prev_get v p : insert_prev v p = get v p.
Proof. apply ins_prev_get. Qed.

(* ---------- characterisation of arr_set position by position ---------- *)

Lemma nth_error_ge {A} (l : list A) n : length l <= n -> nth_error l n = None.
Proof. apply nth_error_None. Qed.

Lemma arr_set_nth_nonneg a i x n :
  (0 <= i)%Z ->
  nth_error (arr_set a i x) n =
  if Nat.eqb n (Z.to_nat i) then Some x
  else if Nat.ltb n (length a) then nth_error a n
  else if Nat.ltb n (Z.to_nat i) then Some VNull else None.
Proof.
  intros Hi. unfold arr_set. destruct (Z.leb_spec 0 i); [|lia].
  destruct (Nat.leb_spec (length a) (Z.to_nat i)) as [Hl|Hl].
  - destruct (Nat.eqb_spec n (Z.to_nat i)) as [->|Hn].
    + rewrite app_assoc, nth_error_app2; rewrite app_length, repeat_length; [|lia].
      replace (Z.to_nat i - (length a + (Z.to_nat i - length a))) with 0 by lia. reflexivity.
    + destruct (Nat.ltb_spec n (length a)).
      * rewrite nth_error_app1; auto.
      * rewrite nth_error_app2 by lia.
        destruct (Nat.ltb_spec n (Z.to_nat i)).
        -- rewrite nth_error_app1 by (rewrite repeat_length; lia).
           apply nth_error_repeat. lia.
        -- rewrite nth_error_app2 by (rewrite repeat_length; lia).
           rewrite repeat_length. apply nth_error_ge. cbn. lia.
  - destruct (Nat.eqb_spec n (Z.to_nat i)) as [->|Hn].
    + apply nth_error_list_set_same. lia.
    + rewrite nth_error_list_set_other by congruence.
      destruct (Nat.ltb_spec n (length a)); auto.
      rewrite nth_error_ge by lia.
      destruct (Nat.ltb_spec n (Z.to_nat i)); auto. lia.
Qed.

Lemma arr_set_nth_neg_in a i x n :
  (i < 0)%Z -> Z.to_nat (- i) <= length a ->
  nth_error (arr_set a i x) n =
  if Nat.eqb n (length a - Z.to_nat (- i)) then Some x else nth_error a n.
Proof.
  intros Hi Hr. unfold arr_set. destruct (Z.leb_spec 0 i); [lia|].
  destruct (Nat.ltb_spec (length a) (Z.to_nat (- i))); [lia|].
  destruct (Nat.eqb_spec n (length a - Z.to_nat (- i))) as [->|Hn].
  - apply nth_error_list_set_same. lia.
  - apply nth_error_list_set_other. congruence.
Qed.

Lemma arr_set_nth_neg_out a i x n :
  (i < 0)%Z -> length a < Z.to_nat (- i) ->
  nth_error (arr_set a i x) n =
  if Nat.eqb n 0 then Some x
  else if Nat.ltb n (Z.to_nat (- i) - length a) then Some VNull
  else nth_error a (n - (Z.to_nat (- i) - length a)).
Proof.
  intros Hi Hr. unfold arr_set. destruct (Z.leb_spec 0 i); [lia|].
  destruct (Nat.ltb_spec (length a) (Z.to_nat (- i))); [|lia].
  destruct n as [|n]; cbn [Nat.eqb nth_error]; auto.
  destruct (Nat.ltb_spec (S n) (Z.to_nat (- i) - length a)).
  - rewrite nth_error_app1 by (rewrite repeat_length; lia). apply nth_error_repeat. lia.
  - rewrite nth_error_app2 by (rewrite repeat_length; lia). rewrite repeat_length. f_equal. lia.
Qed.

Lemma length_arr_set' a i x : length (arr_set a i x) = new_len (length a) i.
Proof. rewrite length_arr_set. reflexivity. Qed.

(* the non-recursive index/index cases of disjoint_stable *)
Lemma arr_get_set_frame a i j x :
  i <> j ->
  (if in_range (length a) i && in_range (length a) j then
     negb match arr_index (length a) i, arr_index (length a) j with
          | Some n, Some m => Nat.eqb n m | _, _ => false end
   else if in_range (length a) j then
     ((0 <=? i)%Z && (0 <=? j)%Z) || ((i <? 0)%Z && (j <? 0)%Z)
   else negb (in_range (new_len (length a) i) j)) = true ->
  arr_get (arr_set a i x) j = arr_get a j.
Proof.
  intros Hne H. unfold arr_get. rewrite length_arr_set'.
  unfold in_range, arr_index, new_len in *.
  destruct (Z.leb_spec 0 i) as [Hi|Hi]; destruct (Z.leb_spec 0 j) as [Hj|Hj]; cbn [andb orb] in H.
  - (* i >= 0, j >= 0 *)
    rewrite arr_set_nth_nonneg by lia.
    destruct (Nat.eqb_spec (Z.to_nat j) (Z.to_nat i)); [lia|].
    destruct (Nat.ltb_spec (Z.to_nat j) (length a)) as [Hjl|Hjl]; auto.
    rewrite (nth_error_ge a) by lia.
    destruct (Nat.ltb_spec (Z.to_nat i) (length a)) as [Hil|Hil]; cbn [andb] in H.
    + destruct (Nat.ltb_spec (Z.to_nat j) (Z.to_nat i)); auto; lia.
    + destruct (Nat.ltb_spec (Z.to_nat j) (Nat.max (length a) (S (Z.to_nat i)))); cbn in H; try discriminate.
      destruct (Nat.ltb_spec (Z.to_nat j) (Z.to_nat i)); auto; lia.
  - (* i >= 0, j < 0 *)
    destruct (Z.leb_spec 0 (Z.of_nat (length a) + j)) as [Hjr|Hjr].
    + (* j in range in the old array *)
      assert (Hjl : Z.to_nat (Z.of_nat (length a) + j) < length a) by lia.
      destruct (Nat.ltb_spec (Z.to_nat (Z.of_nat (length a) + j)) (length a)); [|lia].
      destruct (Nat.ltb_spec (Z.to_nat i) (length a)) as [Hil|Hil]; cbn [andb] in H.
      * replace (Nat.max (length a) (S (Z.to_nat i))) with (length a) by lia.
        destruct (Z.leb_spec 0 (Z.of_nat (length a) + j)); [|lia].
        rewrite arr_set_nth_nonneg by lia.
        destruct (Nat.eqb_spec (Z.to_nat i) (Z.to_nat (Z.of_nat (length a) + j))); cbn in H; try discriminate.
        destruct (Nat.eqb_spec (Z.to_nat (Z.of_nat (length a) + j)) (Z.to_nat i)); [lia|].
        destruct (Nat.ltb_spec (Z.to_nat (Z.of_nat (length a) + j)) (length a)); auto; lia.
      * cbn [andb orb] in H. destruct (Z.ltb_spec i 0); [lia|]. cbn [andb] in H. discriminate.
    + (* j out of range in the old array *)
      destruct (Nat.ltb_spec (Z.to_nat i) (length a)) as [Hil|Hil]; cbn [andb] in H.
      * replace (Nat.max (length a) (S (Z.to_nat i))) with (length a) by lia.
        destruct (Z.leb_spec 0 (Z.of_nat (length a) + j)); [lia|]. reflexivity.
      * destruct (Z.leb_spec 0 (Z.of_nat (Nat.max (length a) (S (Z.to_nat i))) + j)) as [Hn|Hn]; auto.
        destruct (Nat.ltb_spec (Z.to_nat (Z.of_nat (Nat.max (length a) (S (Z.to_nat i))) + j))
                    (Nat.max (length a) (S (Z.to_nat i)))); cbn in H; try discriminate. lia.
  - (* i < 0, j >= 0 *)
    destruct (Z.leb_spec 0 (Z.of_nat (length a) + i)) as [Hir|Hir].
    + (* i in range: no padding *)
      replace (Nat.max (length a) (Z.to_nat (- i))) with (length a) by lia.
      rewrite arr_set_nth_neg_in by lia.
      destruct (Nat.ltb_spec (Z.to_nat (Z.of_nat (length a) + i)) (length a)); [|lia].
      destruct (Nat.ltb_spec (Z.to_nat j) (length a)) as [Hjl|Hjl]; cbn [andb] in H.
      * destruct (Nat.eqb_spec (Z.to_nat (Z.of_nat (length a) + i)) (Z.to_nat j)); cbn in H; try discriminate.
        destruct (Nat.eqb_spec (Z.to_nat j) (length a - Z.to_nat (- i))); auto; lia.
      * destruct (Nat.eqb_spec (Z.to_nat j) (length a - Z.to_nat (- i))); auto; lia.
    + (* front padding *)
      cbn [andb] in H.
      destruct (Nat.ltb_spec (Z.to_nat j) (length a)) as [Hjl|Hjl].
      * destruct (Z.ltb_spec i 0); [|lia]. destruct (Z.ltb_spec j 0); [lia|]. cbn in H. discriminate.
      * destruct (Nat.ltb_spec (Z.to_nat j) (Nat.max (length a) (Z.to_nat (- i)))); cbn in H; try discriminate.
        rewrite (nth_error_ge a) by lia. apply nth_error_ge. rewrite length_arr_set'. unfold new_len.
        destruct (Z.leb_spec 0 i); lia.
  - (* i < 0, j < 0 *)
    destruct (Z.leb_spec 0 (Z.of_nat (length a) + i)) as [Hir|Hir].
    + replace (Nat.max (length a) (Z.to_nat (- i))) with (length a) by lia.
      destruct (Z.leb_spec 0 (Z.of_nat (length a) + j)) as [Hjr|Hjr]; auto.
      rewrite arr_set_nth_neg_in by lia.
      destruct (Nat.ltb_spec (Z.to_nat (Z.of_nat (length a) + i)) (length a)); [|lia].
      destruct (Nat.ltb_spec (Z.to_nat (Z.of_nat (length a) + j)) (length a)); [|lia].
      cbn [andb] in H.
      destruct (Nat.eqb_spec (Z.to_nat (Z.of_nat (length a) + i)) (Z.to_nat (Z.of_nat (length a) + j))); cbn in H; try discriminate.
      destruct (Nat.eqb_spec (Z.to_nat (Z.of_nat (length a) + j)) (length a - Z.to_nat (- i))); auto; lia.
    + cbn [andb] in H.
      replace (Nat.max (length a) (Z.to_nat (- i))) with (Z.to_nat (- i)) in * by lia.
      destruct (Z.leb_spec 0 (Z.of_nat (length a) + j)) as [Hjr|Hjr].
      * destruct (Z.leb_spec 0 (Z.of_nat (Z.to_nat (- i)) + j)); [|lia].
        rewrite arr_set_nth_neg_out by lia.
        destruct (Nat.eqb_spec (Z.to_nat (Z.of_nat (Z.to_nat (- i)) + j)) 0); [lia|].
        destruct (Nat.ltb_spec (Z.to_nat (Z.of_nat (Z.to_nat (- i)) + j)) (Z.to_nat (- i) - length a)); [lia|].
        f_equal. lia.
      * destruct (Z.leb_spec 0 (Z.of_nat (Z.to_nat (- i)) + j)) as [Hn|Hn]; auto.
        destruct (Nat.ltb_spec (Z.to_nat (Z.of_nat (Z.to_nat (- i)) + j)) (Z.to_nat (- i))); cbn in H; try discriminate. lia.
Qed.

(* ---------- law 2: frame ---------- *)

Lemma get_opt_field slot k q : get_opt slot (SField k :: q) = get_opt (obj_get (as_obj slot) k) q.
Proof.
  destruct slot as [[?|?|?|?|?|?|m|a|]|]; cbn; auto.
Qed.

Lemma get_opt_index slot j q : get_opt slot (SIndex j :: q) = get_opt (arr_get (as_arr slot) j) q.
Proof.
  destruct slot as [[?|?|?|?|?|?|m|a|]|]; cbn; rewrite ?arr_get_nil; auto.
Qed.

Lemma arr_alias a i j x :
  in_range (length a) i = true -> in_range (length a) j = true ->
  match arr_index (length a) i, arr_index (length a) j with
  | Some n, Some m => Nat.eqb n m | _, _ => false end = true ->
  arr_get (arr_set a i x) j = Some x /\ arr_get a j = arr_get a i.
Proof.
  intros Hi Hj He. unfold arr_get. rewrite length_arr_set'.
  assert (Hl : new_len (length a) i = length a).
  { unfold new_len, in_range, arr_index in *.
    destruct (Z.leb_spec 0 i).
    - destruct (Nat.ltb_spec (Z.to_nat i) (length a)); try discriminate. lia.
    - destruct (Z.leb_spec 0 (Z.of_nat (length a) + i)); try discriminate. lia. }
  rewrite Hl.
  destruct (arr_index (length a) i) as [n|] eqn:Ei; try discriminate.
  destruct (arr_index (length a) j) as [m|] eqn:Ej; try discriminate.
  apply Nat.eqb_eq in He. subst m. split; auto.
  pose proof (arr_get_set_same a i x) as G. unfold arr_get in G.
  rewrite length_arr_set', Hl, Ei in G. exact G.
Qed.

Lemma ins_frame p : forall slot q x,
  disjoint_stable slot p q = true -> get (ins slot p x) q = get_opt slot q.
Proof.
  induction p as [|[k1|i] p IH]; intros slot q x H; destruct q as [|[k2|j] q];
    cbn [disjoint_stable] in H; try discriminate.
  - (* field / field *)
    rewrite get_opt_field. cbn [ins get]. fold (as_obj slot).
    destruct (bytes_eqb k1 k2) eqn:E.
    + apply bytes_eqb_eq in E. subst k2. rewrite obj_get_set_same. apply IH. exact H.
    + apply bytes_eqb_neq in E. rewrite obj_get_set_other by congruence.
      unfold get_opt, as_obj. reflexivity.
  - (* field / index *)
    cbn [ins get]. destruct slot as [[?|?|?|?|?|?|m|a|]|]; cbn; auto.
    unfold arr_get, in_range in *. destruct (arr_index (length a) j); auto.
    apply negb_true_iff, Nat.ltb_ge in H. rewrite nth_error_ge; auto.
  - (* index / field *)
    cbn [ins get]. destruct slot as [[?|?|?|?|?|?|m|a|]|]; cbn; auto.
    destruct (obj_get m k2); auto. discriminate.
  - (* index / index *)
    rewrite get_opt_index. cbn [ins get]. fold (as_arr slot).
    set (a := as_arr slot) in *.
    destruct (Z.eqb_spec i j) as [->|Hne].
    + rewrite arr_get_set_same. apply IH. exact H.
    + destruct (in_range (length a) i && in_range (length a) j) eqn:Er.
      * destruct (match arr_index (length a) i, arr_index (length a) j with
                  | Some n, Some m => Nat.eqb n m | _, _ => false end) eqn:Ea.
        -- apply andb_true_iff in Er. destruct Er as [Ri Rj].
           destruct (arr_alias a i j (ins (arr_get a i) p x) Ri Rj Ea) as [G1 G2].
           rewrite G1, G2. apply IH. exact H.
        -- rewrite arr_get_set_frame; [reflexivity | exact Hne | rewrite Er, Ea; reflexivity].
      * rewrite arr_get_set_frame; [reflexivity | exact Hne | rewrite Er; exact H].
Qed.

Theorem insert_frame v p q x :
  disjoint_stable (Some v) p q = true -> get (insert v p x) q = get v q.
Proof. intros H. apply (ins_frame p (Some v) q x H). Qed.

(* the clean special case: field-only paths, neither a prefix of the other *)
Fixpoint all_fields (p : path) : bool :=
  match p with [] => true | SField _ :: p' => all_fields p' | SIndex _ :: _ => false end.

Fixpoint is_prefix (p q : path) : bool :=
  match p, q with
  | [], _ => true
  | s :: p', t :: q' => seg_eqb s t && is_prefix p' q'
  | _ :: _, [] => false
  end.

Lemma fields_disjoint_stable p : forall slot q,
  all_fields p = true -> all_fields q = true ->
  is_prefix p q = false -> is_prefix q p = false -> disjoint_stable slot p q = true.
Proof.
  induction p as [|[k1|i] p IH]; intros slot [|[k2|j] q] Hp Hq H1 H2; cbn in *; try discriminate; auto.
  rewrite (bytes_eqb_sym k2 k1) in H2.
  destruct (bytes_eqb k1 k2); cbn in *; auto.
Qed.

Theorem insert_frame_fields v p q x :
  all_fields p = true -> all_fields q = true ->
  is_prefix p q = false -> is_prefix q p = false ->
  get (insert v p x) q = get v q.
Proof. intros. apply insert_frame. apply fields_disjoint_stable; auto. Qed.

(* ---------- law 3: remove returns exactly what get returned ---------- *)

Lemma arr_remove_get a i :
  match arr_remove a i with Some (x, _) => arr_get a i = Some x | None => arr_get a i = None end.
Proof.
  unfold arr_remove, arr_get. destruct (arr_index (length a) i); auto.
  destruct (nth_error a n); auto.
Qed.

Lemma rm_get p : forall c prune,
  match rm c p prune with
  | Some (prev, _) => get c p = Some prev
  | None => p = [] \/ get c p = None
  end.
Proof.
  induction p as [|s p IH]; intros c prune; [left; reflexivity|].
  destruct s as [f|i]; cbn [rm get].
  - destruct c as [?|?|?|?|?|?|m|a|]; auto.
    destruct p as [|s' p'].
    + destruct (obj_get m f); auto.
    + destruct (obj_get m f) as [c'|]; auto.
      specialize (IH c' prune). destruct (rm c' (s' :: p') prune) as [[prev c'']|]; auto.
      destruct IH as [IH|IH]; [discriminate|auto].
  - destruct c as [?|?|?|?|?|?|m|a|]; auto.
    destruct p as [|s' p'].
    + pose proof (arr_remove_get a i) as G. destruct (arr_remove a i) as [[x a']|]; rewrite G; auto.
    + destruct (arr_get a i) as [c'|]; auto.
      specialize (IH c' prune). destruct (rm c' (s' :: p') prune) as [[prev c'']|]; auto.
      destruct IH as [IH|IH]; [discriminate|auto].
Qed.

Theorem remove_returns_get v p prune : fst (remove v p prune) = get v p.
Proof.
  unfold remove. destruct p as [|s p].
  - destruct v; reflexivity.
  - pose proof (rm_get (s :: p) v prune) as G.
    destruct (rm v (s :: p) prune) as [[prev v']|]; cbn [fst]; auto.
    destruct G as [G|G]; [discriminate|auto].
Qed.

(* a failed removal leaves the value untouched *)
Theorem remove_none_unchanged v p prune : get v p = None -> remove v p prune = (None, v).
Proof.
  intros G. unfold remove. destruct p as [|s p]; [discriminate|].
  pose proof (rm_get (s :: p) v prune) as R.
  destruct (rm v (s :: p) prune) as [[prev v']|]; auto. congruence.
Qed.

(* ---------- law 4: paths through a non-container find nothing ---------- *)

Lemma get_app p1 : forall v p2,
  get v (p1 ++ p2) = match get v p1 with Some w => get w p2 | None => None end.
Proof.
  induction p1 as [|[k|i] p1 IH]; intros v p2; cbn [app get]; auto.
  - destruct v as [?|?|?|?|?|?|m|a|]; auto. destruct (obj_get m k); auto.
  - destruct v as [?|?|?|?|?|?|m|a|]; auto. destruct (arr_get a i); auto.
Qed.

Theorem through_scalar v p1 w s p2 prune :
  get v p1 = Some w -> is_scalar w = true ->
  get v (p1 ++ s :: p2) = None /\ remove v (p1 ++ s :: p2) prune = (None, v).
Proof.
  intros G S.
  assert (H : get v (p1 ++ s :: p2) = None).
  { rewrite get_app, G. destruct s, w; cbn in *; auto; discriminate. }
  split; auto. apply remove_none_unchanged. exact H.
Qed.
