(* ipcrypt-pfx (Model/IpPfx.v) is invertible over ANY block cipher, keeps 16 well-formed bytes well-formed, and in
   IPv4 mode keeps the mapped prefix: the four facts C23_ip_roundtrip assumes of the `pfx` permutation. *)
From Coq Require Import String.
From Coq Require Import List NArith ZArith Bool Arith Lia.
From VRL Require Import Base.Bytes Base.Value Model.ConvRes Model.Modes Model.Ip Model.CipherGlue Model.IpPfx
     Proofs.CodecProofs Proofs.IpCryptProofs.
Import ListNotations.

(* ---------- the bit loop ---------- *)

Lemma pfx_dec_enc_bits F : forall bits padded, pfx_dec_bits F padded (pfx_enc_bits F padded bits) = bits.
Proof.
  induction bits as [|o r IH]; intros padded; [reflexivity|]. cbn [pfx_enc_bits pfx_dec_bits].
  assert (Ho : Datatypes.xorb (F padded) (Datatypes.xorb (F padded) o) = o) by (destruct (F padded), o; reflexivity).
  rewrite Ho. f_equal. apply IH.
Qed.

Lemma pfx_enc_bits_length F : forall bits padded, length (pfx_enc_bits F padded bits) = length bits.
Proof. induction bits as [|o r IH]; intros padded; [reflexivity|]. cbn. f_equal. apply IH. Qed.

Lemma pfx_dec_bits_length F : forall bits padded, length (pfx_dec_bits F padded bits) = length bits.
Proof. induction bits as [|o r IH]; intros padded; [reflexivity|]. cbn. f_equal. apply IH. Qed.

(* ---------- bytes <-> bits ---------- *)

Lemma byte_of_bits_bits x : (x < 256)%N -> byte_of_bits (byte_bits x) = x.
Proof.
  intros H. apply N.eqb_eq.
  apply (forallb_Nrange (fun i => N.eqb (byte_of_bits (byte_bits i)) i) 256); [vm_compute; reflexivity | exact H].
Qed.

Lemma byte_bits_of_bits b7 b6 b5 b4 b3 b2 b1 b0 :
  byte_bits (byte_of_bits [b7; b6; b5; b4; b3; b2; b1; b0]) = [b7; b6; b5; b4; b3; b2; b1; b0].
Proof. destruct b7, b6, b5, b4, b3, b2, b1, b0; reflexivity. Qed.

Lemma byte_of_bits_lt b7 b6 b5 b4 b3 b2 b1 b0 : (byte_of_bits [b7; b6; b5; b4; b3; b2; b1; b0] < 256)%N.
Proof. destruct b7, b6, b5, b4, b3, b2, b1, b0; reflexivity. Qed.

(* a bit list made of whole bytes *)
Fixpoint whole_bytes (n : nat) (l : list bool) : Prop :=
  match n with
  | O => l = []
  | S n' => match l with
            | b7 :: b6 :: b5 :: b4 :: b3 :: b2 :: b1 :: b0 :: r => whole_bytes n' r
            | _ => False
            end
  end.

Lemma whole_bytes_length n l : whole_bytes n l -> length l = (8 * n)%nat.
Proof.
  revert l. induction n as [|n IH]; intros l H; [cbn in H; subst; reflexivity|].
  cbn [whole_bytes] in H. do 8 (destruct l as [|? l]; [contradiction|]). cbn [length]. rewrite (IH l H). lia.
Qed.

Lemma whole_bytes_of_length : forall n l, length l = (8 * n)%nat -> whole_bytes n l.
Proof.
  induction n as [|n IH]; intros l H.
  - destruct l; [reflexivity | discriminate].
  - do 8 (destruct l as [|? l]; [cbn in H; lia|]). cbn [whole_bytes]. apply IH. cbn [length] in H. lia.
Qed.

Lemma bytes_of_bits_f_whole : forall n l fuel, whole_bytes n l -> (n <= fuel)%nat ->
  length (bytes_of_bits_f fuel l) = n /\ wf_bytes (bytes_of_bits_f fuel l) = true
  /\ bits_of_bytes (bytes_of_bits_f fuel l) = l.
Proof.
  induction n as [|n IH]; intros l fuel H Hf.
  - cbn in H. subst. destruct fuel; repeat split; reflexivity.
  - cbn [whole_bytes] in H. do 8 (destruct l as [|? l]; [contradiction|]).
    destruct fuel as [|fuel]; [lia|]. cbn [bytes_of_bits_f firstn skipn].
    destruct (IH l fuel H ltac:(lia)) as (I1 & I2 & I3).
    cbn [length wf_bytes forallb bits_of_bytes flat_map]. split; [rewrite I1; reflexivity|]. split.
    + apply andb_true_iff. split; [apply N.ltb_lt; apply byte_of_bits_lt | exact I2].
    + rewrite byte_bits_of_bits. cbn [app]. do 8 f_equal. exact I3.
Qed.

Lemma bytes_of_bits_whole n l : whole_bytes n l ->
  length (bytes_of_bits l) = n /\ wf_bytes (bytes_of_bits l) = true /\ bits_of_bytes (bytes_of_bits l) = l.
Proof.
  intros H. unfold bytes_of_bits. apply (bytes_of_bits_f_whole n); [exact H|].
  rewrite (whole_bytes_length n l H). lia.
Qed.

Lemma bits_of_bytes_whole b : whole_bytes (length b) (bits_of_bytes b).
Proof. induction b as [|x b IH]; [reflexivity|]. cbn [bits_of_bytes flat_map byte_bits app length whole_bytes]. exact IH. Qed.

Lemma bytes_of_bits_f_bits : forall b fuel, wf_bytes b = true -> (length b <= fuel)%nat ->
  bytes_of_bits_f fuel (bits_of_bytes b) = b.
Proof.
  induction b as [|x b IH]; intros fuel Hw Hf; [destruct fuel; reflexivity|].
  apply wf_bytes_cons in Hw. destruct Hw as [Hx Hb]. destruct fuel as [|fuel]; [cbn in Hf; lia|].
  cbn [bits_of_bytes flat_map byte_bits app bytes_of_bits_f firstn skipn].
  change [N.testbit x 7; N.testbit x 6; N.testbit x 5; N.testbit x 4; N.testbit x 3; N.testbit x 2; N.testbit x 1; N.testbit x 0]
    with (byte_bits x).
  rewrite (byte_of_bits_bits x Hx). f_equal. apply IH; [exact Hb | cbn in Hf; lia].
Qed.

Lemma bytes_of_bits_bits b : wf_bytes b = true -> bytes_of_bits (bits_of_bytes b) = b.
Proof.
  intros H. unfold bytes_of_bits. apply bytes_of_bits_f_bits; [exact H|].
  rewrite (whole_bytes_length _ _ (bits_of_bytes_whole b)). lia.
Qed.

(* ---------- the four facts ---------- *)

Lemma wf_firstn n : forall b : bytes, wf_bytes b = true -> wf_bytes (firstn n b) = true.
Proof.
  induction n as [|n IH]; intros b H; [reflexivity|]. destruct b as [|x b]; [reflexivity|].
  apply wf_bytes_cons in H. destruct H as [Hx Hb]. cbn [firstn]. apply wf_bytes_cons. split; [exact Hx | apply IH; exact Hb].
Qed.

Lemma wf_skipn n : forall b : bytes, wf_bytes b = true -> wf_bytes (skipn n b) = true.
Proof.
  induction n as [|n IH]; intros b H; [exact H|]. destruct b as [|x b]; [reflexivity|].
  apply wf_bytes_cons in H. destruct H as [Hx Hb]. cbn [skipn]. apply IH. exact Hb.
Qed.

Lemma wf_app (a b : bytes) : wf_bytes a = true -> wf_bytes b = true -> wf_bytes (a ++ b) = true.
Proof. unfold wf_bytes. intros Ha Hb. rewrite forallb_app, Ha, Hb. reflexivity. Qed.

Section Pfx.
  Variable E : cipher.

  Lemma enc_whole F p (b : bytes) : whole_bytes (length b) (pfx_enc_bits F p (bits_of_bytes b)).
  Proof.
    apply whole_bytes_of_length. rewrite pfx_enc_bits_length. apply whole_bytes_length. apply bits_of_bytes_whole.
  Qed.

  Theorem pfx_keeps_wf k v b : ip_wf b -> ip_wf (pfx_encrypt_bytes E k v b).
  Proof.
    intros [Hl Hw]. unfold pfx_encrypt_bytes. destruct v.
    - destruct (bytes_of_bits_whole _ _ (enc_whole (prf E (firstn 16 k) (skipn 16 k)) pad96 (skipn 12 b))) as (L & W & _).
      split.
      + rewrite app_length, firstn_length, L, skipn_length. lia.
      + apply wf_app; [apply wf_firstn; exact Hw | exact W].
    - destruct (bytes_of_bits_whole _ _ (enc_whole (prf E (firstn 16 k) (skipn 16 k)) pad0 b)) as (L & W & _).
      split; [rewrite L; exact Hl | exact W].
  Qed.

  Theorem pfx_inverse6 k b : ip_wf b -> pfx_decrypt_bytes E k false (pfx_encrypt_bytes E k false b) = b.
  Proof.
    intros [Hl Hw]. unfold pfx_decrypt_bytes, pfx_encrypt_bytes.
    destruct (bytes_of_bits_whole _ _ (enc_whole (prf E (firstn 16 k) (skipn 16 k)) pad0 b)) as (_ & _ & B).
    rewrite B, pfx_dec_enc_bits. apply bytes_of_bits_bits. exact Hw.
  Qed.

  Lemma mapped_prefix b : length b = 16%nat -> is_mapped b = true -> firstn 12 b = repeat 0%N 10 ++ [255%N; 255%N].
  Proof. intros Hl Hm. rewrite (mapped_shape b Hl Hm). reflexivity. Qed.

  Theorem pfx_keeps_mapped k b : ip_wf b -> is_mapped b = true -> is_mapped (pfx_encrypt_bytes E k true b) = true.
  Proof.
    intros [Hl Hw] Hm. unfold pfx_encrypt_bytes. rewrite (mapped_prefix b Hl Hm). reflexivity.
  Qed.

  Theorem pfx_inverse4 k b : ip_wf b -> is_mapped b = true ->
    pfx_decrypt_bytes E k true (pfx_encrypt_bytes E k true b) = b.
  Proof.
    intros [Hl Hw] Hm. unfold pfx_decrypt_bytes, pfx_encrypt_bytes.
    replace (skipn 12 (firstn 12 b ++ bytes_of_bits (pfx_enc_bits (prf E (firstn 16 k) (skipn 16 k)) pad96
                                                                 (bits_of_bytes (skipn 12 b)))))
      with (bytes_of_bits (pfx_enc_bits (prf E (firstn 16 k) (skipn 16 k)) pad96 (bits_of_bytes (skipn 12 b)))).
    2:{ rewrite (mapped_prefix b Hl Hm). reflexivity. }
    destruct (bytes_of_bits_whole _ _ (enc_whole (prf E (firstn 16 k) (skipn 16 k)) pad96 (skipn 12 b))) as (_ & _ & B).
    rewrite B, pfx_dec_enc_bits, bytes_of_bits_bits by (apply wf_skipn; exact Hw).
    symmetry. apply mapped_shape; assumption.
  Qed.

  (* encrypt_ip / decrypt_ip with the real ipcrypt-pfx construction and any invertible 16-byte permutation for aes128 *)
  Definition pfx_ipprims (dE dD : bytes -> bytes -> bytes) : ipprims :=
    mkIpPrims dE dD (pfx_encrypt_bytes E) (pfx_decrypt_bytes E).

  Theorem ip_roundtrip_pfx (dE dD : bytes -> bytes -> bytes) :
    (forall k b, ip_wf b -> ip_wf (dE k b)) -> (forall k b, ip_wf b -> dD k (dE k b) = b) ->
    forall a s key mode,
    wf_addr a -> parse_ip s = Some a -> key_ok key mode -> known_ip_class (pfx_ipprims dE dD) a key mode = false ->
    exists c, encrypt_ip (pfx_ipprims dE dD) s key mode = IpOk c
              /\ decrypt_ip (pfx_ipprims dE dD) c key mode = IpOk (ip_text a).
  Proof.
    intros Hwf Hinv. apply ip_roundtrip; cbn [detE detD pfxE pfxD pfx_ipprims].
    - exact Hwf.
    - exact Hinv.
    - exact pfx_keeps_wf.
    - exact pfx_inverse6.
    - exact pfx_keeps_mapped.
    - exact pfx_inverse4.
  Qed.
End Pfx.
