(* Facts about `i64 as f64` (of_i64 = SpecFloat.binary_normalize 53 1024 z 0 false) that need the real-number
   semantics of binary64: obtained from Flocq 4.1 (BinarySingleNaN.binary_normalize_correct, Beqb_correct) through
   PrimFloat.binary_normalize_equiv, which identifies Coq's SpecFloat.binary_normalize with Flocq's.
   These lemmas depend on the four axioms of Coq's classical real numbers that Flocq uses
   (ClassicalDedekindReals.sig_not_dec, sig_forall_dec, functional_extensionality_dep, Classical_Prop.classic);
   nothing else in the C10/C11 development does. *)
From Coq Require Import ZArith Reals Lia Lra Floats SpecFloat Bool.
From Flocq Require Import Core.Core IEEE754.BinarySingleNaN IEEE754.PrimFloat.
From VRL Require Import Base.Bytes Base.Value Model.Arith Proofs.ArithProofs.
Local Open Scope Z_scope.
Definition Bof (z : Z) : binary_float prec emax := binary_normalize prec emax Hprec Hmax mode_NE z 0 false.

Lemma of_i64_Bof z : of_i64 z = B2SF (Bof z).
Proof. unfold of_i64, Bof. apply (binary_normalize_equiv z 0 false). Qed.

Notation rnd := (round radix2 (fexp prec emax) (round_mode mode_NE)).

Lemma F2R_int z : F2R (Float radix2 z 0) = IZR z.
Proof. unfold F2R. cbn. ring. Qed.

Lemma gen_bpow e : (-1074 <= e <= 1023) -> generic_format radix2 (fexp prec emax) (bpow radix2 e).
Proof.
  intros H. apply generic_format_bpow'. apply fexp_correct. exact Hprec.
  unfold fexp, emin, prec, emax. lia.
Qed.

Lemma Bof_correct z : Z.abs z <= 2 ^ 63 ->
  B2R (Bof z) = rnd (IZR z) /\ is_finite (Bof z) = true.
Proof.
  intros Hz. pose proof (binary_normalize_correct prec emax Hprec Hmax mode_NE z 0 false) as H.
  cbv zeta in H. rewrite F2R_int in H. fold (Bof z) in H.
  rewrite Rlt_bool_true in H. { tauto. }
  apply Rle_lt_trans with (bpow radix2 63).
  - apply abs_round_le_generic. apply fexp_correct; exact Hprec. apply valid_rnd_round_mode.
    apply gen_bpow; lia.
    rewrite <- abs_IZR. change (bpow radix2 63) with (IZR (2 ^ 63)). apply IZR_le. exact Hz.
  - apply bpow_lt. unfold emax. lia.
Qed.
(* integers of magnitude at most 2^53 are binary64 numbers *)
Lemma gen_small_int z : Z.abs z <= 2 ^ 53 -> generic_format radix2 (fexp prec emax) (IZR z).
Proof.
  intros Hz. destruct (Z.eq_dec (Z.abs z) (2 ^ 53)) as [E|NE].
  - assert (IZR z = bpow radix2 53 \/ IZR z = - bpow radix2 53)%R as [->| ->].
    { change (bpow radix2 53) with (IZR (2 ^ 53)). rewrite <- opp_IZR.
      destruct (Z.abs_eq_or_opp z) as [H|H]; [left|right]; f_equal; lia. }
    + apply gen_bpow; lia.
    + apply generic_format_opp. apply gen_bpow; lia.
  - apply (generic_format_FLT radix2 (3 - emax - prec) prec).
    apply (FLT_spec radix2 (3 - emax - prec) prec (IZR z) (Float radix2 z 0)).
    + symmetry. apply F2R_int.
    + cbn [Fnum]. change (radix2 ^ prec) with (2 ^ 53). lia.
    + cbn [Fexp]. unfold emax, prec. lia.
Qed.

Lemma Bof_exact z : Z.abs z <= 2 ^ 53 -> B2R (Bof z) = IZR z /\ is_finite (Bof z) = true.
Proof.
  intros Hz. destruct (Bof_correct z ltac:(lia)) as [H1 H2]. split; auto.
  rewrite H1. apply round_generic. apply valid_rnd_round_mode. apply gen_small_int. exact Hz.
Qed.

(* on integers of magnitude at most 2^53 the conversion is injective: == is exact there *)
Lemma f_eq_small a b : Z.abs a <= 2 ^ 53 -> Z.abs b <= 2 ^ 53 -> f_eq (of_i64 a) (of_i64 b) = (a =? b).
Proof.
  intros Ha Hb. destruct (Bof_exact a Ha) as [Ra Fa]. destruct (Bof_exact b Hb) as [Rb Fb].
  unfold f_eq. rewrite !of_i64_Bof. change (SFeqb (B2SF (Bof a)) (B2SF (Bof b))) with (Beqb (Bof a) (Bof b)).
  rewrite (Beqb_correct _ _ _ _ Fa Fb), Ra, Rb.
  destruct (Z.eqb_spec a b) as [->|NE].
  - apply Req_bool_true. reflexivity.
  - apply Req_bool_false. intros E. apply eq_IZR in E. contradiction.
Qed.

(* the conversion of a non-zero i64 is not a zero *)
Lemma of_i64_nonzero z : Z.abs z <= 2 ^ 63 -> z <> 0 -> f_is_zero (of_i64 z) = false.
Proof.
  intros Hz Hnz. destruct (Bof_correct z Hz) as [H1 H2].
  assert (B2R (Bof z) <> 0%R) as Hne.
  { rewrite H1. intros E.
    assert (bpow radix2 0 <= Rabs (rnd (IZR z)))%R as H.
    { apply abs_round_ge_generic. apply fexp_correct; exact Hprec. apply valid_rnd_round_mode.
      apply gen_bpow; lia. rewrite <- abs_IZR. change (bpow radix2 0) with (IZR 1). apply IZR_le. lia. }
    rewrite E, Rabs_R0 in H. cbn in H. lra. }
  rewrite of_i64_Bof. destruct (Bof z); cbn in *; try reflexivity. contradiction Hne. reflexivity.
Qed.

(* below 2^53 the conversion loses nothing: the class of pairs that the old eq_lossy confused is empty there, and
   integer == agrees with == on the converted floats *)
Lemma int_eq_exact_small a b : Z.abs a <= 2 ^ 53 -> Z.abs b <= 2 ^ 53 ->
  known_int_eq a b = false /\ eq_lossy (VInt a) (VInt b) = eq_lossy (VFloat (of_i64 a)) (VFloat (of_i64 b)).
Proof.
  intros Ha Hb. split.
  - unfold known_int_eq. rewrite (f_eq_small a b Ha Hb). destruct (a =? b); reflexivity.
  - cbn. symmetry. apply (f_eq_small a b Ha Hb).
Qed.

(* float / integer and mod(float, integer) = the float operation on the converted integer, for every i64 *)
Lemma mixed_div_right_full f b : in_i64 b ->
  try_div (VFloat f) (VInt b) = try_div (VFloat f) (VFloat (of_i64 b))
  /\ try_rem (VFloat f) (VInt b) = try_rem (VFloat f) (VFloat (of_i64 b)).
Proof.
  intros Hb. destruct (Z.eq_dec b 0) as [->|Hnz].
  - split; reflexivity.
  - apply mixed_div_r_conv; [|exact Hnz]. apply of_i64_nonzero; [|exact Hnz].
    unfold in_i64, two63 in Hb. lia.
Qed.
