(* Soundness of Kind::union / merge_keep(_, false) with respect to `member`. *)
From Coq Require Import List NArith ZArith Bool Lia.
From VRL Require Import Base.Bytes Base.Value Model.ValueCrud Model.Kind Model.KindCrud Model.KindDomains
  Proofs.ValueCrudProofs Proofs.KindBasics.
Import ListNotations.

Lemma arr_ok_absent vs c i : arr_ok vs c = true -> length vs <= i ->
  p_undefined (prims_of (coll_at Nat.eqb c i)) = true.
Proof.
  rewrite arr_ok_spec. intros [_ H] Hl. unfold coll_at.
  destruct (aget Nat.eqb (known c) i) eqn:E; [eauto | apply p_undefined_unknown_kind].
Qed.

Lemma obj_ok_absent kvs c f : obj_ok kvs c = true -> obj_get kvs f = None ->
  p_undefined (prims_of (coll_at bytes_eqb c f)) = true.
Proof.
  rewrite obj_ok_spec. intros [_ H] Hl. unfold coll_at.
  destruct (aget bytes_eqb (known c) f) eqn:E; [eauto | apply p_undefined_unknown_kind].
Qed.

Lemma arr_ok_intro vs c :
  (forall i x, nth_error vs i = Some x -> member x (coll_at Nat.eqb c i) = true) ->
  (forall i, length vs <= i -> p_undefined (prims_of (coll_at Nat.eqb c i)) = true) ->
  arr_ok vs c = true.
Proof.
  intros H1 H2. apply arr_ok_spec. split; auto.
  intros i kk E Hl. specialize (H2 i Hl). unfold coll_at in H2. rewrite E in H2. exact H2.
Qed.

Lemma obj_ok_intro kvs c :
  (forall f w, In (f, w) kvs -> member w (coll_at bytes_eqb c f) = true) ->
  (forall f, obj_get kvs f = None -> p_undefined (prims_of (coll_at bytes_eqb c f)) = true) ->
  obj_ok kvs c = true.
Proof.
  intros H1 H2. apply obj_ok_spec. split; auto.
  intros f kk E Hl. specialize (H2 f Hl). unfold coll_at in H2. rewrite E in H2. exact H2.
Qed.

Lemma arr_ok_elem vs c i x : arr_ok vs c = true -> nth_error vs i = Some x ->
  member x (coll_at Nat.eqb c i) = true.
Proof. rewrite arr_ok_spec. intros [H _]. apply H. Qed.

Lemma obj_ok_elem kvs c f w : obj_ok kvs c = true -> In (f, w) kvs ->
  member w (coll_at bytes_eqb c f) = true.
Proof. rewrite obj_ok_spec. intros [H _]. apply H. Qed.

(* ---------- Collection::merge, overwrite = false ---------- *)

Section CMerge.
  Context {K : Type}.
  Variable keqb : K -> K -> bool.
  Variable kcmp : K -> K -> comparison.
  Hypothesis keqb_spec : forall a b, keqb a b = true <-> a = b.
  Hypothesis kcmp_spec : forall a b, kcmp a b = Eq <-> a = b.
  Variable U : kind -> kind -> kind.

  (* the known map of the merged collection, key by key *)
  Lemma aget_cmerge (M : kind -> kind -> kind) ow (l r : coll_ K kind) key :
    aget keqb (known (cmerge keqb kcmp M U ow l r)) key =
    match aget keqb (known l) key with
    | Some sk => Some (merge_self_entry keqb U ow r key sk)
    | None =>
        match aget keqb (known r) key with
        | Some ok => Some (merge_other_entry U ow (unknown_kind l) ok)
        | None => None
        end
    end.
  Proof.
    unfold cmerge. cbn [known].
    rewrite (aget_aset_all keqb kcmp keqb_spec kcmp_spec).
    rewrite (aget_map_val keqb (merge_other_entry U ow (unknown_kind l))).
    rewrite (aget_filter keqb keqb_spec (fun k => negb (ahas keqb (known l) k))).
    rewrite (aget_amap keqb keqb_spec).
    unfold ahas. destruct (aget keqb (known l) key) as [sk|] eqn:El; cbn.
    - reflexivity.
    - destruct (aget keqb (known r) key); reflexivity.
  Qed.

  Variable C : kind -> kind -> bool.
  Hypothesis HU : forall x y v, C x y = true ->
    member v x = true \/ member v y = true -> member v (U x y) = true.
  Hypothesis HUu : forall x y,
    p_undefined (prims_of x) = true \/ p_undefined (prims_of y) = true -> p_undefined (prims_of (U x y)) = true.

  Lemma umerge_sound (l r : unk) v : ucompat C l r = true ->
    member v (unknown_kind_u l) = true \/ member v (unknown_kind_u r) = true ->
    member v (unknown_kind_u (umerge U l r)) = true.
  Proof.
    destruct l as [x|i], r as [y|j]; cbn [ucompat umerge]; intros Hc Hm.
    - rewrite !member_unknown_kind_exact in *. apply HU; auto.
    - rewrite member_unknown_kind_exact, !member_unknown_kind_inf in *.
      apply orb_true_iff in Hc. destruct Hc as [Hc|Hc].
      + apply inf_is_any_eq in Hc; subst. apply member_inf_any.
      + destruct Hm as [Hm|Hm]; auto. apply negb_true_iff in Hc.
        unfold contains_any_defined in Hc. apply negb_false_iff in Hc.
        rewrite (member_is_undefined _ _ Hc) in Hm. discriminate.
    - rewrite member_unknown_kind_exact, !member_unknown_kind_inf in *.
      apply orb_true_iff in Hc. destruct Hc as [Hc|Hc].
      + apply inf_is_any_eq in Hc; subst. apply member_inf_any.
      + destruct Hm as [Hm|Hm]; auto. apply negb_true_iff in Hc.
        unfold contains_any_defined in Hc. apply negb_false_iff in Hc.
        rewrite (member_is_undefined _ _ Hc) in Hm. discriminate.
    - rewrite !member_unknown_kind_inf in *. destruct Hm as [Hm|Hm].
      + eapply member_inf_mono; [|exact Hm].
        unfold inf_superset, inf_or, implb'; cbn. destruct i, j; cbn.
        repeat match goal with |- context [negb ?b || (?b || _)] => destruct b; cbn end; reflexivity.
      + eapply member_inf_mono; [|exact Hm].
        unfold inf_superset, inf_or, implb'; cbn. destruct i, j; cbn.
        repeat match goal with |- context [negb ?b || (_ || ?b)] => destruct b; cbn end;
          rewrite ?orb_true_r; reflexivity.
  Qed.

  Lemma not_defined_no_member v k : contains_any_defined k = false -> member v k = false.
  Proof. unfold contains_any_defined. intros H. apply negb_false_iff in H. apply member_is_undefined; auto. Qed.

  Lemma ccompat_l (l r : coll_ K kind) key sk : ccompat keqb C l r = true ->
    aget keqb (known l) key = Some sk ->
    match aget keqb (known r) key with
    | Some ok => C sk ok = true
    | None => contains_any_defined (unknown_kind r) = true -> C sk (unknown_kind r) = true
    end.
  Proof.
    unfold ccompat. rewrite !andb_true_iff, !forallb_forall. intros [[_ H] _] E.
    specialize (H (key, sk) (aget_in keqb keqb_spec _ _ _ E)). cbn in H.
    destruct (aget keqb (known r) key); auto.
    intros Hd. rewrite Hd in H. exact H.
  Qed.

  Lemma ccompat_r (l r : coll_ K kind) key ok : ccompat keqb C l r = true ->
    aget keqb (known r) key = Some ok -> aget keqb (known l) key = None ->
    contains_any_defined (unknown_kind l) = true -> C ok (unknown_kind l) = true.
  Proof.
    unfold ccompat. rewrite !andb_true_iff, !forallb_forall. intros [_ H] E En Hd.
    specialize (H (key, ok) (aget_in keqb keqb_spec _ _ _ E)). cbn in H.
    unfold ahas in H. rewrite En, Hd in H. exact H.
  Qed.

  Lemma ccompat_u (l r : coll_ K kind) : ccompat keqb C l r = true -> ucompat C (unknown l) (unknown r) = true.
  Proof. unfold ccompat. rewrite !andb_true_iff. tauto. Qed.

  (* what the merged collection assigns to a key contains what either operand assigns to it *)
  Lemma coll_at_cmerge (l r : coll_ K kind) key v : ccompat keqb C l r = true ->
    member v (coll_at keqb l key) = true \/ member v (coll_at keqb r key) = true ->
    member v (coll_at keqb (cmerge keqb kcmp U U false l r) key) = true.
  Proof.
    intros Hc Hm. unfold coll_at at 1. rewrite aget_cmerge.
    unfold coll_at in Hm. unfold merge_self_entry, merge_other_entry.
    destruct (aget keqb (known l) key) as [sk|] eqn:El.
    - pose proof (ccompat_l _ _ _ _ Hc El) as Hl.
      destruct (aget keqb (known r) key) as [ok|] eqn:Er.
      + apply HU; auto.
      + destruct (contains_any_defined (unknown_kind r)) eqn:Hd.
        * apply HU; auto.
        * rewrite member_or_undefined. destruct Hm as [Hm|Hm]; auto.
          rewrite (not_defined_no_member _ _ Hd) in Hm. discriminate.
    - destruct (aget keqb (known r) key) as [ok|] eqn:Er.
      + destruct (contains_any_defined (unknown_kind l)) eqn:Hd.
        * apply HU; [eapply ccompat_r; eauto | tauto].
        * rewrite member_or_undefined. destruct Hm as [Hm|Hm]; auto.
          rewrite (not_defined_no_member _ _ Hd) in Hm. discriminate.
      + unfold unknown_kind, cmerge. cbn [unknown]. apply umerge_sound; auto. apply ccompat_u; auto.
  Qed.

  Lemma undefined_cmerge (l r : coll_ K kind) key :
    p_undefined (prims_of (coll_at keqb l key)) = true \/ p_undefined (prims_of (coll_at keqb r key)) = true ->
    p_undefined (prims_of (coll_at keqb (cmerge keqb kcmp U U false l r) key)) = true.
  Proof.
    intros Hm. unfold coll_at at 1. rewrite aget_cmerge. unfold coll_at in Hm.
    unfold merge_self_entry, merge_other_entry.
    destruct (aget keqb (known l) key) as [sk|] eqn:El.
    - destruct (aget keqb (known r) key) as [ok|] eqn:Er.
      + apply HUu; auto.
      + destruct (contains_any_defined (unknown_kind r)).
        * apply HUu. right. apply p_undefined_unknown_kind.
        * apply p_undefined_or_undefined.
    - destruct (aget keqb (known r) key) as [ok|] eqn:Er.
      + destruct (contains_any_defined (unknown_kind l)).
        * apply HUu. right. apply p_undefined_unknown_kind.
        * apply p_undefined_or_undefined.
      + apply p_undefined_unknown_kind.
  Qed.
End CMerge.

(* ---------- the two instances ---------- *)

Section Instances.
  Variable U : kind -> kind -> kind.
  Variable C : kind -> kind -> bool.
  Hypothesis HU : forall x y v, C x y = true ->
    member v x = true \/ member v y = true -> member v (U x y) = true.
  Hypothesis HUu : forall x y,
    p_undefined (prims_of x) = true \/ p_undefined (prims_of y) = true -> p_undefined (prims_of (U x y)) = true.

  Lemma arr_ok_cmerge vs (l r : acoll) : ccompat Nat.eqb C l r = true ->
    arr_ok vs l = true \/ arr_ok vs r = true ->
    arr_ok vs (cmerge Nat.eqb Nat.compare U U false l r) = true.
  Proof.
    intros Hc Hm. apply arr_ok_intro.
    - intros i x Hn. apply (coll_at_cmerge Nat.eqb Nat.compare nat_eqb_spec' nat_cmp_spec' U C HU); auto.
      destruct Hm as [Hm|Hm]; [left|right]; eapply arr_ok_elem; eauto.
    - intros i Hl. apply (undefined_cmerge Nat.eqb Nat.compare nat_eqb_spec' nat_cmp_spec' U HUu).
      destruct Hm as [Hm|Hm]; [left|right]; eapply arr_ok_absent; eauto.
  Qed.

  Lemma obj_ok_cmerge kvs (l r : ocoll) : ccompat bytes_eqb C l r = true ->
    obj_ok kvs l = true \/ obj_ok kvs r = true ->
    obj_ok kvs (cmerge bytes_eqb bytes_cmp U U false l r) = true.
  Proof.
    intros Hc Hm. apply obj_ok_intro.
    - intros f w Hin. apply (coll_at_cmerge bytes_eqb bytes_cmp bytes_eqb_eq bytes_cmp_eq U C HU); auto.
      destruct Hm as [Hm|Hm]; [left|right]; eapply obj_ok_elem; eauto.
    - intros f Hl. apply (undefined_cmerge bytes_eqb bytes_cmp bytes_eqb_eq bytes_cmp_eq U HUu).
      destruct Hm as [Hm|Hm]; [left|right]; eapply obj_ok_absent; eauto.
  Qed.
End Instances.

(* ---------- Kind::merge_keep(_, false) ---------- *)

Lemma undefined_merge_f n ow x y :
  p_undefined (prims_of x) = true \/ p_undefined (prims_of y) = true ->
  p_undefined (prims_of (merge_f n ow x y)) = true.
Proof.
  destruct n; cbn; auto. intros [H|H]; rewrite H; auto using orb_true_r.
Qed.

Lemma member_scalar_merge_f n ow x y v :
  (match v with VArr _ | VObj _ => False | _ => True end) ->
  member v x = true \/ member v y = true -> member v (merge_f (S n) ow x y) = true.
Proof.
  destruct v; cbn; try tauto; intros _ [H|H]; rewrite H; auto using orb_true_r.
Qed.

Theorem merge_f_union_sound : forall n a b v,
  compat_f n a b = true ->
  member v a = true \/ member v b = true -> member v (merge_f n false a b) = true.
Proof.
  induction n as [|n IH]; intros a b v Hc Hm.
  - apply member_k_any.
  - cbn [compat_f] in Hc. apply andb_true_iff in Hc. destruct Hc as [Hca Hco].
    destruct v; try (apply member_scalar_merge_f; [exact I | exact Hm]).
    + (* objects *)
      rewrite !member_obj in *. cbn [merge_f obj_of].
      destruct (obj_of a) as [ca|], (obj_of b) as [cb|]; cbn [merge_opt copt] in *.
      * apply (obj_ok_cmerge (merge_f n false) (compat_f n)); auto.
        intros x y; apply undefined_merge_f.
      * destruct Hm as [Hm|Hm]; [exact Hm | discriminate].
      * destruct Hm as [Hm|Hm]; [discriminate | exact Hm].
      * destruct Hm as [Hm|Hm]; discriminate.
    + (* arrays *)
      rewrite !member_arr in *. cbn [merge_f arr_of].
      destruct (arr_of a) as [ca|], (arr_of b) as [cb|]; cbn [merge_opt copt] in *.
      * apply (arr_ok_cmerge (merge_f n false) (compat_f n)); auto.
        intros x y; apply undefined_merge_f.
      * destruct Hm as [Hm|Hm]; [exact Hm | discriminate].
      * destruct Hm as [Hm|Hm]; [discriminate | exact Hm].
      * destruct Hm as [Hm|Hm]; discriminate.
Qed.

Theorem union_sound a b v :
  union_compat a b = true -> member v a = true \/ member v b = true -> member v (union a b) = true.
Proof. apply merge_f_union_sound. Qed.
