(* Proofs about Model/Ip.v, part 3: Ipv4Addr::from_str accepts canonical text only (no leading zeros), so every
   text ip_aton accepts is the text ip_ntoa prints for the number it denotes. *)
From Coq Require Import String.
From Coq Require Import List NArith ZArith Bool Lia.
From VRL Require Import Base.Bytes Base.Value Model.ConvRes Model.IntText Model.Ip
  Proofs.IntTextProofs Proofs.IpProofs.
Import ListNotations.
Local Open Scope Z_scope.
Ltac Zify.zify_post_hook ::= Z.div_mod_to_equations.

Lemma read_digits_inv radix maxd : forall s acc count v n rest,
  read_digits radix maxd s acc count = Some (v, n, rest) ->
  exists ds, s = ds ++ rest /\ uval radix ds acc = Some v /\ n = (count + length ds)%nat
             /\ ((count <= maxd)%nat -> (n <= maxd)%nat).
Proof.
  induction s as [|c s IH]; intros acc count v n rest H; cbn [read_digits] in H.
  - inversion H; subst. exists []. cbn. repeat split; auto; lia.
  - destruct (to_digit radix c) as [d|] eqn:D.
    + destruct (Nat.ltb maxd (S count)) eqn:L; [discriminate|]. apply Nat.ltb_ge in L.
      destruct (IH _ _ _ _ _ H) as (ds & E & Hu & Hn & Hm). exists (c :: ds). subst s.
      cbn [app uval length]. rewrite D. repeat split; auto; lia.
    + inversion H; subst. exists []. cbn. repeat split; auto; lia.
Qed.

Lemma dchar_of_digit c d : to_digit 10 c = Some d -> digit_char d = c /\ 0 <= d <= 9.
Proof.
  intros H. pose proof (to_digit_range _ _ _ H) as R.
  unfold to_digit, digit_val in H.
  destruct ((48 <=? Z.of_N c) && (Z.of_N c <=? 57)) eqn:E1.
  - destruct (Z.of_N c - 48 <? 10); inversion H; subst. split; [|lia].
    unfold digit_char. replace (Z.of_N c - 48 <? 10) with true by (symmetry; apply Z.ltb_lt; lia).
    replace (48 + (Z.of_N c - 48)) with (Z.of_N c) by lia. apply N2Z.id.
  - destruct ((97 <=? Z.of_N c) && (Z.of_N c <=? 122)) eqn:E2.
    + apply andb_true_iff in E2. destruct E2 as [A B]. apply Z.leb_le in A.
      destruct (Z.of_N c - 87 <? 10) eqn:L; [apply Z.ltb_lt in L; lia | discriminate].
    + destruct ((65 <=? Z.of_N c) && (Z.of_N c <=? 90)) eqn:E3; [|discriminate].
      apply andb_true_iff in E3. destruct E3 as [A B]. apply Z.leb_le in A. apply Z.leb_le in B.
      destruct (Z.of_N c - 55 <? 10) eqn:L; [apply Z.ltb_lt in L; lia | discriminate].
Qed.

(* a decimal string of one to three digits without a leading zero is the one the printer produces *)
Lemma dec_unique ds v :
  uval 10 ds 0 = Some v -> (1 <= length ds <= 3)%nat ->
  (match ds with c :: _ :: _ => c <> 48%N | _ => True end) ->
  digits_loop 3 10 v [] = Some ds.
Proof.
  intros Hu Hl Hz.
  destruct ds as [|c1 [|c2 [|c3 [|? ?]]]]; cbn [length] in Hl; try lia; cbn [uval] in Hu.
  - destruct (to_digit 10 c1) as [d1|] eqn:D1; [|discriminate]. injection Hu as Hv.
    destruct (dchar_of_digit _ _ D1) as [E1 R1].
    assert (A1 : v mod 10 = d1) by lia. assert (A2 : v / 10 = 0) by lia.
    cbn [digits_loop]. rewrite A1, A2. change (0 =? 0) with true. cbv iota. rewrite E1. reflexivity.
  - destruct (to_digit 10 c1) as [d1|] eqn:D1; [|discriminate].
    destruct (to_digit 10 c2) as [d2|] eqn:D2; [|discriminate]. injection Hu as Hv.
    destruct (dchar_of_digit _ _ D1) as [E1 R1]. destruct (dchar_of_digit _ _ D2) as [E2 R2].
    assert (d1 <> 0). { intros ->. apply Hz. rewrite <- E1. reflexivity. }
    assert (A1 : v mod 10 = d2) by lia. assert (A2 : v / 10 = d1) by lia.
    assert (A3 : d1 mod 10 = d1) by lia. assert (A4 : d1 / 10 = 0) by lia.
    cbn [digits_loop]. rewrite A1, A2, A3, A4.
    replace (d1 =? 0) with false by (symmetry; apply Z.eqb_neq; lia).
    change (0 =? 0) with true. cbv iota. rewrite E1, E2. reflexivity.
  - destruct (to_digit 10 c1) as [d1|] eqn:D1; [|discriminate].
    destruct (to_digit 10 c2) as [d2|] eqn:D2; [|discriminate].
    destruct (to_digit 10 c3) as [d3|] eqn:D3; [|discriminate]. injection Hu as Hv.
    destruct (dchar_of_digit _ _ D1) as [E1 R1]. destruct (dchar_of_digit _ _ D2) as [E2 R2].
    destruct (dchar_of_digit _ _ D3) as [E3 R3].
    assert (d1 <> 0). { intros ->. apply Hz. rewrite <- E1. reflexivity. }
    assert (A1 : v mod 10 = d3) by lia. assert (A2 : v / 10 = d1 * 10 + d2) by lia.
    assert (A3 : (d1 * 10 + d2) mod 10 = d2) by lia. assert (A4 : (d1 * 10 + d2) / 10 = d1) by lia.
    assert (A5 : d1 mod 10 = d1) by lia. assert (A6 : d1 / 10 = 0) by lia.
    cbn [digits_loop]. rewrite A1, A2, A3, A4, A5, A6.
    replace (d1 * 10 + d2 =? 0) with false by (symmetry; apply Z.eqb_neq; lia).
    replace (d1 =? 0) with false by (symmetry; apply Z.eqb_neq; lia).
    change (0 =? 0) with true. cbv iota. rewrite E1, E2, E3. reflexivity.
Qed.

Lemma read_octet_number_inv s v rest :
  read_number 10 3 false 255 s = Some (v, rest) -> s = dec_u8 v ++ rest /\ octet v.
Proof.
  unfold read_number. intros H.
  destruct (read_digits 10 3 s 0 O) as [[[v' n] rest']|] eqn:R; [|discriminate].
  destruct (read_digits_inv 10 3 _ _ _ _ _ _ R) as (ds & Es & Hu & Hn & Hm).
  destruct (Nat.eqb n 0) eqn:N0; [discriminate|]. apply Nat.eqb_neq in N0.
  cbn [negb andb] in H.
  destruct (match s with 48%N :: _ => true | _ => false end && Nat.ltb 1 n) eqn:LZ; [discriminate|].
  destruct (v' <=? 255) eqn:V; [|discriminate]. apply Z.leb_le in V. inversion H; subst v' rest'.
  assert (Hge : 0 <= v) by (eapply uval_ge; [| |exact Hu]; lia).
  split; [|unfold octet; lia].
  subst s. f_equal. unfold dec_u8. rewrite (dec_unique ds v Hu); [reflexivity | cbn in Hn; specialize (Hm ltac:(lia)); lia |].
  destruct ds as [|c1 [|c2 tl]]; auto. intros ->.
  cbn [app] in LZ. cbn [length] in Hn. replace (Nat.ltb 1 n) with true in LZ by (symmetry; apply Nat.ltb_lt; lia).
  discriminate.
Qed.

Lemma read_octet_sep_inv i s v rest :
  read_octet (S i) s = Some (v, rest) -> exists s', s = 46%N :: s' /\ s' = dec_u8 v ++ rest /\ octet v.
Proof.
  unfold read_octet, read_separator. destruct s as [|c s']; [discriminate|].
  destruct (c =? ch_dot)%N eqn:E; [|discriminate]. apply N.eqb_eq in E. subst c. intros H.
  destruct (read_octet_number_inv _ _ _ H) as [E1 Ho]. exists s'. auto.
Qed.

Lemma read_ipv4_inv s o rest :
  read_ipv4_addr s = Some (o, rest) ->
  exists a b c d, o = [a; b; c; d] /\ octet a /\ octet b /\ octet c /\ octet d /\ s = ipv4_to_string [a; b; c; d] ++ rest.
Proof.
  unfold read_ipv4_addr. intros H.
  destruct (read_octet 0 s) as [[a s1]|] eqn:R0; [|discriminate].
  destruct (read_octet 1 s1) as [[b s2]|] eqn:R1; [|discriminate].
  destruct (read_octet 2 s2) as [[c s3]|] eqn:R2; [|discriminate].
  destruct (read_octet 3 s3) as [[d s4]|] eqn:R3; [|discriminate].
  inversion H; subst o rest.
  unfold read_octet at 1, read_separator at 1 in R0. destruct (read_octet_number_inv _ _ _ R0) as [E0 Ha].
  destruct (read_octet_sep_inv _ _ _ _ R1) as (s1' & E1 & E1' & Hb).
  destruct (read_octet_sep_inv _ _ _ _ R2) as (s2' & E2 & E2' & Hc).
  destruct (read_octet_sep_inv _ _ _ _ R3) as (s3' & E3 & E3' & Hd).
  exists a, b, c, d. split; [reflexivity|]. split; [exact Ha|]. split; [exact Hb|]. split; [exact Hc|]. split; [exact Hd|].
  rewrite ipv4_text_app. subst. reflexivity.
Qed.

(* every text ip_aton accepts comes back from ip_ntoa *)
Theorem aton_ntoa_accepted s n :
  ip_aton (VBytes s) = ROk (VInt n) -> ip_ntoa (VInt n) = ROk (VBytes s).
Proof.
  unfold ip_aton, parse_ipv4. intros H.
  destruct (Nat.ltb 15 (length s)); [discriminate|].
  destruct (read_ipv4_addr s) as [[o rest]|] eqn:R; [|discriminate].
  destruct rest; [|discriminate]. inversion H; subst n.
  destruct (read_ipv4_inv _ _ _ R) as (a & b & c & d & -> & Ha & Hb & Hc & Hd & Es). rewrite app_nil_r in Es. subst s.
  destruct (u32_of_octets_inj_range a b c d Ha Hb Hc Hd) as [Hr Ho].
  unfold ip_ntoa.
  replace ((0 <=? u32_of_octets [a; b; c; d]) && (u32_of_octets [a; b; c; d] <? 4294967296)) with true
    by (symmetry; apply andb_true_iff; split; [apply Z.leb_le | apply Z.ltb_lt]; lia).
  rewrite Ho. reflexivity.
Qed.

Lemma read_groups_length : forall n i s, (length (fst (fst (read_groups n i s))) <= n)%nat.
Proof.
  induction n as [|n' IH]; intros i s; [cbn; lia|]. rewrite read_groups_S. cbv zeta.
  destruct (Nat.leb 1 n') eqn:L.
  - apply Nat.leb_le in L.
    destruct (read_separator ch_colon i read_ipv4_addr s) as [[o s']|].
    + destruct o as [|a [|b [|c [|d [|? ?]]]]]; try (cbn [fst length]; lia);
        (destruct (read_separator ch_colon i (read_number 16 4 true 65535) s) as [[g s'']|]; [|cbn; lia];
         specialize (IH (S i) s''); destruct (read_groups n' (S i) s'') as [[gs v4'] s3]; cbn [fst length] in *; lia).
    + destruct (read_separator ch_colon i (read_number 16 4 true 65535) s) as [[g s'']|]; [|cbn; lia].
      specialize (IH (S i) s''). destruct (read_groups n' (S i) s'') as [[gs v4'] s3]. cbn [fst length] in *. lia.
  - destruct (read_separator ch_colon i (read_number 16 4 true 65535) s) as [[g s'']|]; [|cbn; lia].
    specialize (IH (S i) s''). destruct (read_groups n' (S i) s'') as [[gs v4'] s3]. cbn [fst length] in *. lia.
Qed.

Lemma read_ipv6_length s g rest : read_ipv6_addr s = Some (g, rest) -> length g = 8%nat.
Proof.
  unfold read_ipv6_addr.
  pose proof (read_groups_length 8 0 s) as H8.
  destruct (read_groups 8 0 s) as [[head hv4] s1]. cbn [fst] in H8.
  destruct (Nat.eqb (length head) 8) eqn:E8.
  - intros H. inversion H; subst. apply Nat.eqb_eq in E8. exact E8.
  - apply Nat.eqb_neq in E8. destruct hv4; [discriminate|]. intros H.
    destruct s1 as [|c1 s1]; [discriminate|].
    destruct c1 as [|p]; [discriminate|]. do 6 (destruct p as [p|p|]; try discriminate).
    destruct s1 as [|c2 s2]; [discriminate|].
    destruct c2 as [|p]; [discriminate|]. do 6 (destruct p as [p|p|]; try discriminate).
    cbv zeta in H.
    pose proof (read_groups_length (8 - (length head + 1)) 0 s2) as Ht.
    destruct (read_groups (8 - (length head + 1)) 0 s2) as [[tl tv4] s3]. cbn [fst] in Ht.
    injection H as Hg Hrest. subst g. rewrite !app_length, repeat_length.
    destruct (length head) as [|[|[|[|[|[|[|[|n]]]]]]]]; cbv iota; lia.
Qed.

(* every IPv4 text ip_pton accepts comes back from ip_ntop *)
Theorem pton_ntop_accepted_v4 s b :
  ip_pton (VBytes s) = ROk (VBytes b) -> length b = 4%nat -> ip_ntop (VBytes b) = ROk (VBytes s).
Proof.
  unfold ip_pton, parse_ip. intros H Hl.
  destruct (read_ipv4_addr s) as [[o rest]|] eqn:R.
  - destruct rest; [|discriminate]. inversion H; subst b.
    destruct (read_ipv4_inv _ _ _ R) as (a & b' & c & d & -> & Ha & Hb & Hc & Hd & Es). rewrite app_nil_r in Es. subst s.
    unfold ip_ntop, bytes_of_octets. cbn [map length Nat.eqb octets_of_bytes].
    unfold octet in *. rewrite !Z2N.id by lia. reflexivity.
  - destruct (read_ipv6_addr s) as [[g rest]|] eqn:R6; [|discriminate]. destruct rest; [|discriminate]. inversion H; subst b.
    exfalso. apply read_ipv6_length in R6.
    unfold bytes_of_octets in Hl. rewrite map_length in Hl.
    do 9 (destruct g as [|? g]; try discriminate).
Qed.

(* every IPv4 text goes to its mapped IPv6 text and back *)
Theorem to6_to4_accepted s o :
  parse_ip s = Some (V4 o) ->
  exists t, ip_to_ipv6 (VBytes s) = ROk (VBytes t) /\ ipv6_to_ipv4 (VBytes t) = ROk (VBytes s).
Proof.
  intros H. pose proof H as H'. unfold parse_ip in H'.
  destruct (read_ipv4_addr s) as [[o' rest]|] eqn:R.
  - destruct rest; [|discriminate]. inversion H'; subst o'.
    destruct (read_ipv4_inv _ _ _ R) as (a & b & c & d & -> & Ha & Hb & Hc & Hd & Es). rewrite app_nil_r in Es. subst s.
    destruct (mapped_roundtrip a b c d Ha Hb Hc Hd) as [H1 H2]. eexists. split; [exact H1 | exact H2].
  - destruct (read_ipv6_addr s) as [[g rest]|]; [|discriminate]. destruct rest; discriminate.
Qed.
