(* Facts about the numeric functions that need the real-number semantics of binary64 multiplication, division and
   `i64 as f64`: obtained from Flocq 4.1 (BinarySingleNaN.Bmult_correct, Bdiv_correct, binary_normalize_correct) through the
   SpecFloat <-> Flocq bridge (B2SF / SF2B, PrimFloat.binary_round_aux_equiv).
   These lemmas depend on the four axioms of Coq's classical real numbers that Flocq uses
   (ClassicalDedekindReals.sig_not_dec, sig_forall_dec, functional_extensionality_dep, Classical_Prop.classic). *)
From Coq Require Import ZArith Reals Lia Lra Floats SpecFloat Bool.
From Flocq Require Import Core.Core IEEE754.BinarySingleNaN IEEE754.PrimFloat.
From VRL Require Import Base.Bytes Base.Value Model.ConvRes Model.Arith Model.IntText Model.NumFns.
From VRL Require Import Proofs.ArithProofs Proofs.ArithFloatProofs Proofs.NumFnsProofs.
Local Open Scope Z_scope.

Local Existing Instance Hprec.
Local Existing Instance Hmax.
Notation bf := (binary_float prec emax).

(* ---------- the bridge for * and / ---------- *)

Lemma f_mul_B (x y : bf) : f_mul (B2SF x) (B2SF y) = B2SF (Bmult mode_NE x y).
Proof.
  destruct x as [sx|sx| |sx mx ex Bx]; destruct y as [sy|sy| |sy my ey By]; try reflexivity.
  unfold f_mul. cbn [B2SF SFmul Bmult]. rewrite B2SF_SF2B. apply binary_round_aux_equiv.
Qed.

Lemma f_div_B (x y : bf) : f_div (B2SF x) (B2SF y) = B2SF (Bdiv mode_NE x y).
Proof.
  destruct x as [sx|sx| |sx mx ex Bx]; destruct y as [sy|sy| |sy my ey By]; try reflexivity.
  unfold f_div. cbn [B2SF SFdiv Bdiv]. rewrite B2SF_SF2B.
  set (melz := SFdiv_core_binary _ _ _ _ _ _). destruct melz as [[mz ez] lz].
  apply binary_round_aux_equiv.
Qed.

(* every valid datum is the image of a Flocq float *)
Lemma valid_is_B (x : spec_float) : valid_binary prec emax x = true -> exists b : bf, x = B2SF b.
Proof. intros H. exists (SF2B x H). symmetry. apply B2SF_SF2B. Qed.

(* ---------- 1.0 ---------- *)

Lemma one_valid : valid_binary prec emax f_one = true.
Proof. reflexivity. Qed.

Definition B1 : bf := SF2B f_one one_valid.

Lemma B1_SF : B2SF B1 = f_one.
Proof. apply B2SF_SF2B. Qed.

Lemma B1_R : B2R B1 = 1%R.
Proof.
  unfold B1. rewrite B2R_SF2B. unfold f_one, SF2R, F2R. cbn [cond_Zopp Fnum Fexp].
  change (bpow radix2 (-52)) with (/ IZR (Z.pow_pos 2 52))%R.
  change (Z.pow_pos 2 52) with 4503599627370496. field.
Qed.

Lemma round_B2R (b : bf) : round radix2 (fexp prec emax) (round_mode mode_NE) (B2R b) = B2R b.
Proof. apply round_generic. apply valid_rnd_round_mode. apply generic_format_B2R. Qed.

Lemma finite_not_nan (b : bf) : is_finite b = true -> is_nan b = false.
Proof. destruct b; cbn; congruence. Qed.

Lemma Bmult_one (b : bf) : is_finite b = true -> Bmult mode_NE b B1 = b.
Proof.
  intros Hf. pose proof (Bmult_correct prec emax Hprec Hmax mode_NE b B1) as H.
  rewrite B1_R, Rmult_1_r, round_B2R in H.
  rewrite Rlt_bool_true in H by apply abs_B2R_lt_emax.
  destruct H as (HR & HF & HS).
  assert (Hfin : is_finite (Bmult mode_NE b B1) = true) by (rewrite HF, Hf; reflexivity).
  apply B2R_Bsign_inj; auto.
  rewrite HS by (apply finite_not_nan; exact Hfin). cbn. destruct (Bsign b); reflexivity.
Qed.

Lemma Bdiv_one (b : bf) : is_finite b = true -> Bdiv mode_NE b B1 = b.
Proof.
  intros Hf. pose proof (Bdiv_correct prec emax Hprec Hmax mode_NE b B1) as H.
  rewrite B1_R in H. specialize (H ltac:(lra)).
  unfold Rdiv in H. rewrite Rinv_1, Rmult_1_r, round_B2R in H.
  rewrite Rlt_bool_true in H by apply abs_B2R_lt_emax.
  destruct H as (HR & HF & HS).
  assert (Hfin : is_finite (Bdiv mode_NE b B1) = true) by (rewrite HF, Hf; reflexivity).
  apply B2R_Bsign_inj; auto.
  rewrite HS by (apply finite_not_nan; exact Hfin). cbn. destruct (Bsign b); reflexivity.
Qed.

(* x * 1.0 = x and x / 1.0 = x, bit for bit, for every binary64 datum (NaN included) *)
Lemma f_mul_one x : valid_binary prec emax x = true -> f_mul x f_one = x.
Proof.
  intros Hv. destruct (valid_is_B x Hv) as (b & ->).
  destruct (is_finite b) eqn:Hf.
  - rewrite <- B1_SF, f_mul_B, Bmult_one by exact Hf. reflexivity.
  - destruct b as [s|s| |s m e Hb]; try discriminate; try reflexivity. cbn. destruct s; reflexivity.
Qed.

Lemma f_div_one x : valid_binary prec emax x = true -> f_div x f_one = x.
Proof.
  intros Hv. destruct (valid_is_B x Hv) as (b & ->).
  destruct (is_finite b) eqn:Hf.
  - rewrite <- B1_SF, f_div_B, Bdiv_one by exact Hf. reflexivity.
  - destruct b as [s|s| |s m e Hb]; try discriminate; try reflexivity. cbn. destruct s; reflexivity.
Qed.

(* ---------- precision 0: round_to_precision is exactly f64::round / ceil / floor ---------- *)

Lemma valid_mantissa_bound s m e : valid_binary prec emax (S754_finite s m e) = true -> Zpos m < 2 ^ 53.
Proof.
  intros Hv. cbn [valid_binary] in Hv. unfold bounded, canonical_mantissa in Hv.
  apply andb_true_iff in Hv. destruct Hv as [Hc _]. apply Zeq_bool_eq in Hc.
  unfold SpecFloat.fexp, SpecFloat.emin in Hc.
  pose proof (digits2_pos_bounds m) as [_ Hhi].
  assert (Zpos (digits2_pos m) <= 53) by (unfold prec, emax in Hc; lia).
  eapply Z.lt_le_trans; [exact Hhi|]. apply Z.pow_le_mono_r; lia.
Qed.

Lemma f_rint_valid k x : valid_binary prec emax x = true -> valid_binary prec emax (f_rint k x) = true.
Proof.
  intros Hv. destruct x as [s|s| |s m e]; try exact Hv.
  destruct (Z.leb_spec 0 e) as [He|He].
  - rewrite f_rint_integer by exact He. exact Hv.
  - pose proof (valid_mantissa_bound s m e Hv) as Hm.
    destruct (f_rint_spec k s m e He Hm) as (n & _ & Hvalid & _). exact Hvalid.
Qed.

Lemma f_rint_not_nan k x : f_is_nan x = false -> f_is_nan (f_rint k x) = false.
Proof.
  destruct x as [s|s| |s m e]; cbn [f_rint]; auto.
  intros _. destruct (0 <=? e); [reflexivity|].
  unfold sf_of_small_int. destruct (rint_mag _ _ _ _ _) as [|p|p]; try reflexivity.
  destruct (53 - Zdigits2 (Zpos p)); try reflexivity. apply binary_normalize_not_nan.
Qed.

Section PrecisionZero.
  Variable pow10 : Z -> spec_float.
  Hypothesis pow10_0 : pow10 0 = f_one.          (* powf(10.0, 0.0) = 1.0 *)

  Lemma round_to_precision_0 k x : valid_binary prec emax x = true ->
    round_to_precision pow10 x 0 k = f_rint k x.
  Proof.
    intros Hv. unfold round_to_precision. rewrite pow10_0.
    rewrite f_mul_one by exact Hv. apply f_div_one. apply f_rint_valid. exact Hv.
  Qed.

  Theorem round_fn_0 k x : valid_binary prec emax x = true -> f_is_nan x = false ->
    round_fn pow10 k (VFloat x) None = ROk (VFloat (f_rint k x))
    /\ round_fn pow10 k (VFloat x) (Some (VInt 0)) = ROk (VFloat (f_rint k x)).
  Proof.
    intros Hv Hn. unfold round_fn. rewrite round_to_precision_0 by exact Hv.
    pose proof (f_rint_not_nan k x Hn) as H. destruct (f_rint k x); try discriminate; split; reflexivity.
  Qed.
End PrecisionZero.

(* precision 0 (default or explicit), everything the property says, for every libm with powf(10, 0) = 1 *)
Theorem round_p0_full (pow10 : Z -> spec_float) (k : rkind) (x : spec_float) :
  pow10 0 = f_one -> valid_binary 53 1024 x = true -> f_is_finite x = true ->
  round_fn pow10 k (VFloat x) None = ROk (VFloat (f_rint k x))
  /\ round_fn pow10 k (VFloat x) (Some (VInt 0)) = ROk (VFloat (f_rint k x))
  /\ f_is_finite (f_rint k x) = true
  /\ valid_binary 53 1024 (f_rint k x) = true
  /\ match x with
     | S754_finite s m e =>
         if 0 <=? e then f_rint k x = x
         else exists n, f_int_value (f_rint k x) = Some n
                /\ let M := cond_Zopp s (Zpos m) in
                   let D := 2 ^ (- e) in
                   match k with
                   | KFloor => n * D <= M < (n + 1) * D
                   | KCeil => (n - 1) * D < M <= n * D
                   | KRound => 2 * Z.abs (M - n * D) <= D /\ (2 * Z.abs (M - n * D) = D -> Z.abs M < Z.abs (n * D))
                   end
     | _ => f_rint k x = x
     end.
Proof.
  intros H0 Hv Hf.
  assert (Hn : f_is_nan x = false) by (destruct x; try discriminate; reflexivity).
  destruct (round_fn_0 pow10 H0 k x Hv Hn) as [R1 R2].
  split; [exact R1|]. split; [exact R2|].
  pose proof (f_rint_valid k x Hv) as Hv'.
  destruct x as [s|s| |s m e]; try discriminate.
  - repeat split; auto.
  - destruct (Z.leb_spec 0 e) as [He|He].
    + rewrite (f_rint_integer k s m e He). repeat split; auto.
    + pose proof (valid_mantissa_bound s m e Hv) as Hm.
      destruct (f_rint_spec k s m e He Hm) as (n & Hval & _ & Hlaw).
      split; [|split; [exact Hv'|exists n; split; [exact Hval|exact Hlaw]]].
      destruct (f_rint k (S754_finite s m e)); try discriminate; reflexivity.
Qed.

(* ---------- to_int (to_float z) = z up to 2^53 ---------- *)

Lemma f_to_i64_of_real (b : bf) z : is_finite b = true -> B2R b = IZR z -> Z.abs z <= 2 ^ 53 ->
  f_to_i64 (B2SF b) = z.
Proof.
  intros Hf HR Hz. destruct b as [s|s| |s m e Hb]; try discriminate.
  - cbn in HR. cbn. apply eq_IZR in HR. congruence.
  - cbn [B2R] in HR. cbn [B2SF f_to_i64]. unfold F2R in HR. cbn [Fnum Fexp] in HR.
    unfold i64_min, i64_max. destruct (Z.leb_spec 0 e) as [He|He].
    + rewrite <- (IZR_Zpower radix2) in HR by exact He. rewrite <- mult_IZR in HR. apply eq_IZR in HR.
      change (radix_val radix2) with 2 in HR.
      destruct s; cbn [cond_Zopp] in HR; lia.
    + assert (HR' : IZR (cond_Zopp s (Zpos m)) = IZR (z * 2 ^ (- e))).
      { rewrite mult_IZR. rewrite <- HR. rewrite Rmult_assoc.
        replace (bpow radix2 e * IZR (2 ^ (- e)))%R with 1%R; [ring|].
        rewrite (IZR_Zpower radix2) by lia. rewrite <- bpow_plus. replace (e + - e) with 0 by lia. reflexivity. }
      apply eq_IZR in HR'.
      assert (0 < 2 ^ (- e)) by (apply Z.pow_pos_nonneg; lia).
      destruct s; cbn [cond_Zopp] in HR'.
      * assert (Zpos m = (- z) * 2 ^ (- e)) as -> by lia. rewrite Z.div_mul by lia. lia.
      * rewrite HR'. rewrite Z.div_mul by lia. lia.
Qed.

Theorem to_int_to_float z : Z.abs z <= 2 ^ 53 ->
  exists f, to_float (VInt z) = ROk (VFloat f) /\ to_int (VFloat f) = ROk (VInt z).
Proof.
  intros Hz. destruct (Bof_exact z Hz) as [HR HF].
  exists (of_i64 z). split.
  - unfold to_float. pose proof (of_i64_not_nan z) as Hn. destruct (of_i64 z); try discriminate; reflexivity.
  - unfold to_int. rewrite of_i64_Bof. rewrite (f_to_i64_of_real (Bof z) z HF HR Hz). reflexivity.
Qed.
