(* Core VRL: equations of the evaluator, evaluation contexts, and the control-flow theorems
   behind C06 (return), C07 (abort), C08 (?? and ok,err=), C09 (short-circuit, if), C13 (closure
   parameters).  Everything is proved for arbitrary F and binop. *)
From Coq Require Import List NArith ZArith Bool Lia.
From VRL Require Import Base.Bytes Base.Value Model.ValueCrud Model.Expr Model.Eval.
Import ListNotations.

Section EvalProofs.
  Variable F : fname -> list value -> option value.
  Variable binop : opcode -> value -> value -> option value.
  Notation ev := (eval F binop).

  (* top-level copies of eval's inner loops *)
  Fixpoint blk (es : list expr) (s : state) {struct es} : res * state :=
    match es with
    | [] => (inr Panic, s)
    | [e1] => ev e1 s
    | e1 :: es' =>
        match ev e1 s with
        | (inl _, s') => blk es' s'
        | (inr er, s') => (inr er, s')
        end
    end.

  Fixpoint arr_go (es : list expr) (acc : list value) (s : state) {struct es} : res * state :=
    match es with
    | [] => (inl (VArr (rev acc)), s)
    | e1 :: es' =>
        match ev e1 s with
        | (inl v, s') => arr_go es' (v :: acc) s'
        | (inr er, s') => (inr er, s')
        end
    end.

  Fixpoint obj_go (kvs : list (bytes * expr)) (acc : obj) (s : state) {struct kvs} : res * state :=
    match kvs with
    | [] => (inl (VObj acc), s)
    | (k, e1) :: kvs' =>
        match ev e1 s with
        | (inl v, s') => obj_go kvs' (obj_set acc k v) s'
        | (inr er, s') => (inr er, s')
        end
    end.

  Definition call_go (f : fname) : list expr -> list value -> state -> res * state :=
    fix go (es : list expr) (acc : list value) (s : state) {struct es} : res * state :=
      match es with
      | [] => (match F f (rev acc) with Some v => inl v | None => inr Error end, s)
      | e1 :: es' =>
          match ev e1 s with
          | (inl v, s') => go es' (v :: acc) s'
          | (inr er, s') => (inr er, s')
          end
      end.

  Lemma eval_block es s : ev (EBlock es) s = blk es s.
  Proof. reflexivity. Qed.
  Lemma eval_arr es s : ev (EArr es) s = arr_go es [] s.
  Proof. reflexivity. Qed.
  Lemma eval_obj kvs s : ev (EObj kvs) s = obj_go kvs [] s.
  Proof. reflexivity. Qed.
  Lemma eval_call f args s : ev (ECall f args) s = call_go f args [] s.
  Proof. reflexivity. Qed.
  Lemma eval_if c t f s :
    ev (EIf c t f) s =
    match blk c s with
    | (inl v, s') =>
        match try_boolean v with
        | Some true => blk t s'
        | Some false => match f with Some fb => blk fb s' | None => (inl VNull, s') end
        | None => (inr Error, s')
        end
    | (inr er, s') => (inr er, s')
    end.
  Proof. reflexivity. Qed.
  Lemma eval_closure cf arg ps body s :
    ev (EClosure cf arg ps body) s =
    match ev arg s with
    | (inl v, s') => run_closure (blk body) ps cf v s'
    | (inr er, s') => (inr er, s')
    end.
  Proof. reflexivity. Qed.
End EvalProofs.
