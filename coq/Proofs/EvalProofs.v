(* Core VRL: equations of the evaluator, evaluation contexts, and the control-flow theorems
   behind C06 (return), C07 (abort), C08 (?? and ok,err=), C09 (short-circuit, if), C13 (closure
   parameters).  Everything is proved for arbitrary F and binop. *)
From Coq Require Import List NArith ZArith Bool Lia.
From VRL Require Import Base.Bytes Base.Value Model.ValueCrud Model.Expr Model.Eval.
Import ListNotations.

Section EvalProofs.
  Variable F : fname -> list value -> option value.
  Variable binop : opcode -> value -> value -> option value.
  Notation ev := (eval F binop).

  (* top-level copies of eval's inner loops *)
  Fixpoint blk (es : list expr) (s : state) {struct es} : res * state :=
    match es with
    | [] => (inr Panic, s)
    | [e1] => ev e1 s
    | e1 :: es' =>
        match ev e1 s with
        | (inl _, s') => blk es' s'
        | (inr er, s') => (inr er, s')
        end
    end.

  Fixpoint arr_go (es : list expr) (acc : list value) (s : state) {struct es} : res * state :=
    match es with
    | [] => (inl (VArr (rev acc)), s)
    | e1 :: es' =>
        match ev e1 s with
        | (inl v, s') => arr_go es' (v :: acc) s'
        | (inr er, s') => (inr er, s')
        end
    end.

  Fixpoint obj_go (kvs : list (bytes * expr)) (acc : obj) (s : state) {struct kvs} : res * state :=
    match kvs with
    | [] => (inl (VObj acc), s)
    | (k, e1) :: kvs' =>
        match ev e1 s with
        | (inl v, s') => obj_go kvs' (obj_set acc k v) s'
        | (inr er, s') => (inr er, s')
        end
    end.

  Definition call_go (f : fname) : list expr -> list value -> state -> res * state :=
    fix go (es : list expr) (acc : list value) (s : state) {struct es} : res * state :=
      match es with
      | [] => (match F f (rev acc) with Some v => inl v | None => inr Error end, s)
      | e1 :: es' =>
          match ev e1 s with
          | (inl v, s') => go es' (v :: acc) s'
          | (inr er, s') => (inr er, s')
          end
      end.

  Lemma eval_block es s : ev (EBlock es) s = blk es s.
  Proof. reflexivity. Qed.
  Lemma eval_arr es s : ev (EArr es) s = arr_go es [] s.
  Proof. reflexivity. Qed.
  Lemma eval_obj kvs s : ev (EObj kvs) s = obj_go kvs [] s.
  Proof. reflexivity. Qed.
  Lemma eval_call f args s : ev (ECall f args) s = call_go f args [] s.
  Proof. reflexivity. Qed.
  Lemma eval_if c t f s :
    ev (EIf c t f) s =
    match blk c s with
    | (inl v, s') =>
        match try_boolean v with
        | Some true => blk t s'
        | Some false => match f with Some fb => blk fb s' | None => (inl VNull, s') end
        | None => (inr Error, s')
        end
    | (inr er, s') => (inr er, s')
    end.
  Proof. reflexivity. Qed.
  Lemma eval_closure cf arg ps body s :
    ev (EClosure cf arg ps body) s =
    match ev arg s with
    | (inl v, s') => run_closure (blk body) ps cf v s'
    | (inr er, s') => (inr er, s')
    end.
  Proof. reflexivity. Qed.

  (* ---------- one-step equations (definitional; they are C08's and C09's statements) ---------- *)

  Lemma eval_err a b s :
    ev (EOp OErr a b) s =
    match ev a s with
    | (inl v, s') => (inl v, s')
    | (inr Error, s') => ev b s'
    | (inr er, s') => (inr er, s')
    end.
  Proof. reflexivity. Qed.

  Lemma eval_or a b s :
    ev (EOp OOr a b) s =
    match ev a s with
    | (inl v, s') => if falsy v then ev b s' else (inl v, s')
    | (inr er, s') => (inr er, s')
    end.
  Proof. reflexivity. Qed.

  Lemma eval_and a b s :
    ev (EOp OAnd a b) s =
    match ev a s with
    | (inl v, s') =>
        if falsy v then (inl (VBool false), s')
        else match ev b s' with
             | (inl w, s'') => (match try_and v w with Some r => inl r | None => inr Error end, s'')
             | (inr er, s'') => (inr er, s'')
             end
    | (inr er, s') => (inr er, s')
    end.
  Proof. reflexivity. Qed.

  Definition plain (o : opcode) : bool :=
    match o with OErr | OOr | OAnd => false | _ => true end.

  Lemma eval_plain o a b s :
    plain o = true ->
    ev (EOp o a b) s =
    match ev a s with
    | (inl v, s') =>
        match ev b s' with
        | (inl w, s'') => (match binop o v w with Some r => inl r | None => inr Error end, s'')
        | (inr er, s'') => (inr er, s'')
        end
    | (inr er, s') => (inr er, s')
    end.
  Proof. destruct o; intros H; try discriminate; reflexivity. Qed.

  Lemma eval_assign_inf ok er e d s :
    ev (EAssignInf ok er e d) s =
    match ev e s with
    | (inl v, s') => (inl v, target_insert (target_insert s' ok v) er VNull)
    | (inr Error, s') => (inl ERRMSG, target_insert (target_insert s' ok d) er ERRMSG)
    | (inr c, s') => (inr c, s')
    end.
  Proof. reflexivity. Qed.

  (* ---------- evaluation contexts ---------- *)

  Inductive ctx :=
  | CHole
  | CErrL (C : ctx) (b : expr) | CErrR (a : expr) (C : ctx)
  | COrL (C : ctx) (b : expr) | COrR (a : expr) (C : ctx)
  | CAndL (C : ctx) (b : expr) | CAndR (a : expr) (C : ctx)
  | COpL (o : opcode) (C : ctx) (b : expr) | COpR (o : opcode) (a : expr) (C : ctx)
  | CNot (C : ctx) | CGroup (C : ctx) | CQExpr (C : ctx) (p : path)
  | CAssign (t : target) (C : ctx) | CAssignInf (ok er : target) (C : ctx) (d : value)
  | CArr (pre : list expr) (C : ctx) (post : list expr)
  | CObj (pre : list (bytes * expr)) (k : bytes) (C : ctx) (post : list (bytes * expr))
  | CCall (f : fname) (pre : list expr) (C : ctx) (post : list expr)
  | CBlock (pre : list expr) (C : ctx) (post : list expr)
  | CIfPred (pre : list expr) (C : ctx) (post : list expr) (t : list expr) (f : option (list expr))
  | CIfThen (c : list expr) (pre : list expr) (C : ctx) (post : list expr) (f : option (list expr))
  | CIfElse (c t : list expr) (pre : list expr) (C : ctx) (post : list expr)
  | CReturn (C : ctx) | CAbortMsg (C : ctx)
  | CClosureArg (cf : cfn) (C : ctx) (ps : list ident) (body : list expr).

  Fixpoint plug (C : ctx) (x : expr) : expr :=
    match C with
    | CHole => x
    | CErrL C b => EOp OErr (plug C x) b
    | CErrR a C => EOp OErr a (plug C x)
    | COrL C b => EOp OOr (plug C x) b
    | COrR a C => EOp OOr a (plug C x)
    | CAndL C b => EOp OAnd (plug C x) b
    | CAndR a C => EOp OAnd a (plug C x)
    | COpL o C b => EOp o (plug C x) b
    | COpR o a C => EOp o a (plug C x)
    | CNot C => ENot (plug C x)
    | CGroup C => EGroup (plug C x)
    | CQExpr C p => EQExpr (plug C x) p
    | CAssign t C => EAssign t (plug C x)
    | CAssignInf ok er C d => EAssignInf ok er (plug C x) d
    | CArr pre C post => EArr (pre ++ plug C x :: post)
    | CObj pre k C post => EObj (pre ++ (k, plug C x) :: post)
    | CCall f pre C post => ECall f (pre ++ plug C x :: post)
    | CBlock pre C post => EBlock (pre ++ plug C x :: post)
    | CIfPred pre C post t f => EIf (pre ++ plug C x :: post) t f
    | CIfThen c pre C post f => EIf c (pre ++ plug C x :: post) f
    | CIfElse c t pre C post => EIf c t (Some (pre ++ plug C x :: post))
    | CReturn C => EReturn (plug C x)
    | CAbortMsg C => EAbort (Some (plug C x))
    | CClosureArg cf C ps body => EClosure cf (plug C x) ps body
    end.

  (* everything evaluated before the hole succeeds: the state in which the hole is evaluated *)
  Fixpoint seq (es : list expr) (s : state) : option state :=
    match es with
    | [] => Some s
    | e :: r => match ev e s with (inl _, s') => seq r s' | _ => None end
    end.

  Definition bind_st (o : option state) (f : state -> option state) : option state :=
    match o with Some s => f s | None => None end.

  (* `reach C s = Some s1`: starting in s, evaluation of `plug C x` gets to the hole, in state s1
     (all earlier operands succeed and the short-circuit conditions select the hole) *)
  Fixpoint reach (C : ctx) (s : state) : option state :=
    match C with
    | CHole => Some s
    | CErrL C _ | COrL C _ | CAndL C _ => reach C s
    | CErrR a C => match ev a s with (inr Error, s') => reach C s' | _ => None end
    | COrR a C => match ev a s with (inl v, s') => if falsy v then reach C s' else None | _ => None end
    | CAndR a C => match ev a s with (inl v, s') => if falsy v then None else reach C s' | _ => None end
    | COpL o C _ => if plain o then reach C s else None
    | COpR o a C => if plain o then match ev a s with (inl _, s') => reach C s' | _ => None end else None
    | CNot C | CGroup C | CQExpr C _ | CAssign _ C | CAssignInf _ _ C _ | CReturn C | CAbortMsg C
    | CClosureArg _ C _ _ => reach C s
    | CArr pre C _ | CCall _ pre C _ | CBlock pre C _ | CIfPred pre C _ _ _ => bind_st (seq pre s) (reach C)
    | CObj pre _ C _ => bind_st (seq (map snd pre) s) (reach C)
    | CIfThen c pre C _ _ =>
        match blk c s with (inl (VBool true), s') => bind_st (seq pre s') (reach C) | _ => None end
    | CIfElse c _ pre C _ =>
        match blk c s with (inl (VBool false), s') => bind_st (seq pre s') (reach C) | _ => None end
    end.

  Definition is_ctl (e : err) : bool := match e with Return _ | Abort _ => true | _ => false end.

  Lemma blk_ctl pre : forall e post s s1 ce s2,
    seq pre s = Some s1 -> ev e s1 = (inr ce, s2) -> blk (pre ++ e :: post) s = (inr ce, s2).
  Proof.
    induction pre as [|p pre IH]; intros e post s s1 ce s2 Hs He; cbn [seq] in Hs.
    - inversion Hs; subst. cbn [app blk]. destruct post; rewrite He; reflexivity.
    - destruct (ev p s) as [[v|er] s'] eqn:Ep; try discriminate.
      cbn [app]. destruct (pre ++ e :: post) eqn:El; [destruct pre; discriminate|].
      change (blk (p :: e0 :: l) s) with
        (match ev p s with (inl _, s') => blk (e0 :: l) s' | (inr er, s') => (inr er, s') end).
      rewrite Ep. rewrite <- El. eapply IH; eauto.
  Qed.

  Lemma arr_go_ctl pre : forall e post acc s s1 ce s2,
    seq pre s = Some s1 -> ev e s1 = (inr ce, s2) -> arr_go (pre ++ e :: post) acc s = (inr ce, s2).
  Proof.
    induction pre as [|p pre IH]; intros e post acc s s1 ce s2 Hs He; cbn [seq] in Hs.
    - inversion Hs; subst. cbn [app arr_go]. rewrite He. reflexivity.
    - destruct (ev p s) as [[v|er] s'] eqn:Ep; try discriminate.
      cbn [app arr_go]. rewrite Ep. eapply IH; eauto.
  Qed.

  Lemma call_go_ctl f pre : forall e post acc s s1 ce s2,
    seq pre s = Some s1 -> ev e s1 = (inr ce, s2) -> call_go f (pre ++ e :: post) acc s = (inr ce, s2).
  Proof.
    induction pre as [|p pre IH]; intros e post acc s s1 ce s2 Hs He; cbn [seq] in Hs.
    - inversion Hs; subst. cbn [app call_go]. rewrite He. reflexivity.
    - destruct (ev p s) as [[v|er] s'] eqn:Ep; try discriminate.
      cbn [app call_go]. rewrite Ep. eapply IH; eauto.
  Qed.

  Lemma obj_go_ctl pre : forall k e post acc s s1 ce s2,
    seq (map snd pre) s = Some s1 -> ev e s1 = (inr ce, s2) ->
    obj_go (pre ++ (k, e) :: post) acc s = (inr ce, s2).
  Proof.
    induction pre as [|[k0 p] pre IH]; intros k e post acc s s1 ce s2 Hs He; cbn [seq map snd] in Hs.
    - inversion Hs; subst. cbn [app obj_go]. rewrite He. reflexivity.
    - destruct (ev p s) as [[v|er] s'] eqn:Ep; try discriminate.
      cbn [app obj_go]. rewrite Ep. eapply IH; eauto.
  Qed.

  (* The central lemma of C06 and C07: a `return` or `abort` raised at the hole of any context
     (no closure body in between) comes out of the whole expression unchanged, and the state is
     exactly the state at that point: nothing that comes later in evaluation order runs. *)
  Theorem ctl_propagates C : forall x s s1 ce s2,
    reach C s = Some s1 -> ev x s1 = (inr ce, s2) -> is_ctl ce = true ->
    ev (plug C x) s = (inr ce, s2).
  Proof.
    induction C; intros x s s1 ce s2 Hr Hx Hc; cbn [reach] in Hr; cbn [plug].
    - inversion Hr; subst; exact Hx.
    - rewrite eval_err, (IHC _ _ _ _ _ Hr Hx Hc). destruct ce; try discriminate; reflexivity.
    - rewrite eval_err. destruct (ev a s) as [[v|[ | | | ]] s'] eqn:Ea; try discriminate. eauto.
    - rewrite eval_or, (IHC _ _ _ _ _ Hr Hx Hc). reflexivity.
    - rewrite eval_or. destruct (ev a s) as [[v|er] s'] eqn:Ea; try discriminate.
      destruct (falsy v); try discriminate. eauto.
    - rewrite eval_and, (IHC _ _ _ _ _ Hr Hx Hc). reflexivity.
    - rewrite eval_and. destruct (ev a s) as [[v|er] s'] eqn:Ea; try discriminate.
      destruct (falsy v); try discriminate. rewrite (IHC _ _ _ _ _ Hr Hx Hc). reflexivity.
    - destruct (plain o) eqn:Ho; try discriminate.
      rewrite (eval_plain _ _ _ _ Ho), (IHC _ _ _ _ _ Hr Hx Hc). reflexivity.
    - destruct (plain o) eqn:Ho; try discriminate.
      rewrite (eval_plain _ _ _ _ Ho). destruct (ev a s) as [[v|er] s'] eqn:Ea; try discriminate.
      rewrite (IHC _ _ _ _ _ Hr Hx Hc). reflexivity.
    - cbn [eval]. rewrite (IHC _ _ _ _ _ Hr Hx Hc). reflexivity.
    - cbn [eval]. eauto.
    - cbn [eval]. rewrite (IHC _ _ _ _ _ Hr Hx Hc). reflexivity.
    - cbn [eval]. rewrite (IHC _ _ _ _ _ Hr Hx Hc). reflexivity.
    - rewrite eval_assign_inf, (IHC _ _ _ _ _ Hr Hx Hc). destruct ce; try discriminate; reflexivity.
    - rewrite eval_arr. destruct (seq pre s) as [s0|] eqn:Es; try discriminate. cbn [bind_st] in Hr.
      eapply arr_go_ctl; eauto.
    - rewrite eval_obj. destruct (seq (map snd pre) s) as [s0|] eqn:Es; try discriminate. cbn [bind_st] in Hr.
      eapply obj_go_ctl; eauto.
    - rewrite eval_call. destruct (seq pre s) as [s0|] eqn:Es; try discriminate. cbn [bind_st] in Hr.
      eapply call_go_ctl; eauto.
    - rewrite eval_block. destruct (seq pre s) as [s0|] eqn:Es; try discriminate. cbn [bind_st] in Hr.
      eapply blk_ctl; eauto.
    - rewrite eval_if. destruct (seq pre s) as [s0|] eqn:Es; try discriminate. cbn [bind_st] in Hr.
      erewrite blk_ctl; eauto.
    - rewrite eval_if. destruct (blk c s) as [[[ | | | |[|]| | | | ]|er] s'] eqn:Ec; try discriminate.
      destruct (seq pre s') as [s0|] eqn:Es; try discriminate. cbn [bind_st] in Hr.
      cbn [try_boolean]. eapply blk_ctl; eauto.
    - rewrite eval_if. destruct (blk c s) as [[[ | | | |[|]| | | | ]|er] s'] eqn:Ec; try discriminate.
      destruct (seq pre s') as [s0|] eqn:Es; try discriminate. cbn [bind_st] in Hr.
      cbn [try_boolean]. eapply blk_ctl; eauto.
    - cbn [eval]. rewrite (IHC _ _ _ _ _ Hr Hx Hc). reflexivity.
    - cbn [eval]. rewrite (IHC _ _ _ _ _ Hr Hx Hc). reflexivity.
    - rewrite eval_closure, (IHC _ _ _ _ _ Hr Hx Hc). reflexivity.
  Qed.

  (* ---------- C06 / C07 at program level ---------- *)

  (* the state in which the program's first expression is evaluated: Runtime::resolve has read the
     event root, which consumed one slot of the target's fault schedule *)
  Definition rooted (s : state) : state :=
    mkState (vars s) (Expr.ev s) (md s) (tlog s) (snd (pop_fault s)).
  Definition root_ok (s : state) : Prop := fst (pop_fault s) = false.

  Lemma run_rooted es s : root_ok s ->
    run F binop es s =
    match ev (EBlock es) (rooted s) with
    | (inl v, s') => (Success v, s')
    | (inr (Return v), s') => (Success v, s')
    | (inr (Abort m), s') => (Aborted m, s')
    | (inr Error, s') => (Failed, s')
    | (inr Panic, s') => (Panicked, s')
    end.
  Proof.
    unfold root_ok, run, rooted. destruct (pop_fault s) as [bad fs]. cbn [fst snd]. intros ->. reflexivity.
  Qed.

  Theorem return_ends_program pre C post e s s0 s1 v s2 :
    root_ok s ->
    seq pre (rooted s) = Some s0 -> reach C s0 = Some s1 -> ev e s1 = (inl v, s2) ->
    run F binop (pre ++ plug C (EReturn e) :: post) s = (Success v, s2).
  Proof.
    intros Hroot Hp Hr He. rewrite (run_rooted _ _ Hroot).
    assert (H : ev (EBlock (pre ++ plug C (EReturn e) :: post)) (rooted s) = (inr (Return v), s2)).
    { apply (ctl_propagates (CBlock pre C post) (EReturn e) (rooted s) s1 (Return v) s2).
      - cbn [reach]. rewrite Hp. exact Hr.
      - cbn [eval]. rewrite He. reflexivity.
      - reflexivity. }
    rewrite H. reflexivity.
  Qed.

  Theorem abort_ends_program pre C post (m : option expr) s s0 s1 msg s2 :
    root_ok s ->
    seq pre (rooted s) = Some s0 -> reach C s0 = Some s1 ->
    match m with
    | None => msg = None /\ s2 = s1
    | Some me => exists b, ev me s1 = (inl (VBytes b), s2) /\ msg = Some b
    end ->
    run F binop (pre ++ plug C (EAbort m) :: post) s = (Aborted msg, s2).
  Proof.
    intros Hroot Hp Hr Hm. rewrite (run_rooted _ _ Hroot).
    assert (H : ev (EBlock (pre ++ plug C (EAbort m) :: post)) (rooted s) = (inr (Abort msg), s2)).
    { apply (ctl_propagates (CBlock pre C post) (EAbort m) (rooted s) s1 (Abort msg) s2).
      - cbn [reach]. rewrite Hp. exact Hr.
      - destruct m as [me|].
        + destruct Hm as [b [Hb ->]]. cbn [eval]. rewrite Hb. reflexivity.
        + destruct Hm as [-> ->]. reflexivity.
      - reflexivity. }
    rewrite H. reflexivity.
  Qed.

  (* ---------- variables ---------- *)

  Lemma var_get_remove_same vs x : var_get (var_remove vs x) x = None.
  Proof.
    induction vs as [|[y v] vs IH]; cbn; auto.
    destruct (bytes_eqb y x) eqn:E; auto. cbn. rewrite E. exact IH.
  Qed.

  Lemma var_get_remove_other vs x y : y <> x -> var_get (var_remove vs x) y = var_get vs y.
  Proof.
    intros Hne. induction vs as [|[z v] vs IH]; cbn; auto.
    destruct (bytes_eqb z x) eqn:E.
    - apply bytes_eqb_eq in E. subst z.
      assert (H : bytes_eqb x y = false) by (apply bytes_eqb_neq; congruence). rewrite H. exact IH.
    - cbn. destruct (bytes_eqb z y); auto.
  Qed.

  Lemma var_get_set_same vs x v : var_get (var_set vs x v) x = Some v.
  Proof. unfold var_set. cbn. rewrite bytes_eqb_refl. reflexivity. Qed.

  Lemma var_get_set_other vs x y v : y <> x -> var_get (var_set vs x v) y = var_get vs y.
  Proof.
    intros Hne. unfold var_set. cbn.
    assert (H : bytes_eqb x y = false) by (apply bytes_eqb_neq; congruence). rewrite H.
    apply var_get_remove_other. exact Hne.
  Qed.

  (* ---------- C13: closure parameters are restored, whatever the body does and however it ends ---------- *)

  Definition same_var (x : ident) (s s' : state) : Prop := var_get (vars s') x = var_get (vars s) x.

  Lemma cleanup_bind_same body p a s x :
    p = Some x -> same_var x s (snd (run1 body p a s)).
  Proof.
    intros ->. unfold run1, same_var. cbn [bind_param].
    destruct (body (set_vars s (var_set (vars s) x a))) as [r s2].
    cbn [snd cleanup_param]. destruct (var_get (vars s) x) as [o|]; cbn [set_vars vars].
    - apply var_get_set_same.
    - apply var_get_remove_same.
  Qed.

  Lemma run2_restores body p0 p1 a b s x :
    (p0 = Some x \/ p1 = Some x) -> p0 <> p1 \/ p0 = None ->
    same_var x s (snd (run2 body p0 p1 a b s)).
  Proof.
    intros Hx Hd. unfold run2, same_var.
    destruct p0 as [x0|], p1 as [x1|]; cbn [bind_param].
    - destruct (body _) as [r s3]. cbn [snd cleanup_param].
      assert (Hne : x0 <> x1) by (destruct Hd as [Hd|Hd]; congruence).
      destruct Hx as [Hx|Hx]; inversion Hx; subst x.
      + (* x = x0 *)
        cbn [set_vars vars].
        destruct (var_get (var_set (vars s) x0 a) x1) as [o1|]; cbn [set_vars vars].
        * rewrite var_get_set_other by congruence.
          destruct (var_get (vars s) x0); cbn [set_vars vars]; [apply var_get_set_same|apply var_get_remove_same].
        * rewrite var_get_remove_other by congruence.
          destruct (var_get (vars s) x0); cbn [set_vars vars]; [apply var_get_set_same|apply var_get_remove_same].
      + (* x = x1 *)
        cbn [set_vars vars]. rewrite (var_get_set_other (vars s) x0 x1 a) by congruence.
        destruct (var_get (vars s) x1) as [o1|]; cbn [set_vars vars];
          [apply var_get_set_same|apply var_get_remove_same].
    - destruct (body _) as [r s3]. cbn [snd cleanup_param].
      destruct Hx as [Hx|Hx]; inversion Hx; subst x.
      destruct (var_get (vars s) x0); cbn [set_vars vars]; [apply var_get_set_same|apply var_get_remove_same].
    - destruct (body _) as [r s3]. cbn [snd cleanup_param].
      destruct Hx as [Hx|Hx]; inversion Hx; subst x.
      destruct (var_get (vars s) x1); cbn [set_vars vars]; [apply var_get_set_same|apply var_get_remove_same].
    - destruct Hx as [Hx|Hx]; discriminate.
  Qed.

  Lemma loop_same_var {A B} (step : A -> state -> (B + err) * state) x :
    (forall a s, same_var x s (snd (step a s))) ->
    forall items s, same_var x s (snd (loop step items s)).
  Proof.
    intros Hs. induction items as [|a r IH]; intros s; cbn [loop].
    - reflexivity.
    - specialize (Hs a s). destruct (step a s) as [[b|e] s'] eqn:E; cbn [snd] in *.
      + specialize (IH s'). destruct (loop step r s') as [[bs|e] s'']; cbn [snd] in *;
          unfold same_var in *; congruence.
      + exact Hs.
  Qed.

  (* the parameters a closure-taking function binds *)
  Definition cparams (cf : cfn) (ps : list ident) : list (option ident) :=
    match cf with
    | CForEach | CFilter => [param ps 0; param ps 1]
    | CMapKeys | CMapValues => [param ps 0]
    end.

  Theorem closure_params_restored body ps cf v s x :
    In (Some x) (cparams cf ps) -> (param ps 0 <> param ps 1 \/ param ps 0 = None) ->
    same_var x s (snd (run_closure body ps cf v s)).
  Proof.
    intros Hin Hd.
    assert (H2 : forall a b s0, (param ps 0 = Some x \/ param ps 1 = Some x) ->
                 same_var x s0 (snd (run2 body (param ps 0) (param ps 1) a b s0))).
    { intros. apply run2_restores; auto. }
    assert (H1 : forall a s0, param ps 0 = Some x -> same_var x s0 (snd (run1 body (param ps 0) a s0))).
    { intros. apply cleanup_bind_same; auto. }
    unfold run_closure, lift.
    destruct cf; cbn [cparams In] in Hin.
    - assert (Hx : param ps 0 = Some x \/ param ps 1 = Some x) by (destruct Hin as [H|[H|[]]]; auto).
      destruct v; try reflexivity.
      + pose proof (loop_same_var (step_each_kv body ps) x) as L.
        match goal with |- context [loop ?st ?it ?s0] =>
          specialize (L (fun a s0 => ltac:(unfold step_each_kv; specialize (H2 (VBytes (fst a)) (snd a) s0 Hx);
            destruct (run2 _ _ _ _ _ _) as [[?|?] ?]; exact H2)) it s0);
          destruct (loop st it s0) as [[?|?] ?]; exact L end.
      + pose proof (loop_same_var (step_each_iv body ps) x) as L.
        match goal with |- context [loop ?st ?it ?s0] =>
          specialize (L (fun a s0 => ltac:(unfold step_each_iv; specialize (H2 (VInt (fst a)) (snd a) s0 Hx);
            destruct (run2 _ _ _ _ _ _) as [[?|?] ?]; exact H2)) it s0);
          destruct (loop st it s0) as [[?|?] ?]; exact L end.
    - assert (Hx : param ps 0 = Some x \/ param ps 1 = Some x) by (destruct Hin as [H|[H|[]]]; auto).
      destruct v; try reflexivity.
      + pose proof (loop_same_var (step_filter_kv body ps) x) as L.
        match goal with |- context [loop ?st ?it ?s0] =>
          specialize (L (fun a s0 => ltac:(unfold step_filter_kv; specialize (H2 (VBytes (fst a)) (snd a) s0 Hx);
            destruct (run2 _ _ _ _ _ _) as [[[]|?] ?]; exact H2)) it s0);
          destruct (loop st it s0) as [[?|?] ?]; exact L end.
      + pose proof (loop_same_var (step_filter_iv body ps) x) as L.
        match goal with |- context [loop ?st ?it ?s0] =>
          specialize (L (fun a s0 => ltac:(unfold step_filter_iv; specialize (H2 (VInt (fst a)) (snd a) s0 Hx);
            destruct (run2 _ _ _ _ _ _) as [[[]|?] ?]; exact H2)) it s0);
          destruct (loop st it s0) as [[?|?] ?]; exact L end.
    - assert (Hx : param ps 0 = Some x) by (destruct Hin as [H|[]]; auto).
      destruct v; try reflexivity.
      pose proof (loop_same_var (step_mapk body ps) x) as L.
      match goal with |- context [loop ?st ?it ?s0] =>
        specialize (L (fun a s0 => ltac:(unfold step_mapk; specialize (H1 (VBytes (fst a)) s0 Hx);
          destruct (run1 _ _ _ _) as [[[]|?] ?]; exact H1)) it s0);
        destruct (loop st it s0) as [[?|?] ?]; exact L end.
    - assert (Hx : param ps 0 = Some x) by (destruct Hin as [H|[]]; auto).
      destruct v; try (apply H1; exact Hx).
      + pose proof (loop_same_var (step_mapv_kv body ps) x) as L.
        match goal with |- context [loop ?st ?it ?s0] =>
          specialize (L (fun a s0 => ltac:(unfold step_mapv_kv; specialize (H1 (snd a) s0 Hx);
            destruct (run1 _ _ _ _) as [[?|?] ?]; exact H1)) it s0);
          destruct (loop st it s0) as [[?|?] ?]; exact L end.
      + pose proof (loop_same_var (step_mapv body ps) x) as L.
        match goal with |- context [loop ?st ?it ?s0] =>
          specialize (L (fun a s0 => ltac:(unfold step_mapv; specialize (H1 a s0 Hx);
            destruct (run1 _ _ _ _) as [[?|?] ?]; exact H1)) it s0);
          destruct (loop st it s0) as [[?|?] ?]; exact L end.
  Qed.

  (* ---------- C06 inside closures: `return` ends the current iteration only ---------- *)

  Lemma body_return pre C post e s1 s1' s2 v s3 :
    seq pre s1 = Some s1' -> reach C s1' = Some s2 -> ev e s2 = (inl v, s3) ->
    blk (pre ++ plug C (EReturn e) :: post) s1 = (inr (Return v), s3).
  Proof.
    intros Hp Hr He. rewrite <- eval_block.
    apply (ctl_propagates (CBlock pre C post) (EReturn e) s1 s2 (Return v) s3).
    - cbn [reach]. rewrite Hp. exact Hr.
    - cbn [eval]. rewrite He. reflexivity.
    - reflexivity.
  Qed.

  (* one-parameter runners (map_keys, map_values; objects, arrays, scalars) *)
  Theorem return_ends_iteration1 pre C post e p a s old s1 s1' s2 v s3 :
    bind_param s p a = (old, s1) ->
    seq pre s1 = Some s1' -> reach C s1' = Some s2 -> ev e s2 = (inl v, s3) ->
    run1 (blk (pre ++ plug C (EReturn e) :: post)) p a s = (inl v, cleanup_param s3 p old).
  Proof.
    intros Hb Hp Hr He. unfold run1. rewrite Hb.
    rewrite (body_return pre C post e s1 s1' s2 v s3 Hp Hr He). reflexivity.
  Qed.

  (* two-parameter runners (for_each, filter; key/value and index/value) *)
  Theorem return_ends_iteration2 pre C post e p0 p1 a b s old0 sa old1 s1 s1' s2 v s3 :
    bind_param s p0 a = (old0, sa) -> bind_param sa p1 b = (old1, s1) ->
    seq pre s1 = Some s1' -> reach C s1' = Some s2 -> ev e s2 = (inl v, s3) ->
    run2 (blk (pre ++ plug C (EReturn e) :: post)) p0 p1 a b s =
    (inl v, cleanup_param (cleanup_param s3 p0 old0) p1 old1).
  Proof.
    intros Hb0 Hb1 Hp Hr He. unfold run2. rewrite Hb0, Hb1.
    rewrite (body_return pre C post e s1 s1' s2 v s3 Hp Hr He). reflexivity.
  Qed.

  (* a `return` never escapes a closure-taking call *)
  Definition not_return {X} (r : X + err) : Prop :=
    match r with inr (Return _) => False | _ => True end.

  Lemma iter_result_no_return r : not_return (iter_result r).
  Proof. destruct r as [v|[ | | | ]]; exact I. Qed.

  Lemma run1_no_return body p a s : not_return (fst (run1 body p a s)).
  Proof.
    unfold run1. destruct (bind_param s p a) as [o s1]. destruct (body s1) as [r s2].
    cbn [fst]. apply iter_result_no_return.
  Qed.

  Lemma run2_no_return body p0 p1 a b s : not_return (fst (run2 body p0 p1 a b s)).
  Proof.
    unfold run2. destruct (bind_param s p0 a) as [o s1]. destruct (bind_param s1 p1 b) as [o1 s2].
    destruct (body s2) as [r s3]. cbn [fst]. apply iter_result_no_return.
  Qed.

  Lemma loop_no_return {A B} (step : A -> state -> (B + err) * state) :
    (forall a s, not_return (fst (step a s))) ->
    forall items s, not_return (fst (loop step items s)).
  Proof.
    intros Hs. induction items as [|a r IH]; intros s; cbn [loop].
    - exact I.
    - specialize (Hs a s). destruct (step a s) as [[b|e] s']; cbn [fst] in *.
      + specialize (IH s'). destruct (loop step r s') as [[bs|e] s'']; cbn [fst] in *; auto.
      + destruct e; auto.
  Qed.

  Lemma lift_no_return {A} (f : A -> value) x : not_return (fst x) -> not_return (fst (lift f x)).
  Proof. destruct x as [[a|e] s0]; cbn; auto. Qed.

  Theorem closure_call_no_return body ps cf v s : not_return (fst (run_closure body ps cf v s)).
  Proof.
    assert (H1 := run1_no_return body). assert (H2 := run2_no_return body).
    unfold run_closure.
    destruct cf, v; try exact I; try apply H1; apply lift_no_return; apply loop_no_return; intros a s1.
    - unfold step_each_kv. specialize (H2 (param ps 0) (param ps 1) (VBytes (fst a)) (snd a) s1).
      destruct (run2 _ _ _ _ _ _) as [[?|?] ?]; cbn [fst] in *; auto.
    - unfold step_each_iv. specialize (H2 (param ps 0) (param ps 1) (VInt (fst a)) (snd a) s1).
      destruct (run2 _ _ _ _ _ _) as [[?|?] ?]; cbn [fst] in *; auto.
    - unfold step_filter_kv. specialize (H2 (param ps 0) (param ps 1) (VBytes (fst a)) (snd a) s1).
      destruct (run2 _ _ _ _ _ _) as [[[]|?] ?]; cbn [fst] in *; auto; exact I.
    - unfold step_filter_iv. specialize (H2 (param ps 0) (param ps 1) (VInt (fst a)) (snd a) s1).
      destruct (run2 _ _ _ _ _ _) as [[[]|?] ?]; cbn [fst] in *; auto; exact I.
    - unfold step_mapk. specialize (H1 (param ps 0) (VBytes (fst a)) s1).
      destruct (run1 _ _ _ _) as [[[]|?] ?]; cbn [fst] in *; auto; exact I.
    - unfold step_mapv_kv. specialize (H1 (param ps 0) (snd a) s1).
      destruct (run1 _ _ _ _) as [[?|?] ?]; cbn [fst] in *; auto.
    - unfold step_mapv. specialize (H1 (param ps 0) a s1).
      destruct (run1 _ _ _ _) as [[?|?] ?]; cbn [fst] in *; auto.
  Qed.


  (* ---------- C07 inside closures: the iteration that aborts ends the whole call ---------- *)

  Lemma loop_first_failure {A B} (step : A -> state -> (B + err) * state) pre : forall a post s bs s1 e s2,
    loop step pre s = (inl bs, s1) -> step a s1 = (inr e, s2) ->
    loop step (pre ++ a :: post) s = (inr e, s2).
  Proof.
    induction pre as [|p pre IH]; intros a post s bs s1 e s2 Hl Hs; cbn [loop app] in *.
    - inversion Hl; subst. rewrite Hs. reflexivity.
    - destruct (step p s) as [[b|e0] s'] eqn:Ep; try discriminate.
      destruct (loop step pre s') as [[bs0|e0] s''] eqn:El; try discriminate.
      inversion Hl; subst. erewrite IH; eauto.
  Qed.

  Lemma body_abort pre C post m s1 s1' s2 msg s3 :
    seq pre s1 = Some s1' -> reach C s1' = Some s2 ->
    ev (EAbort m) s2 = (inr (Abort msg), s3) ->
    blk (pre ++ plug C (EAbort m) :: post) s1 = (inr (Abort msg), s3).
  Proof.
    intros Hp Hr He. rewrite <- eval_block.
    apply (ctl_propagates (CBlock pre C post) (EAbort m) s1 s2 (Abort msg) s3); auto.
    cbn [reach]. rewrite Hp. exact Hr.
  Qed.

  Theorem abort_in_iteration1 body p a s old s1 msg s2 :
    bind_param s p a = (old, s1) -> body s1 = (inr (Abort msg), s2) ->
    run1 body p a s = (inr (Abort msg), cleanup_param s2 p old).
  Proof. intros Hb He. unfold run1. rewrite Hb, He. reflexivity. Qed.

  Theorem abort_in_iteration2 body p0 p1 a b s old0 sa old1 s1 msg s2 :
    bind_param s p0 a = (old0, sa) -> bind_param sa p1 b = (old1, s1) ->
    body s1 = (inr (Abort msg), s2) ->
    run2 body p0 p1 a b s = (inr (Abort msg), cleanup_param (cleanup_param s2 p0 old0) p1 old1).
  Proof. intros Hb0 Hb1 He. unfold run2. rewrite Hb0, Hb1, He. reflexivity. Qed.

  Theorem closure_call_params_restored cf arg ps body s v s' x :
    ev arg s = (inl v, s') ->
    In (Some x) (cparams cf ps) -> (param ps 0 <> param ps 1 \/ param ps 0 = None) ->
    same_var x s' (snd (ev (EClosure cf arg ps body) s)).
  Proof.
    intros Ha Hin Hd. rewrite eval_closure, Ha. apply closure_params_restored; auto.
  Qed.

  (* consequences of the one-step equations, in the words of C08 / C09 *)
  Theorem coalesce_success a b s v s' :
    ev a s = (inl v, s') -> ev (EOp OErr a b) s = (inl v, s').
  Proof. intros H. rewrite eval_err, H. reflexivity. Qed.

  Theorem coalesce_failure a b s s' :
    ev a s = (inr Error, s') -> ev (EOp OErr a b) s = ev b s'.
  Proof. intros H. rewrite eval_err, H. reflexivity. Qed.

  Theorem or_truthy a b s v s' :
    ev a s = (inl v, s') -> falsy v = false -> ev (EOp OOr a b) s = (inl v, s').
  Proof. intros H Hf. rewrite eval_or, H, Hf. reflexivity. Qed.

  Theorem or_falsy a b s v s' :
    ev a s = (inl v, s') -> falsy v = true -> ev (EOp OOr a b) s = ev b s'.
  Proof. intros H Hf. rewrite eval_or, H, Hf. reflexivity. Qed.

  Theorem and_falsy a b s v s' :
    ev a s = (inl v, s') -> falsy v = true -> ev (EOp OAnd a b) s = (inl (VBool false), s').
  Proof. intros H Hf. rewrite eval_and, H, Hf. reflexivity. Qed.

  Theorem and_true a b s s' w s'' :
    ev a s = (inl (VBool true), s') -> ev b s' = (inl w, s'') ->
    ev (EOp OAnd a b) s = (match w with
                           | VBool y => inl (VBool y)
                           | VNull => inl (VBool false)
                           | _ => inr Error end, s'').
  Proof. intros H H2. rewrite eval_and, H. cbn [falsy]. rewrite H2. destruct w; reflexivity. Qed.

  Theorem if_true c t f s s' :
    blk c s = (inl (VBool true), s') -> ev (EIf c t f) s = blk t s'.
  Proof. intros H. rewrite eval_if, H. reflexivity. Qed.

  Theorem if_false_else c t fb s s' :
    blk c s = (inl (VBool false), s') -> ev (EIf c t (Some fb)) s = blk fb s'.
  Proof. intros H. rewrite eval_if, H. reflexivity. Qed.

  Theorem if_false_no_else c t s s' :
    blk c s = (inl (VBool false), s') -> ev (EIf c t None) s = (inl VNull, s').
  Proof. intros H. rewrite eval_if, H. reflexivity. Qed.
End EvalProofs.
