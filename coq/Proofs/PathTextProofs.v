(* Proofs about Model/PathText.v: rendering a path and parsing the text gives the path back. *)
From Coq Require Import List NArith ZArith Bool Lia.
From VRL Require Import Base.Bytes Base.Value Model.PathText.
Import ListNotations.
Local Open Scope N_scope.

(* ---------- character classes ---------- *)
Ltac cls :=
  unfold jit_char, ser_char, is_upper, is_lower, is_digit in *;
  repeat match goal with
         | H : context [N.leb ?a ?b] |- _ => destruct (N.leb_spec a b)
         | |- context [N.leb ?a ?b] => destruct (N.leb_spec a b)
         | H : context [N.eqb ?a ?b] |- _ => destruct (N.eqb_spec a b)
         | |- context [N.eqb ?a ?b] => destruct (N.eqb_spec a b)
         end;
  cbn in *; try congruence; try lia.

Lemma ser_jit c : ser_char c = true -> jit_char c = true.
Proof. intros H. cls. Qed.

Lemma ser_not_special c :
  ser_char c = true -> (c =? 46) = false /\ (c =? 91) = false /\ (c =? 34) = false /\ (c =? 92) = false.
Proof. intros H. repeat split; cls. Qed.

Lemma digit_jit c : is_digit c = true -> jit_char c = true.
Proof. intros H. cls. Qed.

(* ---------- decimal rendering ---------- *)
Local Open Scope Z_scope.

Definition le_val (l : list N) : Z := fold_right (fun d acc => digit_val d + 10 * acc) 0 l.
Definition acc_pos (ds : list N) (v : Z) : Z := fold_left (fun a d => a * 10 + digit_val d) ds v.
Definition acc_neg (ds : list N) (v : Z) : Z := fold_left (fun a d => a * 10 - digit_val d) ds v.

Lemma digit_val_mod n : 0 <= n -> digit_val (48 + Z.to_N (n mod 10)) = n mod 10.
Proof.
  intros Hn. unfold digit_val.
  assert (0 <= n mod 10 < 10) by (apply Z.mod_pos_bound; lia).
  rewrite N2Z.inj_add, Z2N.id by lia. change (Z.of_N 48) with 48. lia.
Qed.

Lemma le_val_le_digits fuel : forall n, 0 <= n < 2 ^ Z.of_nat fuel -> le_val (le_digits fuel n) = n.
Proof.
  induction fuel as [|f IH]; intros n Hn.
  - cbn in Hn. cbn. lia.
  - cbn [le_digits]. unfold le_val. cbn [fold_right]. fold (le_val (if n <? 10 then [] else le_digits f (n / 10))).
    rewrite digit_val_mod by lia.
    destruct (Z.ltb_spec n 10) as [Hlt|Hge].
    + cbn. rewrite Z.mod_small by lia. lia.
    + rewrite IH.
      * pose proof (Z.div_mod n 10). lia.
      * rewrite Nat2Z.inj_succ, Z.pow_succ_r in Hn by lia.
        split; [apply Z.div_pos; lia|].
        apply Z.div_lt_upper_bound; lia.
Qed.

Lemma dec_fuel_enough n : 0 <= n -> 0 <= n < 2 ^ Z.of_nat (dec_fuel n).
Proof.
  intros Hn. unfold dec_fuel. rewrite Nat2Z.inj_succ, Z2Nat.id by apply Z.log2_nonneg.
  split; [lia|].
  destruct (Z.eq_dec n 0) as [->|Hnz]; [cbn; lia|].
  apply Z.log2_spec; lia.
Qed.

Lemma is_digit_le_digit n : 0 <= n -> is_digit (48 + Z.to_N (n mod 10)) = true.
Proof.
  intros Hn. assert (H : 0 <= n mod 10 < 10) by (apply Z.mod_pos_bound; lia).
  assert (H2 : (Z.to_N (n mod 10) < 10)%N).
  { apply N2Z.inj_lt. rewrite Z2N.id by lia. change (Z.of_N 10) with 10. lia. }
  unfold is_digit. apply andb_true_intro; split; apply N.leb_le; lia.
Qed.

Lemma le_digits_all_digits fuel : forall n, 0 <= n -> forallb is_digit (le_digits fuel n) = true.
Proof.
  induction fuel as [|f IH]; intros n Hn; cbn [le_digits forallb]; auto.
  rewrite is_digit_le_digit by lia. cbn.
  destruct (n <? 10); cbn; auto. apply IH. apply Z.div_pos; lia.
Qed.

Lemma acc_pos_rev l : acc_pos (rev l) 0 = le_val l.
Proof.
  induction l as [|d l IH]; [reflexivity|].
  cbn [rev]. unfold acc_pos. rewrite fold_left_app. cbn [fold_left]. fold (acc_pos (rev l) 0).
  rewrite IH. unfold le_val. cbn [fold_right]. lia.
Qed.

Lemma acc_neg_pos ds : forall v, acc_neg ds (- v) = - acc_pos ds v.
Proof.
  induction ds as [|d ds IH]; intros v; [reflexivity|].
  unfold acc_neg, acc_pos. cbn [fold_left]. fold (acc_neg ds (- v * 10 - digit_val d)). fold (acc_pos ds (v * 10 + digit_val d)).
  replace (- v * 10 - digit_val d) with (- (v * 10 + digit_val d)) by lia. apply IH.
Qed.

Lemma render_nat_spec n :
  0 <= n -> exists d ds, render_nat n = d :: ds /\ forallb is_digit (d :: ds) = true /\ acc_pos (d :: ds) 0 = n.
Proof.
  intros Hn.
  assert (Hv : acc_pos (render_nat n) 0 = n).
  { unfold render_nat. rewrite acc_pos_rev. apply le_val_le_digits. apply dec_fuel_enough; auto. }
  assert (Hd : forallb is_digit (render_nat n) = true).
  { unfold render_nat. rewrite forallb_forall. intros x Hx. apply in_rev in Hx.
    pose proof (le_digits_all_digits (dec_fuel n) n Hn) as Hall. rewrite forallb_forall in Hall. auto. }
  destruct (render_nat n) as [|d ds] eqn:E.
  - exfalso. unfold render_nat, dec_fuel in E. cbn [le_digits] in E.
    apply (f_equal (@length N)) in E. rewrite rev_length in E. cbn in E. lia.
  - exists d, ds. auto.
Qed.

Lemma digit_val_range c : is_digit c = true -> 0 <= digit_val c <= 9.
Proof. intros H. unfold digit_val. cls. Qed.

Lemma acc_pos_mono ds : forall v, 0 <= v -> forallb is_digit ds = true -> v <= acc_pos ds v.
Proof.
  induction ds as [|d ds IH]; intros v Hv Hd; cbn in *; [lia|].
  apply andb_true_iff in Hd as [Hd1 Hd2]. pose proof (digit_val_range d Hd1).
  etransitivity; [|apply IH; auto; lia]. lia.
Qed.

Lemma in_isize_iff z : in_isize z = true <-> isize_min <= z <= isize_max.
Proof. unfold in_isize. rewrite andb_true_iff, !Z.leb_le. tauto. Qed.

Lemma checked_ok z : isize_min <= z <= isize_max -> checked z = Some z.
Proof. intros H. unfold checked. apply in_isize_iff in H. rewrite H. auto. Qed.

(* the Index state reads a run of digits up to the closing bracket *)
Lemma jit_index_run ds : forall v r out,
  forallb is_digit ds = true -> 0 <= v -> acc_pos ds v <= isize_max ->
  jit (JIndex v) (ds ++ 93%N :: r) out = jit JContinue r (SIndex (acc_pos ds v) :: out).
Proof.
  induction ds as [|d ds IH]; intros v r out Hd Hv Hmax.
  - cbn. reflexivity.
  - cbn in Hd. apply andb_true_iff in Hd as [Hd1 Hd2].
    pose proof (digit_val_range d Hd1) as Hr.
    assert (Hm : v * 10 + digit_val d <= isize_max).
    { etransitivity; [|exact Hmax]. change (acc_pos (d :: ds) v) with (acc_pos ds (v * 10 + digit_val d)).
      apply acc_pos_mono; auto; lia. }
    cbn [app jit]. rewrite Hd1.
    unfold isize_max, isize_min in *.
    rewrite checked_ok by (unfold isize_max, isize_min; lia).
    rewrite checked_ok by (unfold isize_max, isize_min; lia).
    rewrite IH; auto; try lia.
Qed.

Lemma jit_negindex_run ds : forall v r out,
  forallb is_digit ds = true -> v <= 0 -> isize_min <= acc_neg ds v ->
  jit (JNegIndex v) (ds ++ 93%N :: r) out = jit JContinue r (SIndex (acc_neg ds v) :: out).
Proof.
  induction ds as [|d ds IH]; intros v r out Hd Hv Hmin.
  - cbn. reflexivity.
  - cbn in Hd. apply andb_true_iff in Hd as [Hd1 Hd2].
    pose proof (digit_val_range d Hd1) as Hr.
    assert (Hm : isize_min <= v * 10 - digit_val d).
    { etransitivity; [exact Hmin|].
      change (acc_neg (d :: ds) v) with (acc_neg ds (v * 10 - digit_val d)).
      replace (v * 10 - digit_val d) with (- (- v * 10 + digit_val d)) at 1 by lia.
      rewrite acc_neg_pos. pose proof (acc_pos_mono ds (- v * 10 + digit_val d) ltac:(lia) Hd2). lia. }
    cbn [app jit]. rewrite Hd1.
    unfold isize_max, isize_min in *.
    rewrite checked_ok by (unfold isize_max, isize_min; lia).
    rewrite checked_ok by (unfold isize_max, isize_min; lia).
    rewrite IH; auto; try lia.
Qed.

Lemma is_digit_not_minus d : is_digit d = true -> (d =? 45)%N = false.
Proof. intros H. cls. Qed.

Lemma jit_indexstart_minus cs out : jit JIndexStart (45%N :: cs) out = jit (JNegIndex 0) cs out.
Proof. reflexivity. Qed.

Lemma jit_indexstart_digit d cs out :
  is_digit d = true -> jit JIndexStart (d :: cs) out = jit (JIndex (digit_val d)) cs out.
Proof. intros H. cbn [jit]. rewrite H. reflexivity. Qed.

Lemma jit_index i r out :
  in_isize i = true ->
  jit JIndexStart (render_int i ++ 93%N :: r) out = jit JContinue r (SIndex i :: out).
Proof.
  intros Hi. apply in_isize_iff in Hi. unfold render_int.
  destruct (Z.ltb_spec i 0) as [Hneg|Hpos].
  - destruct (render_nat_spec (- i)) as (d & ds & E & Hd & Hv); [lia|].
    rewrite E. rewrite <- app_comm_cons. rewrite jit_indexstart_minus.
    assert (Hn : acc_neg (d :: ds) 0 = i).
    { replace 0 with (- 0) at 1 by lia. rewrite acc_neg_pos, Hv. lia. }
    rewrite jit_negindex_run; auto; try lia.
    rewrite Hn. reflexivity.
  - destruct (render_nat_spec i) as (d & ds & E & Hd & Hv); [lia|].
    rewrite E. cbn [forallb] in Hd. apply andb_true_iff in Hd as [Hd1 Hd2].
    rewrite <- app_comm_cons. rewrite jit_indexstart_digit by auto.
    change (acc_pos (d :: ds) 0) with (acc_pos ds (0 * 10 + digit_val d)) in Hv.
    replace (0 * 10 + digit_val d) with (digit_val d) in Hv by lia.
    pose proof (digit_val_range d Hd1).
    rewrite jit_index_run; auto; try lia. rewrite Hv. reflexivity.
Qed.

Local Open Scope N_scope.

(* ---------- fields ---------- *)
Lemma jit_field_run f : forall acc r out,
  forallb jit_char f = true -> jit (JField acc) (f ++ r) out = jit (JField (acc ++ f)) r out.
Proof.
  induction f as [|c f IH]; intros acc r out Hf.
  - rewrite app_nil_r. reflexivity.
  - cbn in Hf. apply andb_true_iff in Hf as [Hc Hf].
    cbn [app jit]. rewrite Hc. rewrite IH by auto. rewrite <- app_assoc. reflexivity.
Qed.

Definition special (c : N) : bool := (c =? 34) || (c =? 92).
Definition clean (l : text) : bool := forallb (fun c => negb (special c)) l.

Lemma esc_replay_clean acc : forall buf, clean acc = true -> esc_replay buf acc = Some (buf ++ acc).
Proof.
  induction acc as [|c acc IH]; intros buf H; cbn.
  - rewrite app_nil_r. reflexivity.
  - cbn in H. apply andb_true_iff in H as [Hc H]. unfold special in Hc.
    apply negb_true_iff in Hc. rewrite Hc. rewrite IH by auto. rewrite <- app_assoc. reflexivity.
Qed.

Lemma clean_app a b : clean (a ++ b) = clean a && clean b.
Proof. unfold clean. apply forallb_app. Qed.

Lemma jit_esc_scan g : forall buf r out,
  jit (JEscQuote buf) (escape_field g ++ 34 :: r) out = jit JContinue r (SField (buf ++ g) :: out).
Proof.
  induction g as [|c g IH]; intros buf r out.
  - cbn. rewrite app_nil_r. reflexivity.
  - cbn [escape_field]. destruct ((c =? 34) || (c =? 92)) eqn:Es.
    + cbn [app jit]. change (92 =? 34) with false. change (92 =? 92) with true. cbn iota.
      assert (Hc : (c =? 92) || (c =? 34) = true) by (rewrite orb_comm; exact Es).
      rewrite Hc. rewrite IH. rewrite <- app_assoc. reflexivity.
    + apply orb_false_iff in Es as [E1 E2].
      cbn [app jit]. rewrite E1, E2. rewrite IH. rewrite <- app_assoc. reflexivity.
Qed.

Lemma jit_quote_scan f : forall acc r out,
  clean acc = true ->
  jit (JQuote acc) (escape_field f ++ 34 :: r) out = jit JContinue r (SField (acc ++ f) :: out).
Proof.
  induction f as [|c f IH]; intros acc r out Hacc.
  - cbn. rewrite app_nil_r. reflexivity.
  - cbn [escape_field]. destruct ((c =? 34) || (c =? 92)) eqn:Es.
    + cbn [app jit]. change (92 =? 34) with false. change (92 =? 92) with true. cbn iota.
      rewrite esc_replay_clean by auto. cbn [app].
      assert (Hc : (c =? 92) || (c =? 34) = true) by (rewrite orb_comm; exact Es).
      rewrite Hc. rewrite jit_esc_scan. rewrite <- app_assoc. reflexivity.
    + pose proof Es as Es'. apply orb_false_iff in Es as [E1 E2].
      cbn [app jit]. rewrite E1, E2. rewrite IH.
      * rewrite <- app_assoc. reflexivity.
      * rewrite clean_app, Hacc. cbn. unfold special. rewrite Es'. reflexivity.
Qed.

(* the text serialize_field writes for a field, without the separator *)
Definition field_body (f : text) : text :=
  if needs_quotes f then 34 :: escape_field f ++ [34] else f.

Lemma serialize_field_body f sep : serialize_field f sep = sep ++ field_body f.
Proof. reflexivity. Qed.

Lemma needs_quotes_false f :
  needs_quotes f = false -> exists c f', f = c :: f' /\ ser_char c = true /\ forallb ser_char f' = true.
Proof.
  destruct f as [|c f']; [discriminate|]. cbn. intros H.
  apply orb_false_iff in H as [H1 H2]. apply negb_false_iff in H1.
  exists c, f'. repeat split; auto.
  rewrite forallb_forall. intros x Hx.
  destruct (ser_char x) eqn:E; auto.
  exfalso. assert (existsb (fun c => negb (ser_char c)) f' = true).
  { apply existsb_exists. exists x. rewrite E. auto. }
  congruence.
Qed.

Lemma forallb_ser_jit f : forallb ser_char f = true -> forallb jit_char f = true.
Proof. rewrite !forallb_forall. intros H x Hx. apply ser_jit. auto. Qed.

(* states in which a field may begin *)
Definition field_start (st : jstate) : bool :=
  match st with JStart | JDot | JEventRoot => true | _ => false end.

Lemma jit_field_body st f r out :
  field_start st = true ->
  jit st (field_body f ++ r) out =
    if needs_quotes f then jit JContinue r (SField f :: out) else jit (JField f) r out.
Proof.
  intros Hst. unfold field_body. destruct (needs_quotes f) eqn:Enq.
  - cbn [app]. rewrite <- app_assoc. cbn [app].
    assert (H : jit st (34 :: escape_field f ++ 34 :: r) out = jit (JQuote []) (escape_field f ++ 34 :: r) out).
    { destruct st; try discriminate; reflexivity. }
    rewrite H. rewrite jit_quote_scan by reflexivity. reflexivity.
  - destruct (needs_quotes_false f Enq) as (c & f' & -> & Hc & Hf').
    destruct (ser_not_special c Hc) as (N46 & N91 & N34 & N92).
    pose proof (ser_jit c Hc) as Hj.
    assert (H : jit st ((c :: f') ++ r) out = jit (JField [c]) (f' ++ r) out).
    { destruct st; try discriminate; cbn [app jit]; rewrite ?N46, Hj; reflexivity. }
    rewrite H. rewrite jit_field_run by (apply forallb_ser_jit; auto). reflexivity.
Qed.

(* ---------- the main induction ---------- *)
Lemma jit_tail p : forall out,
  indices_in_isize p = true ->
  jit JContinue (render_from false p) out = POk (rev out ++ p)
  /\ (forall acc, jit (JField acc) (render_from false p) out = POk (rev out ++ SField acc :: p)).
Proof.
  induction p as [|s p IH]; intros out Hi.
  - cbn. rewrite app_nil_r. split; auto.
  - cbn in Hi. apply andb_true_iff in Hi as [Hs Hi].
    destruct s as [f|i].
    + cbn [render_from]. rewrite serialize_field_body. cbn [app].
      assert (Hbody : forall out', jit JDot (field_body f ++ render_from false p) out' = POk (rev out' ++ SField f :: p)).
      { intros out'. rewrite jit_field_body by reflexivity.
        destruct (needs_quotes f).
        - destruct (IH (SField f :: out') Hi) as [H1 _]. rewrite H1. cbn [rev]. rewrite <- app_assoc. reflexivity.
        - destruct (IH out' Hi) as [_ H2]. apply H2. }
      split.
      * cbn [jit]. change (46 =? 46) with true. cbn iota. apply Hbody.
      * intros acc. cbn [jit]. change (jit_char 46) with false. change (46 =? 46) with true. cbn iota.
        rewrite Hbody. cbn [rev]. rewrite <- app_assoc. reflexivity.
    + cbn [render_from].
      assert (Hidx : forall out', jit JIndexStart (render_int i ++ 93 :: render_from false p) out' = POk (rev out' ++ SIndex i :: p)).
      { intros out'. rewrite jit_index by auto.
        destruct (IH (SIndex i :: out') Hi) as [H1 _]. rewrite H1. cbn [rev]. rewrite <- app_assoc. reflexivity. }
      split.
      * cbn [jit]. change (91 =? 46) with false. change (jit_char 91) with false. change (91 =? 91) with true.
        cbn iota. apply Hidx.
      * intros acc. cbn [jit]. change (jit_char 91) with false. change (91 =? 46) with false.
        change (91 =? 91) with true. cbn iota. rewrite Hidx. cbn [rev]. rewrite <- app_assoc. reflexivity.
Qed.

(* from a state in which a path may begin, a non-empty rendered path parses to itself *)
Definition path_start (st : jstate) : bool :=
  match st with JStart | JEventRoot => true | _ => false end.

Lemma jit_from_start st s p :
  path_start st = true -> indices_in_isize (s :: p) = true ->
  jit st (render (s :: p)) [] = POk (s :: p).
Proof.
  intros Hst Hi. cbn in Hi. apply andb_true_iff in Hi as [Hs Hi].
  unfold render. destruct s as [f|i]; cbn [render_from].
  - rewrite serialize_field_body. cbn [app].
    rewrite jit_field_body by (destruct st; try discriminate; reflexivity).
    destruct (needs_quotes f).
    + destruct (jit_tail p [SField f] Hi) as [H1 _]. rewrite H1. reflexivity.
    + destruct (jit_tail p [] Hi) as [_ H2]. rewrite H2. reflexivity.
  - assert (H : jit st (91 :: render_int i ++ 93 :: render_from false p) [] =
                jit JIndexStart (render_int i ++ 93 :: render_from false p) []).
    { destruct st; try discriminate; reflexivity. }
    rewrite H. rewrite jit_index by auto.
    destruct (jit_tail p [SIndex i] Hi) as [H1 _]. rewrite H1. reflexivity.
Qed.

Theorem roundtrip_value p :
  p <> [] -> indices_in_isize p = true -> parse_value_path (render p) = POk p.
Proof.
  intros Hp Hi. destruct p as [|s p]; [congruence|].
  unfold parse_value_path. apply jit_from_start; auto.
Qed.

Definition is_root_exception (tp : tpath) : bool :=
  match tp with (Metadata, []) => true | _ => false end.

Theorem roundtrip_target tp :
  is_root_exception tp = false -> indices_in_isize (snd tp) = true ->
  parse_target_path (render_target tp) = POk tp.
Proof.
  destruct tp as [pre p]. intros Hr Hi. cbn [snd] in Hi.
  unfold render_target, parse_target_path. cbn [fst snd].
  destruct pre.
  - cbn [get_target_prefix]. change (46 =? 46) with true. cbn iota.
    unfold parse_value_path. cbn [jit]. change (46 =? 46) with true. cbn iota.
    destruct p as [|s p].
    + reflexivity.
    + rewrite jit_from_start; auto.
  - cbn [get_target_prefix]. change (37 =? 46) with false. change (37 =? 37) with true. cbn iota.
    destruct p as [|s p]; [discriminate|].
    rewrite roundtrip_value; auto. discriminate.
Qed.

(* the roots *)
Lemma value_root_fails : render [] = [] /\ parse_value_path (render []) = PErr.
Proof. split; reflexivity. Qed.

Lemma metadata_root_fails : render_target (Metadata, []) = [37] /\ parse_target_path (render_target (Metadata, [])) = PErr.
Proof. split; reflexivity. Qed.

Lemma event_root_ok : render_target (Event, []) = [46] /\ parse_target_path (render_target (Event, [])) = POk (Event, []).
Proof. split; reflexivity. Qed.

(* ---------- the model never takes the branch the Rust cannot reach ---------- *)
Definition state_ok (st : jstate) : bool :=
  match st with JQuote acc => clean acc | _ => true end.

Lemma jit_reachable_aux n : forall cs st out,
  (length cs <= n)%nat -> state_ok st = true -> jit st cs out <> PUnreachable.
Proof.
  induction n as [|n IH]; intros cs st out Hlen Hst.
  - destruct cs; [|cbn in Hlen; lia]. destruct st; cbn; discriminate.
  - destruct cs as [|c r]; [destruct st; cbn; discriminate|].
    cbn in Hlen. assert (Hr : (length r <= n)%nat) by lia.
    assert (Hr2 : forall c2 r2, r = c2 :: r2 -> (length r2 <= n)%nat) by (intros c2 r2 ->; cbn in Hr; lia).
    destruct st; cbn [jit];
      repeat match goal with
             | |- (if ?b then _ else _) <> _ => destruct b eqn:?
             | |- (match checked ?z with _ => _ end) <> _ => destruct (checked z)
             | |- PErr <> _ => discriminate
             | |- PPanic <> _ => discriminate
             | |- jit _ r _ <> _ => apply IH; auto
             end.
    + (* JQuote, backslash *)
      cbn in Hst. rewrite esc_replay_clean by auto.
      destruct r as [|c2 r2]; [discriminate|].
      destruct ((c2 =? 92) || (c2 =? 34)); [|discriminate].
      apply IH; auto. eapply Hr2; eauto.
    + (* JQuote, ordinary unit *)
      cbn in Hst |- *. rewrite clean_app, Hst. cbn. unfold special.
      rewrite Heqb, Heqb0. reflexivity.
    + (* JEscQuote, backslash *)
      destruct r as [|c2 r2]; [discriminate|].
      destruct ((c2 =? 92) || (c2 =? 34)); [|discriminate].
      apply IH; auto. eapply Hr2; eauto.
Qed.

Theorem parse_value_never_unreachable t : parse_value_path t <> PUnreachable.
Proof. unfold parse_value_path. eapply jit_reachable_aux; eauto. Qed.

Theorem parse_target_never_unreachable t : parse_target_path t <> PUnreachable.
Proof.
  unfold parse_target_path. destruct (get_target_prefix t) as [pre vp].
  pose proof (parse_value_never_unreachable vp). destruct (parse_value_path vp); congruence.
Qed.

(* ---------- the parser never panics ---------- *)
Lemma jit_no_panic_aux n : forall cs st out, (length cs <= n)%nat -> jit st cs out <> PPanic.
Proof.
  induction n as [|n IH]; intros cs st out Hlen.
  - destruct cs; [|cbn in Hlen; lia]. destruct st; cbn; discriminate.
  - destruct cs as [|c r]; [destruct st; cbn; discriminate|].
    cbn in Hlen. assert (Hr : (length r <= n)%nat) by lia.
    destruct st; cbn [jit];
      repeat match goal with
             | |- (if ?b then _ else _) <> _ => destruct b eqn:?
             | |- (match checked ?z with _ => _ end) <> _ => destruct (checked z)
             | |- (match esc_replay ?a ?b with _ => _ end) <> _ => destruct (esc_replay a b)
             | |- PErr <> _ => discriminate
             | |- PUnreachable <> _ => discriminate
             | |- jit _ r _ <> _ => apply IH; auto
             end;
      (destruct r as [|c2 r2]; [discriminate|];
       destruct ((c2 =? 92) || (c2 =? 34)); [|discriminate];
       apply IH; cbn in Hr; lia).
Qed.

Theorem parse_never_panics t : parse_value_path t <> PPanic /\ parse_target_path t <> PPanic.
Proof.
  assert (H : forall u, parse_value_path u <> PPanic) by (intros u; unfold parse_value_path; eapply jit_no_panic_aux; eauto).
  split; [apply H|]. unfold parse_target_path. destruct (get_target_prefix t) as [pre vp].
  pose proof (H vp). destruct (parse_value_path vp); congruence.
Qed.

(* ---------- an index that does not fit isize is invalid syntax ---------- *)
Local Open Scope Z_scope.

Lemma checked_none z : ~ (isize_min <= z <= isize_max) -> checked z = None.
Proof.
  intros H. unfold checked. destruct (in_isize z) eqn:E; [|reflexivity]. apply in_isize_iff in E. contradiction.
Qed.

Lemma jit_index_overflow ds : forall v r out,
  forallb is_digit ds = true -> 0 <= v <= isize_max -> isize_max < acc_pos ds v ->
  jit (JIndex v) (ds ++ r) out = PErr.
Proof.
  induction ds as [|d ds IH]; intros v r out Hd Hv Hbig.
  - change (acc_pos [] v) with v in Hbig. lia.
  - cbn in Hd. apply andb_true_iff in Hd as [Hd1 Hd2]. pose proof (digit_val_range d Hd1) as Hr.
    change (acc_pos (d :: ds) v) with (acc_pos ds (v * 10 + digit_val d)) in Hbig.
    cbn [app jit]. rewrite Hd1.
    destruct (Z_le_gt_dec (v * 10) isize_max) as [Hm|Hm].
    + rewrite checked_ok by (unfold isize_min in *; unfold isize_max in *; lia).
      destruct (Z_le_gt_dec (v * 10 + digit_val d) isize_max) as [Hs|Hs].
      * rewrite checked_ok by (unfold isize_min in *; unfold isize_max in *; lia).
        apply IH; auto. lia.
      * rewrite checked_none by lia. reflexivity.
    + rewrite checked_none by lia. reflexivity.
Qed.

Lemma jit_negindex_overflow ds : forall v r out,
  forallb is_digit ds = true -> isize_min <= v <= 0 -> acc_neg ds v < isize_min ->
  jit (JNegIndex v) (ds ++ r) out = PErr.
Proof.
  induction ds as [|d ds IH]; intros v r out Hd Hv Hbig.
  - change (acc_neg [] v) with v in Hbig. lia.
  - cbn in Hd. apply andb_true_iff in Hd as [Hd1 Hd2]. pose proof (digit_val_range d Hd1) as Hr.
    change (acc_neg (d :: ds) v) with (acc_neg ds (v * 10 - digit_val d)) in Hbig.
    cbn [app jit]. rewrite Hd1.
    destruct (Z_le_gt_dec isize_min (v * 10)) as [Hm|Hm].
    + rewrite checked_ok by (unfold isize_min in *; unfold isize_max in *; lia).
      destruct (Z_le_gt_dec isize_min (v * 10 - digit_val d)) as [Hs|Hs].
      * rewrite checked_ok by (unfold isize_min in *; unfold isize_max in *; lia).
        apply IH; auto. lia.
      * rewrite checked_none by lia. reflexivity.
    + rewrite checked_none by lia. reflexivity.
Qed.

(* the decimal text of an integer outside isize, written as an index anywhere a segment may begin, is rejected *)
Theorem index_out_of_range_invalid i r out :
  in_isize i = false -> jit JIndexStart (render_int i ++ r) out = PErr.
Proof.
  intros Hi. assert (Hn : ~ (isize_min <= i <= isize_max)).
  { intros H. apply in_isize_iff in H. congruence. }
  unfold render_int. destruct (Z.ltb_spec i 0) as [Hneg|Hpos].
  - destruct (render_nat_spec (- i)) as (d & ds & E & Hd & Hv); [lia|].
    rewrite E. rewrite <- app_comm_cons. rewrite jit_indexstart_minus.
    apply jit_negindex_overflow; auto; [unfold isize_min; lia|].
    replace 0 with (- 0) by lia. rewrite acc_neg_pos, Hv. unfold isize_min, isize_max in *. lia.
  - destruct (render_nat_spec i) as (d & ds & E & Hd & Hv); [lia|].
    rewrite E. cbn [forallb] in Hd. apply andb_true_iff in Hd as [Hd1 Hd2].
    rewrite <- app_comm_cons. rewrite jit_indexstart_digit by auto.
    pose proof (digit_val_range d Hd1).
    apply jit_index_overflow; auto; [unfold isize_max; lia|].
    change (acc_pos (d :: ds) 0) with (acc_pos ds (0 * 10 + digit_val d)) in Hv.
    replace (0 * 10 + digit_val d) with (digit_val d) in Hv by lia. rewrite Hv.
    unfold isize_min, isize_max in *. lia.
Qed.

Theorem value_index_out_of_range_invalid i r :
  in_isize i = false -> parse_value_path (91%N :: render_int i ++ r) = PErr.
Proof. intros Hi. unfold parse_value_path. cbn [jit]. apply index_out_of_range_invalid; auto. Qed.
