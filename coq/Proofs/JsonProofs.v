(* C21, part 3: the value-level round trip.  print_value (compact or pretty) followed by parse_value gives the
   value back (up to value_close), for every representable value of depth < remaining_depth; then the wrappers
   encode_json / parse_json (lossy UTF-8, BOM stripping, trailing whitespace, fuel). *)
From Coq Require Import List NArith ZArith Bool Lia.
From Coq Require Import Floats.SpecFloat.
From VRL Require Import Base.Bytes Base.Value Base.Lit Model.Json Proofs.JsonTextProofs Proofs.JsonNumProofs.
Import ListNotations.
Local Open Scope N_scope.

(* ---------------------------------------------------------------------------------------------- *)
(** * Names for the nested fixpoints of the model (convertible with them) *)

Definition print_elems (ff : spec_float -> bytes) (ft : Z -> bytes) (pretty : bool) (ind : nat) :=
  fix go (first : bool) (l : list value) {struct l} : bytes :=
    match l with
    | [] => close pretty ind ++ [93]
    | x :: l' => sep pretty first (S ind) ++ print_value ff ft pretty (S ind) x ++ go false l'
    end.

Definition print_members (ff : spec_float -> bytes) (ft : Z -> bytes) (pretty : bool) (ind : nat) :=
  fix go (first : bool) (l : list (bytes * value)) {struct l} : bytes :=
    match l with
    | [] => close pretty ind ++ [125]
    | (k, x) :: l' =>
        sep pretty first (S ind) ++ print_string k ++ colon pretty
        ++ print_value ff ft pretty (S ind) x ++ go false l'
    end.

Definition pairs_close :=
  fix go (l1 l2 : list (bytes * value)) {struct l1} : bool :=
    match l1, l2 with
    | [], [] => true
    | (k1, v1) :: r1, (k2, v2) :: r2 => bytes_eqb k1 k2 && value_close v1 v2 && go r1 r2
    | _, _ => false
    end.

Definition list_close :=
  fix go (l1 l2 : list value) {struct l1} : bool :=
    match l1, l2 with
    | [], [] => true
    | v1 :: r1, v2 :: r2 => value_close v1 v2 && go r1 r2
    | _, _ => false
    end.

Definition jrep_pairs (fok : spec_float -> bool) :=
  fix go (l : list (bytes * value)) {struct l} : bool :=
    match l with
    | [] => true
    | (k, x) :: l' => utf8_ok k && jrep fok x && go l'
    end.

Definition depth_pairs :=
  fix go (l : list (bytes * value)) {struct l} : N :=
    match l with
    | [] => 0
    | (_, x) :: l' => N.max (vdepth x) (go l')
    end.

Definition depth_list (vs : list value) : N := fold_right (fun x m => N.max (vdepth x) m) 0 vs.

Lemma print_arr_eq ff ft pretty ind x xs :
  print_value ff ft pretty ind (VArr (x :: xs)) = 91 :: print_elems ff ft pretty ind true (x :: xs).
Proof. reflexivity. Qed.

Lemma print_obj_eq ff ft pretty ind kv kvs :
  print_value ff ft pretty ind (VObj (kv :: kvs)) = 123 :: print_members ff ft pretty ind true (kv :: kvs).
Proof. reflexivity. Qed.

Lemma close_obj_eq x y : value_close (VObj x) (VObj y) = pairs_close x y.
Proof. reflexivity. Qed.

Lemma close_arr_eq x y : value_close (VArr x) (VArr y) = list_close x y.
Proof. reflexivity. Qed.

Lemma jrep_obj_eq fok kvs : jrep fok (VObj kvs) = keys_sorted kvs && jrep_pairs fok kvs.
Proof. reflexivity. Qed.

Lemma vdepth_obj_eq kvs : vdepth (VObj kvs) = 1 + depth_pairs kvs.
Proof. reflexivity. Qed.

Lemma vdepth_arr_eq vs : vdepth (VArr vs) = 1 + depth_list vs.
Proof. reflexivity. Qed.

(* ---------------------------------------------------------------------------------------------- *)
(** * First characters and dispatch *)

(* a JSON value starts with one of these *)
Definition is_start (c : N) : bool :=
  (c =? 34) || (c =? 45) || is_digit c || (c =? 91) || (c =? 123) || (c =? 116) || (c =? 102) || (c =? 110).

Ltac n_cases :=
  repeat match goal with
         | H : context [?x =? ?y] |- _ => destruct (N.eqb_spec x y)
         | H : context [?x <=? ?y] |- _ => destruct (N.leb_spec x y)
         | H : context [?x <? ?y] |- _ => destruct (N.ltb_spec x y)
         | |- context [?x =? ?y] => destruct (N.eqb_spec x y)
         | |- context [?x <=? ?y] => destruct (N.leb_spec x y)
         | |- context [?x <? ?y] => destruct (N.ltb_spec x y)
         end.

Lemma is_start_cases c : is_start c = true ->
  c = 34 \/ c = 45 \/ 48 <= c <= 57 \/ c = 91 \/ c = 123 \/ c = 116 \/ c = 102 \/ c = 110.
Proof. unfold is_start. rewrite !orb_true_iff, !N.eqb_eq, is_digit_iff. tauto. Qed.

Lemma is_ws_false c : c <> 32 -> c <> 10 -> c <> 9 -> c <> 13 -> is_ws c = false.
Proof. intros. unfold is_ws. rewrite !orb_false_iff, !N.eqb_neq. tauto. Qed.

Lemma is_start_facts c : is_start c = true ->
  is_ws c = false /\ (c =? 93) = false /\ (c =? 125) = false /\ (c =? 44) = false /\ c < 128 /\ c <> 239.
Proof.
  intros H. apply is_start_cases in H.
  repeat split; [apply is_ws_false; lia | apply N.eqb_neq; lia | apply N.eqb_neq; lia | apply N.eqb_neq; lia | lia | lia].
Qed.

Lemma skip_ws_start c r : is_ws c = false -> skip_ws (c :: r) = c :: r.
Proof. intros H. cbn [skip_ws]. rewrite H. reflexivity. Qed.

Lemma skip_ws_indent n s : skip_ws (indent n ++ s) = skip_ws s.
Proof. unfold indent. induction (n + n)%nat as [|k IH]; [reflexivity|]. cbn [repeat app skip_ws]. exact IH. Qed.

(* numbers *)
Lemma parse_value_num fuel depth c r :
  (c =? 45) || is_digit c = true ->
  parse_value (S fuel) depth (c :: r) =
  match parse_num_tok (c :: r) with
  | Some (p, r') => Some (value_of_pnum p, r')
  | None => None
  end.
Proof.
  intros H. cbn [parse_value skip_ws].
  assert (Hc : c = 45 \/ 48 <= c <= 57).
  { rewrite orb_true_iff, N.eqb_eq, is_digit_iff in H. exact H. }
  assert (Hws : is_ws c = false /\ (c =? 110) = false /\ (c =? 116) = false /\ (c =? 102) = false).
  { repeat split; [apply is_ws_false; lia | apply N.eqb_neq; lia | apply N.eqb_neq; lia | apply N.eqb_neq; lia]. }
  destruct Hws as (H1 & H2 & H3 & H4). rewrite H1, H2, H3, H4, H. reflexivity.
Qed.

(* strings *)
Lemma parse_value_str fuel depth r :
  parse_value (S fuel) depth (34 :: r) =
  match parse_string r with
  | Some (t, r') => Some (VBytes t, r')
  | None => None
  end.
Proof. reflexivity. Qed.

Lemma parse_value_arr fuel depth r :
  parse_value (S fuel) depth (91 :: r) =
  if depth <=? 1 then None
  else match parse_elems fuel (depth - 1) true r with
       | Some (vs, r') => Some (VArr vs, r')
       | None => None
       end.
Proof. reflexivity. Qed.

Lemma parse_value_obj fuel depth r :
  parse_value (S fuel) depth (123 :: r) =
  if depth <=? 1 then None
  else match parse_members fuel (depth - 1) true r with
       | Some (kvs, r') => Some (VObj (obj_of_list kvs), r')
       | None => None
       end.
Proof. reflexivity. Qed.

(* leading whitespace is skipped by parse_value itself *)
Lemma parse_value_ws fuel depth w s : is_ws w = true -> parse_value fuel depth (w :: s) = parse_value fuel depth s.
Proof. intros H. destruct fuel; [reflexivity|]. cbn [parse_value skip_ws]. rewrite H. reflexivity. Qed.

(* ---------------------------------------------------------------------------------------------- *)
(** * Objects: inserting sorted keys in order rebuilds the list *)

Lemma obj_set_append m k x :
  Forall (fun kv => bytes_cmp (fst kv) k = Lt) m -> obj_set m k x = m ++ [(k, x)].
Proof.
  induction m as [|[k' v] m IH]; intros H; [reflexivity|].
  inversion H as [|? ? Hk Hm]; subst. cbn [fst] in Hk. cbn [obj_set app]. rewrite Hk. rewrite IH by assumption.
  reflexivity.
Qed.

Fixpoint keys_above (k : bytes) (l : list (bytes * value)) : Prop :=
  match l with
  | [] => True
  | (k', _) :: l' => bytes_cmp k k' = Lt /\ keys_above k l'
  end.

Lemma keys_sorted_above k v l : keys_sorted ((k, v) :: l) = true -> keys_above k l /\ keys_sorted l = true.
Proof.
  revert k v. induction l as [|[k' v'] l IH]; intros k v H; [split; [exact I | reflexivity]|].
  cbn [keys_sorted] in H. change (match l with [] => true | (k'0, _) :: _ => bytes_ltb k' k'0 && keys_sorted l end)
    with (keys_sorted ((k', v') :: l)) in H.
  apply andb_true_iff in H as [Hlt Hs]. split; [|exact Hs].
  unfold bytes_ltb in Hlt. destruct (bytes_cmp k k') eqn:E; try discriminate.
  cbn [keys_above]. split; [exact E|].
  destruct (IH k' v' Hs) as [Ha _].
  clear -Ha E. induction l as [|[k2 v2] l IHl]; [exact I|].
  cbn [keys_above] in *. destruct Ha as [H1 H2]. split; [eapply bytes_cmp_lt_trans; eassumption | apply IHl; exact H2].
Qed.

Lemma fold_obj_set_sorted l : forall acc,
  keys_sorted l = true ->
  (forall kv, In kv acc -> keys_above (fst kv) l) ->
  fold_left (fun m kv => obj_set m (fst kv) (snd kv)) l acc = acc ++ l.
Proof.
  induction l as [|[k v] l IH]; intros acc Hs Hacc; [cbn; symmetry; apply app_nil_r|].
  cbn [fold_left fst snd]. destruct (keys_sorted_above k v l Hs) as [Hab Hs'].
  rewrite obj_set_append.
  - rewrite IH; [rewrite <- app_assoc; reflexivity | exact Hs' |].
    intros kv Hin. apply in_app_or in Hin as [Hin|[<-|[]]].
    + specialize (Hacc kv Hin). destruct kv as [k0 v0]. cbn [fst keys_above] in *. tauto.
    + exact Hab.
  - apply Forall_forall. intros kv Hin. specialize (Hacc kv Hin). destruct kv as [k0 v0].
    cbn [fst keys_above] in *. tauto.
Qed.

Lemma obj_of_list_sorted l : keys_sorted l = true -> obj_of_list l = l.
Proof. intros H. unfold obj_of_list. rewrite fold_obj_set_sorted; [reflexivity | exact H | intros ? []]. Qed.

(* sortedness only looks at the keys *)
Lemma keys_sorted_same_keys l l' : map fst l = map fst l' -> keys_sorted l = keys_sorted l'.
Proof.
  revert l'. induction l as [|[k v] l IH]; intros [|[k' v'] l'] H; try discriminate; [reflexivity|].
  cbn [map fst] in H. injection H as -> H.
  cbn [keys_sorted]. destruct l as [|[k1 v1] l1], l' as [|[k1' v1'] l1']; try discriminate; [reflexivity|].
  pose proof (IH _ H) as IH'. cbn [map fst] in H. injection H as -> H.
  change (match l1 with [] => true | (k'0, _) :: _ => bytes_ltb k1' k'0 && keys_sorted l1 end)
    with (keys_sorted ((k1', v1) :: l1)).
  change (match l1' with [] => true | (k'0, _) :: _ => bytes_ltb k1' k'0 && keys_sorted l1' end)
    with (keys_sorted ((k1', v1') :: l1')).
  rewrite IH'. reflexivity.
Qed.

Lemma pairs_close_keys l : forall l', pairs_close l l' = true -> map fst l = map fst l'.
Proof.
  induction l as [|[k v] l IH]; intros [|[k' v'] l'] H; try discriminate; [reflexivity|].
  cbn [pairs_close] in H. apply andb_true_iff in H as [H H3]. apply andb_true_iff in H as [H1 H2].
  apply bytes_eqb_eq in H1. subst. cbn [map fst]. f_equal. apply IH. exact H3.
Qed.

(* ---------------------------------------------------------------------------------------------- *)
(** * The main induction *)

Section RoundTrip.
  Variable ff : spec_float -> bytes.
  Variable ft : Z -> bytes.

  Definition fok (f : spec_float) : bool := float_text_ok (ff f) f.

  Lemma fok_spec f : fok f = true ->
    ascii (ff f) /\ exists f', parse_num_tok (ff f) = Some (PF64 f', []) /\ ulp_close f f' = true.
  Proof.
    unfold fok, float_text_ok. rewrite andb_true_iff. intros [Ha Hp]. split; [apply ascii_forallb; exact Ha|].
    destruct (parse_num_tok (ff f)) as [[[n|z|f'] [|? ?]]|]; try discriminate.
    exists f'. split; [reflexivity | exact Hp].
  Qed.

  Lemma print_int_head z : exists c r, print_int z = c :: r /\ ((c =? 45) || is_digit c = true).
  Proof.
    destruct z as [|p|p]; cbn [print_int].
    - exists 48, []. split; reflexivity.
    - destruct (print_u_shape (Npos p)) as (c & ds & Hp & Hc & _ & _); [lia|].
      exists c, ds. split; [exact Hp|]. apply orb_true_iff. right. apply is_digit_iff. lia.
    - exists 45, (print_u (Npos p)). split; reflexivity.
  Qed.

  Lemma num_head_start c : (c =? 45) || is_digit c = true -> is_start c = true.
  Proof.
    unfold is_start. rewrite !orb_true_iff. tauto.
  Qed.

  (* every printed value starts with a character that starts a JSON value *)
  Lemma print_head pretty ind v : jrep fok v = true ->
    exists c r, print_value ff ft pretty ind v = c :: r /\ is_start c = true.
  Proof.
    destruct v as [b|src|z|f|b|ns|kvs|vs|]; cbn [jrep]; intros H; try discriminate.
    - eexists _, _. split; [reflexivity | reflexivity].
    - destruct (print_int_head z) as (c & r & E & Hc). exists c, r. split; [exact E | apply num_head_start; exact Hc].
    - apply andb_true_iff in H as [Hfin Hf]. cbn [print_value]. rewrite Hfin.
      destruct (fok_spec f Hf) as (_ & f' & Hp & _).
      destruct (parse_num_tok_head _ _ _ Hp) as (c & t & E & Hc).
      exists c, t. split; [exact E | apply num_head_start; exact Hc].
    - destruct b; eexists _, _; split; reflexivity.
    - destruct kvs; eexists _, _; split; reflexivity.
    - destruct vs; eexists _, _; split; reflexivity.
    - eexists _, _; split; reflexivity.
  Qed.

  Lemma print_nonempty pretty ind v : jrep fok v = true -> (1 <= length (print_value ff ft pretty ind v))%nat.
  Proof. intros H. destruct (print_head pretty ind v H) as (c & r & E & _). rewrite E. cbn. lia. Qed.

  Lemma print_elems_nonempty pretty ind first l : (1 <= length (print_elems ff ft pretty ind first l))%nat.
  Proof.
    revert first. induction l as [|x l IH]; intros first; cbn [print_elems]; rewrite !app_length.
    - cbn. lia.
    - specialize (IH false). lia.
  Qed.

  Lemma print_members_nonempty pretty ind first l : (1 <= length (print_members ff ft pretty ind first l))%nat.
  Proof.
    destruct l as [|[k x] l]; cbn [print_members]; rewrite !app_length.
    - cbn. lia.
    - unfold print_string. cbn [length]. lia.
  Qed.

  (* what follows an element or a member value never continues a number *)
  Lemma num_end_elems pretty ind l rest : num_end (print_elems ff ft pretty ind false l ++ rest) = true.
  Proof. destruct l as [|x l], pretty; reflexivity. Qed.

  Lemma num_end_members pretty ind l rest : num_end (print_members ff ft pretty ind false l ++ rest) = true.
  Proof. destruct l as [|[k x] l], pretty; reflexivity. Qed.

  Lemma skip_ws_sep_first pretty ind s c r :
    s = c :: r -> is_ws c = false -> skip_ws (sep pretty true ind ++ s) = c :: r.
  Proof.
    intros -> Hc. destruct pretty; cbn [sep app].
    - cbn [skip_ws is_ws N.eqb Pos.eqb orb]. rewrite skip_ws_indent. apply skip_ws_start. exact Hc.
    - apply skip_ws_start. exact Hc.
  Qed.

  Lemma skip_ws_sep_next pretty ind s c r :
    s = c :: r -> is_ws c = false ->
    exists w, sep pretty false ind ++ s = 44 :: w /\ skip_ws w = c :: r.
  Proof.
    intros -> Hc. destruct pretty; cbn [sep app].
    - eexists. split; [reflexivity|]. cbn [skip_ws is_ws N.eqb Pos.eqb orb]. rewrite skip_ws_indent.
      apply skip_ws_start. exact Hc.
    - eexists. split; [reflexivity|]. apply skip_ws_start. exact Hc.
  Qed.

  Lemma skip_ws_close pretty ind c r : is_ws c = false -> skip_ws (close pretty ind ++ c :: r) = c :: r.
  Proof.
    intros Hc. destruct pretty; cbn [close app].
    - cbn [skip_ws is_ws N.eqb Pos.eqb orb]. rewrite skip_ws_indent. apply skip_ws_start. exact Hc.
    - apply skip_ws_start. exact Hc.
  Qed.

  (* the statement proved for every value *)
  Definition RT (v : value) : Prop :=
    jrep fok v = true ->
    forall pretty ind fuel depth rest,
      (2 * length (print_value ff ft pretty ind v) <= fuel)%nat ->
      vdepth v < depth -> num_end rest = true ->
      exists v', parse_value fuel depth (print_value ff ft pretty ind v ++ rest) = Some (v', rest)
                 /\ value_close v v' = true.

  (* arrays, given the statement for the elements *)
  Lemma elems_rt l : Forall RT l -> forallb (jrep fok) l = true ->
    forall pretty ind first fuel depth rest,
      (2 * length (print_elems ff ft pretty ind first l) <= fuel)%nat ->
      depth_list l < depth ->
      exists l', parse_elems fuel depth first (print_elems ff ft pretty ind first l ++ rest) = Some (l', rest)
                 /\ list_close l l' = true.
  Proof.
    induction 1 as [|x l Hx Hl IH]; intros Hj pretty ind first fuel depth rest Hfuel Hdepth.
    - cbn [print_elems] in *. rewrite app_length in Hfuel. cbn [length] in Hfuel.
      destruct fuel as [|fuel]; [lia|].
      exists []. split; [|reflexivity].
      cbn [parse_elems]. rewrite <- app_assoc. cbn [app].
      rewrite skip_ws_close by reflexivity. reflexivity.
    - cbn [forallb] in Hj. apply andb_true_iff in Hj as [Hjx Hjl].
      cbn [depth_list fold_right] in Hdepth. fold (depth_list l) in Hdepth.
      cbn [print_elems] in *. rewrite !app_length in Hfuel.
      pose proof (print_nonempty pretty (S ind) x Hjx) as Hnx.
      pose proof (print_elems_nonempty pretty ind false l) as Hnl.
      destruct (print_head pretty (S ind) x Hjx) as (c & r & Ehead & Hstart).
      destruct (is_start_facts c Hstart) as (Hws & H93 & _ & _ & _ & _).
      destruct fuel as [|fuel]; [lia|].
      (* the element *)
      destruct (Hx Hjx pretty (S ind) fuel depth (print_elems ff ft pretty ind false l ++ rest))
        as (x' & Hpx & Hcx); [lia | lia | apply num_end_elems |].
      (* the remaining elements *)
      destruct (IH Hjl pretty ind false fuel depth rest) as (l' & Hpl & Hcl); [lia | lia |].
      exists (x' :: l'). split; [|cbn [list_close]; rewrite Hcx, Hcl; reflexivity].
      rewrite <- !app_assoc.
      set (tail := print_value ff ft pretty (S ind) x ++ print_elems ff ft pretty ind false l ++ rest) in *.
      assert (Etail : tail = c :: (r ++ print_elems ff ft pretty ind false l ++ rest)).
      { unfold tail. rewrite Ehead. reflexivity. }
      destruct first.
      + cbn [parse_elems]. rewrite (skip_ws_sep_first pretty (S ind) tail c _ Etail Hws).
        rewrite H93. rewrite <- Etail. rewrite Hpx, Hpl. reflexivity.
      + destruct (skip_ws_sep_next pretty (S ind) tail c _ Etail Hws) as (w & Ew & Hw).
        cbn [parse_elems]. rewrite Ew. cbn [skip_ws is_ws N.eqb Pos.eqb orb]. cbv iota.
        change (44 =? 93) with false. change (44 =? 44) with true. cbv iota.
        rewrite Hw, H93. rewrite <- Etail. rewrite Hpx, Hpl. reflexivity.
  Qed.

  (* objects *)
  Lemma members_rt l : Forall (fun kv => RT (snd kv)) l -> jrep_pairs fok l = true ->
    forall pretty ind first fuel depth rest,
      (2 * length (print_members ff ft pretty ind first l) <= fuel)%nat ->
      depth_pairs l < depth ->
      exists l', parse_members fuel depth first (print_members ff ft pretty ind first l ++ rest) = Some (l', rest)
                 /\ pairs_close l l' = true.
  Proof.
    induction 1 as [|[k x] l Hx Hl IH]; intros Hj pretty ind first fuel depth rest Hfuel Hdepth.
    - cbn [print_members] in *. rewrite app_length in Hfuel. cbn [length] in Hfuel.
      destruct fuel as [|fuel]; [lia|].
      exists []. split; [|reflexivity].
      cbn [parse_members]. rewrite <- app_assoc. cbn [app].
      rewrite skip_ws_close by reflexivity. reflexivity.
    - cbn [snd] in Hx. cbn [jrep_pairs] in Hj. fold (jrep_pairs fok) in Hj.
      apply andb_true_iff in Hj as [Hj Hjl]. apply andb_true_iff in Hj as [Hk Hjx].
      cbn [depth_pairs] in Hdepth. fold depth_pairs in Hdepth.
      cbn [print_members] in *. fold (print_members ff ft pretty ind) in *.
      rewrite !app_length in Hfuel.
      pose proof (print_nonempty pretty (S ind) x Hjx) as Hnx.
      pose proof (print_members_nonempty pretty ind false l) as Hnl.
      destruct fuel as [|fuel]; [lia|].
      destruct (Hx Hjx pretty (S ind) fuel depth (print_members ff ft pretty ind false l ++ rest))
        as (x' & Hpx & Hcx); [unfold print_string in Hfuel; cbn [length] in Hfuel; lia | lia | apply num_end_members |].
      destruct (IH Hjl pretty ind false fuel depth rest) as (l' & Hpl & Hcl);
        [unfold print_string in Hfuel; cbn [length] in Hfuel; lia | lia |].
      exists ((k, x') :: l'). split; [|cbn [pairs_close]; rewrite bytes_eqb_refl, Hcx, Hcl; reflexivity].
      rewrite <- !app_assoc.
      set (vtail := print_value ff ft pretty (S ind) x ++ print_members ff ft pretty ind false l ++ rest) in *.
      (* after the key's opening quote *)
      assert (Hmember :
        match parse_string (escape_body k ++ 34 :: colon pretty ++ vtail) with
        | Some (k0, r1) =>
            match skip_ws r1 with
            | 58 :: r2 =>
                match parse_value fuel depth r2 with
                | Some (x0, r3) =>
                    match parse_members fuel depth false r3 with
                    | Some (kvs, r4) => Some ((k0, x0) :: kvs, r4)
                    | None => None
                    end
                | None => None
                end
            | _ => None
            end
        | None => None
        end = Some ((k, x') :: l', rest)).
      { rewrite parse_string_print.
        destruct pretty; cbn [colon app skip_ws is_ws N.eqb Pos.eqb orb].
        - rewrite parse_value_ws by reflexivity. rewrite Hpx, Hpl. reflexivity.
        - rewrite Hpx, Hpl. reflexivity. }
      assert (Ekey : print_string k ++ colon pretty ++ vtail = 34 :: (escape_body k ++ 34 :: colon pretty ++ vtail)).
      { unfold print_string. cbn [app]. rewrite <- app_assoc. reflexivity. }
      destruct first.
      + cbn [parse_members].
        rewrite (skip_ws_sep_first pretty (S ind) _ 34 _ Ekey eq_refl).
        change (34 =? 125) with false. change (34 =? 34) with true. cbv iota. exact Hmember.
      + destruct (skip_ws_sep_next pretty (S ind) _ 34 _ Ekey eq_refl) as (w & Ew & Hw).
        cbn [parse_members]. rewrite Ew. cbn [skip_ws is_ws N.eqb Pos.eqb orb]. cbv iota.
        change (44 =? 125) with false. change (44 =? 44) with true. cbv iota.
        rewrite Hw. exact Hmember.
  Qed.

  Lemma leb_depth d n : 1 + n < d -> (d <=? 1) = false /\ n < d - 1.
  Proof. intros H. split; [apply N.leb_gt; lia | lia]. Qed.

  Theorem rt_all : forall v, RT v.
  Proof.
    induction v as [b|src|z|f|b|ns|kvs IHk|vs IHv|] using value_ind'; unfold RT;
      intros Hj pretty ind fuel depth rest Hfuel Hdepth Hend; cbn [jrep] in Hj; try discriminate.
    - (* string *)
      cbn [print_value] in *. rewrite (lossy_id b Hj) in *.
      unfold print_string in *. cbn [length] in Hfuel. destruct fuel as [|fuel]; [lia|].
      exists (VBytes b). split; [|cbn [value_close value_eqb]; apply bytes_eqb_refl].
      cbn [app]. rewrite parse_value_str. rewrite <- app_assoc. cbn [app].
      rewrite parse_string_print. reflexivity.
    - (* integer *)
      cbn [print_value] in *.
      destruct (print_int_head z) as (c & r & E & Hc).
      assert (Hlen : (1 <= length (print_int z))%nat) by (rewrite E; cbn; lia).
      destruct fuel as [|fuel]; [lia|].
      exists (VInt z). split; [|cbn [value_close value_eqb]; apply Z.eqb_refl].
      pose proof (parse_num_tok_print_int z rest Hj Hend) as Hp.
      rewrite E in *. cbn [app] in *. rewrite parse_value_num by exact Hc.
      destruct Hp as [Hp|[Hp Hz]]; rewrite Hp; [reflexivity|].
      rewrite (value_of_pnum_int z (PU64 (Z.to_N z)) Hj); [reflexivity|].
      right; split; [reflexivity | exact Hz].
    - (* float *)
      apply andb_true_iff in Hj as [Hfin Hf]. cbn [print_value] in *. rewrite Hfin in *.
      destruct (fok_spec f Hf) as (_ & f' & Hp & Hclose).
      destruct (parse_num_tok_head _ _ _ Hp) as (c & t & E & Hc).
      assert (Hlen : (1 <= length (ff f))%nat) by (rewrite E; cbn; lia).
      destruct fuel as [|fuel]; [lia|].
      exists (VFloat f'). split; [|exact Hclose].
      pose proof (parse_num_tok_local _ _ rest Hp Hend) as Hl.
      rewrite E in *. cbn [app] in *. rewrite parse_value_num by exact Hc. rewrite Hl. reflexivity.
    - (* boolean *)
      destruct b; cbn [print_value] in *; cbn [length t_true t_false] in Hfuel;
        (destruct fuel as [|fuel]; [lia|]); eexists; (split; [reflexivity | reflexivity]).
    - (* object *)
      change (keys_sorted kvs && jrep_pairs fok kvs = true) in Hj. apply andb_true_iff in Hj as [Hsorted Hjp].
      rewrite vdepth_obj_eq in Hdepth. destruct (leb_depth _ _ Hdepth) as [Hd1 Hd2].
      destruct kvs as [|kv kvs].
      + cbn [print_value length] in *. destruct fuel as [|[|fuel]]; try lia.
        exists (VObj []). split; [|reflexivity].
        cbn [app]. rewrite parse_value_obj, Hd1. reflexivity.
      + rewrite print_obj_eq in *. cbn [length] in Hfuel. destruct fuel as [|fuel]; [lia|].
        destruct (members_rt (kv :: kvs) IHk Hjp pretty ind true fuel (depth - 1) rest) as (l' & Hp & Hc);
          [lia | exact Hd2 |].
        exists (VObj l'). split; [|rewrite close_obj_eq; exact Hc].
        cbn [app]. rewrite parse_value_obj, Hd1, Hp. f_equal. f_equal. f_equal.
        apply obj_of_list_sorted. rewrite <- (keys_sorted_same_keys _ _ (pairs_close_keys _ _ Hc)). exact Hsorted.
    - (* array *)
      rewrite vdepth_arr_eq in Hdepth. destruct (leb_depth _ _ Hdepth) as [Hd1 Hd2].
      destruct vs as [|x vs].
      + cbn [print_value length] in *. destruct fuel as [|[|fuel]]; try lia.
        exists (VArr []). split; [|reflexivity].
        cbn [app]. rewrite parse_value_arr, Hd1. reflexivity.
      + rewrite print_arr_eq in *. cbn [length] in Hfuel. destruct fuel as [|fuel]; [lia|].
        destruct (elems_rt (x :: vs) IHv Hj pretty ind true fuel (depth - 1) rest) as (l' & Hp & Hc);
          [lia | exact Hd2 |].
        exists (VArr l'). split; [|rewrite close_arr_eq; exact Hc].
        cbn [app]. rewrite parse_value_arr, Hd1, Hp. reflexivity.
    - (* null *)
      cbn [print_value length t_null] in *. destruct fuel as [|fuel]; [lia|].
      eexists; split; reflexivity.
  Qed.
End RoundTrip.
