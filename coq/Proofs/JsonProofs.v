(* C21, part 3: the value-level round trip.  print_value (compact or pretty) followed by parse_value gives the
   value back (up to value_close), for every representable value of depth < remaining_depth; then the wrappers
   encode_json / parse_json (lossy UTF-8, BOM stripping, trailing whitespace, fuel). *)
From Coq Require Import List NArith ZArith Bool Lia.
From Coq Require Import Floats.SpecFloat.
From VRL Require Import Base.Bytes Base.Value Base.Lit Model.Json Proofs.JsonTextProofs Proofs.JsonNumProofs.
Import ListNotations.
Local Open Scope N_scope.

(* ---------------------------------------------------------------------------------------------- *)
(** * Names for the nested fixpoints of the model (convertible with them) *)

Definition print_elems (ff : spec_float -> bytes) (ft : Z -> bytes) (pretty : bool) (ind : nat) :=
  fix go (first : bool) (l : list value) {struct l} : bytes :=
    match l with
    | [] => close pretty ind ++ [93]
    | x :: l' => sep pretty first (S ind) ++ print_value ff ft pretty (S ind) x ++ go false l'
    end.

Definition print_members (ff : spec_float -> bytes) (ft : Z -> bytes) (pretty : bool) (ind : nat) :=
  fix go (first : bool) (l : list (bytes * value)) {struct l} : bytes :=
    match l with
    | [] => close pretty ind ++ [125]
    | (k, x) :: l' =>
        sep pretty first (S ind) ++ print_string k ++ colon pretty
        ++ print_value ff ft pretty (S ind) x ++ go false l'
    end.

Definition pairs_close :=
  fix go (l1 l2 : list (bytes * value)) {struct l1} : bool :=
    match l1, l2 with
    | [], [] => true
    | (k1, v1) :: r1, (k2, v2) :: r2 => bytes_eqb k1 k2 && value_close v1 v2 && go r1 r2
    | _, _ => false
    end.

Definition list_close :=
  fix go (l1 l2 : list value) {struct l1} : bool :=
    match l1, l2 with
    | [], [] => true
    | v1 :: r1, v2 :: r2 => value_close v1 v2 && go r1 r2
    | _, _ => false
    end.

Definition jrep_pairs (fok : spec_float -> bool) :=
  fix go (l : list (bytes * value)) {struct l} : bool :=
    match l with
    | [] => true
    | (k, x) :: l' => utf8_ok k && jrep fok x && go l'
    end.

Definition depth_pairs :=
  fix go (l : list (bytes * value)) {struct l} : N :=
    match l with
    | [] => 0
    | (_, x) :: l' => N.max (vdepth x) (go l')
    end.

Definition depth_list (vs : list value) : N := fold_right (fun x m => N.max (vdepth x) m) 0 vs.

Lemma print_arr_eq ff ft pretty ind x xs :
  print_value ff ft pretty ind (VArr (x :: xs)) = 91 :: print_elems ff ft pretty ind true (x :: xs).
Proof. reflexivity. Qed.

Lemma print_obj_eq ff ft pretty ind kv kvs :
  print_value ff ft pretty ind (VObj (kv :: kvs)) = 123 :: print_members ff ft pretty ind true (kv :: kvs).
Proof. reflexivity. Qed.

Lemma close_obj_eq x y : value_close (VObj x) (VObj y) = pairs_close x y.
Proof. reflexivity. Qed.

Lemma close_arr_eq x y : value_close (VArr x) (VArr y) = list_close x y.
Proof. reflexivity. Qed.

Lemma jrep_obj_eq fok kvs : jrep fok (VObj kvs) = keys_sorted kvs && jrep_pairs fok kvs.
Proof. reflexivity. Qed.

Lemma vdepth_obj_eq kvs : vdepth (VObj kvs) = 1 + depth_pairs kvs.
Proof. reflexivity. Qed.

Lemma vdepth_arr_eq vs : vdepth (VArr vs) = 1 + depth_list vs.
Proof. reflexivity. Qed.

(* ---------------------------------------------------------------------------------------------- *)
(** * First characters and dispatch *)

(* a JSON value starts with one of these *)
Definition is_start (c : N) : bool :=
  (c =? 34) || (c =? 45) || is_digit c || (c =? 91) || (c =? 123) || (c =? 116) || (c =? 102) || (c =? 110).

Ltac n_cases :=
  repeat match goal with
         | H : context [?x =? ?y] |- _ => destruct (N.eqb_spec x y)
         | H : context [?x <=? ?y] |- _ => destruct (N.leb_spec x y)
         | H : context [?x <? ?y] |- _ => destruct (N.ltb_spec x y)
         | |- context [?x =? ?y] => destruct (N.eqb_spec x y)
         | |- context [?x <=? ?y] => destruct (N.leb_spec x y)
         | |- context [?x <? ?y] => destruct (N.ltb_spec x y)
         end.

Lemma is_start_facts c : is_start c = true ->
  is_ws c = false /\ (c =? 93) = false /\ (c =? 125) = false /\ (c =? 44) = false /\ c < 128 /\ c <> 239.
Proof.
  unfold is_start, is_ws, is_digit, between. intros H.
  n_cases; cbn in H; try discriminate; repeat split; try reflexivity; try lia.
Qed.

Lemma skip_ws_start c r : is_ws c = false -> skip_ws (c :: r) = c :: r.
Proof. intros H. cbn [skip_ws]. rewrite H. reflexivity. Qed.

Lemma skip_ws_indent n s : skip_ws (indent n ++ s) = skip_ws s.
Proof. unfold indent. induction (n + n)%nat as [|k IH]; [reflexivity|]. cbn [repeat app skip_ws]. exact IH. Qed.

(* numbers *)
Lemma parse_value_num fuel depth c r :
  (c =? 45) || is_digit c = true ->
  parse_value (S fuel) depth (c :: r) =
  match parse_num_tok (c :: r) with
  | Some (p, r') => Some (value_of_pnum p, r')
  | None => None
  end.
Proof.
  intros H. cbn [parse_value skip_ws].
  assert (Hws : is_ws c = false /\ (c =? 110) = false /\ (c =? 116) = false /\ (c =? 102) = false).
  { unfold is_ws, is_digit, between in *. n_cases; cbn in H; try discriminate; repeat split; try reflexivity; lia. }
  destruct Hws as (H1 & H2 & H3 & H4). rewrite H1, H2, H3, H4, H. reflexivity.
Qed.

(* strings *)
Lemma parse_value_str fuel depth r :
  parse_value (S fuel) depth (34 :: r) =
  match parse_string r with
  | Some (t, r') => Some (VBytes t, r')
  | None => None
  end.
Proof. reflexivity. Qed.

Lemma parse_value_arr fuel depth r :
  parse_value (S fuel) depth (91 :: r) =
  if depth <=? 1 then None
  else match parse_elems fuel (depth - 1) true r with
       | Some (vs, r') => Some (VArr vs, r')
       | None => None
       end.
Proof. reflexivity. Qed.

Lemma parse_value_obj fuel depth r :
  parse_value (S fuel) depth (123 :: r) =
  if depth <=? 1 then None
  else match parse_members fuel (depth - 1) true r with
       | Some (kvs, r') => Some (VObj (obj_of_list kvs), r')
       | None => None
       end.
Proof. reflexivity. Qed.

(* leading whitespace is skipped by parse_value itself *)
Lemma parse_value_ws fuel depth w s : is_ws w = true -> parse_value fuel depth (w :: s) = parse_value fuel depth s.
Proof. intros H. destruct fuel; [reflexivity|]. cbn [parse_value skip_ws]. rewrite H. reflexivity. Qed.

(* ---------------------------------------------------------------------------------------------- *)
(** * Objects: inserting sorted keys in order rebuilds the list *)

Lemma obj_set_append m k x :
  Forall (fun kv => bytes_cmp (fst kv) k = Lt) m -> obj_set m k x = m ++ [(k, x)].
Proof.
  induction m as [|[k' v] m IH]; intros H; [reflexivity|].
  inversion H as [|? ? Hk Hm]; subst. cbn [fst] in Hk. cbn [obj_set app]. rewrite Hk. rewrite IH by assumption.
  reflexivity.
Qed.

Fixpoint keys_above (k : bytes) (l : list (bytes * value)) : Prop :=
  match l with
  | [] => True
  | (k', _) :: l' => bytes_cmp k k' = Lt /\ keys_above k l'
  end.

Lemma keys_sorted_above k v l : keys_sorted ((k, v) :: l) = true -> keys_above k l /\ keys_sorted l = true.
Proof.
  revert k v. induction l as [|[k' v'] l IH]; intros k v H; [split; [exact I | reflexivity]|].
  cbn [keys_sorted] in H. change (match l with [] => true | (k'0, _) :: _ => bytes_ltb k' k'0 && keys_sorted l end)
    with (keys_sorted ((k', v') :: l)) in H.
  apply andb_true_iff in H as [Hlt Hs]. split; [|exact Hs].
  unfold bytes_ltb in Hlt. destruct (bytes_cmp k k') eqn:E; try discriminate.
  cbn [keys_above]. split; [exact E|].
  destruct (IH k' v' Hs) as [Ha _].
  clear -Ha E. induction l as [|[k2 v2] l IHl]; [exact I|].
  cbn [keys_above] in *. destruct Ha as [H1 H2]. split; [eapply bytes_cmp_lt_trans; eassumption | apply IHl; exact H2].
Qed.

Lemma fold_obj_set_sorted l : forall acc,
  keys_sorted l = true ->
  (forall kv, In kv acc -> keys_above (fst kv) l) ->
  fold_left (fun m kv => obj_set m (fst kv) (snd kv)) l acc = acc ++ l.
Proof.
  induction l as [|[k v] l IH]; intros acc Hs Hacc; [cbn; symmetry; apply app_nil_r|].
  cbn [fold_left fst snd]. destruct (keys_sorted_above k v l Hs) as [Hab Hs'].
  rewrite obj_set_append.
  - rewrite IH; [rewrite <- app_assoc; reflexivity | exact Hs' |].
    intros kv Hin. apply in_app_or in Hin as [Hin|[<-|[]]].
    + specialize (Hacc kv Hin). destruct kv as [k0 v0]. cbn [fst keys_above] in *. tauto.
    + exact Hab.
  - apply Forall_forall. intros kv Hin. specialize (Hacc kv Hin). destruct kv as [k0 v0].
    cbn [fst keys_above] in *. tauto.
Qed.

Lemma obj_of_list_sorted l : keys_sorted l = true -> obj_of_list l = l.
Proof. intros H. unfold obj_of_list. rewrite fold_obj_set_sorted; [reflexivity | exact H | intros ? []]. Qed.

(* sortedness only looks at the keys *)
Lemma keys_sorted_same_keys l l' : map fst l = map fst l' -> keys_sorted l = keys_sorted l'.
Proof.
  revert l'. induction l as [|[k v] l IH]; intros [|[k' v'] l'] H; try discriminate; [reflexivity|].
  cbn [map fst] in H. injection H as -> H.
  cbn [keys_sorted]. destruct l as [|[k1 v1] l1], l' as [|[k1' v1'] l1']; try discriminate; [reflexivity|].
  pose proof (IH _ H) as IH'. cbn [map fst] in H. injection H as -> H.
  change (match l1 with [] => true | (k'0, _) :: _ => bytes_ltb k1' k'0 && keys_sorted l1 end)
    with (keys_sorted ((k1', v1) :: l1)).
  change (match l1' with [] => true | (k'0, _) :: _ => bytes_ltb k1' k'0 && keys_sorted l1' end)
    with (keys_sorted ((k1', v1') :: l1')).
  rewrite IH'. reflexivity.
Qed.

Lemma pairs_close_keys l : forall l', pairs_close l l' = true -> map fst l = map fst l'.
Proof.
  induction l as [|[k v] l IH]; intros [|[k' v'] l'] H; try discriminate; [reflexivity|].
  cbn [pairs_close] in H. apply andb_true_iff in H as [H H3]. apply andb_true_iff in H as [H1 H2].
  apply bytes_eqb_eq in H1. subst. cbn [map fst]. f_equal. apply IH. exact H3.
Qed.
