From Coq Require Import List NArith ZArith Bool Lia.
From VRL Require Import Base.Bytes Base.Value Model.Fuel.
Import ListNotations.
Local Open Scope Z_scope.

(* a non-negative scale (below 2^64) pads at most `scale` zeros *)
Lemma pad_bounded scale len : scale < two64 -> 0 <= len -> 0 <= pad_iterations scale len <= Z.max scale 0.
Proof.
  intros Hs Hl. unfold pad_iterations. destruct (Z.leb_spec scale 0); [lia|].
  unfold pad_iterations_cast, as_usize. rewrite Z.mod_small by lia.
  destruct (Z.ltb_spec len scale); lia.
Qed.

(* a negative scale wraps to an astronomically large count: the loop does not finish in practice *)
Lemma pad_negative_huge scale len :
  - 9223372036854775808 <= scale < 0 -> 0 <= len <= 64 -> 9223372036854775744 <= pad_iterations_cast scale len.
Proof.
  intros Hs Hl. unfold pad_iterations_cast, as_usize, two64 in *.
  assert (E : scale mod 18446744073709551616 = scale + 18446744073709551616).
  { symmetry. apply Z.mod_unique with (q := -1); lia. }
  rewrite E. destruct (Z.ltb_spec len (scale + 18446744073709551616)); lia.
Qed.

Close Scope Z_scope.

(* zip of no arrays never finishes: every amount of fuel is exhausted *)
Lemma multizip_nil_diverges fuel : multizip fuel [] = None.
Proof. induction fuel as [|f IH]; cbn; auto. rewrite IH. reflexivity. Qed.

Lemma heads_tails_len its hs ts :
  heads_tails its = Some (hs, ts) -> length ts = length its /\
  (its <> [] -> min_len ts = pred (min_len its) /\ 0 < min_len its).
Proof.
  revert hs ts. induction its as [|l rest IH]; intros hs ts H; cbn in H.
  - inversion H; subst. split; auto. congruence.
  - destruct l as [|x r]; try discriminate.
    destruct (heads_tails rest) as [[hs' ts']|] eqn:E; try discriminate. inversion H; subst.
    destruct (IH _ _ eq_refl) as [L M]. split; [cbn; lia|]. intros _.
    destruct rest as [|l2 rest2].
    + cbn in E. inversion E; subst. cbn. lia.
    + destruct (M ltac:(discriminate)) as [M1 M2].
      (* min over a non-empty tail *)
      assert (G : forall (a : list (list value)) m, fold_left (fun m x => Nat.min m (length x)) a m
                   = Nat.min m (fold_left (fun m x => Nat.min m (length x)) a m)).
      { induction a; intros; cbn; [lia|]. rewrite IHa. lia. }
      assert (Hmin : forall (a : list (list value)) m, fold_left (fun m x => Nat.min m (length x)) a m <= m).
      { intros a m. rewrite G. lia. }
      cbn [min_len] in *. cbn [length].
      assert (Mono : forall (a : list (list value)) m n, m <= n ->
                 fold_left (fun m x => Nat.min m (length x)) a m <= fold_left (fun m x => Nat.min m (length x)) a n).
      { induction a; intros; cbn; [lia|]. apply IHa. lia. }
      (* relate the folds starting from length r / S (length r) with those of the tail *)
      assert (Key : forall (a : list (list value)) m k,
                 fold_left (fun m x => Nat.min m (length x)) a (Nat.min m k)
                 = Nat.min m (fold_left (fun m x => Nat.min m (length x)) a k)).
      { induction a; intros; cbn; [reflexivity|]. rewrite <- IHa. f_equal. lia. }
      destruct ts' as [|t2 ts2]; [cbn in L; discriminate|].
      cbn [fold_left] in *.
      (* min_len (r :: t2 :: ts2) = min (length r) (min_len (t2 :: ts2)) *)
      rewrite (Key ts2 (length r) (length t2)).
      rewrite (Key rest2 (S (length r)) (length l2)).
      cbn [min_len] in M1, M2. lia.
Qed.

Lemma multizip_terminates its : its <> [] -> forall fuel, min_len its < fuel -> multizip fuel its <> None.
Proof.
  intros Hne fuel. revert its Hne. induction fuel as [|f IH]; intros its Hne Hf; [lia|].
  cbn [multizip]. destruct (heads_tails its) as [[hs ts]|] eqn:E; [|discriminate].
  destruct (heads_tails_len _ _ _ E) as [L M]. destruct (M Hne) as [M1 M2].
  assert (Hts : ts <> []) by (destruct its, ts; cbn in L; congruence).
  specialize (IH ts Hts ltac:(lia)). destruct (multizip f ts); congruence.
Qed.

Lemma zip_all_terminates its fuel : min_len its < fuel -> zip_all fuel its <> None.
Proof.
  intros H. destruct its as [|l r]; [discriminate|]. unfold zip_all.
  apply multizip_terminates; [discriminate|exact H].
Qed.
