(* src/protobuf/encode.rs + parse.rs on message-shaped values (Model/ProtoGlue.v):
   encode_message turns a shaped value into a well-typed dynamic message, and proto_to_value of that message is
   the value without the fields that hold a default (strip_defaults).  With the wire theorem of ProtoMsgProofs.v
   and ptv_canon this gives parse_proto (encode_proto v) = strip_defaults v. *)
From Coq Require Import String.
From Coq Require Import List NArith ZArith Znumtheory Bool Arith Lia Permutation.
From Coq Require Import Floats.SpecFloat.
From VRL Require Import Base.Bytes Base.Value Base.Lit Model.ConvRes Model.IntText Model.CodecUtf8 Model.Flatten
     Model.Proto Model.ProtoGlue
     Proofs.PercentProofs Proofs.FlattenProofs
     Proofs.ProtoWireProofs Proofs.ProtoScalarProofs Proofs.ProtoMsgProofs Proofs.ProtoGlueProofs.
Import ListNotations.

Local Open Scope Z_scope.

(* ---------- descriptor conditions, decidable (they are evaluated on the bundled descriptors) ---------- *)

Definition is_key_kindb (k : skind) : bool :=
  match k with
  | KDouble | KFloat | KBytes | KEnum _ _ | KMsg _ => false
  | _ => true
  end.

Definition field_okb (f : field) : bool :=
  match f_card f with
  | CSingular pres => pres || negb (is_msg_kind (f_kind f))       (* message fields have presence *)
  | CRepeated packed => negb packed || is_packable (f_kind f)
  | CMap kk _ vpres => is_key_kindb kk && (vpres || negb (is_msg_kind (f_kind f)))
  end.

Fixpoint increasingb (lo : N) (d : list field) : bool :=
  match d with
  | [] => true
  | f :: r => (lo <? f_num f)%N && (f_num f <? 2 ^ 29)%N && increasingb (f_num f) r
  end.

Fixpoint name_free (n : bytes) (d : list field) : bool :=
  match d with
  | [] => true
  | f :: r => negb (bytes_eqb (f_name f) n) && name_free n r
  end.
Fixpoint names_distinct (d : list field) : bool :=
  match d with
  | [] => true
  | f :: r => name_free (f_name f) r && names_distinct r
  end.

Definition desc_okb (d : list field) : bool := increasingb 0 d && forallb field_okb d && names_distinct d.
Definition pool_okb (P : list (list field)) : bool := forallb desc_okb P.

Lemma increasingb_spec lo d : increasingb lo d = true -> increasing lo d.
Proof.
  revert lo; induction d as [|f r IH]; intros lo H; [exact I|]. cbn [increasingb] in H.
  apply andb_true_iff in H. destruct H as [H H3]. apply andb_true_iff in H. destruct H as [H1 H2].
  apply N.ltb_lt in H1, H2. cbn [increasing]. repeat split; [exact H1 | exact H2 | apply IH; exact H3].
Qed.

Lemma is_key_kindb_spec k : is_key_kindb k = true -> is_key_kind k.
Proof. destruct k; cbn; intros H; try exact I; discriminate. Qed.

Lemma field_okb_ok f : field_okb f = true -> field_ok f.
Proof.
  unfold field_okb, field_ok. destruct (f_card f) as [[|]|p|kk kp vp]; intros H; try exact I.
  cbn in H. apply negb_true_iff in H. exact H.
Qed.

Lemma desc_okb_spec d : desc_okb d = true -> wf_desc d /\ desc_ok d /\ Forall (fun f => field_okb f = true) d
                                             /\ names_distinct d = true.
Proof.
  unfold desc_okb. intros H. apply andb_true_iff in H. destruct H as [H H3]. apply andb_true_iff in H. destruct H as [H1 H2].
  rewrite forallb_forall in H2. repeat split.
  - apply increasingb_spec. exact H1.
  - apply Forall_forall. intros f Hf. apply field_okb_ok. apply H2. exact Hf.
  - apply Forall_forall. exact H2.
  - exact H3.
Qed.

Lemma pool_okb_get P i : pool_okb P = true -> desc_okb (get_msg P i) = true.
Proof.
  unfold pool_okb, get_msg. intros H. rewrite forallb_forall in H.
  destruct (nth_in_or_default i P []) as [Hin| ->]; [apply H; exact Hin | reflexivity].
Qed.

Lemma find_by_name_self d f : names_distinct d = true -> In f d -> find_by_name d (f_name f) = Some f.
Proof.
  induction d as [|g r IH]; intros Hd Hin; [contradiction|]. cbn [names_distinct] in Hd.
  apply andb_true_iff in Hd. destruct Hd as [Hg Hr]. cbn [find_by_name]. destruct Hin as [->|Hin].
  - rewrite bytes_eqb_refl. reflexivity.
  - replace (bytes_eqb (f_name g) (f_name f)) with false; [apply IH; assumption|].
    symmetry. clear -Hg Hin. induction r as [|h r IH]; [contradiction|]. cbn [name_free] in Hg.
    apply andb_true_iff in Hg. destruct Hg as [H1 H2]. destruct Hin as [->|Hin].
    + apply negb_true_iff in H1. rewrite bytes_eqb_sym. exact H1.
    + apply IH; assumption.
Qed.

Lemma find_by_name_in d n f : find_by_name d n = Some f -> In f d /\ f_name f = n.
Proof.
  induction d as [|g r IH]; [discriminate|]. cbn [find_by_name]. destruct (bytes_eqb (f_name g) n) eqn:E.
  - intros H. inversion H; subst. split; [left; reflexivity | apply bytes_eqb_eq; exact E].
  - intros H. destruct (IH H) as [Hin Hn]. split; [right; exact Hin | exact Hn].
Qed.

(* ---------- sizes: the only thing a shaped value does not determine is whether every length prefix fits ---------- *)

Definition lens_plain (v : pval) : Prop :=
  match v with PStr s | PBytes s => len_ok s | _ => True end.

(* ---------- one scalar of a non-message kind ---------- *)

Lemma in_range_spec lo hi z : in_range lo hi z = true -> lo <= z <= hi.
Proof. unfold in_range. intros H. apply andb_true_iff in H. destruct H as [H1 H2]. apply Z.leb_le in H1, H2. lia. Qed.

Lemma wrap_s64_u64 i : - 2 ^ 63 <= i < 2 ^ 63 -> wrap_s 64 (wrap_u 64 i) = i.
Proof.
  intros H. unfold wrap_u. change (2 ^ 64) with two64. rewrite (wrap_s_mod64 64 i) by lia. apply wrap_s_id; lia.
Qed.

Lemma wrap_u64_zero i : - 2 ^ 63 <= i < 2 ^ 63 -> (wrap_u 64 i =? 0) = (i =? 0).
Proof.
  intros H. unfold wrap_u. destruct (Z.eqb_spec i 0) as [->|Hn]; [reflexivity|].
  apply Z.eqb_neq. destruct (Z.neg_nonneg_cases i) as [Hneg|Hnn].
  - replace i with ((i + 2 ^ 64) + (-1) * 2 ^ 64) by lia. rewrite Z.mod_add by lia. rewrite Z.mod_small by lia. lia.
  - rewrite Z.mod_small by lia. exact Hn.
Qed.

Lemma eq_ignore_refl a : eq_ignore_ascii_case a a = true.
Proof. unfold eq_ignore_ascii_case. apply bytes_eqb_refl. Qed.

Section Scalar.
  Variable P : list (list field).
  Variable lossy : bool.
  Variable cm : list field -> value -> pres (list (N * pval)).
  Variable sm : list field -> value -> bool.
  Variable pm : list field -> list (N * pval) -> pres value.

  (* conversion of a shaped value of a non-message kind: well-typed (given its size), read back as itself, default
     exactly when the value is the proto3 default *)
  Lemma conv_plain k x :
    is_msg_kind k = false -> shaped_scalar P sm k x = true ->
    exists pv, conv_raw P lossy cm x k = POk pv
               /\ (lens_plain pv -> wt_plain k pv)
               /\ ptv_scalar P pm k pv = POk x
               /\ is_default_scalar k pv = is_default_value k x
               /\ (is_default_scalar k pv = true -> is_neg_zero x = false -> pv = default_of k).
  Proof.
    intros Hk Hs.
    destruct k; try discriminate; destruct x; cbn [shaped_scalar] in Hs; try discriminate;
      try (apply in_range_spec in Hs).
    all: cbn [conv_raw ptv_scalar is_default_scalar is_default_value wt_plain lens_plain default_of is_neg_zero].
    - (* int32 *) rewrite wrap_s_id by lia. eexists. split; [reflexivity|]. cbn [ptv_scalar is_default_scalar is_default_value wt_plain lens_plain default_of]. repeat split; try lia.
      intros H _. apply Z.eqb_eq in H. subst. reflexivity.
    - (* int64 *) eexists. split; [reflexivity|]. cbn [ptv_scalar is_default_scalar is_default_value wt_plain lens_plain default_of]. repeat split; try lia.
      intros H _. apply Z.eqb_eq in H. subst. reflexivity.
    - (* uint32 *) rewrite wrap_u_id by lia. eexists. split; [reflexivity|]. cbn [ptv_scalar is_default_scalar is_default_value wt_plain lens_plain default_of]. repeat split; try lia.
      intros H _. apply Z.eqb_eq in H. subst. reflexivity.
    - (* uint64: any i64, through `as u64` and back through `as i64` *)
      eexists. split; [reflexivity|]. cbn [ptv_scalar is_default_scalar is_default_value wt_plain lens_plain default_of]. split; [intros _; unfold wrap_u; apply Z.mod_pos_bound; lia|].
      split; [rewrite wrap_s64_u64 by lia; reflexivity|]. split; [apply wrap_u64_zero; lia|].
      intros H _. apply Z.eqb_eq in H. rewrite H. reflexivity.
    - (* sint32 *) rewrite wrap_s_id by lia. eexists. split; [reflexivity|]. cbn [ptv_scalar is_default_scalar is_default_value wt_plain lens_plain default_of]. repeat split; try lia.
      intros H _. apply Z.eqb_eq in H. subst. reflexivity.
    - (* sint64 *) eexists. split; [reflexivity|]. cbn [ptv_scalar is_default_scalar is_default_value wt_plain lens_plain default_of]. repeat split; try lia.
      intros H _. apply Z.eqb_eq in H. subst. reflexivity.
    - (* fixed32 *) rewrite wrap_u_id by lia. eexists. split; [reflexivity|]. cbn [ptv_scalar is_default_scalar is_default_value wt_plain lens_plain default_of]. repeat split; try lia.
      intros H _. apply Z.eqb_eq in H. subst. reflexivity.
    - (* fixed64 *)
      eexists. split; [reflexivity|]. cbn [ptv_scalar is_default_scalar is_default_value wt_plain lens_plain default_of]. split; [intros _; unfold wrap_u; apply Z.mod_pos_bound; lia|].
      split; [rewrite wrap_s64_u64 by lia; reflexivity|]. split; [apply wrap_u64_zero; lia|].
      intros H _. apply Z.eqb_eq in H. rewrite H. reflexivity.
    - (* sfixed32 *) rewrite wrap_s_id by lia. eexists. split; [reflexivity|]. cbn [ptv_scalar is_default_scalar is_default_value wt_plain lens_plain default_of]. repeat split; try lia.
      intros H _. apply Z.eqb_eq in H. subst. reflexivity.
    - (* sfixed64 *) eexists. split; [reflexivity|]. cbn [ptv_scalar is_default_scalar is_default_value wt_plain lens_plain default_of]. repeat split; try lia.
      intros H _. apply Z.eqb_eq in H. subst. reflexivity.
    - (* double *)
      apply andb_true_iff in Hs. destruct Hs as [Hs Hr]. apply andb_true_iff in Hs. destruct Hs as [Hn Hc].
      apply negb_true_iff in Hn. apply sf_eqb_eq in Hc. apply in_range_spec in Hr.
      eexists. split; [reflexivity|]. cbn [ptv_scalar is_default_scalar is_default_value wt_plain lens_plain default_of]. split; [intros _; split; [exact Hc | lia]|].
      split; [rewrite Hn; reflexivity|]. split; [reflexivity|].
      intros Hz Hneg. destruct f as [[|]| | |]; try discriminate; reflexivity.
    - (* float *)
      repeat (apply andb_true_iff in Hs; destruct Hs as [Hs ?H]).
      apply negb_true_iff in Hs. apply negb_true_iff in H3. apply sf_eqb_eq in H2, H1. apply in_range_spec in H0.
      apply Bool.eqb_prop in H.
      eexists. split; [reflexivity|]. cbn [ptv_scalar is_default_scalar is_default_value wt_plain lens_plain default_of]. split; [intros _; split; [exact H1 | lia]|].
      split; [rewrite H3, H2; reflexivity|]. split; [exact H|].
      intros Hz Hneg. rewrite H in Hz. destruct f as [[|]| | |]; try discriminate. reflexivity.
    - (* bool *) eexists. split; [reflexivity|]. cbn [ptv_scalar is_default_scalar is_default_value wt_plain lens_plain default_of]. repeat split.
      intros H _. destruct b; [discriminate | reflexivity].
    - (* string *) rewrite (lossy_valid b Hs). eexists. split; [reflexivity|]. cbn [ptv_scalar is_default_scalar is_default_value wt_plain lens_plain default_of]. split; [intros Hl; split; assumption|].
      repeat split. intros H _. destruct b; [reflexivity | discriminate].
    - (* bytes *) eexists. split; [reflexivity|]. cbn [ptv_scalar is_default_scalar is_default_value wt_plain lens_plain default_of]. split; [intros Hl; exact Hl|].
      repeat split. intros H _. destruct b; [reflexivity | discriminate].
    - (* enum *)
      apply andb_true_iff in Hs. destruct Hs as [Hu Hs]. rewrite (lossy_valid b Hu).
      destruct (enum_by_name vals b) as [z|] eqn:En; [|discriminate].
      apply andb_true_iff in Hs. destruct Hs as [Hs Hdf]. apply Bool.eqb_prop in Hdf.
      apply andb_true_iff in Hs. destruct Hs as [Hr Hs]. apply in_range_spec in Hr.
      destruct (enum_by_number vals z) as [n|] eqn:Ez; [|discriminate]. apply bytes_eqb_eq in Hs. subst n.
      eexists. split; [reflexivity|]. cbn [ptv_scalar is_default_scalar is_default_value wt_plain lens_plain default_of]. split; [intros _; lia|]. split; [rewrite Ez; reflexivity|].
      split; [exact Hdf|].
      intros H _. apply Z.eqb_eq in H. subst. reflexivity.
  Qed.
End Scalar.

(* ---------- sorted objects ---------- *)

Lemma obj_set_append_lt (m : obj) k x :
  Forall (fun e => bytes_ltb (fst e) k = true) m -> obj_set m k x = m ++ [(k, x)].
Proof.
  induction 1 as [|[k' v'] r Hk Hr IH]; [reflexivity|]. cbn [obj_set app]. cbn [fst] in Hk.
  unfold bytes_ltb in Hk. destruct (bytes_cmp k' k); try discriminate. rewrite IH. reflexivity.
Qed.

Lemma sorted_all_lt_later k v (m : obj) : obj_sorted ((k, v) :: m) = true -> Forall (fun e => bytes_ltb k (fst e) = true) m.
Proof. intros H. apply Forall_forall. intros e He. exact (sorted_head_lt k v m H e He). Qed.

Lemma bytes_ltb_neq a b : bytes_ltb a b = true -> a <> b.
Proof. intros H E. subst. rewrite bytes_ltb_irrefl in H. discriminate. Qed.

Lemma sorted_in_get' (o : obj) k x : obj_sorted o = true -> In (k, x) o -> obj_get o k = Some x.
Proof. intros Hs Hin. apply obj_get_in; [apply sorted_nodup; exact Hs | exact Hin]. Qed.

Lemma obj_get_in' (o : obj) k x : obj_get o k = Some x -> In (k, x) o.
Proof.
  induction o as [|[k' v'] r IH]; [discriminate|]. cbn [obj_get]. destruct (bytes_eqb k' k) eqn:E.
  - intros H. inversion H; subst. apply bytes_eqb_eq in E. subst. left. reflexivity.
  - intros H. right. apply IH. exact H.
Qed.

(* ---------- sizes of a whole dynamic message ---------- *)

Section Lens.
  Variable P : list (list field).

  Definition lens_scalar (L : list field -> list (N * pval) -> Prop) (k : skind) (v : pval) : Prop :=
    match k, v with
    | KMsg i, PMsg fs => L (get_msg P i) fs
    | _, _ => lens_plain v
    end.

  Definition lens_field (em : list field -> list (N * pval) -> bytes) (L : list field -> list (N * pval) -> Prop)
             (f : field) (v : pval) : Prop :=
    match f_card f, v with
    | CRepeated packed, PList l =>
        Forall (lens_scalar L (f_kind f)) l
        /\ (packed = true -> len_ok (concat (map (enc_packed_elem (f_kind f)) l)))
    | CMap kk kp vp, PMap l =>
        Forall (fun kv : pval * pval => lens_plain (fst kv) /\ lens_scalar L (f_kind f) (snd kv)
                                        /\ len_ok (enc_entry P em kk kp (f_kind f) vp kv)) l
    | _, _ => lens_scalar L (f_kind f) v
    end.

  (* every byte string, packed payload, map entry and embedded message is shorter than 2^64 bytes *)
  Fixpoint lens_msg (fuel : nat) (d : list field) (m : list (N * pval)) : Prop :=
    match fuel with
    | O => True
    | S fu =>
        Forall (fun f => match dm_get m (f_num f) with
                         | Some v => lens_field (enc_msg P fu)
                                                (fun d' m' => lens_msg fu d' m' /\ len_ok (enc_msg P fu d' m')) f v
                         | None => True
                         end) d
    end.
End Lens.

(* ---------- one level of the conversion, given the level below ---------- *)

Section Level.
  Variable P : list (list field).
  Variable lossy : bool.
  Hypothesis pool_ok : pool_okb P = true.

  Variable cm : list field -> value -> pres (list (N * pval)).
  Variable sm : list field -> value -> bool.
  Variable pm : list field -> list (N * pval) -> pres value.
  Variable st : list field -> value -> value.
  Variable em : list field -> list (N * pval) -> bytes.
  Variable WT L : list field -> list (N * pval) -> Prop.
  Hypothesis below : forall i v', sm (get_msg P i) v' = true ->
    exists m', cm (get_msg P i) v' = POk m' /\ (L (get_msg P i) m' -> WT (get_msg P i) m')
               /\ pm (get_msg P i) m' = POk (st (get_msg P i) v').

  Lemma conv_scalar k x :
    shaped_scalar P sm k x = true ->
    exists pv, conv_raw P lossy cm x k = POk pv
               /\ (lens_scalar P L k pv -> wt_scalar P WT k pv)
               /\ ptv_scalar P pm k pv = POk (strip_scalar P st k x)
               /\ (is_msg_kind k = false ->
                   is_default_scalar k pv = is_default_value k x
                   /\ (is_default_scalar k pv = true -> is_neg_zero x = false -> pv = default_of k)).
  Proof.
    intros Hs. destruct (is_msg_kind k) eqn:Ek.
    - destruct k; try discriminate. destruct x; cbn [shaped_scalar] in Hs; try discriminate.
      destruct (below idx (VObj kvs) Hs) as (m' & Hc & Hw & Hp).
      exists (PMsg m'). cbn [conv_raw]. rewrite Hc. cbn [pbind]. split; [reflexivity|].
      split; [exact Hw|]. split; [exact Hp | discriminate].
    - destruct (conv_plain P lossy cm sm pm k x Ek Hs) as (pv & Hc & Hw & Hp & Hd & Hz).
      exists pv. split; [exact Hc|]. split.
      + intros Hl. replace (wt_scalar P WT k pv) with (wt_plain k pv) by (destruct k; try discriminate; reflexivity).
        apply Hw. destruct k; try discriminate; exact Hl.
      + split; [|intros _; split; assumption].
        replace (strip_scalar P st k x) with x by (destruct k; try discriminate; reflexivity). exact Hp.
  Qed.

  Lemma shaped_not_arr k a : shaped_scalar P sm k (VArr a) = false.
  Proof. destruct k; reflexivity. Qed.
  Lemma shaped_not_null k : shaped_scalar P sm k VNull = false.
  Proof. destruct k; reflexivity. Qed.

  Lemma ptv_field_scalar f pv y : ptv_scalar P pm (f_kind f) pv = POk y -> ptv_field P pm f pv = POk y.
  Proof. destruct pv; cbn [ptv_field]; try (intros H; exact H); cbn [ptv_scalar]; discriminate. Qed.

  Lemma conv_list_shaped k a :
    forallb (shaped_scalar P sm k) a = true ->
    exists l, conv_list P lossy cm k a = POk l
              /\ (Forall (lens_scalar P L k) l -> Forall (wt_scalar P WT k) l)
              /\ ptv_list P pm k l = POk (map (strip_scalar P st k) a)
              /\ (l = [] <-> a = []).
  Proof.
    induction a as [|x a IH]; intros H.
    - exists []. repeat split; try reflexivity. intros _. constructor.
    - cbn [forallb] in H. apply andb_true_iff in H. destruct H as [Hx Ha].
      destruct (conv_scalar k x Hx) as (pv & Hc & Hw & Hp & _).
      destruct (IH Ha) as (l & Hcl & Hwl & Hpl & _).
      exists (pv :: l). cbn [conv_list map ptv_list]. rewrite Hc, Hcl, Hp, Hpl. cbn [pbind].
      split; [reflexivity|]. split.
      + intros Hl. inversion Hl; subst. constructor; [apply Hw; assumption | apply Hwl; assumption].
      + split; [reflexivity|]. split; discriminate.
  Qed.

  (* ---------- map entries ---------- *)

  Lemma key_eqb_text a b : pval_key_eqb a b = true -> map_key_text a = map_key_text b.
  Proof.
    destruct a, b; cbn; try discriminate.
    - intros H. apply Bool.eqb_prop in H. subst. reflexivity.
    - intros H. apply Z.eqb_eq in H. subst. reflexivity.
    - intros H. apply bytes_eqb_eq in H. subst. reflexivity.
  Qed.

  Lemma parse_dec_range sg lo hi s z : parse_dec sg lo hi s = Some z -> lo <= z <= hi.
  Proof.
    unfold parse_dec.
    destruct (match s with
              | 43%N :: r => (false, r)
              | 45%N :: r => if sg then (true, r) else (false, s)
              | _ => (false, s)
              end) as [neg ds].
    destruct ds; [discriminate|]. destruct (digits_val (n :: ds) 0) as [v|]; [|discriminate].
    destruct ((lo <=? (if neg then - v else v)) && ((if neg then - v else v) <=? hi)) eqn:E; [|discriminate].
    intros H. inversion H; subst. apply andb_true_iff in E. destruct E as [E1 E2]. apply Z.leb_le in E1, E2. lia.
  Qed.

  (* a canonical key: parses, prints back as itself, and fits its kind *)
  Lemma canonical_key_spec kk key :
    canonical_key kk key = true ->
    exists pk, parse_map_key kk key = POk pk /\ map_key_text pk = key
               /\ (lens_plain pk -> wt_plain kk pk) /\ is_key_kindb kk = true.
  Proof.
    unfold canonical_key. destruct (parse_map_key kk key) as [pk| |] eqn:E; try discriminate.
    intros H. apply andb_true_iff in H. destruct H as [Ht Hu]. apply bytes_eqb_eq in Ht.
    exists pk. split; [reflexivity|]. split; [exact Ht|].
    unfold parse_map_key in E.
    destruct kk; try discriminate;
      try (destruct (parse_dec _ _ _ key) as [z|] eqn:Ep; [|discriminate]; inversion E; subst;
           apply parse_dec_range in Ep; split; [intros _; cbn [wt_plain]; lia | reflexivity]).
    - (* bool *) destruct (bytes_eqb key txt_true); [inversion E; subst; split; [intros _; exact I | reflexivity]|].
      destruct (bytes_eqb key txt_false); [inversion E; subst; split; [intros _; exact I | reflexivity] | discriminate].
    - (* string *) inversion E; subst. split; [|reflexivity]. intros Hl. cbn [wt_plain]. split; assumption.
  Qed.

  Definition entry_shaped (kk vk : skind) (vpres : bool) (kv : bytes * value) : bool :=
    canonical_key kk (fst kv) && shaped_scalar P sm vk (snd kv) && (vpres || negb (is_neg_zero (snd kv))).

  Definition entry_lens (kk vk : skind) (kp vp : bool) (kv : pval * pval) : Prop :=
    lens_plain (fst kv) /\ lens_scalar P L vk (snd kv) /\ len_ok (enc_entry P em kk kp vk vp kv).

  Definition entry_wt (kk vk : skind) (kp vp : bool) (kv : pval * pval) : Prop :=
    wt_plain kk (fst kv) /\ wt_scalar P WT vk (snd kv)
    /\ (vp = false -> is_default_scalar vk (snd kv) = true -> snd kv = default_of vk)
    /\ len_ok (enc_entry P em kk kp vk vp kv).

  Lemma conv_entries_shaped kk vk kp vp : (vp = false -> is_msg_kind vk = false) ->
    forall o acc, obj_sorted o = true -> forallb (entry_shaped kk vk vp) o = true ->
    Forall (fun e : pval * pval => Forall (fun kv : bytes * value => map_key_text (fst e) <> fst kv) o) acc ->
    exists l, conv_entries P lossy cm kk vk o acc = POk (acc ++ l)
              /\ map (fun e : pval * pval => map_key_text (fst e)) l = map fst o
              /\ (Forall (entry_lens kk vk kp vp) l -> Forall (entry_wt kk vk kp vp) l)
              /\ Forall2 (fun (e : pval * pval) (kv : bytes * value) =>
                            ptv_scalar P pm vk (snd e) = POk (strip_scalar P st vk (snd kv))) l o.
  Proof.
    intros Hmsg. induction o as [|[key x] o IH]; intros acc Hs Hsh Hacc.
    - exists []. rewrite app_nil_r. repeat split; try reflexivity; constructor.
    - cbn [forallb] in Hsh. apply andb_true_iff in Hsh. destruct Hsh as [He Ho].
      unfold entry_shaped in He. cbn [fst snd] in He.
      apply andb_true_iff in He. destruct He as [He Hnz]. apply andb_true_iff in He. destruct He as [Hk Hx].
      destruct (canonical_key_spec kk key Hk) as (pk & Hpk & Htxt & Hwk & Hkk).
      destruct (conv_scalar vk x Hx) as (pv & Hc & Hw & Hp & Hd).
      cbn [conv_entries]. rewrite Hpk. cbn [pbind].
      replace (match x with VArr _ => PErr | _ => conv_raw P lossy cm x vk end) with (conv_raw P lossy cm x vk)
        by (destruct x; try reflexivity; rewrite shaped_not_arr in Hx; discriminate).
      rewrite Hc. cbn [pbind].
      rewrite map_insert_append.
      2:{ eapply Forall_impl; [|exact Hacc]. intros e He. pose proof (Forall_inv He) as Hne. cbn [fst] in Hne.
          destruct (pval_key_eqb (fst e) pk) eqn:E; [|reflexivity]. exfalso. apply Hne.
          rewrite (key_eqb_text _ _ E). exact Htxt. }
      destruct (IH (acc ++ [(pk, pv)])) as (l & Hcl & Hkeys & Hwl & Hpl).
      { eapply sorted_tail; exact Hs. }
      { exact Ho. }
      { apply Forall_app. split.
        - eapply Forall_impl; [|exact Hacc]. intros e He. exact (Forall_inv_tail He).
        - constructor; [|constructor]. cbn [fst]. rewrite Htxt.
          eapply Forall_impl; [|apply (sorted_all_lt_later key x o Hs)]. intros e He. apply bytes_ltb_neq. exact He. }
      exists ((pk, pv) :: l). rewrite Hcl, <- app_assoc. cbn [app map fst]. rewrite Htxt, Hkeys.
      split; [reflexivity|]. split; [reflexivity|]. split.
      + intros Hl. inversion Hl as [|? ? (Hl1 & Hl2 & Hl3) Hl']; subst. cbn [fst snd] in *.
        constructor; [|apply Hwl; exact Hl'].
        unfold entry_wt. cbn [fst snd]. split; [apply Hwk; exact Hl1|]. split; [apply Hw; exact Hl2|].
        split; [|exact Hl3]. intros Hvp Hdef. destruct (Hd (Hmsg Hvp)) as [_ Hz]. apply Hz; [exact Hdef|].
        subst vp. cbn [orb] in Hnz. apply negb_true_iff in Hnz. exact Hnz.
      + constructor; [exact Hp | exact Hpl].
  Qed.

  Lemma keys_distinct_of_texts (l : list (pval * pval)) :
    NoDup (map (fun e : pval * pval => map_key_text (fst e)) l) -> keys_distinct l.
  Proof.
    induction l as [|[k v] r IH]; intros H; [exact I|]. cbn [map fst] in H. inversion H as [|? ? Hn Hr]; subst.
    cbn [keys_distinct]. split; [|apply IH; exact Hr].
    apply Forall_forall. intros e He. destruct (pval_key_eqb k (fst e)) eqn:E; [|reflexivity].
    exfalso. apply Hn. rewrite (key_eqb_text _ _ E). apply in_map_iff. exists e. split; [reflexivity | exact He].
  Qed.

  Lemma ptv_entries_sorted vk : forall (l : list (pval * pval)) (o : obj) (acc : obj),
    Forall2 (fun (e : pval * pval) (kv : bytes * value) =>
               ptv_scalar P pm vk (snd e) = POk (strip_scalar P st vk (snd kv))) l o ->
    map (fun e : pval * pval => map_key_text (fst e)) l = map fst o ->
    obj_sorted o = true ->
    Forall (fun e : bytes * value => Forall (fun kv : bytes * value => bytes_ltb (fst e) (fst kv) = true) o) acc ->
    ptv_entries P pm vk l acc
    = POk (acc ++ map (fun e : bytes * value => (fst e, strip_scalar P st vk (snd e))) o).
  Proof.
    intros l o acc H. revert acc. induction H as [|[pk pv] [key x] l o Hp Hl IH]; intros acc Hk Hs Hacc.
    - cbn. rewrite app_nil_r. reflexivity.
    - cbn [map fst snd] in *. inversion Hk as [[Hk1 Hk2]]. cbn [ptv_entries]. rewrite Hp. cbn [pbind].
      rewrite Hk1. rewrite obj_set_append_lt.
      2:{ eapply Forall_impl; [|exact Hacc]. intros e He. exact (Forall_inv He). }
      rewrite IH; [rewrite <- app_assoc; reflexivity | exact Hk2 | eapply sorted_tail; exact Hs |].
      apply Forall_app. split.
      + eapply Forall_impl; [|exact Hacc]. intros e He. exact (Forall_inv_tail He).
      + constructor; [|constructor]. cbn [fst]. exact (sorted_all_lt_later key x o Hs).
  Qed.

  (* ---------- one field ---------- *)

  Definition field_result (f : field) (x : value) (pv : pval) : Prop :=
    match strip_field P st f x with
    | Some y => has_value f pv = true /\ ptv_field P pm f pv = POk y
    | None => has_value f pv = false
    end.

  Lemma conv_field_shaped f x :
    field_okb f = true -> shaped_field P sm f x = true ->
    exists pv, conv_field P lossy cm f x = POk pv
               /\ (lens_field P em L f pv -> wt_field P em WT f pv)
               /\ field_result f x pv.
  Proof.
    intros Hok Hs. unfold shaped_field in Hs. unfold field_okb in Hok.
    unfold field_result, strip_field, lens_field, wt_field, has_value.
    destruct (f_card f) as [pres|packed|kk kp vp] eqn:Hc.
    - (* singular *)
      destruct (conv_scalar (f_kind f) x Hs) as (pv & Hcv & Hw & Hp & Hd).
      exists pv. split.
      { unfold conv_field. rewrite Hc. destruct x; exact Hcv. }
      split; [exact Hw|]. destruct pres.
      + split; [reflexivity | apply ptv_field_scalar; exact Hp].
      + cbn [orb] in Hok. apply negb_true_iff in Hok. destruct (Hd Hok) as [Hdef _]. rewrite Hdef.
        destruct (is_default_value (f_kind f) x); [reflexivity|].
        split; [reflexivity | apply ptv_field_scalar; exact Hp].
    - (* repeated *)
      destruct x; try discriminate.
      destruct (conv_list_shaped (f_kind f) vs Hs) as (l & Hcl & Hwl & Hpl & Hnil).
      exists (PList l). split; [unfold conv_field; rewrite Hc, Hcl; reflexivity|]. split.
      + intros [Hl1 Hl2]. exists l. split; [reflexivity|]. split; [apply Hwl; exact Hl1|].
        intros ->. cbn [negb orb] in Hok. split; [exact Hok | apply Hl2; reflexivity].
      + destruct vs as [|x vs].
        * replace l with (@nil pval) by (symmetry; apply Hnil; reflexivity). reflexivity.
        * destruct l as [|p l]; [exfalso; destruct Hnil as [Hn _]; specialize (Hn eq_refl); discriminate|].
          split; [reflexivity|]. cbn [ptv_field]. rewrite Hpl. reflexivity.
    - (* map *)
      destruct x; try discriminate. apply andb_true_iff in Hs. destruct Hs as [Hsort Hent].
      apply andb_true_iff in Hok. destruct Hok as [Hkk Hvp].
      assert (Hmsg : vp = false -> is_msg_kind (f_kind f) = false).
      { intros ->. cbn [orb] in Hvp. apply negb_true_iff in Hvp. exact Hvp. }
      destruct (conv_entries_shaped kk (f_kind f) kp vp Hmsg kvs [] Hsort Hent (Forall_nil _))
        as (l & Hcl & Hkeys & Hwl & Hpl).
      cbn [app] in Hcl. exists (PMap l). split; [unfold conv_field; rewrite Hc, Hcl; reflexivity|]. split.
      + intros Hl. exists l. split; [reflexivity|]. split; [apply is_key_kindb_spec; exact Hkk|]. split.
        * apply keys_distinct_of_texts. rewrite Hkeys. apply sorted_nodup. exact Hsort.
        * exact (Hwl Hl).
      + destruct kvs as [|e kvs].
        * destruct l; [reflexivity | discriminate].
        * destruct l as [|p l]; [discriminate|]. split; [reflexivity|]. cbn [ptv_field].
          rewrite (ptv_entries_sorted (f_kind f) (p :: l) (e :: kvs) [] Hpl Hkeys Hsort (Forall_nil _)).
          reflexivity.
  Qed.
End Level.

(* ---------- whole messages ---------- *)

(* looking a field up in a list built field by field, in field-number order *)
Lemma proj_get_gt (g : field -> option pval) lo d n :
  increasing lo d -> (n <= lo)%N ->
  dm_get (flat_map (fun f => match g f with Some v => [(f_num f, v)] | None => [] end) d) n = None.
Proof.
  revert lo. induction d as [|h r IH]; intros lo Hinc Hn; [reflexivity|].
  destruct Hinc as (H1 & H2 & H3). cbn [flat_map]. rewrite dm_get_app.
  replace (dm_get (match g h with Some v => [(f_num h, v)] | None => [] end) n) with (@None pval).
  - apply (IH (f_num h)); [exact H3 | lia].
  - destruct (g h); [|reflexivity]. cbn [dm_get].
    replace (f_num h =? n)%N with false by (symmetry; apply N.eqb_neq; lia). reflexivity.
Qed.

Lemma proj_get (g : field -> option pval) lo d f :
  increasing lo d -> In f d ->
  dm_get (flat_map (fun f => match g f with Some v => [(f_num f, v)] | None => [] end) d) (f_num f) = g f.
Proof.
  revert lo. induction d as [|h r IH]; intros lo Hinc Hin; [contradiction|].
  destruct Hinc as (H1 & H2 & H3). cbn [flat_map]. rewrite dm_get_app. destruct Hin as [->|Hin].
  - destruct (g f) as [v|].
    + cbn [dm_get]. rewrite N.eqb_refl. reflexivity.
    + cbn [dm_get]. apply (proj_get_gt g (f_num f) r); [exact H3 | lia].
  - assert (Hlt : (f_num h < f_num f)%N).
    { pose proof (increasing_all_gt _ _ H3) as Hall. rewrite Forall_forall in Hall. apply Hall. exact Hin. }
    replace (dm_get (match g h with Some v => [(f_num h, v)] | None => [] end) (f_num f)) with (@None pval).
    + apply (IH (f_num h)); assumption.
    + destruct (g h); [|reflexivity]. cbn [dm_get].
      replace (f_num h =? f_num f)%N with false by (symmetry; apply N.eqb_neq; lia). reflexivity.
Qed.

Section Message.
  Variable P : list (list field).
  Variable lossy : bool.
  Hypothesis pool_ok : pool_okb P = true.

  Section OneLevel.
    Variable cm : list field -> value -> pres (list (N * pval)).
    Variable sm : list field -> value -> bool.
    Variable pm : list field -> list (N * pval) -> pres value.
    Variable st : list field -> value -> value.
    Variable em : list field -> list (N * pval) -> bytes.
    Variable WT L : list field -> list (N * pval) -> Prop.
    Hypothesis below : forall i v', sm (get_msg P i) v' = true ->
      exists m', cm (get_msg P i) v' = POk m' /\ (L (get_msg P i) m' -> WT (get_msg P i) m')
                 /\ pm (get_msg P i) m' = POk (st (get_msg P i) v').

    Variable d : list field.
    Hypothesis d_ok : desc_okb d = true.
    Variable o : obj.
    Hypothesis o_sorted : obj_sorted o = true.
    Hypothesis o_shaped : forallb (fun kv : bytes * value =>
                                     match find_by_name d (fst kv) with
                                     | Some f => shaped_field P sm f (snd kv)
                                     | None => false
                                     end) o = true.

    Let d_wf : wf_desc d := proj1 (desc_okb_spec d d_ok).
    Let d_fields : Forall (fun f => field_okb f = true) d := proj1 (proj2 (proj2 (desc_okb_spec d d_ok))).
    Let d_names : names_distinct d = true := proj2 (proj2 (proj2 (desc_okb_spec d d_ok))).

    (* the value an object holds under a field's name is shaped for that field *)
    Lemma present_shaped f x : In f d -> obj_get o (f_name f) = Some x -> shaped_field P sm f x = true.
    Proof.
      intros Hin Hg. rewrite forallb_forall in o_shaped. pose proof (o_shaped _ (obj_get_in' _ _ _ Hg)) as H.
      cbn [fst snd] in H. rewrite (find_by_name_self d f d_names Hin) in H. exact H.
    Qed.

    Definition conv_of (f : field) : option pval :=
      match obj_get o (f_name f) with
      | Some x => match conv_field P lossy cm f x with POk pv => Some pv | _ => None end
      | None => None
      end.

    Definition conv_result : list (N * pval) :=
      flat_map (fun f => match conv_of f with Some v => [(f_num f, v)] | None => [] end) d.

    Definition conv_step (acc : pres (list (N * pval))) (f : field) : pres (list (N * pval)) :=
      pbind acc (fun m =>
        match obj_get o (f_name f) with
        | None | Some VNull => POk m
        | Some x => pbind (conv_field P lossy cm f x) (fun pv => POk (dm_set m (f_num f) pv))
        end).

    Lemma conv_fold : forall d2 lo acc,
      (forall f, In f d2 -> In f d) -> increasing lo d2 -> all_lt (lo + 1) acc ->
      fold_left conv_step d2 (POk acc)
      = POk (acc ++ flat_map (fun f => match conv_of f with Some v => [(f_num f, v)] | None => [] end) d2).
    Proof.
      induction d2 as [|f d2 IH]; intros lo acc Hsub Hinc Hacc.
      - cbn. rewrite app_nil_r. reflexivity.
      - destruct Hinc as (H1 & H2 & H3). cbn [fold_left flat_map].
        assert (Hin : In f d) by (apply Hsub; left; reflexivity).
        assert (Hacc' : all_lt (f_num f) acc) by (eapply all_lt_weaken; [|exact Hacc]; lia).
        unfold conv_step at 2. cbn [pbind]. unfold conv_of at 1.
        destruct (obj_get o (f_name f)) as [x|] eqn:Eg.
        + pose proof (present_shaped f x Hin Eg) as Hsh.
          assert (Hfok : field_okb f = true) by (rewrite Forall_forall in d_fields; apply d_fields; exact Hin).
          destruct (conv_field_shaped P lossy cm sm pm st em WT L below f x Hfok Hsh) as (pv & Hc & _ & _).
          rewrite Hc. cbn [pbind].
          replace (match x with VNull => POk acc | _ => POk (dm_set acc (f_num f) pv) end)
            with (@POk (list (N * pval)) (dm_set acc (f_num f) pv)).
          2:{ destruct x; try reflexivity. exfalso. unfold shaped_field in Hsh.
              destruct (f_card f); try discriminate. rewrite shaped_not_null in Hsh. discriminate. }
          rewrite dm_set_append by exact Hacc'.
          rewrite (IH (f_num f)); [rewrite <- app_assoc; reflexivity | | exact H3 |].
          * intros g Hg. apply Hsub. right. exact Hg.
          * apply all_lt_snoc; [lia | exact Hacc'].
        + cbn [app]. apply (IH (f_num f)); [|exact H3|].
          * intros g Hg. apply Hsub. right. exact Hg.
          * eapply all_lt_weaken; [|exact Hacc']. lia.
    Qed.

    Lemma conv_get f : In f d -> dm_get conv_result (f_num f) = conv_of f.
    Proof. intros Hin. exact (proj_get conv_of 0 d f d_wf Hin). Qed.

    (* what proto_to_value adds for one field *)
    Definition strip_of (f : field) : list (bytes * value) :=
      match obj_get o (f_name f) with
      | Some x => match strip_field P st f x with Some y => [(f_name f, y)] | None => [] end
      | None => []
      end.

    Definition ptv_step (m : list (N * pval)) (acc : pres obj) (f : field) : pres obj :=
      pbind acc (fun o' =>
        match dm_get m (f_num f) with
        | Some v => if has_value f v then pbind (ptv_field P pm f v) (fun x => POk (obj_set o' (f_name f) x)) else POk o'
        | None => POk o'
        end).

    Lemma ptv_fold : forall d2 acc, (forall f, In f d2 -> In f d) ->
      fold_left (ptv_step conv_result) d2 (POk acc)
      = POk (fold_left ins_entry (flat_map strip_of d2) acc).
    Proof.
      induction d2 as [|f d2 IH]; intros acc Hsub; [reflexivity|].
      cbn [fold_left flat_map]. rewrite fold_left_app.
      assert (Hin : In f d) by (apply Hsub; left; reflexivity).
      unfold ptv_step at 2. cbn [pbind]. rewrite (conv_get f Hin). unfold conv_of.
      change (strip_of f) with (match obj_get o (f_name f) with
                                | Some x => match strip_field P st f x with Some y => [(f_name f, y)] | None => [] end
                                | None => []
                                end).
      destruct (obj_get o (f_name f)) as [x|] eqn:Eg.
      - pose proof (present_shaped f x Hin Eg) as Hsh.
        assert (Hfok : field_okb f = true) by (rewrite Forall_forall in d_fields; apply d_fields; exact Hin).
        destruct (conv_field_shaped P lossy cm sm pm st em WT L below f x Hfok Hsh) as (pv & Hc & _ & Hr).
        rewrite Hc. unfold field_result in Hr. destruct (strip_field P st f x) as [y|].
        + destruct Hr as [Hh Hp]. rewrite Hh, Hp. cbn [pbind fold_left]. unfold ins_entry at 2. cbn [fst snd].
          apply IH. intros g Hg. apply Hsub. right. exact Hg.
        + rewrite Hr. cbn [fold_left]. apply IH. intros g Hg. apply Hsub. right. exact Hg.
      - cbn [fold_left]. apply IH. intros g Hg. apply Hsub. right. exact Hg.
    Qed.

    (* ---------- the two enumerations of the kept fields agree ---------- *)

    Lemma strip_of_keys d2 k : In k (map fst (flat_map strip_of d2)) -> exists f, In f d2 /\ f_name f = k.
    Proof.
      induction d2 as [|f d2 IH]; [intros []|]. cbn [flat_map]. rewrite map_app, in_app_iff. intros [H|H].
      - exists f. split; [left; reflexivity|]. unfold strip_of in H.
        destruct (obj_get o (f_name f)); [|destruct H]. destruct (strip_field P st f v); [|destruct H].
        cbn in H. destruct H as [H|[]]. exact H.
      - destruct (IH H) as (g & Hg & Hn). exists g. split; [right; exact Hg | exact Hn].
    Qed.

    Lemma name_free_in n d2 f : name_free n d2 = true -> In f d2 -> f_name f <> n.
    Proof.
      induction d2 as [|g r IH]; [intros _ []|]. cbn [name_free]. intros H Hin.
      apply andb_true_iff in H. destruct H as [H1 H2]. destruct Hin as [->|Hin].
      - apply negb_true_iff in H1. apply bytes_eqb_neq. exact H1.
      - apply IH; assumption.
    Qed.

    Lemma strip_of_nodup d2 : names_distinct d2 = true -> NoDup (map fst (flat_map strip_of d2)).
    Proof.
      induction d2 as [|f d2 IH]; intros Hn; [constructor|]. cbn [names_distinct] in Hn.
      apply andb_true_iff in Hn. destruct Hn as [Hf Hr]. cbn [flat_map]. rewrite map_app.
      unfold strip_of at 1. destruct (obj_get o (f_name f)); [|exact (IH Hr)].
      destruct (strip_field P st f v); [|exact (IH Hr)]. cbn [map fst app]. constructor; [|exact (IH Hr)].
      intros Hin. destruct (strip_of_keys d2 _ Hin) as (g & Hg & Hgn). exact (name_free_in _ _ _ Hf Hg Hgn).
    Qed.

    Lemma strip_entry_keys (o2 : obj) k : In k (map fst (flat_map (strip_entry P st d) o2)) -> In k (map fst o2).
    Proof.
      induction o2 as [|[k' x] o2 IH]; [intros []|]. cbn [flat_map]. rewrite map_app, in_app_iff. intros [H|H].
      - left. unfold strip_entry in H. cbn [fst snd] in H. destruct (find_by_name d k'); [|destruct H].
        destruct (strip_field P st f x); [|destruct H]. cbn in H. destruct H as [H|[]]. exact H.
      - right. apply IH. exact H.
    Qed.

    Lemma strip_entries_sorted (o2 : obj) : obj_sorted o2 = true -> obj_sorted (flat_map (strip_entry P st d) o2) = true.
    Proof.
      induction o2 as [|[k x] o2 IH]; intros Hs; [reflexivity|]. cbn [flat_map].
      pose proof (IH (sorted_tail _ _ _ Hs)) as Hr.
      unfold strip_entry at 1. cbn [fst snd]. destruct (find_by_name d k); [|exact Hr].
      destruct (strip_field P st f x); [|exact Hr]. cbn [app]. apply sorted_cons; [exact Hr|].
      intros kv Hkv. assert (Hin : In (fst kv) (map fst o2)).
      { apply strip_entry_keys. apply in_map. exact Hkv. }
      apply in_map_iff in Hin. destruct Hin as (e & He & Hine). rewrite <- He.
      exact (sorted_head_lt k x o2 Hs e Hine).
    Qed.

    Lemma kept_perm : Permutation (flat_map strip_of d) (flat_map (strip_entry P st d) o).
    Proof.
      apply NoDup_Permutation.
      - apply (NoDup_map_inv fst). apply strip_of_nodup. exact d_names.
      - apply (NoDup_map_inv fst). apply sorted_nodup. apply strip_entries_sorted. exact o_sorted.
      - intros [k y]. rewrite !in_flat_map. split.
        + intros (f & Hf & Hin). unfold strip_of in Hin. destruct (obj_get o (f_name f)) as [x|] eqn:Eg; [|destruct Hin].
          destruct (strip_field P st f x) as [y'|] eqn:Es; [|destruct Hin]. destruct Hin as [Hin|[]].
          inversion Hin; subst. exists (f_name f, x). split; [apply obj_get_in'; exact Eg|].
          unfold strip_entry. cbn [fst snd]. rewrite (find_by_name_self d f d_names Hf), Es. left. reflexivity.
        + intros ([k' x] & Hkx & Hin). unfold strip_entry in Hin. cbn [fst snd] in Hin.
          destruct (find_by_name d k') as [f|] eqn:Ef; [|destruct Hin].
          destruct (strip_field P st f x) as [y'|] eqn:Es; [|destruct Hin]. destruct Hin as [Hin|[]].
          inversion Hin; subst. destruct (find_by_name_in _ _ _ Ef) as [Hfd Hfn]. exists f. split; [exact Hfd|].
          unfold strip_of. rewrite Hfn, (sorted_in_get' o k x o_sorted Hkx), Es. left. reflexivity.
    Qed.

    Lemma level_result :
      fold_left conv_step d (POk []) = POk conv_result
      /\ pbind (fold_left (ptv_step conv_result) d (@POk obj [])) (fun o' => POk (VObj o'))
         = POk (VObj (flat_map (strip_entry P st d) o))
      /\ Forall (fun f => match dm_get conv_result (f_num f) with
                          | Some v => lens_field P em L f v -> wt_field P em WT f v
                          | None => True
                          end) d.
    Proof.
      split; [|split].
      - rewrite (conv_fold d 0 []); [reflexivity | auto | exact d_wf | constructor].
      - rewrite (ptv_fold d [] (fun f H => H)). cbn [pbind]. do 2 f_equal.
        change (fold_left ins_entry (flat_map strip_of d) []) with (collect (flat_map strip_of d)).
        apply collect_of_perm; [apply strip_entries_sorted; exact o_sorted | exact kept_perm].
      - apply Forall_forall. intros f Hin. rewrite (conv_get f Hin). unfold conv_of.
        destruct (obj_get o (f_name f)) as [x|] eqn:Eg; [|exact I].
        pose proof (present_shaped f x Hin Eg) as Hsh.
        assert (Hfok : field_okb f = true) by (rewrite Forall_forall in d_fields; apply d_fields; exact Hin).
        destruct (conv_field_shaped P lossy cm sm pm st em WT L below f x Hfok Hsh) as (pv & Hc & Hw & _).
        rewrite Hc. exact Hw.
    Qed.
  End OneLevel.

  (* ---------- all levels ---------- *)

  Theorem conv_shaped : forall fu d v,
    desc_okb d = true -> shaped_msg P fu d v = true ->
    exists m, conv_msg P lossy fu d v = POk m
              /\ (lens_msg P fu d m -> wt_msg P fu d m)
              /\ ptv_msg P fu d m = POk (strip_msg P fu d v).
  Proof.
    induction fu as [|fu IH]; intros d v Hd Hs; [discriminate|].
    cbn [shaped_msg] in Hs. destruct v; try discriminate.
    apply andb_true_iff in Hs. destruct Hs as [Hsort Hsh].
    set (WT := fun d' m' => wt_msg P fu d' m' /\ len_ok (enc_msg P fu d' m')).
    set (L := fun d' m' => lens_msg P fu d' m' /\ len_ok (enc_msg P fu d' m')).
    assert (below : forall i v', shaped_msg P fu (get_msg P i) v' = true ->
              exists m', conv_msg P lossy fu (get_msg P i) v' = POk m' /\ (L (get_msg P i) m' -> WT (get_msg P i) m')
                         /\ ptv_msg P fu (get_msg P i) m' = POk (strip_msg P fu (get_msg P i) v')).
    { intros i v' Hv. destruct (IH (get_msg P i) v' (pool_okb_get P i pool_ok) Hv) as (m' & H1 & H2 & H3).
      exists m'. split; [exact H1|]. split; [|exact H3]. intros [Hl1 Hl2]. split; [apply H2; exact Hl1 | exact Hl2]. }
    destruct (level_result (conv_msg P lossy fu) (shaped_msg P fu) (ptv_msg P fu) (strip_msg P fu) (enc_msg P fu)
                           WT L below d Hd kvs Hsort Hsh) as (R1 & R2 & R3).
    exists (conv_result (conv_msg P lossy fu) d kvs). split; [exact R1|]. split.
    - intros Hl. cbn [lens_msg wt_msg] in *. rewrite Forall_forall in *. intros f Hin.
      specialize (Hl f Hin). specialize (R3 f Hin).
      destruct (dm_get (conv_result (conv_msg P lossy fu) d kvs) (f_num f)); [apply R3; exact Hl | exact I].
    - exact R2.
  Qed.

  (* parse_proto (encode_proto v) = strip_defaults v, for every message-shaped v whose encoding fits its length prefixes *)
  Theorem message_roundtrip d v :
    desc_okb d = true -> shaped P d v = true ->
    exists m, conv_msg P lossy glue_fuel d v = POk m
              /\ encode_proto P lossy d v = POk (encode_msg P d m)
              /\ (lens_msg P glue_fuel d m -> parse_proto P d (encode_msg P d m) = POk (strip_defaults P d v)).
  Proof.
    intros Hd Hs. unfold shaped in Hs. destruct (conv_shaped glue_fuel d v Hd Hs) as (m & Hc & Hw & Hp).
    exists m. split; [exact Hc|]. split; [unfold encode_proto; rewrite Hc; reflexivity|].
    intros Hl. unfold parse_proto, decode_msg, encode_msg, strip_defaults.
    assert (wf_pool : forall i, wf_desc (get_msg P i)).
    { intros i. exact (proj1 (desc_okb_spec _ (pool_okb_get P i pool_ok))). }
    assert (ok_pool : forall i, desc_ok (get_msg P i)).
    { intros i. exact (proj1 (proj2 (desc_okb_spec _ (pool_okb_get P i pool_ok)))). }
    destruct (desc_okb_spec d Hd) as (Hwf & Hok & _ & _).
    change 101%nat with glue_fuel.
    rewrite (msg_roundtrip P wf_pool glue_fuel d m Hwf (Hw Hl)). cbn [pbind].
    rewrite (ptv_canon P wf_pool ok_pool glue_fuel d m Hwf Hok). exact Hp.
  Qed.
End Message.
