(* C24 — the whole-object round trip of Model/KeyValue.v (on top of Proofs/KeyValueProofs.v). *)
From Coq Require Import List NArith Bool Lia Arith.
From VRL Require Import Base.Bytes Model.KeyValue Proofs.KeyValueProofs.
Import ListNotations.
Local Open Scope N_scope.

(* ------------------------------------------------------------------ the encoded text as a join *)
Section Join.
  Variables (kvd fd : str).

  Fixpoint join_fields (o : list (str * str)) : str :=
    match o with
    | [] => []
    | kv :: r => encode_field kvd (fst kv) (snd kv) ++ match r with [] => [] | _ => fd ++ join_fields r end
    end.

  Definition tail_of (r : list (str * str)) : str :=
    match r with [] => [] | _ => fd ++ join_fields r end.

  Lemma join_cons kv r : join_fields (kv :: r) = encode_field kvd (fst kv) (snd kv) ++ tail_of r.
  Proof. reflexivity. Qed.

  Lemma encode_fields_join o : o <> [] -> encode_fields kvd fd o = join_fields o ++ fd.
  Proof.
    induction o as [|kv r IH]; [congruence|]. intros _.
    unfold encode_fields in *. cbn [flat_map]. destruct r as [|kv' r'].
    - cbn [flat_map join_fields]. rewrite !app_nil_r. reflexivity.
    - rewrite IH by discriminate. cbn [join_fields]. rewrite <- !app_assoc. reflexivity.
  Qed.

  Lemma ends_with_unfold s suf :
    ends_with s suf = if str_eqb s suf then true else match s with [] => false | _ :: r => ends_with r suf end.
  Proof. destruct s; reflexivity. Qed.

  Lemma ends_with_app x suf : ends_with (x ++ suf) suf = true.
  Proof.
    induction x as [|c x IH].
    - cbn [app]. rewrite ends_with_unfold, bytes_eqb_refl. reflexivity.
    - rewrite ends_with_unfold. destruct (str_eqb ((c :: x) ++ suf) suf); auto.
  Qed.

  Lemma firstn_app_exact {A} (x y : list A) : firstn (length (x ++ y) - length y) (x ++ y) = x.
  Proof.
    rewrite app_length. replace (length x + length y - length y)%nat with (length x) by lia.
    induction x as [|a x IH]; cbn.
    - destruct y; reflexivity.
    - rewrite IH. reflexivity.
  Qed.

  Lemma to_string_join o : o <> [] -> to_string kvd fd o = join_fields o.
  Proof.
    intros H. unfold to_string. rewrite encode_fields_join by auto.
    rewrite ends_with_app. apply firstn_app_exact.
  Qed.
End Join.

(* ------------------------------------------------------------------ the BTreeMap built by the parser *)
Definition keys_below (m : list (str * pval)) (k : str) : Prop :=
  forall kv, In kv m -> bytes_cmp (fst kv) k = Lt.

Lemma map_insert_last m k v : keys_below m k -> map_insert k v m = m ++ [(k, v)].
Proof.
  induction m as [|[k' v'] r IH]; intros H; auto.
  cbn [map_insert].
  assert (L : bytes_cmp k' k = Lt) by (apply (H (k', v')); left; auto).
  rewrite (bytes_cmp_antisym k' k), L. cbn [CompOpp].
  rewrite IH; auto. intros kv Hkv. apply H. right; auto.
Qed.

Fixpoint ssorted (l : list (str * pval)) : Prop :=
  match l with
  | [] => True
  | kv :: r => (forall kv', In kv' r -> bytes_cmp (fst kv) (fst kv') = Lt) /\ ssorted r
  end.

Lemma build_sorted l : forall m,
  ssorted l -> (forall kv, In kv l -> keys_below m (fst kv)) ->
  fold_left (fun m kv => map_insert (fst kv) (snd kv) m) l m = m ++ l.
Proof.
  induction l as [|[k v] l IH]; intros m Hs Hm.
  - cbn. rewrite app_nil_r. reflexivity.
  - cbn [fold_left fst snd]. rewrite map_insert_last by (apply (Hm (k, v)); left; auto).
    destruct Hs as [Hk Hs]. rewrite IH; auto.
    + rewrite <- app_assoc. reflexivity.
    + intros kv Hkv kv' Hin. apply in_app_or in Hin as [Hin|[<-|[]]].
      * apply (Hm kv); [right; auto | auto].
      * apply Hk; auto.
Qed.

Lemma sorted_keys_ssorted o : sorted_keys o = true -> ssorted (as_parsed o).
Proof.
  induction o as [|[k v] r IH]; intros H; cbn; auto.
  destruct r as [|[k' v'] r'].
  - split; [intros kv' [] | exact I].
  - cbn [sorted_keys] in H. destruct (bytes_cmp k k') eqn:E; try discriminate.
    specialize (IH H). split; auto.
    cbn [as_parsed map] in IH. destruct IH as [IH1 IH2].
    intros kv' [<-|Hin]; cbn [fst]; auto.
    eapply bytes_cmp_lt_trans; [exact E|]. apply (IH1 kv' Hin).
Qed.

Lemma build_map_sorted o : sorted_keys o = true -> build_map (as_parsed o) = as_parsed o.
Proof.
  intros H. unfold build_map. rewrite build_sorted.
  - reflexivity.
  - apply sorted_keys_ssorted; auto.
  - intros kv _ kv' [].
Qed.

(* ------------------------------------------------------------------ the list of entries *)
Section Loop.
  Variables (kc : N) (kvd' : str) (fc : N) (fd' : str).
  Local Notation kvd := (kc :: kvd').
  Local Notation fd := (fc :: fd').
  Hypothesis Hkc : is_sptab kc = false.
  Hypothesis Hfd : fd = [c_sp] \/ (str_eqb fd [c_sp] = false /\ fc <> c_sp).

  Definition entry_ok (kv : str * str) : Prop := str_ok [kc; fc] (fst kv) /\ str_ok [fc] (snd kv).

  Lemma tail_shape r : tail_of kvd fd r = [] \/ exists more, tail_of kvd fd r = fd ++ more.
  Proof. destruct r; [left; reflexivity | right; eexists; reflexivity]. Qed.

  Lemma length_tail r : (length r <= length (tail_of kvd fd r))%nat.
  Proof.
    induction r as [|kv r IH]; [cbn; lia|].
    unfold tail_of. rewrite join_cons. fold (tail_of kvd fd r).
    change (fd ++ encode_field kvd (fst kv) (snd kv) ++ tail_of kvd fd r)
      with (fc :: (fd' ++ encode_field kvd (fst kv) (snd kv) ++ tail_of kvd fd r)).
    cbn [length]. rewrite !app_length. lia.
  Qed.

  Lemma sep_loop_enc ws sk r : forall fuel acc,
    Forall entry_ok r -> (length r < fuel)%nat ->
    sep_loop kvd fd ws sk fuel (tail_of kvd fd r) acc = LDone [] (acc ++ as_parsed r).
  Proof.
    induction r as [|kv r IH]; intros fuel acc Hok Hf.
    - destruct fuel; [lia|]. cbn [sep_loop tail_of]. rewrite pfd_nil by discriminate.
      cbn. rewrite app_nil_r. reflexivity.
    - destruct fuel; [cbn in Hf; lia|]. inversion Hok as [|? ? [Hk Hv] Hr]; subst.
      cbn [sep_loop]. unfold tail_of at 1. rewrite join_cons.
      destruct (enc_head _ _ Hk) as (x & t & Ek & _ & Hx).
      assert (E : encode_field kvd (fst kv) (snd kv) ++ tail_of kvd fd r
                  = x :: (t ++ kvd ++ encode_string (snd kv) ++ tail_of kvd fd r)).
      { unfold encode_field. rewrite <- !app_assoc. rewrite Ek. reflexivity. }
      rewrite E. rewrite (pfd_self fd _ x (fd_shape fc fd' Hfd) Hx). rewrite <- E.
      rewrite (parse_kv_enc kc kvd' fc fd' Hkc Hfd ws sk (fst kv) (snd kv) _ Hk Hv (tail_shape r)).
      assert (L : Nat.eqb (length (tail_of kvd fd r)) (length (tail_of kvd fd (kv :: r))) = false).
      { apply Nat.eqb_neq.
        change (tail_of kvd fd (kv :: r))
          with (fc :: (fd' ++ encode_field kvd (fst kv) (snd kv) ++ tail_of kvd fd r)).
        cbn [length]. rewrite !app_length. lia. }
      rewrite L. rewrite IH; auto.
      + rewrite <- app_assoc. destruct kv; reflexivity.
      + cbn [length] in Hf. lia.
  Qed.

  Lemma parse_line_enc ws sk o :
    o <> [] -> Forall entry_ok o ->
    parse_line kvd fd ws sk (join_fields kvd fd o) = LDone [] (as_parsed o).
  Proof.
    destruct o as [|kv r]; [congruence|]. intros _ Hok. inversion Hok as [|? ? [Hk Hv] Hr]; subst.
    unfold parse_line. rewrite join_cons.
    rewrite (parse_kv_enc kc kvd' fc fd' Hkc Hfd ws sk (fst kv) (snd kv) _ Hk Hv (tail_shape r)).
    rewrite sep_loop_enc; auto.
    rewrite app_length. pose proof (length_tail r). lia.
  Qed.
End Loop.

(* ------------------------------------------------------------------ from the boolean classes to str_ok *)
Lemma existsb_false {A} (f : A -> bool) l : existsb f l = false -> forall x, In x l -> f x = false.
Proof.
  intros H x Hx. destruct (f x) eqn:E; auto.
  assert (existsb f l = true) by (apply existsb_exists; exists x; auto). congruence.
Qed.

Lemma safe_entry_ok kc kvd' fc fd' o :
  nonempty_strings o = true -> kv_safe (kc :: kvd') (fc :: fd') o = true ->
  Forall (entry_ok kc fc) o.
Proof.
  intros Hne Hs. unfold kv_safe in Hs.
  rewrite !andb_true_iff, !negb_true_iff in Hs. destruct Hs as [[[Hb Hn] Hq] Hd].
  apply Forall_forall. intros kv Hin.
  pose proof (existsb_false _ _ Hb kv Hin) as Eb. cbn beta in Eb.
  pose proof (existsb_false _ _ Hn kv Hin) as En. cbn beta in En.
  pose proof (existsb_false _ _ Hq kv Hin) as Eq. cbn beta in Eq.
  pose proof (existsb_false _ _ Hd kv Hin) as Ed. cbn beta in Ed.
  unfold nonempty_strings in Hne. rewrite forallb_forall in Hne. specialize (Hne kv Hin).
  rewrite andb_true_iff, !negb_true_iff in Hne. destruct Hne as [Nk Nv].
  apply orb_false_iff in Eb as [Ebk Ebv]. apply orb_false_iff in En as [Enk Env].
  apply orb_false_iff in Eq as [Eqk Eqv]. apply orb_false_iff in Ed as [Edk Edv].
  destruct kv as [a b]. unfold entry_ok. cbn [fst snd] in *.
  split; (split; [|split]).
  - intros E; rewrite E in Nk; discriminate.
  - exact Enk.
  - intros U. rewrite U in *. cbn [andb] in *. apply orb_false_iff in Edk as [D1 D2].
    repeat split; auto. intros h [<-|[<-|[]]]; auto.
  - intros E; rewrite E in Nv; discriminate.
  - exact Env.
  - intros U. rewrite U in *. cbn [andb] in *.
    repeat split; auto. intros h [<-|[]]; auto.
Qed.

(* ------------------------------------------------------------------ the round trip *)
Theorem kv_roundtrip kvd fd ws sk o :
  good_delims kvd fd = true -> o <> [] -> sorted_keys o = true -> nonempty_strings o = true ->
  kv_safe kvd fd o = true ->
  parse_key_value kvd fd ws sk (to_string kvd fd o) = POk (as_parsed o).
Proof.
  intros Hg Hne Hs Hn Hsafe.
  destruct (good_delims_spec kvd fd Hg) as (kc & kvd' & fc & fd' & -> & -> & Hkc & Hfd).
  unfold parse_key_value. rewrite to_string_join by auto.
  rewrite (parse_line_enc kc kvd' fc fd' Hkc Hfd ws sk o Hne (safe_entry_ok _ _ _ _ _ Hn Hsafe)).
  cbn [trim trim_start trim_end rev is_nil app]. rewrite build_map_sorted by auto. reflexivity.
Qed.

(* logfmt: "=" / " ", lenient, standalone keys; the delimiter class is empty there *)
Definition logfmt_safe (o : list (str * str)) : bool :=
  negb (known_backslash o) && negb (known_newline o) && negb (known_squote o).

Lemma unq_no_eq_sp s : unq s = true -> has c_eq s = false /\ has c_sp s = false.
Proof.
  intros U. split; apply has_false_iff; intros x Hx; destruct (proj1 (unq_spec s) U x Hx) as (W & _ & E); auto.
  intros ->. rewrite c_sp_ws in W. discriminate.
Qed.

Lemma logfmt_no_delim_class o : known_delim [c_eq] [c_sp] o = false.
Proof.
  unfold known_delim. destruct (existsb _ o) eqn:E; auto.
  apply existsb_exists in E as (kv & _ & H). cbn [has_head_of] in H.
  apply orb_true_iff in H as [H|H]; apply andb_true_iff in H as [U H]; destruct (unq_no_eq_sp _ U) as [A B];
    rewrite ?A, ?B in H; discriminate.
Qed.

Theorem logfmt_roundtrip o :
  o <> [] -> sorted_keys o = true -> nonempty_strings o = true -> logfmt_safe o = true ->
  parse_logfmt (encode_logfmt o) = POk (as_parsed o).
Proof.
  intros Hne Hs Hn Hsafe. unfold parse_logfmt, encode_logfmt. apply kv_roundtrip; auto.
  unfold kv_safe. rewrite logfmt_no_delim_class. unfold logfmt_safe in Hsafe. rewrite Hsafe. reflexivity.
Qed.
