(* C34, syntactic half and the property-level theorems: what the visitor can flag, removal of flagged
   root statements, and the refutations of the unrestricted property. *)
From Coq Require Import List NArith ZArith Bool Lia PeanoNat String.
From VRL Require Import Base.Bytes Base.Value Base.Lit Model.ValueCrud Model.Expr Model.Eval Model.EvalInst Model.Unused
     Proofs.ExprInd Proofs.EvalProofs Proofs.UnusedEvalProofs.
Import ListNotations.
Local Open Scope list_scope.

(* ---------- every diagnostic the visitor pushes is about a literal, an object or a plain call ---------- *)

(* the new diagnostics are about sub-expressions of e (which sits at position p) of the right shape *)
Definition good (e : pexpr) (p : pos) (qc : pos * wcls) : Prop :=
  exists r x, fst qc = p ++ r /\ sub e r = Some x /\ shape_ok (snd qc) x = true.

Definition ext (e : pexpr) (p : pos) (st st' : vstate) : Prop :=
  exists new, v_diags st' = new ++ v_diags st /\ Forall (good e p) new.

Lemma ext_same e p st st' : v_diags st' = v_diags st -> ext e p st st'.
Proof. intros H. exists []. split; auto. Qed.

Lemma ext_trans e p s1 s2 s3 : ext e p s1 s2 -> ext e p s2 s3 -> ext e p s1 s3.
Proof.
  intros [n1 [E1 F1]] [n2 [E2 F2]]. exists (n2 ++ n1). split.
  - rewrite E2, E1, app_assoc. reflexivity.
  - apply Forall_app; auto.
Qed.

Lemma ext_dg e p st st1 st' st1' :
  v_diags st1 = v_diags st -> v_diags st1' = v_diags st' -> ext e p st1 st' -> ext e p st st1'.
Proof. intros A B [n [E Fn]]. exists n. split; auto. rewrite B, E, A. reflexivity. Qed.

(* a diagnostic about the i-th child is a diagnostic about the parent *)
Lemma ext_child e p i x st st' : nth_error (children e) i = Some x -> ext x (p ++ [i]) st st' -> ext e p st st'.
Proof.
  intros Hn [n [E Fn]]. exists n. split; auto.
  eapply Forall_impl; [|exact Fn]. intros qc [r [y [E1 [E2 E3]]]].
  exists (i :: r), y. split; [rewrite E1, <- app_assoc; reflexivity|]. split; auto.
  cbn [sub]. rewrite Hn. exact E2.
Qed.

Lemma ext_flag e p st c : shape_ok c e = true -> ext e p st (flag st p c).
Proof.
  intros H. exists [(p, c)]. split; [reflexivity|]. constructor; [|constructor].
  exists [], e. cbn [fst snd sub]. rewrite app_nil_r. auto.
Qed.

Lemma ext_scoped e p f st : (forall s, ext e p s (f s)) -> ext e p st (scoped f st).
Proof.
  intros H. unfold scoped. eapply ext_dg; [| |apply (H (mark_exp (inc st) true))]; reflexivity.
Qed.

Definition Pv (x : pexpr) : Prop := forall p st, ext x p st (visit x p st).

Lemma foldi_ext {A} (proj : A -> pexpr) e p (g : nat -> A -> vstate -> vstate) (l : list A) :
  (forall i a st, In a l -> nth_error (children e) i = Some (proj a) -> ext e p st (g i a st)) ->
  forall (r : list A) off, incl r l ->
    (forall j a, nth_error r j = Some a -> nth_error (children e) (off + j) = Some (proj a)) ->
    forall st, ext e p st (foldi g off r st).
Proof.
  intros Hg. induction r as [|a r IH]; intros off Hin Hn st; cbn [foldi].
  - apply ext_same; auto.
  - eapply ext_trans.
    + apply Hg; [apply Hin; left; auto|]. specialize (Hn 0 a eq_refl). rewrite Nat.add_0_r in Hn. exact Hn.
    + apply IH.
      * intros y Hy. apply Hin. right; auto.
      * intros j b Hj. specialize (Hn (S j) b Hj). rewrite Nat.add_succ_r in Hn. exact Hn.
Qed.

Lemma fold_blk_ext e p (g : nat -> pexpr -> vstate -> vstate) (l : list pexpr) :
  (forall i a st, In a l -> nth_error (children e) i = Some a -> ext e p st (g i a st)) ->
  forall (r : list pexpr) off, incl r l ->
    (forall j a, nth_error r j = Some a -> nth_error (children e) (off + j) = Some a) ->
    forall st, ext e p st (fold_blk g off r st).
Proof.
  intros Hg. induction r as [|a r IH]; intros off Hin Hn st; cbn [fold_blk].
  - apply ext_same; auto.
  - assert (Ha : forall s, ext e p s (g off a s)).
    { intros s. apply Hg; [apply Hin; left; auto|]. specialize (Hn 0 a eq_refl). rewrite Nat.add_0_r in Hn. exact Hn. }
    destruct r as [|b r'].
    + eapply ext_dg; [| |apply (Ha (exiting_block st))]; reflexivity.
    + eapply ext_trans; [apply Ha|]. apply IH.
      * intros y Hy. apply Hin. right; auto.
      * intros j c Hj. specialize (Hn (S j) c Hj). rewrite Nat.add_succ_r in Hn. exact Hn.
Qed.

(* visit_block over a segment of the children *)
Lemma vblock_ext e p (l : list pexpr) off :
  Forall Pv l ->
  (forall j a, nth_error l j = Some a -> nth_error (children e) (off + j) = Some a) ->
  forall st, ext e p st (match l with
                         | [] => st
                         | _ :: _ => fold_blk (fun i x s => visit x (p ++ [i]) s) off l (enter_block st)
                         end).
Proof.
  intros Hl Hn st. destruct l as [|a r] eqn:El; [apply ext_same; auto|]. rewrite <- El in *.
  eapply ext_dg; [| |apply (fold_blk_ext e p (fun i x s => visit x (p ++ [i]) s) l) with (r := l) (off := off) (st := enter_block st)]; try reflexivity.
  - intros i x s Hin Hc. eapply ext_child; [exact Hc|]. rewrite Forall_forall in Hl. apply Hl; auto.
  - apply incl_refl.
  - exact Hn.
Qed.

Lemma call_tail_ext e p f bang clo st :
  (forall body, clo = Some body -> forall s, ext e p s (body s)) ->
  (is_se f = false -> clo = None -> shape_ok WCall e = true) ->
  ext e p st (call_tail f bang clo p st).
Proof.
  intros Hclo Hshape. unfold call_tail.
  set (st2 := if negb bang && is_within st then mark_exp st true else st).
  assert (E2 : v_diags st2 = v_diags st) by (unfold st2; destruct (negb bang && is_within st); reflexivity).
  match goal with |- ext e p st (if _ then mark_exp ?x false else ?x) => set (st3 := x) end.
  assert (E3 : ext e p st st3).
  { unfold st3. destruct (is_se f) eqn:Ese; [apply ext_same; auto|].
    destruct clo as [body|].
    - eapply ext_dg; [| |apply (Hclo body eq_refl (mark_exp st2 true))]; [cbn; auto|reflexivity].
    - destruct (is_unused st2); [|apply ext_same; auto].
      eapply ext_dg; [exact E2|reflexivity|]. apply ext_flag. auto. }
  destruct (negb bang && is_within st3); exact E3.
Qed.

Lemma nth_error_app_off {A} (l1 l2 : list A) j : nth_error (l1 ++ l2) (List.length l1 + j) = nth_error l2 j.
Proof. rewrite nth_error_app2 by lia. f_equal. lia. Qed.

Theorem visit_ext e : Pv e.
Proof.
  induction e using pexpr_ind'; intros q st; cbn [visit].
  - destruct (is_unused st); [apply ext_flag; reflexivity|apply ext_same; auto].
  - apply ext_same; auto.
  - apply ext_same; auto.
  - apply ext_same; auto.
  - destruct (is_call e); [|apply ext_same; auto]. eapply (ext_child _ _ 0); [reflexivity|apply IHe].
  - eapply (ext_child _ _ 0); [reflexivity|apply IHe].
  - apply vblock_ext; auto.
  - apply (foldi_ext (fun x => x) _ _ _ es) with (r := es); auto using incl_refl.
    intros i a s Hin Hc. eapply ext_child; [exact Hc|]. rewrite Forall_forall in H. apply H; auto.
  - apply ext_trans with (s2 := if is_unused st then flag st q WObj else st).
    + destruct (is_unused st); [apply ext_flag; reflexivity|apply ext_same; reflexivity].
    + apply (foldi_ext snd _ _ _ kvs) with (r := kvs); auto using incl_refl.
      * intros i a s Hin Hc. apply ext_scoped. intros s0. eapply ext_child; [exact Hc|].
        rewrite Forall_forall in H. apply H; auto.
      * intros j a Hj. cbn [children Nat.add]. rewrite nth_error_map, Hj. reflexivity.
  - apply ext_scoped. intros s.
    assert (E1 : ext (PIf c t f) q s (foldi (fun i x s => visit x (q ++ [i]) s) 0 c s)).
    { apply (foldi_ext (fun x => x) (PIf c t f) q (fun i x s => visit x (q ++ [i]) s) c) with (r := c); auto using incl_refl.
      - intros i a s0 Hin Hc. eapply ext_child; [exact Hc|]. rewrite Forall_forall in H. apply H; auto.
      - intros j a Hj. cbn [children Nat.add]. rewrite nth_error_app1; auto. apply nth_error_Some. congruence. }
    assert (E2 : forall s1, ext (PIf c t f) q s1
               (scoped (fun st => match t with
                                  | [] => st
                                  | _ :: _ => fold_blk (fun i x s => visit x (q ++ [i]) s) (List.length c) t (enter_block st)
                                  end) s1)).
    { intros s1. apply ext_scoped. intros s0. apply vblock_ext; auto.
      intros j a Hj. cbn [children]. rewrite nth_error_app_off. rewrite nth_error_app1; auto.
      apply nth_error_Some. congruence. }
    destruct f as [fb|].
    + eapply ext_trans; [exact E1|]. eapply ext_trans; [apply E2|].
      apply ext_scoped. intros s0. apply vblock_ext; [exact H1|].
      intros j a Hj. cbn [children]. rewrite app_assoc, <- app_length, nth_error_app_off. exact Hj.
    + eapply ext_trans; [exact E1|]. apply E2.
  - eapply ext_trans.
    + eapply (ext_child _ _ 0); [reflexivity|apply IHe1].
    + apply ext_scoped. intros s. eapply (ext_child _ _ 1); [reflexivity|apply IHe2].
  - eapply (ext_child _ _ 0); [reflexivity|apply IHe].
  - apply ext_scoped. intros s. eapply (ext_child _ _ 0); [reflexivity|apply IHe].
  - apply ext_scoped. intros s. eapply (ext_child _ _ 0); [reflexivity|apply IHe].
  - apply ext_same; auto.
  - apply ext_scoped. intros s. eapply (ext_child _ _ 0); [reflexivity|apply IHe].
  - apply ext_trans with (s2 := foldi (fun i x s => scoped (visit x (q ++ [i])) s) 0 args st).
    + apply (foldi_ext (fun x => x) (PCall f bang args) q (fun i x s => scoped (visit x (q ++ [i])) s) args) with (r := args);
        auto using incl_refl.
      intros i a s Hin Hc. apply ext_scoped. intros s0. eapply ext_child; [exact Hc|].
      rewrite Forall_forall in H. apply H; auto.
    + apply call_tail_ext; [discriminate|]. intros Hse _. cbn [shape_ok]. rewrite Hse. reflexivity.
  - apply call_tail_ext; [discriminate|]. intros Hse. vm_compute in Hse. discriminate.
  - apply call_tail_ext; [discriminate|]. intros Hse. vm_compute in Hse. discriminate.
  - apply call_tail_ext; [discriminate|reflexivity].
  - apply call_tail_ext; [discriminate|reflexivity].
  - apply ext_trans with (s2 := scoped (visit e (q ++ [0])) st).
    + apply ext_scoped. intros s. eapply (ext_child _ _ 0); [reflexivity|apply IHe].
    + apply call_tail_ext; [|discriminate].
      intros b Hb s. inversion Hb; subst b. apply vblock_ext; auto.
  Qed.

(* the root loop *)
Lemma visit_root_ext es : forall i st,
  exists new, v_diags (visit_root i es st) = new ++ v_diags st /\
    Forall (fun qc => exists j r x y, fst qc = (i + j) :: r /\ nth_error es j = Some x /\ sub x r = Some y
                                     /\ shape_ok (snd qc) y = true) new.
Proof.
  induction es as [|x r IH]; intros i st; cbn [visit_root].
  - exists []. split; auto.
  - assert (Hx : forall s, exists new, v_diags (visit x [i] s) = new ++ v_diags s /\
        Forall (fun qc => exists j r0 x0 y, fst qc = (i + j) :: r0 /\ nth_error (x :: r) j = Some x0 /\ sub x0 r0 = Some y
                                     /\ shape_ok (snd qc) y = true) new).
    { intros s. destruct (visit_ext x [i] s) as [n [E Fn]]. exists n. split; auto.
      eapply Forall_impl; [|exact Fn]. intros qc [r0 [y [E1 [E2 E3]]]].
      exists 0, r0, x, y. rewrite Nat.add_0_r. auto. }
    destruct r as [|b r'].
    + destruct (Hx (mark_exp (inc st) true)) as [n [E Fn]]. exists n. split; auto.
    + destruct (Hx st) as [n1 [E1 F1]]. destruct (IH (S i) (visit x [i] st)) as [n2 [E2 F2]].
      exists (n2 ++ n1). split; [rewrite E2, E1, app_assoc; reflexivity|].
      apply Forall_app. split; auto.
      eapply Forall_impl; [|exact F2]. intros qc [j [r0 [x0 [y [A [B C]]]]]].
      exists (S j), r0, x0, y. rewrite Nat.add_succ_r. auto.
Qed.

Theorem flagged_shape (p : list pexpr) (q : pos) (c : wcls) :
  In (q, c) (check_program p) -> exists x, psub p q = Some x /\ shape_ok c x = true.
Proof.
  unfold check_program. intros H. apply in_rev in H.
  destruct (visit_root_ext p 0 v0) as [n [E Fn]]. cbn [v0 v_diags] in E. rewrite app_nil_r in E. rewrite E in H.
  rewrite Forall_forall in Fn. destruct (Fn _ H) as [j [r [x [y [A [B [C Dd]]]]]]].
  cbn [fst snd] in *. subst q. exists y. split; auto. cbn [psub Nat.add]. rewrite B. exact C.
Qed.

(* shape + clean children => clean expression *)
Lemma forallb_map_snd {A} (g : pexpr -> bool) (kvs : list (A * pexpr)) :
  forallb g (map snd kvs) = forallb (fun kv => g (snd kv)) kvs.
Proof. induction kvs as [|kv r IH]; cbn; auto. rewrite IH. reflexivity. Qed.

Lemma shape_kids_total tf c x : shape_ok c x = true -> kids_total tf x = true -> total tf x = true.
Proof.
  unfold kids_total. destruct c, x; cbn [shape_ok]; try discriminate; intros _ H; cbn [total children] in *; auto.
  - rewrite forallb_map_snd, andb_true_r in H. exact H.
  - rewrite andb_comm. exact H.
Qed.

Lemma shape_kids_eff_free c x : shape_ok c x = true -> kids_eff_free x = true -> eff_free x = true.
Proof.
  unfold kids_eff_free. destruct c, x; cbn [shape_ok]; try discriminate; intros _ H; cbn [eff_free children] in *; auto.
  rewrite forallb_map_snd in H. exact H.
Qed.

(* ---------- removal of a root statement ---------- *)
Section Root.
  Variable F : fname -> list value -> option value.
  Variable binop : opcode -> value -> value -> option value.
  Notation evl := (eval F binop).

  Lemma blk_app_pure pre x post : post <> [] -> pur F binop true x ->
    beqv (blk F binop (pre ++ x :: post)) (blk F binop (pre ++ post)).
  Proof.
    intros Hne Hx. induction pre as [|a pre IH]; intros s s' HR; cbn [app].
    - rewrite blk_cons by auto. destruct (R_parts _ _ HR) as [_ [_ [_ [Hf _]]]].
      destruct (Hx s Hf) as [HR1 Hok]. destruct (evl x s) as [[v|er] s1]; cbn [fst snd] in *.
      + apply blk_cong; [apply Forall2_refl; apply Forall_forall; intros; apply eqv_refl|].
        eapply R_trans; [apply R_sym; exact HR1|exact HR].
      + destruct er; cbn in Hok; try contradiction; discriminate.
    - rewrite !blk_cons by (destruct pre; cbn; try discriminate; auto).
      pose proof (eqv_refl F binop a s s' HR) as X. unfold sim in X.
      destruct (evl a s) as [[v|er] s1]; destruct (evl a s') as [[v'|er'] s1'];
        cbn [fst snd] in X; destruct X as [X HR1]; inversion X; subst; [apply IH; auto|split; auto].
  Qed.

  (* fallible variant: either the original fails with a plain error, or nothing changes *)
  Lemma blk_app_eff pre x post : post <> [] -> pur F binop false x ->
    forall s s', R s s' ->
      fst (blk F binop (pre ++ x :: post) s) = inr Error \/
      sim (blk F binop (pre ++ x :: post) s) (blk F binop (pre ++ post) s').
  Proof.
    intros Hne Hx. induction pre as [|a pre IH]; intros s s' HR; cbn [app].
    - rewrite blk_cons by auto. destruct (R_parts _ _ HR) as [_ [_ [_ [Hf _]]]].
      destruct (Hx s Hf) as [HR1 Hok]. destruct (evl x s) as [[v|er] s1]; cbn [fst snd] in *.
      + right. apply blk_cong; [apply Forall2_refl; apply Forall_forall; intros; apply eqv_refl|].
        eapply R_trans; [apply R_sym; exact HR1|exact HR].
      + destruct er; cbn in Hok; try contradiction. left; reflexivity.
    - rewrite !blk_cons by (destruct pre; cbn; try discriminate; auto).
      pose proof (eqv_refl F binop a s s' HR) as X. unfold sim in X.
      destruct (evl a s) as [[v|er] s1]; destruct (evl a s') as [[v'|er'] s1'];
        cbn [fst snd] in X; destruct X as [X HR1]; inversion X; subst; [apply IH; auto|right; split; auto].
  Qed.

  Lemma run_blk es s : faults s = [] ->
    run F binop es s =
    let s0 := mkState (vars s) (ev s) (md s) (tlog s) [] in
    match blk F binop es s0 with
    | (inl v, s') => (Success v, s')
    | (inr (Return v), s') => (Success v, s')
    | (inr (Abort m), s') => (Aborted m, s')
    | (inr Error, s') => (Failed, s')
    | (inr Panic, s') => (Panicked, s')
    end.
  Proof. intros H. unfold run, pop_fault. rewrite H. reflexivity. Qed.

  Variable tf : fname -> nat -> bool.
  Hypothesis tf_total : forall f args, tf f (List.length args) = true -> F f args <> None.

  Theorem removable_root pre x post c :
    post <> [] ->
    In ([List.length pre], c) (check_program (pre ++ x :: post)) ->
    kids_total tf x = true ->
    forall s, faults s = [] ->
      fst (run F binop (elab_prog (pre ++ x :: post)) s) = fst (run F binop (elab_prog (pre ++ post)) s)
      /\ core (snd (run F binop (elab_prog (pre ++ x :: post)) s)) = core (snd (run F binop (elab_prog (pre ++ post)) s)).
  Proof.
    intros Hne Hin Hk s Hs.
    destruct (flagged_shape _ _ _ Hin) as [y [Hy Hsh]].
    cbn [psub] in Hy. rewrite nth_error_app2, Nat.sub_diag in Hy by lia. cbn [nth_error sub] in Hy. inversion Hy; subst y.
    pose proof (shape_kids_total tf c x Hsh Hk) as Ht.
    destruct (pure_eval F binop tf tf_total x) as [_ Hp]. specialize (Hp Ht).
    rewrite !run_blk by auto. cbn zeta.
    set (s0 := mkState (vars s) (ev s) (md s) (tlog s) []).
    assert (HR : R s0 s0) by (repeat split; auto).
    unfold elab_prog. rewrite !map_app. cbn [map].
    assert (Hne' : map elab post <> []) by (destruct post; [congruence|discriminate]).
    pose proof (blk_app_pure (map elab pre) (elab x) (map elab post) Hne' Hp s0 s0 HR) as X. unfold sim in X.
    destruct (blk F binop (map elab pre ++ elab x :: map elab post) s0) as [r1 s1].
    destruct (blk F binop (map elab pre ++ map elab post) s0) as [r2 s2].
    cbn [fst snd] in X. destruct X as [E [Hc _]]. subst r2.
    destruct r1 as [v|[ | | | ]]; cbn [fst snd]; auto.
  Qed.

  Theorem removable_root_fallible pre x post c :
    post <> [] ->
    In ([List.length pre], c) (check_program (pre ++ x :: post)) ->
    kids_eff_free x = true ->
    forall s v, faults s = [] ->
      fst (run F binop (elab_prog (pre ++ x :: post)) s) = Success v ->
      fst (run F binop (elab_prog (pre ++ post)) s) = Success v
      /\ core (snd (run F binop (elab_prog (pre ++ x :: post)) s)) = core (snd (run F binop (elab_prog (pre ++ post)) s)).
  Proof.
    intros Hne Hin Hk s v Hs.
    destruct (flagged_shape _ _ _ Hin) as [y [Hy Hsh]].
    cbn [psub] in Hy. rewrite nth_error_app2, Nat.sub_diag in Hy by lia. cbn [nth_error sub] in Hy. inversion Hy; subst y.
    pose proof (shape_kids_eff_free c x Hsh Hk) as Ht.
    destruct (pure_eval F binop tf tf_total x) as [Hp _]. specialize (Hp Ht).
    rewrite !run_blk by auto. cbn zeta.
    set (s0 := mkState (vars s) (ev s) (md s) (tlog s) []).
    assert (HR : R s0 s0) by (repeat split; auto).
    unfold elab_prog. rewrite !map_app. cbn [map].
    assert (Hne' : map elab post <> []) by (destruct post; [congruence|discriminate]).
    destruct (blk_app_eff (map elab pre) (elab x) (map elab post) Hne' Hp s0 s0 HR) as [X|X].
    - destruct (blk F binop (map elab pre ++ elab x :: map elab post) s0) as [r1 s1]. cbn [fst] in X. subst r1.
      cbn [fst]. discriminate.
    - unfold sim in X.
      destruct (blk F binop (map elab pre ++ elab x :: map elab post) s0) as [r1 s1].
      destruct (blk F binop (map elab pre ++ map elab post) s0) as [r2 s2].
      cbn [fst snd] in X. destruct X as [E [Hc _]]. subst r2.
      destruct r1 as [w|[ | | | ]]; cbn [fst snd]; auto.
  Qed.
End Root.

(* ---------- deleting the statement at one position, anywhere ---------- *)
Lemma pos_eqb_eq a b : pos_eqb a b = true -> a = b.
Proof.
  revert b. induction a as [|x a IH]; intros [|y b]; cbn; try discriminate; auto.
  intros H. apply andb_true_iff in H. destruct H as [H1 H2]. apply Nat.eqb_eq in H1. f_equal; auto.
Qed.

Lemma foralli_true {A} (f : nat -> A -> bool) (l : list A) : forall off,
  (forall j x, nth_error l j = Some x -> f (off + j)%nat x = true) -> foralli f off l = true.
Proof.
  induction l as [|x r IH]; intros off H; cbn [foralli]; auto.
  apply andb_true_iff. split.
  - specialize (H 0%nat x eq_refl). rewrite Nat.add_0_r in H. exact H.
  - apply IH. intros j y Hj. specialize (H (S j) y Hj). rewrite Nat.add_succ_r in H. exact H.
Qed.

Lemma stmts_ok_true {A} (D : A -> bool) (sel : nat -> bool) (l : list A) : forall off,
  (forall j x, nth_error l j = Some x -> sel (off + j)%nat = true -> D x = true) -> stmts_ok D sel off l = true.
Proof.
  induction l as [|x r IH]; intros off H; cbn [stmts_ok]; auto.
  destruct r as [|y r']; auto.
  apply andb_true_iff. split.
  - destruct (sel off) eqn:E; auto. apply (H 0%nat x eq_refl). rewrite Nat.add_0_r. exact E.
  - apply IH. intros j z Hj Hs. apply (H (S j) z Hj). rewrite Nat.add_succ_r. exact Hs.
Qed.

Section Single.
  Variable D : pexpr -> bool.
  Variable q : pos.

  (* every strict sub-expression of e (sitting at position p0) that lies at position q satisfies D *)
  Definition below (e : pexpr) (p0 : pos) : Prop :=
    forall r y, r <> [] -> sub e r = Some y -> p0 ++ r = q -> D y = true.

  Lemma below_child e p0 i x : nth_error (children e) i = Some x -> below e p0 -> below x (p0 ++ [i]).
  Proof.
    intros Hn H r y Hr Hs Hq. apply (H (i :: r) y); [discriminate| |rewrite <- Hq, <- app_assoc; reflexivity].
    cbn [sub]. rewrite Hn. exact Hs.
  Qed.

  Lemma below_here e p0 i x : nth_error (children e) i = Some x -> below e p0 -> pos_eqb q (p0 ++ [i]) = true -> D x = true.
  Proof.
    intros Hn H Hq. apply pos_eqb_eq in Hq. apply (H [i] x); [discriminate| |auto].
    cbn [sub]. rewrite Hn. reflexivity.
  Qed.

  Definition Psel (e : pexpr) : Prop := forall p0, below e p0 -> sel_ok D (pos_eqb q) p0 e = true.

  Lemma kids_sel e p0 (l : list pexpr) off : Forall Psel l -> below e p0 ->
    (forall j a, nth_error l j = Some a -> nth_error (children e) (off + j) = Some a) ->
    foralli (fun i x => sel_ok D (pos_eqb q) (p0 ++ [i]) x) off l = true.
  Proof.
    intros Hl Hb Hn. apply foralli_true. intros j x Hj. rewrite Forall_forall in Hl.
    apply Hl; [eapply nth_error_In; eauto|]. eapply below_child; eauto.
  Qed.

  Lemma stmts_sel e p0 (l : list pexpr) off : Forall Psel l -> below e p0 ->
    (forall j a, nth_error l j = Some a -> nth_error (children e) (off + j) = Some a) ->
    stmts_ok D (fun i => pos_eqb q (p0 ++ [i])) off l
    && foralli (fun i x => sel_ok D (pos_eqb q) (p0 ++ [i]) x) off l = true.
  Proof.
    intros Hl Hb Hn. apply andb_true_iff. split; [|eapply kids_sel; eauto].
    apply stmts_ok_true. intros j x Hj Hs. eapply below_here; eauto.
  Qed.

  Theorem sel_single e : Psel e.
  Proof.
    induction e using pexpr_ind'; intros p0 Hb; cbn [sel_ok]; auto.
    - apply IHe. eapply (below_child _ _ 0); eauto. reflexivity.
    - apply IHe. eapply (below_child _ _ 0); eauto. reflexivity.
    - apply (stmts_sel (PBlock es) p0 es 0); auto.
    - apply (kids_sel (PArr es) p0 es 0); auto.
    - apply foralli_true. intros j kv Hj. rewrite Forall_forall in H.
      apply (H kv); [eapply nth_error_In; eauto|]. eapply below_child; eauto.
      cbn [children Nat.add]. rewrite nth_error_map, Hj. reflexivity.
    - apply andb_true_iff. split; [apply andb_true_iff; split|].
      + apply (kids_sel (PIf c t f) p0 c 0); auto.
        intros j a Hj. cbn [children Nat.add]. rewrite nth_error_app1; auto. apply nth_error_Some. congruence.
      + apply (stmts_sel (PIf c t f) p0 t (List.length c)); auto.
        intros j a Hj. cbn [children]. rewrite nth_error_app_off, nth_error_app1; auto. apply nth_error_Some. congruence.
      + destruct f as [fb|]; auto. apply (stmts_sel (PIf c t (Some fb)) p0 fb (List.length c + List.length t)); auto.
        intros j a Hj. cbn [children]. rewrite app_assoc, <- app_length, nth_error_app_off. exact Hj.
    - apply andb_true_iff. split.
      + apply IHe1. eapply (below_child _ _ 0); eauto. reflexivity.
      + apply IHe2. eapply (below_child _ _ 1); eauto. reflexivity.
    - apply IHe. eapply (below_child _ _ 0); eauto. reflexivity.
    - apply IHe. eapply (below_child _ _ 0); eauto. reflexivity.
    - apply IHe. eapply (below_child _ _ 0); eauto. reflexivity.
    - destruct m as [m|]; auto. cbn in H. apply H. eapply (below_child _ _ 0); eauto. reflexivity.
    - apply IHe. eapply (below_child _ _ 0); eauto. reflexivity.
    - apply (kids_sel (PCall f bang args) p0 args 0); auto.
    - apply andb_true_iff. split.
      + apply IHe. eapply (below_child _ _ 0); eauto. reflexivity.
      + apply (stmts_sel (PClosure cf bang e ps body) p0 body 1); auto.
  Qed.

  (* program level: if the expression at q satisfies D, deleting "the statement at q" only deletes D-statements *)
  Theorem sel_single_prog (p : list pexpr) (x : pexpr) : psub p q = Some x -> D x = true ->
    sel_ok_prog D (pos_eqb q) p = true.
  Proof.
    intros Hx HD. unfold sel_ok_prog. apply andb_true_iff. split.
    - apply stmts_ok_true. intros j y Hj Hs. apply pos_eqb_eq in Hs. subst q. cbn [Nat.add psub sub] in Hx.
      rewrite Hj in Hx. inversion Hx; subst. exact HD.
    - apply foralli_true. intros j y Hj. cbn [Nat.add]. apply sel_single.
      intros r z Hr Hs Hq. subst q. cbn [app psub] in Hx. rewrite Hj in Hx. rewrite Hs in Hx. inversion Hx; subst. exact HD.
  Qed.
End Single.

Section RemoveAt.
  Variable F : fname -> list value -> option value.
  Variable binop : opcode -> value -> value -> option value.
  Variable tf : fname -> nat -> bool.
  Hypothesis tf_total : forall f args, tf f (List.length args) = true -> F f args <> None.

  (* any flagged position: if the flagged expression's children are effect-free and cannot fail, deleting the
     statement at that position (a no-op unless it is a non-last statement of some block) preserves the run *)
  Theorem removable_at p q c x :
    In (q, c) (check_program p) -> psub p q = Some x -> kids_total tf x = true ->
    forall s, faults s = [] ->
      fst (run F binop (elab_prog p) s) = fst (run F binop (elab_prog (delete_at q p)) s)
      /\ core (snd (run F binop (elab_prog p) s)) = core (snd (run F binop (elab_prog (delete_at q p)) s)).
  Proof.
    intros Hin Hx Hk s Hs. destruct (flagged_shape _ _ _ Hin) as [y [Hy Hsh]].
    rewrite Hx in Hy. inversion Hy; subst y.
    pose proof (shape_kids_total tf c x Hsh Hk) as Ht.
    apply (pdel_run F binop tf tf_total); auto.
    eapply sel_single_prog; eauto.
  Qed.
End RemoveAt.
