(* Proofs about Model/Entries.v: from_entries rebuilds, by successive BTreeMap inserts, exactly the object
   to_entries listed. *)
From Coq Require Import List NArith ZArith Bool Lia.
From VRL Require Import Base.Bytes Base.Value Model.ConvRes Model.Entries.
Import ListNotations.

Definition entry_of (kv : bytes * value) : value := build_entry (VBytes (fst kv)) (snd kv).

Lemma bytes_ltb_lt a b : bytes_ltb a b = true <-> bytes_cmp a b = Lt.
Proof. unfold bytes_ltb. destruct (bytes_cmp a b); split; congruence. Qed.

Lemma bytes_ltb_trans a b c : bytes_ltb a b = true -> bytes_ltb b c = true -> bytes_ltb a c = true.
Proof. rewrite !bytes_ltb_lt. apply bytes_cmp_lt_trans. Qed.

(* in a sorted map every key before a position is smaller than the key at the position *)
Lemma sorted_prefix_lt acc k x l :
  obj_sorted (acc ++ (k, x) :: l) = true -> forall kv, In kv acc -> bytes_ltb (fst kv) k = true.
Proof.
  induction acc as [|[k0 v0] acc IH]; intros Hs kv Hin; [destruct Hin|].
  cbn [app obj_sorted] in Hs.
  destruct acc as [|[k1 v1] acc'].
  - cbn [app] in Hs. apply andb_true_iff in Hs. destruct Hs as [H01 _].
    destruct Hin as [<-|[]]. exact H01.
  - cbn [app] in Hs, IH. apply andb_true_iff in Hs. destruct Hs as [H01 Hs].
    specialize (IH Hs). destruct Hin as [<-|Hin].
    + cbn [fst]. eapply bytes_ltb_trans; [exact H01|]. apply (IH (k1, v1)). left; reflexivity.
    + apply IH. exact Hin.
Qed.

Lemma obj_set_append m k x :
  (forall kv, In kv m -> bytes_ltb (fst kv) k = true) -> obj_set m k x = m ++ [(k, x)].
Proof.
  induction m as [|[k' v] m IH]; intros H; [reflexivity|].
  cbn [obj_set app]. assert (L : bytes_cmp k' k = Lt) by (apply bytes_ltb_lt; apply (H (k', v)); left; reflexivity).
  rewrite L. f_equal. apply IH. intros kv Hin. apply H. right; exact Hin.
Qed.

Lemma select_key_entry k x : select_key [(k_key, VBytes k); (k_value, x)] = VBytes k.
Proof. reflexivity. Qed.

Lemma entry_value_entry k x : entry_value [(k_key, VBytes k); (k_value, x)] = x.
Proof. reflexivity. Qed.

Lemma from_entries_loop_sorted l : forall acc,
  obj_sorted (acc ++ l) = true -> from_entries_loop (map entry_of l) acc = ROk (acc ++ l).
Proof.
  induction l as [|[k x] l IH]; intros acc Hs.
  - rewrite app_nil_r. reflexivity.
  - cbn [map entry_of build_entry fst snd from_entries_loop].
    rewrite select_key_entry, entry_value_entry. cbn [make_key_string].
    rewrite (obj_set_append acc k x (sorted_prefix_lt acc k x l Hs)).
    replace (acc ++ (k, x) :: l) with ((acc ++ [(k, x)]) ++ l) by (rewrite <- app_assoc; reflexivity).
    apply IH. rewrite <- app_assoc. exact Hs.
Qed.

Theorem entries_roundtrip m :
  obj_sorted m = true ->
  to_entries (VObj m) = ROk (VArr (map entry_of m)) /\ from_entries (VArr (map entry_of m)) = ROk (VObj m).
Proof.
  intros Hs. split; [reflexivity|].
  unfold from_entries. rewrite (from_entries_loop_sorted m [] Hs). reflexivity.
Qed.

(* the other composition, on the arrays to_entries produces *)
Theorem entries_roundtrip_rev m :
  obj_sorted m = true ->
  from_entries (VArr (map entry_of m)) = ROk (VObj m) /\ to_entries (VObj m) = ROk (VArr (map entry_of m)).
Proof. intros Hs. destruct (entries_roundtrip m Hs). split; assumption. Qed.

(* on arrays the pair cannot be inverse: the entries carry integer keys, which from_entries refuses *)
Theorem entries_array_not_restored v vs :
  exists a, to_entries (VArr (v :: vs)) = ROk a /\ from_entries a = RErr.
Proof. eexists. split; reflexivity. Qed.
