(* C24 — the fuel of the separated_list1 loop in Model/KeyValue.v (input length + 1) is never exhausted:
   every sub-parser returns a suffix no longer than its input and the loop's own progress check rejects an
   iteration that consumed nothing. *)
From Coq Require Import List NArith Bool Lia Arith.
From VRL Require Import Base.Bytes Model.KeyValue.
Import ListNotations.
Local Open Scope nat_scope.

Lemma strip_prefix_len p : forall s r, strip_prefix p s = Some r -> length r <= length s.
Proof.
  induction p as [|x p IH]; intros s r H; cbn in H.
  - injection H as <-. lia.
  - destruct s as [|y s]; [discriminate|]. destruct (N.eqb x y); [|discriminate].
    apply IH in H. cbn. lia.
Qed.

Lemma space0_len s : length (space0 s) <= length s.
Proof. induction s as [|c s IH]; cbn; auto. destruct (is_sptab c); cbn; lia. Qed.

Lemma many_sp_len s : length (many_sp s) <= length s.
Proof. induction s as [|c s IH]; cbn; auto. destruct (N.eqb c c_sp); cbn; lia. Qed.

Lemma pfd_len fd s r : parse_field_delimiter fd s = Some r -> length r <= length s.
Proof.
  unfold parse_field_delimiter. destruct (bytes_eqb fd [c_sp]).
  - destruct s as [|c s]; [discriminate|]. destruct (N.eqb c c_sp); [|discriminate].
    intros H. injection H as <-. pose proof (many_sp_len s). cbn. lia.
  - intros H. apply strip_prefix_len in H. pose proof (many_sp_len s). lia.
Qed.

Lemma take_until_len pat : forall s a b, take_until pat s = Some (a, b) -> length b <= length s.
Proof.
  induction s as [|c s IH]; intros a b H; cbn [take_until] in H.
  - destruct (strip_prefix pat []); [|discriminate]. injection H as _ <-. lia.
  - destruct (strip_prefix pat (c :: s)).
    + injection H as _ <-. lia.
    + destruct (take_until pat s) as [[a' b']|] eqn:E; [|discriminate].
      injection H as _ <-. specialize (IH _ _ eq_refl). cbn. lia.
Qed.

Lemma esc_go_len delim : forall n i a b, length i <= n -> esc_go delim i = Some (a, b) -> length b <= length i.
Proof.
  induction n as [|n IH]; intros i a b Hn H.
  - destruct i; [|cbn in Hn; lia]. cbn in H. injection H as _ <-. lia.
  - destruct i as [|c t]; [cbn in H; injection H as _ <-; lia|].
    cbn [esc_go] in H. cbn [length] in Hn.
    destruct (negb (N.eqb c c_bs) && negb (N.eqb c delim))%bool.
    + destruct (esc_go delim t) as [[a' b']|] eqn:E; [|discriminate]. injection H as _ <-.
      apply IH in E; [|lia]. cbn. lia.
    + destruct (N.eqb c c_bs).
      * destruct t as [|d t']; [discriminate|].
        destruct (esc_go delim t') as [[a' b']|] eqn:E; [|discriminate]. injection H as _ <-.
        apply IH in E; [|cbn in Hn; lia]. cbn. lia.
      * injection H as _ <-. lia.
Qed.

Lemma escaped_len delim i a b : escaped delim i = Some (a, b) -> length b <= length i.
Proof.
  unfold escaped. destruct (esc_go delim i) as [[a' b']|] eqn:E; [|discriminate].
  pose proof (esc_go_len delim (length i) i a' b' (le_n _) E) as L.
  destruct a'.
  - destruct (is_nil i); [|discriminate]. intros H. injection H as _ <-. cbn. lia.
  - intros H. injection H as _ <-. exact L.
Qed.

Lemma parse_delimited_len delim term s x r : parse_delimited delim term s = Some (x, r) -> length r <= length s.
Proof.
  unfold parse_delimited. destruct s as [|c s0]; [discriminate|].
  destruct (N.eqb c delim); [|discriminate].
  destruct (escaped delim s0) as [[a b]|] eqn:E.
  - apply escaped_len in E. destruct b as [|d r2]; [discriminate|].
    destruct (N.eqb d delim); [|discriminate].
    destruct (parse_field_delimiter term r2).
    + intros H. injection H as _ <-. cbn in *. lia.
    + destruct (is_nil (space0 r2)); [|discriminate]. intros H. injection H as _ <-. cbn in *. lia.
  - destruct s0 as [|d r2]; [discriminate|].
    destruct (N.eqb d delim); [|discriminate].
    destruct (parse_field_delimiter term r2).
    + intros H. injection H as _ <-. cbn. lia.
    + destruct (is_nil (space0 r2)); [|discriminate]. intros H. injection H as _ <-. cbn. lia.
Qed.

Lemma parse_undelimited_len fd s : length (snd (parse_undelimited fd s)) <= length s.
Proof.
  unfold parse_undelimited. destruct (take_until fd s) as [[a b]|] eqn:E; cbn.
  - eapply take_until_len; eauto.
  - lia.
Qed.

Lemma parse_value_len fd s : length (snd (parse_value fd s)) <= length s.
Proof.
  unfold parse_value.
  destruct (parse_delimited c_sq fd s) as [[x r]|] eqn:E1; [cbn; eapply parse_delimited_len; eauto|].
  destruct (parse_delimited c_dq fd s) as [[x r]|] eqn:E2; [cbn; eapply parse_delimited_len; eauto|].
  apply parse_undelimited_len.
Qed.

Lemma first_some_len {A} (s : str) (a b : option (A * str)) x r :
  (forall x r, a = Some (x, r) -> length r <= length s) ->
  (forall x r, b = Some (x, r) -> length r <= length s) ->
  first_some a b = Some (x, r) -> length r <= length s.
Proof. intros Ha Hb. unfold first_some. destruct a as [[x' r']|]; intros H; [eapply Ha | eapply Hb]; eauto. Qed.

Lemma parse_key_len kvd fd sk s k r : parse_key kvd fd sk s = Some (k, r) -> length r <= length s.
Proof.
  unfold parse_key.
  set (inner := if sk then _ else _).
  assert (Hin : forall x r0, inner = Some (x, r0) -> length r0 <= length s).
  { subst inner. destruct sk.
    - intros x r0. apply first_some_len; [intros ? ?; apply parse_delimited_len|].
      intros x1 r1. apply first_some_len; [intros ? ?; apply parse_delimited_len|].
      intros x2 r2. apply first_some_len; [intros ? ?; apply parse_delimited_len|].
      intros x3 r3. apply first_some_len; [intros ? ?; apply parse_delimited_len|].
      intros x4 r4. pose proof (parse_undelimited_len kvd s) as L1. pose proof (parse_undelimited_len fd s) as L2.
      destruct (parse_undelimited kvd s) as [k1 r1']. cbn in L1.
      destruct (negb (is_nil k1) && negb (contains fd k1))%bool.
      + intros H. injection H as _ <-. exact L1.
      + intros H. injection H as H. rewrite H in L2. exact L2.
    - intros x r0. apply first_some_len; [intros ? ?; apply parse_delimited_len|].
      intros x1 r1. apply first_some_len; [intros ? ?; apply parse_delimited_len|].
      intros x2 r2 H. pose proof (parse_undelimited_len kvd s) as L. injection H as H. rewrite H in L. exact L. }
  destruct inner as [[k0 r0]|]; [|discriminate].
  destruct (is_nil k0); [discriminate|]. intros H. injection H as _ <-. eapply Hin; eauto.
Qed.

Lemma parse_sep_len kvd ws s r : parse_sep kvd ws s = Some r -> length r <= length s.
Proof.
  unfold parse_sep. destruct ws.
  - apply strip_prefix_len.
  - destruct (strip_prefix kvd (space0 s)) as [r0|] eqn:E; [|discriminate]. intros H. injection H as <-.
    apply strip_prefix_len in E. pose proof (space0_len s). pose proof (space0_len r0). lia.
Qed.

Lemma parse_kv_len kvd fd ws sk s o r : parse_kv kvd fd ws sk s = Some (o, r) -> length r <= length s.
Proof.
  unfold parse_kv. destruct (parse_key kvd fd sk (space0 s)) as [[k r1]|] eqn:EK; [|discriminate].
  apply parse_key_len in EK. pose proof (space0_len s) as L0.
  set (seps := match parse_sep kvd ws r1 with Some _ => _ | None => _ end).
  assert (Hs : forall b r2, seps = Some (b, r2) -> length r2 <= length r1).
  { subst seps. intros b r2. destruct (parse_sep kvd ws r1) as [r2'|] eqn:ES.
    - apply parse_sep_len in ES. destruct (Nat.eqb (length r2') (length r1)); [discriminate|].
      intros H. injection H as _ <-. exact ES.
    - destruct sk; [|discriminate]. intros H. injection H as _ <-. lia. }
  destruct seps as [[b r2]|]; [|discriminate].
  specialize (Hs _ _ eq_refl). pose proof (parse_value_len fd r2) as LV.
  destruct (parse_value fd r2) as [v r3]. cbn in LV. intros H. injection H as _ <-. lia.
Qed.

Lemma sep_loop_fuel kvd fd ws sk : forall fuel i acc,
  length i < fuel -> sep_loop kvd fd ws sk fuel i acc <> LFuel.
Proof.
  induction fuel as [|f IH]; intros i acc Hf; [lia|].
  cbn [sep_loop]. destruct (parse_field_delimiter fd i) as [i1|] eqn:E1; [|discriminate].
  apply pfd_len in E1.
  destruct (parse_kv kvd fd ws sk i1) as [[o i2]|] eqn:E2; [|discriminate].
  apply parse_kv_len in E2.
  destruct (Nat.eqb (length i2) (length i)) eqn:E3; [discriminate|].
  apply Nat.eqb_neq in E3. apply IH. lia.
Qed.

Theorem kv_fuel_sufficient kvd fd ws sk s : parse_key_value kvd fd ws sk s <> PFuel.
Proof.
  unfold parse_key_value.
  destruct (parse_line kvd fd ws sk s) eqn:E.
  - destruct (is_nil (trim rest)); discriminate.
  - discriminate.
  - exfalso. unfold parse_line in E.
    destruct (parse_kv kvd fd ws sk s) as [[o i1]|] eqn:E1; [|discriminate].
    apply parse_kv_len in E1. revert E. apply sep_loop_fuel. lia.
Qed.
