(* Proofs for Model/Percent.v and Model/CodecUtf8.v. *)
From Coq Require Import List NArith Bool Lia.
From VRL Require Import Base.Bytes Model.Base16 Model.CodecUtf8 Model.Percent Proofs.CodecProofs.
Import ListNotations.
Local Open Scope N_scope.

(* ---------- from_utf8_lossy is the identity on valid UTF-8 ---------- *)
Lemma lossy_valid_aux (n : nat) : forall s, (length s <= n)%nat -> valid_utf8 s = true -> utf8_lossy s = s.
Proof.
  induction n as [|n IH]; intros s Hl Hv.
  - destruct s; [reflexivity | cbn in Hl; lia].
  - destruct s as [|b0 r]; [reflexivity|].
    cbn [valid_utf8 utf8_lossy] in *. cbn [length] in Hl.
    destruct (b0 <? 128).
    { f_equal. apply IH; [lia | exact Hv]. }
    destruct (width2 b0).
    { destruct r as [|b1 r1]; [discriminate|]. apply andb_true_iff in Hv. destruct Hv as [Hc Hv].
      rewrite Hc. do 2 f_equal. apply IH; [cbn [length] in Hl; lia | exact Hv]. }
    destruct (width3 b0).
    { destruct r as [|b1 [|b2 r2]]; try discriminate.
      apply andb_true_iff in Hv. destruct Hv as [Hv Hr]. apply andb_true_iff in Hv. destruct Hv as [H1 H2].
      rewrite H1, H2. do 3 f_equal. apply IH; [cbn [length] in Hl; lia | exact Hr]. }
    destruct (width4 b0).
    { destruct r as [|b1 [|b2 [|b3 r3]]]; try discriminate.
      apply andb_true_iff in Hv. destruct Hv as [Hv Hr]. apply andb_true_iff in Hv. destruct Hv as [Hv H3].
      apply andb_true_iff in Hv. destruct Hv as [H1 H2].
      rewrite H1, H2, H3. do 4 f_equal. apply IH; [cbn [length] in Hl; lia | exact Hr]. }
    discriminate.
Qed.

Theorem lossy_valid s : valid_utf8 s = true -> utf8_lossy s = s.
Proof. apply (lossy_valid_aux (length s)); lia. Qed.

(* ---------- percent ---------- *)
Definition enc1 (set : ascii_set) (c : N) : bytes :=
  if should_encode set c then [37; hex_upper (c / 16); hex_upper (c mod 16)] else [c].

Lemma pct_encode_cons set c r : pct_encode set (c :: r) = enc1 set c ++ pct_encode set r.
Proof. reflexivity. Qed.

Lemma pct_decode_triplet c t :
  c < 256 -> pct_decode (37 :: hex_upper (c / 16) :: hex_upper (c mod 16) :: t) = c :: pct_decode t.
Proof.
  intros Hc. cbn [pct_decode]. cbn [N.eqb Pos.eqb].
  rewrite (unhex_hex_upper (c / 16)) by (apply div16_lt; exact Hc).
  rewrite (unhex_hex_upper (c mod 16)) by apply mod16_lt.
  rewrite div16_mod16. reflexivity.
Qed.

Lemma pct_decode_literal c t : c <> 37 -> pct_decode (c :: t) = c :: pct_decode t.
Proof. intros H. cbn [pct_decode]. apply N.eqb_neq in H. rewrite H. reflexivity. Qed.

Lemma pct_decode_percent_literal t : starts_two_hex t = false -> pct_decode (37 :: t) = 37 :: pct_decode t.
Proof.
  intros H. cbn [pct_decode]. cbn [N.eqb Pos.eqb].
  destruct t as [|h [|l r']]; try reflexivity.
  cbn [starts_two_hex] in H. unfold is_hex in H.
  destruct (unhex h), (unhex l); try reflexivity. discriminate.
Qed.

Lemma is_hex_37 : is_hex 37 = false.
Proof. reflexivity. Qed.

(* two leading hex digits in the encoder's output are two leading hex digits of its input *)
Lemma starts_two_hex_encode set r : starts_two_hex (pct_encode set r) = true -> starts_two_hex r = true.
Proof.
  destruct r as [|h [|l r']].
  - cbn. discriminate.
  - cbn [pct_encode flat_map app]. destruct (should_encode set h); cbn [app starts_two_hex]; try discriminate.
  - rewrite !pct_encode_cons. unfold enc1.
    destruct (should_encode set h).
    + cbn [app starts_two_hex]. rewrite is_hex_37. cbn. discriminate.
    + destruct (should_encode set l).
      * cbn [app starts_two_hex]. rewrite is_hex_37. rewrite andb_false_r. discriminate.
      * cbn [app starts_two_hex]. auto.
Qed.

Theorem pct_roundtrip set s :
  wf_bytes s = true -> (set_contains set 37 = true \/ no_triplet s = true) ->
  pct_decode (pct_encode set s) = s.
Proof.
  induction s as [|c r IH]; intros Hwf Hside; [reflexivity|].
  apply wf_bytes_cons in Hwf. destruct Hwf as [Hc Hr].
  assert (Hside' : set_contains set 37 = true \/ no_triplet r = true).
  { destruct Hside as [H|H]; [left; exact H|right].
    cbn [no_triplet] in H. apply andb_true_iff in H. apply H. }
  specialize (IH Hr Hside').
  rewrite pct_encode_cons. unfold enc1. destruct (should_encode set c) eqn:Es.
  - cbn [app]. rewrite (pct_decode_triplet c _ Hc). rewrite IH. reflexivity.
  - cbn [app]. destruct (N.eq_dec c 37) as [->|Hne].
    + (* a literal '%': only possible when the set lacks it, and then s has no %XX here *)
      unfold should_encode in Es. apply orb_false_iff in Es. destruct Es as [_ Es].
      destruct Hside as [H|H]; [congruence|].
      cbn [no_triplet] in H. apply andb_true_iff in H. destruct H as [H _].
      apply negb_true_iff in H. cbn [N.eqb Pos.eqb andb] in H.
      rewrite pct_decode_percent_literal; [rewrite IH; reflexivity|].
      destruct (starts_two_hex (pct_encode set r)) eqn:E; [|reflexivity].
      apply starts_two_hex_encode in E. congruence.
    + rewrite (pct_decode_literal c _ Hne). rewrite IH. reflexivity.
Qed.

Theorem percent_roundtrip set s :
  wf_bytes s = true -> valid_utf8 s = true ->
  (set_contains set 37 = true \/ no_triplet s = true) ->
  exists e, encode_percent set s = ROk e /\ decode_percent e = ROk s.
Proof.
  intros Hwf Hv Hside. exists (pct_encode set s). unfold encode_percent, decode_percent.
  rewrite (lossy_valid s Hv). split; [reflexivity|].
  rewrite (pct_roundtrip set s Hwf Hside). rewrite (lossy_valid s Hv). reflexivity.
Qed.

(* which sets escape '%' itself *)
Lemma sets_with_percent set :
  set_contains set 37 = true <-> (set = NON_ALPHANUMERIC \/ set = COMPONENT \/ set = WWW_FORM_URLENCODED).
Proof.
  split.
  - destruct set; vm_compute; intros H; try discriminate; auto.
  - intros [H|[H|H]]; subst set; reflexivity.
Qed.

(* for the six sets without '%', the literal statement fails: "%41" comes back as "A" *)
Theorem percent_unescaped_refuted :
  exists set s, wf_bytes s = true /\ valid_utf8 s = true /\ set_contains set 37 = false
                /\ encode_percent set s = ROk s /\ decode_percent s = ROk [65] /\ s <> [65].
Proof.
  exists CONTROLS, [37; 52; 49]. vm_compute. repeat split; congruence.
Qed.

Lemma percent_refuted_every_set_without_percent set :
  set_contains set 37 = false ->
  encode_percent set [37; 52; 49] = ROk [37; 52; 49] /\ decode_percent [37; 52; 49] = ROk [65].
Proof. destruct set; vm_compute; intros H; try discriminate; split; reflexivity. Qed.
