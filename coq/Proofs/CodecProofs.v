(* Proofs for Model/Base16.v and Model/Base64.v: the decoders invert the encoders on all byte strings. *)
From Coq Require Import List NArith Bool Lia PeanoNat.
From VRL Require Import Base.Bytes Model.Base16 Model.Base64.
Import ListNotations.
Local Open Scope N_scope.

(* ---------- finite sweeps lifted to quantified statements ---------- *)
Fixpoint Nrange (n : nat) : list N :=
  match n with O => [] | S k => Nrange k ++ [N.of_nat k] end.

Lemma forallb_Nrange (P : N -> bool) (n : nat) :
  forallb P (Nrange n) = true -> forall x, x < N.of_nat n -> P x = true.
Proof.
  induction n as [|k IH]; intros H x Hx.
  - lia.
  - cbn [Nrange] in H. rewrite forallb_app in H. apply andb_true_iff in H. destruct H as [H1 H2].
    cbn in H2. rewrite andb_true_r in H2.
    destruct (N.eq_dec x (N.of_nat k)) as [->|Hne]; [exact H2|].
    apply IH; [exact H1|lia].
Qed.

Lemma wf_bytes_cons x b : wf_bytes (x :: b) = true <-> x < 256 /\ wf_bytes b = true.
Proof. unfold wf_bytes. cbn [forallb]. rewrite andb_true_iff, N.ltb_lt. tauto. Qed.

Lemma div16_lt x : x < 256 -> x / 16 < 16.
Proof. intros H. apply N.div_lt_upper_bound; lia. Qed.

Lemma mod16_lt x : x mod 16 < 16.
Proof. apply N.mod_lt; lia. Qed.

Lemma div16_mod16 x : x / 16 * 16 + x mod 16 = x.
Proof. rewrite (N.div_mod x 16) at 3 by lia. lia. Qed.

(* ---------- base16 ---------- *)
Lemma unhex_hex_lower n : n < 16 -> unhex (hex_lower n) = Some n.
Proof.
  intros H.
  assert (E : (match unhex (hex_lower n) with Some m => N.eqb m n | None => false end) = true).
  { apply (forallb_Nrange (fun n => match unhex (hex_lower n) with Some m => N.eqb m n | None => false end) 16);
      [vm_compute; reflexivity | exact H]. }
  destruct (unhex (hex_lower n)) as [m|]; [|discriminate]. apply N.eqb_eq in E. congruence.
Qed.

Lemma unhex_hex_upper n : n < 16 -> unhex (hex_upper n) = Some n.
Proof.
  intros H.
  assert (E : (match unhex (hex_upper n) with Some m => N.eqb m n | None => false end) = true).
  { apply (forallb_Nrange (fun n => match unhex (hex_upper n) with Some m => N.eqb m n | None => false end) 16);
      [vm_compute; reflexivity | exact H]. }
  destruct (unhex (hex_upper n)) as [m|]; [|discriminate]. apply N.eqb_eq in E. congruence.
Qed.

Theorem b16_roundtrip b : wf_bytes b = true -> b16_decode (b16_encode b) = Some b.
Proof.
  induction b as [|x b IH]; intros Hwf; [reflexivity|].
  apply wf_bytes_cons in Hwf. destruct Hwf as [Hx Hb].
  unfold b16_encode. cbn [flat_map app]. fold (b16_encode b).
  cbn [b16_decode].
  rewrite (unhex_hex_lower (x / 16)) by (apply div16_lt; exact Hx).
  rewrite (unhex_hex_lower (x mod 16)) by apply mod16_lt.
  rewrite (IH Hb). rewrite div16_mod16. reflexivity.
Qed.

Theorem base16_roundtrip v : wf_bytes v = true ->
  exists e, encode_base16 v = ROk e /\ decode_base16 e = ROk v.
Proof.
  intros H. exists (b16_encode v). split; [reflexivity|].
  unfold decode_base16. rewrite (b16_roundtrip v H). reflexivity.
Qed.

(* ---------- base64 ---------- *)
Lemma b64_val_char url s : s < 64 -> b64_val url (b64_char url s) = Some s.
Proof.
  intros H.
  assert (E : (match b64_val url (b64_char url s) with Some m => N.eqb m s | None => false end) = true).
  { apply (forallb_Nrange (fun s => match b64_val url (b64_char url s) with Some m => N.eqb m s | None => false end) 64);
      [destruct url; vm_compute; reflexivity | exact H]. }
  destruct (b64_val url (b64_char url s)) as [m|]; [|discriminate]. apply N.eqb_eq in E. congruence.
Qed.

Lemma b64_char_not_eq url s : s < 64 -> b64_char url s <> 61.
Proof.
  intros H.
  assert (E : negb (b64_char url s =? 61) = true).
  { apply (forallb_Nrange (fun s => negb (b64_char url s =? 61)) 64);
      [destruct url; vm_compute; reflexivity | exact H]. }
  apply negb_true_iff, N.eqb_neq in E. exact E.
Qed.

(* sextet bounds for bytes *)
Lemma sx1 x : x < 256 -> x / 4 < 64.
Proof. intros; apply N.div_lt_upper_bound; lia. Qed.
Lemma sx2 x y : y < 256 -> (x mod 4) * 16 + y / 16 < 64.
Proof.
  intros Hy. assert (x mod 4 < 4) by (apply N.mod_lt; lia).
  assert (y / 16 < 16) by (apply N.div_lt_upper_bound; lia). lia.
Qed.
Lemma sx2' x : (x mod 4) * 16 < 64.
Proof. assert (x mod 4 < 4) by (apply N.mod_lt; lia). lia. Qed.
Lemma sx3 y z : z < 256 -> (y mod 16) * 4 + z / 64 < 64.
Proof.
  intros Hz. assert (y mod 16 < 16) by (apply N.mod_lt; lia).
  assert (z / 64 < 4) by (apply N.div_lt_upper_bound; lia). lia.
Qed.
Lemma sx3' y : (y mod 16) * 4 < 64.
Proof. assert (y mod 16 < 16) by (apply N.mod_lt; lia). lia. Qed.
Lemma sx4 z : z mod 64 < 64.
Proof. apply N.mod_lt; lia. Qed.

(* the three output bytes of a block are the three input bytes *)
Lemma blk1 x y : x < 256 -> y < 256 -> x / 4 * 4 + ((x mod 4) * 16 + y / 16) / 16 = x.
Proof.
  intros Hx Hy.
  assert (E : ((x mod 4) * 16 + y / 16) / 16 = x mod 4).
  { rewrite N.add_comm. rewrite N.div_add by lia.
    rewrite (N.div_small (y / 16) 16) by (apply N.div_lt_upper_bound; lia). lia. }
  rewrite E. rewrite (N.div_mod x 4) at 3 by lia. lia.
Qed.
Lemma blk1' x : x < 256 -> x / 4 * 4 + ((x mod 4) * 16) / 16 = x.
Proof.
  intros Hx. rewrite N.div_mul by lia. rewrite (N.div_mod x 4) at 3 by lia. lia.
Qed.
Lemma blk2 x y z : y < 256 -> z < 256 ->
  (((x mod 4) * 16 + y / 16) mod 16) * 16 + ((y mod 16) * 4 + z / 64) / 4 = y.
Proof.
  intros Hy Hz.
  assert (E1 : ((x mod 4) * 16 + y / 16) mod 16 = y / 16).
  { rewrite N.add_comm. rewrite N.mod_add by lia. apply N.mod_small. apply N.div_lt_upper_bound; lia. }
  assert (E2 : ((y mod 16) * 4 + z / 64) / 4 = y mod 16).
  { rewrite N.add_comm. rewrite N.div_add by lia.
    rewrite (N.div_small (z / 64) 4) by (apply N.div_lt_upper_bound; lia). lia. }
  rewrite E1, E2. rewrite (N.div_mod y 16) at 3 by lia. lia.
Qed.
Lemma blk2' x y : y < 256 ->
  (((x mod 4) * 16 + y / 16) mod 16) * 16 + ((y mod 16) * 4) / 4 = y.
Proof.
  intros Hy.
  assert (E1 : ((x mod 4) * 16 + y / 16) mod 16 = y / 16).
  { rewrite N.add_comm. rewrite N.mod_add by lia. apply N.mod_small. apply N.div_lt_upper_bound; lia. }
  rewrite E1. rewrite N.div_mul by lia. rewrite (N.div_mod y 16) at 3 by lia. lia.
Qed.
Lemma blk3 y z : z < 256 -> (((y mod 16) * 4 + z / 64) mod 4) * 64 + z mod 64 = z.
Proof.
  intros Hz.
  assert (E : ((y mod 16) * 4 + z / 64) mod 4 = z / 64).
  { rewrite N.add_comm. rewrite N.mod_add by lia. apply N.mod_small. apply N.div_lt_upper_bound; lia. }
  rewrite E. rewrite (N.div_mod z 64) at 3 by lia. lia.
Qed.
Lemma tail2_zero x : ((x mod 4) * 16) mod 16 = 0.
Proof. apply N.mod_mul; lia. Qed.
Lemma tail3_zero y : ((y mod 16) * 4) mod 4 = 0.
Proof. apply N.mod_mul; lia. Qed.

(* induction three bytes at a time *)
Lemma list_ind3 {A} (P : list A -> Prop) :
  P [] -> (forall x, P [x]) -> (forall x y, P [x; y]) ->
  (forall x y z r, P r -> P (x :: y :: z :: r)) -> forall l, P l.
Proof.
  intros H0 H1 H2 H3.
  assert (G : forall l, P l /\ (forall x, P (x :: l)) /\ (forall x y, P (x :: y :: l))).
  { induction l as [|a l [IH0 [IH1 IH2]]].
    - repeat split; auto.
    - repeat split; auto. }
  intros l; apply G.
Qed.

Theorem b64_nopad_roundtrip url b :
  wf_bytes b = true -> b64_decode_nopad url (b64_encode url false b) = Some b.
Proof.
  induction b as [|x|x y|x y z r IH] using list_ind3; intros Hwf.
  - reflexivity.
  - apply wf_bytes_cons in Hwf. destruct Hwf as [Hx _].
    cbn [b64_encode pad2 b64_decode_nopad].
    rewrite (b64_val_char url (x / 4)) by (apply sx1; exact Hx).
    rewrite (b64_val_char url ((x mod 4) * 16)) by apply sx2'.
    rewrite tail2_zero. cbn [N.eqb]. rewrite (blk1' x Hx). reflexivity.
  - apply wf_bytes_cons in Hwf. destruct Hwf as [Hx Hwf].
    apply wf_bytes_cons in Hwf. destruct Hwf as [Hy _].
    cbn [b64_encode pad1 b64_decode_nopad].
    rewrite (b64_val_char url (x / 4)) by (apply sx1; exact Hx).
    rewrite (b64_val_char url ((x mod 4) * 16 + y / 16)) by (apply sx2; exact Hy).
    rewrite (b64_val_char url ((y mod 16) * 4)) by apply sx3'.
    rewrite tail3_zero. cbn [N.eqb]. rewrite (blk1 x y Hx Hy), (blk2' x y Hy). reflexivity.
  - apply wf_bytes_cons in Hwf. destruct Hwf as [Hx Hwf].
    apply wf_bytes_cons in Hwf. destruct Hwf as [Hy Hwf].
    apply wf_bytes_cons in Hwf. destruct Hwf as [Hz Hr].
    cbn [b64_encode b64_decode_nopad].
    rewrite (b64_val_char url (x / 4)) by (apply sx1; exact Hx).
    rewrite (b64_val_char url ((x mod 4) * 16 + y / 16)) by (apply sx2; exact Hy).
    rewrite (b64_val_char url ((y mod 16) * 4 + z / 64)) by (apply sx3; exact Hz).
    rewrite (b64_val_char url (z mod 64)) by apply sx4.
    rewrite (IH Hr).
    rewrite (blk1 x y Hx Hy), (blk2 x y z Hy Hz), (blk3 y z Hz). reflexivity.
Qed.

(* ---------- padding: decode_base64 strips every trailing '=' ---------- *)
Lemma strip_eq_all_eq t : Forall (fun c => c = 61) t -> strip_eq t = [].
Proof.
  induction t as [|c t IH]; intros H; [reflexivity|].
  inversion H as [|? ? Hc Ht]; subst. cbn [strip_eq]. rewrite (IH Ht). reflexivity.
Qed.

Lemma strip_eq_app s t : Forall (fun c => c = 61) t -> strip_eq (s ++ t) = strip_eq s.
Proof.
  intros Ht. induction s as [|c s IH].
  - cbn [app strip_eq]. apply strip_eq_all_eq; exact Ht.
  - cbn [app strip_eq]. rewrite IH. reflexivity.
Qed.

Lemma strip_eq_noeq s : Forall (fun c => c <> 61) s -> strip_eq s = s.
Proof.
  induction s as [|c s IH]; intros H; [reflexivity|].
  inversion H as [|? ? Hc Hs]; subst. cbn [strip_eq]. rewrite (IH Hs).
  apply N.eqb_neq in Hc. rewrite Hc. reflexivity.
Qed.

Lemma b64_encode_no_eq url b :
  wf_bytes b = true -> Forall (fun c => c <> 61) (b64_encode url false b).
Proof.
  induction b as [|x|x y|x y z r IH] using list_ind3; intros Hwf.
  - constructor.
  - apply wf_bytes_cons in Hwf. destruct Hwf as [Hx _]. cbn [b64_encode pad2].
    repeat constructor; apply b64_char_not_eq; [apply sx1; exact Hx | apply sx2'].
  - apply wf_bytes_cons in Hwf. destruct Hwf as [Hx Hwf].
    apply wf_bytes_cons in Hwf. destruct Hwf as [Hy _]. cbn [b64_encode pad1].
    repeat constructor; apply b64_char_not_eq; [apply sx1; exact Hx | apply sx2; exact Hy | apply sx3'].
  - apply wf_bytes_cons in Hwf. destruct Hwf as [Hx Hwf].
    apply wf_bytes_cons in Hwf. destruct Hwf as [Hy Hwf].
    apply wf_bytes_cons in Hwf. destruct Hwf as [Hz Hr]. cbn [b64_encode].
    repeat (constructor; [apply b64_char_not_eq|]);
      [apply sx1; exact Hx | apply sx2; exact Hy | apply sx3; exact Hz | apply sx4 | exact (IH Hr)].
Qed.

Lemma b64_encode_pad url pad b :
  exists t, Forall (fun c => c = 61) t /\ b64_encode url pad b = b64_encode url false b ++ t.
Proof.
  induction b as [|x|x y|x y z r IH] using list_ind3.
  - exists []. split; [constructor|reflexivity].
  - exists (pad2 pad). split; [destruct pad; repeat constructor|]. cbn [b64_encode pad2 app]. reflexivity.
  - exists (pad1 pad). split; [destruct pad; repeat constructor|]. cbn [b64_encode pad1 app]. reflexivity.
  - destruct IH as [t [Ht E]]. exists t. split; [exact Ht|]. cbn [b64_encode app]. rewrite E. reflexivity.
Qed.

Lemma strip_eq_encode url pad b :
  wf_bytes b = true -> strip_eq (b64_encode url pad b) = b64_encode url false b.
Proof.
  intros Hwf. destruct (b64_encode_pad url pad b) as [t [Ht E]]. rewrite E.
  rewrite (strip_eq_app _ t Ht). apply strip_eq_noeq. apply b64_encode_no_eq; exact Hwf.
Qed.

Lemma b64_encode_head url pad x r : exists t, b64_encode url pad (x :: r) = b64_char url (x / 4) :: t.
Proof. destruct r as [|y [|z r']]; eexists; reflexivity. Qed.

Lemma strip_trailing_encode url pad b :
  wf_bytes b = true -> strip_trailing (b64_encode url pad b) = b64_encode url false b.
Proof.
  intros Hwf. unfold strip_trailing. destruct b as [|x r]; [reflexivity|].
  assert (Hx : x < 256) by (apply wf_bytes_cons in Hwf; apply Hwf).
  destruct (b64_encode_head url pad x r) as [t E].
  assert (Hne : all_eq (b64_encode url pad (x :: r)) = false).
  { rewrite E. unfold all_eq. cbn [forallb].
    assert (H := b64_char_not_eq url (x / 4) (sx1 x Hx)). apply N.eqb_neq in H. rewrite H. reflexivity. }
  rewrite Hne. apply strip_eq_encode; exact Hwf.
Qed.

Theorem b64_roundtrip url pad b :
  wf_bytes b = true -> b64_decode_nopad url (strip_trailing (b64_encode url pad b)) = Some b.
Proof.
  intros Hwf. rewrite (strip_trailing_encode url pad b Hwf). apply b64_nopad_roundtrip; exact Hwf.
Qed.

(* the VRL functions, for both charset names and both padding modes *)
Theorem base64_roundtrip pad charset v :
  wf_bytes v = true -> charset_of charset <> None ->
  exists e, encode_base64 pad charset v = ROk e /\ decode_base64 charset e = ROk v.
Proof.
  intros Hwf Hcs. unfold encode_base64, decode_base64.
  destruct (charset_of charset) as [url|]; [|congruence].
  exists (b64_encode url pad v). split; [reflexivity|].
  rewrite (b64_roundtrip url pad v Hwf). reflexivity.
Qed.

(* an unknown charset is an error in both directions, never a wrong answer *)
Lemma base64_unknown_charset pad charset v :
  charset_of charset = None -> encode_base64 pad charset v = RErr /\ decode_base64 charset v = RErr.
Proof. intros H. unfold encode_base64, decode_base64. rewrite H. split; reflexivity. Qed.

(* the encoder's output length, as a sanity statement about the model (RFC 4648 section 4) *)
Lemma b64_encode_length_padded url b :
  length (b64_encode url true b) = Nat.mul 4 (Nat.div (Nat.add (length b) 2) 3).
Proof.
  induction b as [|x|x y|x y z r IH] using list_ind3; try reflexivity.
  cbn [b64_encode length]. rewrite IH.
  replace (Nat.add (S (S (S (length r)))) 2) with (Nat.add (Nat.add (length r) 2) (Nat.mul 1 3)) by lia.
  rewrite Nat.div_add by lia. lia.
Qed.
