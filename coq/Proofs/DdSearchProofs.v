(* Proofs about Model/DdSearch.v (C30), part 1: escaping and the lexical level. *)
From Coq Require Import String List NArith ZArith Bool Lia.
From Coq Require Import Floats.SpecFloat.
From VRL Require Import Base.Bytes Base.Value Base.Lit Model.DdNode Model.DdSearch.
Import ListNotations.
Local Open Scope N_scope.

(* ---------- character classes ---------- *)

Ltac split_orb_false H :=
  repeat match type of H with
         | (_ || _) = false => let H' := fresh "Hc" in apply orb_false_iff in H as [H H']
         end.

Ltac rewrite_eqb_false :=
  repeat match goal with
         | H : (?c =? ?k) = false |- _ => rewrite ?H; clear H
         end.

Lemma not_special_not_invalid c : lucene_special c = false -> invalid_char c = false.
Proof.
  unfold lucene_special, invalid_char. intros H. split_orb_false H.
  rewrite_eqb_false. reflexivity.
Qed.

Lemma not_special_neq c k : lucene_special c = false -> lucene_special k = true -> (c =? k) = false.
Proof.
  intros H K. destruct (N.eqb_spec c k) as [->|]; [congruence | reflexivity].
Qed.

Lemma is_ws_cases c : is_ws c = true -> c = 32 \/ c = 13 \/ c = 10 \/ c = 9.
Proof. unfold is_ws. rewrite !orb_true_iff, !N.eqb_eq. tauto. Qed.

(* what may follow a term so that TERM_CHAR* stops there: whitespace, or one of the special characters
   other than - + = and the backslash *)
Definition stop_char (c : N) : bool := is_ws c || (invalid_char c && negb (is_pme c) && negb (c =? 92)).
Definition stops (rest : bytes) : bool := match rest with [] => true | c :: _ => stop_char c end.

Lemma stop_char_term_chars g c r :
  stop_char c = true -> (g = false \/ is_glob c = false) -> term_chars g (c :: r) = ([], c :: r).
Proof.
  intros H G. cbn [term_chars]. unfold stop_char in H. apply orb_true_iff in H as [H|H].
  - assert (c =? 92 = false) as ->.
    { apply is_ws_cases in H as [ -> | [ -> | [ -> | -> ] ] ]; reflexivity. }
    assert (is_pme c = false) as ->.
    { apply is_ws_cases in H as [ -> | [ -> | [ -> | -> ] ] ]; reflexivity. }
    assert (is_glob c = false) as Hg.
    { apply is_ws_cases in H as [ -> | [ -> | [ -> | -> ] ] ]; reflexivity. }
    unfold invalid_start. rewrite H, Hg. cbn. rewrite andb_false_r. reflexivity.
  - apply andb_true_iff in H as [H H3]. apply andb_true_iff in H as [H1 H2].
    apply negb_true_iff in H2, H3. rewrite H3, H2. unfold invalid_start. rewrite H1.
    rewrite !orb_true_r. cbn. destruct G as [ -> | -> ]; [reflexivity | rewrite andb_false_r; reflexivity].
Qed.

Lemma stops_term_chars rest : stops rest = true -> term_chars false rest = ([], rest).
Proof.
  destruct rest as [|c r]; [reflexivity|]. cbn [stops]. intros H. apply stop_char_term_chars; auto.
Qed.

(* ---------- starts_with ---------- *)

Lemma starts_with_app t rest p :
  starts_with (t ++ rest) p = true ->
  starts_with t p = true \/ exists c r, rest = c :: r /\ In c p.
Proof.
  revert t; induction p as [|p0 p IH]; intros t H; [left; reflexivity|].
  destruct t as [|x t].
  - cbn [app] in H. destruct rest as [|c r]; [discriminate|]. cbn in H.
    apply andb_true_iff in H as [H _]. apply N.eqb_eq in H. subst. right. exists p0, r. split; [reflexivity | left; reflexivity].
  - cbn in H. apply andb_true_iff in H as [H1 H2]. apply IH in H2 as [H2 | (c & r & -> & Hin)].
    + left. cbn. rewrite H1, H2. reflexivity.
    + right. exists c, r. split; [reflexivity | right; exact Hin].
Qed.

(* a literal made of characters that cannot follow a term does not straddle the end of the term *)
Lemma starts_with_app_false t rest p :
  starts_with t p = false -> stops rest = true -> forallb (fun c => negb (stop_char c)) p = true ->
  starts_with (t ++ rest) p = false.
Proof.
  intros H S P. destruct (starts_with (t ++ rest) p) eqn:E; [|reflexivity].
  apply starts_with_app in E as [E | (c & r & -> & Hin)]; [congruence|].
  rewrite forallb_forall in P. apply P in Hin. cbn in S. rewrite S in Hin. discriminate.
Qed.

(* a literal without characters that get escaped is found in the escaped text exactly where it is in
   the text itself *)
Lemma starts_with_escape s : forall rest p,
  forallb (fun c => negb (lucene_special c)) p = true ->
  starts_with (lucene_escape s ++ rest) p = starts_with (s ++ rest) p.
Proof.
  induction s as [|c s IH]; intros rest p P; [reflexivity|].
  destruct p as [|p0 p]; [reflexivity|].
  cbn [forallb] in P. apply andb_true_iff in P as [P0 P]. apply negb_true_iff in P0.
  cbn [lucene_escape]. destruct (lucene_special c) eqn:Sc.
  - cbn [app starts_with]. assert (92 =? p0 = false) as ->.
    { rewrite N.eqb_sym. apply not_special_neq; auto. }
    assert (c =? p0 = false) as ->.
    { destruct (N.eqb_spec c p0) as [->|]; [congruence | reflexivity]. }
    reflexivity.
  - cbn [app starts_with]. rewrite IH; auto.
Qed.

(* ---------- A. escaping is undone by unescape (no side condition) ---------- *)

Theorem unescape_lucene_escape s : unescape (lucene_escape s) = s.
Proof.
  unfold unescape. induction s as [|c s IH]; [reflexivity|].
  cbn [lucene_escape]. destruct (lucene_special c) eqn:Sc.
  - cbn. rewrite IH. reflexivity.
  - cbn [unescape_go]. rewrite (not_special_neq c 92 Sc eq_refl), IH. reflexivity.
Qed.

Theorem unescape_quoted_escape s : unescape (quoted_escape s) = s.
Proof.
  unfold unescape. induction s as [|c s IH]; [reflexivity|].
  cbn [quoted_escape]. destruct ((c =? 34) || (c =? 92)) eqn:E.
  - cbn. rewrite IH. reflexivity.
  - cbn [unescape_go]. apply orb_false_iff in E as [_ ->]. rewrite IH. reflexivity.
Qed.

(* text without characters that get escaped is printed as it is *)
Lemma lucene_escape_plain s : forallb (fun c => negb (lucene_special c)) s = true -> lucene_escape s = s.
Proof.
  induction s as [|c s IH]; [reflexivity|]. cbn. intros H. apply andb_true_iff in H as [H1 H2].
  apply negb_true_iff in H1. rewrite H1, IH; auto.
Qed.

Lemma unescape_plain s : forallb (fun c => negb (lucene_special c)) s = true -> unescape s = s.
Proof.
  intros H. rewrite <- (lucene_escape_plain s H) at 1. apply unescape_lucene_escape.
Qed.

(* ---------- B. quoted phrases are lexed back as one PHRASE (no side condition) ---------- *)

Theorem phrase_body_quoted s rest :
  phrase_body (quoted_escape s ++ 34 :: rest) = Some (quoted_escape s, rest).
Proof.
  induction s as [|c s IH]; [reflexivity|].
  cbn [quoted_escape]. destruct ((c =? 34) || (c =? 92)) eqn:E.
  - cbn. rewrite IH. reflexivity.
  - apply orb_false_iff in E as [E1 E2]. cbn [app phrase_body]. rewrite E2, E1, IH. reflexivity.
Qed.

Theorem lex_phrase_quoted s rest :
  lex_phrase (34 :: quoted_escape s ++ 34 :: rest) = Some (quoted_escape s, rest).
Proof. cbn. apply phrase_body_quoted. Qed.

(* ---------- C. escaped terms are lexed back as one TERM ---------- *)

Fixpoint uni_free (s : bytes) : bool :=
  match s with
  | [] => true
  | c :: r => negb (starts_with s UNICODE3000) && uni_free r
  end.

Definition no_ws (s : bytes) : bool := forallb (fun c => negb (is_ws c)) s.

(* the text does not begin with AND, OR, NOT, && or || *)
Definition kw_free (s : bytes) : bool :=
  negb (starts_with s (bs "AND") || starts_with s (bs "&&") || starts_with s (bs "OR")
        || starts_with s (bs "||") || starts_with s (bs "NOT")).

Definition nonempty (s : bytes) : bool := match s with [] => false | _ => true end.

(* the term values whose escaped text is read back as the same single TERM *)
Definition term_ok (s : bytes) : bool := nonempty s && no_ws s && uni_free s && kw_free s.

Lemma uni_not_stop : forallb (fun c => negb (stop_char c)) UNICODE3000 = true.
Proof. reflexivity. Qed.
Lemma uni_not_special : forallb (fun c => negb (lucene_special c)) UNICODE3000 = true.
Proof. reflexivity. Qed.

Lemma not_invalid_start_escaped c s rest :
  lucene_special c = false -> is_ws c = false -> uni_free (c :: s) = true -> stops rest = true ->
  invalid_start c (lucene_escape s ++ rest) = false.
Proof.
  intros Sc Wc U S. unfold invalid_start. rewrite Wc, (not_special_not_invalid c Sc).
  cbn [orb]. rewrite orb_false_r.
  change (c :: lucene_escape s ++ rest) with ((c :: lucene_escape s) ++ rest).
  replace (c :: lucene_escape s) with (lucene_escape (c :: s)) by (cbn; rewrite Sc; reflexivity).
  rewrite starts_with_escape by apply uni_not_special.
  cbn [uni_free] in U. apply andb_true_iff in U as [U _]. apply negb_true_iff in U.
  apply starts_with_app_false; auto using uni_not_stop.
Qed.

Lemma term_chars_escaped s : forall rest,
  no_ws s = true -> uni_free s = true -> stops rest = true ->
  term_chars false (lucene_escape s ++ rest) = (lucene_escape s, rest).
Proof.
  induction s as [|c s IH]; intros rest W U S.
  - apply stops_term_chars; exact S.
  - cbn [no_ws forallb] in W. apply andb_true_iff in W as [Wc W]. apply negb_true_iff in Wc.
    assert (uni_free s = true) as U'. { cbn [uni_free] in U. apply andb_true_iff in U as [_ U]. exact U. }
    cbn [lucene_escape]. destruct (lucene_special c) eqn:Sc.
    + cbn [app term_chars]. rewrite N.eqb_refl. rewrite (IH rest W U' S). reflexivity.
    + cbn [app term_chars]. rewrite (not_special_neq c 92 Sc eq_refl).
      rewrite (not_invalid_start_escaped c s rest Sc Wc U S). cbn [negb orb].
      rewrite (IH rest W U' S). reflexivity.
Qed.

Lemma kw_lit_facts :
  forall p, In p [bs "AND"; bs "&&"; bs "OR"; bs "||"; bs "NOT"] ->
            forallb (fun c => negb (lucene_special c)) p = true /\ forallb (fun c => negb (stop_char c)) p = true.
Proof. intros p [<-|[<-|[<-|[<-|[<-|[]]]]]]; split; reflexivity. Qed.

Lemma kw_lit_escaped s rest p :
  In p [bs "AND"; bs "&&"; bs "OR"; bs "||"; bs "NOT"] ->
  starts_with s p = false -> stops rest = true ->
  starts_with (lucene_escape s ++ rest) p = false.
Proof.
  intros Hp H S. destruct (kw_lit_facts p Hp) as [P1 P2].
  rewrite starts_with_escape by exact P1. apply starts_with_app_false; auto.
Qed.

Lemma kw_ahead_escaped s rest :
  nonempty s = true -> kw_free s = true -> stops rest = true ->
  kw_ahead (lucene_escape s ++ rest) = false.
Proof.
  intros N K S. unfold kw_free in K. apply negb_true_iff in K. split_orb_false K.
  unfold kw_ahead, kw_and_or, kw_not.
  rewrite (kw_lit_escaped s rest (bs "AND")), (kw_lit_escaped s rest (bs "&&")),
    (kw_lit_escaped s rest (bs "OR")), (kw_lit_escaped s rest (bs "||")),
    (kw_lit_escaped s rest (bs "NOT")); auto; try (cbn; tauto).
  cbn [orb]. destruct s as [|c s]; [discriminate|]. cbn [lucene_escape].
  destruct (lucene_special c) eqn:Sc; cbn; [reflexivity|].
  rewrite (not_special_neq c 45 Sc eq_refl). reflexivity.
Qed.

Lemma term_start_escaped g c s rest :
  is_ws c = false -> uni_free (c :: s) = true -> stops rest = true ->
  term_start_char g (lucene_escape (c :: s) ++ rest) =
  Some (if lucene_special c then [92; c] else [c], lucene_escape s ++ rest).
Proof.
  intros Wc U S. cbn [lucene_escape]. destruct (lucene_special c) eqn:Sc.
  - reflexivity.
  - cbn [app term_start_char]. rewrite (not_special_neq c 92 Sc eq_refl).
    rewrite (not_invalid_start_escaped c s rest Sc Wc U S). reflexivity.
Qed.

Lemma escape_cons c s :
  lucene_escape (c :: s) = (if lucene_special c then [92; c] else [c]) ++ lucene_escape s.
Proof. cbn. destruct (lucene_special c); reflexivity. Qed.

(* the lexical lemma: the escaped text of a term value is consumed as exactly one TERM *)
Theorem lex_term_escaped s rest :
  term_ok s = true -> stops rest = true ->
  lex_term (lucene_escape s ++ rest) = Some (lucene_escape s, rest).
Proof.
  unfold term_ok. intros H S. apply andb_true_iff in H as [H K]. apply andb_true_iff in H as [H U].
  apply andb_true_iff in H as [N W].
  unfold lex_term. rewrite (kw_ahead_escaped s rest N K S).
  destruct s as [|c s]; [discriminate|].
  cbn [no_ws forallb] in W. apply andb_true_iff in W as [Wc W]. apply negb_true_iff in Wc.
  rewrite (term_start_escaped false c s rest Wc U S).
  assert (uni_free s = true) as U'. { cbn [uni_free] in U. apply andb_true_iff in U as [_ U]. exact U. }
  rewrite (term_chars_escaped s rest W U' S). rewrite escape_cons. reflexivity.
Qed.

Lemma stops_star rest : stops (42 :: rest) = true.
Proof. reflexivity. Qed.

Lemma term_end_stops rest : term_end rest = true -> stops rest = true.
Proof.
  destruct rest as [|c r]; [reflexivity|]. cbn [term_end stops]. unfold stop_char. intros H.
  apply orb_true_iff in H as [H|H]; [|apply N.eqb_eq in H; subst; reflexivity].
  apply orb_true_iff in H as [H|H]; [|apply N.eqb_eq in H; subst; reflexivity].
  apply orb_true_iff in H as [H|H]; [rewrite H; reflexivity | apply N.eqb_eq in H; subst; reflexivity].
Qed.

(* ...and an escaped prefix followed by the star as one TERM_PREFIX *)
Theorem lex_term_prefix_escaped s rest :
  nonempty s = true -> no_ws s = true -> uni_free s = true -> term_end rest = true ->
  lex_term_prefix (lucene_escape s ++ 42 :: rest) = Some (lucene_escape s, rest).
Proof.
  intros N W U E. unfold lex_term_prefix. destruct s as [|c s]; [discriminate|].
  cbn [no_ws forallb] in W. apply andb_true_iff in W as [Wc W]. apply negb_true_iff in Wc.
  rewrite (term_start_escaped false c s (42 :: rest) Wc U (stops_star rest)).
  assert (uni_free s = true) as U'. { cbn [uni_free] in U. apply andb_true_iff in U as [_ U]. exact U. }
  rewrite (term_chars_escaped s (42 :: rest) W U' (stops_star rest)).
  rewrite N.eqb_refl, E. cbn [andb]. rewrite escape_cons. reflexivity.
Qed.
