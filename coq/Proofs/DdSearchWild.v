(* Proofs about Model/DdSearch.v (C30), part 3b: wildcards, which are printed raw. *)
From Coq Require Import String List NArith ZArith Bool Lia.
From Coq Require Import Floats.SpecFloat.
From VRL Require Import Base.Bytes Base.Value Base.Lit Model.DdNode Model.DdSearch
  Proofs.DdSearchProofs Proofs.DdSearchNum Proofs.DdSearchRT.
Import ListNotations.
Local Open Scope N_scope.

(* the characters TERM_CHAR* (g = false) / TERM_CHAR_GLOB* (g = true) consumes, the backslash apart *)
Definition tchar (g : bool) (c : N) : bool :=
  negb (is_ws c) && negb (c =? 92) && (negb (invalid_char c) || is_pme c || (g && is_glob c)).

Lemma starts_with_mono s more p : starts_with s p = true -> starts_with (s ++ more) p = true.
Proof.
  revert s; induction p as [|c p IH]; intros s H; [reflexivity|].
  destruct s as [|x s]; [discriminate|]. cbn in *. apply andb_true_iff in H as [H1 H2]. rewrite H1, IH; auto.
Qed.

Lemma uni_free_prefix a b : uni_free (a ++ b) = true -> uni_free a = true.
Proof.
  induction a as [|c a IH]; [reflexivity|]. cbn [app uni_free]. intros H. apply andb_true_iff in H as [H1 H2].
  rewrite IH by exact H2. rewrite andb_true_r. apply negb_true_iff in H1. apply negb_true_iff.
  destruct (starts_with (c :: a) UNICODE3000) eqn:E; [|reflexivity].
  change (c :: a ++ b) with ((c :: a) ++ b) in H1. rewrite (starts_with_mono _ b _ E) in H1. discriminate.
Qed.

Lemma uni_free_suffix a b : uni_free (a ++ b) = true -> uni_free b = true.
Proof.
  induction a as [|c a IH]; [auto|]. cbn [app uni_free]. intros H. apply andb_true_iff in H as [_ H]. auto.
Qed.

Lemma term_chars_raw g t : forall rest,
  forallb (tchar g) t = true -> uni_free t = true -> stops rest = true ->
  (g = true -> match rest with c :: _ => is_glob c = false | [] => True end) ->
  term_chars g (t ++ rest) = (t, rest).
Proof.
  induction t as [|c t IH]; intros rest T U S G.
  - destruct rest as [|c r]; [reflexivity|]. cbn [app]. apply stop_char_term_chars; [exact S|].
    destruct g; [right; apply G; reflexivity | left; reflexivity].
  - cbn [forallb] in T. apply andb_true_iff in T as [Tc T]. unfold tchar in Tc.
    apply andb_true_iff in Tc as [Tc T3]. apply andb_true_iff in Tc as [T1 T2].
    apply negb_true_iff in T1, T2. cbn [app term_chars]. rewrite T2.
    assert (uni_free t = true) as U' by (cbn [uni_free] in U; apply andb_true_iff in U as [_ U]; exact U).
    assert (starts_with (c :: t ++ rest) UNICODE3000 = false) as SU.
    { cbn [uni_free] in U. apply andb_true_iff in U as [U _]. apply negb_true_iff in U.
      change (c :: t ++ rest) with ((c :: t) ++ rest). apply starts_with_app_false; auto using uni_not_stop. }
    unfold invalid_start. rewrite T1, SU. cbn [orb].
    assert (negb (invalid_char c) || is_pme c || g && is_glob c = true) as -> by exact T3.
    rewrite (IH rest T U' S G). reflexivity.
Qed.

Lemma glob_stop c : is_glob c = true -> stop_char c = true.
Proof. unfold is_glob. intros H. apply orb_true_iff in H as [H|H]; apply N.eqb_eq in H; subst; reflexivity. Qed.

Lemma tchar_weaken c : tchar false c = true -> tchar true c = true.
Proof.
  unfold tchar. intros H. apply andb_true_iff in H as [H1 H2]. rewrite H1. cbn [andb].
  rewrite andb_false_l, orb_false_r in H2. rewrite H2. reflexivity.
Qed.

Lemma tchar_facts g c : tchar g c = true ->
  is_ws c = false /\ (c =? 92) = false /\ (c =? 34) = false /\ (c =? 62) = false /\ (c =? 60) = false /\
  (c =? 91) = false /\ (c =? 123) = false /\ (c =? 41) = false /\ (c =? 93) = false /\ (c =? 125) = false /\
  (c =? 58) = false /\ (c =? 40) = false.
Proof.
  unfold tchar. intros H. apply andb_true_iff in H as [H H3]. apply andb_true_iff in H as [H1 H2].
  apply negb_true_iff in H1, H2. split; [exact H1|]. split; [exact H2|].
  assert (forall k, invalid_char k = true -> is_pme k = false -> is_glob k = false -> (c =? k) = false) as K.
  { intros k I P Gk. destruct (N.eqb_spec c k) as [->|]; [|reflexivity].
    rewrite I, P, Gk in H3. destruct g; discriminate. }
  repeat split; apply K; reflexivity.
Qed.

Lemma unescape_go_no_bs s : forallb (fun c => negb (c =? 92)) s = true -> unescape_go false s = s.
Proof.
  induction s as [|c s IH]; [reflexivity|]. cbn [forallb unescape_go]. intros H. apply andb_true_iff in H as [Hc H].
  apply negb_true_iff in Hc. rewrite Hc, IH; auto.
Qed.

Lemma tchar_no_bs g t : forallb (tchar g) t = true -> forallb (fun c => negb (c =? 92)) t = true.
Proof.
  intros H. rewrite forallb_forall in *. intros c Hc. destruct (tchar_facts g c (H c Hc)) as (_ & B & _).
  rewrite B. reflexivity.
Qed.

Lemma term_end_facts rest : term_end rest = true ->
  stops rest = true /\ match rest with c :: _ => is_glob c = false | [] => True end.
Proof.
  intros E. split; [apply term_end_stops; exact E|]. destruct rest as [|c r]; [exact I|]. cbn [term_end] in E.
  apply orb_true_iff in E as [E|E]; [|apply N.eqb_eq in E; subst; reflexivity].
  apply orb_true_iff in E as [E|E]; [|apply N.eqb_eq in E; subst; reflexivity].
  apply orb_true_iff in E as [E|E]; [|apply N.eqb_eq in E; subst; reflexivity].
  apply is_ws_cases in E as [ -> | [ -> | [ -> | -> ] ] ]; reflexivity.
Qed.

Lemma term_end_tchar g c r : tchar g c = true -> term_end (c :: r) = false.
Proof.
  intros H. destruct (tchar_facts g c H) as (W & _ & _ & _ & _ & _ & _ & P & B & C & _). cbn [term_end].
  rewrite W, P, B, C. reflexivity.
Qed.

(* a wildcard text: X (no wildcard character, maybe empty), the first wildcard character g0, the rest Y;
   not `X*` (a prefix) and not `*` alone *)
Definition wild_parts (X : bytes) (g0 : N) (Y : bytes) : Prop :=
  forallb (tchar false) X = true /\
  (match X with c :: _ => is_pme c = false | [] => True end) /\
  is_glob g0 = true /\
  forallb (tchar true) Y = true /\
  uni_free (X ++ g0 :: Y) = true /\
  kw_free (X ++ g0 :: Y) = true /\
  (g0 =? 42) && (match Y with [] => true | _ => false end) = false.

Lemma glob_tchar g0 : is_glob g0 = true -> tchar true g0 = true /\ invalid_char g0 = true /\ is_pme g0 = false /\
  term_end [g0] = false.
Proof. intros H. apply orb_true_iff in H as [E|E]; apply N.eqb_eq in E; rewrite E; repeat split; reflexivity. Qed.

Lemma wild_tchars X g0 Y : wild_parts X g0 Y -> forallb (tchar true) (X ++ g0 :: Y) = true.
Proof.
  intros (HX & _ & Hg & HY & _). rewrite forallb_app. cbn [forallb]. rewrite HY, andb_true_r.
  destruct (glob_tchar g0 Hg) as (-> & _). rewrite andb_true_r.
  rewrite forallb_forall in HX |- *. intros c Hc. apply tchar_weaken; auto.
Qed.

Lemma wild_head X g0 Y : wild_parts X g0 Y ->
  exists c r, X ++ g0 :: Y = c :: r /\ tchar true c = true /\ is_pme c = false.
Proof.
  intros W. pose proof (wild_tchars X g0 Y W) as T. destruct W as (HX & Hhead & Hg & HY & _).
  destruct X as [|c x].
  - exists g0, Y. cbn [app] in T |- *. cbn [forallb] in T. apply andb_true_iff in T as [T _].
    destruct (glob_tchar g0 Hg) as (_ & _ & P & _). auto.
  - exists c, (x ++ g0 :: Y). cbn [app forallb] in T |- *. apply andb_true_iff in T as [T _]. auto.
Qed.

Lemma g0_tail_not_end g0 Y rest :
  forallb (tchar true) Y = true -> (g0 =? 42) && (match Y with [] => true | _ => false end) = false ->
  (g0 =? 42) && term_end (Y ++ rest) = false.
Proof.
  intros HY Hshape. destruct Y as [|y ys].
  - rewrite andb_true_r in Hshape. rewrite Hshape. reflexivity.
  - cbn [app forallb] in *. apply andb_true_iff in HY as [Hy _]. rewrite (term_end_tchar true y _ Hy).
    apply andb_false_r.
Qed.

Lemma wild_kw_ahead X g0 Y rest : wild_parts X g0 Y -> stops rest = true -> kw_ahead ((X ++ g0 :: Y) ++ rest) = false.
Proof.
  intros W S. destruct (wild_head X g0 Y W) as (c & r & E & T & P). destruct W as (_ & _ & _ & _ & _ & HK & _).
  unfold kw_free in HK. apply negb_true_iff in HK. split_orb_false HK.
  unfold kw_ahead, kw_and_or, kw_not. rewrite !starts_with_app_false; auto.
  rewrite E. cbn [app orb]. change (bs "-") with [45]. cbn [starts_with].
  unfold is_pme in P. apply orb_false_iff in P as [P _]. apply orb_false_iff in P as [P _].
  rewrite P. reflexivity.
Qed.

(* TERM_CHAR* stops at the first wildcard character *)
Lemma wild_term_chars_false X' g0 Y rest :
  is_glob g0 = true -> forallb (tchar false) X' = true -> uni_free (X' ++ g0 :: Y) = true ->
  term_chars false (X' ++ g0 :: Y ++ rest) = (X', g0 :: Y ++ rest).
Proof.
  intros Hg T U. apply term_chars_raw; auto.
  - apply (uni_free_prefix X' (g0 :: Y)); exact U.
  - cbn [stops]. apply glob_stop; exact Hg.
  - discriminate.
Qed.

(* the start of a wildcard text that begins with an ordinary character *)
Lemma wild_start_plain x xs g0 Y rest :
  tchar false x = true -> is_pme x = false -> uni_free (x :: xs ++ g0 :: Y) = true -> stops rest = true ->
  invalid_start x (xs ++ g0 :: Y ++ rest) = false.
Proof.
  intros Hx Pc HU S. destruct (tchar_facts false x Hx) as (W & _). unfold invalid_start. rewrite W.
  assert (starts_with (x :: xs ++ g0 :: Y ++ rest) UNICODE3000 = false) as ->.
  { cbn [uni_free] in HU. apply andb_true_iff in HU as [U _]. apply negb_true_iff in U.
    replace (x :: xs ++ g0 :: Y ++ rest) with ((x :: xs ++ g0 :: Y) ++ rest)
      by (cbn [app]; rewrite <- app_assoc; reflexivity).
    apply starts_with_app_false; auto using uni_not_stop. }
  unfold tchar in Hx. apply andb_true_iff in Hx as [_ Hx]. rewrite andb_false_l, orb_false_r in Hx.
  rewrite Pc, orb_false_r in Hx. apply negb_true_iff in Hx. rewrite Hx. reflexivity.
Qed.

Theorem parse_value_wild X g0 Y rest :
  wild_parts X g0 Y -> term_end rest = true ->
  parse_value ((X ++ g0 :: Y) ++ rest) = Some (PVGlob (X ++ g0 :: Y), rest).
Proof.
  intros Wp E. destruct (term_end_facts rest E) as [S G].
  pose proof (wild_tchars X g0 Y Wp) as T. destruct (wild_head X g0 Y Wp) as (c & r & Ev & Tc & Pc).
  pose proof (wild_kw_ahead X g0 Y rest Wp S) as KA.
  destruct Wp as (HX & Hhead & Hg & HY & HU & HK & Hshape).
  destruct (glob_tchar g0 Hg) as (_ & Ig & Pg & Eg).
  destruct (tchar_facts true c Tc) as (W & B & Q & Gt & Lt & Sq & Br & _).
  pose proof (g0_tail_not_end g0 Y rest HY Hshape) as NE.
  rewrite parse_value_eq.
  (* 1. `*` alone *)
  assert (alt_star ((X ++ g0 :: Y) ++ rest) = None) as ->.
  { destruct X as [|x xs].
    - cbn [app] in *. cbn [alt_star]. rewrite NE. reflexivity.
    - cbn [app] in *. cbn [alt_star].
      cbn [forallb] in HX. apply andb_true_iff in HX as [Hx _]. unfold tchar in Hx.
      apply andb_true_iff in Hx as [_ Hx]. rewrite andb_false_l, orb_false_r in Hx.
      destruct (N.eqb_spec x 42) as [->|]; [discriminate | reflexivity]. }
  (* 2. phrase *)
  assert (lex_phrase ((X ++ g0 :: Y) ++ rest) = None) as -> by (rewrite Ev; cbn; rewrite Q; reflexivity).
  (* 3. prefix *)
  assert (lex_term_prefix ((X ++ g0 :: Y) ++ rest) = None) as ->.
  { unfold lex_term_prefix. destruct X as [|x xs].
    - cbn [app] in *. inversion Ev; subst c r. cbn [term_start_char]. rewrite B.
      unfold invalid_start. rewrite Ig, !orb_true_r. reflexivity.
    - cbn [app] in *. inversion Ev; subst c r. cbn [term_start_char]. rewrite B.
      cbn [forallb] in HX. apply andb_true_iff in HX as [Hx Hxs].
      rewrite <- app_assoc. cbn [app].
      rewrite (wild_start_plain x xs g0 Y rest Hx Pc HU S). cbn [negb].
      rewrite (wild_term_chars_false xs g0 Y rest Hg Hxs).
      2:{ cbn [uni_free] in HU. apply andb_true_iff in HU as [_ U]. exact U. }
      rewrite NE. reflexivity. }
  (* 4. comparison, 5. range *)
  assert (parse_comparison ((X ++ g0 :: Y) ++ rest) = None) as ->.
  { unfold parse_comparison, lex_operator. rewrite Ev. cbn [app].
    change (bs ">=") with [62; 61]. change (bs "<=") with [60; 61]. change (bs ">") with [62]. change (bs "<") with [60].
    rewrite !strip_prefix_head_neq; auto. }
  assert (parse_range ((X ++ g0 :: Y) ++ rest) = None) as -> by (rewrite Ev; cbn; rewrite Sq, Br; reflexivity).
  (* 6. TERM followed by the end *)
  assert (alt_term ((X ++ g0 :: Y) ++ rest) = None) as ->.
  { unfold alt_term, lex_term. rewrite KA. destruct X as [|x xs].
    - cbn [app] in *. inversion Ev; subst c r. cbn [term_start_char]. rewrite B.
      unfold invalid_start. rewrite Ig, !orb_true_r. reflexivity.
    - cbn [app] in *. inversion Ev; subst c r. cbn [term_start_char]. rewrite B.
      cbn [forallb] in HX. apply andb_true_iff in HX as [Hx Hxs].
      rewrite <- app_assoc. cbn [app].
      rewrite (wild_start_plain x xs g0 Y rest Hx Pc HU S). cbn [negb].
      rewrite (wild_term_chars_false xs g0 Y rest Hg Hxs).
      2:{ cbn [uni_free] in HU. apply andb_true_iff in HU as [_ U]. exact U. }
      assert (term_end (g0 :: Y ++ rest) = false) as ->; [|reflexivity].
      apply orb_true_iff in Hg as [H|H]; apply N.eqb_eq in H; rewrite H; reflexivity. }
  (* 7. TERM_GLOB *)
  assert (term_start_char true (c :: r ++ rest) = Some ([c], r ++ rest)) as Hstart.
  { cbn [term_start_char]. rewrite B.
    destruct (negb (invalid_start c (r ++ rest))) eqn:I; [reflexivity|].
    apply negb_false_iff in I. unfold invalid_start in I. rewrite W in I.
    assert (starts_with (c :: r ++ rest) UNICODE3000 = false) as SU.
    { rewrite Ev in HU. cbn [uni_free] in HU. apply andb_true_iff in HU as [U _]. apply negb_true_iff in U.
      change (c :: r ++ rest) with ((c :: r) ++ rest). apply starts_with_app_false; auto using uni_not_stop. }
    rewrite SU in I. cbn [orb] in I. unfold tchar in Tc. apply andb_true_iff in Tc as [_ Tc].
    rewrite I, Pc in Tc. cbn in Tc. rewrite Tc. reflexivity. }
  unfold lex_term_glob. rewrite Ev. cbn [app]. rewrite Hstart.
  rewrite Ev in T. cbn [forallb] in T. apply andb_true_iff in T as [_ Tr].
  rewrite (term_chars_raw true r rest Tr).
  - rewrite E. reflexivity.
  - rewrite Ev in HU. cbn [uni_free] in HU. apply andb_true_iff in HU as [_ U]. exact U.
  - exact S.
  - intros _. exact G.
Qed.

Lemma wild_unescape X g0 Y : wild_parts X g0 Y -> unescape (X ++ g0 :: Y) = X ++ g0 :: Y.
Proof. intros W. apply unescape_go_no_bs. apply (tchar_no_bs true). apply wild_tchars; exact W. Qed.

(* ---------- the decidable form, and the clause ---------- *)

Fixpoint split_glob (v : bytes) : bytes * bytes :=
  match v with
  | [] => ([], [])
  | c :: r => if is_glob c then ([], v) else let '(a, b) := split_glob r in (c :: a, b)
  end.

Lemma split_glob_app v : forall X r, split_glob v = (X, r) -> v = X ++ r.
Proof.
  induction v as [|c v IH]; intros X r H; cbn in H.
  - inversion H; reflexivity.
  - destruct (is_glob c); [inversion H; reflexivity|]. destruct (split_glob v) as [a b].
    inversion H; subst. cbn. rewrite (IH a r eq_refl). reflexivity.
Qed.

Lemma split_glob_head v X c r : split_glob v = (X, c :: r) -> is_glob c = true.
Proof.
  revert X; induction v as [|d v IH]; intros X H; cbn in H; [discriminate|].
  destruct (is_glob d) eqn:G; [inversion H; subst; exact G|]. destruct (split_glob v) as [a b].
  inversion H; subst. eapply IH; reflexivity.
Qed.

(* the wildcards that are printed and read back as the same wildcard on attribute a:
   `*` alone on an explicit attribute, or ordinary / wildcard characters only (no blank, no backslash, none of
   the other special characters), at least one wildcard character, not of the form `text*` (that is a prefix),
   no keyword at the start, no UNICODE3000; without a field moreover: when it starts with ordinary characters
   its first wildcard character is `*` (else the multiterm rule takes the start as a term) *)
Definition wild_ok (a v : bytes) : bool :=
  (bytes_eqb v [42] && negb (bytes_eqb a DEFAULT_FIELD))
  || (let '(X, r) := split_glob v in
      match r with
      | [] => false
      | g0 :: Y =>
          forallb (tchar false) X && (match X with c :: _ => negb (is_pme c) | [] => true end)
          && forallb (tchar true) Y && uni_free v && kw_free v
          && negb ((g0 =? 42) && (match Y with [] => true | _ => false end))
          && (negb (bytes_eqb a DEFAULT_FIELD) || (match X with [] => true | _ => g0 =? 42 end))
      end).

Lemma wild_ok_cases a v :
  wild_ok a v = true ->
  (v = [42] /\ bytes_eqb a DEFAULT_FIELD = false) \/
  (exists X g0 Y, v = X ++ g0 :: Y /\ wild_parts X g0 Y /\
                  (bytes_eqb a DEFAULT_FIELD = true -> match X with [] => True | _ => g0 = 42 end)).
Proof.
  unfold wild_ok. intros H. apply orb_true_iff in H as [H|H].
  - left. apply andb_true_iff in H as [H1 H2]. apply bytes_eqb_eq in H1. apply negb_true_iff in H2. auto.
  - right. destruct (split_glob v) as [X r] eqn:E. destruct r as [|g0 Y]; [discriminate|].
    pose proof (split_glob_app v X _ E) as Ev. pose proof (split_glob_head v X g0 Y E) as Hg.
    apply andb_true_iff in H as [H D]. apply andb_true_iff in H as [H S]. apply andb_true_iff in H as [H K].
    apply andb_true_iff in H as [H U]. apply andb_true_iff in H as [H HY]. apply andb_true_iff in H as [HX Hh].
    exists X, g0, Y. split; [exact Ev|]. split.
    + rewrite Ev in U, K. apply negb_true_iff in S. repeat split; auto.
      destruct X as [|c x]; [exact I|]. apply negb_true_iff in Hh. exact Hh.
    + intros Da. rewrite Da in D. cbn [negb orb] in D. destruct X; [exact I|]. apply N.eqb_eq in D. exact D.
Qed.

Lemma strip_prefix_none_like p s : starts_with s p = false -> strip_prefix p s = None.
Proof.
  revert s; induction p as [|c p IH]; intros s; cbn; [discriminate|].
  destruct s as [|x s]; [reflexivity|]. destruct (x =? c); cbn; [apply IH | reflexivity].
Qed.

Section WildClause.
  Variable sub : bytes -> bytes -> option (list qitem * bytes).
  Variable fdisp : spec_float -> bytes.

  Theorem clause_wild a v rest :
    attr_ok a = true -> wild_ok a v = true -> term_end rest = true ->
    parse_clause sub DEFAULT_FIELD (to_lucene fdisp (NWild a v) ++ rest) = Some (VOk (NWild a v), rest).
  Proof.
    intros A Wk E. cbn [to_lucene]. rewrite <- app_assoc.
    destruct (wild_ok_cases a v Wk) as [[-> D] | (X & g0 & Y & -> & Wp & Dx)].
    - (* attr:* *)
      rewrite (clause_leaf sub a [42] PVStar rest 42 [] (attr_ok_raw a A) eq_refl eq_refl).
      + rewrite clause_node_general by exact A. rewrite D, attr_unescape by exact A. reflexivity.
      + rewrite parse_value_eq. cbn [app alt_star]. rewrite E. reflexivity.
      + intros D'. congruence.
    - destruct (wild_head X g0 Y Wp) as (c & r & Ev & Tc & Pc).
      destruct (tchar_facts true c Tc) as (W & B & _ & _ & _ & _ & _ & _ & _ & _ & Col & _).
      rewrite (clause_leaf sub a (X ++ g0 :: Y) (PVGlob (X ++ g0 :: Y)) rest c r (attr_ok_raw a A) Ev W
                 (parse_value_wild X g0 Y rest Wp E)).
      + rewrite clause_node_general by exact A. rewrite attr_unescape by exact A.
        rewrite (wild_unescape X g0 Y Wp). reflexivity.
      + intros D. specialize (Dx D). pose proof (term_end_facts rest E) as [S _].
        pose proof (wild_kw_ahead X g0 Y rest Wp S) as KA.
        destruct Wp as (HX & Hhead & Hg & HY & HU & HK & Hshape).
        destruct (glob_tchar g0 Hg) as (_ & Ig & Pg & Eg). split.
        * (* not the match-all token *)
          change (bs "*:*") with [42; 58; 42]. destruct X as [|x xs].
          -- cbn [app]. destruct Y as [|y ys].
             ++ rewrite andb_true_r in Hshape. cbn [strip_prefix]. rewrite Hshape. reflexivity.
             ++ cbn [forallb] in HY. apply andb_true_iff in HY as [Hy _].
                destruct (tchar_facts true y Hy) as (_ & _ & _ & _ & _ & _ & _ & _ & _ & _ & Cy & _).
                cbn [app strip_prefix]. rewrite Cy. destruct (g0 =? 42); reflexivity.
          -- cbn [app]. apply strip_prefix_head_neq. cbn [forallb] in HX. apply andb_true_iff in HX as [Hx _].
             unfold tchar in Hx. apply andb_true_iff in Hx as [_ Hx]. rewrite andb_false_l, orb_false_r in Hx.
             destruct (N.eqb_spec x 42) as [->|]; [discriminate | reflexivity].
        * apply field_none_of_lex. unfold lex_term. rewrite KA. destruct X as [|x xs].
          -- left. cbn [app]. cbn [app] in Ev. inversion Ev; subst c r. cbn [term_start_char]. rewrite B.
             unfold invalid_start. rewrite Ig, !orb_true_r. reflexivity.
          -- right. cbn [app] in Ev |- *. inversion Ev; subst c r. cbn [term_start_char]. rewrite B.
             cbn [forallb] in HX. apply andb_true_iff in HX as [Hx Hxs].
             rewrite <- app_assoc. cbn [app].
             rewrite (wild_start_plain x xs g0 Y rest Hx Pc HU S). cbn [negb].
             rewrite (wild_term_chars_false xs g0 Y rest Hg Hxs).
             2:{ cbn [uni_free] in HU. apply andb_true_iff in HU as [_ U]. exact U. }
             eexists _, _. split; [reflexivity|]. cbn.
             apply orb_true_iff in Hg as [H|H]; apply N.eqb_eq in H; rewrite H; reflexivity.
  Qed.

  (* the start of a printed wildcard leaf *)
  Lemma wild_start a v rest :
    attr_ok a = true -> wild_ok a v = true -> bytes_eqb a DEFAULT_FIELD = true -> term_end rest = true ->
    skip (v ++ rest) = v ++ rest /\ parse_modifiers (v ++ rest) = None /\ multiterm_lookahead (v ++ rest) = false.
  Proof.
    intros A Wk D E. destruct (wild_ok_cases a v Wk) as [[_ D'] | (X & g0 & Y & -> & Wp & Dx)]; [congruence|].
    specialize (Dx D). destruct (wild_head X g0 Y Wp) as (c & r & Ev & Tc & Pc).
    destruct (tchar_facts true c Tc) as (W & B & _).
    pose proof (term_end_facts rest E) as [S _]. pose proof (wild_kw_ahead X g0 Y rest Wp S) as KA.
    destruct Wp as (HX & Hhead & Hg & HY & HU & HK & Hshape). destruct (glob_tchar g0 Hg) as (_ & Ig & Pg & Eg).
    split; [rewrite Ev; apply skip_head; exact W|]. split.
    - unfold parse_modifiers. change (bs "+") with [43]. change (bs "-") with [45].
      unfold is_pme in Pc. apply orb_false_iff in Pc as [Pc _]. apply orb_false_iff in Pc as [P45 P43].
      rewrite Ev. cbn [app]. rewrite (strip_prefix_head_neq 43 [] c _ P43), (strip_prefix_head_neq 45 [] c _ P45).
      assert (strip_prefix (bs "NOT") (c :: r ++ rest) = None) as ->; [|reflexivity].
      apply strip_prefix_none_like.
      unfold kw_free in HK. apply negb_true_iff in HK. split_orb_false HK.
      change (c :: r ++ rest) with ((c :: r) ++ rest). rewrite <- Ev. apply starts_with_app_false; auto.
    - unfold multiterm_lookahead, lex_term. rewrite KA. destruct X as [|x xs].
      + cbn [app] in Ev |- *. inversion Ev; subst c r. cbn [term_start_char]. rewrite B.
        unfold invalid_start. rewrite Ig, !orb_true_r. reflexivity.
      + subst g0. cbn [app] in Ev |- *. inversion Ev; subst c r. cbn [term_start_char]. rewrite B.
        cbn [forallb] in HX. apply andb_true_iff in HX as [Hx Hxs].
        rewrite <- app_assoc. cbn [app].
        rewrite (wild_start_plain x xs 42 Y rest Hx Pc HU S). cbn [negb].
        rewrite (wild_term_chars_false xs 42 Y rest Hg Hxs).
        2:{ cbn [uni_free] in HU. apply andb_true_iff in HU as [_ U]. exact U. }
        reflexivity.
  Qed.
End WildClause.
