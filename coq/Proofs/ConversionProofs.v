(* C35: proofs about Model/Conversion.v -- integers, booleans, names, timezone independence, floats. *)
From Coq Require Import String.
From Coq Require Import List NArith ZArith Bool Lia.
From Coq Require Import Floats.SpecFloat.
From VRL Require Import Base.Bytes Base.Value Base.Lit Model.ConvRes Model.Arith Model.IntText Model.NumFns Model.UnixTs
  Model.Casing.
From VRL Require Import Proofs.ArithProofs Proofs.IntTextProofs Proofs.NumFnsProofs Proofs.NumFnsTextProofs.
From VRL Require Import Model.Conversion.
Import ListNotations.
Local Open Scope Z_scope.

(* ================= membership ================= *)

Lemma mem_In s l : mem s l = true <-> In s l.
Proof.
  unfold mem. rewrite existsb_exists. split.
  - intros (x & Hx & E). apply bytes_eqb_eq in E. subst. exact Hx.
  - intros H. exists s. split; [exact H | apply bytes_eqb_refl].
Qed.

Lemma mem_false s l : mem s l = false <-> ~ In s l.
Proof.
  split.
  - intros H Hin. apply mem_In in Hin. congruence.
  - intros H. destruct (mem s l) eqn:E; [apply mem_In in E; contradiction | reflexivity].
Qed.

(* ================= integers ================= *)

Section WithChrono.
  Variable tzT : Type.
  Variable cl : tzT -> bytes -> bytes -> option dt.
  Variable cz : bytes -> bytes -> option dt.
  Variable c3 c2 : bytes -> option dt.

  Notation conv := (convert tzT cl cz c3 c2).

  Theorem int_roundtrip z : ConvRes.in_i64 z = true ->
    exists s, int_to_string z = ROk s /\ conv CInteger s = COk (VInt z).
  Proof.
    intros Hz.
    destruct (int_text_roundtrip (fun _ => []) (fun _ => []) z Hz) as (s & Hs & _ & Hi).
    unfold to_string in Hs. destruct (int_to_string z) as [s0| | |] eqn:E; cbn [res_bind] in Hs; try discriminate.
    inversion Hs; subst s0. exists s. split; [reflexivity|].
    unfold to_int in Hi. cbn [convert]. destruct (parse_i64 s) as [z'|]; [|discriminate].
    inversion Hi. reflexivity.
  Qed.

  Lemma parse_digits_range neg radix : forall s acc v,
    ConvRes.in_i64 acc = true -> parse_digits neg radix s acc = Some v -> ConvRes.in_i64 v = true.
  Proof.
    induction s as [|c s IH]; intros acc v Hacc H; cbn [parse_digits] in H.
    - inversion H; subst; exact Hacc.
    - destruct (to_digit radix c) as [d|]; [|discriminate].
      destruct (ConvRes.in_i64 (acc * radix)) eqn:E1; [|discriminate].
      destruct (ConvRes.in_i64 (if neg then acc * radix - d else acc * radix + d)) eqn:E2; [|discriminate].
      eapply IH; [exact E2 | exact H].
  Qed.

  Lemma from_str_radix_range s radix v : from_str_radix s radix = Some v -> ConvRes.in_i64 v = true.
  Proof.
    unfold from_str_radix. intros H.
    destruct s as [|c [|c1 r]]; [discriminate| |].
    - destruct ((c =? 43)%N || (c =? 45)%N); [discriminate|].
      eapply parse_digits_range; [|exact H]; reflexivity.
    - destruct (c =? 43)%N; [eapply parse_digits_range; [|exact H]; reflexivity|].
      destruct (c =? 45)%N; eapply parse_digits_range; try exact H; reflexivity.
  Qed.

  (* what the integer conversion accepts is an i64 written in decimal *)
  Theorem int_only_decimal s v : conv CInteger s = COk v ->
    exists z, v = VInt z /\ ConvRes.in_i64 z = true /\ from_str_radix s 10 = Some z.
  Proof.
    cbn [convert]. unfold parse_i64. destruct (from_str_radix s 10) as [z|] eqn:E; [|discriminate].
    intros H; inversion H; subst. exists z. split; [reflexivity|]. split; [|reflexivity].
    eapply from_str_radix_range; exact E.
  Qed.

  (* ================= booleans ================= *)

  Lemma to_lower_inv c x : to_lower c = x -> c = x \/ (is_lower x = true /\ c = (x - 32)%N).
  Proof.
    unfold to_lower. destruct (is_upper c) eqn:U; intros <-; [right | left; reflexivity].
    unfold is_upper in U. apply andb_true_iff in U. destruct U as [U1 U2].
    apply N.leb_le in U1. apply N.leb_le in U2. unfold is_lower. split; [|lia].
    apply andb_true_iff. split; apply N.leb_le; lia.
  Qed.

  Lemma variants_complete : forall s l, map to_lower s = l -> In s (variants l).
  Proof.
    induction s as [|c s IH]; intros l H; subst l.
    - left. reflexivity.
    - cbn [map variants]. specialize (IH _ eq_refl).
      destruct (to_lower_inv c _ eq_refl) as [E | [L E]].
      + destruct (is_lower (to_lower c)).
        * apply in_or_app. left. rewrite E at 1. apply in_map. exact IH.
        * rewrite E at 1. apply in_map. exact IH.
      + rewrite L. apply in_or_app. right. rewrite E at 1. apply in_map. exact IH.
  Qed.

  Lemma bool_variants_ok :
    forallb (fun b => forallb (fun l => forallb (fun s =>
       match parse_bool s with Some b' => Bool.eqb b b' | None => false end) (variants l)) (spellings b))
      [true; false] = true.
  Proof. vm_compute. reflexivity. Qed.

  (* every documented spelling, in every letter case, gives its meaning *)
  Theorem bool_spellings b l s : In l (spellings b) -> map to_lower s = l -> conv CBoolean s = COk (VBool b).
  Proof.
    intros Hl Hs. apply variants_complete in Hs.
    pose proof bool_variants_ok as H. rewrite forallb_forall in H.
    assert (Hb : In b [true; false]) by (destruct b; cbn; auto).
    specialize (H b Hb). rewrite forallb_forall in H. specialize (H l Hl).
    rewrite forallb_forall in H. specialize (H s Hs).
    cbn [convert]. destruct (parse_bool s) as [b'|]; [|discriminate].
    apply Bool.eqb_prop in H. subst. reflexivity.
  Qed.

  Lemma lits_not_int s : In s (true_lits ++ false_lits) -> parse_i64 s = None.
  Proof.
    intros H. cbn in H. repeat (destruct H as [<- | H]; [vm_compute; reflexivity|]). contradiction.
  Qed.

  (* integers: zero is false, everything else is true *)
  Theorem bool_numeric s n : parse_i64 s = Some n -> conv CBoolean s = COk (VBool (negb (n =? 0))).
  Proof.
    intros Hn. cbn [convert]. unfold parse_bool.
    destruct (mem s true_lits) eqn:E1.
    { apply mem_In in E1. rewrite (lits_not_int s) in Hn; [discriminate | apply in_or_app; left; exact E1]. }
    destruct (mem s false_lits) eqn:E2.
    { apply mem_In in E2. rewrite (lits_not_int s) in Hn; [discriminate | apply in_or_app; right; exact E2]. }
    cbn [orb]. destruct (bytes_eqb s zero_lit) eqn:E3.
    { apply bytes_eqb_eq in E3. subst s. vm_compute in Hn. inversion Hn; subst. reflexivity. }
    rewrite Hn. reflexivity.
  Qed.

  Lemma lits_lower s : In s (true_lits ++ false_lits) -> map to_lower s = s.
  Proof.
    intros H. cbn in H. repeat (destruct H as [<- | H]; [vm_compute; reflexivity|]). contradiction.
  Qed.

  (* nothing else is accepted *)
  Theorem bool_exact s v : conv CBoolean s = COk v ->
    exists b, v = VBool b /\
      (In (map to_lower s) (spellings b) \/ exists n, parse_i64 s = Some n /\ b = negb (n =? 0)).
  Proof.
    cbn [convert]. unfold parse_bool.
    destruct (mem s true_lits) eqn:E1.
    { intros H; inversion H; subst. exists true. split; [reflexivity|]. left.
      apply mem_In in E1. rewrite lits_lower; [exact E1 | apply in_or_app; left; exact E1]. }
    destruct (mem s false_lits) eqn:E2.
    { intros H; inversion H; subst. exists false. split; [reflexivity|]. left.
      apply mem_In in E2. rewrite lits_lower; [exact E2 | apply in_or_app; right; exact E2]. }
    cbn [orb]. destruct (bytes_eqb s zero_lit) eqn:E3.
    { intros H; inversion H; subst. exists false. split; [reflexivity|]. right. exists 0.
      apply bytes_eqb_eq in E3. subst s. split; reflexivity. }
    destruct (parse_i64 s) as [n|] eqn:En.
    { intros H; inversion H; subst. eexists. split; [reflexivity|]. right. exists n. split; reflexivity. }
    destruct (mem (map to_lower s) true_lits) eqn:E4.
    { intros H; inversion H; subst. exists true. split; [reflexivity|]. left. apply mem_In. exact E4. }
    destruct (mem (map to_lower s) false_lits) eqn:E5; [|discriminate].
    intros H; inversion H; subst. exists false. split; [reflexivity|]. left. apply mem_In. exact E5.
  Qed.

  (* ================= floats ================= *)

  Theorem float_text (fmt_f64 : spec_float -> bytes) f :
    parse_f64 (fmt_f64 f) = Some f -> f_is_nan f = false -> conv CFloat (fmt_f64 f) = COk (VFloat f).
  Proof. intros Hp Hn. cbn [convert]. rewrite Hp, Hn. reflexivity. Qed.

  Theorem float_int_text z : ConvRes.in_i64 z = true ->
    exists s, int_to_string z = ROk s /\ conv CFloat s = COk (VFloat (of_i64 z)).
  Proof.
    intros Hz. destruct (int_roundtrip z Hz) as (s & Hs & _). exists s. split; [exact Hs|].
    cbn [convert]. rewrite (parse_f64_int_text z s Hz Hs), (of_i64_not_nan z). reflexivity.
  Qed.

  Theorem float_never_nan s v : conv CFloat s = COk v -> exists f, v = VFloat f /\ f_is_nan f = false.
  Proof.
    cbn [convert]. destruct (parse_f64 s) as [f|]; [|discriminate].
    destruct (f_is_nan f) eqn:E; [discriminate|]. intros H; inversion H; subst. exists f. split; [reflexivity | exact E].
  Qed.
End WithChrono.

(* ================= names ================= *)

Definition no_bar (s : bytes) : Prop := ~ In 124%N s.

Lemma split_bar_none s a : split_bar s = (a, None) <-> (no_bar s /\ a = s).
Proof.
  revert a. induction s as [|c s IH]; intros a; cbn [split_bar].
  - split; [intros H; inversion H; split; [intros []|reflexivity] | intros [_ ->]; reflexivity].
  - destruct (N.eqb_spec c 124) as [->|Hc].
    + split; [discriminate | intros [Hn _]; exfalso; apply Hn; left; reflexivity].
    + destruct (split_bar s) as [a' b'] eqn:E. split.
      * intros H; inversion H; subst. destruct (proj1 (IH a') eq_refl) as [Hn ->].
        split; [|reflexivity]. intros [Hin|Hin]; [congruence | exact (Hn Hin)].
      * intros [Hn ->]. assert (Hn' : no_bar s) by (intros Hin; apply Hn; right; exact Hin).
        pose proof (proj2 (IH s) (conj Hn' eq_refl)) as H. inversion H; subst. reflexivity.
Qed.

Lemma split_bar_some s a b : split_bar s = (a, Some b) <-> (s = a ++ 124%N :: b /\ no_bar a).
Proof.
  revert a. induction s as [|c s IH]; intros a; cbn [split_bar].
  - split; [discriminate | intros [H _]; destruct a; discriminate].
  - destruct (N.eqb_spec c 124) as [->|Hc].
    + split.
      * intros H; inversion H; subst. split; [reflexivity | intros []].
      * intros [H Hn]. destruct a as [|x a]; cbn in H; inversion H; subst; [reflexivity|].
        exfalso; apply Hn; left; reflexivity.
    + destruct (split_bar s) as [a' b'] eqn:E. split.
      * intros H; inversion H; subst. destruct (proj1 (IH a') eq_refl) as [-> Hn].
        split; [reflexivity|]. intros [Hin|Hin]; [congruence | exact (Hn Hin)].
      * intros [H Hn]. destruct a as [|x a]; cbn in H; inversion H; subst; [congruence|].
        assert (Hn' : no_bar a) by (intros Hin; apply Hn; right; exact Hin).
        pose proof (proj2 (IH a) (conj eq_refl Hn')) as H'. inversion H'; subst. reflexivity.
Qed.

Lemma split_bar_cases s : (exists a, split_bar s = (a, None)) \/ (exists a b, split_bar s = (a, Some b)).
Proof. destruct (split_bar s) as [a [b|]]; [right; eauto | left; eauto]. Qed.

Section Names.
  Variable tzT : Type.

  (* the documented table *)
  Definition documented (tz : tzT) (a : bytes) (c : conversion tzT) : Prop :=
    (In a names_bytes /\ c = CBytes) \/ (In a names_integer /\ c = CInteger) \/ (In a names_float /\ c = CFloat)
    \/ (In a names_boolean /\ c = CBoolean) \/ (a = name_timestamp /\ c = CTimestamp tz).

  Lemma names_disjoint a :
    (In a names_bytes -> mem a names_integer = false /\ mem a names_float = false /\ mem a names_boolean = false
                         /\ bytes_eqb a name_timestamp = false)
    /\ (In a names_integer -> mem a names_bytes = false /\ mem a names_float = false /\ mem a names_boolean = false
                         /\ bytes_eqb a name_timestamp = false)
    /\ (In a names_float -> mem a names_bytes = false /\ mem a names_integer = false /\ mem a names_boolean = false
                         /\ bytes_eqb a name_timestamp = false)
    /\ (In a names_boolean -> mem a names_bytes = false /\ mem a names_integer = false /\ mem a names_float = false
                         /\ bytes_eqb a name_timestamp = false)
    /\ (a = name_timestamp -> mem a names_bytes = false /\ mem a names_integer = false /\ mem a names_float = false
                         /\ mem a names_boolean = false).
  Proof.
    split; [|split; [|split; [|split]]]; intros Hin; cbn in Hin;
      repeat (destruct Hin as [<- | Hin]; [vm_compute; repeat split; reflexivity|]);
      try contradiction; subst; vm_compute; repeat split; reflexivity.
  Qed.

  (* Conversion::parse accepts exactly the documented names: without a '|' the trimmed name must be in the table;
     with one, the part before the first '|' must trim to "timestamp" and the rest (trimmed) is the format *)
  Theorem names_exact name tz c :
    parse_conv tzT name tz = Some c <->
      ((no_bar name /\ documented tz (trim name) c)
       \/ (exists a fmt, name = a ++ 124%N :: fmt /\ no_bar a /\ trim a = name_timestamp
                         /\ c = conv_timestamp tzT (trim fmt) tz)).
  Proof.
    unfold parse_conv. destruct (split_bar_cases name) as [(a & E) | (a & b & E)]; rewrite E.
    - apply split_bar_none in E. destruct E as [Hn ->]. split.
      + intros H. left. split; [exact Hn|]. unfold documented.
        destruct (mem (trim name) names_bytes) eqn:E1;
          [inversion H; left; split; [apply mem_In; exact E1 | reflexivity]|].
        destruct (mem (trim name) names_integer) eqn:E2;
          [inversion H; right; left; split; [apply mem_In; exact E2 | reflexivity]|].
        destruct (mem (trim name) names_float) eqn:E3;
          [inversion H; right; right; left; split; [apply mem_In; exact E3 | reflexivity]|].
        destruct (mem (trim name) names_boolean) eqn:E4;
          [inversion H; right; right; right; left; split; [apply mem_In; exact E4 | reflexivity]|].
        destruct (bytes_eqb (trim name) name_timestamp) eqn:E5; [|discriminate].
        inversion H. right; right; right; right. split; [apply bytes_eqb_eq; exact E5 | reflexivity].
      + intros [[_ D] | (a & fmt & Hname & _)].
        * destruct (names_disjoint (trim name)) as (D1 & D2 & D3 & D4 & D5).
          destruct D as [[Hin ->] | [[Hin ->] | [[Hin ->] | [[Hin ->] | [Heq ->]]]]].
          -- apply mem_In in Hin. rewrite Hin. reflexivity.
          -- destruct (D2 Hin) as (-> & _). apply mem_In in Hin. rewrite Hin. reflexivity.
          -- destruct (D3 Hin) as (-> & -> & _). apply mem_In in Hin. rewrite Hin. reflexivity.
          -- destruct (D4 Hin) as (-> & -> & -> & _). apply mem_In in Hin. rewrite Hin. reflexivity.
          -- destruct (D5 Heq) as (-> & -> & -> & ->). rewrite Heq, bytes_eqb_refl. reflexivity.
        * exfalso. apply Hn. rewrite Hname. apply in_or_app. right. left. reflexivity.
    - apply split_bar_some in E. destruct E as [Hname Hn]. split.
      + intros H. right. exists a, b. destruct (bytes_eqb (trim a) name_timestamp) eqn:E5; [|discriminate].
        inversion H. split; [exact Hname|]. split; [exact Hn|]. split; [apply bytes_eqb_eq; exact E5 | reflexivity].
      + intros [[Hnb _] | (a' & fmt & Hname' & Hn' & Ht & ->)].
        * exfalso. apply Hnb. rewrite Hname. apply in_or_app. right. left. reflexivity.
        * assert (E : split_bar name = (a', Some fmt)) by (apply split_bar_some; split; assumption).
          assert (E' : split_bar name = (a, Some b)) by (apply split_bar_some; split; assumption).
          rewrite E in E'. inversion E'; subst a' fmt. rewrite Ht, bytes_eqb_refl. reflexivity.
  Qed.

  (* ---- trimming ASCII white space around a word that neither starts nor ends with white space ---- *)

  Lemma strip_pad (step : bytes -> option bytes) pad : forall s fuel,
    (forall c r, In c pad -> step (c :: r) = Some r) -> step s = None -> (length pad <= fuel)%nat ->
    strip step fuel (pad ++ s) = s.
  Proof.
    induction pad as [|c pad IH]; intros s fuel Hstep Hs Hf; cbn [app].
    - destruct fuel; cbn [strip]; [reflexivity | rewrite Hs; reflexivity].
    - destruct fuel as [|fuel]; [cbn in Hf; lia|]. cbn [strip].
      rewrite (Hstep c (pad ++ s) (or_introl eq_refl)).
      apply IH; [intros c' r Hin; apply Hstep; right; exact Hin | exact Hs | cbn in Hf; lia].
  Qed.

  Definition ascii_ws_pad (pad : bytes) : Prop := forall c, In c pad -> is_ascii_ws c = true.

  Lemma ws_head_ascii c r : is_ascii_ws c = true -> ws_head (c :: r) = Some r.
  Proof. intros H. unfold ws_head. rewrite H. reflexivity. Qed.
  Lemma ws_last_ascii c r : is_ascii_ws c = true -> ws_last (c :: r) = Some r.
  Proof. intros H. unfold ws_last. rewrite H. reflexivity. Qed.

  Lemma trim_padded p1 p2 w :
    ascii_ws_pad p1 -> ascii_ws_pad p2 -> ws_head (w ++ p2) = None -> ws_last (rev w ++ rev p1) = None ->
    ws_last (rev w) = None -> trim (p1 ++ w ++ p2) = w.
  Proof.
    intros H1 H2 Hh Hl Hl'. unfold trim.
    rewrite (strip_pad ws_head p1 (w ++ p2));
      [| intros c r Hin; apply ws_head_ascii, H1, Hin | exact Hh | rewrite app_length; lia].
    rewrite rev_app_distr.
    rewrite (strip_pad ws_last (rev p2) (rev w));
      [apply rev_involutive | intros c r Hin; apply ws_last_ascii, H2, in_rev, Hin | exact Hl'
       | rewrite rev_length, app_length; lia].
  Qed.

  Definition all_names : list bytes :=
    names_bytes ++ names_integer ++ names_float ++ names_boolean ++ [name_timestamp].

  Lemma ws_not_bar c : is_ascii_ws c = true -> c <> 124%N.
  Proof. intros H ->. vm_compute in H. discriminate. Qed.

  (* every documented name is accepted, with any amount of ASCII white space around it, and means what the table says *)
  Theorem names_sound p1 p2 w tz : ascii_ws_pad p1 -> ascii_ws_pad p2 -> In w all_names ->
    exists c, parse_conv tzT (p1 ++ w ++ p2) tz = Some c /\ documented tz w c.
  Proof.
    intros H1 H2 Hw.
    assert (Ht : trim (p1 ++ w ++ p2) = w /\ no_bar w).
    { cbn in Hw. repeat (destruct Hw as [<- | Hw];
        [split; [apply trim_padded; try assumption; reflexivity
                | intros Hin; cbn in Hin; repeat (destruct Hin as [Hin|Hin]; [discriminate|]); exact Hin]|]).
      contradiction. }
    destruct Ht as [Ht Hnb].
    assert (Hd : exists c, documented tz w c).
    { unfold documented, all_names in *. repeat (apply in_app_or in Hw; destruct Hw as [Hw|Hw]);
        [exists CBytes | exists CInteger | exists CFloat | exists CBoolean | exists (CTimestamp tz)]; auto 10.
      destruct Hw as [<-|[]]. auto 10. }
    destruct Hd as [c Hd]. exists c. split; [|exact Hd].
    apply names_exact. left. split; [|rewrite Ht; exact Hd].
    intros Hin. apply in_app_or in Hin. destruct Hin as [Hin|Hin]; [exact (ws_not_bar _ (H1 _ Hin) eq_refl)|].
    apply in_app_or in Hin. destruct Hin as [Hin|Hin]; [exact (Hnb Hin) | exact (ws_not_bar _ (H2 _ Hin) eq_refl)].
  Qed.
End Names.
