(* Soundness of Kind::at_path / Kind::get with respect to `member`. *)
From Coq Require Import List NArith ZArith Bool Lia.
From VRL Require Import Base.Bytes Base.Value Model.ValueCrud Model.Kind Model.KindCrud Model.KindDomains
  Proofs.ValueCrudProofs Proofs.KindBasics Proofs.KindMergeProofs.
Import ListNotations.

(* ---------- at_path, one segment at a time ---------- *)

Lemma at_path_undefined p : at_path k_undefined p = k_undefined.
Proof. induction p as [|[f|i] p IH]; cbn; auto. Qed.

Lemma at_path_never k p : is_never k = true -> at_path k p = k_never.
Proof. intros H. destruct p; cbn; rewrite H; reflexivity. Qed.

Lemma at_path_step k s p : is_never k = false -> at_path k (s :: p) = at_path (at_seg k s) p.
Proof.
  intros Hn. cbn [at_path]. rewrite Hn. destruct s as [f|i]; cbn [at_seg]; auto.
  destruct (arr_of k) as [c|]; [|symmetry; apply at_path_undefined].
  destruct (i <? 0)%Z; auto.
  destruct (contains_any_defined (unknown_kind c)); auto.
  destruct (Nat.leb _ _); auto. symmetry; apply at_path_undefined.
Qed.

(* ---------- exact kinds ---------- *)

Lemma exact_obj_only k c v : is_exact k = true -> obj_of k = Some c -> member v k = true ->
  exists m, v = VObj m.
Proof.
  destruct k as [p a o]. unfold is_exact, nstates. cbn. intros H -> Hm. apply Nat.leb_le in H. cbn in H.
  destruct v; cbn in Hm; try (rewrite Hm in H; cbn in H; lia); eauto.
  destruct a; [cbn in H; lia | discriminate].
Qed.

Lemma exact_arr_only k c v : is_exact k = true -> arr_of k = Some c -> member v k = true ->
  exists vs, v = VArr vs.
Proof.
  destruct k as [p a o]. unfold is_exact, nstates. cbn. intros H -> Hm. apply Nat.leb_le in H. cbn in H.
  destruct v; cbn in Hm; try (rewrite Hm in H; cbn in H; lia); eauto.
  destruct o; [cbn in H; lia | discriminate].
Qed.

Lemma exact_obj_no_undefined k c : is_exact k = true -> obj_of k = Some c -> p_undefined (prims_of k) = false.
Proof.
  destruct k as [p a o]. unfold is_exact, nstates. cbn. intros H ->. apply Nat.leb_le in H. cbn in H.
  destruct (p_undefined p); auto. cbn in H. lia.
Qed.

Lemma exact_arr_no_undefined k c : is_exact k = true -> arr_of k = Some c -> p_undefined (prims_of k) = false.
Proof.
  destruct k as [p a o]. unfold is_exact, nstates. cbn. intros H ->. apply Nat.leb_le in H. cbn in H.
  destruct (p_undefined p); auto. cbn in H. lia.
Qed.

Lemma contains_undefined_flag k : p_undefined (prims_of k) = true -> contains_undefined k = true.
Proof. unfold contains_undefined. intros ->. reflexivity. Qed.

Lemma contains_undefined_not_never k : is_never k = false -> contains_undefined k = true ->
  p_undefined (prims_of k) = true.
Proof. unfold contains_undefined. intros ->. rewrite orb_false_r. auto. Qed.

Lemma contains_undefined_k_undefined : contains_undefined k_undefined = true.
Proof. reflexivity. Qed.

(* ---------- value-side stepping ---------- *)

Definition vstep (o : option value) (s : seg) : option value :=
  match o, s with
  | Some (VObj m), SField f => obj_get m f
  | Some (VArr a), SIndex i => arr_get a i
  | _, _ => None
  end.

Lemma get_opt_none p : get_opt None p = None.
Proof. reflexivity. Qed.

Lemma get_none_step : forall p s, get_opt (vstep None s) p = None.
Proof. intros. destruct s; reflexivity. Qed.

Lemma get_opt_step o s p : get_opt o (s :: p) = get_opt (vstep o s) p.
Proof.
  destruct o as [v|]; [|destruct s; reflexivity].
  destruct s as [f|i]; cbn.
  - destruct v; reflexivity.
  - destruct v; reflexivity.
Qed.

(* ---------- lengths of arrays that are members ---------- *)

Lemma fold_max_spec r : forall x,
  let m := fold_left Nat.max r x in (m = x \/ In m r) /\ x <= m /\ (forall y, In y r -> y <= m).
Proof.
  induction r as [|z r IH]; intros x; cbn.
  - repeat split; auto. tauto.
  - specialize (IH (Nat.max x z)). cbv zeta in IH. destruct IH as (H0 & H1 & H2).
    split; [|split].
    + destruct H0 as [E|E]; [|auto].
      destruct (Nat.max_spec x z) as [[_ Em]|[_ Em]]; rewrite Em in *;
        [right; left; symmetry; exact E | left; exact E].
    + lia.
    + intros y [<-|Hy]; [lia|auto].
Qed.

Lemma max_opt_spec l :
  match max_opt l with
  | Some m => In m l /\ (forall x, In x l -> x <= m)
  | None => l = []
  end.
Proof.
  destruct l as [|x r]; cbn; auto.
  destruct (fold_max_spec r x) as ([E|E] & H1 & H2); split; auto.
  - intros y [->|Hy]; auto.
  - intros y [->|Hy]; auto.
Qed.

Lemma all_required_spec {K} (c : coll_ K kind) key kk : all_required c = true -> In (key, kk) (known c) ->
  p_undefined (prims_of kk) = false.
Proof.
  unfold all_required. rewrite forallb_forall. intros H Hin. specialize (H _ Hin). cbn in H.
  apply negb_true_iff in H. exact H.
Qed.

Lemma arr_len_ge vs c : arr_ok vs c = true -> all_required c = true -> known_len c <= length vs.
Proof.
  intros Hok Hr. unfold known_len. pose proof (max_opt_spec (map fst (known c))) as Hm.
  destruct (max_opt (map fst (known c))) as [m|]; [|lia]. destruct Hm as [Hin _].
  apply (in_keys_aget Nat.eqb nat_eqb_spec') in Hin.
  destruct (aget Nat.eqb (known c) m) as [kk|] eqn:E; [|congruence].
  destruct (Nat.lt_ge_cases m (length vs)); [lia|].
  apply arr_ok_spec in Hok. destruct Hok as [_ H2]. specialize (H2 _ _ E H).
  rewrite (all_required_spec c m kk Hr (aget_in Nat.eqb nat_eqb_spec' _ _ _ E)) in H2. discriminate.
Qed.

Lemma arr_len_le vs c : arr_ok vs c = true -> contains_any_defined (unknown_kind c) = false ->
  length vs <= known_len c.
Proof.
  intros Hok Hd. destruct (Nat.le_gt_cases (length vs) (known_len c)); auto. exfalso.
  destruct (nth_error vs (known_len c)) as [x|] eqn:En; [|apply nth_error_None in En; lia].
  pose proof (arr_ok_elem _ _ _ _ Hok En) as Hm. unfold coll_at in Hm.
  destruct (aget Nat.eqb (known c) (known_len c)) as [kk|] eqn:E.
  - assert (In (known_len c) (map fst (known c))) as Hin
      by (apply (in_keys_aget Nat.eqb nat_eqb_spec'); congruence).
    unfold known_len in Hin. pose proof (max_opt_spec (map fst (known c))) as Hs.
    destruct (max_opt (map fst (known c))) as [m|]; [|rewrite Hs in Hin; contradiction].
    destruct Hs as [_ Hs]. specialize (Hs _ Hin). lia.
  - rewrite (not_defined_no_member _ _ Hd) in Hm. discriminate.
Qed.

(* ---------- the fold of unions of the negative-index branch ---------- *)

Lemma union_undefined x y :
  p_undefined (prims_of x) = true \/ p_undefined (prims_of y) = true -> p_undefined (prims_of (union x y)) = true.
Proof. apply undefined_merge_f. Qed.

Lemma neg_fold_acc mi l : forall acc v, neg_fold_ok mi l acc = true ->
  member v acc = true -> member v (neg_fold mi l acc) = true.
Proof.
  induction l as [|kv r IH]; intros acc v Hok Hm; cbn in *; auto.
  destruct (Nat.leb mi (fst kv)).
  - apply andb_true_iff in Hok. destruct Hok as [Hc Hok]. apply IH; auto. apply union_sound; auto.
  - apply IH; auto.
Qed.

Lemma neg_fold_elem mi l : forall acc v j kk, neg_fold_ok mi l acc = true ->
  In (j, kk) l -> mi <= j -> member v kk = true -> member v (neg_fold mi l acc) = true.
Proof.
  induction l as [|kv r IH]; intros acc v j kk Hok Hin Hj Hm; cbn in *; [contradiction|].
  destruct Hin as [->|Hin].
  - cbn in *. destruct (Nat.leb_spec mi j); [|lia].
    apply andb_true_iff in Hok. destruct Hok as [Hc Hok].
    apply (neg_fold_acc mi r); auto. apply union_sound; auto.
  - destruct (Nat.leb mi (fst kv)).
    + apply andb_true_iff in Hok. destruct Hok as [Hc Hok]. eapply IH; eauto.
    + eapply IH; eauto.
Qed.

Lemma neg_fold_undefined mi l : forall acc, p_undefined (prims_of acc) = true ->
  p_undefined (prims_of (neg_fold mi l acc)) = true.
Proof.
  induction l as [|kv r IH]; intros acc H; cbn; auto.
  destruct (Nat.leb mi (fst kv)); apply IH; auto. apply union_undefined; auto.
Qed.

(* ---------- one segment ---------- *)

Lemma member_at_index v k c idx : member v (coll_at Nat.eqb c idx) = true -> member v (at_index k c idx) = true.
Proof. unfold at_index. destruct (is_exact k); auto. rewrite member_or_undefined. auto. Qed.

Lemma at_index_undefined k c idx :
  p_undefined (prims_of (coll_at Nat.eqb c idx)) = true \/ is_exact k = false ->
  p_undefined (prims_of (at_index k c idx)) = true.
Proof.
  unfold at_index. intros [H|H].
  - destruct (is_exact k); auto. apply p_undefined_or_undefined.
  - rewrite H. apply p_undefined_or_undefined.
Qed.

(* a value that is not an array, or no value at all, read through an index: the result admits undefined *)
Lemma not_exact_arr k c : arr_of k = Some c ->
  (p_undefined (prims_of k) = true \/ exists v, member v k = true /\ (forall vs, v <> VArr vs)) ->
  is_exact k = false.
Proof.
  intros Ha H. destruct (is_exact k) eqn:Ex; auto. exfalso. destruct H as [H|(v & Hm & Hv)].
  - rewrite (exact_arr_no_undefined _ _ Ex Ha) in H. discriminate.
  - destruct (exact_arr_only _ _ _ Ex Ha Hm) as [vs ->]. eapply Hv; eauto.
Qed.

Lemma not_exact_obj k c : obj_of k = Some c ->
  (p_undefined (prims_of k) = true \/ exists v, member v k = true /\ (forall m, v <> VObj m)) ->
  is_exact k = false.
Proof.
  intros Ha H. destruct (is_exact k) eqn:Ex; auto. exfalso. destruct H as [H|(v & Hm & Hv)].
  - rewrite (exact_obj_no_undefined _ _ Ex Ha) in H. discriminate.
  - destruct (exact_obj_only _ _ _ Ex Ha Hm) as [vs ->]. eapply Hv; eauto.
Qed.

(* the slot is absent, or holds something that is not the container the segment needs *)
Definition off_container (o : option value) (k : kind) (s : seg) : Prop :=
  match o with
  | None => p_undefined (prims_of k) = true
  | Some v => member v k = true /\ match s with SField _ => forall m, v <> VObj m | SIndex _ => forall vs, v <> VArr vs end
  end.

Lemma at_seg_off o k s : off_container o k s -> p_undefined (prims_of (at_seg k s)) = true.
Proof.
  intros Hoff. destruct s as [f|i]; cbn [at_seg].
  - unfold get_field. destruct (obj_of k) as [c|] eqn:Ho; [|reflexivity].
    assert (is_exact k = false) as ->.
    { apply (not_exact_obj k c Ho). destruct o as [v|]; cbn in Hoff; [right; exists v; tauto | left; auto]. }
    apply p_undefined_or_undefined.
  - destruct (arr_of k) as [c|] eqn:Ha; [|reflexivity].
    assert (is_exact k = false) as Hex.
    { apply (not_exact_arr k c Ha). destruct o as [v|]; cbn in Hoff; [right; exists v; tauto | left; auto]. }
    destruct (i <? 0)%Z.
    + destruct (contains_any_defined (unknown_kind c)).
      * unfold neg_unknown_params. rewrite Hex. cbn [andb]. apply neg_fold_undefined.
        apply p_undefined_unknown_kind.
      * destruct (Nat.leb _ _); [|reflexivity]. apply at_index_undefined; auto.
    + apply at_index_undefined; auto.
Qed.

Lemma seg_sound o k s : is_never k = false -> seg_ok k s = true -> member_opt o k = true ->
  member_opt (vstep o s) (at_seg k s) = true.
Proof.
  intros Hn Hok Hm.
  assert (forall o', off_container o' k s -> member_opt None (at_seg k s) = true) as Hoff.
  { intros o' H. cbn. apply contains_undefined_flag. eapply at_seg_off; eauto. }
  destruct o as [v|]; cbn [member_opt] in Hm.
  2:{ replace (vstep None s) with (@None value) by (destruct s; reflexivity).
      apply (Hoff None). cbn. apply contains_undefined_not_never; auto. }
  destruct s as [f|i].
  - (* field *)
    destruct v; cbn [vstep];
      try (eapply (Hoff (Some _)); cbn [off_container]; split; [exact Hm | intros; congruence]).
    cbn [vstep at_seg]. rewrite member_obj in Hm. unfold get_field.
    destruct (obj_of k) as [c|]; [|discriminate].
    destruct (obj_get kvs f) as [w|] eqn:Eg; cbn [member_opt].
    + pose proof (obj_ok_elem _ _ _ _ Hm (obj_get_in _ _ _ Eg)) as Hw.
      destruct (is_exact k); auto. rewrite member_or_undefined. auto.
    + apply contains_undefined_flag. pose proof (obj_ok_absent _ _ _ Hm Eg) as Hu.
      destruct (is_exact k); auto. apply p_undefined_or_undefined.
  - (* index *)
    destruct v; cbn [vstep];
      try (eapply (Hoff (Some _)); cbn [off_container]; split; [exact Hm | intros; congruence]).
    cbn [vstep at_seg seg_ok] in *. rewrite member_arr in Hm.
    destruct (arr_of k) as [c|]; [|discriminate].
    destruct (Z.ltb_spec i 0) as [Hi|Hi].
    + (* negative *)
      apply andb_true_iff in Hok. destruct Hok as [Hreq Hok].
      pose proof (arr_len_ge _ _ Hm Hreq) as Hge. fold (known_len c).
      unfold arr_get, arr_index. destruct (Z.leb_spec 0 i); [lia|].
      destruct (contains_any_defined (unknown_kind c)) eqn:Hd.
      * (* unknown length *)
        unfold neg_unknown_params in *. fold (known_len c) in *.
        set (kind1 := if is_exact k && negb (Z.of_nat (known_len c) + i <? 0)%Z
                      then remove_undefined (unknown_kind c) else unknown_kind c) in *.
        set (mi := Z.to_nat (Z.max (Z.of_nat (known_len c) + i) 0)) in *.
        destruct (Z.leb_spec 0 (Z.of_nat (length vs) + i)) as [Hj|Hj].
        -- destruct (nth_error vs (Z.to_nat (Z.of_nat (length vs) + i))) as [x|] eqn:En;
             [|apply nth_error_None in En; lia].
           cbn [member_opt]. pose proof (arr_ok_elem _ _ _ _ Hm En) as Hx. unfold coll_at in Hx.
           destruct (aget Nat.eqb (known c) (Z.to_nat (Z.of_nat (length vs) + i))) as [kk|] eqn:E.
           ++ apply (neg_fold_elem mi (known c) kind1 x (Z.to_nat (Z.of_nat (length vs) + i)) kk Hok);
                [apply (aget_in Nat.eqb nat_eqb_spec'); exact E | unfold mi; lia | exact Hx].
           ++ apply neg_fold_acc; auto. unfold kind1.
              destruct (is_exact k && _); [rewrite member_remove_undefined|]; exact Hx.
        -- cbn [member_opt]. apply contains_undefined_flag. apply neg_fold_undefined.
           unfold kind1. destruct (Z.ltb_spec (Z.of_nat (known_len c) + i) 0); [|lia].
           rewrite andb_false_r. apply p_undefined_unknown_kind.
      * (* exact length *)
        pose proof (arr_len_le _ _ Hm Hd) as Hle. assert (length vs = known_len c) as HL by lia.
        rewrite HL. destruct (Nat.leb_spec (Z.to_nat (- i)) (known_len c)) as [Hr|Hr].
        -- destruct (Z.leb_spec 0 (Z.of_nat (known_len c) + i)); [|lia].
           replace (Z.to_nat (i + Z.of_nat (known_len c))) with (Z.to_nat (Z.of_nat (known_len c) + i)) by lia.
           destruct (nth_error vs (Z.to_nat (Z.of_nat (known_len c) + i))) as [x|] eqn:En;
             [|apply nth_error_None in En; lia].
           cbn [member_opt]. apply member_at_index. eapply arr_ok_elem; eauto.
        -- destruct (Z.leb_spec 0 (Z.of_nat (known_len c) + i)); [lia|]. reflexivity.
    + (* non-negative *)
      unfold arr_get, arr_index. destruct (Z.leb_spec 0 i); [|lia].
      destruct (nth_error vs (Z.to_nat i)) as [x|] eqn:En; cbn [member_opt].
      * apply member_at_index. eapply arr_ok_elem; eauto.
      * apply contains_undefined_flag. apply at_index_undefined. left.
        eapply arr_ok_absent; eauto. apply nth_error_None. exact En.
Qed.

(* ---------- whole paths ---------- *)

Lemma get_opt_sound p : forall o k, get_ok k p = true -> member_opt o k = true ->
  member_opt (get_opt o p) (at_path k p) = true.
Proof.
  induction p as [|s p IH]; intros o k Hok Hm.
  - cbn [at_path]. destruct (is_never k) eqn:Hn.
    + destruct o as [v|]; [|reflexivity].
      cbn [member_opt] in Hm. rewrite (member_is_never _ _ Hn) in Hm. discriminate.
    + destruct o; exact Hm.
  - destruct (is_never k) eqn:Hn.
    + rewrite (at_path_never _ _ Hn). destruct o as [v|]; [|reflexivity].
      cbn [member_opt] in Hm. rewrite (member_is_never _ _ Hn) in Hm. discriminate.
    + rewrite (at_path_step _ _ _ Hn), get_opt_step. cbn [get_ok] in Hok. rewrite Hn in Hok.
      apply andb_true_iff in Hok. destruct Hok as [Hs Hok].
      apply IH; auto. apply seg_sound; auto.
Qed.

Theorem get_sound v k p : get_ok k p = true -> member v k = true ->
  member_opt (get v p) (at_path k p) = true.
Proof. intros Hok Hm. apply (get_opt_sound p (Some v) k Hok Hm). Qed.

(* paths without negative indices need no side condition *)
Fixpoint nonneg_path (p : path) : bool :=
  match p with
  | [] => true
  | SField _ :: p' => nonneg_path p'
  | SIndex i :: p' => (0 <=? i)%Z && nonneg_path p'
  end.

Lemma nonneg_get_ok p : nonneg_path p = true -> forall k, get_ok k p = true.
Proof.
  induction p as [|s p IH]; intros Hp k; cbn [get_ok]; destruct (is_never k); auto.
  destruct s as [f|i]; cbn in *.
  - apply IH; auto.
  - apply andb_true_iff in Hp. destruct Hp as [Hi Hp]. destruct (Z.ltb_spec i 0); [lia|]. apply IH; auto.
Qed.

Theorem get_sound_nonneg v k p : nonneg_path p = true -> member v k = true ->
  member_opt (get v p) (at_path k p) = true.
Proof. intros Hp. apply get_sound. apply nonneg_get_ok; auto. Qed.

(* Kind::get (undefined upgraded to null): a missing value reads as null *)
Lemma upgrade_sound o k : member_opt o k = true ->
  match o with Some w => member w (upgrade_undefined k) | None => p_null (prims_of (upgrade_undefined k)) || is_never k end = true.
Proof.
  unfold upgrade_undefined. destruct (is_never k) eqn:Hn.
  - destruct o; cbn; auto using orb_true_r.
  - destruct o as [w|]; cbn [member_opt]; intros H.
    + destruct (contains_undefined k); auto. apply member_or_null. rewrite member_remove_undefined. auto.
    + rewrite H. rewrite orb_false_r. destruct k as [[] a o]; reflexivity.
Qed.
