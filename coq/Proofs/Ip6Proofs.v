(* Proofs about Model/Ip.v, part 2: the RFC 5952 text of every IPv6 address (first longest run of two or
   more zero groups written "::", or "::ffff:a.b.c.d" for IPv4-mapped addresses) is read back by
   IpAddr::from_str as the same address; ip_ntop / ip_pton on 16 bytes. *)
From Coq Require Import String.
From Coq Require Import List NArith ZArith Bool Lia.
From VRL Require Import Base.Bytes Base.Value Model.ConvRes Model.IntText Model.Ip
  Proofs.IntTextProofs Proofs.IpProofs.
Import ListNotations.
Local Open Scope Z_scope.

Definition u16 (g : Z) : Prop := 0 <= g <= 65535.
Definition hexdigit (c : N) : Prop := to_digit 16 c <> None.

Definition colon_groups (gs : list Z) : bytes := flat_map (fun g => 58%N :: hex_u16 g) gs.

Lemma fmt_subslice_cons g gs : fmt_subslice (g :: gs) = hex_u16 g ++ colon_groups gs.
Proof.
  revert g. induction gs as [|g' gs IH]; intros g.
  - cbn. rewrite app_nil_r. reflexivity.
  - change (fmt_subslice (g :: g' :: gs)) with (hex_u16 g ++ ch_colon :: fmt_subslice (g' :: gs)).
    rewrite IH. reflexivity.
Qed.

Lemma colon_groups_cons_app g gs rest :
  colon_groups (g :: gs) ++ rest = 58%N :: hex_u16 g ++ colon_groups gs ++ rest.
Proof. unfold colon_groups. cbn [flat_map]. rewrite <- app_assoc. reflexivity. Qed.

(* the input that may follow a group list: the end, or the "::" *)
Definition stop (rest : bytes) : Prop := rest = [] \/ exists r, rest = 58%N :: 58%N :: r.
(* the input that may follow one group: the end or a colon *)
Definition colon_or_end (rest : bytes) : Prop := rest = [] \/ exists r, rest = 58%N :: r.

Lemma stop_colon_or_end rest : stop rest -> colon_or_end rest.
Proof. intros [->|[r ->]]; [left; reflexivity | right; eexists; reflexivity]. Qed.

Lemma colon_groups_colon_or_end gs rest : stop rest -> colon_or_end (colon_groups gs ++ rest).
Proof.
  intros Hs. destruct gs as [|g gs]; [apply stop_colon_or_end; exact Hs|].
  right. cbn [colon_groups flat_map app]. eexists. reflexivity.
Qed.

Lemma colon_or_end_not_hex rest : colon_or_end rest -> not_digit_start 16 rest.
Proof. intros [->|[r ->]]; [exact I | reflexivity]. Qed.

(* ---------- no dotted quad starts at a hex group that is followed by a colon or by the end ---------- *)

Lemma read_digits_hex_prefix r : colon_or_end r -> forall s acc count,
  Forall hexdigit s ->
  read_digits 10 3 (s ++ r) acc count = None \/
  exists v n rest', read_digits 10 3 (s ++ r) acc count = Some (v, n, rest')
                    /\ (rest' = [] \/ exists c t, rest' = c :: t /\ c <> 46%N).
Proof.
  intros Hr. induction s as [|c s IH]; intros acc count Hh.
  - cbn [app]. destruct Hr as [->|[r' ->]].
    + right. exists acc, count, []. split; [reflexivity | left; reflexivity].
    + right. exists acc, count, (58%N :: r'). split; [reflexivity|]. right. exists 58%N, r'. split; [reflexivity | discriminate].
  - cbn [app read_digits]. inversion Hh as [|? ? Hc Hs]; subst.
    destruct (to_digit 10 c) as [d|] eqn:D.
    + destruct (Nat.ltb 3 (S count)); [left; reflexivity | apply IH; exact Hs].
    + right. exists acc, count, (c :: s ++ r). split; [reflexivity|]. right. exists c, (s ++ r). split; [reflexivity|].
      intros ->. apply Hc. reflexivity.
Qed.

Lemma read_ipv4_hex_none s r : Forall hexdigit s -> colon_or_end r -> read_ipv4_addr (s ++ r) = None.
Proof.
  intros Hs Hr. unfold read_ipv4_addr, read_octet at 1, read_separator at 1, read_number.
  destruct (read_digits_hex_prefix r Hr s 0 O Hs) as [E|(v & n & rest' & E & Hrest)]; rewrite E; [reflexivity|].
  destruct (Nat.eqb n 0); [reflexivity|].
  destruct (negb false && match s ++ r with 48%N :: _ => true | _ => false end && Nat.ltb 1 n); [reflexivity|].
  destruct (v <=? 255); [|reflexivity].
  unfold read_octet at 1, read_separator at 1.
  destruct Hrest as [->|(c & t & -> & Hc)]; [reflexivity|].
  apply N.eqb_neq in Hc. unfold ch_dot. rewrite Hc. reflexivity.
Qed.

Lemma read_ipv4_hex_group g r : u16 g -> colon_or_end r -> read_ipv4_addr (hex_u16 g ++ r) = None.
Proof. intros Hg Hr. apply read_ipv4_hex_none; [apply hex_u16_digits; exact Hg | exact Hr]. Qed.

Lemma read_ipv4_nil : read_ipv4_addr [] = None.
Proof. reflexivity. Qed.

Lemma read_hex_colon r : read_number 16 4 true 65535 (58%N :: r) = None.
Proof. reflexivity. Qed.

Lemma read_hex_nil : read_number 16 4 true 65535 [] = None.
Proof. reflexivity. Qed.

(* ---------- read_groups on printed group lists ---------- *)

Lemma read_groups_stop n i rest : stop rest -> read_groups n i rest = ([], false, rest).
Proof.
  intros Hs. destruct n as [|n']; [reflexivity|]. rewrite read_groups_S.
  destruct Hs as [->|[r ->]].
  - destruct i; cbn [read_separator]; rewrite ?read_ipv4_nil, ?read_hex_nil; destruct (Nat.leb 1 n'); reflexivity.
  - destruct i; cbn [read_separator]; change ((58 =? ch_colon)%N) with true; cbv iota;
      rewrite ?read_ipv4_colon, ?read_hex_colon; destruct (Nat.leb 1 n'); reflexivity.
Qed.

Lemma read_groups_colon_groups : forall gs n i rest,
  (0 < i)%nat -> Forall u16 gs -> (length gs <= n)%nat -> stop rest ->
  read_groups n i (colon_groups gs ++ rest) = (gs, false, rest).
Proof.
  induction gs as [|g gs IH]; intros n i rest Hi Hg Hn Hs.
  - cbn [colon_groups flat_map app]. apply read_groups_stop. exact Hs.
  - destruct n as [|n']; [cbn in Hn; lia|]. cbn [length] in Hn.
    inversion Hg as [|? ? Hg1 Hg2]; subst.
    rewrite colon_groups_cons_app.
    pose proof (colon_groups_colon_or_end gs rest Hs) as Hce.
    rewrite read_groups_S. destruct i as [|i']; [lia|]. cbn [read_separator].
    change ((58 =? ch_colon)%N) with true. cbv iota.
    rewrite (read_ipv4_hex_group g _ Hg1 Hce).
    rewrite (read_hex_u16 g _ Hg1 (colon_or_end_not_hex _ Hce)).
    rewrite (IH n' (S (S i')) rest) by (auto; lia).
    destruct (Nat.leb 1 n'); reflexivity.
Qed.

Lemma read_groups_fmt gs n rest :
  Forall u16 gs -> (length gs <= n)%nat -> stop rest ->
  read_groups n 0 (fmt_subslice gs ++ rest) = (gs, false, rest).
Proof.
  intros Hg Hn Hs. destruct gs as [|g gs].
  - cbn [fmt_subslice app]. apply read_groups_stop. exact Hs.
  - destruct n as [|n']; [cbn in Hn; lia|]. cbn [length] in Hn.
    inversion Hg as [|? ? Hg1 Hg2]; subst.
    rewrite fmt_subslice_cons, <- app_assoc.
    pose proof (colon_groups_colon_or_end gs rest Hs) as Hce.
    rewrite read_groups_S. cbn [read_separator].
    rewrite (read_ipv4_hex_group g _ Hg1 Hce).
    rewrite (read_hex_u16 g _ Hg1 (colon_or_end_not_hex _ Hce)).
    rewrite (read_groups_colon_groups gs n' 1 rest) by (auto; lia).
    destruct (Nat.leb 1 n'); reflexivity.
Qed.

(* ---------- the zero run the printer compresses ---------- *)

(* the loop only looks at which segments are zero *)
Fixpoint zero_span_b (bs : list bool) (i : nat) (longest current : nat * nat) : nat * nat :=
  match bs with
  | [] => longest
  | b :: rest =>
      if b then
        let cur := (if Nat.eqb (snd current) 0 then i else fst current, S (snd current)) in
        let lon := if Nat.ltb (snd longest) (snd cur) then cur else longest in
        zero_span_b rest (S i) lon cur
      else zero_span_b rest (S i) longest (O, O)
  end.

Definition zmask (G : list Z) : list bool := map (fun g => g =? 0) G.

Lemma zero_span_mask G : forall i l c, zero_span G i l c = zero_span_b (zmask G) i l c.
Proof. induction G as [|g G IH]; intros i l c; [reflexivity|]. cbn [zmask map zero_span zero_span_b]. destruct (g =? 0); apply IH. Qed.

(* all 256 zero patterns: the span lies inside the address and covers zero segments only *)
Lemma zero_span_b_ok b0 b1 b2 b3 b4 b5 b6 b7 :
  let B := [b0; b1; b2; b3; b4; b5; b6; b7] in
  let '(start, len) := zero_span_b B O (O, O) (O, O) in
  Nat.leb (start + len) 8 = true /\ forallb (fun b => b) (firstn len (skipn start B)) = true.
Proof. destruct b0, b1, b2, b3, b4, b5, b6, b7; vm_compute; split; reflexivity. Qed.

Lemma firstn_map' {A B} (f : A -> B) n l : firstn n (map f l) = map f (firstn n l).
Proof. revert l; induction n; intros [|x l]; cbn; try reflexivity. rewrite IHn. reflexivity. Qed.

Lemma skipn_map' {A B} (f : A -> B) n l : skipn n (map f l) = map f (skipn n l).
Proof. revert l; induction n; intros [|x l]; cbn; try reflexivity. apply IHn. Qed.

Lemma skipn_skipn' {A} n m (l : list A) : skipn n (skipn m l) = skipn (m + n) l.
Proof. revert l; induction m; intros l; cbn; [reflexivity|]. destruct l; [destruct n; reflexivity | apply IHm]. Qed.

Lemma all_zero_repeat L : forallb (fun b => b) (zmask L) = true -> L = repeat 0 (length L).
Proof.
  induction L as [|g L IH]; intros H; [reflexivity|]. cbn [zmask map forallb] in H.
  apply andb_true_iff in H. destruct H as [H1 H2]. apply Z.eqb_eq in H1. subst g.
  cbn [length repeat]. f_equal. apply IH. exact H2.
Qed.

Lemma zero_span_decomp G : length G = 8%nat ->
  let '(start, len) := zero_span G O (O, O) (O, O) in
  G = firstn start G ++ repeat 0 len ++ skipn (start + len) G /\ (start + len <= 8)%nat.
Proof.
  intros Hl. rewrite zero_span_mask.
  destruct G as [|g0 [|g1 [|g2 [|g3 [|g4 [|g5 [|g6 [|g7 [|? ?]]]]]]]]]; try discriminate.
  pose proof (zero_span_b_ok (g0 =? 0) (g1 =? 0) (g2 =? 0) (g3 =? 0) (g4 =? 0) (g5 =? 0) (g6 =? 0) (g7 =? 0)) as H.
  cbv zeta in H. set (G := [g0; g1; g2; g3; g4; g5; g6; g7]) in *.
  change [g0 =? 0; g1 =? 0; g2 =? 0; g3 =? 0; g4 =? 0; g5 =? 0; g6 =? 0; g7 =? 0] with (zmask G) in H.
  destruct (zero_span_b (zmask G) O (O, O) (O, O)) as [start len].
  destruct H as [Hle Hz]. apply Nat.leb_le in Hle. split; [|exact Hle].
  unfold zmask in Hz. rewrite skipn_map', firstn_map' in Hz. apply all_zero_repeat in Hz.
  rewrite firstn_length, skipn_length in Hz. replace (Nat.min len (length G - start)) with len in Hz by (unfold G; cbn [length]; lia).
  rewrite <- (firstn_skipn start G) at 1. f_equal.
  rewrite <- (firstn_skipn len (skipn start G)) at 1. rewrite skipn_skipn'. f_equal. exact Hz.
Qed.

(* ---------- the theorem ---------- *)

Lemma to_ipv4_mapped_some g0 g1 g2 g3 g4 g5 ab cd v4 :
  to_ipv4_mapped [g0; g1; g2; g3; g4; g5; ab; cd] = Some v4 ->
  g0 = 0 /\ g1 = 0 /\ g2 = 0 /\ g3 = 0 /\ g4 = 0 /\ g5 = 65535 /\ v4 = [ab / 256; ab mod 256; cd / 256; cd mod 256].
Proof.
  unfold to_ipv4_mapped.
  destruct (Z.eqb_spec g0 0); destruct (Z.eqb_spec g1 0); destruct (Z.eqb_spec g2 0); destruct (Z.eqb_spec g3 0);
  destruct (Z.eqb_spec g4 0); destruct (Z.eqb_spec g5 65535); cbn [andb]; intros H; inversion H; subst; tauto.
Qed.

Ltac Zify.zify_post_hook ::= Z.div_mod_to_equations.

Lemma fmt_first_none gs rest : gs <> [] -> Forall u16 gs -> stop rest -> read_ipv4_addr (fmt_subslice gs ++ rest) = None.
Proof.
  intros Hne Hg Hs. destruct gs as [|g gs]; [congruence|]. inversion Hg; subst.
  rewrite fmt_subslice_cons, <- app_assoc. apply read_ipv4_hex_group; [assumption|].
  apply colon_groups_colon_or_end. exact Hs.
Qed.

Lemma Forall_firstn {A} (P : A -> Prop) n l : Forall P l -> Forall P (firstn n l).
Proof. revert l. induction n; intros l H; cbn; [constructor|]. destruct l; [constructor|]. inversion H; subst. constructor; auto. Qed.

Lemma Forall_skipn {A} (P : A -> Prop) n l : Forall P l -> Forall P (skipn n l).
Proof. revert l. induction n; intros l H; cbn; [exact H|]. destruct l; [constructor|]. inversion H; subst. auto. Qed.

Theorem ipv6_text_roundtrip G :
  length G = 8%nat -> Forall u16 G -> parse_ip (ipv6_to_string G) = Some (V6 G).
Proof.
  intros Hl Hg.
  destruct G as [|g0 [|g1 [|g2 [|g3 [|g4 [|g5 [|g6 [|g7 [|? ?]]]]]]]]]; try discriminate.
  unfold ipv6_to_string.
  destruct (to_ipv4_mapped [g0; g1; g2; g3; g4; g5; g6; g7]) as [v4|] eqn:M.
  - (* IPv4-mapped *)
    apply to_ipv4_mapped_some in M. destruct M as (-> & -> & -> & -> & -> & -> & ->).
    assert (H6 : u16 g6) by (inversion Hg as [|? ? _ H]; do 5 (inversion H as [|? ? _ H']; clear H; rename H' into H); inversion H; assumption).
    assert (H7 : u16 g7) by (inversion Hg as [|? ? _ H]; do 6 (inversion H as [|? ? _ H']; clear H; rename H' into H); inversion H; assumption).
    unfold u16 in H6, H7.
    change (ascii_bytes "::ffff:"%string ++ ipv4_to_string [g6 / 256; g6 mod 256; g7 / 256; g7 mod 256])
      with (mapped_text (ipv4_to_string [g6 / 256; g6 mod 256; g7 / 256; g7 mod 256])).
    rewrite parse_ip_mapped_text by (unfold octet; lia).
    do 2 f_equal. repeat f_equal; lia.
  - (* longest zero run *)
    pose proof (zero_span_decomp [g0; g1; g2; g3; g4; g5; g6; g7] eq_refl) as D.
    set (G := [g0; g1; g2; g3; g4; g5; g6; g7]) in *.
    destruct (zero_span G O (O, O) (O, O)) as [start len].
    destruct D as [DG Dle].
    destruct (Nat.ltb 1 len) eqn:L.
    + apply Nat.ltb_lt in L.
      set (H := firstn start G) in *. set (T := skipn (start + len) G) in *.
      assert (HH : Forall u16 H) by (apply Forall_firstn; exact Hg).
      assert (HT : Forall u16 T) by (apply Forall_skipn; exact Hg).
      assert (LH : length H = start) by (unfold H; rewrite firstn_length; unfold G; cbn [length]; lia).
      assert (LT : length T = (8 - (start + len))%nat) by (unfold T; rewrite skipn_length; unfold G; cbn [length]; lia).
      assert (Stop2 : stop (58%N :: 58%N :: fmt_subslice T)) by (right; eexists; reflexivity).
      unfold parse_ip, ch_colon.
      assert (N4 : read_ipv4_addr (fmt_subslice H ++ 58%N :: 58%N :: fmt_subslice T) = None).
      { destruct H as [|h0 H'] eqn:EH.
        - cbn [fmt_subslice app]. apply read_ipv4_colon.
        - apply fmt_first_none; [discriminate | exact HH | exact Stop2]. }
      rewrite N4. unfold read_ipv6_addr.
      rewrite (read_groups_fmt H 8 _ HH ltac:(lia) Stop2).
      replace (Nat.eqb (length H) 8) with false by (symmetry; apply Nat.eqb_neq; lia).
      cbv iota.
      rewrite <- (app_nil_r (fmt_subslice T)).
      cbv zeta.
      rewrite (read_groups_fmt T (8 - (length H + 1)) [] HT ltac:(lia) ltac:(left; reflexivity)).
      replace (8 - length H - length T)%nat with len by lia.
      rewrite <- DG. reflexivity.
    + unfold parse_ip.
      assert (N4 : read_ipv4_addr (fmt_subslice G) = None).
      { rewrite <- (app_nil_r (fmt_subslice G)). apply fmt_first_none; [discriminate | exact Hg | left; reflexivity]. }
      rewrite N4. unfold read_ipv6_addr.
      rewrite <- (app_nil_r (fmt_subslice G)).
      rewrite (read_groups_fmt G 8 [] Hg ltac:(unfold G; cbn; lia) ltac:(left; reflexivity)).
      reflexivity.
Qed.

(* ---------- ip_ntop / ip_pton on 16 bytes ---------- *)

Lemma segments_octets_roundtrip (b : bytes) :
  length b = 16%nat -> wf_bytes b = true ->
  let G := segments_of_octets (octets_of_bytes b) in
  length G = 8%nat /\ Forall u16 G /\ bytes_of_octets (octets_of_segments G) = b.
Proof.
  intros Hl Hw.
  do 16 (destruct b as [|?x b]; [discriminate|]). destruct b; [|discriminate].
  cbn [wf_bytes forallb] in Hw. repeat (apply andb_true_iff in Hw; destruct Hw as [?Hb Hw]).
  repeat match goal with H : (_ <? 256)%N = true |- _ => apply N.ltb_lt in H end.
  cbv zeta. cbn [octets_of_bytes map segments_of_octets length]. split; [reflexivity|]. split.
  - unfold u16. repeat constructor; lia.
  - cbn [octets_of_segments bytes_of_octets map].
    repeat (apply (f_equal2 (@cons N)); [lia|]). reflexivity.
Qed.

Theorem ntop_pton_roundtrip_v6 b :
  length b = 16%nat -> wf_bytes b = true ->
  exists s, ip_ntop (VBytes b) = ROk (VBytes s) /\ ip_pton (VBytes s) = ROk (VBytes b).
Proof.
  intros Hl Hw. destruct (segments_octets_roundtrip b Hl Hw) as (L8 & HG & Hb).
  unfold ip_ntop. rewrite Hl. cbn [Nat.eqb]. eexists. split; [reflexivity|].
  unfold ip_pton. rewrite (ipv6_text_roundtrip _ L8 HG). rewrite Hb. reflexivity.
Qed.

(* the canonical text of an address is a fixed point of ip_to_ipv6 *)
Theorem ip_to_ipv6_canonical G :
  length G = 8%nat -> Forall u16 G -> ip_to_ipv6 (VBytes (ipv6_to_string G)) = ROk (VBytes (ipv6_to_string G)).
Proof. intros Hl Hg. unfold ip_to_ipv6. rewrite (ipv6_text_roundtrip G Hl Hg). reflexivity. Qed.
