(* Soundness of Kind::remove with respect to `member`, on the domain `remove_ok` (element removal goes
   through remove_shift, which is right only inside shift_ok). *)
From Coq Require Import List NArith ZArith Bool Lia.
From VRL Require Import Base.Bytes Base.Value Model.ValueCrud Model.Kind Model.KindCrud Model.KindDomains
  Proofs.ValueCrudProofs Proofs.KindBasics Proofs.KindMergeProofs Proofs.KindGetProofs Proofs.KindInsertProofs.
Import ListNotations.

Fixpoint last_field (p : path) : bool :=
  match p with
  | [] => true
  | [SField _] => true
  | [SIndex _] => false
  | _ :: p' => last_field p'
  end.

(* the value after Value::remove below the root *)
Definition rm_res (v : value) (p : path) (prune : bool) : value :=
  match rm v p prune with Some (_, v') => v' | None => v end.

(* ---------- small facts ---------- *)

Lemma is_never_eq k : is_never k = true -> k = k_never.
Proof.
  destruct k as [[] a o]. unfold is_never, p_is_none. cbn.
  rewrite !andb_true_iff, !negb_true_iff, !orb_false_iff.
  intros [[H Ha] Ho]. destruct a, o; try discriminate. decompose [and] H; subst. reflexivity.
Qed.

Lemma is_never_or_undefined k : is_never (or_undefined k) = false.
Proof.
  destruct k as [[b1 b2 b3 b4 b5 b6 b7 b8] a o]. unfold is_never, p_is_none. cbn.
  rewrite !orb_true_r. reflexivity.
Qed.

Lemma is_never_unknown_kind {K} (c : coll_ K kind) : is_never (unknown_kind c) = false.
Proof. apply is_never_or_undefined. Qed.

Lemma any_defined_or_undefined k : contains_any_defined (or_undefined k) = contains_any_defined k.
Proof. destruct k as [[] a o]; reflexivity. Qed.

Lemma co_new_ok k : is_never k = false -> co_new (contains_any_defined k) (contains_undefined k) <> CPanic.
Proof.
  destruct k as [[b1 b2 b3 b4 b5 b6 b7 b8] [a|] [o|]];
    destruct b1, b2, b3, b4, b5, b6, b7, b8; cbn; congruence.
Qed.

Lemma coll_at_set {K} (keqb : K -> K -> bool) (kcmp : K -> K -> comparison)
      (keqb_spec : forall a b, keqb a b = true <-> a = b) (kcmp_spec : forall a b, kcmp a b = Eq <-> a = b)
      (c : coll_ K kind) f x g :
  coll_at keqb (set_known c (aset kcmp (known c) f x)) g = if keqb f g then x else coll_at keqb c g.
Proof.
  unfold coll_at. cbn [set_known known unknown_kind unknown]. rewrite (aget_aset keqb kcmp keqb_spec kcmp_spec).
  destruct (keqb f g); reflexivity.
Qed.

Lemma coll_at_remove_known_o (c : ocoll) f g :
  coll_at bytes_eqb (remove_known_o c f) g = if bytes_eqb f g then unknown_kind c else coll_at bytes_eqb c g.
Proof.
  unfold coll_at, remove_known_o. cbn [set_known known unknown_kind unknown].
  rewrite (aget_adel bytes_eqb bytes_eqb_eq). destruct (bytes_eqb f g); reflexivity.
Qed.

Lemma in_obj_remove_sorted m f : obj_sorted m = true -> forall g w,
  In (g, w) (obj_remove m f) -> g <> f /\ In (g, w) m.
Proof.
  induction m as [|[k v] m IH]; intros Hs g w Hin; cbn in Hin; [contradiction|].
  destruct (bytes_eqb k f) eqn:E.
  - apply bytes_eqb_eq in E; subst k. split; [|right; auto].
    apply not_eq_sym. apply cmp_lt_neq. eapply sorted_head_lt; eauto.
  - destruct Hin as [H|Hin].
    + inversion H; subst. split; [apply bytes_eqb_neq; auto | left; auto].
    + destruct (IH (sorted_tail _ _ _ Hs) g w Hin). split; auto. right; auto.
Qed.

Lemma obj_get_remove_none m f g : obj_get (obj_remove m f) g = None -> g <> f -> obj_get m g = None.
Proof. intros H Hne. rewrite obj_get_remove_other in H; auto. Qed.

(* members that are not the container are untouched by a change of that container *)
Lemma member_other_obj v k c' : (forall m, v <> VObj m) -> member v k = true ->
  member v (Kind (prims_of k) (arr_of k) (Some c')) = true.
Proof. destruct k as [p a o]. destruct v; cbn; auto. intros H. exfalso. eapply H; eauto. Qed.

Lemma member_other_arr v k c' : (forall vs, v <> VArr vs) -> member v k = true ->
  member v (Kind (prims_of k) (Some c') (obj_of k)) = true.
Proof. destruct k as [p a o]. destruct v; cbn; auto. intros H. exfalso. eapply H; eauto. Qed.

Lemma member_obj_kind m k c' : member (VObj m) (Kind (prims_of k) (arr_of k) (Some c')) = obj_ok m c'.
Proof. rewrite member_obj. reflexivity. Qed.

Lemma member_arr_kind vs k c' : member (VArr vs) (Kind (prims_of k) (Some c') (obj_of k)) = arr_ok vs c'.
Proof. rewrite member_arr. reflexivity. Qed.

(* ---------- remove_inner, unfolded ---------- *)

Lemma remove_inner_field k f p' cpt c : is_never k = false -> obj_of k = Some c ->
  remove_inner k (SField f :: p') cpt =
  let '(c1, co) :=
    match aget bytes_eqb (known c) f with
    | Some child => let '(child', co) := remove_inner child p' cpt in
                    (set_known c (aset bytes_cmp (known c) f child'), co)
    | None => (c, snd (remove_inner (at_path k (SField f :: p')) p' cpt))
    end in
  let '(c2, co') := compact_o co c1 f cpt in
  (Kind (prims_of k) (arr_of k) (Some c2), co').
Proof. intros Hn Ho. cbn [remove_inner]. rewrite Hn, Ho. reflexivity. Qed.

Lemma remove_inner_field_none k f p' cpt : is_never k = false -> obj_of k = None ->
  remove_inner k (SField f :: p') cpt = (k, CNever).
Proof. intros Hn Ho. cbn [remove_inner]. rewrite Hn, Ho. reflexivity. Qed.

Lemma remove_inner_index_none k i p' cpt : is_never k = false -> arr_of k = None ->
  remove_inner k (SIndex i :: p') cpt = (k, CNever).
Proof. intros Hn Ho. cbn [remove_inner]. rewrite Hn, Ho. reflexivity. Qed.

Lemma remove_inner_undefined p cpt : p <> [] -> remove_inner k_undefined p cpt = (k_undefined, CNever).
Proof. destruct p as [|[f|i] p]; [congruence| |]; reflexivity. Qed.

(* the kind of a key that cannot be there *)
Lemma unknown_undefined_only {K} (c : coll_ K kind) : contains_any_defined (unknown_kind c) = false ->
  unknown_kind c = k_undefined.
Proof.
  unfold unknown_kind, unknown_kind_u, contains_any_defined. intros H. apply negb_false_iff in H.
  destruct (existing_kind (unknown c)) as [[] a o]. unfold is_undefined, p_is_none in H. cbn in H.
  destruct a, o; cbn in H; try (rewrite ?andb_false_r in H; discriminate).
  rewrite !andb_true_r in H. apply negb_true_iff in H. rewrite !orb_false_iff in H.
  decompose [and] H; subst. reflexivity.
Qed.

Lemma or_undefined_k_undefined : or_undefined k_undefined = k_undefined.
Proof. reflexivity. Qed.

(* rm_index, against what get_positive_index and the value-level array_index compute *)
Lemma largest_all_defined c : all_defined c = true -> largest_known_index c = max_opt (map fst (known c)).
Proof. intros H. unfold largest_known_index. rewrite filter_all; auto. Qed.

(* ---------- CompactOptions of a nested removal without compaction ---------- *)

Lemma compact_never {K} (rk : coll_ K kind -> K -> coll_ K kind) cu co (c : coll_ K kind) key :
  co <> CPanic -> snd (compact rk cu co c key false) = CNever.
Proof. destruct co; cbn; congruence. Qed.

Lemma compact_CNever {K} (rk : coll_ K kind -> K -> coll_ K kind) cu (c : coll_ K kind) key cpt :
  compact rk cu CNever c key cpt = (c, CNever).
Proof. reflexivity. Qed.

Lemma remove_inner_nil k cpt : is_never k = false ->
  remove_inner k [] cpt = (k, co_new (contains_any_defined k) (contains_undefined k)).
Proof. intros Hn. cbn. rewrite Hn. reflexivity. Qed.

Lemma remove_inner_nil_co k cpt : snd (remove_inner k [] cpt) <> CPanic.
Proof.
  destruct (is_never k) eqn:Hn.
  - cbn. rewrite Hn. discriminate.
  - rewrite remove_inner_nil by auto. apply co_new_ok; auto.
Qed.

Lemma rm_index_pos c i idx : rm_index c i = Some (Some idx) -> (0 <= i)%Z -> idx = Z.to_nat i.
Proof. unfold rm_index. destruct (Z.leb_spec 0 i); [|lia]. intros Hr _. inversion Hr; auto. Qed.

Lemma rm_index_neg c i r : rm_index c i = Some r -> (i < 0)%Z ->
  contains_any_defined (unknown_kind c) = false /\ all_required c = true /\ all_defined c = true
  /\ r = (if Nat.leb (Z.to_nat (- i)) (known_len c) then Some (known_len c - Z.to_nat (- i)) else None).
Proof.
  unfold rm_index. destruct (Z.leb_spec 0 i); [lia|].
  destruct (contains_any_defined (unknown_kind c)); [discriminate|].
  destruct (all_required c); [|discriminate]. destruct (all_defined c); [|discriminate]. cbn.
  intros Hr _. inversion Hr; auto.
Qed.

Lemma get_positive_index_spec c i : (i < 0)%Z -> contains_any_defined (unknown_kind c) = false ->
  all_defined c = true ->
  get_positive_index c i =
  if Nat.leb (Z.to_nat (- i)) (known_len c) then Some (known_len c - Z.to_nat (- i)) else None.
Proof.
  intros Hi Hd Hdef. unfold get_positive_index. rewrite Hd, (largest_all_defined _ Hdef). unfold known_len.
  destruct (max_opt (map fst (known c))) as [l|].
  - destruct (Z.geb_spec (Z.of_nat l) (- i - 1)), (Nat.leb_spec (Z.to_nat (- i)) (S l)); try lia; auto.
    f_equal. lia.
  - destruct (Nat.leb_spec (Z.to_nat (- i)) 0); auto. lia.
Qed.

Lemma remove_inner_index k i p' cpt c idx : is_never k = false -> arr_of k = Some c ->
  rm_index c i = Some (Some idx) ->
  remove_inner k (SIndex i :: p') cpt =
  let '(c1, co) :=
    match aget Nat.eqb (known c) idx with
    | Some child => let '(child', co) := remove_inner child p' cpt in
                    (set_known c (aset Nat.compare (known c) idx child'), co)
    | None => (c, snd (remove_inner (at_path k (SIndex i :: p')) p' cpt))
    end in
  let '(c2, co') := compact_a co c1 idx cpt in
  (Kind (prims_of k) (Some c2) (obj_of k), co').
Proof.
  intros Hn Ha Hr. cbn [remove_inner]. rewrite Hn, Ha. destruct (Z.ltb_spec i 0) as [Hi|Hi].
  - destruct (rm_index_neg _ _ _ Hr Hi) as (Hd & _ & Hdef & Hidx). rewrite Hd.
    rewrite (get_positive_index_spec c i Hi Hd Hdef).
    destruct (Nat.leb (Z.to_nat (- i)) (known_len c)); [|discriminate]. inversion Hidx; subst. reflexivity.
  - rewrite (rm_index_pos _ _ _ Hr Hi). reflexivity.
Qed.

Lemma remove_inner_index_out k i p' cpt c : is_never k = false -> arr_of k = Some c ->
  rm_index c i = Some None -> remove_inner k (SIndex i :: p') cpt = (k, CNever).
Proof.
  intros Hn Ha Hr. assert (i < 0)%Z as Hi.
  { unfold rm_index in Hr. destruct (Z.leb_spec 0 i); [discriminate | lia]. }
  cbn [remove_inner]. rewrite Hn, Ha. destruct (Z.ltb_spec i 0); [|lia].
  destruct (rm_index_neg _ _ _ Hr Hi) as (Hd & _ & Hdef & Hidx). rewrite Hd.
  rewrite (get_positive_index_spec c i Hi Hd Hdef).
  destruct (Nat.leb (Z.to_nat (- i)) (known_len c)); [discriminate | reflexivity].
Qed.

(* at_path through a key that cannot be there *)
Lemma at_path_absent_field k c f p' : is_never k = false -> obj_of k = Some c ->
  aget bytes_eqb (known c) f = None -> contains_any_defined (unknown_kind c) = false ->
  at_path k (SField f :: p') = k_undefined.
Proof.
  intros Hn Ho E Hd. rewrite at_path_step by auto. cbn [at_seg]. unfold get_field, coll_at. rewrite Ho, E.
  rewrite (unknown_undefined_only _ Hd). destruct (is_exact k); apply at_path_undefined.
Qed.

Lemma at_path_absent_index k c i idx p' : is_never k = false -> arr_of k = Some c ->
  rm_index c i = Some (Some idx) ->
  aget Nat.eqb (known c) idx = None -> contains_any_defined (unknown_kind c) = false ->
  at_path k (SIndex i :: p') = k_undefined.
Proof.
  intros Hn Ha Hr E Hd. rewrite at_path_step by auto. cbn [at_seg]. rewrite Ha, Hd.
  destruct (Z.ltb_spec i 0) as [Hi|Hi].
  - destruct (rm_index_neg _ _ _ Hr Hi) as (_ & _ & _ & Hidx). fold (known_len c).
    destruct (Nat.leb (Z.to_nat (- i)) (known_len c)) eqn:El; [|apply at_path_undefined].
    inversion Hidx; subst idx. apply Nat.leb_le in El.
    replace (Z.to_nat (i + Z.of_nat (known_len c))) with (known_len c - Z.to_nat (- i)) by lia.
    unfold at_index, coll_at. rewrite E, (unknown_undefined_only _ Hd).
    destruct (is_exact k); apply at_path_undefined.
  - rewrite <- (rm_index_pos _ _ _ Hr Hi). unfold at_index, coll_at. rewrite E, (unknown_undefined_only _ Hd).
    destruct (is_exact k); apply at_path_undefined.
Qed.

(* no panic, and nothing to compact, below the last segment when compaction is off *)
Lemma remove_inner_co p : forall k, p <> [] -> rm_ok k p = true -> snd (remove_inner k p false) = CNever.
Proof.
  induction p as [|s p IH]; intros k Hp Hok; [congruence|].
  destruct (is_never k) eqn:Hn; [cbn [remove_inner]; rewrite Hn; reflexivity|].
  cbn [rm_ok] in Hok. rewrite Hn in Hok. destruct s as [f|i].
  - destruct (obj_of k) as [c|] eqn:Ho; [|rewrite remove_inner_field_none by auto; reflexivity].
    rewrite (remove_inner_field k f p false c Hn Ho).
    destruct (aget bytes_eqb (known c) f) as [child|] eqn:E.
    + destruct (remove_inner child p false) as [child' co] eqn:Er.
      assert (co <> CPanic) as Hco.
      { destruct p as [|s' p']; [pose proof (remove_inner_nil_co child false) as H; rewrite Er in H; exact H|].
        specialize (IH child ltac:(congruence) Hok). rewrite Er in IH. cbn in IH. subst. discriminate. }
      unfold compact_o. destruct (compact _ _ co _ f false) as [c2 co'] eqn:Ec.
      pose proof (compact_never remove_known_o cunion_o co (set_known c (aset bytes_cmp (known c) f child')) f Hco) as H.
      rewrite Ec in H. exact H.
    + set (co := snd (remove_inner (at_path k (SField f :: p)) p false)).
      assert (co <> CPanic) as Hco.
      { unfold co. destruct p as [|s' p']; [apply remove_inner_nil_co|].
        apply negb_true_iff in Hok. rewrite (at_path_absent_field k c f _ Hn Ho E Hok).
        rewrite remove_inner_undefined by congruence. discriminate. }
      unfold compact_o. destruct (compact _ _ co c f false) as [c2 co'] eqn:Ec.
      pose proof (compact_never remove_known_o cunion_o co c f Hco) as H. rewrite Ec in H. exact H.
  - destruct (arr_of k) as [c|] eqn:Ha; [|rewrite remove_inner_index_none by auto; reflexivity].
    destruct (rm_index c i) as [[idx|]|] eqn:Hr; [| |discriminate].
    2:{ rewrite (remove_inner_index_out k i p false c Hn Ha Hr). reflexivity. }
    rewrite (remove_inner_index k i p false c idx Hn Ha Hr).
    destruct (aget Nat.eqb (known c) idx) as [child|] eqn:E.
    + destruct (remove_inner child p false) as [child' co] eqn:Er.
      assert (co <> CPanic) as Hco.
      { destruct p as [|s' p']; [pose proof (remove_inner_nil_co child false) as H; rewrite Er in H; exact H|].
        specialize (IH child ltac:(congruence) Hok). rewrite Er in IH. cbn in IH. subst. discriminate. }
      unfold compact_a. destruct (compact _ _ co _ idx false) as [c2 co'] eqn:Ec.
      pose proof (compact_never remove_shift cunion_a co (set_known c (aset Nat.compare (known c) idx child')) idx Hco) as H.
      rewrite Ec in H. exact H.
    + set (co := snd (remove_inner (at_path k (SIndex i :: p)) p false)).
      assert (co <> CPanic) as Hco.
      { unfold co. destruct p as [|s' p']; [apply remove_inner_nil_co|].
        apply negb_true_iff in Hok. rewrite (at_path_absent_index k c i idx _ Hn Ha Hr E Hok).
        rewrite remove_inner_undefined by congruence. discriminate. }
      unfold compact_a. destruct (compact _ _ co c idx false) as [c2 co'] eqn:Ec.
      pose proof (compact_never remove_shift cunion_a co c idx Hco) as H. rewrite Ec in H. exact H.
Qed.

(* remove_inner leaves the primitive states alone *)
Lemma prims_remove_inner p : forall k cpt, is_never k = false -> prims_of (fst (remove_inner k p cpt)) = prims_of k.
Proof.
  destruct p as [|[f|i] p]; intros k cpt Hn.
  - rewrite remove_inner_nil by auto. reflexivity.
  - destruct (obj_of k) as [c|] eqn:Ho; [|rewrite remove_inner_field_none by auto; reflexivity].
    rewrite (remove_inner_field k f p cpt c Hn Ho).
    match goal with |- context [let '(c1, co) := ?X in _] => destruct X as [c1 co] end.
    destruct (compact_o co c1 f cpt). reflexivity.
  - cbn [remove_inner]. rewrite Hn. destruct (arr_of k) as [c|]; [|reflexivity].
    repeat match goal with
           | |- context [if ?b then _ else _] => destruct b
           | |- context [match ?x with Some _ => _ | None => _ end] => destruct x
           | |- context [let '(_, _) := ?x in _] => destruct x
           end; reflexivity.
Qed.

(* ---------- the value side ---------- *)

Lemma in_obj_get m f w : In (f, w) m -> obj_get m f <> None.
Proof.
  induction m as [|[k v] m IH]; cbn; [tauto|]. intros [H|H].
  - inversion H; subst. rewrite bytes_eqb_refl. discriminate.
  - destruct (bytes_eqb k f); [discriminate | auto].
Qed.

Lemma sorted_in_get m : obj_sorted m = true -> forall f w, In (f, w) m -> obj_get m f = Some w.
Proof.
  induction m as [|[k v] m IH]; intros Hs f w Hin; [contradiction|]. cbn.
  destruct Hin as [H|Hin].
  - inversion H; subst. rewrite bytes_eqb_refl. reflexivity.
  - assert (bytes_eqb k f = false) as ->.
    { apply bytes_eqb_neq. apply cmp_lt_neq. eapply sorted_head_lt; eauto. }
    apply IH; auto. eapply sorted_tail; eauto.
Qed.

Lemma arr_set_in_range vs i idx w : arr_index (length vs) i = Some idx -> idx < length vs ->
  arr_set vs i w = list_set vs idx w.
Proof.
  unfold arr_index, arr_set. destruct (Z.leb_spec 0 i) as [Hz|Hz].
  - intros He Hl. inversion He; subst. destruct (Nat.leb_spec (length vs) (Z.to_nat i)); [lia | reflexivity].
  - destruct (Z.leb_spec 0 (Z.of_nat (length vs) + i)) as [Hz'|Hz']; [|discriminate]. intros He Hl. inversion He; subst.
    destruct (Nat.ltb_spec (length vs) (Z.to_nat (- i))); [lia|]. f_equal. lia.
Qed.

(* the position a segment designates in a member array *)
Lemma rm_index_value vs c i r : arr_ok vs c = true -> rm_index c i = Some r ->
  arr_get vs i = match r with Some idx => nth_error vs idx | None => None end
  /\ match r with Some idx => arr_index (length vs) i = Some idx | None => True end.
Proof.
  intros Hm Hr. unfold arr_get. destruct (Z.ltb_spec i 0) as [Hi|Hi].
  - destruct (rm_index_neg _ _ _ Hr Hi) as (Hd & Hreq & Hdef & ->).
    pose proof (arr_len_ge _ _ Hm Hreq) as Hge. pose proof (arr_len_le _ _ Hm Hd) as Hle.
    assert (length vs = known_len c) as HL by lia. unfold arr_index. destruct (Z.leb_spec 0 i) as [Hz|Hz]; [lia|].
    destruct (Nat.leb_spec (Z.to_nat (- i)) (known_len c)) as [Hq|Hq].
    + destruct (Z.leb_spec 0 (Z.of_nat (length vs) + i)) as [Hz'|Hz']; [|lia].
      replace (Z.to_nat (Z.of_nat (length vs) + i)) with (known_len c - Z.to_nat (- i)) by lia. auto.
    + destruct (Z.leb_spec 0 (Z.of_nat (length vs) + i)) as [Hz'|Hz']; [lia|]. auto.
  - unfold rm_index in Hr. destruct (Z.leb_spec 0 i) as [Hz|Hz]; [|lia]. inversion Hr; subst.
    unfold arr_index. destruct (Z.leb_spec 0 i) as [Hz'|Hz']; [|lia]. auto.
Qed.

Lemma rm_field_inner m f s' p' prune :
  rm (VObj m) (SField f :: s' :: p') prune =
  match obj_get m f with
  | Some c' =>
      match rm c' (s' :: p') prune with
      | Some (prev, c'') =>
          Some (prev, VObj (if prune && is_empty_coll c'' then obj_remove m f else obj_set m f c''))
      | None => None
      end
  | None => None
  end.
Proof. reflexivity. Qed.

Lemma rm_index_inner a i s' p' prune :
  rm (VArr a) (SIndex i :: s' :: p') prune =
  match arr_get a i with
  | Some c' =>
      match rm c' (s' :: p') prune with
      | Some (prev, c'') =>
          Some (prev, VArr (if prune && is_empty_coll c''
                            then match arr_remove a i with Some (_, a') => a' | None => a end
                            else arr_set a i c''))
      | None => None
      end
  | None => None
  end.
Proof. reflexivity. Qed.

(* ---------- Vec::remove ---------- *)

Lemma nth_error_remove_nth {A} (l : list A) : forall idx n,
  nth_error (list_remove_nth l idx) n = if Nat.ltb n idx then nth_error l n else nth_error l (S n).
Proof.
  induction l as [|x l IH]; intros idx n.
  - cbn [list_remove_nth]. destruct (Nat.ltb n idx); destruct n; reflexivity.
  - destruct idx as [|idx]; cbn [list_remove_nth].
    + reflexivity.
    + destruct n as [|n]; cbn [nth_error]; auto. rewrite IH.
      destruct (Nat.ltb_spec n idx), (Nat.ltb_spec (S n) (S idx)); auto; lia.
Qed.

Lemma length_remove_nth {A} (l : list A) : forall idx, idx < length l -> length (list_remove_nth l idx) = length l - 1.
Proof.
  induction l as [|x l IH]; intros idx Hl; cbn in *; [lia|].
  destruct idx; cbn; [lia|]. rewrite IH by lia. lia.
Qed.

(* ---------- remove_shift, key by key ---------- *)

Definition shift_step (idx : nat) (m : list (nat * kind)) : list (nat * kind) :=
  match aget Nat.eqb m (S idx) with
  | Some x => aset Nat.compare (adel Nat.eqb m (S idx)) idx x
  | None => m
  end.

Lemma aget_adel' (m : list (nat * kind)) k n :
  aget Nat.eqb (adel Nat.eqb m k) n = if Nat.eqb k n then None else aget Nat.eqb m n.
Proof. apply (aget_adel Nat.eqb nat_eqb_spec'). Qed.

Lemma aget_aset' (m : list (nat * kind)) k x n :
  aget Nat.eqb (aset Nat.compare m k x) n = if Nat.eqb k n then Some x else aget Nat.eqb m n.
Proof. apply (aget_aset Nat.eqb Nat.compare nat_eqb_spec' nat_cmp_spec'). Qed.

Lemma shift_step_idem idx m : shift_step idx (shift_step idx m) = shift_step idx m.
Proof.
  unfold shift_step. destruct (aget Nat.eqb m (S idx)) as [x|] eqn:E.
  - rewrite aget_aset', aget_adel'.
    destruct (Nat.eqb_spec idx (S idx)); [lia|]. rewrite Nat.eqb_refl. reflexivity.
  - rewrite E. reflexivity.
Qed.

Lemma fold_shift_step idx (l : list nat) : forall m,
  fold_left (fun m _ => shift_step idx m) l m = match l with [] => m | _ :: _ => shift_step idx m end.
Proof.
  induction l as [|a l IH]; intros m; cbn; auto. rewrite IH. destruct l; auto. apply shift_step_idem.
Qed.

Lemma remove_shift_known c idx :
  known (remove_shift c idx) =
  if Nat.leb (min_length c) idx then adel Nat.eqb (known c) idx
  else shift_step idx (adel Nat.eqb (known c) idx).
Proof.
  unfold remove_shift. cbn [set_known known]. fold (shift_step idx).
  change (fun (m : list (nat * kind)) (_ : nat) =>
            match aget Nat.eqb m (S idx) with
            | Some x => aset Nat.compare (adel Nat.eqb m (S idx)) idx x
            | None => m
            end) with (fun (m : list (nat * kind)) (_ : nat) => shift_step idx m).
  rewrite fold_shift_step. destruct (Nat.leb_spec (min_length c) idx) as [Hl|Hl].
  - replace (min_length c - idx) with 0 by lia. reflexivity.
  - destruct (min_length c - idx) eqn:E; [lia|]. reflexivity.
Qed.

Lemma unknown_remove_shift c idx : unknown_kind (remove_shift c idx) = unknown_kind c.
Proof. reflexivity. Qed.

(* an index whose known kind has a defined state lies below min_length *)
Lemma fold_max_ge r : forall x y, In y (x :: r) -> y <= fold_left Nat.max r x.
Proof.
  intros x y Hin. destruct (fold_max_spec r x) as (_ & H1 & H2). destruct Hin as [->|Hin]; auto.
Qed.

Lemma defined_below_min_length c j kk : In (j, kk) (known c) -> contains_any_defined kk = true -> j < min_length c.
Proof.
  intros Hin Hd. unfold min_length, largest_known_index.
  assert (In j (map fst (filter (fun kv => contains_any_defined (snd kv)) (known c)))) as Hj.
  { apply in_map_iff. exists (j, kk). split; auto. apply filter_In. auto. }
  pose proof (max_opt_spec (map fst (filter (fun kv => contains_any_defined (snd kv)) (known c)))) as Hs.
  destruct (max_opt _) as [m|]; [|rewrite Hs in Hj; contradiction].
  destruct Hs as [_ Hs]. specialize (Hs _ Hj). lia.
Qed.

Lemma shift_ok_spec c idx j : shift_ok c idx = true -> S idx < j -> aget Nat.eqb (known c) j = None.
Proof.
  unfold shift_ok. rewrite forallb_forall. intros H Hj.
  destruct (aget Nat.eqb (known c) j) as [kk|] eqn:E; auto.
  specialize (H (j, kk) (aget_in Nat.eqb nat_eqb_spec' _ _ _ E)). cbn in H. apply Nat.leb_le in H. lia.
Qed.

Lemma member_defined v k : member v k = true -> contains_any_defined k = true.
Proof.
  intros H. destruct (contains_any_defined k) eqn:E; auto.
  rewrite (not_defined_no_member _ _ E) in H. discriminate.
Qed.

(* the removed-and-shifted collection types the array with element idx taken out *)
Lemma arr_ok_shifted vs c idx : arr_ok vs c = true -> shift_ok c idx = true -> idx < length vs ->
  arr_ok (list_remove_nth vs idx) (remove_shift c idx) = true.
Proof.
  intros Hm Hs Hidx.
  (* what the shifted collection assigns to each index *)
  set (o1 := aget Nat.eqb (known c) (S idx)).
  set (moved := negb (Nat.leb (min_length c) idx) && is_some o1).
  assert (forall n, coll_at Nat.eqb (remove_shift c idx) n =
                    if Nat.ltb n idx then coll_at Nat.eqb c n
                    else if Nat.eqb n idx then (if moved then coll_at Nat.eqb c (S idx) else unknown_kind c)
                    else if Nat.eqb n (S idx) then (if moved then unknown_kind c else coll_at Nat.eqb c (S idx))
                    else unknown_kind c) as Hat.
  { intros n. unfold coll_at at 1. rewrite remove_shift_known, unknown_remove_shift. unfold moved, o1.
    destruct (Nat.leb (min_length c) idx); cbn [negb andb].
    - rewrite aget_adel'. destruct (Nat.ltb_spec n idx) as [Hn|Hn].
      + destruct (Nat.eqb_spec idx n); [lia|]. reflexivity.
      + destruct (Nat.eqb_spec n idx) as [->|Hne]; [rewrite Nat.eqb_refl; reflexivity|].
        destruct (Nat.eqb_spec idx n); [congruence|].
        destruct (Nat.eqb_spec n (S idx)) as [->|Hne2]; [reflexivity|].
        rewrite (shift_ok_spec c idx n Hs) by lia. reflexivity.
    - unfold shift_step. rewrite aget_adel'. destruct (Nat.eqb_spec idx (S idx)); [lia|].
      destruct (aget Nat.eqb (known c) (S idx)) as [x|] eqn:E1; cbn [is_some].
      + rewrite aget_aset', !aget_adel'. destruct (Nat.ltb_spec n idx) as [Hn|Hn].
        * destruct (Nat.eqb_spec idx n); [lia|]. destruct (Nat.eqb_spec (S idx) n); [lia|]. reflexivity.
        * destruct (Nat.eqb_spec n idx) as [->|Hne].
          -- rewrite Nat.eqb_refl. unfold coll_at. rewrite E1. reflexivity.
          -- destruct (Nat.eqb_spec idx n); [congruence|].
             destruct (Nat.eqb_spec n (S idx)) as [->|Hne2]; [rewrite Nat.eqb_refl; reflexivity|].
             destruct (Nat.eqb_spec (S idx) n); [congruence|].
             rewrite (shift_ok_spec c idx n Hs) by lia. reflexivity.
      + rewrite aget_adel'. destruct (Nat.ltb_spec n idx) as [Hn|Hn].
        * destruct (Nat.eqb_spec idx n); [lia|]. reflexivity.
        * destruct (Nat.eqb_spec n idx) as [->|Hne]; [rewrite Nat.eqb_refl; reflexivity|].
          destruct (Nat.eqb_spec idx n); [congruence|].
          destruct (Nat.eqb_spec n (S idx)) as [->|Hne2]; [unfold coll_at; rewrite E1; reflexivity|].
          rewrite (shift_ok_spec c idx n Hs) by lia. reflexivity. }
  (* an element at S idx of a kind that is known forces the move *)
  assert (forall y, nth_error vs (S idx) = Some y -> is_some o1 = true -> moved = true) as Hmv.
  { intros y Hy Ho. unfold moved. rewrite Ho, andb_true_r. unfold o1 in Ho.
    destruct (aget Nat.eqb (known c) (S idx)) as [x|] eqn:E1; [|discriminate].
    pose proof (arr_ok_elem _ _ _ _ Hm Hy) as Hyx. unfold coll_at in Hyx. rewrite E1 in Hyx.
    pose proof (defined_below_min_length c (S idx) x (aget_in Nat.eqb nat_eqb_spec' _ _ _ E1) (member_defined _ _ Hyx)).
    destruct (Nat.leb_spec (min_length c) idx); [lia | reflexivity]. }
  apply arr_ok_intro.
  - intros n y Hn. rewrite nth_error_remove_nth in Hn. rewrite Hat.
    destruct (Nat.ltb_spec n idx) as [Hlt|Hge].
    + eapply arr_ok_elem; eauto.
    + pose proof (arr_ok_elem _ _ _ _ Hm Hn) as Hy.
      destruct (Nat.eqb_spec n idx) as [->|Hne].
      * destruct moved eqn:Emv; auto.
        unfold coll_at in Hy. fold o1 in Hy. destruct o1 as [x|] eqn:Eo; auto.
        specialize (Hmv y Hn eq_refl). congruence.
      * assert (aget Nat.eqb (known c) (S n) = None) as En by (apply (shift_ok_spec c idx); auto; lia).
        unfold coll_at in Hy. rewrite En in Hy.
        destruct (Nat.eqb_spec n (S idx)) as [->|Hne2]; auto.
        destruct moved eqn:Emv; auto.
        (* not moved although S idx still holds a known kind: then nothing can sit at S idx, let alone behind it *)
        unfold coll_at. fold o1. destruct o1 as [x|] eqn:Eo; auto.
        assert (S idx < length vs) as Hl by (assert (S (S idx) < length vs) by (apply nth_error_Some; congruence); lia).
        destruct (nth_error vs (S idx)) as [z|] eqn:Ez; [|apply nth_error_None in Ez; lia].
        specialize (Hmv z eq_refl eq_refl). congruence.
  - intros n Hl. rewrite length_remove_nth in Hl by auto. rewrite Hat.
    destruct (Nat.ltb_spec n idx) as [Hlt|Hge]; [lia|].
    destruct (Nat.eqb_spec n idx) as [->|Hne].
    + destruct moved; [|apply p_undefined_unknown_kind]. eapply arr_ok_absent; eauto. lia.
    + destruct (Nat.eqb_spec n (S idx)) as [->|Hne2]; [|apply p_undefined_unknown_kind].
      destruct moved eqn:Emv; [apply p_undefined_unknown_kind|].
      destruct (Nat.le_gt_cases (length vs) (S idx)) as [Hle|Hgt]; [eapply arr_ok_absent; eauto|].
      (* S idx is inside the array: its element makes its kind defined, hence moved *)
      destruct (nth_error vs (S idx)) as [z|] eqn:Ez; [|apply nth_error_None in Ez; lia].
      unfold coll_at. fold o1. destruct o1 as [x|] eqn:Eo; [|apply p_undefined_unknown_kind].
      specialize (Hmv z eq_refl eq_refl). congruence.
Qed.

Lemma forallb_aset (P : nat * kind -> bool) (m : list (nat * kind)) k x :
  forallb P m = true -> P (k, x) = true -> forallb P (aset Nat.compare m k x) = true.
Proof.
  intros Hm Hx. induction m as [|[k' y] m IH]; cbn in *.
  - rewrite Hx. reflexivity.
  - apply andb_true_iff in Hm. destruct Hm as [Hy Hm]. destruct (Nat.compare k' k); cbn.
    + rewrite Hx, Hm. reflexivity.
    + rewrite Hy, IH; auto.
    + rewrite Hx, Hy, Hm. reflexivity.
Qed.

Lemma shift_ok_set c idx x : shift_ok c idx = true ->
  shift_ok (set_known c (aset Nat.compare (known c) idx x)) idx = true.
Proof.
  unfold shift_ok. cbn [set_known known]. intros H. apply forallb_aset; auto. cbn. apply Nat.leb_le. lia.
Qed.

Lemma arr_ok_pointwise vs (c c' : acoll) :
  (forall n, coll_at Nat.eqb c' n = coll_at Nat.eqb c n) -> arr_ok vs c = true -> arr_ok vs c' = true.
Proof.
  intros He Hm. apply arr_ok_intro.
  - intros n y Hn. rewrite He. eapply arr_ok_elem; eauto.
  - intros n Hl. rewrite He. eapply arr_ok_absent; eauto.
Qed.

Lemma compact_a_last vs (c1 : acoll) idx co cpt :
  arr_ok vs c1 = true -> shift_ok c1 idx = true -> co <> CPanic ->
  (co = CAlways -> p_undefined (prims_of (coll_at Nat.eqb c1 idx)) = false) ->
  (co = CNever -> contains_any_defined (coll_at Nat.eqb c1 idx) = false) ->
  (co = CMaybe -> ccompat Nat.eqb union_compat (remove_shift c1 idx) c1 = true) ->
  arr_ok (match nth_error vs idx with Some _ => list_remove_nth vs idx | None => vs end)
         (fst (compact_a co c1 idx cpt)) = true.
Proof.
  intros Hm Hs Hp HA HN HM. destruct co; cbn [compact_a compact fst]; try congruence.
  - destruct (nth_error vs idx) eqn:Eg.
    + apply arr_ok_shifted; auto. apply nth_error_Some. congruence.
    + pose proof (arr_ok_absent _ _ idx Hm) as Hu. rewrite (HA eq_refl) in Hu.
      apply nth_error_None in Eg. specialize (Hu Eg). discriminate.
  - apply (arr_ok_cmerge union union_compat union_sound union_undefined); auto.
    destruct (nth_error vs idx) eqn:Eg; [left | right; auto].
    apply arr_ok_shifted; auto. apply nth_error_Some. congruence.
  - destruct (nth_error vs idx) as [w|] eqn:Eg; auto.
    pose proof (arr_ok_elem _ _ _ _ Hm Eg) as Hw.
    rewrite (not_defined_no_member _ _ (HN eq_refl)) in Hw. discriminate.
Qed.

(* ---------- the last segment: a field ---------- *)

Lemma union_HU x y v : union_compat x y = true -> member v x = true \/ member v y = true -> member v (union x y) = true.
Proof. apply union_sound. Qed.

Lemma obj_ok_pointwise m (c c' : ocoll) :
  (forall g, coll_at bytes_eqb c' g = coll_at bytes_eqb c g) -> obj_ok m c = true -> obj_ok m c' = true.
Proof.
  intros He Hm. apply obj_ok_intro.
  - intros g w Hin. rewrite He. eapply obj_ok_elem; eauto.
  - intros g Hg. rewrite He. eapply obj_ok_absent; eauto.
Qed.

Lemma obj_ok_removed m (c1 : ocoll) f : obj_sorted m = true -> obj_ok m c1 = true ->
  obj_ok (obj_remove m f) (remove_known_o c1 f) = true.
Proof.
  intros Hs Hm. apply obj_ok_intro.
  - intros g w Hin. destruct (in_obj_remove_sorted _ _ Hs _ _ Hin) as [Hne Hin'].
    rewrite coll_at_remove_known_o. destruct (bytes_eqb f g) eqn:E; [apply bytes_eqb_eq in E; congruence|].
    eapply obj_ok_elem; eauto.
  - intros g Hg. rewrite coll_at_remove_known_o. destruct (bytes_eqb f g) eqn:E.
    + apply p_undefined_unknown_kind.
    + apply bytes_eqb_neq in E. eapply obj_ok_absent; eauto. eapply obj_get_remove_none; eauto.
Qed.

Lemma compact_o_last m (c1 : ocoll) f co cpt :
  obj_sorted m = true -> obj_ok m c1 = true -> co <> CPanic ->
  (co = CAlways -> p_undefined (prims_of (coll_at bytes_eqb c1 f)) = false) ->
  (co = CNever -> contains_any_defined (coll_at bytes_eqb c1 f) = false) ->
  (co = CMaybe -> ccompat bytes_eqb union_compat (remove_known_o c1 f) c1 = true) ->
  obj_ok (match obj_get m f with Some _ => obj_remove m f | None => m end) (fst (compact_o co c1 f cpt)) = true.
Proof.
  intros Hs Hm Hp HA HN HM. destruct co; cbn [compact_o compact fst]; try congruence.
  - (* always: the field is there *)
    destruct (obj_get m f) eqn:Eg.
    + apply obj_ok_removed; auto.
    + pose proof (obj_ok_absent _ _ _ Hm Eg) as Hu. rewrite (HA eq_refl) in Hu. discriminate.
  - (* maybe *)
    apply (obj_ok_cmerge union union_compat union_HU union_undefined); auto.
    destruct (obj_get m f); [left; apply obj_ok_removed; auto | right; auto].
  - (* never: the field cannot be there *)
    destruct (obj_get m f) as [w|] eqn:Eg; auto.
    pose proof (obj_ok_elem _ _ _ _ Hm (obj_get_in _ _ _ Eg)) as Hw.
    rewrite (not_defined_no_member _ _ (HN eq_refl)) in Hw. discriminate.
Qed.

Lemma co_new_cases k : is_never k = false ->
  let co := co_new (contains_any_defined k) (contains_undefined k) in
  co <> CPanic /\ (co = CAlways -> p_undefined (prims_of k) = false)
  /\ (co = CNever -> contains_any_defined k = false).
Proof.
  intros Hn. split; [apply co_new_ok; auto|]. unfold contains_undefined. rewrite Hn, orb_false_r.
  destruct (contains_any_defined k), (p_undefined (prims_of k)); cbn; repeat split; congruence.
Qed.

(* ---------- the last segment: an index ---------- *)

Lemma at_seg_index_rm k c i idx : arr_of k = Some c -> rm_index c i = Some (Some idx) ->
  at_seg k (SIndex i) = at_index k c idx.
Proof.
  intros Ha Hr. cbn [at_seg]. rewrite Ha. destruct (Z.ltb_spec i 0) as [Hi|Hi].
  - destruct (rm_index_neg _ _ _ Hr Hi) as (Hd & _ & _ & Hidx). rewrite Hd. fold (known_len c).
    destruct (Nat.leb (Z.to_nat (- i)) (known_len c)) eqn:El; [|discriminate].
    inversion Hidx; subst idx. apply Nat.leb_le in El. f_equal. lia.
  - rewrite <- (rm_index_pos _ _ _ Hr Hi). reflexivity.
Qed.

Lemma arr_remove_at vs i idx : arr_index (length vs) i = Some idx ->
  arr_remove vs i = match nth_error vs idx with Some x => Some (x, list_remove_nth vs idx) | None => None end.
Proof. unfold arr_remove. intros ->. reflexivity. Qed.

Lemma last_index_sound k c i idx vs cpt : is_never k = false -> arr_of k = Some c ->
  rm_index c i = Some (Some idx) -> arr_ok vs c = true -> shift_ok c idx && maybe_ok_a c idx = true ->
  member (VArr (match nth_error vs idx with Some _ => list_remove_nth vs idx | None => vs end))
         (fst (remove_inner k [SIndex i] cpt)) = true.
Proof.
  intros Hn Ha Hr Hm Hok. apply andb_true_iff in Hok. destruct Hok as [Hsh Hmb].
  rewrite (remove_inner_index k i [] cpt c idx Hn Ha Hr).
  assert (exists c1 co, (match aget Nat.eqb (known c) idx with
                         | Some child => let '(child', co) := remove_inner child [] cpt in
                                         (set_known c (aset Nat.compare (known c) idx child'), co)
                         | None => (c, snd (remove_inner (at_path k [SIndex i]) [] cpt))
                         end) = (c1, co)
                        /\ arr_ok vs c1 = true /\ shift_ok c1 idx = true /\ co <> CPanic
                        /\ (co = CAlways -> p_undefined (prims_of (coll_at Nat.eqb c1 idx)) = false)
                        /\ (co = CNever -> contains_any_defined (coll_at Nat.eqb c1 idx) = false)
                        /\ (co = CMaybe -> ccompat Nat.eqb union_compat (remove_shift c1 idx) c1 = true))
    as (c1 & co & -> & Hm1 & Hs1 & Hp & HA & HN & HM).
  { unfold maybe_ok_a in Hmb. destruct (aget Nat.eqb (known c) idx) as [child|] eqn:E.
    - exists (set_known c (aset Nat.compare (known c) idx child)).
      assert (forall n, coll_at Nat.eqb (set_known c (aset Nat.compare (known c) idx child)) n = coll_at Nat.eqb c n) as Hpt.
      { intros n. rewrite (coll_at_set Nat.eqb Nat.compare nat_eqb_spec' nat_cmp_spec').
        destruct (Nat.eqb_spec idx n) as [<-|]; auto. unfold coll_at. rewrite E. reflexivity. }
      assert (coll_at Nat.eqb (set_known c (aset Nat.compare (known c) idx child)) idx = child) as Hcf.
      { rewrite (coll_at_set Nat.eqb Nat.compare nat_eqb_spec' nat_cmp_spec'), Nat.eqb_refl. reflexivity. }
      destruct (is_never child) eqn:Hnc.
      + exists CNever. cbn [remove_inner]. rewrite Hnc. rewrite <- (is_never_eq _ Hnc).
        repeat split; try congruence.
        * eapply arr_ok_pointwise; eauto.
        * apply shift_ok_set; auto.
        * intros _. rewrite Hcf. rewrite (is_never_eq _ Hnc). reflexivity.
      + exists (co_new (contains_any_defined child) (contains_undefined child)).
        rewrite remove_inner_nil by auto. destruct (co_new_cases child Hnc) as (H1 & H2 & H3).
        rewrite Hcf. repeat split; auto.
        * eapply arr_ok_pointwise; eauto.
        * apply shift_ok_set; auto.
    - exists c. set (apk := at_path k [SIndex i]).
      assert (apk = (if is_exact k then unknown_kind c else or_undefined (unknown_kind c))) as Hapk.
      { unfold apk. rewrite at_path_step by auto. rewrite (at_seg_index_rm k c i idx Ha Hr).
        unfold at_index, coll_at. rewrite E. cbn [at_path]. destruct (is_exact k).
        - rewrite is_never_unknown_kind. reflexivity.
        - rewrite is_never_or_undefined. reflexivity. }
      assert (is_never apk = false) as Hna.
      { rewrite Hapk. destruct (is_exact k); [apply is_never_unknown_kind | apply is_never_or_undefined]. }
      assert (p_undefined (prims_of apk) = true) as Hua.
      { rewrite Hapk. destruct (is_exact k); [apply p_undefined_unknown_kind | apply p_undefined_or_undefined]. }
      assert (contains_any_defined apk = contains_any_defined (unknown_kind c)) as Hda.
      { rewrite Hapk. destruct (is_exact k); auto. apply any_defined_or_undefined. }
      exists (co_new (contains_any_defined apk) (contains_undefined apk)).
      rewrite remove_inner_nil by auto. cbn [snd]. destruct (co_new_cases apk Hna) as (H1 & H2 & H3).
      repeat split; auto.
      + intros Hco. rewrite (H2 Hco) in Hua. discriminate.
      + intros Hco. unfold coll_at. rewrite E. rewrite <- Hda. auto. }
  destruct (compact_a co c1 idx cpt) as [c2 co'] eqn:Ec. cbn [fst]. rewrite member_arr_kind.
  replace c2 with (fst (compact_a co c1 idx cpt)) by (rewrite Ec; reflexivity).
  apply compact_a_last; auto.
Qed.

(* ---------- the induction ---------- *)

Lemma last_field_cons s s' p : last_field (s :: s' :: p) = last_field (s' :: p).
Proof. destruct s; reflexivity. Qed.

Lemma rm_sound cpt : forall p k v, wf_value v = true -> rm_ok k p = true ->
  (cpt = false \/ length p <= 1) -> member v k = true ->
  member (rm_res v p cpt) (fst (remove_inner k p cpt)) = true.
Proof.
  induction p as [|s p IH]; intros k v Hwf Hok Hc Hm; pose proof (member_not_never _ _ Hm) as Hn.
  - rewrite remove_inner_nil by auto. exact Hm.
  - cbn [rm_ok] in Hok. rewrite Hn in Hok. destruct s as [f|i].
    + (* ---- field ---- *)
      destruct (obj_of k) as [c|] eqn:Ho.
      2:{ rewrite remove_inner_field_none by auto. cbn [fst]. unfold rm_res.
          destruct v; cbn [rm]; auto. rewrite member_obj, Ho in Hm. discriminate. }
      rewrite (remove_inner_field k f p cpt c Hn Ho).
      destruct v as [ | | | | | | m | | ];
        try (match goal with |- context [let '(c1, co) := ?X in _] => destruct X as [c1 co] end;
             destruct (compact_o co c1 f cpt) as [c2 co']; cbn [fst]; unfold rm_res; cbn [rm];
             apply member_other_obj; [intros; congruence | exact Hm]).
      rewrite member_obj, Ho in Hm. destruct (wf_obj _ Hwf) as [Hs Hwfc].
      destruct p as [|s' p'].
      * (* last segment *)
        assert (rm_res (VObj m) [SField f] cpt = VObj (match obj_get m f with Some _ => obj_remove m f | None => m end)) as ->.
        { unfold rm_res. cbn [rm]. destruct (obj_get m f); reflexivity. }
        assert (exists c1 co, (match aget bytes_eqb (known c) f with
                               | Some child => let '(child', co) := remove_inner child [] cpt in
                                               (set_known c (aset bytes_cmp (known c) f child'), co)
                               | None => (c, snd (remove_inner (at_path k [SField f]) [] cpt))
                               end) = (c1, co)
                              /\ obj_ok m c1 = true /\ co <> CPanic
                              /\ (co = CAlways -> p_undefined (prims_of (coll_at bytes_eqb c1 f)) = false)
                              /\ (co = CNever -> contains_any_defined (coll_at bytes_eqb c1 f) = false)
                              /\ (co = CMaybe -> ccompat bytes_eqb union_compat (remove_known_o c1 f) c1 = true))
          as (c1 & co & -> & Hm1 & Hp & HA & HN & HM).
        { unfold maybe_ok_o in Hok. destruct (aget bytes_eqb (known c) f) as [child|] eqn:E.
          - exists (set_known c (aset bytes_cmp (known c) f child)).
            assert (forall g, coll_at bytes_eqb (set_known c (aset bytes_cmp (known c) f child)) g = coll_at bytes_eqb c g) as Hpt.
            { intros g. rewrite (coll_at_set bytes_eqb bytes_cmp bytes_eqb_eq bytes_cmp_eq).
              destruct (bytes_eqb f g) eqn:Eg; auto. apply bytes_eqb_eq in Eg; subst g.
              unfold coll_at. rewrite E. reflexivity. }
            assert (coll_at bytes_eqb (set_known c (aset bytes_cmp (known c) f child)) f = child) as Hcf.
            { rewrite (coll_at_set bytes_eqb bytes_cmp bytes_eqb_eq bytes_cmp_eq), bytes_eqb_refl. reflexivity. }
            destruct (is_never child) eqn:Hnc.
            + exists CNever. cbn [remove_inner]. rewrite Hnc. rewrite <- (is_never_eq _ Hnc).
              repeat split; try congruence.
              * eapply obj_ok_pointwise; eauto.
              * intros _. rewrite Hcf. rewrite (is_never_eq _ Hnc). reflexivity.
            + exists (co_new (contains_any_defined child) (contains_undefined child)).
              rewrite remove_inner_nil by auto. destruct (co_new_cases child Hnc) as (H1 & H2 & H3).
              rewrite Hcf. repeat split; auto. eapply obj_ok_pointwise; eauto.
          - exists c. set (apk := at_path k [SField f]).
            assert (apk = (if is_exact k then unknown_kind c else or_undefined (unknown_kind c))) as Hapk.
            { unfold apk. rewrite at_path_step by auto. cbn [at_seg]. unfold get_field, coll_at. rewrite Ho, E.
              cbn [at_path]. destruct (is_exact k).
              - rewrite is_never_unknown_kind. reflexivity.
              - rewrite is_never_or_undefined. reflexivity. }
            assert (is_never apk = false) as Hna.
            { rewrite Hapk. destruct (is_exact k); [apply is_never_unknown_kind | apply is_never_or_undefined]. }
            assert (p_undefined (prims_of apk) = true) as Hua.
            { rewrite Hapk. destruct (is_exact k); [apply p_undefined_unknown_kind | apply p_undefined_or_undefined]. }
            assert (contains_any_defined apk = contains_any_defined (unknown_kind c)) as Hda.
            { rewrite Hapk. destruct (is_exact k); auto. apply any_defined_or_undefined. }
            exists (co_new (contains_any_defined apk) (contains_undefined apk)).
            rewrite remove_inner_nil by auto. cbn [snd]. destruct (co_new_cases apk Hna) as (H1 & H2 & H3).
            repeat split; auto.
            + intros Hco. rewrite (H2 Hco) in Hua. discriminate.
            + intros Hco. unfold coll_at. rewrite E. rewrite <- Hda. auto. }
        destruct (compact_o co c1 f cpt) as [c2 co'] eqn:Ec. cbn [fst]. rewrite member_obj_kind.
        replace c2 with (fst (compact_o co c1 f cpt)) by (rewrite Ec; reflexivity).
        apply compact_o_last; auto.
      * (* an inner segment: compaction is off *)
        assert (cpt = false) as -> by (destruct Hc as [Hc|Hc]; [auto | cbn in Hc; lia]).
        destruct (aget bytes_eqb (known c) f) as [child|] eqn:E.
        -- pose proof (remove_inner_co (s' :: p') child ltac:(congruence) Hok) as Hco.
           destruct (remove_inner child (s' :: p') false) as [child' co] eqn:Er. cbn [snd] in Hco. subst co.
           unfold compact_o. rewrite compact_CNever. cbn [fst].
           assert (forall g, g <> f -> coll_at bytes_eqb (set_known c (aset bytes_cmp (known c) f child')) g = coll_at bytes_eqb c g) as Hpt.
           { intros g Hg. rewrite (coll_at_set bytes_eqb bytes_cmp bytes_eqb_eq bytes_cmp_eq).
             destruct (bytes_eqb f g) eqn:Eg; auto. apply bytes_eqb_eq in Eg; congruence. }
           assert (coll_at bytes_eqb (set_known c (aset bytes_cmp (known c) f child')) f = child') as Hcf.
           { rewrite (coll_at_set bytes_eqb bytes_cmp bytes_eqb_eq bytes_cmp_eq), bytes_eqb_refl. reflexivity. }
           assert (coll_at bytes_eqb c f = child) as Hcc by (unfold coll_at; rewrite E; reflexivity).
           unfold rm_res. rewrite rm_field_inner. destruct (obj_get m f) as [cv|] eqn:Eg.
           ++ pose proof (obj_ok_elem _ _ _ _ Hm (obj_get_in _ _ _ Eg)) as Hcv. rewrite Hcc in Hcv.
              specialize (IH child cv (Hwfc _ _ (obj_get_in _ _ _ Eg)) Hok (or_introl eq_refl) Hcv).
              rewrite Er in IH. cbn [fst] in IH. unfold rm_res in IH.
              destruct (rm cv (s' :: p') false) as [[prev cv'']|] eqn:Erm.
              ** cbn [andb]. rewrite member_obj. cbn [obj_of]. apply obj_ok_intro.
                 --- intros g w Hin. destruct (in_obj_set_sorted _ _ _ Hs _ _ Hin) as [[-> ->]|[Hne Hin']].
                     +++ rewrite Hcf. exact IH.
                     +++ rewrite Hpt by auto. eapply obj_ok_elem; eauto.
                 --- intros g Hg. destruct (bytes_eqb g f) eqn:Egf.
                     +++ apply bytes_eqb_eq in Egf; subst g. rewrite obj_get_set_same in Hg. discriminate.
                     +++ apply bytes_eqb_neq in Egf. rewrite obj_get_set_other in Hg by auto.
                         rewrite Hpt by auto. eapply obj_ok_absent; eauto.
              ** rewrite member_obj. cbn [obj_of]. apply obj_ok_intro.
                 --- intros g w Hin. destruct (bytes_eqb g f) eqn:Egf.
                     +++ apply bytes_eqb_eq in Egf; subst g. rewrite Hcf.
                         rewrite (sorted_in_get _ Hs _ _ Hin) in Eg. inversion Eg; subst. exact IH.
                     +++ apply bytes_eqb_neq in Egf. rewrite Hpt by auto. eapply obj_ok_elem; eauto.
                 --- intros g Hg. destruct (bytes_eqb g f) eqn:Egf.
                     +++ apply bytes_eqb_eq in Egf; subst g. congruence.
                     +++ apply bytes_eqb_neq in Egf. rewrite Hpt by auto. eapply obj_ok_absent; eauto.
           ++ rewrite member_obj. cbn [obj_of]. apply obj_ok_intro.
              ** intros g w Hin. destruct (bytes_eqb g f) eqn:Egf.
                 --- apply bytes_eqb_eq in Egf; subst g. exfalso. eapply in_obj_get; eauto.
                 --- apply bytes_eqb_neq in Egf. rewrite Hpt by auto. eapply obj_ok_elem; eauto.
              ** intros g Hg. destruct (bytes_eqb g f) eqn:Egf.
                 --- apply bytes_eqb_eq in Egf; subst g. rewrite Hcf.
                     pose proof (obj_ok_absent _ _ _ Hm Eg) as Hu. rewrite Hcc in Hu.
                     assert (is_never child = false) as Hnc.
                     { destruct (is_never child) eqn:Hnc; auto. rewrite (is_never_eq _ Hnc) in Hu. discriminate. }
                     pose proof (prims_remove_inner (s' :: p') child false Hnc) as Hp. rewrite Er in Hp.
                     cbn [fst] in Hp. rewrite Hp. exact Hu.
                 --- apply bytes_eqb_neq in Egf. rewrite Hpt by auto. eapply obj_ok_absent; eauto.
        -- apply negb_true_iff in Hok.
           rewrite (at_path_absent_field k c f _ Hn Ho E Hok), remove_inner_undefined by congruence.
           unfold compact_o. cbn [snd]. rewrite compact_CNever. cbn [fst].
           unfold rm_res. rewrite rm_field_inner. destruct (obj_get m f) as [cv|] eqn:Eg; [|rewrite member_obj_kind; exact Hm].
           pose proof (obj_ok_elem _ _ _ _ Hm (obj_get_in _ _ _ Eg)) as Hcv. unfold coll_at in Hcv.
           rewrite E, (not_defined_no_member _ _ Hok) in Hcv. discriminate.
    + (* ---- index ---- *)
      destruct (arr_of k) as [c|] eqn:Ha.
      2:{ rewrite remove_inner_index_none by auto. cbn [fst]. unfold rm_res.
          destruct v; try (destruct p; reflexivity || exact Hm). rewrite member_arr, Ha in Hm. discriminate. }
      destruct (rm_index c i) as [[idx|]|] eqn:Hr; [| |discriminate].
      2:{ rewrite (remove_inner_index_out k i _ cpt c Hn Ha Hr). cbn [fst]. unfold rm_res.
          destruct v as [ | | | | | | | vs | ]; try (destruct p; exact Hm).
          pose proof Hm as Hm'. rewrite member_arr, Ha in Hm'.
          destruct (rm_index_value _ _ _ _ Hm' Hr) as [Hget _].
          destruct p as [|s' p'].
          - cbn [rm]. pose proof (arr_remove_get vs i) as Hrg. destruct (arr_remove vs i) as [[old a']|]; [|exact Hm].
            rewrite Hget in Hrg. discriminate.
          - rewrite rm_index_inner, Hget. exact Hm. }
      destruct p as [|s' p'].
      { (* the last segment *)
        destruct v as [ | | | | | | | vs | ];
          try (rewrite (remove_inner_index k i [] cpt c idx Hn Ha Hr);
               match goal with |- context [let '(c1, co) := ?X in _] => destruct X as [c1 co] end;
               destruct (compact_a co c1 idx cpt) as [c2 co']; cbn [fst]; unfold rm_res; cbn [rm];
               apply member_other_arr; [intros; congruence | exact Hm]).
        rewrite member_arr, Ha in Hm. destruct (rm_index_value _ _ _ _ Hm Hr) as [Hget Hidx].
        assert (rm_res (VArr vs) [SIndex i] cpt
                = VArr (match nth_error vs idx with Some _ => list_remove_nth vs idx | None => vs end)) as ->.
        { unfold rm_res. cbn [rm]. rewrite (arr_remove_at vs i idx Hidx). destruct (nth_error vs idx); reflexivity. }
        apply (last_index_sound k c i idx vs cpt Hn Ha Hr Hm Hok). }
      assert (cpt = false) as -> by (destruct Hc as [Hc|Hc]; [auto | cbn in Hc; lia]).
      rewrite (remove_inner_index k i _ false c idx Hn Ha Hr).
      destruct v as [ | | | | | | | vs | ];
        try (match goal with |- context [let '(c1, co) := ?X in _] => destruct X as [c1 co] end;
             destruct (compact_a co c1 idx false) as [c2 co']; cbn [fst]; unfold rm_res; cbn [rm];
             apply member_other_arr; [intros; congruence | exact Hm]).
      rewrite member_arr, Ha in Hm. destruct (rm_index_value _ _ _ _ Hm Hr) as [Hget Hidx].
      destruct (aget Nat.eqb (known c) idx) as [child|] eqn:E.
      * pose proof (remove_inner_co (s' :: p') child ltac:(congruence) Hok) as Hco.
        destruct (remove_inner child (s' :: p') false) as [child' co] eqn:Er. cbn [snd] in Hco. subst co.
        unfold compact_a. rewrite compact_CNever. cbn [fst].
        assert (forall n, coll_at Nat.eqb (set_known c (aset Nat.compare (known c) idx child')) n
                          = if Nat.eqb idx n then child' else coll_at Nat.eqb c n) as Hat.
        { intros n. apply (coll_at_set Nat.eqb Nat.compare nat_eqb_spec' nat_cmp_spec'). }
        assert (coll_at Nat.eqb c idx = child) as Hcc by (unfold coll_at; rewrite E; reflexivity).
        unfold rm_res. rewrite rm_index_inner. rewrite Hget. destruct (nth_error vs idx) as [cv|] eqn:Eg.
        -- pose proof (arr_ok_elem _ _ _ _ Hm Eg) as Hcv. rewrite Hcc in Hcv.
           assert (idx < length vs) as Hlt by (apply nth_error_Some; congruence).
           specialize (IH child cv (wf_arr _ Hwf _ _ Eg) Hok (or_introl eq_refl) Hcv).
           rewrite Er in IH. cbn [fst] in IH. unfold rm_res in IH.
           destruct (rm cv (s' :: p') false) as [[prev cv'']|] eqn:Erm.
           ++ cbn [andb]. rewrite (arr_set_in_range vs i idx cv'' Hidx Hlt). rewrite member_arr. cbn [arr_of].
              apply arr_ok_intro.
              ** intros n y Hn'. rewrite Hat. destruct (Nat.eqb_spec idx n) as [<-|Hne].
                 --- rewrite nth_error_list_set_same in Hn' by auto. inversion Hn'; subst. exact IH.
                 --- rewrite nth_error_list_set_other in Hn' by auto. eapply arr_ok_elem; eauto.
              ** intros n Hl. rewrite length_list_set in Hl. rewrite Hat.
                 destruct (Nat.eqb_spec idx n); [lia|]. eapply arr_ok_absent; eauto.
           ++ rewrite member_arr. cbn [arr_of]. apply arr_ok_intro.
              ** intros n y Hn'. rewrite Hat. destruct (Nat.eqb_spec idx n) as [<-|Hne].
                 --- rewrite Eg in Hn'. inversion Hn'; subst. exact IH.
                 --- eapply arr_ok_elem; eauto.
              ** intros n Hl. rewrite Hat. destruct (Nat.eqb_spec idx n); [lia|]. eapply arr_ok_absent; eauto.
        -- rewrite member_arr. cbn [arr_of]. apply arr_ok_intro.
           ++ intros n y Hn'. rewrite Hat. destruct (Nat.eqb_spec idx n) as [<-|Hne]; [congruence|].
              eapply arr_ok_elem; eauto.
           ++ intros n Hl. rewrite Hat. destruct (Nat.eqb_spec idx n) as [<-|Hne]; [|eapply arr_ok_absent; eauto].
              pose proof (arr_ok_absent _ _ _ Hm Hl) as Hu. rewrite Hcc in Hu.
              assert (is_never child = false) as Hnc.
              { destruct (is_never child) eqn:Hnc; auto. rewrite (is_never_eq _ Hnc) in Hu. discriminate. }
              pose proof (prims_remove_inner (s' :: p') child false Hnc) as Hp. rewrite Er in Hp.
              cbn [fst] in Hp. rewrite Hp. exact Hu.
      * apply negb_true_iff in Hok.
        rewrite (at_path_absent_index k c i idx _ Hn Ha Hr E Hok), remove_inner_undefined by congruence.
        unfold compact_a. cbn [snd]. rewrite compact_CNever. cbn [fst].
        unfold rm_res. rewrite rm_index_inner. rewrite Hget. destruct (nth_error vs idx) as [cv|] eqn:Eg; [|rewrite member_arr_kind; exact Hm].
        pose proof (arr_ok_elem _ _ _ _ Hm Eg) as Hcv. unfold coll_at in Hcv.
        rewrite E, (not_defined_no_member _ _ Hok) in Hcv. discriminate.
Qed.

Lemma compact_not_panic {K} (rk : coll_ K kind -> K -> coll_ K kind) cu co (c : coll_ K kind) key cpt :
  co <> CPanic -> snd (compact rk cu co c key cpt) <> CPanic.
Proof.
  destruct co; cbn; try congruence; intros _;
    destruct cpt; cbn; try discriminate;
    match goal with |- co_of_empty ?e <> _ => destruct e; discriminate end.
Qed.

Lemma remove_inner_single_field_co k f cpt : snd (remove_inner k [SField f] cpt) <> CPanic.
Proof.
  destruct (is_never k) eqn:Hn; [cbn [remove_inner]; rewrite Hn; discriminate|].
  destruct (obj_of k) as [c|] eqn:Ho; [|rewrite remove_inner_field_none by auto; discriminate].
  rewrite (remove_inner_field k f [] cpt c Hn Ho).
  destruct (aget bytes_eqb (known c) f) as [child|].
  - pose proof (remove_inner_nil_co child cpt) as Hco. destruct (remove_inner child [] cpt) as [child' co].
    cbn [snd] in Hco. pose proof (compact_not_panic remove_known_o cunion_o co
      (set_known c (aset bytes_cmp (known c) f child')) f cpt Hco) as H.
    unfold compact_o. destruct (compact _ _ co _ f cpt). exact H.
  - pose proof (remove_inner_nil_co (at_path k [SField f]) cpt) as Hco.
    pose proof (compact_not_panic remove_known_o cunion_o _ c f cpt Hco) as H.
    unfold compact_o. destruct (compact _ _ _ c f cpt). exact H.
Qed.

Lemma remove_inner_single_index_co k i cpt : rm_ok k [SIndex i] = true ->
  snd (remove_inner k [SIndex i] cpt) <> CPanic.
Proof.
  intros Hok. destruct (is_never k) eqn:Hn; [cbn [remove_inner]; rewrite Hn; discriminate|].
  cbn [rm_ok] in Hok. rewrite Hn in Hok.
  destruct (arr_of k) as [c|] eqn:Ha; [|rewrite remove_inner_index_none by auto; discriminate].
  destruct (rm_index c i) as [[idx|]|] eqn:Hr; [| |discriminate].
  2:{ rewrite (remove_inner_index_out k i [] cpt c Hn Ha Hr). discriminate. }
  rewrite (remove_inner_index k i [] cpt c idx Hn Ha Hr).
  destruct (aget Nat.eqb (known c) idx) as [child|].
  - pose proof (remove_inner_nil_co child cpt) as Hco. destruct (remove_inner child [] cpt) as [child' co].
    cbn [snd] in Hco. pose proof (compact_not_panic remove_shift cunion_a co
      (set_known c (aset Nat.compare (known c) idx child')) idx cpt Hco) as H.
    unfold compact_a. destruct (compact _ _ co _ idx cpt). exact H.
  - pose proof (remove_inner_nil_co (at_path k [SIndex i]) cpt) as Hco.
    pose proof (compact_not_panic remove_shift cunion_a _ c idx cpt Hco) as H.
    unfold compact_a. destruct (compact _ _ _ c idx cpt). exact H.
Qed.

Theorem remove_sound v k p cpt :
  wf_value v = true -> remove_ok k p cpt = true -> member v k = true ->
  snd (kremove k p cpt) = false /\ member (snd (remove v p cpt)) (fst (fst (kremove k p cpt))) = true.
Proof.
  intros Hwf Hok Hm. unfold remove_ok in Hok. apply andb_true_iff in Hok. destruct Hok as [Hc Hok].
  destruct p as [|s p].
  - (* the root *)
    split; [reflexivity|]. cbn [kremove remove fst snd].
    pose proof (member_not_never _ _ Hm) as Hn.
    unfold contains_object, contains_array, contains_primitive. rewrite Hn, !orb_false_r.
    destruct k as [pr a o]. destruct v; cbn in Hm |- *;
      try (destruct pr; unfold p_is_none; cbn in *; rewrite Hm; rewrite ?orb_true_r; cbn; reflexivity).
    + destruct o; [reflexivity | discriminate].
    + destruct a; [reflexivity | discriminate].
  - assert (cpt = false \/ length (s :: p) <= 1) as Hc'.
    { apply orb_true_iff in Hc. destruct Hc as [Hc|Hc]; [left; apply negb_true_iff; auto | right; apply Nat.leb_le; auto]. }
    pose proof (rm_sound cpt (s :: p) k v Hwf Hok Hc' Hm) as Hs.
    unfold kremove, remove. destruct (remove_inner k (s :: p) cpt) as [k' co] eqn:Er. cbn [fst snd] in *.
    split.
    + destruct Hc' as [->|Hl].
      * pose proof (remove_inner_co (s :: p) k ltac:(congruence) Hok) as Hco. rewrite Er in Hco. cbn in Hco.
        subst co. reflexivity.
      * destruct p; [|cbn in Hl; lia]. destruct s as [f|i].
        -- pose proof (remove_inner_single_field_co k f cpt) as Hco. rewrite Er in Hco. cbn in Hco.
           destruct co; congruence.
        -- pose proof (remove_inner_single_index_co k i cpt Hok) as Hco. rewrite Er in Hco. cbn in Hco.
           destruct co; congruence.
    + unfold rm_res in Hs. destruct (rm v (s :: p) cpt) as [[prev v']|]; exact Hs.
Qed.

(* ---------- no panic for any single-segment removal (since /repo 3fccdc6: saturating subtraction) ---------- *)

Lemma fold_flag_false {A B} (one : B -> A * bool) (u : A -> A -> A) l a :
  (forall j, snd (one j) = false) ->
  snd (fold_left (fun acc j => let '(sr, pk) := one j in (u (fst acc) sr, snd acc || pk)) l (a, false)) = false.
Proof.
  intros H. revert a. induction l as [|j l IH]; intros a; cbn; auto.
  specialize (H j). destruct (one j) as [sr pk]. cbn in H. subst. cbn. apply IH.
Qed.

Lemma remove_inner_single_index_total k i cpt : snd (remove_inner k [SIndex i] cpt) <> CPanic.
Proof.
  cbn [remove_inner]. destruct (is_never k); [discriminate|].
  destruct (arr_of k) as [c|]; [|discriminate].
  assert (forall index,
    snd (let '(c1, co) :=
              match aget Nat.eqb (known c) index with
              | Some child => let '(child', co) := remove_inner child [] cpt in
                              (set_known c (aset Nat.compare (known c) index child'), co)
              | None => (c, snd (remove_inner (at_path k [SIndex i]) [] cpt))
              end in
            let '(c2, co') := compact_a co c1 index cpt in
            (Kind (prims_of k) (Some c2) (obj_of k), co')) <> CPanic) as Hpos.
  { intros idx. destruct (aget Nat.eqb (known c) idx) as [child|].
    - pose proof (remove_inner_nil_co child cpt) as Hco. destruct (remove_inner child [] cpt) as [child' co].
      cbn [snd] in Hco. pose proof (compact_not_panic remove_shift cunion_a co
        (set_known c (aset Nat.compare (known c) idx child')) idx cpt Hco) as H.
      unfold compact_a. destruct (compact _ _ co _ idx cpt). exact H.
    - pose proof (remove_inner_nil_co (at_path k [SIndex i]) cpt) as Hco.
      pose proof (compact_not_panic remove_shift cunion_a _ c idx cpt Hco) as H.
      unfold compact_a. destruct (compact _ _ _ c idx cpt). exact H. }
  destruct (i <? 0)%Z; [|apply Hpos].
  destruct (contains_any_defined (unknown_kind c)).
  - destruct (largest_known_index c) as [l|]; [|cbn; destruct (Nat.leb _ _); discriminate].
    match goal with |- snd (let '(c', panicked) := fold_left ?f ?l ?a in _) <> _ =>
      pose proof (fold_flag_false
        (fun j => match aget Nat.eqb (known c) j with
                  | Some child =>
                      let '(child', co) := remove_inner child [] cpt in
                      let '(c2, co') := compact_a co (set_known c (aset Nat.compare (known c) j child')) j cpt in
                      (c2, match co with CPanic => true | _ => false end)
                  | None => (c, false)
                  end) cunion_a l c) as Hf end.
    cbn beta in Hf.
    match type of Hf with ?P -> _ => assert P as HP end.
    { intros j. destruct (aget Nat.eqb (known c) j) as [child|]; [|reflexivity].
      pose proof (remove_inner_nil_co child cpt) as Hco. destruct (remove_inner child [] cpt) as [child' co].
      cbn [snd] in Hco. destruct (compact_a co _ j cpt). cbn. destruct co; congruence. }
    specialize (Hf HP).
    match goal with |- snd (let '(c', panicked) := ?X in _) <> _ =>
      assert (snd X = false) as Hf' by exact Hf; destruct X as [c' pk] end.
    cbn [snd] in Hf'. rewrite Hf'. cbn. destruct (Nat.leb _ _); discriminate.
  - destruct (get_positive_index c i); [apply Hpos|discriminate].
Qed.

Theorem remove_single_segment_no_panic k s cpt : snd (kremove k [s] cpt) = false.
Proof.
  unfold kremove.
  destruct s as [f|i].
  - pose proof (remove_inner_single_field_co k f cpt) as H. destruct (remove_inner k [SField f] cpt) as [k' co].
    cbn [snd] in *. destruct co; congruence.
  - pose proof (remove_inner_single_index_total k i cpt) as H. destruct (remove_inner k [SIndex i] cpt) as [k' co].
    cbn [snd] in *. destruct co; congruence.
Qed.
