(* The fuel `depth a + depth b` given to the kind-recursive functions always suffices: with at least
   that much, the result does not depend on the amount (so the out-of-fuel answers `any` / `false` are
   never what `union`, `merge_keep`, `is_superset` return). *)
From Coq Require Import List NArith ZArith Bool Lia.
From VRL Require Import Base.Bytes Base.Value Model.ValueCrud Model.Kind Model.KindCrud Model.KindDomains
  Proofs.KindBasics.
Import ListNotations.

Definition dk_list {K} (l : list (K * kind)) : nat :=
  fold_right (fun kv acc => Nat.max (depth (snd kv)) acc) 0 l.
Definition du (u : unk) : nat := match u with UExact x => depth x | UInf _ => 1 end.
Definition dcoll {K} (o : option (coll_ K kind)) : nat :=
  match o with None => 0 | Some c => Nat.max (dk_list (known c)) (du (unknown c)) end.

Lemma depth_unfold k : depth k = S (Nat.max (dcoll (arr_of k)) (dcoll (obj_of k))).
Proof.
  destruct k as [p [ca|] [co|]]; cbn [depth arr_of obj_of dcoll];
    try destruct (unknown ca); try destruct (unknown co); reflexivity.
Qed.

Lemma in_depth {K} (l : list (K * kind)) key x : In (key, x) l -> depth x <= dk_list l.
Proof.
  induction l as [|kv l IH]; [intros []|]. intros [->|H]; unfold dk_list; cbn [fold_right snd]; fold (dk_list l).
  - apply Nat.le_max_l.
  - specialize (IH H). etransitivity; [exact IH | apply Nat.le_max_r].
Qed.

Lemma depth_or_undefined k : depth (or_undefined k) = depth k.
Proof. destruct k; reflexivity. Qed.
Lemma depth_remove_undefined k : depth (remove_undefined k) = depth k.
Proof. destruct k; reflexivity. Qed.

Lemma depth_kind_of_inf i : depth (kind_of_inf i) <= 2.
Proof. unfold kind_of_inf. destruct (i_array i), (i_object i); cbn; lia. Qed.

Lemma depth_unknown_kind_u u : depth (unknown_kind_u u) <= S (du u) /\ (forall x, u = UExact x -> depth (unknown_kind_u u) = depth x).
Proof.
  unfold unknown_kind_u, existing_kind. rewrite depth_or_undefined, depth_remove_undefined. split.
  - destruct u as [x|i]; cbn [du]; [lia | apply depth_kind_of_inf].
  - intros x ->. reflexivity.
Qed.

(* the kinds inside a collection of a kind are shallower than the kind *)
Lemma coll_depth_a k c : arr_of k = Some c ->
  (forall key x, In (key, x) (known c) -> depth x < depth k) /\ du (unknown c) < depth k
  /\ depth (unknown_kind c) <= depth k.
Proof.
  intros Ha. rewrite (depth_unfold k), Ha. cbn [dcoll]. repeat split.
  - intros key x Hin. pose proof (in_depth _ _ _ Hin). lia.
  - lia.
  - destruct (depth_unknown_kind_u (unknown c)) as [H _]. unfold unknown_kind. lia.
Qed.

Lemma coll_depth_o k c : obj_of k = Some c ->
  (forall key x, In (key, x) (known c) -> depth x < depth k) /\ du (unknown c) < depth k
  /\ depth (unknown_kind c) <= depth k.
Proof.
  intros Ha. rewrite (depth_unfold k), Ha. cbn [dcoll]. repeat split.
  - intros key x Hin. pose proof (in_depth _ _ _ Hin). lia.
  - lia.
  - destruct (depth_unknown_kind_u (unknown c)) as [H _]. unfold unknown_kind. lia.
Qed.

Lemma depth_pos k : 1 <= depth k.
Proof. rewrite depth_unfold. lia. Qed.

(* ---------- Collection::merge only applies its function arguments to shallower pairs ---------- *)

Lemma amap_ext_in {K} (f g : K -> kind -> kind) (l : list (K * kind)) :
  (forall key x, In (key, x) l -> f key x = g key x) -> amap f l = amap g l.
Proof.
  intros H. unfold amap. apply map_ext_in. intros [key x] Hin. cbn. rewrite (H key x Hin). reflexivity.
Qed.

Section CMergeExt.
  Context {K : Type}.
  Variable keqb : K -> K -> bool.
  Variable kcmp : K -> K -> comparison.
  Hypothesis keqb_spec : forall a b, keqb a b = true <-> a = b.
  Variables M U M' U' : kind -> kind -> kind.
  Variables (l r : coll_ K kind) (dl dr : nat).
  (* dl, dr: depths of the kinds that own l and r *)
  Hypothesis Hl : forall key x, In (key, x) (known l) -> depth x < dl.
  Hypothesis Hr : forall key x, In (key, x) (known r) -> depth x < dr.
  Hypothesis Hlu : du (unknown l) < dl.
  Hypothesis Hru : du (unknown r) < dr.
  Hypothesis Hluk : depth (unknown_kind l) <= dl.
  Hypothesis Hruk : depth (unknown_kind r) <= dr.
  Hypothesis HU : forall x y, depth x + depth y < dl + dr -> U x y = U' x y.
  Hypothesis HM : forall x y, depth x + depth y < dl + dr -> M x y = M' x y.

  Lemma cmerge_ext ow : cmerge keqb kcmp M U ow l r = cmerge keqb kcmp M' U' ow l r.
  Proof.
    unfold cmerge. f_equal.
    - f_equal.
      + apply amap_ext_in. intros key sk Hin. unfold merge_self_entry. pose proof (Hl _ _ Hin).
        destruct (aget keqb (known r) key) as [ok|] eqn:E.
        * pose proof (Hr _ _ (aget_in keqb keqb_spec _ _ _ E)). destruct ow; auto. apply HU. lia.
        * destruct (contains_any_defined (unknown_kind r)); auto.
          destruct ow; apply HU; rewrite ?depth_remove_undefined; lia.
      + apply map_ext_in. intros [key ok] Hin. cbn. f_equal. apply filter_In in Hin. destruct Hin as [Hin _].
        pose proof (Hr _ _ Hin). unfold merge_other_entry.
        destruct (contains_any_defined (unknown_kind l)); auto. destruct ow; auto. apply HU. lia.
    - destruct (unknown l) as [x|i], (unknown r) as [y|j]; cbn [umerge]; auto.
      f_equal. apply HM. cbn [du] in *. lia.
  Qed.
End CMergeExt.

Theorem merge_f_fuel : forall n m ow a b, depth a + depth b <= n -> depth a + depth b <= m ->
  merge_f n ow a b = merge_f m ow a b.
Proof.
  induction n as [|n IH]; intros m ow a b Hn Hm.
  - pose proof (depth_pos a). lia.
  - destruct m as [|m]; [pose proof (depth_pos a); lia|].
    cbn [merge_f]. f_equal.
    + destruct (arr_of a) as [ca|] eqn:Ea, (arr_of b) as [cb|] eqn:Eb; cbn [merge_opt]; auto. f_equal.
      destruct (coll_depth_a a ca Ea) as (H1 & H2 & H3). destruct (coll_depth_a b cb Eb) as (H4 & H5 & H6).
      apply (cmerge_ext Nat.eqb Nat.compare nat_eqb_spec' _ _ _ _ ca cb (depth a) (depth b)); auto;
        intros x y Hd; apply IH; lia.
    + destruct (obj_of a) as [ca|] eqn:Ea, (obj_of b) as [cb|] eqn:Eb; cbn [merge_opt]; auto. f_equal.
      destruct (coll_depth_o a ca Ea) as (H1 & H2 & H3). destruct (coll_depth_o b cb Eb) as (H4 & H5 & H6).
      apply (cmerge_ext bytes_eqb bytes_cmp bytes_eqb_eq _ _ _ _ ca cb (depth a) (depth b)); auto;
        intros x y Hd; apply IH; lia.
Qed.

(* ---------- is_superset ---------- *)

Lemma forallb_ext_in {A} (f g : A -> bool) l : (forall x, In x l -> f x = g x) -> forallb f l = forallb g l.
Proof.
  induction l as [|x l IH]; cbn; auto. intros H. rewrite (H x (or_introl eq_refl)), IH; auto.
Qed.

Section CSupExt.
  Context {K : Type}.
  Variable keqb : K -> K -> bool.
  Hypothesis keqb_spec : forall a b, keqb a b = true <-> a = b.
  Variables S S' : kind -> kind -> bool.
  Variables (l r : coll_ K kind) (dl dr : nat).
  Hypothesis Hl : forall key x, In (key, x) (known l) -> depth x < dl.
  Hypothesis Hr : forall key x, In (key, x) (known r) -> depth x < dr.
  Hypothesis Hlu : du (unknown l) < dl.
  Hypothesis Hru : du (unknown r) < dr.
  Hypothesis Hluk : depth (unknown_kind l) <= dl.
  Hypothesis Hruk : depth (unknown_kind r) <= dr.
  Hypothesis HS : forall x y, depth x + depth y < dl + dr -> S x y = S' x y.
  Hypothesis Hdl : 2 <= dl.

  Lemma csuperset_ext : csuperset keqb S l r = csuperset keqb S' l r.
  Proof.
    unfold csuperset. f_equal; [f_equal|].
    - destruct (unknown l) as [x|i], (unknown r) as [y|j]; cbn [usuperset]; auto.
      + apply HS. rewrite !depth_remove_undefined. cbn [du] in *. lia.
      + destruct (inf_is_any i); auto. apply HS. pose proof (depth_kind_of_inf i). cbn [du] in *. lia.
    - apply forallb_ext_in. intros [key ok] Hin. cbn. pose proof (Hr _ _ Hin). apply HS.
      unfold coll_at. destruct (aget keqb (known l) key) as [sk|] eqn:E.
      + pose proof (Hl _ _ (aget_in keqb keqb_spec _ _ _ E)). lia.
      + lia.
    - apply forallb_ext_in. intros [key sk] Hin. cbn. pose proof (Hl _ _ Hin).
      destruct (ahas keqb (known r) key); auto. cbn. apply HS. lia.
  Qed.
End CSupExt.

Theorem superset_f_fuel : forall n m a b, depth a + depth b <= n -> depth a + depth b <= m ->
  superset_f n a b = superset_f m a b.
Proof.
  induction n as [|n IH]; intros m a b Hn Hm.
  - pose proof (depth_pos a). lia.
  - destruct m as [|m]; [pose proof (depth_pos a); lia|].
    cbn [superset_f]. f_equal; [f_equal|].
    + destruct (arr_of a) as [ca|] eqn:Ea, (arr_of b) as [cb|] eqn:Eb; cbn [sup_opt]; auto.
      destruct (coll_depth_a a ca Ea) as (H1 & H2 & H3). destruct (coll_depth_a b cb Eb) as (H4 & H5 & H6).
      apply (csuperset_ext Nat.eqb nat_eqb_spec' _ _ ca cb (depth a) (depth b)); auto.
      * intros x y Hd; apply IH; lia.
      * destruct (unknown ca); cbn [du] in H2; [pose proof (depth_pos k)|]; lia.
    + destruct (obj_of a) as [ca|] eqn:Ea, (obj_of b) as [cb|] eqn:Eb; cbn [sup_opt]; auto.
      destruct (coll_depth_o a ca Ea) as (H1 & H2 & H3). destruct (coll_depth_o b cb Eb) as (H4 & H5 & H6).
      apply (csuperset_ext bytes_eqb bytes_eqb_eq _ _ ca cb (depth a) (depth b)); auto.
      * intros x y Hd; apply IH; lia.
      * destruct (unknown ca); cbn [du] in H2; [pose proof (depth_pos k)|]; lia.
Qed.

Theorem union_fuel_adequate a b n : depth a + depth b <= n -> merge_f n false a b = union a b.
Proof. intros H. apply merge_f_fuel; auto. Qed.

Theorem merge_keep_fuel_adequate a b ow n : depth a + depth b <= n -> merge_f n ow a b = merge_keep a b ow.
Proof. intros H. apply merge_f_fuel; auto. Qed.

Theorem is_superset_fuel_adequate a b n : depth a + depth b <= n -> superset_f n a b = is_superset a b.
Proof. intros H. apply superset_f_fuel; auto. Qed.
