(* C24 — proofs about Model/Csv.v: parse_csv (encode_csv fields) = fields. *)
From Coq Require Import List NArith Bool Lia.
From VRL Require Import Model.Csv.
Import ListNotations.
Local Open Scope N_scope.

Lemma special_false d b :
  special d b = false -> (b =? d) = false /\ (b =? b_q) = false /\ is_term b = false.
Proof.
  unfold special, is_term. rewrite !orb_false_iff. intros [[[A B] C] D]. repeat split; auto.
Qed.

Lemma good_delim_spec d : good_delim d = true -> (d =? b_q) = false /\ is_term d = false.
Proof.
  unfold good_delim, is_term. rewrite !andb_true_iff, !negb_true_iff. intros [[A B] C].
  split; auto. rewrite B, C. reflexivity.
Qed.

(* one step of the automaton, per state *)
Lemma rd_infield_step d cur acc c r :
  (c =? d) = false -> is_term c = false ->
  read_record d InField cur acc (c :: r) = read_record d InField (c :: cur) acc r.
Proof. intros A B. cbn [read_record]. rewrite A, B. reflexivity. Qed.

Lemma rd_infield d f : forall cur acc rest,
  needs_quotes d f = false ->
  read_record d InField cur acc (f ++ rest) = read_record d InField (rev f ++ cur) acc rest.
Proof.
  induction f as [|b f IH]; intros cur acc rest H; [reflexivity|].
  unfold needs_quotes in H. cbn [existsb] in H. apply orb_false_iff in H as [Hb Hf].
  destruct (special_false _ _ Hb) as (A & _ & T).
  cbn [app]. rewrite rd_infield_step by auto. rewrite (IH (b :: cur) acc rest Hf).
  cbn [rev]. rewrite <- app_assoc. reflexivity.
Qed.

Lemma rd_quoted d f : forall cur acc rest,
  read_record d InQuotedField cur acc (quote_body f ++ b_q :: rest)
  = read_record d InDoubleEscapedQuote (rev f ++ cur) acc rest.
Proof.
  induction f as [|b f IH]; intros cur acc rest.
  - reflexivity.
  - unfold quote_body in *. cbn [flat_map]. destruct (b =? b_q) eqn:E.
    + apply N.eqb_eq in E. subst b.
      change (([b_q; b_q] ++ flat_map (fun b => if b =? b_q then [b_q; b_q] else [b]) f) ++ b_q :: rest)
        with (b_q :: b_q :: (flat_map (fun b => if b =? b_q then [b_q; b_q] else [b]) f ++ b_q :: rest)).
      cbn [read_record]. cbn [N.eqb b_q Pos.eqb]. rewrite IH.
      cbn [rev]. rewrite <- app_assoc. reflexivity.
    + change (([b] ++ flat_map (fun b => if b =? b_q then [b_q; b_q] else [b]) f) ++ b_q :: rest)
        with (b :: (flat_map (fun b => if b =? b_q then [b_q; b_q] else [b]) f ++ b_q :: rest)).
      cbn [read_record]. rewrite E. rewrite IH.
      cbn [rev]. rewrite <- app_assoc. reflexivity.
Qed.

(* reading one written field from StartField, followed by the end of the text or by a delimiter *)
Lemma rd_field_end d f acc :
  good_delim d = true ->
  read_record d StartField [] acc (write_field d f) = Some (rev (f :: acc)).
Proof.
  intros G. destruct (good_delim_spec d G) as (Dq & Dt).
  unfold write_field. destruct (needs_quotes d f) eqn:Q.
  - cbn [read_record]. cbn [N.eqb b_q Pos.eqb].
    change (quote_body f ++ [b_q]) with (quote_body f ++ b_q :: []).
    rewrite rd_quoted. cbn [read_record]. rewrite app_nil_r, rev_involutive. reflexivity.
  - destruct f as [|b f]; [reflexivity|].
    pose proof Q as Q'. unfold needs_quotes in Q'. cbn [existsb] in Q'. apply orb_false_iff in Q' as [Hb Hf].
    destruct (special_false _ _ Hb) as (A & B & T).
    cbn [read_record]. rewrite A, B, T.
    rewrite <- (app_nil_r f). rewrite (rd_infield d f [b] acc [] Hf). cbn [read_record].
    change (rev f ++ [b]) with (rev (b :: f)). rewrite rev_involutive, app_nil_r. reflexivity.
Qed.

Lemma rd_field_delim d f acc more :
  good_delim d = true ->
  read_record d StartField [] acc (write_field d f ++ d :: more) = read_record d StartField [] (f :: acc) more.
Proof.
  intros G. destruct (good_delim_spec d G) as (Dq & Dt).
  unfold write_field. destruct (needs_quotes d f) eqn:Q.
  - cbn [app]. cbn [read_record]. cbn [N.eqb b_q Pos.eqb].
    rewrite <- app_assoc. change ([b_q] ++ d :: more) with (b_q :: d :: more).
    rewrite rd_quoted. cbn [read_record]. rewrite Dq, N.eqb_refl, app_nil_r, rev_involutive. reflexivity.
  - destruct f as [|b f].
    + cbn [app read_record]. rewrite Dq, N.eqb_refl. reflexivity.
    + pose proof Q as Q'. unfold needs_quotes in Q'. cbn [existsb] in Q'. apply orb_false_iff in Q' as [Hb Hf].
      destruct (special_false _ _ Hb) as (A & B & T).
      cbn [app]. cbn [read_record]. rewrite A, B, T.
      rewrite (rd_infield d f [b] acc (d :: more) Hf). cbn [read_record]. rewrite N.eqb_refl.
      change (rev f ++ [b]) with (rev (b :: f)). rewrite rev_involutive. reflexivity.
Qed.

Lemma rd_fields d fs : good_delim d = true -> fs <> [] ->
  forall acc, read_record d StartField [] acc (write_fields d fs) = Some (rev acc ++ fs).
Proof.
  intros G. induction fs as [|f r IH]; [congruence|]. intros _ acc.
  destruct r as [|g r].
  - cbn [write_fields]. rewrite rd_field_end by auto. reflexivity.
  - change (write_fields d (f :: g :: r)) with (write_field d f ++ d :: write_fields d (g :: r)).
    rewrite rd_field_delim by auto. rewrite IH by discriminate.
    cbn [rev]. rewrite <- app_assoc. reflexivity.
Qed.

(* the first byte of a record is not a record terminator, so StartRecord behaves as StartField *)
Lemma start_record d c r :
  is_term c = false ->
  read_record d StartRecord [] [] (c :: r) = read_record d StartField [] [] (c :: r).
Proof. intros T. cbn [read_record]. rewrite T. reflexivity. Qed.

Lemma write_fields_head d fs c r :
  good_delim d = true -> write_fields d fs = c :: r -> is_term c = false.
Proof.
  intros G. destruct (good_delim_spec d G) as (Dq & Dt).
  destruct fs as [|f rest]; [discriminate|].
  assert (H : forall tl, write_field d f ++ tl = c :: r -> (tl = c :: r /\ write_field d f = []) \/ is_term c = false).
  { intros tl. unfold write_field. destruct (needs_quotes d f) eqn:Q.
    - cbn [app]. intros E. injection E as <- _. right. reflexivity.
    - destruct f as [|b f]; [left; auto|].
      cbn [app]. intros E. injection E as <- _. right.
      unfold needs_quotes in Q. cbn [existsb] in Q. apply orb_false_iff in Q as [Hb _].
      apply (special_false _ _ Hb). }
  destruct rest as [|g rest].
  - cbn [write_fields]. intros E. rewrite <- (app_nil_r (write_field d f)) in E.
    destruct (H [] E) as [[E' _]|]; [discriminate | auto].
  - change (write_fields d (f :: g :: rest)) with (write_field d f ++ d :: write_fields d (g :: rest)).
    intros E. destruct (H _ E) as [[E' _]|]; auto. injection E' as <- _. exact Dt.
Qed.

Lemma write_fields_nil d fs : fs <> [] -> write_fields d fs = [] -> fs = [[]].
Proof.
  destruct fs as [|f r]; [congruence|]. intros _.
  destruct r as [|g r].
  - cbn [write_fields]. unfold write_field. destruct (needs_quotes d f); [discriminate|]. intros ->. reflexivity.
  - change (write_fields d (f :: g :: r)) with (write_field d f ++ d :: write_fields d (g :: r)).
    intros E. apply app_eq_nil in E as [_ E]. discriminate.
Qed.

Lemma strip_bom_id s : starts_with_bom s = false -> strip_bom s = s.
Proof. intros H. unfold strip_bom. rewrite H. reflexivity. Qed.

Theorem csv_roundtrip d fs :
  good_delim d = true -> known_bom d fs = false -> parse_csv d (encode_csv d fs) = fs.
Proof.
  intros G B. unfold known_bom in B. unfold parse_csv. rewrite strip_bom_id by exact B.
  destruct fs as [|f r]; [reflexivity|].
  unfold encode_csv. destruct (write_fields d (f :: r)) as [|c body] eqn:E.
  - apply write_fields_nil in E; [|discriminate]. rewrite E. reflexivity.
  - rewrite start_record by (eapply write_fields_head; eauto).
    rewrite <- E. rewrite rd_fields by (auto; discriminate). reflexivity.
Qed.

(* the class is not empty: the reader strips what the writer wrote *)
Lemma csv_bom_witness : parse_csv 44 (encode_csv 44 [[239; 187; 191; 97]; [98]]) = [[97]; [98]].
Proof. vm_compute. reflexivity. Qed.
