(* C21, part 2: the number scanner.  (a) every i64 printed in decimal is read back as that integer;
   (b) locality: a number token that the scanner accepts in full is read the same way whatever non-number
   character follows it (this is what lets a float's text be judged on its own by float_text_ok). *)
From Coq Require Import List NArith ZArith Bool Lia.
From Coq Require Import Floats.SpecFloat.
From VRL Require Import Base.Bytes Base.Value Base.Lit Model.Json.
Import ListNotations.
Local Open Scope N_scope.

(* what may follow a number token: anything that does not continue it *)
Definition num_end (rest : bytes) : bool :=
  match rest with
  | [] => true
  | c :: _ => negb (is_digit c) && negb (c =? 46) && negb (is_e c)
  end.

Lemma num_end_cons c r : num_end (c :: r) = true -> is_digit c = false /\ (c =? 46) = false /\ is_e c = false.
Proof.
  cbn [num_end]. rewrite !andb_true_iff, !negb_true_iff. tauto.
Qed.

(* ---------------------------------------------------------------------------------------------- *)
(** * Decimal digits *)

Definition digit_chars (ds : bytes) : Prop := Forall (fun c => 48 <= c <= 57) ds.

Fixpoint dval (acc : N) (ds : bytes) : N :=
  match ds with
  | [] => acc
  | c :: r => dval (acc * 10 + (c - 48)) r
  end.

Fixpoint lval (l : list N) : N :=
  match l with
  | [] => 0
  | d :: r => d + 10 * lval r
  end.

Lemma dval_app a x y : dval a (x ++ y) = dval (dval a x) y.
Proof. revert a; induction x as [|c x IH]; intros a; [reflexivity|]. cbn [app dval]. apply IH. Qed.

Lemma dval_ge a ds : a <= dval a ds.
Proof.
  revert a; induction ds as [|c r IH]; intros a; cbn [dval]; [lia|].
  specialize (IH (a * 10 + (c - 48))). lia.
Qed.

Lemma is_digit_iff c : is_digit c = true <-> 48 <= c <= 57.
Proof. unfold is_digit, between. rewrite andb_true_iff, !N.leb_le. tauto. Qed.

Lemma overflow10_u64 a d : d < 10 -> overflow10 a d u64_max = true <-> u64_max < a * 10 + d.
Proof.
  intros Hd. unfold overflow10.
  change (u64_max / 10) with 1844674407370955161. change (u64_max mod 10) with 5.
  unfold u64_max.
  rewrite andb_true_iff, orb_true_iff, N.leb_le, !N.ltb_lt. lia.
Qed.

Lemma overflow10_u64_false a d : d < 10 -> a * 10 + d <= u64_max -> overflow10 a d u64_max = false.
Proof.
  intros Hd H. destruct (overflow10 a d u64_max) eqn:E; [|reflexivity].
  apply overflow10_u64 in E; [lia | exact Hd].
Qed.

(* the integer loop walks over a run of digits as long as the value fits u64 *)
Lemma int_loop_digits positive ds : forall sig rest,
  digit_chars ds -> dval sig ds <= u64_max ->
  int_loop positive sig (ds ++ rest) = int_loop positive (dval sig ds) rest.
Proof.
  induction ds as [|c r IH]; intros sig rest Hd Hv; [reflexivity|].
  inversion Hd as [|? ? Hc Hr]; subst. cbn [app int_loop dval] in *.
  assert (Hdig : is_digit c = true) by (apply is_digit_iff; exact Hc). rewrite Hdig.
  assert (Hle : sig * 10 + (c - 48) <= u64_max).
  { pose proof (dval_ge (sig * 10 + (c - 48)) r). lia. }
  rewrite overflow10_u64_false by (try exact Hle; lia).
  apply IH; assumption.
Qed.

Lemma int_loop_end positive sig rest :
  num_end rest = true -> int_loop positive sig rest = parse_number positive sig rest.
Proof.
  destruct rest as [|c r]; [reflexivity|]. intros H. apply num_end_cons in H as (H1 & _ & _).
  cbn [int_loop]. rewrite H1. reflexivity.
Qed.

Lemma parse_number_end positive sig rest :
  num_end rest = true ->
  parse_number positive sig rest =
  Some (if positive then PU64 sig
        else if (0 <=? wrapping_neg (as_i64 sig))%Z then PF64 (SFopp (f64_of_u64 sig))
             else PI64 (wrapping_neg (as_i64 sig)), rest).
Proof.
  destruct rest as [|c r]; [reflexivity|]. intros H. apply num_end_cons in H as (_ & H2 & H3).
  unfold parse_number. rewrite H2, H3. reflexivity.
Qed.

(* ---- the printer's digits *)

Lemma lsd_digits fuel : forall n, Forall (fun d => d < 10) (lsd fuel n).
Proof.
  induction fuel as [|f IH]; intros n; cbn [lsd]; [constructor|].
  constructor; [apply N.mod_lt; lia|]. destruct (n / 10 =? 0); [constructor | apply IH].
Qed.

Lemma lsd_val fuel : forall n, n < 2 ^ N.of_nat fuel -> lval (lsd fuel n) = n.
Proof.
  induction fuel as [|f IH]; intros n Hn.
  - cbn in Hn. cbn. lia.
  - cbn [lsd lval]. destruct (N.eqb_spec (n / 10) 0) as [E|E].
    + cbn [lval]. pose proof (N.div_mod n 10). lia.
    + rewrite IH.
      * pose proof (N.div_mod n 10). lia.
      * rewrite Nat2N.inj_succ, N.pow_succ_r' in Hn.
        apply N.div_lt_upper_bound; lia.
Qed.

Lemma lsd_last fuel : forall n, n <> 0 -> n < 2 ^ N.of_nat fuel ->
  exists l d, lsd fuel n = l ++ [d] /\ d <> 0.
Proof.
  induction fuel as [|f IH]; intros n Hn0 Hn.
  - cbn in Hn. lia.
  - cbn [lsd]. destruct (N.eqb_spec (n / 10) 0) as [E|E].
    + exists [], (n mod 10). split; [reflexivity|].
      pose proof (N.div_mod n 10). lia.
    + destruct (IH (n / 10) E) as (l & d & Hl & Hd).
      * rewrite Nat2N.inj_succ, N.pow_succ_r' in Hn. apply N.div_lt_upper_bound; lia.
      * exists (n mod 10 :: l), d. rewrite Hl. split; [reflexivity | exact Hd].
Qed.

Lemma dval_lsd l : Forall (fun d => d < 10) l ->
  dval 0 (map (fun d => 48 + d) (rev l)) = lval l.
Proof.
  induction l as [|d l IH]; intros H; [reflexivity|].
  inversion H as [|? ? Hd Hl]; subst.
  cbn [rev lval]. rewrite map_app, dval_app, IH by assumption. cbn [map dval]. lia.
Qed.

Lemma digit_chars_map l : Forall (fun d => d < 10) l -> digit_chars (map (fun d => 48 + d) l).
Proof.
  induction 1 as [|d l Hd _ IH]; [constructor|]. cbn [map]. constructor; [lia | exact IH].
Qed.

Lemma fuel_enough n : n < 2 ^ N.of_nat (S (S (N.to_nat (N.log2 n)))).
Proof.
  rewrite !Nat2N.inj_succ, N2Nat.id.
  destruct (N.eq_dec n 0) as [->|Hn]; [cbn; lia|].
  destruct (N.log2_spec n) as [_ H]; [lia|].
  rewrite N.pow_succ_r'. lia.
Qed.

(* print_u n, n > 0: a leading digit 1..9, then digits, with value n *)
Lemma print_u_shape n : n <> 0 ->
  exists c ds, print_u n = c :: ds /\ 49 <= c <= 57 /\ digit_chars ds /\ dval (c - 48) ds = n.
Proof.
  intros Hn. unfold print_u.
  set (fuel := S (S (N.to_nat (N.log2 n)))).
  pose proof (fuel_enough n) as Hf. fold fuel in Hf.
  destruct (lsd_last fuel n Hn Hf) as (l & d & Hl & Hd).
  pose proof (lsd_digits fuel n) as Hdig. pose proof (lsd_val fuel n Hf) as Hval.
  pose proof (dval_lsd (lsd fuel n) Hdig) as Hdv. rewrite Hval in Hdv.
  rewrite Hl in *. rewrite rev_app_distr in *. cbn [rev app map] in *.
  apply Forall_app in Hdig as [Hdl Hdd]. inversion Hdd as [|? ? Hd10 _]; subst.
  exists (48 + d), (map (fun d0 => 48 + d0) (rev l)). split; [reflexivity|].
  split; [lia|]. split.
  - apply digit_chars_map. apply Forall_rev. exact Hdl.
  - cbn [dval] in Hdv. replace (48 + d - 48) with d by lia. replace (0 * 10 + (48 + d - 48)) with d in Hdv by lia.
    exact Hdv.
Qed.

(* a positive decimal integer that fits u64 is scanned as that integer *)
Lemma parse_integer_print_u positive n rest :
  n <> 0 -> n <= u64_max -> num_end rest = true ->
  parse_integer positive (print_u n ++ rest) = parse_number positive n rest.
Proof.
  intros Hn Hmax Hend.
  destruct (print_u_shape n Hn) as (c & ds & Hp & Hc & Hds & Hv). rewrite Hp.
  cbn [app parse_integer].
  destruct (N.eqb_spec c 48) as [->|_]; [lia|].
  assert (Hb : between 49 57 c = true).
  { unfold between. rewrite andb_true_iff, !N.leb_le. exact Hc. }
  rewrite Hb. rewrite int_loop_digits by (try exact Hds; rewrite Hv; exact Hmax).
  rewrite Hv. apply int_loop_end. exact Hend.
Qed.

(* the integer round trip at the token level *)
Lemma parse_num_tok_print_int z rest :
  in_i64 z = true -> num_end rest = true ->
  parse_num_tok (print_int z ++ rest) = Some (PI64 z, rest) \/
  (parse_num_tok (print_int z ++ rest) = Some (PU64 (Z.to_N z), rest) /\ (0 <= z)%Z).
Proof.
  intros Hr Hend. unfold in_i64 in Hr. apply andb_true_iff in Hr as [Hlo Hhi].
  apply Z.leb_le in Hlo, Hhi.
  destruct z as [|p|p]; cbn [print_int].
  - right. split; [|lia]. cbn [app parse_num_tok]. change (48 =? 45) with false. change (is_digit 48) with true.
    cbv iota. cbn [parse_integer]. change (48 =? 48) with true. cbv iota.
    destruct rest as [|c r]; [reflexivity|].
    pose proof (num_end_cons _ _ Hend) as (H1 & _ & _). rewrite H1.
    rewrite parse_number_end by exact Hend. reflexivity.
  - right. split; [|lia].
    destruct (print_u_shape (Npos p)) as (c & ds & Hp & Hc & _ & _); [lia|].
    assert (E : parse_num_tok (print_u (N.pos p) ++ rest) = parse_integer true (print_u (N.pos p) ++ rest)).
    { rewrite Hp. cbn [app parse_num_tok]. destruct (N.eqb_spec c 45); [lia|].
      assert (Hd : is_digit c = true) by (apply is_digit_iff; lia). rewrite Hd. reflexivity. }
    rewrite E, parse_integer_print_u; [| lia | unfold u64_max; lia | exact Hend].
    rewrite parse_number_end by exact Hend. reflexivity.
  - left. cbn [app parse_num_tok]. change (45 =? 45) with true. cbv iota.
    rewrite parse_integer_print_u; [| lia | unfold u64_max; lia | exact Hend].
    rewrite parse_number_end by exact Hend. cbv iota.
    assert (Hw : wrapping_neg (as_i64 (N.pos p)) = Z.neg p).
    { unfold as_i64, wrapping_neg.
      destruct (N.ltb_spec (N.pos p) 9223372036854775808) as [L|G].
      - destruct (Z.eqb_spec (Z.of_N (N.pos p)) (-9223372036854775808)) as [E|_]; [lia|]. reflexivity.
      - assert (Hp : p = 9223372036854775808%positive) by lia. subst p. reflexivity. }
    rewrite Hw. reflexivity.
Qed.

Lemma value_of_pnum_int z p :
  in_i64 z = true ->
  (p = PI64 z \/ (p = PU64 (Z.to_N z) /\ (0 <= z)%Z)) ->
  value_of_pnum p = VInt z.
Proof.
  intros Hr [->|[-> Hz]]; [reflexivity|].
  unfold in_i64 in Hr. apply andb_true_iff in Hr as [_ Hhi]. apply Z.leb_le in Hhi.
  cbn [value_of_pnum]. unfold i64_max.
  destruct (N.leb_spec (Z.to_N z) 9223372036854775807) as [_|G]; [|lia].
  rewrite Z2N.id by exact Hz. reflexivity.
Qed.

(* ---------------------------------------------------------------------------------------------- *)
(** * Locality of the scanner *)

Ltac inv_some H := inversion H; subst; clear H.

Lemma from_parts_rest positive sig e s p r :
  from_parts positive sig e s = Some (p, r) -> r = s.
Proof. unfold from_parts. destruct (f64_from_parts positive sig e); [intros H; inv_some H; reflexivity | discriminate]. Qed.

Lemma from_parts_local positive sig e p rest :
  from_parts positive sig e [] = Some (p, []) -> from_parts positive sig e rest = Some (p, rest).
Proof. unfold from_parts. destruct (f64_from_parts positive sig e); [intros H; inv_some H; reflexivity | discriminate]. Qed.

Lemma skip_digits_local txt rest :
  skip_digits txt = [] -> num_end rest = true -> skip_digits (txt ++ rest) = rest.
Proof.
  induction txt as [|d r IH]; intros H Hend.
  - cbn [app]. destruct rest as [|c r']; [reflexivity|].
    apply num_end_cons in Hend as (H1 & _ & _). cbn [skip_digits]. rewrite H1. reflexivity.
  - cbn [app skip_digits] in *. destruct (is_digit d); [apply IH; assumption | discriminate].
Qed.

Lemma exp_loop_local positive sig start pos_exp txt : forall exp p rest,
  exp_loop positive sig start pos_exp exp txt = Some (p, []) -> num_end rest = true ->
  exp_loop positive sig start pos_exp exp (txt ++ rest) = Some (p, rest).
Proof.
  induction txt as [|d r IH]; intros exp p rest H Hend.
  - cbn [app exp_loop] in *. destruct rest as [|c r']; [exact H|].
    pose proof (num_end_cons _ _ Hend) as (H1 & _ & _). cbn [exp_loop]. rewrite H1.
    apply from_parts_local. exact H.
  - cbn [app exp_loop] in *. destruct (is_digit d).
    + destruct (overflow10 exp (d - 48) i32_max).
      * destruct (negb (sig =? 0) && pos_exp); [discriminate|].
        inv_some H. rewrite skip_digits_local by assumption. reflexivity.
      * apply IH; assumption.
    + apply from_parts_rest in H. discriminate.
Qed.

Lemma exp_first_local positive sig start pe txt p rest :
  exp_first positive sig start pe txt = Some (p, []) -> num_end rest = true ->
  exp_first positive sig start pe (txt ++ rest) = Some (p, rest).
Proof.
  destruct txt as [|d r]; [discriminate|]. cbn [app exp_first]. destruct (is_digit d); [|discriminate].
  apply exp_loop_local.
Qed.

Lemma parse_exponent_local positive sig start txt p rest :
  parse_exponent positive sig start txt = Some (p, []) -> num_end rest = true ->
  parse_exponent positive sig start (txt ++ rest) = Some (p, rest).
Proof.
  intros H Hend. unfold parse_exponent in *.
  destruct txt as [|c r]; [discriminate|].
  cbn [app exp_sign] in *.
  destruct (c =? 43); [cbn [fst snd] in *; apply exp_first_local; assumption|].
  destruct (c =? 45); [cbn [fst snd] in *; apply exp_first_local; assumption|].
  cbn [fst snd] in *. apply (exp_first_local positive sig start true (c :: r)); assumption.
Qed.

Lemma exp_or_end_local positive sig e txt p rest :
  exp_or_end positive sig e txt = Some (p, []) -> num_end rest = true ->
  exp_or_end positive sig e (txt ++ rest) = Some (p, rest).
Proof.
  intros H Hend. destruct txt as [|c r].
  - cbn [app exp_or_end] in *. destruct rest as [|c r']; [exact H|].
    pose proof (num_end_cons _ _ Hend) as (_ & _ & H3). cbn [exp_or_end]. rewrite H3.
    apply from_parts_local. exact H.
  - cbn [app exp_or_end] in *. destruct (is_e c).
    + apply parse_exponent_local; assumption.
    + apply from_parts_rest in H. discriminate.
Qed.

Lemma skip_digits_app_nonempty txt rest :
  skip_digits txt <> [] -> skip_digits (txt ++ rest) = skip_digits txt ++ rest.
Proof.
  induction txt as [|d r IH]; intros H; [cbn in H; congruence|].
  cbn [app skip_digits] in *. destruct (is_digit d); [apply IH; exact H | reflexivity].
Qed.

Lemma exp_or_end_skip_local positive sig e txt p rest :
  exp_or_end positive sig e (skip_digits txt) = Some (p, []) -> num_end rest = true ->
  exp_or_end positive sig e (skip_digits (txt ++ rest)) = Some (p, rest).
Proof.
  intros H Hend. destruct (skip_digits txt) as [|c r] eqn:E.
  - rewrite skip_digits_local by assumption.
    cbn [exp_or_end] in H. destruct rest as [|c r']; [exact H|].
    pose proof (num_end_cons _ _ Hend) as (_ & _ & H3). cbn [exp_or_end]. rewrite H3.
    apply from_parts_local. exact H.
  - rewrite skip_digits_app_nonempty by (rewrite E; discriminate). rewrite E.
    apply (exp_or_end_local positive sig e (c :: r)); assumption.
Qed.

Lemma dec_loop_local positive txt : forall sig e any p rest,
  dec_loop positive sig e any txt = Some (p, []) -> num_end rest = true ->
  dec_loop positive sig e any (txt ++ rest) = Some (p, rest).
Proof.
  induction txt as [|d r IH]; intros sig e any p rest H Hend.
  - cbn [app dec_loop] in *. destruct any; [|discriminate].
    destruct rest as [|c r']; [exact H|].
    pose proof (num_end_cons _ _ Hend) as (H1 & _ & H3). cbn [dec_loop]. rewrite H1.
    cbn [exp_or_end]. rewrite H3. apply from_parts_local. exact H.
  - cbn [app dec_loop] in *. destruct (is_digit d) eqn:Hd.
    + destruct (overflow10 sig (d - 48) u64_max).
      * apply (exp_or_end_skip_local positive sig e (d :: r)); assumption.
      * apply IH; assumption.
    + destruct any; [|discriminate].
      apply (exp_or_end_local positive sig e (d :: r)); assumption.
Qed.

Lemma parse_number_local positive sig txt p rest :
  txt <> [] ->
  parse_number positive sig txt = Some (p, []) -> num_end rest = true ->
  parse_number positive sig (txt ++ rest) = Some (p, rest).
Proof.
  intros Hne H Hend. destruct txt as [|c r]; [congruence|].
  unfold parse_number in *. cbn [app].
  destruct (c =? 46).
  - apply dec_loop_local; assumption.
  - destruct (is_e c).
    + apply parse_exponent_local; assumption.
    + inv_some H.
Qed.

Lemma long_int_local positive sig txt : forall e p rest,
  long_int positive sig e txt = Some (p, []) -> num_end rest = true ->
  long_int positive sig e (txt ++ rest) = Some (p, rest).
Proof.
  induction txt as [|c r IH]; intros e p rest H Hend.
  - cbn [app long_int] in *. destruct rest as [|c r']; [exact H|].
    pose proof (num_end_cons _ _ Hend) as (H1 & H2 & H3). cbn [long_int]. rewrite H1, H2, H3.
    apply from_parts_local. exact H.
  - cbn [app long_int] in *. destruct (is_digit c).
    + apply IH; assumption.
    + destruct (c =? 46).
      * apply dec_loop_local; assumption.
      * destruct (is_e c).
        -- apply parse_exponent_local; assumption.
        -- apply from_parts_rest in H. discriminate.
Qed.

(* a number that ends right at the end of the text is a plain integer; it then does not depend on what follows *)
Lemma parse_number_nil_local positive sig p rest :
  parse_number positive sig [] = Some (p, []) -> num_end rest = true ->
  parse_number positive sig rest = Some (p, rest).
Proof.
  intros H Hend. rewrite parse_number_end by exact Hend.
  unfold parse_number in H. inv_some H. reflexivity.
Qed.

Lemma int_loop_local positive txt : forall sig p rest,
  int_loop positive sig txt = Some (p, []) -> num_end rest = true ->
  int_loop positive sig (txt ++ rest) = Some (p, rest).
Proof.
  induction txt as [|d r IH]; intros sig p rest H Hend.
  - cbn [app int_loop] in *. rewrite int_loop_end by exact Hend.
    apply parse_number_nil_local; assumption.
  - cbn [app int_loop] in *. destruct (is_digit d).
    + destruct (overflow10 sig (d - 48) u64_max).
      * apply (long_int_local positive sig (d :: r)); assumption.
      * apply IH; assumption.
    + apply (parse_number_local positive sig (d :: r)); [discriminate | assumption | assumption].
Qed.

Lemma parse_integer_local positive txt p rest :
  parse_integer positive txt = Some (p, []) -> num_end rest = true ->
  parse_integer positive (txt ++ rest) = Some (p, rest).
Proof.
  intros H Hend. destruct txt as [|c r]; [discriminate|].
  cbn [app parse_integer] in *. destruct (c =? 48).
  - destruct r as [|d r'].
    + cbn [app]. destruct rest as [|c' r'']; [exact H|].
      pose proof (num_end_cons _ _ Hend) as (H1 & _ & _). rewrite H1.
      apply parse_number_nil_local; assumption.
    + cbn [app]. destruct (is_digit d); [discriminate|].
      apply (parse_number_local positive 0 (d :: r')); [discriminate | assumption | assumption].
  - destruct (between 49 57 c); [|discriminate]. apply int_loop_local; assumption.
Qed.

Lemma parse_num_tok_local txt p rest :
  parse_num_tok txt = Some (p, []) -> num_end rest = true ->
  parse_num_tok (txt ++ rest) = Some (p, rest).
Proof.
  intros H Hend. destruct txt as [|c r]; [discriminate|].
  cbn [app parse_num_tok] in *. destruct (c =? 45).
  - apply parse_integer_local; assumption.
  - destruct (is_digit c); [|discriminate].
    apply (parse_integer_local true (c :: r)); assumption.
Qed.

(* an accepted number token starts with '-' or a digit *)
Lemma parse_num_tok_head txt p r :
  parse_num_tok txt = Some (p, r) -> exists c t, txt = c :: t /\ ((c =? 45) || is_digit c = true).
Proof.
  destruct txt as [|c t]; [discriminate|]. intros H. exists c, t. split; [reflexivity|].
  cbn [parse_num_tok] in H. destruct (c =? 45); [reflexivity|].
  destruct (is_digit c); [reflexivity | discriminate].
Qed.

(* ---------------------------------------------------------------------------------------------- *)
(** * The fast integer rounding of the model agrees with SpecFloat's binary_normalize on samples
      (powers of ten of the POW10 table, u64 edges, ties, the overflow threshold) *)
Example round_int_f64_samples :
  forallb (fun m => sf_eqb (round_int_f64 m) (binary_normalize 53 1024 m 0 false))
    ([0; 1; 2; 3; 10; 9007199254740991; 9007199254740992; 9007199254740993; 9007199254740994; 9007199254740995;
      9223372036854775807; 9223372036854775808; 12345678901234567890; 18446744073709550591; 18446744073709550592;
      18446744073709550593; 18446744073709551615; 2 ^ 1024 - 2 ^ 970; 2 ^ 1024 - 2 ^ 970 - 1; 2 ^ 1024]
     ++ map (fun k => 10 ^ k) [1; 5; 15; 16; 17; 18; 19; 20; 21; 22; 23; 24; 25; 27; 30; 50; 100; 200; 300; 307; 308; 309])%Z
  = true.
Proof. vm_compute. reflexivity. Qed.
