(* Proofs relating Model/VrlPathLex.v (the VRL source reading of a path) to Model/PathText.v. *)
From Coq Require Import List NArith ZArith Bool Lia.
From VRL Require Import Base.Bytes Base.Value Model.PathText Model.VrlPathLex Proofs.PathTextProofs.
Import ListNotations.
Local Open Scope N_scope.

Ltac cls2 :=
  unfold is_ws, is_ident_continue, is_ident_start, is_digit_or_us, jit_char, ser_char, is_upper, is_lower, is_digit in *;
  repeat match goal with
         | H : context [N.leb ?a ?b] |- _ => destruct (N.leb_spec a b)
         | |- context [N.leb ?a ?b] => destruct (N.leb_spec a b)
         | H : context [N.eqb ?a ?b] |- _ => destruct (N.eqb_spec a b)
         | |- context [N.eqb ?a ?b] => destruct (N.eqb_spec a b)
         end;
  cbn in *; try congruence; try lia.

Lemma ser_ident c : ser_char c = is_ident_continue c.
Proof. cls2. Qed.

Lemma ser_not_ws c : ser_char c = true -> is_ws c = false.
Proof. intros H. cls2. Qed.

Lemma digit_not_ws c : is_digit c = true -> is_ws c = false.
Proof. intros H. cls2. Qed.

Lemma digit_is_dus c : is_digit c = true -> is_digit_or_us c = true.
Proof. intros H. unfold is_digit_or_us. rewrite H. reflexivity. Qed.

(* ---------- span ---------- *)
Lemma span_app f a : forall b,
  forallb f a = true -> (match b with c :: _ => f c = false | [] => True end) -> span f (a ++ b) = (a, b).
Proof.
  induction a as [|c a IH]; intros b Ha Hb.
  - cbn. destruct b as [|c b]; cbn; auto. rewrite Hb. reflexivity.
  - cbn in Ha. apply andb_true_iff in Ha as [Hc Ha]. cbn. rewrite Hc. rewrite IH; auto.
Qed.

(* ---------- indices ---------- *)
Lemma dec_value_digits ds : forall v, forallb is_digit ds = true -> dec_value ds v = acc_pos ds v.
Proof.
  induction ds as [|d ds IH]; intros v H; [reflexivity|].
  cbn in H. apply andb_true_iff in H as [Hd H].
  cbn [dec_value]. assert ((d =? 95) = false) as -> by (clear - Hd; cls2).
  rewrite IH by auto. reflexivity.
Qed.

Lemma vindex_render i rest :
  in_isize i = true -> vindex (render_int i ++ 93 :: rest) = Some (i, rest).
Proof.
  intros Hi. pose proof Hi as Hi'. apply in_isize_iff in Hi'. unfold render_int.
  destruct (Z.ltb_spec i 0) as [Hneg|Hpos].
  - destruct (render_nat_spec (- i)%Z) as (d & ds & E & Hd & Hv); [lia|].
    rewrite E. pose proof Hd as Hd'. cbn [forallb] in Hd'. apply andb_true_iff in Hd' as [Hd1 Hd2].
    unfold vindex. cbn [app skip_ws]. change (is_ws 45) with false. cbn iota.
    change (45 =? 45) with true. rewrite Hd1. cbn [andb]. cbn iota. rewrite Hd1.
    change (d :: ds ++ 93 :: rest) with ((d :: ds) ++ 93 :: rest).
    rewrite (span_app is_digit_or_us (d :: ds) (93 :: rest)).
    + cbn [negb andb orb]. change (is_ident_continue 93) with false. change (93 =? 46) with false. cbn [andb orb].
      cbn iota. rewrite dec_value_digits by auto. rewrite Hv.
      replace (- - i)%Z with i by lia. unfold i64_ok. rewrite Hi. cbn [skip_ws]. change (is_ws 93) with false.
      cbn iota. change (93 =? 93) with true. reflexivity.
    + rewrite forallb_forall. intros x Hx. apply digit_is_dus. rewrite forallb_forall in Hd. auto.
    + reflexivity.
  - destruct (render_nat_spec i) as (d & ds & E & Hd & Hv); [lia|].
    rewrite E. pose proof Hd as Hd'. cbn [forallb] in Hd'. apply andb_true_iff in Hd' as [Hd1 Hd2].
    unfold vindex. cbn [app skip_ws]. rewrite (digit_not_ws d Hd1).
    assert ((d =? 45) = false) as -> by (apply is_digit_not_minus; auto). cbn [andb]. cbn iota. rewrite Hd1.
    change (d :: ds ++ 93 :: rest) with ((d :: ds) ++ 93 :: rest).
    rewrite (span_app is_digit_or_us (d :: ds) (93 :: rest)).
    + cbn [negb andb orb]. change (is_ident_continue 93) with false. change (93 =? 46) with false. cbn [andb orb].
      cbn iota. rewrite dec_value_digits by auto. rewrite Hv.
      unfold i64_ok. rewrite Hi. cbn [skip_ws]. change (is_ws 93) with false.
      cbn iota. change (93 =? 93) with true. reflexivity.
    + rewrite forallb_forall. intros x Hx. apply digit_is_dus. rewrite forallb_forall in Hd. auto.
    + reflexivity.
Qed.

(* ---------- quoted fields ---------- *)
Definition brace (c : N) : bool := (c =? 123) || (c =? 125).
Definition no_brace (l : text) : bool := forallb (fun c => negb (brace c)) l.

Lemma string_lit_escape f : forall raw rest,
  string_lit (escape_field f ++ 34 :: rest) raw = Some (raw ++ escape_field f, rest).
Proof.
  induction f as [|c f IH]; intros raw rest.
  - cbn. rewrite app_nil_r. reflexivity.
  - cbn [escape_field]. destruct ((c =? 34) || (c =? 92)) eqn:Es.
    + cbn [app string_lit]. change (92 =? 34) with false. change (92 =? 92) with true. cbn iota.
      assert (Hv : valid_escape c = true).
      { apply orb_true_iff in Es as [E|E]; apply N.eqb_eq in E; subst; reflexivity. }
      rewrite Hv. rewrite IH. rewrite <- app_assoc. reflexivity.
    + apply orb_false_iff in Es as [E1 E2].
      cbn [app string_lit]. rewrite E1, E2. rewrite IH. rewrite <- app_assoc. reflexivity.
Qed.

Lemma unescape_escape f : unescape (escape_field f) = Some f.
Proof.
  induction f as [|c f IH]; [reflexivity|].
  cbn [escape_field]. destruct ((c =? 34) || (c =? 92)) eqn:Es.
  - cbn [unescape]. change (92 =? 92) with true. cbn iota. rewrite IH.
    apply orb_true_iff in Es as [E|E]; apply N.eqb_eq in E; subst; reflexivity.
  - apply orb_false_iff in Es as [E1 E2]. cbn [unescape]. rewrite E2, IH. reflexivity.
Qed.

Lemma no_brace_escape f : no_brace f = true -> no_brace (escape_field f) = true.
Proof.
  induction f as [|c f IH]; intros H; [reflexivity|].
  cbn in H. apply andb_true_iff in H as [Hc H].
  cbn [escape_field]. destruct ((c =? 34) || (c =? 92)).
  - change (no_brace (92 :: c :: escape_field f)) with (negb (brace 92) && (negb (brace c) && no_brace (escape_field f))).
    rewrite Hc, IH by auto. reflexivity.
  - change (no_brace (c :: escape_field f)) with (negb (brace c) && no_brace (escape_field f)).
    rewrite Hc, IH by auto. reflexivity.
Qed.

Lemma template_plain raw : forall cur segs,
  no_brace raw = true -> template false cur raw segs = push_lit segs (cur ++ raw).
Proof.
  induction raw as [|c r IH]; intros cur segs H.
  - cbn. rewrite app_nil_r. reflexivity.
  - cbn in H. apply andb_true_iff in H as [Hc H].
    unfold brace in Hc. apply negb_true_iff, orb_false_iff in Hc as [Hc1 Hc2].
    cbn [template]. destruct r as [|c1 r1].
    + rewrite IH by auto. rewrite <- app_assoc. reflexivity.
    + pose proof H as H'. cbn in H'. apply andb_true_iff in H' as [Hd _].
      unfold brace in Hd. apply negb_true_iff, orb_false_iff in Hd as [Hd1 Hd2].
      cbn [andb negb]. rewrite Hc1, Hd1, Hd2. rewrite !andb_false_r. cbn [andb]. cbn iota.
      rewrite IH by auto. rewrite <- app_assoc. reflexivity.
Qed.

Lemma field_of_raw_escape f : no_brace f = true -> field_of_raw (escape_field f) = Some f.
Proof.
  intros H. unfold field_of_raw. rewrite template_plain by (apply no_brace_escape; auto).
  cbn [app]. unfold push_lit.
  destruct (escape_field f) as [|x l] eqn:E.
  - destruct f as [|c f]; [reflexivity|]. cbn in E. destruct ((c =? 34) || (c =? 92)); discriminate.
  - rewrite <- E, unescape_escape. cbn. rewrite app_nil_r. reflexivity.
Qed.

(* ---------- which fields VRL source can spell the way the renderer writes them ---------- *)
Definition spellable_field (f : text) : bool :=
  if needs_quotes f then no_brace f
  else match f with
       | [] => false
       | [c] => negb (c =? 95) && negb (is_digit c)
       | c :: _ => if is_digit c then negb (forallb is_digit_or_us f) else true
       end.

Definition spellable (p : path) : bool :=
  forallb (fun s => match s with SField f => spellable_field f | SIndex _ => true end) p.

Lemma rest_not_ident b p :
  b = false -> match render_from b p with c :: _ => is_ident_continue c = false | [] => True end.
Proof.
  intros ->. destruct p as [|[f|i] p]; cbn; auto.
Qed.

Lemma span_dus_stops f : forall rest,
  forallb is_ident_continue f = true -> forallb is_digit_or_us f = false ->
  exists e tl, snd (span is_digit_or_us (f ++ rest)) = e :: tl /\ is_ident_continue e = true.
Proof.
  induction f as [|c f IH]; intros rest Hic Hd; [discriminate|].
  cbn in Hic, Hd. apply andb_true_iff in Hic as [Hc Hic].
  cbn [app span]. destruct (is_digit_or_us c) eqn:Ec.
  - cbn in Hd. destruct (IH rest Hic Hd) as (e & tl & Hs & He).
    destruct (span is_digit_or_us (f ++ rest)) as [a b]. cbn in *. eauto.
  - cbn. eauto.
Qed.

Lemma vident_plain f rest :
  needs_quotes f = false -> spellable_field f = true ->
  (match rest with c :: _ => is_ident_continue c = false | [] => True end) ->
  vident (f ++ rest) = Some (f, rest).
Proof.
  intros Hq Hs Hrest. unfold spellable_field in Hs. rewrite Hq in Hs.
  destruct (needs_quotes_false f Hq) as (c & f' & -> & Hc & Hf').
  assert (Hall : forallb is_ident_continue (c :: f') = true).
  { cbn. rewrite <- ser_ident, Hc. cbn. rewrite forallb_forall in *. intros x Hx. rewrite <- ser_ident. auto. }
  assert (Hspan : span is_ident_continue ((c :: f') ++ rest) = (c :: f', rest)) by (apply span_app; auto).
  unfold vident. cbn [app]. change (c :: f' ++ rest) with ((c :: f') ++ rest).
  destruct (is_ident_start c) eqn:Eis.
  - rewrite Hspan. destruct f' as [|c2 f'']; [|reflexivity].
    apply andb_true_iff in Hs as [Hs _]. apply negb_true_iff in Hs. rewrite Hs. reflexivity.
  - assert (Hd : is_digit c = true).
    { rewrite ser_ident in Hc. unfold is_ident_continue in Hc. rewrite Eis, orb_false_r in Hc. exact Hc. }
    rewrite Hd.
    assert (Hnd : forallb is_digit_or_us (c :: f') = false).
    { destruct f' as [|c2 f''].
      - apply andb_true_iff in Hs as [_ Hs]. rewrite Hd in Hs. discriminate.
      - rewrite Hd in Hs. apply negb_true_iff in Hs. exact Hs. }
    destruct (span_dus_stops (c :: f') rest Hall Hnd) as (e & tl & Hsn & He).
    destruct (span is_digit_or_us ((c :: f') ++ rest)) as [a b]. cbn [snd] in Hsn. subst b.
    rewrite He. rewrite Hspan. reflexivity.
Qed.

Lemma vfield_body f rest :
  spellable_field f = true ->
  (match rest with c :: _ => is_ident_continue c = false | [] => True end) ->
  vfield (field_body f ++ rest) = Some (f, rest).
Proof.
  intros Hs Hrest. unfold field_body. destruct (needs_quotes f) eqn:Hq.
  - unfold spellable_field in Hs. rewrite Hq in Hs.
    cbn [app vfield]. change (34 =? 34) with true. cbn iota.
    rewrite <- app_assoc. cbn [app]. rewrite string_lit_escape. cbn [app].
    rewrite field_of_raw_escape by auto. reflexivity.
  - destruct (needs_quotes_false f Hq) as (c & f' & E & Hc & Hf'). subst f.
    cbn [app vfield].
    assert ((c =? 34) = false) as -> by (destruct (ser_not_special c Hc) as (_ & _ & H & _); exact H).
    change (c :: f' ++ rest) with ((c :: f') ++ rest).
    apply vident_plain; auto.
Qed.

Lemma field_body_first f :
  exists c tl, field_body f = c :: tl /\ is_ws c = false /\ (c =? 91) = false /\ (c =? 46) = false.
Proof.
  unfold field_body. destruct (needs_quotes f) eqn:Hq.
  - exists 34, (escape_field f ++ [34]). repeat split; reflexivity.
  - destruct (needs_quotes_false f Hq) as (c & f' & -> & Hc & Hf').
    exists c, f'. destruct (ser_not_special c Hc) as (H46 & H91 & _ & _).
    repeat split; auto. apply ser_not_ws; auto.
Qed.

Lemma render_int_length i : (1 <= length (render_int i))%nat.
Proof.
  unfold render_int. destruct (i <? 0)%Z; cbn [length]; [lia|].
  unfold render_nat, dec_fuel. rewrite rev_length. cbn [le_digits length]. lia.
Qed.

(* the main induction: the VRL reading of the rendering of a spellable path *)
Lemma vsegs_render p : forall fuel b acc,
  spellable p = true -> indices_in_isize p = true ->
  (length (render_from b p) < fuel)%nat ->
  vsegs fuel b (render_from b p) acc = Some (rev acc ++ p).
Proof.
  induction p as [|s p IH]; intros fuel b acc Hsp Hi Hlen.
  - destruct fuel; [cbn in Hlen; lia|]. cbn. rewrite app_nil_r. reflexivity.
  - cbn in Hsp, Hi. apply andb_true_iff in Hsp as [Hs Hsp]. apply andb_true_iff in Hi as [His Hi].
    destruct fuel as [|fuel]; [lia|].
    destruct s as [f|i].
    + cbn [render_from] in *. rewrite serialize_field_body in *.
      destruct (field_body_first f) as (c & tl & Ebody & Hws & H91 & H46).
      assert (Hrest := rest_not_ident false p eq_refl).
      assert (Hrec : vsegs fuel false (render_from false p) (SField f :: acc) = Some (rev acc ++ SField f :: p)).
      { rewrite IH; auto.
        - cbn [rev]. rewrite <- app_assoc. reflexivity.
        - rewrite !app_length in Hlen. rewrite Ebody in Hlen. cbn [length] in Hlen. lia. }
      destruct b.
      * cbn [app]. cbn [vsegs]. rewrite Ebody. cbn [app all_ws forallb]. rewrite Hws. cbn [andb]. cbn iota.
        rewrite H91, H46. change (c :: tl ++ render_from false p) with ((c :: tl) ++ render_from false p).
        rewrite <- Ebody. rewrite vfield_body by auto. exact Hrec.
      * cbn [app]. cbn [vsegs all_ws forallb]. change (is_ws 46) with false. cbn [andb]. cbn iota.
        change (46 =? 91) with false. change (46 =? 46) with true. cbn iota.
        rewrite vfield_body by auto. exact Hrec.
    + cbn [render_from] in *. cbn [vsegs all_ws forallb]. change (is_ws 91) with false. cbn [andb]. cbn iota.
      change (91 =? 91) with true. cbn iota. rewrite vindex_render by auto.
      rewrite IH; auto.
      * cbn [rev]. rewrite <- app_assoc. reflexivity.
      * cbn [length] in Hlen. rewrite app_length in Hlen. cbn [length] in Hlen.
        pose proof (render_int_length i). lia.
Qed.

Theorem vrl_reads_rendering tp :
  spellable (snd tp) = true -> indices_in_isize (snd tp) = true ->
  vrl_path (render_target tp) = Some tp.
Proof.
  destruct tp as [pre p]. cbn [snd]. intros Hsp Hi.
  unfold vrl_path, render_target. cbn [fst snd].
  destruct pre; cbn [skip_ws].
  - change (is_ws 46) with false. cbn iota. change (46 =? 46) with true. cbn iota.
    unfold render. rewrite vsegs_render; auto.
  - change (is_ws 37) with false. cbn iota. change (37 =? 46) with false. change (37 =? 37) with true. cbn iota.
    unfold render. rewrite vsegs_render; auto.
Qed.

(* ---------- agreement on all short texts over the path alphabet ---------- *)
Definition agree_b (s : text) : bool :=
  match vrl_path s, parse_target_path s with
  | Some a, POk b => tpath_eqb a b
  | _, _ => true
  end.

(* . % a 0 - @ _ dquote backslash [ ] space e-acute(UTF-8) *)
Definition alphabet : list text :=
  [[46]; [37]; [97]; [48]; [45]; [64]; [95]; [34]; [92]; [91]; [93]; [32]; [195; 169]].

(* every text of at most n alphabet symbols appended to pre, without materialising the list of texts *)
Fixpoint all_ok (n : nat) (pre : text) : bool :=
  agree_b pre && match n with
                 | O => true
                 | S k => forallb (fun a => all_ok k (pre ++ a)) alphabet
                 end.

Lemma all_ok_complete n : forall pre,
  all_ok n pre = true ->
  forall w, (length w <= n)%nat -> Forall (fun a => In a alphabet) w -> agree_b (pre ++ concat w) = true.
Proof.
  induction n as [|n IH]; intros pre H w Hl Hw.
  - destruct w; [|cbn in Hl; lia]. cbn [concat]. rewrite app_nil_r.
    cbn in H. apply andb_true_iff in H as [H _]. exact H.
  - cbn [all_ok] in H. apply andb_true_iff in H as [H0 H].
    destruct w as [|a w].
    + cbn [concat]. rewrite app_nil_r. exact H0.
    + inversion Hw; subst. rewrite forallb_forall in H.
      cbn [concat]. rewrite app_assoc. apply IH; auto. cbn in Hl. lia.
Qed.

Lemma all_ok_6 : all_ok 6 [] = true.
Proof. vm_compute. reflexivity. Qed.

Lemma tpath_eqb_eq a b : tpath_eqb a b = true -> a = b.
Proof.
  destruct a as [p1 l1], b as [p2 l2]. unfold tpath_eqb. cbn [fst snd]. intros H.
  apply andb_true_iff in H as [Hp Hl].
  assert (p1 = p2) by (destruct p1, p2; try discriminate; reflexivity). subst.
  f_equal. revert l2 Hl. induction l1 as [|x l1 IH]; intros [|y l2] H; try discriminate; auto.
  cbn in H. apply andb_true_iff in H as [Hx H]. apply seg_eqb_eq in Hx. subst. f_equal. auto.
Qed.

Theorem agree_short w :
  (length w <= 6)%nat -> Forall (fun a => In a alphabet) w ->
  forall a b, vrl_path (concat w) = Some a -> parse_target_path (concat w) = POk b -> a = b.
Proof.
  intros Hl Hw a b Ha Hb.
  pose proof (all_ok_complete 6 [] all_ok_6 w Hl Hw) as Hok. cbn [app] in Hok.
  unfold agree_b in Hok. rewrite Ha, Hb in Hok. apply tpath_eqb_eq. exact Hok.
Qed.
