(* C21, part 1: UTF-8 lemmas (validity, lossy conversion) and the string printer/parser round trip. *)
From Coq Require Import List NArith ZArith Bool Lia.
From VRL Require Import Base.Bytes Base.Value Base.Lit Model.Json.
Import ListNotations.
Local Open Scope N_scope.

(* ---------------------------------------------------------------------------------------------- *)
(** * One UTF-8 character at the head of a string *)

Definition is_char (c : bytes) : Prop :=
  match c with
  | [b0] => lead_of b0 = L1
  | [b0; b1] => lead_of b0 = L2 /\ is_cont b1 = true
  | [b0; b1; b2] => lead_of b0 = L3 /\ second_ok b0 b1 = true /\ is_cont b2 = true
  | [b0; b1; b2; b3] => lead_of b0 = L4 /\ second_ok b0 b1 = true /\ is_cont b2 = true /\ is_cont b3 = true
  | _ => False
  end.

Lemma utf8_ok_char c s : is_char c -> utf8_ok (c ++ s) = utf8_ok s.
Proof.
  destruct c as [|b0 [|b1 [|b2 [|b3 [|? ?]]]]]; cbn [is_char]; try contradiction.
  - intros H. cbn [app utf8_ok]. rewrite H. reflexivity.
  - intros [H1 H2]. cbn [app utf8_ok]. rewrite H1, H2. reflexivity.
  - intros (H1 & H2 & H3). cbn [app utf8_ok]. rewrite H1, H2, H3. reflexivity.
  - intros (H1 & H2 & H3 & H4). cbn [app utf8_ok]. rewrite H1, H2, H3, H4. reflexivity.
Qed.

Lemma lossy_char c s : is_char c -> lossy_utf8 (c ++ s) = c ++ lossy_utf8 s.
Proof.
  destruct c as [|b0 [|b1 [|b2 [|b3 [|? ?]]]]]; cbn [is_char]; try contradiction.
  - intros H. cbn [app lossy_utf8]. rewrite H. reflexivity.
  - intros [H1 H2]. cbn [app lossy_utf8]. rewrite H1, H2. reflexivity.
  - intros (H1 & H2 & H3). cbn [app lossy_utf8]. rewrite H1, H2, H3. reflexivity.
  - intros (H1 & H2 & H3 & H4). cbn [app lossy_utf8]. rewrite H1, H2, H3, H4. reflexivity.
Qed.

(* induction principle: a valid string is a sequence of characters *)
Lemma utf8_ok_ind (P : bytes -> Prop) :
  P [] ->
  (forall c s, is_char c -> utf8_ok s = true -> P s -> P (c ++ s)) ->
  forall s, utf8_ok s = true -> P s.
Proof.
  intros Hnil Hstep s.
  remember (length s) as n eqn:Hn.
  revert s Hn. induction n as [n IH] using lt_wf_ind. intros s Hn Hok.
  destruct s as [|b0 r]; [exact Hnil|].
  cbn [utf8_ok] in Hok. destruct (lead_of b0) eqn:Hl.
  - apply (Hstep [b0] r); [exact Hl | exact Hok |].
    apply (IH (length r)); [subst; cbn; lia | reflexivity | exact Hok].
  - destruct r as [|b1 r1]; [discriminate|]. apply andb_true_iff in Hok as [H1 H2].
    apply (Hstep [b0; b1] r1); [split; assumption | exact H2 |].
    apply (IH (length r1)); [subst; cbn; lia | reflexivity | exact H2].
  - destruct r as [|b1 [|b2 r2]]; try discriminate.
    apply andb_true_iff in Hok as [H12 H3]. apply andb_true_iff in H12 as [H1 H2].
    apply (Hstep [b0; b1; b2] r2); [repeat split; assumption | exact H3 |].
    apply (IH (length r2)); [subst; cbn; lia | reflexivity | exact H3].
  - destruct r as [|b1 [|b2 [|b3 r3]]]; try discriminate.
    apply andb_true_iff in Hok as [H123 H4]. apply andb_true_iff in H123 as [H12 H3].
    apply andb_true_iff in H12 as [H1 H2].
    apply (Hstep [b0; b1; b2; b3] r3); [repeat split; assumption | exact H4 |].
    apply (IH (length r3)); [subst; cbn; lia | reflexivity | exact H4].
  - discriminate.
Qed.

Lemma utf8_ok_app a b : utf8_ok a = true -> utf8_ok (a ++ b) = utf8_ok b.
Proof.
  intros H. revert a H. apply (utf8_ok_ind (fun a => utf8_ok (a ++ b) = utf8_ok b)); [reflexivity|].
  intros c s Hc Hs IH. rewrite <- app_assoc, utf8_ok_char by assumption. assumption.
Qed.

Lemma lossy_app a b : utf8_ok a = true -> lossy_utf8 (a ++ b) = a ++ lossy_utf8 b.
Proof.
  intros H. revert a H. apply (utf8_ok_ind (fun a => lossy_utf8 (a ++ b) = a ++ lossy_utf8 b)); [reflexivity|].
  intros c s Hc Hs IH. rewrite <- !app_assoc, lossy_char by assumption. f_equal. assumption.
Qed.

Lemma lossy_id s : utf8_ok s = true -> lossy_utf8 s = s.
Proof. intros H. rewrite <- (app_nil_r s) at 1. rewrite lossy_app by assumption. cbn. apply app_nil_r. Qed.

Definition ascii (s : bytes) : Prop := Forall (fun b => b < 128) s.

Lemma ascii_utf8_ok s : ascii s -> utf8_ok s = true.
Proof.
  induction 1 as [|b r Hb _ IH]; [reflexivity|].
  cbn [utf8_ok]. unfold lead_of. apply N.ltb_lt in Hb. rewrite Hb. exact IH.
Qed.

Lemma ascii_app a b : ascii a -> ascii b -> ascii (a ++ b).
Proof. intros; apply Forall_app; split; assumption. Qed.

Lemma ascii_forallb s : forallb (fun b => b <? 128) s = true -> ascii s.
Proof.
  intros H. apply Forall_forall. intros x Hx.
  rewrite forallb_forall in H. apply N.ltb_lt. apply H. exact Hx.
Qed.

Lemma utf8_ok_app_both a b : utf8_ok a = true -> utf8_ok b = true -> utf8_ok (a ++ b) = true.
Proof. intros Ha Hb. rewrite utf8_ok_app; assumption. Qed.

(* ---------------------------------------------------------------------------------------------- *)
(** * Escaping keeps a string valid UTF-8 *)

Lemma hexdig_ascii n : n < 16 -> hexdig n < 128.
Proof. unfold hexdig. intros. destruct (n <? 10); lia. Qed.

Lemma escape_byte_ascii b : b < 128 -> ascii (escape_byte b).
Proof.
  intros Hb. unfold escape_byte.
  repeat match goal with
         | |- context [?x =? ?y] => destruct (N.eqb_spec x y)
         | |- context [?x <? ?y] => destruct (N.ltb_spec x y)
         end; repeat constructor; try lia.
  - apply hexdig_ascii. apply N.div_lt_upper_bound; lia.
  - apply hexdig_ascii. apply N.mod_lt. lia.
Qed.

Lemma escape_byte_high b : 128 <= b -> escape_byte b = [b].
Proof.
  intros Hb. unfold escape_byte.
  repeat match goal with
         | |- context [?x =? ?y] => destruct (N.eqb_spec x y); [lia|]
         | |- context [?x <? ?y] => destruct (N.ltb_spec x y); [lia|]
         end.
  reflexivity.
Qed.

Lemma lead_high b l : lead_of b = l -> l <> L1 -> 128 <= b.
Proof. unfold lead_of. destruct (N.ltb_spec b 128); [intros <-; congruence | intros; lia]. Qed.

Lemma is_cont_high b : is_cont b = true -> 128 <= b.
Proof. unfold is_cont, between. rewrite andb_true_iff, N.leb_le. intros [H _]. exact H. Qed.

Lemma second_ok_high b0 b1 : second_ok b0 b1 = true -> 128 <= b1.
Proof.
  unfold second_ok, is_cont, between.
  repeat match goal with |- context [if ?c then _ else _] => destruct c end;
    rewrite andb_true_iff, N.leb_le; intros [H _]; lia.
Qed.

Lemma escape_body_app a b : escape_body (a ++ b) = escape_body a ++ escape_body b.
Proof. induction a as [|x a IH]; [reflexivity|]. cbn [app escape_body]. rewrite IH, app_assoc. reflexivity. Qed.

Lemma escape_body_utf8 s : utf8_ok s = true -> utf8_ok (escape_body s) = true.
Proof.
  revert s. apply (utf8_ok_ind (fun s => utf8_ok (escape_body s) = true)); [reflexivity|].
  intros c s Hc Hs IH.
  rewrite escape_body_app.
  destruct c as [|b0 [|b1 [|b2 [|b3 [|? ?]]]]]; cbn [is_char] in Hc; try contradiction.
  - cbn [escape_body]. rewrite app_nil_r.
    apply utf8_ok_app_both; [|exact IH]. apply ascii_utf8_ok, escape_byte_ascii.
    unfold lead_of in Hc. destruct (N.ltb_spec b0 128); [assumption|].
    repeat match type of Hc with (if ?c then _ else _) = _ => destruct c end; discriminate.
  - destruct Hc as [H0 H1]. cbn [escape_body].
    rewrite (escape_byte_high b0), (escape_byte_high b1), app_nil_r
      by (first [apply is_cont_high; assumption | eapply lead_high; [eassumption | congruence]]).
    change (([b0] ++ [b1]) ++ escape_body s) with ([b0; b1] ++ escape_body s).
    rewrite utf8_ok_char; [exact IH | split; assumption].
  - destruct Hc as (H0 & H1 & H2). cbn [escape_body].
    rewrite (escape_byte_high b0), (escape_byte_high b1), (escape_byte_high b2), app_nil_r
      by (first [apply is_cont_high; assumption | eapply second_ok_high; eassumption
                | eapply lead_high; [eassumption | congruence]]).
    change (([b0] ++ [b1] ++ [b2]) ++ escape_body s) with ([b0; b1; b2] ++ escape_body s).
    rewrite utf8_ok_char; [exact IH | repeat split; assumption].
  - destruct Hc as (H0 & H1 & H2 & H3). cbn [escape_body].
    rewrite (escape_byte_high b0), (escape_byte_high b1), (escape_byte_high b2), (escape_byte_high b3), app_nil_r
      by (first [apply is_cont_high; assumption | eapply second_ok_high; eassumption
                | eapply lead_high; [eassumption | congruence]]).
    change (([b0] ++ [b1] ++ [b2] ++ [b3]) ++ escape_body s) with ([b0; b1; b2; b3] ++ escape_body s).
    rewrite utf8_ok_char; [exact IH | repeat split; assumption].
Qed.

Lemma print_string_utf8 s : utf8_ok s = true -> utf8_ok (print_string s) = true.
Proof.
  intros H. unfold print_string.
  change (34 :: escape_body s ++ [34]) with ([34] ++ escape_body s ++ [34]).
  apply utf8_ok_app_both; [reflexivity|].
  apply utf8_ok_app_both; [apply escape_body_utf8; exact H | reflexivity].
Qed.

(* ---------------------------------------------------------------------------------------------- *)
(** * The string round trip *)

Lemma small_cases b : b < 32 ->
  b = 0 \/ b = 1 \/ b = 2 \/ b = 3 \/ b = 4 \/ b = 5 \/ b = 6 \/ b = 7 \/ b = 8 \/ b = 9 \/ b = 10 \/ b = 11 \/
  b = 12 \/ b = 13 \/ b = 14 \/ b = 15 \/ b = 16 \/ b = 17 \/ b = 18 \/ b = 19 \/ b = 20 \/ b = 21 \/ b = 22 \/
  b = 23 \/ b = 24 \/ b = 25 \/ b = 26 \/ b = 27 \/ b = 28 \/ b = 29 \/ b = 30 \/ b = 31.
Proof. lia. Qed.

Lemma parse_escaped_byte b rest :
  (b =? 34) || (b =? 92) || (b <? 32) = true ->
  exists esc, escape_byte b = 92 :: esc /\ parse_escape (esc ++ rest) = Some ([b], rest).
Proof.
  intros H. unfold escape_byte.
  destruct (N.eqb_spec b 34) as [->|N34]; [eexists; split; reflexivity|].
  destruct (N.eqb_spec b 92) as [->|N92]; [eexists; split; reflexivity|].
  cbn [orb] in H. apply N.ltb_lt in H.
  destruct (small_cases b H) as
    [->|[->|[->|[->|[->|[->|[->|[->|[->|[->|[->|[->|[->|[->|[->|[->|[->|[->|[->|[->|[->|[->|[->|[->|[->|[->|[->|[->|[->|[->|[->| ->]]]]]]]]]]]]]]]]]]]]]]]]]]]]]]];
    eexists; split; reflexivity.
Qed.

Lemma escape_byte_plain b :
  (b =? 34) || (b =? 92) || (b <? 32) = false -> escape_byte b = [b].
Proof.
  intros H. apply orb_false_iff in H as [H H3]. apply orb_false_iff in H as [H1 H2].
  apply N.eqb_neq in H1, H2. apply N.ltb_ge in H3. unfold escape_byte.
  repeat match goal with
         | |- context [?x =? ?y] => destruct (N.eqb_spec x y); [lia|]
         | |- context [?x <? ?y] => destruct (N.ltb_spec x y); [lia|]
         end.
  reflexivity.
Qed.

Lemma escape_byte_length b : (length (escape_byte b) >= 1)%nat.
Proof.
  unfold escape_byte.
  repeat match goal with |- context [if ?c then _ else _] => destruct c end; cbn; lia.
Qed.

(* the contents of a printed string are read back exactly, whatever follows the closing quote *)
Lemma parse_str_body_escape s : forall fuel rest,
  (length (escape_body s) < fuel)%nat ->
  parse_str_body fuel (escape_body s ++ 34 :: rest) = Some (s, rest).
Proof.
  induction s as [|b s IH]; intros fuel rest Hf.
  - destruct fuel; [cbn in Hf; lia|]. reflexivity.
  - cbn [escape_body] in *. rewrite app_length in Hf. rewrite <- app_assoc.
    destruct ((b =? 34) || (b =? 92) || (b <? 32)) eqn:Hb.
    + destruct (parse_escaped_byte b (escape_body s ++ 34 :: rest) Hb) as (esc & He & Hp).
      rewrite He in *. cbn [length] in Hf. destruct fuel as [|fuel]; [lia|].
      cbn [app parse_str_body]. change (92 =? 34) with false. change (92 =? 92) with true. cbv iota.
      rewrite Hp. rewrite IH by lia. reflexivity.
    + rewrite (escape_byte_plain b Hb) in *. cbn [length] in Hf. destruct fuel as [|fuel]; [lia|].
      apply orb_false_iff in Hb as [Hb Hb3]. apply orb_false_iff in Hb as [Hb1 Hb2].
      cbn [app parse_str_body]. rewrite Hb1, Hb2, Hb3. rewrite IH by lia. reflexivity.
Qed.

Lemma parse_string_print s rest :
  parse_string (escape_body s ++ 34 :: rest) = Some (s, rest).
Proof.
  unfold parse_string. apply parse_str_body_escape. rewrite app_length. cbn. lia.
Qed.
