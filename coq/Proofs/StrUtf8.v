(* C28: UTF-8 facts used by the string-function proofs: decoding inverts encoding on scalar values, encoded
   scalar values are valid UTF-8, String::from_utf8_lossy always yields valid UTF-8. *)
From Coq Require Import List NArith ZArith Bool Lia.
From VRL Require Import Base.Bytes Model.CodecUtf8.
Import ListNotations.
Local Open Scope N_scope.
Ltac Zify.zify_post_hook ::= Z.to_euclidean_division_equations.

Ltac b2p :=
  repeat match goal with
  | H : (_ <? _) = false |- _ => apply N.ltb_ge in H
  | H : (_ <? _) = true |- _ => apply N.ltb_lt in H
  | H : (_ <=? _) = false |- _ => apply N.leb_gt in H
  | H : (_ <=? _) = true |- _ => apply N.leb_le in H
  | H : (_ =? _) = true |- _ => apply N.eqb_eq in H
  | H : (_ =? _) = false |- _ => apply N.eqb_neq in H
  end.

Lemma scalar_iff c : is_scalar_cp c = true <-> (c < 55296 \/ (57344 <= c /\ c < 1114112)).
Proof.
  unfold is_scalar_cp. rewrite orb_true_iff, andb_true_iff, !N.ltb_lt, N.leb_le. tauto.
Qed.

Lemma ltb_t a b : a < b -> (a <? b) = true. Proof. apply N.ltb_lt. Qed.
Lemma ltb_f a b : b <= a -> (a <? b) = false. Proof. apply N.ltb_ge. Qed.
Lemma leb_t a b : a <= b -> (a <=? b) = true. Proof. apply N.leb_le. Qed.
Lemma leb_f a b : b < a -> (a <=? b) = false. Proof. apply N.leb_gt. Qed.
Lemma eqb_t a b : a = b -> (a =? b) = true. Proof. apply N.eqb_eq. Qed.
Lemma eqb_f a b : a <> b -> (a =? b) = false. Proof. apply N.eqb_neq. Qed.

Lemma utf8_chars_cp c r : is_scalar_cp c = true -> utf8_chars (utf8_of_cp c ++ r) = c :: utf8_chars r.
Proof.
  intros Hs. apply scalar_iff in Hs. unfold utf8_of_cp.
  destruct (c <? 128) eqn:E1.
  { cbn [app utf8_chars]. rewrite E1. reflexivity. }
  destruct (c <? 2048) eqn:E2; b2p.
  { cbn [app utf8_chars]. rewrite (ltb_f (192 + c / 64) 128) by lia. rewrite (ltb_t (192 + c / 64) 224) by lia.
    f_equal. lia. }
  destruct (c <? 65536) eqn:E3; b2p.
  { cbn [app utf8_chars]. rewrite (ltb_f (224 + c / 4096) 128) by lia. rewrite (ltb_f (224 + c / 4096) 224) by lia.
    rewrite (ltb_t (224 + c / 4096) 240) by lia. f_equal. lia. }
  cbn [app utf8_chars]. rewrite (ltb_f (240 + c / 262144) 128) by lia. rewrite (ltb_f (240 + c / 262144) 224) by lia.
  rewrite (ltb_f (240 + c / 262144) 240) by lia. f_equal. lia.
Qed.

Lemma valid_cp c r : is_scalar_cp c = true -> valid_utf8 (utf8_of_cp c ++ r) = valid_utf8 r.
Proof.
  intros Hs. apply scalar_iff in Hs. unfold utf8_of_cp.
  destruct (c <? 128) eqn:E1.
  { cbn [app valid_utf8]. rewrite E1. reflexivity. }
  destruct (c <? 2048) eqn:E2; b2p.
  { cbn [app valid_utf8]. rewrite (ltb_f (192 + c / 64) 128) by lia.
    unfold width2, is_cont, in_range.
    rewrite (leb_t 194 (192 + c / 64)), (leb_t (192 + c / 64) 223), (leb_t 128 (128 + c mod 64)),
      (leb_t (128 + c mod 64) 191) by lia. reflexivity. }
  destruct (c <? 65536) eqn:E3; b2p.
  { cbn [app valid_utf8]. rewrite (ltb_f (224 + c / 4096) 128) by lia.
    unfold width2, width3, is_cont, in_range.
    rewrite (leb_f (224 + c / 4096) 223) by lia. rewrite andb_false_r.
    rewrite (leb_t 224 (224 + c / 4096)), (leb_t (224 + c / 4096) 239) by lia. cbn [andb].
    rewrite (leb_t 128 (128 + c mod 64)), (leb_t (128 + c mod 64) 191) by lia. cbn [andb].
    assert (Hok : ok3 (224 + c / 4096) (128 + (c / 64) mod 64) = true).
    { unfold ok3, in_range.
      destruct (224 + c / 4096 =? 224) eqn:A0; b2p.
      { rewrite (leb_t 160 _), (leb_t _ 191) by lia. reflexivity. }
      destruct ((225 <=? 224 + c / 4096) && (224 + c / 4096 <=? 236)) eqn:A1.
      { rewrite (leb_t 128 _), (leb_t _ 191) by lia. reflexivity. }
      destruct (224 + c / 4096 =? 237) eqn:A2; b2p.
      { rewrite (leb_t 128 _), (leb_t _ 159) by lia. reflexivity. }
      assert (A3 : 238 <= 224 + c / 4096 <= 239) by (apply andb_false_iff in A1; destruct A1; b2p; lia).
      rewrite (leb_t 238 _), (leb_t _ 239) by lia. cbn [andb].
      rewrite (leb_t 128 _), (leb_t _ 191) by lia. reflexivity. }
    rewrite Hok. reflexivity. }
  cbn [app valid_utf8]. rewrite (ltb_f (240 + c / 262144) 128) by lia.
  unfold width2, width3, width4, is_cont, in_range.
  rewrite (leb_f (240 + c / 262144) 223) by lia. rewrite andb_false_r.
  rewrite (leb_f (240 + c / 262144) 239) by lia. rewrite andb_false_r.
  rewrite (leb_t 240 (240 + c / 262144)), (leb_t (240 + c / 262144) 244) by lia. cbn [andb].
  rewrite (leb_t 128 (128 + c mod 64)), (leb_t (128 + c mod 64) 191) by lia.
  rewrite (leb_t 128 (128 + (c / 64) mod 64)), (leb_t (128 + (c / 64) mod 64) 191) by lia. cbn [andb].
  assert (Hok : ok4 (240 + c / 262144) (128 + (c / 4096) mod 64) = true).
  { unfold ok4, in_range.
    destruct (240 + c / 262144 =? 240) eqn:A0; b2p.
    { rewrite (leb_t 144 _), (leb_t _ 191) by lia. reflexivity. }
    destruct ((241 <=? 240 + c / 262144) && (240 + c / 262144 <=? 243)) eqn:A1.
    { rewrite (leb_t 128 _), (leb_t _ 191) by lia. reflexivity. }
    assert (A2 : 240 + c / 262144 = 244) by (apply andb_false_iff in A1; destruct A1; b2p; lia).
    rewrite (eqb_t (240 + c / 262144) 244) by exact A2.
    rewrite (leb_t 128 _), (leb_t _ 143) by lia. reflexivity. }
  rewrite Hok. reflexivity.
Qed.

(* ---------- lists of code points ---------- *)
Definition all_scalar (l : list N) : Prop := Forall (fun c => is_scalar_cp c = true) l.

Lemma utf8_of_cps_cons c l : utf8_of_cps (c :: l) = utf8_of_cp c ++ utf8_of_cps l.
Proof. reflexivity. Qed.

Lemma utf8_of_cps_app a b : utf8_of_cps (a ++ b) = utf8_of_cps a ++ utf8_of_cps b.
Proof. unfold utf8_of_cps. apply flat_map_app. Qed.

Lemma utf8_chars_of_cps l : all_scalar l -> utf8_chars (utf8_of_cps l) = l.
Proof.
  induction 1 as [|c l Hc _ IH]; [reflexivity|].
  rewrite utf8_of_cps_cons, utf8_chars_cp by exact Hc. f_equal. exact IH.
Qed.

Lemma utf8_chars_of_cps_app l r : all_scalar l -> utf8_chars (utf8_of_cps l ++ r) = l ++ utf8_chars r.
Proof.
  induction 1 as [|c l Hc _ IH]; [reflexivity|].
  rewrite utf8_of_cps_cons, <- app_assoc, utf8_chars_cp by exact Hc. cbn [app]. f_equal. exact IH.
Qed.

Lemma valid_of_cps l : all_scalar l -> valid_utf8 (utf8_of_cps l) = true.
Proof.
  induction 1 as [|c l Hc _ IH]; [reflexivity|].
  rewrite utf8_of_cps_cons, valid_cp by exact Hc. exact IH.
Qed.

Lemma valid_of_cps_app l r : all_scalar l -> valid_utf8 (utf8_of_cps l ++ r) = valid_utf8 r.
Proof.
  induction 1 as [|c l Hc _ IH]; [reflexivity|].
  rewrite utf8_of_cps_cons, <- app_assoc, valid_cp by exact Hc. exact IH.
Qed.

(* ---------- from_utf8_lossy yields valid UTF-8 ---------- *)
Lemma valid_repl r : valid_utf8 (repl ++ r) = valid_utf8 r.
Proof. reflexivity. Qed.

Lemma valid_lossy_aux (n : nat) : forall s, (length s <= n)%nat -> valid_utf8 (utf8_lossy s) = true.
Proof.
  induction n as [|n IH]; intros s Hl.
  - destruct s; [reflexivity | cbn in Hl; lia].
  - destruct s as [|b0 r]; [reflexivity|].
    cbn [length] in Hl. cbn [utf8_lossy].
    assert (IHr : forall t, (length t <= length r)%nat -> valid_utf8 (utf8_lossy t) = true)
      by (intros t Ht; apply IH; lia).
    destruct (b0 <? 128) eqn:E0.
    { cbn [valid_utf8]. rewrite E0. apply IHr; lia. }
    destruct (width2 b0) eqn:W2.
    { destruct r as [|b1 r1]; [reflexivity|].
      destruct (is_cont b1) eqn:C1.
      - cbn [valid_utf8]. rewrite E0, W2, C1. apply IHr; cbn [length]; lia.
      - rewrite valid_repl. apply IHr; lia. }
    destruct (width3 b0) eqn:W3.
    { destruct r as [|b1 r1]; [reflexivity|].
      destruct (ok3 b0 b1) eqn:O3; [|rewrite valid_repl; apply IHr; lia].
      destruct r1 as [|b2 r2]; [reflexivity|].
      destruct (is_cont b2) eqn:C2.
      - cbn [valid_utf8]. rewrite E0, W2, W3, O3, C2. apply IHr; cbn [length]; lia.
      - rewrite valid_repl. apply IHr; cbn [length]; lia. }
    destruct (width4 b0) eqn:W4.
    { destruct r as [|b1 r1]; [reflexivity|].
      destruct (ok4 b0 b1) eqn:O4; [|rewrite valid_repl; apply IHr; lia].
      destruct r1 as [|b2 r2]; [reflexivity|].
      destruct (is_cont b2) eqn:C2; [|rewrite valid_repl; apply IHr; cbn [length]; lia].
      destruct r2 as [|b3 r3]; [reflexivity|].
      destruct (is_cont b3) eqn:C3.
      - cbn [valid_utf8]. rewrite E0, W2, W3, W4, O4, C2, C3. apply IHr; cbn [length]; lia.
      - rewrite valid_repl. apply IHr; cbn [length]; lia. }
    rewrite valid_repl. apply IHr; lia.
Qed.

Theorem valid_lossy s : valid_utf8 (utf8_lossy s) = true.
Proof. apply (valid_lossy_aux (length s)); lia. Qed.

(* ---------- the chars of valid UTF-8 are scalar values ---------- *)
Lemma in_range_iff' lo hi x : in_range lo hi x = true <-> lo <= x <= hi.
Proof. unfold in_range. rewrite andb_true_iff, !N.leb_le. tauto. Qed.

Lemma ok3_scalar b0 b1 b2 : width3 b0 = true -> ok3 b0 b1 = true -> is_cont b2 = true ->
  is_scalar_cp ((b0 - 224) * 4096 + (b1 - 128) * 64 + (b2 - 128)) = true.
Proof.
  unfold width3, is_cont, ok3. intros Hw Ho Hc. apply in_range_iff' in Hw, Hc. apply scalar_iff.
  destruct (b0 =? 224) eqn:A0; b2p; [apply in_range_iff' in Ho; lia|].
  destruct (in_range 225 236 b0) eqn:A1; [apply in_range_iff' in A1, Ho; lia|].
  destruct (b0 =? 237) eqn:A2; b2p; [apply in_range_iff' in Ho; lia|].
  destruct (in_range 238 239 b0) eqn:A3; [apply in_range_iff' in A3, Ho; lia|discriminate].
Qed.

Lemma ok4_scalar b0 b1 b2 b3 : width4 b0 = true -> ok4 b0 b1 = true -> is_cont b2 = true -> is_cont b3 = true ->
  is_scalar_cp ((b0 - 240) * 262144 + (b1 - 128) * 4096 + (b2 - 128) * 64 + (b3 - 128)) = true.
Proof.
  unfold width4, is_cont, ok4. intros Hw Ho Hc Hd. apply in_range_iff' in Hw, Hc, Hd. apply scalar_iff.
  destruct (b0 =? 240) eqn:A0; b2p; [apply in_range_iff' in Ho; lia|].
  destruct (in_range 241 243 b0) eqn:A1; [apply in_range_iff' in A1, Ho; lia|].
  destruct (b0 =? 244) eqn:A2; b2p; [apply in_range_iff' in Ho; lia|discriminate].
Qed.

Lemma chars_scalar_aux (n : nat) : forall s, (length s <= n)%nat -> valid_utf8 s = true ->
  all_scalar (utf8_chars s).
Proof.
  induction n as [|n IH]; intros s Hl Hv.
  - destruct s; [constructor | cbn in Hl; lia].
  - destruct s as [|b0 r]; [constructor|].
    cbn [valid_utf8 utf8_chars] in *. cbn [length] in Hl.
    destruct (b0 <? 128) eqn:E0.
    { constructor; [apply scalar_iff; b2p; lia | apply IH; [lia|exact Hv]]. }
    destruct (width2 b0) eqn:W2.
    { destruct r as [|b1 r1]; [discriminate|]. apply andb_true_iff in Hv. destruct Hv as [Hc Hv].
      unfold width2, is_cont in *. apply in_range_iff' in W2, Hc.
      rewrite (ltb_t b0 224) by lia.
      constructor; [apply scalar_iff; lia | apply IH; [cbn [length] in Hl; lia|exact Hv]]. }
    destruct (width3 b0) eqn:W3.
    { destruct r as [|b1 [|b2 r2]]; try discriminate.
      apply andb_true_iff in Hv. destruct Hv as [Hv Hr]. apply andb_true_iff in Hv. destruct Hv as [H1 H2].
      pose proof (ok3_scalar b0 b1 b2 W3 H1 H2) as Hs.
      unfold width3 in W3. apply in_range_iff' in W3.
      rewrite (ltb_f b0 224), (ltb_t b0 240) by lia.
      constructor; [exact Hs | apply IH; [cbn [length] in Hl; lia|exact Hr]]. }
    destruct (width4 b0) eqn:W4.
    { destruct r as [|b1 [|b2 [|b3 r3]]]; try discriminate.
      apply andb_true_iff in Hv. destruct Hv as [Hv Hr]. apply andb_true_iff in Hv. destruct Hv as [Hv H3].
      apply andb_true_iff in Hv. destruct Hv as [H1 H2].
      pose proof (ok4_scalar b0 b1 b2 b3 W4 H1 H2 H3) as Hs.
      unfold width4 in W4. apply in_range_iff' in W4.
      rewrite (ltb_f b0 224), (ltb_f b0 240) by lia.
      constructor; [exact Hs | apply IH; [cbn [length] in Hl; lia|exact Hr]]. }
    discriminate.
Qed.

Theorem chars_scalar s : valid_utf8 s = true -> all_scalar (utf8_chars s).
Proof. apply (chars_scalar_aux (length s)); lia. Qed.
