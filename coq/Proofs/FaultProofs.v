(* C17: rejected Target operations are contained. *)
From Coq Require Import List NArith ZArith Bool Lia.
From VRL Require Import Base.Bytes Base.Value Model.ValueCrud Model.Expr Model.Eval Proofs.EvalProofs.
Import ListNotations.

Section FaultProofs.
  Variable F : fname -> list value -> option value.
  Variable binop : opcode -> value -> value -> option value.

  Lemma rejected_read s pfx p fs :
    pop_fault s = (true, fs) ->
    eval F binop (EQExt pfx p) s = (inl VNull, mkState (vars s) (ev s) (md s) (TGet pfx p :: tlog s) fs)
    /\ eval F binop (EExistsExt pfx p) s =
       (inl (VBool false), mkState (vars s) (ev s) (md s) (TGet pfx p :: tlog s) fs).
  Proof. intros H. cbn [eval]. unfold t_get. rewrite H. split; reflexivity. Qed.

  (* an accepted read of a missing location gives exactly the same result: "behaves as missing" *)
  Lemma missing_read s pfx p fs :
    pop_fault s = (false, fs) -> get (tval s pfx) p = None ->
    eval F binop (EQExt pfx p) s = (inl VNull, mkState (vars s) (ev s) (md s) (TGet pfx p :: tlog s) fs)
    /\ eval F binop (EExistsExt pfx p) s =
       (inl (VBool false), mkState (vars s) (ev s) (md s) (TGet pfx p :: tlog s) fs).
  Proof. intros H G. cbn [eval]. unfold t_get. rewrite H, G. split; reflexivity. Qed.

  Lemma rejected_write s pfx p v fs :
    pop_fault s = (true, fs) ->
    let s' := t_insert s pfx p v in
    ev s' = ev s /\ md s' = md s /\ vars s' = vars s /\ tlog s' = TIns pfx p :: tlog s /\ faults s' = fs.
  Proof. intros H. unfold t_insert. rewrite H. destruct pfx; cbn; auto. Qed.

  Lemma rejected_assignment s e t v s1 fs pfx p :
    eval F binop e s = (inl v, s1) -> t = TExt pfx p -> pop_fault s1 = (true, fs) ->
    exists s2, eval F binop (EAssign t e) s = (inl v, s2) /\ ev s2 = ev s1 /\ md s2 = md s1 /\ vars s2 = vars s1.
  Proof.
    intros He -> Hf. cbn [eval]. rewrite He. cbn [target_insert].
    eexists; split; [reflexivity|]. pose proof (rejected_write s1 pfx p v fs Hf) as H. cbn in H. tauto.
  Qed.

  Lemma rejected_delete s pfx p c fs :
    pop_fault s = (true, fs) ->
    exists s', eval F binop (EDelExt pfx p c) s = (inl VNull, s') /\
               ev s' = ev s /\ md s' = md s /\ vars s' = vars s.
  Proof.
    intros H. cbn [eval]. unfold t_remove. rewrite H. eexists; split; [reflexivity|].
    destruct pfx; cbn; auto.
  Qed.

  Lemma unreadable_root es s fs :
    pop_fault s = (true, fs) ->
    run F binop es s = (Failed, mkState (vars s) (ev s) (md s) (tlog s) fs).
  Proof. intros H. unfold run. rewrite H. reflexivity. Qed.
End FaultProofs.
