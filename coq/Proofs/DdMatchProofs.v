(* Proofs about Model/DdMatch.v (C31). *)
From Coq Require Import List NArith ZArith Bool Lia.
From Coq Require Import Floats.SpecFloat.
From VRL Require Import Base.Bytes Base.Value Base.Lit Model.ValueCrud Model.DdNode Model.DdMatch.
Import ListNotations.

(* ---------- generic ---------- *)

Lemma existsb_ext_in {A} (f g : A -> bool) l :
  (forall x, In x l -> f x = g x) -> existsb f l = existsb g l.
Proof.
  induction l as [|x l IH]; intros H; cbn; auto.
  rewrite (H x (or_introl eq_refl)), IH; auto. intros y Hy; apply H; right; exact Hy.
Qed.

Lemma existsb_false_in {A} (f : A -> bool) l :
  existsb f l = false -> forall x, In x l -> f x = false.
Proof.
  induction l as [|y l IH]; cbn; intros H x Hx; [contradiction|].
  apply orb_false_iff in H as [H1 H2]. destruct Hx as [->|Hx]; auto.
Qed.

Lemma collect_Forall2 {A B} (f : A -> bres B) l ms :
  collect f l = BOk ms -> Forall2 (fun x m => f x = BOk m) l ms.
Proof.
  revert ms; induction l as [|x l IH]; cbn; intros ms H.
  - inversion H; constructor.
  - destruct (f x) eqn:E; try discriminate. destruct (collect f l) eqn:E2; try discriminate.
    inversion H; subst. constructor; auto.
Qed.

Lemma collect_ok_iff {A B} (f : A -> bres B) l :
  (exists ms, collect f l = BOk ms) <-> Forall (fun x => exists m, f x = BOk m) l.
Proof.
  induction l as [|x l IH]; cbn.
  - split; [constructor | eexists; reflexivity].
  - split.
    + intros [ms H]. destruct (f x) eqn:E; try discriminate. destruct (collect f l) eqn:E2; try discriminate.
      constructor; [eexists; exact E | apply IH; eexists; reflexivity].
    + intros H. inversion H as [|? ? [m Hm] Hl]; subst. apply IH in Hl as [ms Hms].
      rewrite Hm, Hms. eexists; reflexivity.
Qed.

Lemma starts_with_iff s p : starts_with s p = true <-> exists r, s = p ++ r.
Proof.
  revert s; induction p as [|c p IH]; intros s; cbn.
  - split; [intros _; exists s; reflexivity | reflexivity].
  - destruct s as [|x s].
    + split; [discriminate | intros [r H]; discriminate].
    + rewrite andb_true_iff, N.eqb_eq, IH. split.
      * intros [-> [r ->]]. exists r; reflexivity.
      * intros [r H]. inversion H; subst. split; auto. exists r; reflexivity.
Qed.

Lemma split_once_colon_spec s k v :
  split_once_colon s = Some (k, v) <-> s = k ++ 58%N :: v /\ ~ In 58%N k.
Proof.
  revert k v; induction s as [|c s IH]; intros k v; cbn.
  - split; [discriminate | intros [H _]; destruct k; discriminate].
  - destruct (N.eqb_spec c 58) as [->|Hc].
    + split.
      * intros H; inversion H; subst. split; auto.
      * intros [H Hn]. destruct k as [|x k]; [inversion H; reflexivity|].
        inversion H; subst. exfalso; apply Hn; left; reflexivity.
    + destruct (split_once_colon s) as [[a b]|] eqn:E.
      * split.
        -- intros H; inversion H; subst. destruct (proj1 (IH a v) eq_refl) as [-> Hn].
           split; auto. intros [H1|H1]; [congruence | contradiction].
        -- intros [H Hn]. destruct k as [|x k]; [inversion H; congruence|].
           inversion H; subst. assert (Some (a, b) = Some (k, v)) as H2.
           { apply IH. split; auto. intros Hi; apply Hn; right; exact Hi. }
           inversion H2; reflexivity.
      * split; [discriminate|]. intros [H Hn]. destruct k as [|x k]; [inversion H; congruence|].
        inversion H; subst. assert (None = Some (k, v)) as H2.
        { apply IH. split; auto. intros Hi; apply Hn; right; exact Hi. }
        discriminate.
Qed.

(* ---------- glob = the declarative wildcard relation ---------- *)

(* `w` matches `s` when every `*` of w stands for a run of bytes without newline and every other byte
   for itself *)
Inductive gmatch : bytes -> bytes -> Prop :=
| gm_nil : gmatch [] []
| gm_lit c w s : c <> 42%N -> gmatch w s -> gmatch (c :: w) (c :: s)
| gm_star w s1 s2 : ~ In 10%N s1 -> gmatch w s2 -> gmatch (42%N :: w) (s1 ++ s2).

Lemma glob_star_unfold p s :
  glob (PStar :: p) s = glob p s || match s with x :: s' => negb (x =? 10)%N && glob (PStar :: p) s' | [] => false end.
Proof. destruct s; reflexivity. Qed.

Lemma glob_star_iff p s :
  glob (PStar :: p) s = true <-> exists s1 s2, s = s1 ++ s2 /\ ~ In 10%N s1 /\ glob p s2 = true.
Proof.
  induction s as [|x s IH]; rewrite glob_star_unfold.
  - rewrite orb_false_r. split.
    + intros H. exists [], []. repeat split; auto.
    + intros (s1 & s2 & H & _ & G). destruct s1; [|discriminate]. destruct s2; [|discriminate]. exact G.
  - rewrite orb_true_iff, andb_true_iff, negb_true_iff, N.eqb_neq, IH. split.
    + intros [G | [Hx (s1 & s2 & -> & Hn & G)]].
      * exists [], (x :: s). repeat split; auto.
      * exists (x :: s1), s2. repeat split; auto. intros [H|H]; [congruence | contradiction].
    + intros (s1 & s2 & H & Hn & G). destruct s1 as [|y s1].
      * left. cbn in H. subst. exact G.
      * right. inversion H; subst. split.
        -- intros ->. apply Hn; left; reflexivity.
        -- exists s1, s2. repeat split; auto. intros Hi; apply Hn; right; exact Hi.
Qed.

Lemma glob_correct w : forall s, glob (pat_of w) s = true <-> gmatch w s.
Proof.
  induction w as [|c w IH]; intros s.
  - cbn. destruct s; split; intros H; try discriminate; try constructor. inversion H.
  - change (pat_of (c :: w)) with ((if (c =? 42)%N then PStar else PLit c) :: pat_of w).
    destruct (N.eqb_spec c 42) as [->|Hc].
    + rewrite glob_star_iff. split.
      * intros (s1 & s2 & -> & Hn & G). constructor; auto. apply IH; exact G.
      * intros H. inversion H; subst; [congruence|]. eexists _, _. repeat split; eauto. apply IH; assumption.
    + cbn [glob]. destruct s as [|x s].
      * split; [discriminate | intros H; inversion H; subst; congruence].
      * rewrite andb_true_iff, N.eqb_eq, IH. split.
        -- intros [-> G]. constructor; auto.
        -- intros H. inversion H; subst; [auto | congruence].
Qed.

Section P.
  Variable fdisp : spec_float -> bytes.
  Variable tsdisp : Z -> bytes.

  Notation run := (run fdisp tsdisp).
  Notation run_vm := (run_vm fdisp tsdisp).
  Notation sem := (sem fdisp tsdisp).
  Notation known := (known fdisp tsdisp).
  Notation string_value := (string_value fdisp tsdisp).
  Notation build_matcher := (build_matcher fdisp).
  Notation s_exists := (s_exists fdisp tsdisp).
  Notation s_equals := (s_equals fdisp tsdisp).
  Notation s_prefix := (s_prefix fdisp tsdisp).
  Notation s_wildcard := (s_wildcard fdisp tsdisp).
  Notation s_compare := (s_compare fdisp tsdisp).
  Notation s_range := (s_range fdisp tsdisp).
  Notation f_compare := (f_compare fdisp).
  Notation f_range := (f_range fdisp).
  Notation has_foreign_tag := (has_foreign_tag fdisp tsdisp).
  Notation cval_display := (cval_display fdisp).

  (* ---------- the combinators ---------- *)

  Lemma run_any ms e : run (MAny ms) e = existsb (fun m => run m e) ms.
  Proof. cbn [DdMatch.run]. induction ms as [|m ms IH]; cbn; [reflexivity | rewrite IH; reflexivity]. Qed.

  Lemma run_all ms e : run (MAll ms) e = forallb (fun m => run m e) ms.
  Proof. cbn [DdMatch.run]. induction ms as [|m ms IH]; cbn; [reflexivity | rewrite IH; reflexivity]. Qed.

  Lemma run_not m e : run (MNot m) e = negb (run m e).
  Proof. reflexivity. Qed.

  Lemma run_both a b e : run (MBoth a b) e = run a e && run b e.
  Proof. reflexivity. Qed.

  Lemma sem_and ns e : sem (NBool BAnd ns) e = forallb (fun n => sem n e) ns.
  Proof. cbn [DdMatch.sem]. induction ns as [|n ns IH]; cbn; [reflexivity | rewrite IH; reflexivity]. Qed.

  Lemma sem_or ns e : sem (NBool BOr ns) e = existsb (fun n => sem n e) ns.
  Proof. cbn [DdMatch.sem]. induction ns as [|n ns IH]; cbn; [reflexivity | rewrite IH; reflexivity]. Qed.

  Lemma known_bool op ns e : known e (NBool op ns) = existsb (known e) ns.
  Proof. cbn [DdMatch.known]. induction ns as [|n ns IH]; cbn; [reflexivity | rewrite IH; reflexivity]. Qed.

  Lemma wf_bool op ns : wf_node (NBool op ns) = forallb wf_node ns.
  Proof. cbn [wf_node]. induction ns as [|n ns IH]; cbn; [reflexivity | rewrite IH; reflexivity]. Qed.

  Lemma build_bool op ns :
    build_matcher (NBool op ns) =
    bmap (match op with BAnd => MAll | BOr => MAny end) (collect build_matcher ns).
  Proof.
    cbn [DdMatch.build_matcher]. f_equal.
    induction ns as [|n ns IH]; cbn; [reflexivity|]. rewrite IH. reflexivity.
  Qed.

  (* ---------- the leaves: closure built then run = the direct evaluator ---------- *)

  Lemma with_path_ok f k m :
    with_path f k = BOk m -> exists p, lookup_field f = PPOk p /\ m = MResolve p (k p).
  Proof.
    unfold with_path. destruct (lookup_field f) eqn:E; intros H; inversion H. eauto.
  Qed.

  Lemma with_path_ok_iff f k : (exists m, with_path f k = BOk m) <-> field_ok f = true.
  Proof.
    unfold with_path, field_ok. destruct (lookup_field f); split; intros H; try discriminate; eauto;
      destruct H; discriminate.
  Qed.

  Ltac leaf_start H e :=
    apply with_path_ok in H as (p & Hp & ->); cbn [DdMatch.run];
    unfold on_addr, addressed; try rewrite Hp.

  Lemma f_equals_sem f v m e : f_equals f v = BOk m -> run m e = s_equals v e f.
  Proof.
    intros H. unfold f_equals in H. leaf_start H e.
    unfold DdMatch.s_equals, on_addr, addressed. rewrite Hp.
    destruct f as [s|s|s|s]; [| destruct (bytes_eqb s TAGS) |..]; destruct (get e p) as [x|]; reflexivity.
  Qed.

  Lemma f_prefix_sem f v m e : f_prefix f v = BOk m -> run m e = s_prefix v e f.
  Proof.
    intros H. unfold f_prefix in H. leaf_start H e.
    unfold DdMatch.s_prefix, on_addr, addressed. rewrite Hp.
    destruct f; destruct (get e p) as [x|]; reflexivity.
  Qed.

  Lemma f_wildcard_sem f v m e : f_wildcard f v = BOk m -> run m e = s_wildcard v e f.
  Proof.
    intros H. unfold f_wildcard in H. leaf_start H e.
    unfold DdMatch.s_wildcard, on_addr, addressed. rewrite Hp.
    destruct f; destruct (get e p) as [x|]; reflexivity.
  Qed.

  Lemma f_exists_sem f m e :
    f_exists f = BOk m -> is_tags_field f && s_exists e f = false -> run m e = s_exists e f.
  Proof.
    intros H K. unfold f_exists in H. leaf_start H e.
    unfold DdMatch.s_exists, on_addr, addressed in *. rewrite Hp in *.
    destruct f as [s|s|s|s]; cbn [is_tags_field] in K.
    - destruct (get e p); reflexivity.
    - destruct (bytes_eqb s TAGS); cbn in K.
      + destruct (get e p); [discriminate | reflexivity].
      + destruct (get e p); reflexivity.
    - destruct (get e p); reflexivity.
    - destruct (get e p) as [x|]; [|reflexivity]. destruct x; reflexivity.
  Qed.

  Lemma num_or_str_cmp_eq op cv x :
    run_vm (VmCmpAttr op cv) x = num_or_str_cmp fdisp tsdisp op cv x.
  Proof. destruct x, cv; reflexivity. Qed.

  Lemma f_compare_sem f op cv m e :
    f_compare f op cv = BOk m -> has_foreign_tag e f = false -> run m e = s_compare op cv e f.
  Proof.
    intros H K. unfold DdMatch.f_compare in H. leaf_start H e.
    unfold DdMatch.s_compare, DdMatch.has_foreign_tag, on_addr, addressed in *. rewrite Hp in *.
    destruct f as [s|s|s|s]; cbn [is_tag_field tag_of andb] in K.
    - destruct (get e p); reflexivity.
    - destruct (get e p); reflexivity.
    - destruct (get e p) as [x|]; [|reflexivity]. apply num_or_str_cmp_eq.
    - destruct (get e p) as [x|]; [|reflexivity]. destruct x; try reflexivity.
      cbn [DdMatch.run_vm arr_any] in *. apply existsb_ext_in. intros y Hy.
      pose proof (existsb_false_in _ _ K y Hy) as Hf. unfold foreign_tag in Hf. unfold tag_value_cmp.
      destruct (split_once_colon (string_value y)) as [[k lhs]|]; [|reflexivity].
      apply negb_false_iff in Hf. rewrite Hf. reflexivity.
  Qed.

  Lemma f_compare_ok_iff f op cv : (exists m, f_compare f op cv = BOk m) <-> field_ok f = true.
  Proof. apply with_path_ok_iff. Qed.

  Lemma f_range_sem f lo li hi ui m e :
    f_range f lo li hi ui = BOk m ->
    (match lo, hi with
     | CUnb, CUnb => is_tags_field f && s_exists e f
     | _, _ => has_foreign_tag e f
     end) = false ->
    run m e = s_range lo li hi ui e f.
  Proof.
    intros H K. unfold DdMatch.f_range in H. unfold DdMatch.s_range.
    destruct lo, hi;
      try (apply f_exists_sem; assumption);
      try (apply f_compare_sem; assumption);
      (destruct (f_compare f (lower_op li) _) eqn:E1; try discriminate;
       destruct (f_compare f (upper_op ui) _) eqn:E2; try discriminate;
       inversion H; subst; rewrite run_both;
       rewrite (f_compare_sem _ _ _ _ e E1 K), (f_compare_sem _ _ _ _ e E2 K); reflexivity).
  Qed.

  (* `any` over the fields of an attribute *)
  Lemma any_fields_sem (fb : field -> bres matcher) (sp : field -> bool) fs ms e :
    collect fb fs = BOk ms ->
    (forall f m, In f fs -> fb f = BOk m -> run m e = sp f) ->
    run (MAny ms) e = existsb sp fs.
  Proof.
    intros H Hs. rewrite run_any. apply collect_Forall2 in H.
    induction H as [|f m fs ms Hf _ IH]; cbn; [reflexivity|].
    rewrite (Hs f m (or_introl eq_refl) Hf), IH; auto. intros; apply Hs; auto. right; assumption.
  Qed.

  Lemma bmap_ok {A B} (g : A -> B) r y : bmap g r = BOk y -> exists x, r = BOk x /\ y = g x.
  Proof. destruct r; cbn; intros H; inversion H. eauto. Qed.

  Lemma orb_false_l' a b : a || b = false -> a = false.
  Proof. destruct a; auto. Qed.
  Lemma orb_false_r' a b : a || b = false -> b = false.
  Proof. destruct a, b; auto. Qed.

  (* ---------- the refinement theorem ---------- *)

  Theorem refines n : forall m e,
    build_matcher n = BOk m -> known e n = false -> run m e = sem n e.
  Proof.
    induction n using node_ind'; intros m e B K;
      [cbn [DdMatch.build_matcher] in B .. | rewrite build_bool in B].
    - inversion B; reflexivity.
    - inversion B; reflexivity.
    - (* exists *)
      apply bmap_ok in B as (ms & B & ->). cbn [DdMatch.sem].
      apply any_fields_sem with (fb := f_exists); auto. intros f m Hf Hm.
      apply f_exists_sem; auto.
      cbn [DdMatch.known known_tags_exists_leaf] in K. apply orb_false_l' in K.
      exact (existsb_false_in _ _ K f Hf).
    - (* missing *)
      apply bmap_ok in B as (ms & B & ->). cbn [DdMatch.sem]. rewrite run_all.
      cbn [DdMatch.known known_tags_exists_leaf] in K. apply orb_false_l' in K.
      apply collect_Forall2 in B. pose proof (existsb_false_in _ _ K) as K'. clear K.
      induction B as [|f m fs ms Hf _ IH]; cbn; [reflexivity|].
      apply bmap_ok in Hf as (m0 & Hf & ->). rewrite run_not.
      rewrite (f_exists_sem f m0 e Hf (K' f (or_introl eq_refl))), IH; auto.
      intros x Hx; apply K'; right; exact Hx.
    - (* range *)
      apply bmap_ok in B as (ms & B & ->). cbn [DdMatch.sem].
      apply any_fields_sem with (fb := fun f => f_range f lo li hi ui); auto. intros f m Hf Hm.
      apply f_range_sem; auto.
      cbn [DdMatch.known] in K.
      destruct lo, hi; cbn [known_tags_exists_leaf known_tagcmp_leaf] in K;
        try (apply orb_false_r' in K; exact (existsb_false_in _ _ K f Hf)).
      apply orb_false_l' in K. exact (existsb_false_in _ _ K f Hf).
    - (* comparison *)
      apply bmap_ok in B as (ms & B & ->). cbn [DdMatch.sem].
      apply any_fields_sem with (fb := fun f => f_compare f op v); auto. intros f m Hf Hm.
      apply f_compare_sem; auto.
      cbn [DdMatch.known known_tags_exists_leaf known_tagcmp_leaf orb] in K.
      exact (existsb_false_in _ _ K f Hf).
    - apply bmap_ok in B as (ms & B & ->). cbn [DdMatch.sem].
      apply any_fields_sem with (fb := fun f => f_equals f v); auto. intros; apply f_equals_sem; auto.
    - apply bmap_ok in B as (ms & B & ->). cbn [DdMatch.sem].
      apply any_fields_sem with (fb := fun f => f_equals f v); auto. intros; apply f_equals_sem; auto.
    - apply bmap_ok in B as (ms & B & ->). cbn [DdMatch.sem].
      apply any_fields_sem with (fb := fun f => f_prefix f v); auto. intros; apply f_prefix_sem; auto.
    - apply bmap_ok in B as (ms & B & ->). cbn [DdMatch.sem].
      apply any_fields_sem with (fb := fun f => f_wildcard f v); auto. intros; apply f_wildcard_sem; auto.
    - (* not *)
      apply bmap_ok in B as (m0 & B & ->). cbn [DdMatch.sem DdMatch.known] in *. rewrite run_not.
      f_equal. apply IHn; auto.
    - (* and / or *)
      apply bmap_ok in B as (ms & B & ->). rewrite known_bool in K.
      apply collect_Forall2 in B. pose proof (existsb_false_in _ _ K) as K'. clear K.
      destruct op.
      + rewrite run_all, sem_and. revert H K'.
        induction B as [|n m ns ms Hn _ IH]; intros HF K'; cbn; [reflexivity|].
        inversion HF; subst. rewrite (H1 m e Hn (K' n (or_introl eq_refl))), IH; auto.
        intros x Hx; apply K'; right; exact Hx.
      + rewrite run_any, sem_or. revert H K'.
        induction B as [|n m ns ms Hn _ IH]; intros HF K'; cbn; [reflexivity|].
        inversion HF; subst. rewrite (H1 m e Hn (K' n (or_introl eq_refl))), IH; auto.
        intros x Hx; apply K'; right; exact Hx.
  Qed.

  (* ---------- the build succeeds exactly on well-formed queries ---------- *)

  Lemma collect_fields_ok (fb : field -> bres matcher) fs :
    (forall f, (exists m, fb f = BOk m) <-> field_ok f = true) ->
    (exists ms, collect fb fs = BOk ms) <-> forallb field_ok fs = true.
  Proof.
    intros Hf. rewrite collect_ok_iff, forallb_forall, Forall_forall.
    split; intros H x Hx; apply Hf; apply H; exact Hx.
  Qed.

  Lemma bmap_ok_iff {A B} (g : A -> B) r : (exists y, bmap g r = BOk y) <-> (exists x, r = BOk x).
  Proof.
    destruct r; cbn; split; intros [y H]; try discriminate; eauto.
  Qed.

  Lemma f_exists_ok_iff f : (exists m, f_exists f = BOk m) <-> field_ok f = true.
  Proof. apply with_path_ok_iff. Qed.

  Lemma f_range_ok_iff f lo li hi ui : (exists m, f_range f lo li hi ui = BOk m) <-> field_ok f = true.
  Proof.
    unfold DdMatch.f_range.
    destruct lo, hi; try apply f_exists_ok_iff; try apply f_compare_ok_iff;
      (split;
       [ intros [m H]; destruct (f_compare f (lower_op li) _) eqn:E1; try discriminate;
         eapply f_compare_ok_iff; eexists; exact E1
       | intros H;
         repeat match goal with
                | |- context [f_compare f ?o ?c] =>
                    let a := fresh "a" in destruct (proj2 (f_compare_ok_iff f o c) H) as [a ->]
                end; eauto ]).
  Qed.

  Theorem build_ok_iff n : (exists m, build_matcher n = BOk m) <-> wf_node n = true.
  Proof.
    induction n using node_ind'; [cbn [DdMatch.build_matcher wf_node] .. | rewrite build_bool, wf_bool].
    - split; eauto.
    - split; eauto.
    - rewrite bmap_ok_iff. apply collect_fields_ok. apply f_exists_ok_iff.
    - rewrite bmap_ok_iff. apply collect_fields_ok. intros f. rewrite bmap_ok_iff. apply f_exists_ok_iff.
    - rewrite bmap_ok_iff. apply collect_fields_ok. intros f. apply f_range_ok_iff.
    - rewrite bmap_ok_iff. apply collect_fields_ok. intros f. apply f_compare_ok_iff.
    - rewrite bmap_ok_iff. apply collect_fields_ok. intros f. apply with_path_ok_iff.
    - rewrite bmap_ok_iff. apply collect_fields_ok. intros f. apply with_path_ok_iff.
    - rewrite bmap_ok_iff. apply collect_fields_ok. intros f. apply with_path_ok_iff.
    - rewrite bmap_ok_iff. apply collect_fields_ok. intros f. apply with_path_ok_iff.
    - rewrite bmap_ok_iff. exact IHn.
    - rewrite bmap_ok_iff, collect_ok_iff, forallb_forall. rewrite Forall_forall in *.
      split; intros G x Hx; apply H; auto.
  Qed.

  (* a build never ends in the compile error on a well-formed query, and vice versa *)
  Corollary build_err_not_wf n : build_matcher n = BErr -> wf_node n = false.
  Proof.
    intros H. destruct (wf_node n) eqn:W; [|reflexivity].
    apply build_ok_iff in W as [m Hm]. congruence.
  Qed.

  (* ---------- the function as a whole ---------- *)

  Theorem match_refines n e :
    wf_node n = true -> known e n = false ->
    match_datadog_query fdisp tsdisp n e = MRBool (sem n e).
  Proof.
    intros W K. apply build_ok_iff in W as [m Hm]. unfold match_datadog_query. rewrite Hm.
    f_equal. apply refines; assumption.
  Qed.

  (* ---------- compositional laws of the implementation itself (no exclusions) ---------- *)

  Theorem impl_not n m' e :
    build_matcher (NNot n) = BOk m' ->
    exists m, build_matcher n = BOk m /\ run m' e = negb (run m e).
  Proof.
    cbn [DdMatch.build_matcher]. intros H. apply bmap_ok in H as (m & H & ->). eauto.
  Qed.

  Theorem impl_and ns m' e :
    build_matcher (NBool BAnd ns) = BOk m' ->
    exists ms, Forall2 (fun n m => build_matcher n = BOk m) ns ms /\
               run m' e = forallb (fun m => run m e) ms.
  Proof.
    rewrite build_bool. intros H. apply bmap_ok in H as (ms & H & ->).
    exists ms. split; [apply collect_Forall2; exact H | apply run_all].
  Qed.

  Theorem impl_or ns m' e :
    build_matcher (NBool BOr ns) = BOk m' ->
    exists ms, Forall2 (fun n m => build_matcher n = BOk m) ns ms /\
               run m' e = existsb (fun m => run m e) ms.
  Proof.
    rewrite build_bool. intros H. apply bmap_ok in H as (ms & H & ->).
    exists ms. split; [apply collect_Forall2; exact H | apply run_any].
  Qed.

  Lemma single_field a :
    bytes_eqb a DEFAULT_FIELD = false -> exists f, normalize_fields a = [f].
  Proof. unfold normalize_fields. intros ->. eauto. Qed.

  Definition bounded (c : cval) : bool := match c with CUnb => false | _ => true end.

  (* a range over one field holds exactly when both of its comparisons hold *)
  Theorem impl_range a lo li hi ui m e :
    bytes_eqb a DEFAULT_FIELD = false -> bounded lo = true -> bounded hi = true ->
    build_matcher (NRange a lo li hi ui) = BOk m ->
    exists m1 m2,
      build_matcher (NCmp a (lower_op li) lo) = BOk m1 /\
      build_matcher (NCmp a (upper_op ui) hi) = BOk m2 /\
      run m e = run m1 e && run m2 e.
  Proof.
    intros Ha Hlo Hhi. cbn [DdMatch.build_matcher]. destruct (single_field a Ha) as [f ->].
    cbn [collect]. intros H.
    destruct (f_range f lo li hi ui) as [r| |] eqn:E; try discriminate. cbn in H. inversion H; subst m. clear H.
    unfold DdMatch.f_range in E.
    destruct lo; try discriminate; destruct hi; try discriminate;
      (destruct (f_compare f (lower_op li) _) as [x| |] eqn:E1; try discriminate;
       destruct (f_compare f (upper_op ui) _) as [y| |] eqn:E2; try discriminate;
       inversion E; subst r; exists (MAny [x]), (MAny [y]); cbn [bmap];
       repeat split; cbn; rewrite !orb_false_r; reflexivity).
  Qed.

  (* half-open and open ranges *)
  Theorem impl_range_upper a li hi ui :
    bounded hi = true ->
    build_matcher (NRange a CUnb li hi ui) = build_matcher (NCmp a (upper_op ui) hi).
  Proof. destruct hi; try discriminate; reflexivity. Qed.

  Theorem impl_range_lower a lo li ui :
    bounded lo = true ->
    build_matcher (NRange a lo li CUnb ui) = build_matcher (NCmp a (lower_op li) lo).
  Proof. destruct lo; try discriminate; reflexivity. Qed.

  Theorem impl_range_open a li ui :
    build_matcher (NRange a CUnb li CUnb ui) = build_matcher (NExists a).
  Proof. reflexivity. Qed.

  (* ---------- the sentences of the property, on the specification ---------- *)

  Theorem sem_not n e : sem (NNot n) e = negb (sem n e).
  Proof. reflexivity. Qed.

  Theorem sem_missing a e : sem (NMissing a) e = negb (sem (NExists a) e).
  Proof.
    cbn [DdMatch.sem]. induction (normalize_fields a) as [|f l IH]; cbn; [reflexivity|].
    rewrite IH, negb_orb. reflexivity.
  Qed.

  Theorem sem_range_single a lo li hi ui e :
    bytes_eqb a DEFAULT_FIELD = false -> bounded lo = true -> bounded hi = true ->
    sem (NRange a lo li hi ui) e = sem (NCmp a (lower_op li) lo) e && sem (NCmp a (upper_op ui) hi) e.
  Proof.
    intros Ha Hlo Hhi. cbn [DdMatch.sem]. destruct (single_field a Ha) as [f ->]. cbn [existsb].
    rewrite !orb_false_r. unfold DdMatch.s_range. destruct lo; try discriminate; destruct hi; try discriminate; reflexivity.
  Qed.

  (* over the default fields: some field satisfies both bounds *)
  Theorem sem_range_fields a lo li hi ui e :
    bounded lo = true -> bounded hi = true ->
    sem (NRange a lo li hi ui) e =
    existsb (fun f => s_compare (lower_op li) lo e f && s_compare (upper_op ui) hi e f) (normalize_fields a).
  Proof.
    intros Hlo Hhi. cbn [DdMatch.sem]. apply existsb_ext_in. intros f _. unfold DdMatch.s_range.
    destruct lo; try discriminate; destruct hi; try discriminate; reflexivity.
  Qed.

  Theorem sem_range_upper a li hi ui e :
    bounded hi = true -> sem (NRange a CUnb li hi ui) e = sem (NCmp a (upper_op ui) hi) e.
  Proof. intros H. cbn [DdMatch.sem]. destruct hi; try discriminate; reflexivity. Qed.

  Theorem sem_range_lower a lo li ui e :
    bounded lo = true -> sem (NRange a lo li CUnb ui) e = sem (NCmp a (lower_op li) lo) e.
  Proof. intros H. cbn [DdMatch.sem]. destruct lo; try discriminate; reflexivity. Qed.

  Theorem sem_range_open a li ui e : sem (NRange a CUnb li CUnb ui) e = sem (NExists a) e.
  Proof. reflexivity. Qed.

  Theorem sem_de_morgan_and ns e :
    sem (NNot (NBool BAnd ns)) e = sem (NBool BOr (map NNot ns)) e.
  Proof.
    rewrite sem_not, sem_and, sem_or. induction ns as [|n ns IH]; cbn; [reflexivity|].
    rewrite negb_andb, IH. reflexivity.
  Qed.

  Theorem sem_de_morgan_or ns e :
    sem (NNot (NBool BOr ns)) e = sem (NBool BAnd (map NNot ns)) e.
  Proof.
    rewrite sem_not, sem_and, sem_or. induction ns as [|n ns IH]; cbn; [reflexivity|].
    rewrite negb_orb, IH. reflexivity.
  Qed.

  Theorem sem_double_neg n e : sem (NNot (NNot n)) e = sem n e.
  Proof. cbn [DdMatch.sem]. apply negb_involutive. Qed.

  (* a quoted phrase is judged like a term *)
  Theorem sem_quoted a v e : sem (NQuoted a v) e = sem (NTerm a v) e.
  Proof. reflexivity. Qed.

  (* ---------- the leaves, on the addressed values ---------- *)

  Lemma arr_any_iff k v : arr_any k v = true <-> exists vs x, v = VArr vs /\ In x vs /\ k x = true.
  Proof.
    destruct v; cbn; try (split; [discriminate | intros (vs0 & x & H & _); discriminate]).
    rewrite existsb_exists. split.
    - intros (x & Hi & Hk). eauto.
    - intros (vs0 & x & H & Hi & Hk). inversion H; subst. eauto.
  Qed.

  Lemma on_addr_iff e f k :
    on_addr e f k = true <->
    exists p x, lookup_field f = PPOk p /\ get e p = Some x /\ k x = true.
  Proof.
    unfold on_addr, addressed. destruct (lookup_field f) as [p| |].
    - destruct (get e p) as [x|] eqn:G; split; try discriminate.
      + intros H. exists p, x. auto.
      + intros (p' & x' & H1 & H2 & H3). inversion H1; subst. rewrite G in H2. inversion H2; subst. assumption.
      + intros (p' & x' & H1 & H2 & _). inversion H1; subst. rewrite G in H2. discriminate.
    - split; [discriminate | intros (p' & x' & H1 & _); discriminate].
    - split; [discriminate | intros (p' & x' & H1 & _); discriminate].
  Qed.

  (* an attribute (`@path`) term: the value at the path, as a string, is the term *)
  Theorem leaf_attr_equals s v e :
    s_equals v e (FAttribute s) = true <->
    exists p x, parse_value_path s = PPOk p /\ get e p = Some x /\ string_value x = v.
  Proof.
    unfold DdMatch.s_equals. rewrite on_addr_iff. cbn [lookup_field].
    split; intros (p & x & H1 & H2 & H3); exists p, x; repeat split; auto; apply bytes_eqb_eq; auto.
  Qed.

  Theorem leaf_attr_exists s e :
    s_exists e (FAttribute s) = true <-> exists p x, parse_value_path s = PPOk p /\ get e p = Some x.
  Proof.
    unfold DdMatch.s_exists, addressed. cbn [lookup_field]. destruct (parse_value_path s) as [p| |].
    - destruct (get e p) as [x|] eqn:G; split; try discriminate.
      + intros _. exists p, x. auto.
      + reflexivity.
      + intros (p' & x' & H1 & H2). inversion H1; subst. congruence.
    - split; [discriminate | intros (p' & x' & H1 & _); discriminate].
    - split; [discriminate | intros (p' & x' & H1 & _); discriminate].
  Qed.

  (* a term on a default field: the field holds a string and the word regex matches it *)
  Theorem leaf_default_term s v e :
    s_equals v e (FDefault s) = true <->
    exists p b, parse_value_path s = PPOk p /\ get e p = Some (VBytes b) /\ word_match (pat_of v) b = true.
  Proof.
    unfold DdMatch.s_equals. rewrite on_addr_iff. cbn [lookup_field]. split.
    - intros (p & x & H1 & H2 & H3). destruct x; try discriminate. exists p, b. auto.
    - intros (p & b & H1 & H2 & H3). exists p, (VBytes b). auto.
  Qed.

  (* a tag term `tag:v`: the element "tag:v" is in the `tags` array *)
  Theorem leaf_tag_equals tag v e :
    s_equals v e (FTag tag) = true <->
    exists vs, get e [SField TAGS] = Some (VArr vs) /\ In (VBytes (tag ++ 58%N :: v)) vs.
  Proof.
    unfold DdMatch.s_equals. rewrite on_addr_iff. cbn [lookup_field]. split.
    - intros (p & x & H1 & H2 & H3). inversion H1; subst p. apply arr_any_iff in H3 as (vs & y & -> & Hi & Hk).
      apply value_eqb_eq in Hk. subst y. eauto.
    - intros (vs & H & Hi). exists [SField TAGS], (VArr vs). repeat split; auto.
      apply arr_any_iff. exists vs, (VBytes (tag ++ 58%N :: v)). repeat split; auto. apply value_eqb_refl.
  Qed.

  (* a tag exists: some element of `tags` is "tag" or starts with "tag:" *)
  Theorem leaf_tag_exists tag e :
    s_exists e (FTag tag) = true <->
    exists vs x, get e [SField TAGS] = Some (VArr vs) /\ In x vs /\
                 (string_value x = tag \/ exists r, string_value x = tag ++ 58%N :: r).
  Proof.
    unfold DdMatch.s_exists. rewrite on_addr_iff. cbn [lookup_field]. split.
    - intros (p & x & H1 & H2 & H3). inversion H1; subst p. apply arr_any_iff in H3 as (vs & y & -> & Hi & Hk).
      exists vs, y. repeat split; auto. unfold tag_has_key in Hk. apply orb_true_iff in Hk as [Hk|Hk].
      + left. apply bytes_eqb_eq; exact Hk.
      + right. apply starts_with_iff in Hk as [r Hr]. exists r. rewrite Hr, <- app_assoc. reflexivity.
    - intros (vs & x & H & Hi & Hk). exists [SField TAGS], (VArr vs). repeat split; auto.
      apply arr_any_iff. exists vs, x. repeat split; auto. unfold tag_has_key. apply orb_true_iff.
      destruct Hk as [Hk|[r Hr]].
      + left. apply bytes_eqb_eq; exact Hk.
      + right. apply starts_with_iff. exists r. rewrite Hr, <- app_assoc. reflexivity.
  Qed.

  (* a tag comparison: some "tag:value" element whose value compares *)
  Theorem leaf_tag_compare tag op cv e :
    s_compare op cv e (FTag tag) = true <->
    exists vs x lhs, get e [SField TAGS] = Some (VArr vs) /\ In x vs /\
                     string_value x = tag ++ 58%N :: lhs /\ ~ In 58%N tag /\
                     scmp op lhs (cval_display cv) = true.
  Proof.
    unfold DdMatch.s_compare. rewrite on_addr_iff. cbn [lookup_field]. split.
    - intros (p & x & H1 & H2 & H3). inversion H1; subst p. apply arr_any_iff in H3 as (vs & y & -> & Hi & Hk).
      unfold tag_value_cmp in Hk. destruct (split_once_colon (string_value y)) as [[k lhs]|] eqn:E; [|discriminate].
      apply andb_true_iff in Hk as [Hk1 Hk2]. apply bytes_eqb_eq in Hk1. subst k.
      apply split_once_colon_spec in E as [E Hn]. exists vs, y, lhs. repeat split; auto.
    - intros (vs & x & lhs & H & Hi & Hs & Hn & Hc). exists [SField TAGS], (VArr vs). repeat split; auto.
      apply arr_any_iff. exists vs, x. repeat split; auto. unfold tag_value_cmp.
      rewrite (proj2 (split_once_colon_spec (string_value x) tag lhs) (conj Hs Hn)).
      rewrite bytes_eqb_refl. exact Hc.
  Qed.

  (* a wildcard on an attribute: the declarative glob relation on the value's string *)
  Theorem leaf_attr_wildcard s w e :
    s_wildcard w e (FAttribute s) = true <->
    exists p x, parse_value_path s = PPOk p /\ get e p = Some x /\ gmatch w (string_value x).
  Proof.
    unfold DdMatch.s_wildcard. rewrite on_addr_iff. cbn [lookup_field].
    split; intros (p & x & H1 & H2 & H3); exists p, x; repeat split; auto; apply glob_correct; auto.
  Qed.

  Theorem leaf_attr_prefix s v e :
    s_prefix v e (FAttribute s) = true <->
    exists p x r, parse_value_path s = PPOk p /\ get e p = Some x /\ string_value x = v ++ r.
  Proof.
    unfold DdMatch.s_prefix. rewrite on_addr_iff. cbn [lookup_field]. split.
    - intros (p & x & H1 & H2 & H3). apply starts_with_iff in H3 as [r Hr]. exists p, x, r. auto.
    - intros (p & x & r & H1 & H2 & H3). exists p, x. repeat split; auto. apply starts_with_iff. eauto.
  Qed.

  (* numeric comparisons on attributes *)
  Theorem leaf_attr_compare_int s op l r e p :
    parse_value_path s = PPOk p -> get e p = Some (VInt l) ->
    s_compare op (CInt r) e (FAttribute s) = zcmp op l r.
  Proof.
    intros Hp Hg. unfold DdMatch.s_compare, on_addr, addressed. cbn [lookup_field]. rewrite Hp, Hg. reflexivity.
  Qed.

  Theorem leaf_attr_compare_float s op l r e p :
    parse_value_path s = PPOk p -> get e p = Some (VFloat l) ->
    s_compare op (CFloat r) e (FAttribute s) = fcmp op l r.
  Proof.
    intros Hp Hg. unfold DdMatch.s_compare, on_addr, addressed. cbn [lookup_field]. rewrite Hp, Hg. reflexivity.
  Qed.

  Theorem leaf_attr_compare_string s op r e p x :
    parse_value_path s = PPOk p -> get e p = Some x ->
    s_compare op (CStr r) e (FAttribute s) = scmp op (string_value x) r.
  Proof.
    intros Hp Hg. unfold DdMatch.s_compare, on_addr, addressed. cbn [lookup_field]. rewrite Hp, Hg.
    destruct x; reflexivity.
  Qed.

  Lemma zcmp_spec op a b :
    zcmp op a b = true <-> match op with Lt => a < b | Lte => a <= b | Gt => a > b | Gte => a >= b end%Z.
  Proof. destruct op; cbn; rewrite ?Z.ltb_lt, ?Z.leb_le; lia. Qed.

  (* ---------- the two recorded departures ---------- *)

  Fixpoint vsize (v : value) : nat :=
    match v with
    | VObj kvs => S ((fix go (l : list (bytes * value)) : nat :=
                        match l with [] => 0 | kv :: r => vsize (snd kv) + go r end) kvs)
    | VArr vs => S ((fix go (l : list value) : nat :=
                       match l with [] => 0 | x :: r => vsize x + go r end) vs)
    | _ => 1
    end.

  Lemma vsize_in x vs : In x vs -> vsize x < vsize (VArr vs).
  Proof.
    cbn [vsize]. induction vs as [|y vs IH]; cbn; [contradiction|].
    intros [->|H]; [lia | specialize (IH H); lia].
  Qed.

  Lemma no_self_element vs : existsb (fun x => value_eqb x (VArr vs)) vs = false.
  Proof.
    destruct (existsb _ vs) eqn:E; [|reflexivity].
    apply existsb_exists in E as (x & Hi & Hx). apply value_eqb_eq in Hx. subst x.
    apply vsize_in in Hi. lia.
  Qed.

  (* `_exists_:tags` never holds, whatever the event *)
  Theorem exists_tags_never m e : build_matcher (NExists TAGS) = BOk m -> run m e = false.
  Proof.
    intros H. vm_compute in H. inversion H; subst m. clear H. rewrite run_any. cbn [existsb]. rewrite orb_false_r.
    cbn [DdMatch.run]. destruct (get e _) as [x|]; [|reflexivity].
    destruct x; try reflexivity. cbn [DdMatch.run_vm]. apply no_self_element.
  Qed.
End P.

(* ---------- word_match = the declarative "matches between two word boundaries" ---------- *)

(* the last byte of l, or prev when l is empty *)
Definition last_or (prev : option N) (l : bytes) : option N :=
  match rev l with x :: _ => Some x | [] => prev end.

Lemma last_or_nil prev : last_or prev [] = prev.
Proof. reflexivity. Qed.

Lemma last_or_cons prev x l : last_or prev (x :: l) = last_or (Some x) l.
Proof.
  unfold last_or. cbn [rev]. destruct (rev l) as [|y r] eqn:E; reflexivity.
Qed.

Lemma last_or_app prev a b : last_or prev (a ++ b) = last_or (last_or prev a) b.
Proof.
  revert prev; induction a as [|x a IH]; intros prev; [reflexivity|].
  cbn [app]. rewrite !last_or_cons. apply IH.
Qed.

Lemma wglob_star_unfold p prev s :
  wglob (PStar :: p) prev s =
  wglob p prev s || match s with x :: s' => negb (x =? 10)%N && wglob (PStar :: p) (Some x) s' | [] => false end.
Proof. destruct s; reflexivity. Qed.

Lemma wglob_star_iff p : forall s prev,
  wglob (PStar :: p) prev s = true <->
  exists s1 s2, s = s1 ++ s2 /\ ~ In 10%N s1 /\ wglob p (last_or prev s1) s2 = true.
Proof.
  induction s as [|x s IH]; intros prev; rewrite wglob_star_unfold.
  - rewrite orb_false_r. split.
    + intros H. exists [], []. repeat split; auto.
    + intros (s1 & s2 & H & _ & G). destruct s1; [|discriminate]. destruct s2; [|discriminate]. exact G.
  - rewrite orb_true_iff, andb_true_iff, negb_true_iff, N.eqb_neq, IH. split.
    + intros [G | [Hx (s1 & s2 & -> & Hn & G)]].
      * exists [], (x :: s). repeat split; auto.
      * exists (x :: s1), s2. rewrite last_or_cons. repeat split; auto. intros [H|H]; [congruence | contradiction].
    + intros (s1 & s2 & H & Hn & G). destruct s1 as [|y s1].
      * left. cbn in H. subst. exact G.
      * right. inversion H; subst. rewrite last_or_cons in G. split.
        -- intros ->. apply Hn; left; reflexivity.
        -- exists s1, s2. repeat split; auto. intros Hi; apply Hn; right; exact Hi.
Qed.

Lemma wglob_iff w : forall prev s,
  wglob (pat_of w) prev s = true <->
  exists mid post, s = mid ++ post /\ gmatch w mid /\ wb (last_or prev mid) post = true.
Proof.
  induction w as [|c w IH]; intros prev s.
  - cbn [pat_of map wglob]. split.
    + intros H. exists [], s. repeat split; auto. constructor.
    + intros (mid & post & -> & G & H). inversion G; subst. exact H.
  - change (pat_of (c :: w)) with ((if (c =? 42)%N then PStar else PLit c) :: pat_of w).
    destruct (N.eqb_spec c 42) as [->|Hc].
    + rewrite wglob_star_iff. split.
      * intros (s1 & s2 & -> & Hn & G). apply IH in G as (mid & post & -> & Gm & Hb).
        exists (s1 ++ mid), post. rewrite <- app_assoc, last_or_app. repeat split; auto. constructor; auto.
      * intros (mid & post & -> & G & Hb). inversion G; subst; [congruence|].
        exists s1, (s2 ++ post). rewrite <- app_assoc. repeat split; auto.
        apply IH. exists s2, post. rewrite <- last_or_app. auto.
    + cbn [wglob]. destruct s as [|x s].
      * split; [discriminate|]. intros (mid & post & H & G & _). inversion G; subst; [|congruence]. discriminate.
      * rewrite andb_true_iff, N.eqb_eq, IH. split.
        -- intros [-> (mid & post & -> & G & Hb)]. exists (c :: mid), post. rewrite last_or_cons.
           repeat split; auto. constructor; auto.
        -- intros (mid & post & H & G & Hb). inversion G; subst; [|congruence]. inversion H; subst.
           split; [reflexivity|]. exists s0, post. rewrite last_or_cons in Hb. auto.
Qed.

Lemma wsearch_iff p : forall s prev,
  wsearch p prev s = true <->
  exists pre rest, s = pre ++ rest /\ wb (last_or prev pre) rest = true /\ wglob p (last_or prev pre) rest = true.
Proof.
  induction s as [|x s IH]; intros prev.
  - cbn [wsearch]. rewrite orb_false_r, andb_true_iff. split.
    + intros [A B]. exists [], []. auto.
    + intros (pre & rest & H & A & B). destruct pre; [|discriminate]. destruct rest; [|discriminate]. auto.
  - cbn [wsearch]. rewrite orb_true_iff, andb_true_iff, IH. split.
    + intros [[A B] | (pre & rest & -> & A & B)].
      * exists [], (x :: s). auto.
      * exists (x :: pre), rest. rewrite last_or_cons. auto.
    + intros (pre & rest & H & A & B). destruct pre as [|y pre].
      * left. cbn in H. subst. auto.
      * right. inversion H; subst. rewrite last_or_cons in A, B. exists pre, rest. auto.
Qed.

(* a default-field term w matches the text s: some occurrence mid of the pattern (every `*` a run without
   newline) with a word boundary on each side *)
Theorem word_match_correct w s :
  word_match (pat_of w) s = true <->
  exists pre mid post, s = pre ++ mid ++ post /\ gmatch w mid /\
                       wb (last_or None pre) (mid ++ post) = true /\
                       wb (last_or (last_or None pre) mid) post = true.
Proof.
  unfold word_match. rewrite wsearch_iff. split.
  - intros (pre & rest & -> & A & B). apply wglob_iff in B as (mid & post & -> & G & C).
    exists pre, mid, post. auto.
  - intros (pre & mid & post & -> & G & A & C). exists pre, (mid ++ post). repeat split; auto.
    apply wglob_iff. exists mid, post. auto.
Qed.
