(* Soundness of Kind::is_superset with respect to `member`. *)
From Coq Require Import List NArith ZArith Bool Lia.
From VRL Require Import Base.Bytes Base.Value Model.ValueCrud Model.Kind Model.KindCrud Model.KindDomains
  Proofs.ValueCrudProofs Proofs.KindBasics Proofs.KindMergeProofs.
Import ListNotations.

Definition nea_unk (u : unk) : bool :=
  match u with UExact x => negb (is_any x) && no_exact_any x | UInf _ => true end.
Definition nea_coll {K} (c : coll_ K kind) : bool :=
  forallb (fun kv => no_exact_any (snd kv)) (known c) && nea_unk (unknown c).
Definition nea_opt {K} (o : option (coll_ K kind)) : bool :=
  match o with None => true | Some c => nea_coll c end.

Lemma no_exact_any_unfold k : no_exact_any k = nea_opt (arr_of k) && nea_opt (obj_of k).
Proof. destruct k as [p [a|] [o|]]; reflexivity. Qed.

Lemma nea_or_undefined k : no_exact_any (or_undefined k) = no_exact_any k.
Proof. destruct k as [p a o]; reflexivity. Qed.
Lemma nea_remove_undefined k : no_exact_any (remove_undefined k) = no_exact_any k.
Proof. destruct k as [p a o]; reflexivity. Qed.
Lemma nea_kind_of_inf i : no_exact_any (kind_of_inf i) = true.
Proof. unfold kind_of_inf. destruct (i_array i), (i_object i); reflexivity. Qed.

Lemma nea_unknown_kind {K} (c : coll_ K kind) : nea_coll c = true -> no_exact_any (unknown_kind c) = true.
Proof.
  unfold nea_coll, unknown_kind, unknown_kind_u, existing_kind. rewrite andb_true_iff. intros [_ H].
  rewrite nea_or_undefined, nea_remove_undefined. destruct (unknown c) as [x|i]; cbn in H.
  - apply andb_true_iff in H. tauto.
  - apply nea_kind_of_inf.
Qed.

Section CSup.
  Context {K : Type}.
  Variable keqb : K -> K -> bool.
  Hypothesis keqb_spec : forall a b, keqb a b = true <-> a = b.
  Variable S : kind -> kind -> bool.
  Hypothesis HS : forall x y v, no_exact_any x = true -> S x y = true -> member v y = true -> member v x = true.
  Hypothesis HSu : forall x y, S x y = true -> p_undefined (prims_of y) = true -> p_undefined (prims_of x) = true.

  Lemma nea_coll_at (c : coll_ K kind) key : nea_coll c = true -> no_exact_any (coll_at keqb c key) = true.
  Proof.
    intros H. unfold coll_at. destruct (aget keqb (known c) key) as [x|] eqn:E.
    - unfold nea_coll in H. apply andb_true_iff in H. destruct H as [H _].
      rewrite forallb_forall in H. apply (H (key, x)). apply (aget_in keqb keqb_spec). exact E.
    - apply nea_unknown_kind; auto.
  Qed.

  Lemma usuperset_sound (l r : unk) v : nea_unk l = true -> usuperset S l r = true ->
    member v (unknown_kind_u r) = true -> member v (unknown_kind_u l) = true.
  Proof.
    destruct l as [x|i], r as [y|j]; cbn [usuperset nea_unk]; intros Hn Hs Hm.
    - apply andb_true_iff in Hn. destruct Hn as [_ Hn].
      rewrite member_unknown_kind_exact in *.
      rewrite <- (member_remove_undefined v x). apply (HS _ (remove_undefined y)); auto.
      + rewrite nea_remove_undefined. auto.
      + rewrite member_remove_undefined. auto.
    - apply andb_true_iff in Hn. destruct Hn as [Hn _]. rewrite Hs in Hn. discriminate.
    - rewrite member_unknown_kind_exact, member_unknown_kind_inf in *.
      destruct (inf_is_any i) eqn:Ea.
      + apply inf_is_any_eq in Ea; subst. apply member_inf_any.
      + apply (HS _ y); auto. apply nea_kind_of_inf.
    - rewrite !member_unknown_kind_inf in *. destruct (inf_is_any i) eqn:Ea.
      + apply inf_is_any_eq in Ea; subst. apply member_inf_any.
      + eapply member_inf_mono; eauto.
  Qed.

  Lemma csuperset_known_r (l r : coll_ K kind) key ok : csuperset keqb S l r = true ->
    aget keqb (known r) key = Some ok -> S (coll_at keqb l key) ok = true.
  Proof.
    unfold csuperset. rewrite !andb_true_iff, !forallb_forall. intros [[_ H] _] E.
    apply (H (key, ok)). apply (aget_in keqb keqb_spec). exact E.
  Qed.

  Lemma csuperset_known_l (l r : coll_ K kind) key sk : csuperset keqb S l r = true ->
    aget keqb (known l) key = Some sk -> aget keqb (known r) key = None -> S sk (unknown_kind r) = true.
  Proof.
    unfold csuperset. rewrite !andb_true_iff, !forallb_forall. intros [_ H] E En.
    specialize (H (key, sk) (aget_in keqb keqb_spec _ _ _ E)). cbn in H. unfold ahas in H.
    rewrite En in H. exact H.
  Qed.

  Lemma coll_at_csuperset (l r : coll_ K kind) key v : nea_coll l = true -> csuperset keqb S l r = true ->
    member v (coll_at keqb r key) = true -> member v (coll_at keqb l key) = true.
  Proof.
    intros Hn Hs Hm. pose proof (nea_coll_at l key Hn) as Hnk.
    unfold coll_at in Hm. destruct (aget keqb (known r) key) as [ok|] eqn:Er.
    - eapply HS; eauto. eapply csuperset_known_r; eauto.
    - unfold coll_at in *. destruct (aget keqb (known l) key) as [sk|] eqn:El.
      + eapply HS; eauto. eapply csuperset_known_l; eauto.
      + unfold unknown_kind in *. eapply usuperset_sound; eauto.
        * unfold nea_coll in Hn. apply andb_true_iff in Hn. tauto.
        * unfold csuperset in Hs. rewrite !andb_true_iff in Hs. tauto.
  Qed.

  Lemma undefined_csuperset (l r : coll_ K kind) key : csuperset keqb S l r = true ->
    p_undefined (prims_of (coll_at keqb r key)) = true -> p_undefined (prims_of (coll_at keqb l key)) = true.
  Proof.
    intros Hs Hu. unfold coll_at in Hu. destruct (aget keqb (known r) key) as [ok|] eqn:Er.
    - eapply HSu; eauto. eapply csuperset_known_r; eauto.
    - unfold coll_at. destruct (aget keqb (known l) key) as [sk|] eqn:El.
      + eapply HSu; [eapply csuperset_known_l; eauto|]. apply p_undefined_unknown_kind.
      + apply p_undefined_unknown_kind.
  Qed.
End CSup.

Lemma prims_superset_spec x y : prims_superset x y = true ->
  (p_bytes y = true -> p_bytes x = true) /\ (p_integer y = true -> p_integer x = true)
  /\ (p_float y = true -> p_float x = true) /\ (p_boolean y = true -> p_boolean x = true)
  /\ (p_timestamp y = true -> p_timestamp x = true) /\ (p_regex y = true -> p_regex x = true)
  /\ (p_null y = true -> p_null x = true) /\ (p_undefined y = true -> p_undefined x = true).
Proof.
  unfold prims_superset, implb'. rewrite !andb_true_iff. intros H.
  repeat match goal with H : _ /\ _ |- _ => destruct H end.
  repeat split; intros E; rewrite E in *; cbn in *; assumption.
Qed.

Lemma superset_f_undefined n x y : superset_f n x y = true ->
  p_undefined (prims_of y) = true -> p_undefined (prims_of x) = true.
Proof.
  destruct n; cbn; [discriminate|]. rewrite !andb_true_iff. intros [[H _] _].
  apply prims_superset_spec in H. tauto.
Qed.

Theorem superset_f_sound : forall n a b v, no_exact_any a = true -> superset_f n a b = true ->
  member v b = true -> member v a = true.
Proof.
  induction n as [|n IH]; intros a b v Hn Hs Hm; [discriminate|].
  cbn [superset_f] in Hs. rewrite !andb_true_iff in Hs. destruct Hs as [[Hp Ha] Ho].
  destruct (prims_superset_spec _ _ Hp) as (Sb & Si & Sf & SB & St & Sr & Sn & Su).
  rewrite no_exact_any_unfold in Hn. apply andb_true_iff in Hn. destruct Hn as [Hna Hno].
  destruct v; try (cbn in *; auto; fail).
  - (* objects *)
    rewrite !member_obj in *. destruct (obj_of b) as [cb|]; [|discriminate].
    destruct (obj_of a) as [ca|]; [|discriminate]. cbn [sup_opt nea_opt] in *.
    apply obj_ok_intro.
    + intros f w Hin. apply (coll_at_csuperset bytes_eqb bytes_eqb_eq (superset_f n) IH ca cb); auto.
      eapply obj_ok_elem; eauto.
    + intros f Hf. apply (undefined_csuperset bytes_eqb bytes_eqb_eq (superset_f n) (superset_f_undefined n) ca cb); auto.
      eapply obj_ok_absent; eauto.
  - (* arrays *)
    rewrite !member_arr in *. destruct (arr_of b) as [cb|]; [|discriminate].
    destruct (arr_of a) as [ca|]; [|discriminate]. cbn [sup_opt nea_opt] in *.
    apply arr_ok_intro.
    + intros i x Hin. apply (coll_at_csuperset Nat.eqb nat_eqb_spec' (superset_f n) IH ca cb); auto.
      eapply arr_ok_elem; eauto.
    + intros i Hi. apply (undefined_csuperset Nat.eqb nat_eqb_spec' (superset_f n) (superset_f_undefined n) ca cb); auto.
      eapply arr_ok_absent; eauto.
Qed.

Theorem superset_sound a b v : no_exact_any a = true -> is_superset a b = true ->
  member v b = true -> member v a = true.
Proof. apply superset_f_sound. Qed.
