(* Proofs about Model/DdSearch.v (C30), part 3: every printed leaf is read back as the same value /
   clause. *)
From Coq Require Import String List NArith ZArith Bool Lia.
From Coq Require Import Floats.SpecFloat.
From VRL Require Import Base.Bytes Base.Value Base.Lit Model.DdNode Model.DdSearch
  Proofs.DdSearchProofs Proofs.DdSearchNum.
Import ListNotations.
Local Open Scope N_scope.

(* ---------- the first character of a printed term / attribute ---------- *)

Definition head_ok (c : N) : Prop := c = 92 \/ (lucene_special c = false /\ is_ws c = false).

Lemma head_ok_neq c k : head_ok c -> lucene_special k = true -> k <> 92 -> (c =? k) = false.
Proof.
  intros [->|[H _]] K N.
  - apply N.eqb_neq. congruence.
  - apply not_special_neq; auto.
Qed.

Lemma head_ok_not_ws c : head_ok c -> is_ws c = false.
Proof. intros [->|[_ H]]; [reflexivity | exact H]. Qed.

Lemma escaped_head v :
  nonempty v = true -> no_ws v = true -> exists c r, lucene_escape v = c :: r /\ head_ok c.
Proof.
  destruct v as [|c v]; [discriminate|]. intros _ W. cbn [no_ws forallb] in W.
  apply andb_true_iff in W as [W _]. apply negb_true_iff in W.
  cbn [lucene_escape]. destruct (lucene_special c) eqn:Sc.
  - exists 92, (c :: lucene_escape v). split; [reflexivity | left; reflexivity].
  - exists c, (lucene_escape v). split; [reflexivity | right; auto].
Qed.

Lemma skip_head c r : is_ws c = false -> skip (c :: r) = c :: r.
Proof. intros H. cbn. rewrite H. reflexivity. Qed.

(* ---------- parse_value, alternative by alternative ---------- *)

Definition alt_star (s : bytes) : option (pvalue * bytes) :=
  match s with c :: r => if (c =? 42) && term_end r then Some (PVStar, r) else None | [] => None end.

Definition alt_term (s : bytes) : option (pvalue * bytes) :=
  match lex_term s with Some (t, r) => if term_end r then Some (PVTerm t, r) else None | None => None end.

Lemma parse_value_eq s :
  parse_value s =
  match alt_star s with
  | Some x => Some x
  | None =>
  match lex_phrase s with
  | Some (p, r) => Some (PVPhrase p, r)
  | None =>
  match lex_term_prefix s with
  | Some (p, r) => Some (PVPrefix p, r)
  | None =>
  match parse_comparison s with
  | Some x => Some x
  | None =>
  match parse_range s with
  | Some x => Some x
  | None =>
  match alt_term s with
  | Some x => Some x
  | None =>
  match lex_term_glob s with
  | Some (g, r) => Some (PVGlob g, r)
  | None => None
  end end end end end end end.
Proof. reflexivity. Qed.

Section Heads.
  Variables (c : N) (r : bytes).
  Hypothesis Hc : head_ok c.

  Lemma head_alt_star : alt_star (c :: r) = None.
  Proof. cbn. rewrite (head_ok_neq c 42 Hc eq_refl) by discriminate. reflexivity. Qed.

  Lemma head_lex_phrase : lex_phrase (c :: r) = None.
  Proof. cbn. rewrite (head_ok_neq c 34 Hc eq_refl) by discriminate. reflexivity. Qed.

  Lemma head_lex_operator : lex_operator (c :: r) = None.
  Proof.
    unfold lex_operator. cbn [bs strip_prefix]. cbn [Ascii.N_of_ascii Ascii.N_of_digits N.add N.mul].
    change (N_of_ascii ">") with 62. change (N_of_ascii "<") with 60.
    rewrite (head_ok_neq c 62 Hc eq_refl), (head_ok_neq c 60 Hc eq_refl) by discriminate. reflexivity.
  Qed.

  Lemma head_parse_comparison : parse_comparison (c :: r) = None.
  Proof. unfold parse_comparison. rewrite head_lex_operator. reflexivity. Qed.

  Lemma head_parse_range : parse_range (c :: r) = None.
  Proof.
    cbn. rewrite (head_ok_neq c 91 Hc eq_refl), (head_ok_neq c 123 Hc eq_refl) by discriminate. reflexivity.
  Qed.

  Lemma head_not_matchall : strip_prefix (bs "*:*") (c :: r) = None.
  Proof. cbn [bs strip_prefix]. change (N_of_ascii "*") with 42. rewrite (head_ok_neq c 42 Hc eq_refl) by discriminate. reflexivity. Qed.

  Lemma head_not_lparen : strip_prefix [40] (c :: r) = None.
  Proof. cbn. rewrite (head_ok_neq c 40 Hc eq_refl) by discriminate. reflexivity. Qed.

  Lemma head_skip : skip (c :: r) = c :: r.
  Proof. apply skip_head. apply head_ok_not_ws; exact Hc. Qed.
End Heads.

Lemma term_end_no_star {A} (x : A) rest :
  term_end rest = true ->
  match rest with
  | c :: r3 => if (c =? 42) && term_end r3 then Some (x, r3) else None
  | [] => None
  end = None.
Proof.
  destruct rest as [|c r3]; [reflexivity|]. cbn [term_end]. intros H.
  assert (c =? 42 = false) as ->; [|reflexivity].
  apply orb_true_iff in H as [H|H]; [|apply N.eqb_eq in H; subst; reflexivity].
  apply orb_true_iff in H as [H|H]; [|apply N.eqb_eq in H; subst; reflexivity].
  apply orb_true_iff in H as [H|H]; [|apply N.eqb_eq in H; subst; reflexivity].
  apply is_ws_cases in H as [ -> | [ -> | [ -> | -> ] ] ]; reflexivity.
Qed.

Lemma lex_term_prefix_escaped_none s rest :
  nonempty s = true -> no_ws s = true -> uni_free s = true -> term_end rest = true ->
  lex_term_prefix (lucene_escape s ++ rest) = None.
Proof.
  intros N W U E. unfold lex_term_prefix. destruct s as [|c s]; [discriminate|].
  pose proof (term_end_stops rest E) as S.
  cbn [no_ws forallb] in W. apply andb_true_iff in W as [Wc W]. apply negb_true_iff in Wc.
  rewrite (term_start_escaped false c s rest Wc U S).
  assert (uni_free s = true) as U'. { cbn [uni_free] in U. apply andb_true_iff in U as [_ U]. exact U. }
  rewrite (term_chars_escaped s rest W U' S). apply term_end_no_star. exact E.
Qed.

Lemma term_ok_parts v :
  term_ok v = true -> nonempty v = true /\ no_ws v = true /\ uni_free v = true /\ kw_free v = true.
Proof.
  unfold term_ok. intros H. apply andb_true_iff in H as [H K]. apply andb_true_iff in H as [H U].
  apply andb_true_iff in H as [N W]. auto.
Qed.

(* a term value *)
Theorem parse_value_term v rest :
  term_ok v = true -> term_end rest = true ->
  parse_value (lucene_escape v ++ rest) = Some (PVTerm (lucene_escape v), rest).
Proof.
  intros T E. destruct (term_ok_parts v T) as (N & W & U & K).
  destruct (escaped_head v N W) as (c & r & Hv & Hc).
  rewrite parse_value_eq.
  rewrite (lex_term_prefix_escaped_none v rest N W U E).
  unfold alt_term. rewrite (lex_term_escaped v rest T (term_end_stops rest E)). rewrite E.
  rewrite Hv. cbn [app].
  rewrite (head_alt_star c _ Hc), (head_lex_phrase c _ Hc), (head_parse_comparison c _ Hc), (head_parse_range c _ Hc).
  reflexivity.
Qed.

(* a quoted phrase: no condition at all *)
Theorem parse_value_quoted v rest :
  parse_value (34 :: quoted_escape v ++ 34 :: rest) = Some (PVPhrase (quoted_escape v), rest).
Proof.
  rewrite parse_value_eq. change (alt_star (34 :: quoted_escape v ++ 34 :: rest)) with (@None (pvalue * bytes)).
  rewrite lex_phrase_quoted. reflexivity.
Qed.

(* a prefix *)
Theorem parse_value_prefix v rest :
  nonempty v = true -> no_ws v = true -> uni_free v = true -> term_end rest = true ->
  parse_value (lucene_escape v ++ 42 :: rest) = Some (PVPrefix (lucene_escape v), rest).
Proof.
  intros N W U E. destruct (escaped_head v N W) as (c & r & Hv & Hc).
  rewrite parse_value_eq. rewrite (lex_term_prefix_escaped v rest N W U E).
  rewrite Hv. cbn [app]. rewrite (head_alt_star c _ Hc), (head_lex_phrase c _ Hc). reflexivity.
Qed.

(* ---------- comparisons ---------- *)

Lemma cmp_head op : exists c r, cmp_lucene op = c :: r /\ (c = 62 \/ c = 60).
Proof. destruct op; cbn; eauto. Qed.

Lemma term_start_invalid g c r :
  (c =? 92) = false -> invalid_char c = true -> is_glob c = false -> term_start_char g (c :: r) = None.
Proof.
  intros H1 H2 H3. cbn [term_start_char]. rewrite H1. unfold invalid_start. rewrite H2, H3.
  rewrite !orb_true_r, andb_false_r. reflexivity.
Qed.

Lemma lex_operator_printed op x r :
  (x =? 61) = false -> lex_operator (cmp_lucene op ++ x :: r) = Some (op, x :: r).
Proof.
  intros H. unfold lex_operator. destruct op; cbn; rewrite ?H; reflexivity.
Qed.

(* the string does not read as a number: NUM_VALUE does not match its escaped text *)
Definition numlike (s : bytes) : bool :=
  match s with
  | [] => false
  | c :: r => if c =? 45 then match r with d :: _ => is_digit d | [] => false end else is_digit c
  end.

Lemma digits_nondigit c r : is_digit c = false -> digits (c :: r) = ([], c :: r).
Proof. intros H. cbn. rewrite H. reflexivity. Qed.

Lemma num_value_escaped_none v rest :
  nonempty v = true -> numlike v = false -> stops rest = true -> num_value (lucene_escape v ++ rest) = None.
Proof.
  destruct v as [|c v]; [discriminate|]. intros _ NL S. cbn [numlike] in NL.
  unfold num_value. cbn [lucene_escape].
  destruct (N.eqb_spec c 45) as [->|Hc].
  - (* "\-" then not a digit *)
    change (lucene_special 45) with true. cbn [app].
    cbn [strip_prefix]. change (92 =? 45) with false. cbn [strip_prefix].
    rewrite !N.eqb_refl.
    destruct v as [|d v].
    + cbn [lucene_escape app]. destruct rest as [|x rest']; [reflexivity|].
      cbn [stops] in S. assert (is_digit x = false) as Dx.
      { destruct (is_digit x) eqn:D; [|reflexivity]. apply is_digit_spec in D.
        unfold stop_char in S. apply orb_true_iff in S as [S|S].
        - apply is_ws_cases in S. lia.
        - apply andb_true_iff in S as [S _]. apply andb_true_iff in S as [S _].
          unfold invalid_char in S. rewrite !orb_true_iff, !N.eqb_eq in S. lia. }
      rewrite digits_nondigit by exact Dx. reflexivity.
    + cbn [lucene_escape]. destruct (lucene_special d) eqn:Sd.
      * cbn [app]. rewrite digits_nondigit by reflexivity. reflexivity.
      * cbn [app]. rewrite digits_nondigit by exact NL. reflexivity.
  - destruct (lucene_special c) eqn:Sc.
    + cbn [app]. cbn [strip_prefix]. change (92 =? 45) with false. rewrite N.eqb_refl.
      apply N.eqb_neq in Hc. rewrite Hc. rewrite digits_nondigit by reflexivity. reflexivity.
    + cbn [app]. cbn [strip_prefix]. apply N.eqb_neq in Hc. rewrite Hc.
      rewrite (not_special_neq c 92 Sc eq_refl). rewrite digits_nondigit by exact NL. reflexivity.
Qed.

Lemma lex_numeric_term_escaped_none v rest :
  nonempty v = true -> numlike v = false -> stops rest = true ->
  lex_numeric_term (lucene_escape v ++ rest) = None.
Proof. intros. unfold lex_numeric_term. rewrite num_value_escaped_none; auto. Qed.

Lemma cmp_prefix_fails op X :
  alt_star (cmp_lucene op ++ X) = None /\ lex_phrase (cmp_lucene op ++ X) = None /\
  lex_term_prefix (cmp_lucene op ++ X) = None.
Proof. destruct op; repeat split; reflexivity. Qed.

(* a comparison with a string *)
Theorem parse_value_cmp_str op v rest :
  term_ok v = true -> numlike v = false -> term_end rest = true ->
  parse_value (cmp_lucene op ++ lucene_escape v ++ rest) = Some (PVCmp op false (lucene_escape v), rest).
Proof.
  intros T NL E. destruct (term_ok_parts v T) as (N & W & U & K).
  destruct (escaped_head v N W) as (c & r & Hv & Hc).
  rewrite parse_value_eq. destruct (cmp_prefix_fails op (lucene_escape v ++ rest)) as (-> & -> & ->).
  unfold parse_comparison.
  assert (lex_operator (cmp_lucene op ++ lucene_escape v ++ rest) = Some (op, lucene_escape v ++ rest)) as ->.
  { rewrite Hv. cbn [app]. apply lex_operator_printed. apply (head_ok_neq c 61 Hc eq_refl). discriminate. }
  rewrite (lex_numeric_term_escaped_none v rest N NL (term_end_stops rest E)).
  rewrite (lex_term_escaped v rest T (term_end_stops rest E)). reflexivity.
Qed.

Lemma term_end_num_stop rest : term_end rest = true -> num_stop rest = true.
Proof.
  destruct rest as [|c r]; [reflexivity|]. cbn [term_end num_stop]. intros H.
  apply orb_true_iff in H as [H|H]; [|apply N.eqb_eq in H; subst; reflexivity].
  apply orb_true_iff in H as [H|H]; [|apply N.eqb_eq in H; subst; reflexivity].
  apply orb_true_iff in H as [H|H]; [|apply N.eqb_eq in H; subst; reflexivity].
  apply is_ws_cases in H as [ -> | [ -> | [ -> | -> ] ] ]; reflexivity.
Qed.

(* a comparison with an integer *)
Theorem parse_value_cmp_int op z rest :
  term_end rest = true ->
  parse_value (cmp_lucene op ++ dec_of_Z z ++ rest) = Some (PVCmp op true (dec_of_Z z), rest).
Proof.
  intros E. rewrite parse_value_eq. destruct (cmp_prefix_fails op (dec_of_Z z ++ rest)) as (-> & -> & ->).
  unfold parse_comparison. destruct (dec_of_Z_head z) as (c & r & Hz & Hc).
  assert (lex_operator (cmp_lucene op ++ dec_of_Z z ++ rest) = Some (op, dec_of_Z z ++ rest)) as ->.
  { rewrite Hz. cbn [app]. apply lex_operator_printed.
    unfold int_char in Hc. apply orb_true_iff in Hc as [Hc|Hc].
    - apply is_digit_spec in Hc. apply N.eqb_neq. lia.
    - apply N.eqb_eq in Hc. subst. reflexivity. }
  rewrite (lex_numeric_term_dec z rest (term_end_num_stop rest E)). reflexivity.
Qed.

(* ---------- ranges ---------- *)

(* the characters RANGE_VALUE accepts *)
Definition range_char (c : N) : bool := negb (is_ws c || (c =? 93) || (c =? 125)).

Lemma range_chars_app t rest :
  forallb range_char t = true ->
  (match rest with [] => true | c :: _ => negb (range_char c) end) = true ->
  range_chars (t ++ rest) = (t, rest).
Proof.
  intros T R. induction t as [|c t IH].
  - destruct rest as [|c r]; [reflexivity|]. cbn [app range_chars].
    unfold range_char in R. rewrite negb_involutive in R. rewrite R. reflexivity.
  - cbn [forallb] in T. apply andb_true_iff in T as [Tc T]. cbn [app range_chars].
    unfold range_char in Tc. apply negb_true_iff in Tc. rewrite Tc, IH; auto.
Qed.

Lemma lex_range_value_app t rest :
  nonempty t = true -> forallb range_char t = true ->
  (match rest with [] => true | c :: _ => negb (range_char c) end) = true ->
  lex_range_value (t ++ rest) = Some (t, rest).
Proof.
  intros N T R. unfold lex_range_value. rewrite range_chars_app by auto.
  destruct t; [discriminate | reflexivity].
Qed.

Definition lbr (b : bool) : N := if b then 91 else 123.
Definition rbr (b : bool) : N := if b then 93 else 125.

Lemma range_first_char_not_ws t : nonempty t = true -> forallb range_char t = true -> skip t = t /\ forall x, skip (t ++ x) = t ++ x.
Proof.
  destruct t as [|c t]; [discriminate|]. intros _ T. cbn [forallb] in T. apply andb_true_iff in T as [Tc _].
  unfold range_char in Tc. apply negb_true_iff in Tc. apply orb_false_iff in Tc as [Tc _].
  apply orb_false_iff in Tc as [Tc _]. split; [|intros x]; apply skip_head; exact Tc.
Qed.

(* a range: both brackets of the same kind, bounds made of RANGE_VALUE characters *)
Theorem parse_value_range b lo hi rest :
  nonempty lo = true -> forallb range_char lo = true ->
  nonempty hi = true -> forallb range_char hi = true ->
  parse_value (lbr b :: lo ++ bs " TO " ++ hi ++ rbr b :: rest) = Some (PVRange b lo hi b, rest).
Proof.
  intros Nl Tl Nh Th. rewrite parse_value_eq.
  assert (alt_star (lbr b :: lo ++ bs " TO " ++ hi ++ rbr b :: rest) = None) as -> by (destruct b; reflexivity).
  assert (lex_phrase (lbr b :: lo ++ bs " TO " ++ hi ++ rbr b :: rest) = None) as -> by (destruct b; reflexivity).
  assert (lex_term_prefix (lbr b :: lo ++ bs " TO " ++ hi ++ rbr b :: rest) = None) as -> by (destruct b; reflexivity).
  assert (parse_comparison (lbr b :: lo ++ bs " TO " ++ hi ++ rbr b :: rest) = None) as -> by (destruct b; reflexivity).
  unfold parse_range.
  assert ((lbr b =? 91) || (lbr b =? 123) = true) as -> by (destruct b; reflexivity).
  destruct (range_first_char_not_ws lo Nl Tl) as [_ Sl]. destruct (range_first_char_not_ws hi Nh Th) as [_ Sh].
  rewrite Sl. rewrite (lex_range_value_app lo) by auto.
  change (skip (bs " TO " ++ hi ++ rbr b :: rest)) with (skip (bs "TO " ++ hi ++ rbr b :: rest)).
  change (bs "TO " ++ hi ++ rbr b :: rest) with (bs "TO" ++ 32 :: hi ++ rbr b :: rest).
  assert (skip (bs "TO" ++ 32 :: hi ++ rbr b :: rest) = bs "TO" ++ 32 :: hi ++ rbr b :: rest) as -> by reflexivity.
  rewrite strip_prefix_app.
  change (skip (32 :: hi ++ rbr b :: rest)) with (skip (hi ++ rbr b :: rest)). rewrite Sh.
  rewrite (lex_range_value_app hi) by (auto; destruct b; reflexivity).
  assert (skip (rbr b :: rest) = rbr b :: rest) as -> by (destruct b; reflexivity).
  destruct b; reflexivity.
Qed.
