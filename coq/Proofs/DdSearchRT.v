(* Proofs about Model/DdSearch.v (C30), part 3: every printed leaf is read back as the same value /
   clause. *)
From Coq Require Import String List NArith ZArith Bool Lia.
From Coq Require Import Floats.SpecFloat.
From VRL Require Import Base.Bytes Base.Value Base.Lit Model.DdNode Model.DdSearch
  Proofs.DdSearchProofs Proofs.DdSearchNum.
Import ListNotations.
Local Open Scope N_scope.

(* ---------- the first character of a printed term / attribute ---------- *)

Definition head_ok (c : N) : Prop := c = 92 \/ (lucene_special c = false /\ is_ws c = false).

Lemma head_ok_neq c k : head_ok c -> lucene_special k = true -> k <> 92 -> (c =? k) = false.
Proof.
  intros [->|[H _]] K N.
  - apply N.eqb_neq. congruence.
  - apply not_special_neq; auto.
Qed.

Lemma head_ok_not_ws c : head_ok c -> is_ws c = false.
Proof. intros [->|[_ H]]; [reflexivity | exact H]. Qed.

Lemma escaped_head v :
  nonempty v = true -> no_ws v = true -> exists c r, lucene_escape v = c :: r /\ head_ok c.
Proof.
  destruct v as [|c v]; [discriminate|]. intros _ W. cbn [no_ws forallb] in W.
  apply andb_true_iff in W as [W _]. apply negb_true_iff in W.
  cbn [lucene_escape]. destruct (lucene_special c) eqn:Sc.
  - exists 92, (c :: lucene_escape v). split; [reflexivity | left; reflexivity].
  - exists c, (lucene_escape v). split; [reflexivity | right; auto].
Qed.

Lemma skip_head c r : is_ws c = false -> skip (c :: r) = c :: r.
Proof. intros H. cbn. rewrite H. reflexivity. Qed.

(* ---------- parse_value, alternative by alternative ---------- *)

Definition alt_star (s : bytes) : option (pvalue * bytes) :=
  match s with c :: r => if (c =? 42) && term_end r then Some (PVStar, r) else None | [] => None end.

Definition alt_term (s : bytes) : option (pvalue * bytes) :=
  match lex_term s with Some (t, r) => if term_end r then Some (PVTerm t, r) else None | None => None end.

Lemma parse_value_eq s :
  parse_value s =
  match alt_star s with
  | Some x => Some x
  | None =>
  match lex_phrase s with
  | Some (p, r) => Some (PVPhrase p, r)
  | None =>
  match lex_term_prefix s with
  | Some (p, r) => Some (PVPrefix p, r)
  | None =>
  match parse_comparison s with
  | Some x => Some x
  | None =>
  match parse_range s with
  | Some x => Some x
  | None =>
  match alt_term s with
  | Some x => Some x
  | None =>
  match lex_term_glob s with
  | Some (g, r) => Some (PVGlob g, r)
  | None => None
  end end end end end end end.
Proof. reflexivity. Qed.

Section Heads.
  Variables (c : N) (r : bytes).
  Hypothesis Hc : head_ok c.

  Lemma head_alt_star : alt_star (c :: r) = None.
  Proof. cbn. rewrite (head_ok_neq c 42 Hc eq_refl) by discriminate. reflexivity. Qed.

  Lemma head_lex_phrase : lex_phrase (c :: r) = None.
  Proof. cbn. rewrite (head_ok_neq c 34 Hc eq_refl) by discriminate. reflexivity. Qed.

  Lemma head_lex_operator : lex_operator (c :: r) = None.
  Proof.
    unfold lex_operator.
    change (bs ">=") with [62; 61]. change (bs "<=") with [60; 61]. change (bs ">") with [62]. change (bs "<") with [60].
    rewrite !strip_prefix_head_neq; auto; apply head_ok_neq; auto; discriminate.
  Qed.

  Lemma head_parse_comparison : parse_comparison (c :: r) = None.
  Proof. unfold parse_comparison. rewrite head_lex_operator. reflexivity. Qed.

  Lemma head_parse_range : parse_range (c :: r) = None.
  Proof.
    cbn. rewrite (head_ok_neq c 91 Hc eq_refl), (head_ok_neq c 123 Hc eq_refl) by discriminate. reflexivity.
  Qed.

  Lemma head_not_matchall : strip_prefix (bs "*:*") (c :: r) = None.
  Proof. change (bs "*:*") with [42; 58; 42]. apply strip_prefix_head_neq. apply head_ok_neq; auto; discriminate. Qed.

  Lemma head_not_lparen : strip_prefix [40] (c :: r) = None.
  Proof. cbn. rewrite (head_ok_neq c 40 Hc eq_refl) by discriminate. reflexivity. Qed.

  Lemma head_skip : skip (c :: r) = c :: r.
  Proof. apply skip_head. apply head_ok_not_ws; exact Hc. Qed.
End Heads.

Lemma term_end_no_star {A} (x : A) rest :
  term_end rest = true ->
  match rest with
  | c :: r3 => if (c =? 42) && term_end r3 then Some (x, r3) else None
  | [] => None
  end = None.
Proof.
  destruct rest as [|c r3]; [reflexivity|]. cbn [term_end]. intros H.
  assert (c =? 42 = false) as ->; [|reflexivity].
  apply orb_true_iff in H as [H|H]; [|apply N.eqb_eq in H; subst; reflexivity].
  apply orb_true_iff in H as [H|H]; [|apply N.eqb_eq in H; subst; reflexivity].
  apply orb_true_iff in H as [H|H]; [|apply N.eqb_eq in H; subst; reflexivity].
  apply is_ws_cases in H as [ -> | [ -> | [ -> | -> ] ] ]; reflexivity.
Qed.

Lemma lex_term_prefix_escaped_none s rest :
  nonempty s = true -> no_ws s = true -> uni_free s = true -> term_end rest = true ->
  lex_term_prefix (lucene_escape s ++ rest) = None.
Proof.
  intros N W U E. unfold lex_term_prefix. destruct s as [|c s]; [discriminate|].
  pose proof (term_end_stops rest E) as S.
  cbn [no_ws forallb] in W. apply andb_true_iff in W as [Wc W]. apply negb_true_iff in Wc.
  rewrite (term_start_escaped false c s rest Wc U S).
  assert (uni_free s = true) as U'. { cbn [uni_free] in U. apply andb_true_iff in U as [_ U]. exact U. }
  rewrite (term_chars_escaped s rest W U' S). apply term_end_no_star. exact E.
Qed.

Lemma term_ok_parts v :
  term_ok v = true -> nonempty v = true /\ no_ws v = true /\ uni_free v = true /\ kw_free v = true.
Proof.
  unfold term_ok. intros H. apply andb_true_iff in H as [H K]. apply andb_true_iff in H as [H U].
  apply andb_true_iff in H as [N W]. auto.
Qed.

(* a term value *)
Theorem parse_value_term v rest :
  term_ok v = true -> term_end rest = true ->
  parse_value (lucene_escape v ++ rest) = Some (PVTerm (lucene_escape v), rest).
Proof.
  intros T E. destruct (term_ok_parts v T) as (N & W & U & K).
  destruct (escaped_head v N W) as (c & r & Hv & Hc).
  rewrite parse_value_eq.
  rewrite (lex_term_prefix_escaped_none v rest N W U E).
  unfold alt_term. rewrite (lex_term_escaped v rest T (term_end_stops rest E)). rewrite E.
  rewrite Hv. cbn [app].
  rewrite (head_alt_star c _ Hc), (head_lex_phrase c _ Hc), (head_parse_comparison c _ Hc), (head_parse_range c _ Hc).
  reflexivity.
Qed.

(* a quoted phrase: no condition at all *)
Theorem parse_value_quoted v rest :
  parse_value (34 :: quoted_escape v ++ 34 :: rest) = Some (PVPhrase (quoted_escape v), rest).
Proof.
  rewrite parse_value_eq. change (alt_star (34 :: quoted_escape v ++ 34 :: rest)) with (@None (pvalue * bytes)).
  rewrite lex_phrase_quoted. reflexivity.
Qed.

(* a prefix *)
Theorem parse_value_prefix v rest :
  nonempty v = true -> no_ws v = true -> uni_free v = true -> term_end rest = true ->
  parse_value (lucene_escape v ++ 42 :: rest) = Some (PVPrefix (lucene_escape v), rest).
Proof.
  intros N W U E. destruct (escaped_head v N W) as (c & r & Hv & Hc).
  rewrite parse_value_eq. rewrite (lex_term_prefix_escaped v rest N W U E).
  rewrite Hv. cbn [app]. rewrite (head_alt_star c _ Hc), (head_lex_phrase c _ Hc). reflexivity.
Qed.

(* ---------- comparisons ---------- *)

Lemma cmp_head op : exists c r, cmp_lucene op = c :: r /\ (c = 62 \/ c = 60).
Proof. destruct op; cbn; eauto. Qed.

Lemma term_start_invalid g c r :
  (c =? 92) = false -> invalid_char c = true -> is_glob c = false -> term_start_char g (c :: r) = None.
Proof.
  intros H1 H2 H3. cbn [term_start_char]. rewrite H1. unfold invalid_start. rewrite H2, H3.
  rewrite !orb_true_r, andb_false_r. reflexivity.
Qed.

Lemma lex_operator_printed op x r :
  (x =? 61) = false -> lex_operator (cmp_lucene op ++ x :: r) = Some (op, x :: r).
Proof.
  intros H. unfold lex_operator. destruct op; cbn; rewrite ?H; reflexivity.
Qed.

(* the string does not read as a number: NUM_VALUE does not match its escaped text *)
Definition numlike (s : bytes) : bool :=
  match s with
  | [] => false
  | c :: r => if c =? 45 then match r with d :: _ => is_digit d | [] => false end else is_digit c
  end.

Lemma digits_nondigit c r : is_digit c = false -> digits (c :: r) = ([], c :: r).
Proof. intros H. cbn. rewrite H. reflexivity. Qed.

Lemma num_value_escaped_none v rest :
  nonempty v = true -> numlike v = false -> stops rest = true -> num_value (lucene_escape v ++ rest) = None.
Proof.
  destruct v as [|c v]; [discriminate|]. intros _ NL S. cbn [numlike] in NL.
  unfold num_value. cbn [lucene_escape].
  destruct (N.eqb_spec c 45) as [->|Hc].
  - (* "\-" then not a digit *)
    change (lucene_special 45) with true. cbn [app].
    cbn [strip_prefix]. change (92 =? 45) with false. cbn [strip_prefix].
    rewrite !N.eqb_refl.
    destruct v as [|d v].
    + cbn [lucene_escape app]. destruct rest as [|x rest']; [reflexivity|].
      cbn [stops] in S. assert (is_digit x = false) as Dx.
      { destruct (is_digit x) eqn:D; [|reflexivity]. apply is_digit_spec in D.
        unfold stop_char in S. apply orb_true_iff in S as [S|S].
        - apply is_ws_cases in S. lia.
        - apply andb_true_iff in S as [S _]. apply andb_true_iff in S as [S _].
          unfold invalid_char in S. rewrite !orb_true_iff, !N.eqb_eq in S. lia. }
      rewrite digits_nondigit by exact Dx. reflexivity.
    + cbn [lucene_escape]. destruct (lucene_special d) eqn:Sd.
      * cbn [app]. rewrite digits_nondigit by reflexivity. reflexivity.
      * cbn [app]. rewrite digits_nondigit by exact NL. reflexivity.
  - destruct (lucene_special c) eqn:Sc.
    + cbn [app]. cbn [strip_prefix]. change (92 =? 45) with false. rewrite N.eqb_refl.
      apply N.eqb_neq in Hc. rewrite Hc. rewrite digits_nondigit by reflexivity. reflexivity.
    + cbn [app]. cbn [strip_prefix]. apply N.eqb_neq in Hc. rewrite Hc.
      rewrite (not_special_neq c 92 Sc eq_refl). rewrite digits_nondigit by exact NL. reflexivity.
Qed.

Lemma lex_numeric_term_escaped_none v rest :
  nonempty v = true -> numlike v = false -> stops rest = true ->
  lex_numeric_term (lucene_escape v ++ rest) = None.
Proof. intros. unfold lex_numeric_term. rewrite num_value_escaped_none; auto. Qed.

Lemma cmp_prefix_fails op X :
  alt_star (cmp_lucene op ++ X) = None /\ lex_phrase (cmp_lucene op ++ X) = None /\
  lex_term_prefix (cmp_lucene op ++ X) = None.
Proof. destruct op; repeat split; reflexivity. Qed.

(* a comparison with a string *)
Theorem parse_value_cmp_str op v rest :
  term_ok v = true -> numlike v = false -> term_end rest = true ->
  parse_value (cmp_lucene op ++ lucene_escape v ++ rest) = Some (PVCmp op false (lucene_escape v), rest).
Proof.
  intros T NL E. destruct (term_ok_parts v T) as (N & W & U & K).
  destruct (escaped_head v N W) as (c & r & Hv & Hc).
  rewrite parse_value_eq. destruct (cmp_prefix_fails op (lucene_escape v ++ rest)) as (-> & -> & ->).
  unfold parse_comparison.
  assert (lex_operator (cmp_lucene op ++ lucene_escape v ++ rest) = Some (op, lucene_escape v ++ rest)) as ->.
  { rewrite Hv. cbn [app]. apply lex_operator_printed. apply (head_ok_neq c 61 Hc eq_refl). discriminate. }
  rewrite (lex_numeric_term_escaped_none v rest N NL (term_end_stops rest E)).
  rewrite (lex_term_escaped v rest T (term_end_stops rest E)). reflexivity.
Qed.

Lemma term_end_num_stop rest : term_end rest = true -> num_stop rest = true.
Proof.
  destruct rest as [|c r]; [reflexivity|]. cbn [term_end num_stop]. intros H.
  apply orb_true_iff in H as [H|H]; [|apply N.eqb_eq in H; subst; reflexivity].
  apply orb_true_iff in H as [H|H]; [|apply N.eqb_eq in H; subst; reflexivity].
  apply orb_true_iff in H as [H|H]; [|apply N.eqb_eq in H; subst; reflexivity].
  apply is_ws_cases in H as [ -> | [ -> | [ -> | -> ] ] ]; reflexivity.
Qed.

(* a comparison with an integer *)
Theorem parse_value_cmp_int op z rest :
  term_end rest = true ->
  parse_value (cmp_lucene op ++ dec_of_Z z ++ rest) = Some (PVCmp op true (dec_of_Z z), rest).
Proof.
  intros E. rewrite parse_value_eq. destruct (cmp_prefix_fails op (dec_of_Z z ++ rest)) as (-> & -> & ->).
  unfold parse_comparison. destruct (dec_of_Z_head z) as (c & r & Hz & Hc).
  assert (lex_operator (cmp_lucene op ++ dec_of_Z z ++ rest) = Some (op, dec_of_Z z ++ rest)) as ->.
  { rewrite Hz. cbn [app]. apply lex_operator_printed.
    unfold int_char in Hc. apply orb_true_iff in Hc as [Hc|Hc].
    - apply is_digit_spec in Hc. apply N.eqb_neq. lia.
    - apply N.eqb_eq in Hc. subst. reflexivity. }
  rewrite (lex_numeric_term_dec z rest (term_end_num_stop rest E)). reflexivity.
Qed.

(* ---------- ranges ---------- *)

(* the characters RANGE_VALUE accepts *)
Definition range_char (c : N) : bool := negb (is_ws c || (c =? 93) || (c =? 125)).

Lemma range_chars_app t rest :
  forallb range_char t = true ->
  (match rest with [] => true | c :: _ => negb (range_char c) end) = true ->
  range_chars (t ++ rest) = (t, rest).
Proof.
  intros T R. induction t as [|c t IH].
  - destruct rest as [|c r]; [reflexivity|]. cbn [app range_chars].
    unfold range_char in R. rewrite negb_involutive in R. rewrite R. reflexivity.
  - cbn [forallb] in T. apply andb_true_iff in T as [Tc T]. cbn [app range_chars].
    unfold range_char in Tc. apply negb_true_iff in Tc. rewrite Tc, IH; auto.
Qed.

Lemma lex_range_value_app t rest :
  nonempty t = true -> forallb range_char t = true ->
  (match rest with [] => true | c :: _ => negb (range_char c) end) = true ->
  lex_range_value (t ++ rest) = Some (t, rest).
Proof.
  intros N T R. unfold lex_range_value. rewrite range_chars_app by auto.
  destruct t; [discriminate | reflexivity].
Qed.

Definition lbr (b : bool) : N := if b then 91 else 123.
Definition rbr (b : bool) : N := if b then 93 else 125.

Lemma range_first_char_not_ws t : nonempty t = true -> forallb range_char t = true -> skip t = t /\ forall x, skip (t ++ x) = t ++ x.
Proof.
  destruct t as [|c t]; [discriminate|]. intros _ T. cbn [forallb] in T. apply andb_true_iff in T as [Tc _].
  unfold range_char in Tc. apply negb_true_iff in Tc. apply orb_false_iff in Tc as [Tc _].
  apply orb_false_iff in Tc as [Tc _]. split; [|intros x]; apply skip_head; exact Tc.
Qed.

(* a range: both brackets of the same kind, bounds made of RANGE_VALUE characters *)
Theorem parse_value_range b lo hi rest :
  nonempty lo = true -> forallb range_char lo = true ->
  nonempty hi = true -> forallb range_char hi = true ->
  parse_value (lbr b :: lo ++ bs " TO " ++ hi ++ rbr b :: rest) = Some (PVRange b lo hi b, rest).
Proof.
  intros Nl Tl Nh Th. rewrite parse_value_eq.
  assert (alt_star (lbr b :: lo ++ bs " TO " ++ hi ++ rbr b :: rest) = None) as -> by (destruct b; reflexivity).
  assert (lex_phrase (lbr b :: lo ++ bs " TO " ++ hi ++ rbr b :: rest) = None) as -> by (destruct b; reflexivity).
  assert (lex_term_prefix (lbr b :: lo ++ bs " TO " ++ hi ++ rbr b :: rest) = None) as -> by (destruct b; reflexivity).
  assert (parse_comparison (lbr b :: lo ++ bs " TO " ++ hi ++ rbr b :: rest) = None) as -> by (destruct b; reflexivity).
  unfold parse_range.
  assert ((lbr b =? 91) || (lbr b =? 123) = true) as -> by (destruct b; reflexivity).
  destruct (range_first_char_not_ws lo Nl Tl) as [_ Sl]. destruct (range_first_char_not_ws hi Nh Th) as [_ Sh].
  rewrite Sl. rewrite (lex_range_value_app lo) by auto.
  change (skip (bs " TO " ++ hi ++ rbr b :: rest)) with (skip (bs "TO " ++ hi ++ rbr b :: rest)).
  change (bs "TO " ++ hi ++ rbr b :: rest) with (bs "TO" ++ 32 :: hi ++ rbr b :: rest).
  assert (skip (bs "TO" ++ 32 :: hi ++ rbr b :: rest) = bs "TO" ++ 32 :: hi ++ rbr b :: rest) as -> by reflexivity.
  rewrite strip_prefix_app.
  change (skip (32 :: hi ++ rbr b :: rest)) with (skip (hi ++ rbr b :: rest)). rewrite Sh.
  rewrite (lex_range_value_app hi) by (auto; destruct b; reflexivity).
  assert (skip (rbr b :: rest) = rbr b :: rest) as -> by (destruct b; reflexivity).
  destruct b; reflexivity.
Qed.

(* ---------- fields ---------- *)

Definition plain (s : bytes) : bool := forallb (fun c => negb (lucene_special c)) s.

(* text that is printed as it is and read back as one TERM *)
Definition raw_ok (a : bytes) : bool := term_ok a && plain a.

(* attribute names: raw_ok and not one of the two pseudo-fields *)
Definition attr_ok (a : bytes) : bool :=
  raw_ok a && negb (bytes_eqb a EXISTS_FIELD) && negb (bytes_eqb a MISSING_FIELD).

Lemma raw_ok_parts a : raw_ok a = true -> term_ok a = true /\ plain a = true /\ lucene_escape a = a /\ unescape a = a.
Proof.
  unfold raw_ok. intros H. apply andb_true_iff in H as [T P]. repeat split; auto.
  - apply lucene_escape_plain; exact P.
  - apply unescape_plain; exact P.
Qed.

Lemma raw_head a : raw_ok a = true -> exists c r, a = c :: r /\ head_ok c.
Proof.
  intros H. destruct (raw_ok_parts a H) as (T & P & E & _). destruct (term_ok_parts a T) as (N & W & _).
  destruct (escaped_head a N W) as (c & r & Hc & Hh). rewrite E in Hc. eauto.
Qed.

Lemma field_explicit a X : raw_ok a = true -> parse_field_opt (a ++ 58 :: X) = (Some a, X).
Proof.
  intros H. destruct (raw_ok_parts a H) as (T & P & E & _). unfold parse_field_opt.
  rewrite <- E at 1. rewrite (lex_term_escaped a (58 :: X) T eq_refl). rewrite E. reflexivity.
Qed.

Lemma field_none_of_lex s :
  (lex_term s = None \/ exists t r, lex_term s = Some (t, r) /\ (match r with c :: _ => (c =? 58) = false | [] => True end)) ->
  parse_field_opt s = (None, s).
Proof.
  unfold parse_field_opt. intros [->|(t & r & -> & H)]; [reflexivity|].
  destruct r as [|c r]; [reflexivity|]. rewrite H. reflexivity.
Qed.

Lemma term_end_not_colon rest : term_end rest = true -> match rest with c :: _ => (c =? 58) = false | [] => True end.
Proof.
  destruct rest as [|c r]; [auto|]. cbn [term_end]. intros H.
  apply orb_true_iff in H as [H|H]; [|apply N.eqb_eq in H; subst; reflexivity].
  apply orb_true_iff in H as [H|H]; [|apply N.eqb_eq in H; subst; reflexivity].
  apply orb_true_iff in H as [H|H]; [|apply N.eqb_eq in H; subst; reflexivity].
  apply is_ws_cases in H as [ -> | [ -> | [ -> | -> ] ] ]; reflexivity.
Qed.

(* ---------- clauses ---------- *)

Section Clause.
  Variable sub : bytes -> bytes -> option (list qitem * bytes).

  Lemma parse_clause_eq df s :
    parse_clause sub df s =
    match strip_prefix (bs "*:*") s with
    | Some r => Some (VOk NAll, r)
    | None =>
        let '(fld, r1) := parse_field_opt s in
        match parse_value (skip r1) with
        | Some (v, r2) => Some (clause_node (or_default fld df) v, r2)
        | None =>
            match strip_prefix [40] (skip r1) with
            | Some r2 =>
                match sub (or_default fld df) (skip r2) with
                | Some (items, r3) =>
                    match strip_prefix [41] (skip r3) with
                    | Some r4 => Some (fold_query (or_default fld df) items, r4)
                    | None => None
                    end
                | None => None
                end
            | None => None
            end
        end
    end.
  Proof. reflexivity. Qed.

  (* a printed `field? value` clause: the value text V (read back as pv) behind the optional field *)
  Lemma clause_leaf a V pv rest c0 r0 :
    raw_ok a = true ->
    V = c0 :: r0 -> is_ws c0 = false ->
    parse_value (V ++ rest) = Some (pv, rest) ->
    (bytes_eqb a DEFAULT_FIELD = true ->
       strip_prefix (bs "*:*") (V ++ rest) = None /\ parse_field_opt (V ++ rest) = (None, V ++ rest)) ->
    parse_clause sub DEFAULT_FIELD (is_default_attr a ++ V ++ rest) = Some (clause_node a pv, rest).
  Proof.
    intros Ha HV Hw Hpv Hdef. subst V. rewrite parse_clause_eq. unfold is_default_attr.
    destruct (bytes_eqb a DEFAULT_FIELD) eqn:D.
    - apply bytes_eqb_eq in D. subst a. destruct (Hdef eq_refl) as [M F]. cbn [app] in *. rewrite M, F.
      rewrite (skip_head c0 _ Hw), Hpv. reflexivity.
    - rewrite <- app_assoc. cbn [app] in *.
      destruct (raw_head a Ha) as (c & r & Ea & Hc).
      assert (strip_prefix (bs "*:*") (a ++ 58 :: c0 :: r0 ++ rest) = None) as ->.
      { rewrite Ea. cbn [app]. apply head_not_matchall; exact Hc. }
      rewrite (field_explicit a _ Ha). rewrite (skip_head c0 _ Hw), Hpv. reflexivity.
  Qed.

  Lemma clause_node_general a pv :
    attr_ok a = true ->
    clause_node a pv =
    match pv with
    | PVStar => if bytes_eqb a DEFAULT_FIELD then VOk NAll else VOk (NWild (unescape a) [42])
    | PVTerm t => VOk (NTerm (unescape a) (unescape t))
    | PVPhrase p => VOk (NQuoted (unescape a) (unescape p))
    | PVPrefix p => VOk (NPrefix (unescape a) (unescape p))
    | PVGlob g => VOk (NWild (unescape a) (unescape g))
    | PVRange lb lo hi rb =>
        if Bool.eqb lb rb then VOk (NRange (unescape a) (cval_from lo) lb (cval_from hi) rb) else VPanic
    | PVCmp op numeric raw =>
        VOk (NCmp (unescape a) op (if numeric then cval_from raw else CStr (unescape raw)))
    end.
  Proof.
    unfold attr_ok. intros H. apply andb_true_iff in H as [H M]. apply andb_true_iff in H as [_ E].
    apply negb_true_iff in E, M. unfold clause_node. rewrite E, M. reflexivity.
  Qed.

  Lemma attr_ok_raw a : attr_ok a = true -> raw_ok a = true.
  Proof. unfold attr_ok. intros H. apply andb_true_iff in H as [H _]. apply andb_true_iff in H as [H _]. exact H. Qed.

  Lemma attr_unescape a : attr_ok a = true -> unescape a = a.
  Proof. intros H. apply (raw_ok_parts a (attr_ok_raw a H)). Qed.

  Variable fdisp : spec_float -> bytes.

  (* --- term --- *)
  Theorem clause_term a v rest :
    attr_ok a = true -> term_ok v = true -> term_end rest = true ->
    parse_clause sub DEFAULT_FIELD (to_lucene fdisp (NTerm a v) ++ rest) = Some (VOk (NTerm a v), rest).
  Proof.
    intros A T E. cbn [to_lucene]. rewrite <- app_assoc.
    destruct (term_ok_parts v T) as (N & W & U & K). destruct (escaped_head v N W) as (c & r & Hv & Hc).
    rewrite (clause_leaf a (lucene_escape v) (PVTerm (lucene_escape v)) rest c r (attr_ok_raw a A) Hv
               (head_ok_not_ws c Hc) (parse_value_term v rest T E)).
    - rewrite clause_node_general by exact A. rewrite attr_unescape by exact A.
      rewrite unescape_lucene_escape. reflexivity.
    - intros _. split.
      + rewrite Hv. cbn [app]. apply head_not_matchall; exact Hc.
      + apply field_none_of_lex. right. exists (lucene_escape v), rest. split.
        * apply lex_term_escaped; auto. apply term_end_stops; exact E.
        * apply term_end_not_colon; exact E.
  Qed.

  (* --- quoted phrase: any phrase --- *)
  Theorem clause_quoted a v rest :
    attr_ok a = true ->
    parse_clause sub DEFAULT_FIELD (to_lucene fdisp (NQuoted a v) ++ rest) = Some (VOk (NQuoted a v), rest).
  Proof.
    intros A. cbn [to_lucene]. rewrite <- app_assoc.
    replace ((34 :: quoted_escape v ++ [34]) ++ rest) with ((34 :: quoted_escape v ++ [34]) ++ rest) by reflexivity.
    rewrite (clause_leaf a (34 :: quoted_escape v ++ [34]) (PVPhrase (quoted_escape v)) rest 34 (quoted_escape v ++ [34])
               (attr_ok_raw a A) eq_refl eq_refl).
    - rewrite clause_node_general by exact A. rewrite attr_unescape by exact A.
      rewrite unescape_quoted_escape. reflexivity.
    - cbn [app]. rewrite <- app_assoc. cbn [app]. apply parse_value_quoted.
    - intros _. split; reflexivity.
  Qed.

  (* --- prefix --- *)
  Theorem clause_prefix a v rest :
    attr_ok a = true -> term_ok v = true -> term_end rest = true ->
    parse_clause sub DEFAULT_FIELD (to_lucene fdisp (NPrefix a v) ++ rest) = Some (VOk (NPrefix a v), rest).
  Proof.
    intros A T E. cbn [to_lucene]. rewrite <- app_assoc.
    destruct (term_ok_parts v T) as (N & W & U & K). destruct (escaped_head v N W) as (c & r & Hv & Hc).
    assert (lucene_escape v ++ [42] = c :: (r ++ [42])) as HV by (rewrite Hv; reflexivity).
    rewrite (clause_leaf a (lucene_escape v ++ [42]) (PVPrefix (lucene_escape v)) rest c (r ++ [42])
               (attr_ok_raw a A) HV (head_ok_not_ws c Hc)).
    - rewrite clause_node_general by exact A. rewrite attr_unescape by exact A.
      rewrite unescape_lucene_escape. reflexivity.
    - rewrite <- app_assoc. cbn [app]. apply parse_value_prefix; auto.
    - intros _. split.
      + rewrite HV. cbn [app]. apply head_not_matchall; exact Hc.
      + apply field_none_of_lex. right. exists (lucene_escape v), (42 :: rest). split.
        * rewrite <- app_assoc. cbn [app]. apply lex_term_escaped; auto.
        * reflexivity.
  Qed.

  (* --- exists / missing: the attribute is printed raw --- *)
  Lemma clause_pseudo (F : bytes) (mk : bytes -> node) a rest :
    raw_ok F = true -> (forall t, clause_node F (PVTerm t) = VOk (mk (unescape t))) ->
    raw_ok a = true -> term_end rest = true ->
    parse_clause sub DEFAULT_FIELD ((F ++ [58]) ++ a ++ rest) = Some (VOk (mk a), rest).
  Proof.
    intros HF Hmk Ha E. rewrite parse_clause_eq. rewrite <- app_assoc. cbn [app].
    destruct (raw_head F HF) as (c & r & EF & Hc).
    assert (strip_prefix (bs "*:*") (F ++ 58 :: a ++ rest) = None) as ->.
    { rewrite EF. cbn [app]. apply head_not_matchall; exact Hc. }
    rewrite (field_explicit F _ HF).
    destruct (raw_head a Ha) as (c' & r' & Ea & Hc'). destruct (raw_ok_parts a Ha) as (T & P & El & Eu).
    assert (skip (a ++ rest) = a ++ rest) as ->.
    { rewrite Ea. cbn [app]. apply head_skip; exact Hc'. }
    rewrite <- El at 1. rewrite (parse_value_term a rest T E). rewrite El.
    cbn [or_default]. rewrite Hmk, Eu. reflexivity.
  Qed.

  Theorem clause_exists a rest :
    raw_ok a = true -> term_end rest = true ->
    parse_clause sub DEFAULT_FIELD (to_lucene fdisp (NExists a) ++ rest) = Some (VOk (NExists a), rest).
  Proof.
    intros Ha E. cbn [to_lucene]. change (bs "_exists_:") with (EXISTS_FIELD ++ [58]).
    apply (clause_pseudo EXISTS_FIELD NExists); auto.
  Qed.

  Theorem clause_missing a rest :
    raw_ok a = true -> term_end rest = true ->
    parse_clause sub DEFAULT_FIELD (to_lucene fdisp (NMissing a) ++ rest) = Some (VOk (NMissing a), rest).
  Proof.
    intros Ha E. cbn [to_lucene]. change (bs "_missing_:") with (MISSING_FIELD ++ [58]).
    apply (clause_pseudo MISSING_FIELD NMissing); auto.
  Qed.

  Theorem clause_all rest :
    parse_clause sub DEFAULT_FIELD (to_lucene fdisp NAll ++ rest) = Some (VOk NAll, rest).
  Proof. reflexivity. Qed.

  (* --- comparisons --- *)
  Theorem clause_cmp_str a op v rest :
    attr_ok a = true -> term_ok v = true -> numlike v = false -> term_end rest = true ->
    parse_clause sub DEFAULT_FIELD (to_lucene fdisp (NCmp a op (CStr v)) ++ rest) = Some (VOk (NCmp a op (CStr v)), rest).
  Proof.
    intros A T NL E. cbn [to_lucene cval_lucene]. rewrite <- app_assoc.
    destruct (cmp_head op) as (c & r & Hop & Hc).
    assert (cmp_lucene op ++ lucene_escape v = c :: (r ++ lucene_escape v)) as HV by (rewrite Hop; reflexivity).
    rewrite (clause_leaf a (cmp_lucene op ++ lucene_escape v) (PVCmp op false (lucene_escape v)) rest c _
               (attr_ok_raw a A) HV).
    - rewrite clause_node_general by exact A. rewrite attr_unescape by exact A.
      rewrite unescape_lucene_escape. reflexivity.
    - destruct Hc as [->| ->]; reflexivity.
    - rewrite <- app_assoc. apply parse_value_cmp_str; auto.
    - intros _. rewrite HV. destruct Hc as [->| ->]; split; reflexivity.
  Qed.

  (* a numeric bound: its text t reads back as cv, is one NUMERIC_TERM and is made of RANGE_VALUE characters *)
  Definition num_text_ok (t : bytes) (cv : cval) : Prop :=
    cval_from t = cv /\ forallb range_char t = true /\ (exists c r, t = c :: r /\ int_char c = true) /\
    (forall rest, term_end rest = true -> lex_numeric_term (t ++ rest) = Some (t, rest)).

  Lemma int_char_range c : int_char c = true -> range_char c = true.
  Proof.
    unfold int_char, range_char. intros H. apply orb_true_iff in H as [H|H].
    - apply is_digit_spec in H. apply negb_true_iff. unfold is_ws.
      rewrite !orb_false_iff, !N.eqb_neq. repeat split; lia.
    - apply N.eqb_eq in H. subst. reflexivity.
  Qed.

  Lemma int_text_ok z : i64_range z = true -> num_text_ok (dec_of_Z z) (CInt z).
  Proof.
    intros R. repeat split.
    - apply cval_from_dec; exact R.
    - pose proof (dec_of_Z_chars z) as H. rewrite forallb_forall in *. intros c Hc. apply int_char_range; auto.
    - destruct (dec_of_Z_head z) as (c & r & E & Hc). eauto.
    - intros rest E. apply lex_numeric_term_dec. apply term_end_num_stop; exact E.
  Qed.

  Lemma clause_cmp_num a op t cv rest :
    attr_ok a = true -> num_text_ok t cv -> term_end rest = true ->
    parse_clause sub DEFAULT_FIELD ((is_default_attr a ++ cmp_lucene op ++ t) ++ rest) = Some (VOk (NCmp a op cv), rest).
  Proof.
    intros A (Hcv & _ & (c' & r' & Et & Hc') & Hlex) E. rewrite <- app_assoc.
    destruct (cmp_head op) as (c & r & Hop & Hc).
    assert (cmp_lucene op ++ t = c :: (r ++ t)) as HV by (rewrite Hop; reflexivity).
    rewrite (clause_leaf a (cmp_lucene op ++ t) (PVCmp op true t) rest c _ (attr_ok_raw a A) HV).
    - rewrite clause_node_general by exact A. rewrite attr_unescape by exact A. rewrite Hcv. reflexivity.
    - destruct Hc as [->| ->]; reflexivity.
    - rewrite <- app_assoc. rewrite parse_value_eq.
      destruct (cmp_prefix_fails op (t ++ rest)) as (-> & -> & ->). unfold parse_comparison.
      assert (lex_operator (cmp_lucene op ++ t ++ rest) = Some (op, t ++ rest)) as ->.
      { rewrite Et. cbn [app]. apply lex_operator_printed.
        unfold int_char in Hc'. apply orb_true_iff in Hc' as [Hd|Hd].
        - apply is_digit_spec in Hd. apply N.eqb_neq. lia.
        - apply N.eqb_eq in Hd. subst. reflexivity. }
      rewrite (Hlex rest E). reflexivity.
    - intros _. rewrite HV. destruct Hc as [->| ->]; split; reflexivity.
  Qed.

  Theorem clause_cmp_int a op z rest :
    attr_ok a = true -> i64_range z = true -> term_end rest = true ->
    parse_clause sub DEFAULT_FIELD (to_lucene fdisp (NCmp a op (CInt z)) ++ rest) = Some (VOk (NCmp a op (CInt z)), rest).
  Proof. intros A R E. cbn [to_lucene cval_lucene]. apply clause_cmp_num; auto. apply int_text_ok; exact R. Qed.

  (* --- floats: the Display text of the float is a hypothesis --- *)
  Variable fok : spec_float -> bool.
  Hypothesis Hfloat : forall f, fok f = true -> num_text_ok (fdisp f) (CFloat f).

  Theorem clause_cmp_float a op f rest :
    attr_ok a = true -> fok f = true -> term_end rest = true ->
    parse_clause sub DEFAULT_FIELD (to_lucene fdisp (NCmp a op (CFloat f)) ++ rest) = Some (VOk (NCmp a op (CFloat f)), rest).
  Proof. intros A R E. cbn [to_lucene cval_lucene]. apply clause_cmp_num; auto. Qed.

  (* --- ranges --- *)
  Definition is_none {A} (o : option A) : bool := match o with None => true | Some _ => false end.

  (* a string bound: RANGE_VALUE characters, and not re-read as `*`, a number or a quoted string *)
  Definition str_bound_ok (s : bytes) : bool :=
    nonempty s && forallb range_char s && bytes_eqb (escape_quotes s) s && negb (bytes_eqb s [42])
    && is_none (parse_i64 s) && is_none (parse_f64 s).

  Definition bound_ok (cv : cval) : bool :=
    match cv with
    | CUnb => true
    | CInt z => i64_range z
    | CStr s => str_bound_ok s
    | CFloat f => fok f
    end.

  Lemma escape_range_chars s : forallb range_char s = true -> forallb range_char (lucene_escape s) = true.
  Proof.
    induction s as [|c s IH]; [reflexivity|]. cbn [forallb lucene_escape]. intros H.
    apply andb_true_iff in H as [Hc H]. destruct (lucene_special c); cbn [forallb]; rewrite ?Hc, IH; auto.
  Qed.

  Lemma escape_nonempty s : nonempty s = true -> nonempty (lucene_escape s) = true.
  Proof. destruct s as [|c s]; [discriminate|]. intros _. cbn. destruct (lucene_special c); reflexivity. Qed.

  Lemma bound_text cv :
    bound_ok cv = true ->
    cval_from (cval_lucene fdisp cv) = cv /\ nonempty (cval_lucene fdisp cv) = true /\
    forallb range_char (cval_lucene fdisp cv) = true.
  Proof.
    destruct cv as [|s|z|f]; cbn [bound_ok cval_lucene]; intros H.
    - repeat split.
    - unfold str_bound_ok in H. apply andb_true_iff in H as [H F]. apply andb_true_iff in H as [H I].
      apply andb_true_iff in H as [H S]. apply andb_true_iff in H as [H Q]. apply andb_true_iff in H as [N R].
      repeat split; [|apply escape_nonempty; exact N | apply escape_range_chars; exact R].
      unfold cval_from. rewrite unescape_lucene_escape. apply bytes_eqb_eq in Q. rewrite Q.
      apply negb_true_iff in S. rewrite S.
      destruct (parse_i64 s); [discriminate|]. destruct (parse_f64 s); [discriminate|]. reflexivity.
    - destruct (int_text_ok z H) as (A & B & (c & r & E & _) & _). repeat split; auto. rewrite E. reflexivity.
    - destruct (Hfloat f H) as (A & B & (c & r & E & _) & _). repeat split; auto. rewrite E. reflexivity.
  Qed.

  Theorem clause_range a lo hi b rest :
    attr_ok a = true -> bound_ok lo = true -> bound_ok hi = true ->
    parse_clause sub DEFAULT_FIELD (to_lucene fdisp (NRange a lo b hi b) ++ rest) = Some (VOk (NRange a lo b hi b), rest).
  Proof.
    intros A Hlo Hhi. destruct (bound_text lo Hlo) as (Cl & Nl & Rl). destruct (bound_text hi Hhi) as (Ch & Nh & Rh).
    cbn [to_lucene]. rewrite <- app_assoc.
    set (LO := cval_lucene fdisp lo) in *. set (HI := cval_lucene fdisp hi) in *.
    assert ((if b then [91] else [123]) ++ LO ++ bs " TO " ++ HI ++ (if b then [93] else [125])
            = lbr b :: (LO ++ bs " TO " ++ HI ++ [rbr b])) as HV by (destruct b; reflexivity).
    rewrite (clause_leaf a _ (PVRange b LO HI b) rest (lbr b) _ (attr_ok_raw a A) HV).
    - rewrite clause_node_general by exact A. rewrite attr_unescape by exact A.
      rewrite Bool.eqb_reflx, Cl, Ch. reflexivity.
    - destruct b; reflexivity.
    - rewrite HV. cbn [app]. rewrite <- !app_assoc. cbn [app].
      replace (LO ++ bs " TO " ++ HI ++ rbr b :: rest) with (LO ++ bs " TO " ++ HI ++ rbr b :: rest) by reflexivity.
      apply parse_value_range; auto.
    - intros _. rewrite HV. destruct b; split; reflexivity.
  Qed.
End Clause.
