(* Closed (axiom-free) facts about the model of the numeric stdlib functions, Model/NumFns.v:
     abs (integers, floats, the panic at i64::MIN), mod on integers, the exact (sign, mantissa, exponent) models of
     f64::floor / ceil / round and of `f64 as i64`, parse_int / to_int after to_string on every i64.
   Everything here is integer arithmetic on mantissas; no real numbers, no Flocq. *)
From Coq Require Import List NArith ZArith Bool Lia Zpower.
From Coq Require Import Floats.SpecFloat.
From VRL Require Import Base.Bytes Base.Value Base.Lit Model.ConvRes Model.Arith Model.IntText Model.NumFns.
From VRL Require Import Proofs.ArithProofs Proofs.IntTextProofs.
Import ListNotations.
Local Open Scope Z_scope.

(* ---------- abs ---------- *)

Lemma abs_int z : abs_fn (VInt z) = ROk (VInt (wrapping_abs z)).
Proof. reflexivity. Qed.

(* the former finding C29-abs-min (a panic before /repo b0e107f): the minimum integer now wraps to itself *)
Lemma abs_int_min : abs_fn (VInt i64_min) = ROk (VInt i64_min).
Proof. reflexivity. Qed.

Lemma abs_in_range z : ConvRes.in_i64 z = true -> z <> i64_min ->
  ConvRes.in_i64 (Z.abs z) = true /\ 0 <= Z.abs z /\ (Z.abs z = z \/ Z.abs z = - z).
Proof.
  unfold ConvRes.in_i64, i64_min, i64_max. intros H Hm.
  apply andb_true_iff in H. destruct H as [H1 H2]. apply Z.leb_le in H1. apply Z.leb_le in H2.
  split; [|lia]. apply andb_true_iff. split; apply Z.leb_le; lia.
Qed.

(* wrapping_abs is abs everywhere except at the minimum, where it returns the minimum *)
Lemma wrapping_abs_spec z : ConvRes.in_i64 z = true ->
  wrapping_abs z = if z =? i64_min then i64_min else Z.abs z.
Proof.
  unfold ConvRes.in_i64, i64_min, i64_max, wrapping_abs. intros H.
  apply andb_true_iff in H. destruct H as [H1 H2]. apply Z.leb_le in H1. apply Z.leb_le in H2.
  destruct (Z.eqb_spec z (- 2 ^ 63)) as [->|Hne].
  - reflexivity.
  - apply wrap64_id. unfold Arith.in_i64, two63. lia.
Qed.

(* float abs: the sign is cleared, nothing else changes; a float held by a value is not NaN *)
Lemma abs_float f : f_is_nan f = false ->
  abs_fn (VFloat f) = ROk (VFloat (SFabs f))
  /\ match f, SFabs f with
     | S754_finite _ m e, S754_finite s' m' e' => s' = false /\ m' = m /\ e' = e
     | S754_zero _, S754_zero s' => s' = false
     | S754_infinity _, S754_infinity s' => s' = false
     | _, _ => False
     end.
Proof. destruct f; cbn; intros H; try discriminate; auto. Qed.

Lemma abs_other v : (match v with VInt _ | VFloat _ => False | _ => True end) -> abs_fn v = RErr.
Proof. destruct v; cbn; tauto. Qed.

(* ---------- mod ---------- *)

Lemma mod_int a b : b <> 0 ->
  mod_fn (VInt a) (VInt b) = ROk (VInt (Z.rem a b))
  /\ a = b * Z.quot a b + Z.rem a b /\ Z.abs (Z.rem a b) < Z.abs b /\ 0 <= Z.rem a b * a
  /\ (Arith.in_i64 a -> Arith.in_i64 (Z.rem a b)).
Proof.
  intros Hb. destruct (int_rem a b Hb) as (H1 & H2). split; [|exact H2].
  unfold mod_fn. rewrite H1. reflexivity.
Qed.

Lemma mod_int_zero a : mod_fn (VInt a) (VInt 0) = RErr.
Proof. reflexivity. Qed.

Lemma mod_zero_divisor x y : divisor_is_zero y = true -> mod_fn x y = RErr.
Proof.
  intros H. unfold mod_fn. apply (proj2 (rem_zero_iff x y)) in H. rewrite H. reflexivity.
Qed.

(* ---------- digits ---------- *)

Lemma digits2_pos_bounds p : 2 ^ (Zpos (digits2_pos p) - 1) <= Zpos p < 2 ^ (Zpos (digits2_pos p)).
Proof.
  induction p as [p IH|p IH|]; cbn [digits2_pos].
  - rewrite Pos2Z.inj_succ. replace (Z.succ (Zpos (digits2_pos p)) - 1) with (Z.succ (Zpos (digits2_pos p) - 1)) by lia.
    rewrite !Z.pow_succ_r by lia. lia.
  - rewrite Pos2Z.inj_succ. replace (Z.succ (Zpos (digits2_pos p)) - 1) with (Z.succ (Zpos (digits2_pos p) - 1)) by lia.
    rewrite !Z.pow_succ_r by lia. lia.
  - cbn. lia.
Qed.

Lemma digits2_pos_shift k p : digits2_pos (shift_pos k p) = (digits2_pos p + k)%positive.
Proof.
  unfold shift_pos. revert p. induction k using Pos.peano_ind; intros p.
  - cbn. lia.
  - rewrite Pos.iter_succ. cbn [digits2_pos]. rewrite IHk. lia.
Qed.

Lemma Zpos_shift_pos k p : Zpos (shift_pos k p) = Zpos p * 2 ^ Zpos k.
Proof. rewrite shift_pos_correct. change (Z.pow_pos 2 k) with (2 ^ Zpos k). lia. Qed.

(* ---------- sf_of_small_int: exact and canonical ---------- *)

Lemma small_int_value s n : 0 <= n < 2 ^ 53 -> f_int_value (sf_of_small_int s n) = Some (cond_Zopp s n).
Proof.
  intros [Hn0 Hn]. destruct n as [|p|p]; [destruct s; reflexivity| |lia].
  unfold sf_of_small_int. cbn [Zdigits2].
  pose proof (digits2_pos_bounds p) as [Hlo Hhi].
  destruct (53 - Zpos (digits2_pos p)) as [|k|k] eqn:E.
  - cbn [f_int_value]. cbn [Z.leb Z.compare]. rewrite Z.pow_0_r, Z.mul_1_r. reflexivity.
  - cbn [f_int_value].
    replace (Zpos (digits2_pos p) - 53) with (Zneg k) by lia.
    cbn [Z.leb Z.compare Z.opp]. rewrite Zpos_shift_pos.
    assert (0 < 2 ^ Zpos k) by (apply Z.pow_pos_nonneg; lia).
    rewrite Z.mod_mul by lia. cbn [Z.eqb]. rewrite Z.div_mul by lia. reflexivity.
  - exfalso. assert (2 ^ 53 <= 2 ^ (Zpos (digits2_pos p) - 1)) by (apply Z.pow_le_mono_r; lia). lia.
Qed.

Lemma small_int_valid s n : 0 <= n < 2 ^ 53 -> valid_binary fprec femax (sf_of_small_int s n) = true.
Proof.
  intros [Hn0 Hn]. destruct n as [|p|p]; [reflexivity| |lia].
  unfold sf_of_small_int. cbn [Zdigits2].
  pose proof (digits2_pos_bounds p) as [Hlo Hhi].
  destruct (53 - Zpos (digits2_pos p)) as [|k|k] eqn:E.
  - cbn [valid_binary]. unfold bounded, canonical_mantissa, fexp, emin.
    replace (Zpos (digits2_pos p)) with 53 by lia. reflexivity.
  - cbn [valid_binary]. unfold bounded, canonical_mantissa, fexp, emin.
    rewrite digits2_pos_shift. rewrite Pos2Z.inj_add.
    replace (Zpos (digits2_pos p) + Zpos k + (Zpos (digits2_pos p) - 53)) with (Zpos (digits2_pos p)) by lia.
    apply andb_true_iff. split.
    + apply Zeq_is_eq_bool. lia.
    + apply Z.leb_le. lia.
  - exfalso. assert (2 ^ 53 <= 2 ^ (Zpos (digits2_pos p) - 1)) by (apply Z.pow_le_mono_r; lia). lia.
Qed.

Lemma small_int_sign s n : 0 <= n < 2 ^ 53 ->
  match sf_of_small_int s n with
  | S754_zero s' | S754_finite s' _ _ => s' = s
  | _ => False
  end.
Proof.
  intros [Hn0 Hn]. destruct n as [|p|p]; [reflexivity| |lia].
  unfold sf_of_small_int. cbn [Zdigits2].
  pose proof (digits2_pos_bounds p) as [Hlo Hhi].
  destruct (53 - Zpos (digits2_pos p)) as [|k|k] eqn:E; [reflexivity|reflexivity|].
  exfalso. assert (2 ^ 53 <= 2 ^ (Zpos (digits2_pos p) - 1)) by (apply Z.pow_le_mono_r; lia). lia.
Qed.

(* ---------- f64::floor / ceil / round on (sign, mantissa, exponent) ---------- *)

(* the magnitude chosen stays below 2^53 *)
Lemma rint_mag_bound k s m e : e < 0 -> Zpos m < 2 ^ 53 ->
  0 <= rint_mag k s (Zpos m / 2 ^ (- e)) (Zpos m mod 2 ^ (- e)) (2 ^ (- e)) < 2 ^ 53.
Proof.
  intros He Hm.
  assert (HD : 2 <= 2 ^ (- e)).
  { change 2 with (2 ^ 1) at 1. apply Z.pow_le_mono_r; lia. }
  pose proof (Z.div_mod (Zpos m) (2 ^ (- e)) ltac:(lia)) as Hdm.
  pose proof (Z.mod_pos_bound (Zpos m) (2 ^ (- e)) ltac:(lia)) as Hr.
  assert (0 <= Zpos m / 2 ^ (- e)) by (apply Z.div_pos; lia).
  assert (2 * (Zpos m / 2 ^ (- e)) <= Zpos m) by nia.
  change (2 ^ 53) with 9007199254740992 in *.
  unfold rint_mag. destruct k, s; repeat (match goal with |- context [if ?c then _ else _] => destruct c end); lia.
Qed.

(* The result of floor / ceil / round on a finite x = M / D (M = +-m, D = 2^(-e), e < 0) is the float whose exact value is
   the integer n with  floor: n <= x < n + 1;  ceil: n - 1 < x <= n;  round: |x - n| <= 1/2, ties away from zero.
   All inequalities multiplied by D. *)
Theorem f_rint_spec k s m e : e < 0 -> Zpos m < 2 ^ 53 ->
  exists n, f_int_value (f_rint k (S754_finite s m e)) = Some n
    /\ valid_binary fprec femax (f_rint k (S754_finite s m e)) = true
    /\ let M := cond_Zopp s (Zpos m) in
       let D := 2 ^ (- e) in
       match k with
       | KFloor => n * D <= M < (n + 1) * D
       | KCeil => (n - 1) * D < M <= n * D
       | KRound => 2 * Z.abs (M - n * D) <= D /\ (2 * Z.abs (M - n * D) = D -> Z.abs M < Z.abs (n * D))
       end.
Proof.
  intros He Hm. pose proof (rint_mag_bound k s m e He Hm) as Hb.
  unfold f_rint. replace (0 <=? e) with false by (symmetry; apply Z.leb_gt; exact He).
  set (D := 2 ^ (- e)) in *. set (q := Zpos m / D) in *. set (r := Zpos m mod D) in *.
  exists (cond_Zopp s (rint_mag k s q r D)). split; [apply small_int_value; exact Hb|].
  split; [apply small_int_valid; exact Hb|].
  assert (HD : 0 < D) by (apply Z.pow_pos_nonneg; lia).
  assert (Hdm : Zpos m = D * q + r) by (apply Z.div_mod; lia).
  assert (Hr : 0 <= r < D) by (apply Z.mod_pos_bound; lia).
  clearbody D q r. clear Hb. cbv zeta.
  unfold rint_mag. destruct k, s; cbn [cond_Zopp];
    repeat (match goal with
            | |- context [if ?a =? ?b then _ else _] => destruct (Z.eqb_spec a b)
            | |- context [if ?a <=? ?b then _ else _] => destruct (Z.leb_spec a b)
            end); cbn [cond_Zopp]; try nia.
Qed.

(* a finite float with a non-negative exponent is an integer already; zeros and infinities are unchanged *)
Lemma f_rint_integer k s m e : 0 <= e -> f_rint k (S754_finite s m e) = S754_finite s m e.
Proof. intros He. unfold f_rint. apply Z.leb_le in He. rewrite He. reflexivity. Qed.

Lemma f_rint_special k f : (match f with S754_finite _ _ _ => False | _ => True end) -> f_rint k f = f.
Proof. destruct f; cbn; tauto. Qed.

(* the sign of the argument is kept (ceil(-0.5) = -0.0, round(-0.2) = -0.0) *)
Lemma f_rint_sign k s m e : Zpos m < 2 ^ 53 ->
  match f_rint k (S754_finite s m e) with
  | S754_zero s' | S754_finite s' _ _ => s' = s
  | _ => False
  end.
Proof.
  intros Hm. unfold f_rint. destruct (Z.leb_spec 0 e) as [He|He]; [reflexivity|].
  pose proof (rint_mag_bound k s m e He Hm) as Hb.
  exact (small_int_sign s _ Hb).
Qed.

(* ---------- `f64 as i64` ---------- *)

Lemma f_to_i64_range f : ConvRes.in_i64 (f_to_i64 f) = true.
Proof.
  unfold ConvRes.in_i64. apply andb_true_iff.
  destruct f as [s|s| |s m e]; cbn [f_to_i64]; try destruct s; split; apply Z.leb_le; unfold i64_min, i64_max; lia.
Qed.

(* inside the i64 range the conversion truncates towards zero: with x = M / D,  |n| <= |x| < |n| + 1 and n x >= 0 *)
Theorem f_to_i64_trunc s m e :
  let M := cond_Zopp s (Zpos m * (if 0 <=? e then 2 ^ e else 1)) in
  let D := if 0 <=? e then 1 else 2 ^ (- e) in
  let n := f_to_i64 (S754_finite s m e) in
  Z.abs M < 2 ^ 63 * D ->
  Z.abs n * D <= Z.abs M < (Z.abs n + 1) * D /\ 0 <= n * M.
Proof.
  cbv zeta. unfold f_to_i64. destruct (Z.leb_spec 0 e) as [He|He].
  - intros H. unfold i64_min, i64_max. set (a := Zpos m * 2 ^ e) in *.
    assert (0 < a) by (apply Z.mul_pos_pos; [lia | apply Z.pow_pos_nonneg; lia]).
    destruct s; cbn [cond_Zopp] in *; nia.
  - intros H. set (D := 2 ^ (- e)) in *.
    assert (HD : 0 < D) by (apply Z.pow_pos_nonneg; lia).
    pose proof (Z.div_mod (Zpos m) D ltac:(lia)) as Hdm.
    pose proof (Z.mod_pos_bound (Zpos m) D ltac:(lia)) as Hr.
    assert (0 <= Zpos m / D) by (apply Z.div_pos; lia).
    rewrite Z.mul_1_r in *. unfold i64_min, i64_max.
    set (q := Zpos m / D) in *. set (r := Zpos m mod D) in *.
    assert (q < 2 ^ 63) by (destruct s; cbn [cond_Zopp] in H; nia).
    clearbody q r D. destruct s; cbn [cond_Zopp] in *; nia.
Qed.

(* ---------- integers and their text ---------- *)

Lemma int_to_string_format z : res_bind (int_to_string z) (fun s => ROk s) = format_radix z 10.
Proof.
  unfold int_to_string, format_radix. destruct (digits_loop 64 10 (Z.abs z) []); reflexivity.
Qed.

(* to_string on an integer never fails, and both integer parsers read the text back: every i64, i64::MIN included *)
Theorem int_text_roundtrip fmt_f64 fmt_ts z : ConvRes.in_i64 z = true ->
  exists s, to_string fmt_f64 fmt_ts (VInt z) = ROk (VBytes s)
            /\ parse_int (VBytes s) None = ROk (VInt z)
            /\ to_int (VBytes s) = ROk (VInt z).
Proof.
  intros Hz. pose proof (int_to_string_format z) as Hf.
  destruct (format_radix_roundtrip 10 z ltac:(lia) Hz) as (s & Hs & Hp).
  destruct (int_roundtrip_default z Hz) as (s' & Hs' & Hp').
  assert (s' = s) as ->.
  { unfold format_int_opt, format_int in Hs'. change ((2 <=? 10) && (10 <=? 36)) with true in Hs'. cbv iota in Hs'.
    rewrite Hs in Hs'. cbn [res_bind] in Hs'. congruence. }
  exists s. unfold to_string. rewrite Hs in Hf.
  destruct (int_to_string z) as [s0| | |]; cbn [res_bind] in Hf; try discriminate.
  inversion Hf; subst s0. cbn [res_bind]. split; [reflexivity|]. split; [exact Hp'|].
  unfold to_int, parse_i64. rewrite Hp. reflexivity.
Qed.

(* ---------- abs on every i64 ---------- *)

(* the result is always an i64; it is |z| except at the minimum integer, which wraps to itself *)
Lemma abs_total z : ConvRes.in_i64 z = true ->
  abs_fn (VInt z) = ROk (VInt (wrap64 (Z.abs z)))
  /\ ConvRes.in_i64 (wrap64 (Z.abs z)) = true
  /\ (z <> i64_min -> wrap64 (Z.abs z) = Z.abs z /\ 0 <= Z.abs z)
  /\ (z = i64_min -> wrap64 (Z.abs z) = i64_min).
Proof.
  intros Hz. split; [reflexivity|].
  pose proof (wrapping_abs_spec z Hz) as Hw. unfold wrapping_abs in Hw.
  split; [|split].
  - destruct (Z.eqb_spec z i64_min) as [->|Hne]; rewrite Hw; [reflexivity|].
    apply (abs_in_range z Hz Hne).
  - intros Hne. destruct (Z.eqb_spec z i64_min) as [E|_]; [contradiction|]. split; [exact Hw | lia].
  - intros ->. reflexivity.
Qed.
