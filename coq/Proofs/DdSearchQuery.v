(* Proofs about Model/DdSearch.v (C30), part 4: the query level — negation, AND / OR lists, groups —
   and the round trip of whole trees. *)
From Coq Require Import String List NArith ZArith Bool Lia PeanoNat.
From Coq Require Import Floats.SpecFloat.
From VRL Require Import Base.Bytes Base.Value Base.Lit Model.DdNode Model.DdSearch
  Proofs.DdSearchProofs Proofs.DdSearchNum Proofs.DdSearchRT.
Import ListNotations.
Local Open Scope N_scope.

(* ---------- which trees ---------- *)

Definition is_none_node (n : node) : bool := match n with NNone => true | _ => false end.
Definition is_not_all (n : node) : bool := match n with NNot NAll => true | _ => false end.
Definition is_not_not (n : node) : bool := match n with NNot (NNot _) => true | _ => false end.

Section Safe.
  Variable fok : spec_float -> bool.

  Definition cmp_val_ok (cv : cval) : bool :=
    match cv with
    | CUnb => false
    | CInt z => i64_range z
    | CStr s => term_ok s && negb (numlike s)
    | CFloat f => fok f
    end.

  (* the leaves whose text is read back as the same clause *)
  Definition leaf_ok (n : node) : bool :=
    match n with
    | NAll => true
    | NExists a | NMissing a => raw_ok a
    | NTerm a v | NPrefix a v => attr_ok a && term_ok v
    | NQuoted a _ => attr_ok a
    | NCmp a _ cv => attr_ok a && cmp_val_ok cv
    | NRange a lo li hi ui => attr_ok a && Bool.eqb li ui && bound_ok fok lo && bound_ok fok hi
    | _ => false
    end.

  (* safe n: n printed as a whole (sub)query is read back as n (NNot NAll as NNone).
     Under a NOT / as an item of a list: not NNone, not NNot NAll (a parenthesised "NOT *:*" is folded
     to NNone); as an AND item moreover not a double negation (printed "NOT NOT x"). *)
  Fixpoint safe (n : node) : bool :=
    match n with
    | NNone => true
    | NNot m => negb (is_none_node m) && negb (is_not_all m) && safe m
    | NBool op ns =>
        (2 <=? List.length ns)%nat &&
        (fix go (l : list node) : bool :=
           match l with
           | [] => true
           | x :: r =>
               negb (is_none_node x) && safe x
               && (match op with BAnd => negb (is_not_not x) | BOr => true end)
               && go r
           end) ns
    | _ => leaf_ok n
    end.

  Definition item_ok (op : bop) (x : node) : bool :=
    negb (is_none_node x) && safe x && (match op with BAnd => negb (is_not_not x) | BOr => true end).

  Lemma safe_bool op ns : safe (NBool op ns) = (2 <=? List.length ns)%nat && forallb (item_ok op) ns.
  Proof.
    cbn [safe]. apply f_equal. induction ns as [|x r IH]; [reflexivity|]. cbn [forallb]. unfold item_ok at 1.
    rewrite <- IH. reflexivity.
  Qed.
End Safe.

(* paren nesting *)
Fixpoint depth (n : node) : nat :=
  match n with
  | NNot m => S (depth m)
  | NBool _ ns => S ((fix go (l : list node) : nat := match l with [] => O | x :: r => Nat.max (depth x) (go r) end) ns)
  | _ => O
  end.

Lemma depth_bool op ns : depth (NBool op ns) = S (fold_right (fun x m => Nat.max (depth x) m) O ns).
Proof. cbn [depth]. apply f_equal. induction ns as [|x r IH]; [reflexivity|]. cbn. rewrite IH. reflexivity. Qed.

(* ---------- the printed forms ---------- *)

Section Print.
  Variable fdisp : spec_float -> bytes.
  Notation tl := (to_lucene fdisp).

  (* how a node is printed after "NOT " or as an item: NOT-nodes and lists in parentheses *)
  Definition wrapped (n : node) : bytes :=
    if is_not_node n || is_bool_node n then paren (tl n) else tl n.

  (* an item of a list *)
  Definition item_text (n : node) : bytes :=
    match n with
    | NNot m => bs "NOT " ++ wrapped m
    | _ => wrapped n
    end.

  Lemma tl_not m : tl (NNot m) = bs "NOT " ++ wrapped m.
  Proof. cbn [to_lucene]. unfold wrapped. destruct (is_not_node m || is_bool_node m); reflexivity. Qed.

  Definition sep (op : bop) : bytes := match op with BAnd => bs " AND " | BOr => bs " OR " end.

  Fixpoint items_text (op : bop) (ns : list node) : bytes :=
    match ns with
    | [] => []
    | x :: r => sep op ++ item_text x ++ items_text op r
    end.

  Lemma and_item_text x :
    is_not_not x = false ->
    (match x with
     | NNot m => bs "NOT " ++ (if is_bool_node m then paren (tl m) else tl m)
     | _ => if is_bool_node x then paren (tl x) else tl x
     end) = item_text x.
  Proof.
    intros H. destruct x; try reflexivity.
    cbn [item_text]. unfold wrapped. destruct x; try reflexivity. discriminate.
  Qed.

  Lemma or_item_text x :
    (if is_bool_node x then paren (tl x) else tl x) = item_text x.
  Proof.
    destruct x; try reflexivity. cbn [is_bool_node item_text]. apply tl_not.
  Qed.

  Lemma tl_and x ns :
    forallb (fun y => negb (is_not_not y)) (x :: ns) = true ->
    tl (NBool BAnd (x :: ns)) = item_text x ++ items_text BAnd ns.
  Proof.
    intros H. cbn [to_lucene].
    assert (forall l, forallb (fun y => negb (is_not_not y)) l = true ->
              (fix go (l : list node) (first : bool) {struct l} : bytes :=
                 match l with
                 | [] => []
                 | x :: r =>
                     (if first then [] else bs " AND ") ++
                     match x with
                     | NNot m => bs "NOT " ++ (if is_bool_node m then paren (tl m) else tl m)
                     | _ => if is_bool_node x then paren (tl x) else tl x
                     end ++ go r false
                 end) l false = items_text BAnd l) as G.
    { induction l as [|y l IH]; [reflexivity|]. cbn [forallb]. intros Hl. apply andb_true_iff in Hl as [Hy Hl].
      apply negb_true_iff in Hy. cbn [items_text sep]. rewrite <- (and_item_text y Hy), <- IH by exact Hl. reflexivity. }
    cbn [forallb] in H. apply andb_true_iff in H as [Hx H]. apply negb_true_iff in Hx.
    rewrite <- (and_item_text x Hx), <- G by exact H. reflexivity.
  Qed.

  Lemma tl_or x ns : tl (NBool BOr (x :: ns)) = item_text x ++ items_text BOr ns.
  Proof.
    cbn [to_lucene].
    assert (forall l,
              (fix go (l : list node) (first : bool) {struct l} : bytes :=
                 match l with
                 | [] => []
                 | x :: r =>
                     (if first then [] else bs " OR ") ++
                     (if is_bool_node x then paren (tl x) else tl x) ++ go r false
                 end) l false = items_text BOr l) as G.
    { induction l as [|y l IH]; [reflexivity|]. cbn [items_text sep]. rewrite <- (or_item_text y), <- IH. reflexivity. }
    rewrite <- (or_item_text x), <- G. reflexivity.
  Qed.
End Print.

(* ---------- small facts ---------- *)

Lemma strip_prefix_none_iff p s : strip_prefix p s = None <-> starts_with s p = false.
Proof.
  revert s; induction p as [|c p IH]; intros s; cbn.
  - split; discriminate.
  - destruct s as [|x s]; [split; reflexivity|]. destruct (x =? c); cbn; [apply IH | split; reflexivity].
Qed.

Lemma strip_prefix_some p s r : strip_prefix p s = Some r -> s = p ++ r.
Proof.
  revert s; induction p as [|c p IH]; intros s; cbn.
  - intros H; inversion H; reflexivity.
  - destruct s as [|x s]; [discriminate|]. destruct (N.eqb_spec x c) as [->|]; [|discriminate].
    intros H. apply IH in H. subst. reflexivity.
Qed.

(* what follows an item inside a list: blank, then AND / OR *)
Definition follows_conj (rest : bytes) : bool :=
  match rest with c :: r => is_ws c && kw_and_or (skip r) | [] => false end.

(* the end of a (sub)query: end of input or the closing parenthesis *)
Definition group_end (rest : bytes) : bool :=
  match rest with [] => true | c :: _ => c =? 41 end.

Lemma group_end_term_end rest : group_end rest = true -> term_end rest = true.
Proof. destruct rest as [|c r]; [reflexivity|]. cbn. intros ->. rewrite !orb_true_r. reflexivity. Qed.

Lemma follows_conj_term_end rest : follows_conj rest = true -> term_end rest = true.
Proof.
  destruct rest as [|c r]; [discriminate|]. cbn. intros H. apply andb_true_iff in H as [-> _]. reflexivity.
Qed.

Lemma mods_none_head c r :
  (c =? 43) = false -> (c =? 45) = false -> starts_with (c :: r) (bs "NOT") = false ->
  parse_modifiers (c :: r) = None.
Proof.
  intros H1 H2 H3. unfold parse_modifiers.
  change (bs "+") with [43]. change (bs "-") with [45].
  rewrite (strip_prefix_head_neq 43 [] c r H1), (strip_prefix_head_neq 45 [] c r H2).
  apply strip_prefix_none_iff in H3. rewrite H3. reflexivity.
Qed.

Lemma kw_free_not s : kw_free s = true -> starts_with s (bs "NOT") = false.
Proof. unfold kw_free. intros H. apply negb_true_iff in H. split_orb_false H. assumption. Qed.

Lemma not_lit_in : In (bs "NOT") [bs "AND"; bs "&&"; bs "OR"; bs "||"; bs "NOT"].
Proof. cbn. tauto. Qed.

(* text printed raw (an attribute) followed by the colon *)
Lemma raw_colon_facts a X :
  raw_ok a = true ->
  exists c r, a ++ 58 :: X = c :: r /\ head_ok c /\
    parse_modifiers (a ++ 58 :: X) = None /\ multiterm_lookahead (a ++ 58 :: X) = false.
Proof.
  intros Ha. destruct (raw_ok_parts a Ha) as (T & P & El & Eu). destruct (raw_head a Ha) as (c & r & Ea & Hc).
  destruct (term_ok_parts a T) as (N & W & U & K).
  exists c, (r ++ 58 :: X). split; [rewrite Ea; reflexivity|]. split; [exact Hc|]. split.
  - assert (starts_with (a ++ 58 :: X) (bs "NOT") = false) as H3.
    { rewrite <- El. apply kw_lit_escaped; auto using not_lit_in, kw_free_not. }
    rewrite Ea in *. cbn [app] in *. apply mods_none_head; auto; apply head_ok_neq; auto; discriminate.
  - unfold multiterm_lookahead. rewrite <- El at 1. rewrite (lex_term_escaped a (58 :: X) T eq_refl). reflexivity.
Qed.

(* an escaped term / prefix value at the start of the text *)
Lemma escaped_facts v rest :
  term_ok v = true -> stops rest = true ->
  exists c r, lucene_escape v ++ rest = c :: r /\ head_ok c /\ parse_modifiers (lucene_escape v ++ rest) = None.
Proof.
  intros T S. destruct (term_ok_parts v T) as (N & W & U & K). destruct (escaped_head v N W) as (c & r & Ev & Hc).
  exists c, (r ++ rest). split; [rewrite Ev; reflexivity|]. split; [exact Hc|].
  assert (starts_with (lucene_escape v ++ rest) (bs "NOT") = false) as H3.
  { apply kw_lit_escaped; auto using not_lit_in, kw_free_not. }
  rewrite Ev in *. cbn [app] in *. apply mods_none_head; auto; apply head_ok_neq; auto; discriminate.
Qed.

(* ---------- leaves in context ---------- *)

Section Leaves.
  Variable sub : bytes -> bytes -> option (list qitem * bytes).
  Variable fdisp : spec_float -> bytes.
  Variable fok : spec_float -> bool.
  Hypothesis Hfloat : forall f, fok f = true -> num_text_ok (fdisp f) (CFloat f).
  Notation tl := (to_lucene fdisp).

  Lemma leaf_clause n rest :
    leaf_ok fok n = true -> term_end rest = true ->
    parse_clause sub DEFAULT_FIELD (tl n ++ rest) = Some (VOk n, rest).
  Proof.
    intros L E. destruct n; cbn [leaf_ok] in L; try discriminate.
    - apply clause_all.
    - apply clause_exists; auto.
    - apply clause_missing; auto.
    - apply andb_true_iff in L as [L Hhi]. apply andb_true_iff in L as [L Hlo]. apply andb_true_iff in L as [A B].
      apply eqb_prop in B. subst ui. apply clause_range with (fok := fok); auto.
    - apply andb_true_iff in L as [A C]. destruct v as [|s|z|f]; cbn [cmp_val_ok] in C; try discriminate.
      + apply andb_true_iff in C as [T NL]. apply negb_true_iff in NL. apply clause_cmp_str; auto.
      + apply clause_cmp_int; auto.
      + apply clause_cmp_float with (fok := fok); auto.
    - apply andb_true_iff in L as [A T]. apply clause_term; auto.
    - apply clause_quoted; auto.
    - apply andb_true_iff in L as [A T]. apply clause_prefix; auto.
  Qed.

  (* the text of a leaf with an explicit field, or of _exists_ / _missing_, starts with raw text and a colon *)
  Definition colon_form (n : node) : Prop :=
    exists a X, raw_ok a = true /\ forall rest, tl n ++ rest = a ++ 58 :: X ++ rest.

  Lemma explicit_attr a V : attr_ok a = true -> bytes_eqb a DEFAULT_FIELD = false ->
    forall rest, (is_default_attr a ++ V) ++ rest = a ++ 58 :: V ++ rest.
  Proof. intros A D rest. unfold is_default_attr. rewrite D, <- !app_assoc. reflexivity. Qed.

  Lemma default_attr a V : bytes_eqb a DEFAULT_FIELD = true -> is_default_attr a ++ V = V.
  Proof. intros D. unfold is_default_attr. rewrite D. reflexivity. Qed.

  Definition is_default_term (n : node) : bool :=
    match n with NTerm a _ => bytes_eqb a DEFAULT_FIELD | _ => false end.

  (* facts about the start of a printed leaf, however it continues (rest: what may follow a term) *)
  Lemma leaf_start n rest :
    leaf_ok fok n = true -> term_end rest = true ->
    skip (tl n ++ rest) = tl n ++ rest /\ parse_modifiers (tl n ++ rest) = None /\
    (follows_conj rest = true \/ is_default_term n = false -> multiterm_lookahead (tl n ++ rest) = false).
  Proof.
    intros L E.
    assert (forall a X, raw_ok a = true ->
              skip (a ++ 58 :: X) = a ++ 58 :: X /\ parse_modifiers (a ++ 58 :: X) = None /\
              (follows_conj rest = true \/ false = false -> multiterm_lookahead (a ++ 58 :: X) = false)) as Colon0.
    { intros a X Ha. destruct (raw_colon_facts a X Ha) as (c & r & Ec & Hc & M & La).
      repeat split; auto. rewrite Ec. apply head_skip; exact Hc. }
    assert (forall a X (P : Prop), raw_ok a = true ->
              skip (a ++ 58 :: X) = a ++ 58 :: X /\ parse_modifiers (a ++ 58 :: X) = None /\
              (P -> multiterm_lookahead (a ++ 58 :: X) = false)) as Colon.
    { intros a X P Ha. destruct (Colon0 a X Ha) as (A1 & A2 & A3). repeat split; auto. }
    clear Colon0.
    assert (forall v, term_ok v = true -> forall rest', stops rest' = true ->
              skip (lucene_escape v ++ rest') = lucene_escape v ++ rest' /\
              parse_modifiers (lucene_escape v ++ rest') = None) as Esc.
    { intros v T rest' S. destruct (escaped_facts v rest' T S) as (c & r & Ec & Hc & M).
      split; auto. rewrite Ec. apply head_skip; exact Hc. }
    destruct n; cbn [leaf_ok] in L; try discriminate.
    - (* *:* *) repeat split; try reflexivity.
    - (* _exists_ *)
      cbn [to_lucene]. change (bs "_exists_:") with (EXISTS_FIELD ++ [58]). rewrite <- !app_assoc. cbn [app].
      apply Colon. reflexivity.
    - cbn [to_lucene]. change (bs "_missing_:") with (MISSING_FIELD ++ [58]). rewrite <- !app_assoc. cbn [app].
      apply Colon. reflexivity.
    - (* range *)
      apply andb_true_iff in L as [L _]. apply andb_true_iff in L as [L _]. apply andb_true_iff in L as [A _].
      cbn [to_lucene]. destruct (bytes_eqb attr DEFAULT_FIELD) eqn:D.
      + rewrite (default_attr attr _ D). destruct li; repeat split; reflexivity.
      + rewrite (explicit_attr attr _ A D). apply Colon. apply attr_ok_raw; exact A.
    - (* comparison *)
      apply andb_true_iff in L as [A _]. cbn [to_lucene]. destruct (bytes_eqb attr DEFAULT_FIELD) eqn:D.
      + rewrite (default_attr attr _ D). destruct op; repeat split; reflexivity.
      + rewrite (explicit_attr attr _ A D). apply Colon. apply attr_ok_raw; exact A.
    - (* term *)
      apply andb_true_iff in L as [A T]. cbn [to_lucene]. destruct (bytes_eqb attr DEFAULT_FIELD) eqn:D.
      + rewrite (default_attr attr _ D). destruct (Esc v T rest (term_end_stops rest E)) as [S M].
        repeat split; auto. intros [F|F]; [|cbn [is_default_term] in F; congruence]. unfold multiterm_lookahead.
        rewrite (lex_term_escaped v rest T (term_end_stops rest E)).
        destruct rest as [|c r]; [discriminate|]. cbn [follows_conj] in F. apply andb_true_iff in F as [W K].
        assert ((c =? 58) || (c =? 42) = false) as ->.
        { apply is_ws_cases in W as [ -> | [ -> | [ -> | -> ] ] ]; reflexivity. }
        rewrite W. cbn [skip]. rewrite W, K. reflexivity.
      + rewrite (explicit_attr attr _ A D). apply Colon. apply attr_ok_raw; exact A.
    - (* quoted *)
      cbn [to_lucene]. destruct (bytes_eqb attr DEFAULT_FIELD) eqn:D.
      + rewrite (default_attr attr _ D). repeat split; reflexivity.
      + rewrite (explicit_attr attr _ L D). apply Colon. apply attr_ok_raw; exact L.
    - (* prefix *)
      apply andb_true_iff in L as [A T]. cbn [to_lucene]. destruct (bytes_eqb attr DEFAULT_FIELD) eqn:D.
      + rewrite (default_attr attr _ D). rewrite <- app_assoc. cbn [app].
        destruct (Esc v T (42 :: rest) eq_refl) as [S M]. repeat split; auto.
        intros _. unfold multiterm_lookahead. rewrite (lex_term_escaped v (42 :: rest) T eq_refl). reflexivity.
      + rewrite (explicit_attr attr _ A D). apply Colon. apply attr_ok_raw; exact A.
  Qed.
End Leaves.

(* ---------- folding the items (visit_query) ---------- *)

Definition items_of (n : node) : list qitem :=
  match n with
  | NNot m => [QMod true; QClause (VOk m)]
  | _ => [QClause (VOk n)]
  end.

Fixpoint list_items (isor : bool) (ns : list node) : list qitem :=
  match ns with
  | [] => []
  | x :: r => QConj isor :: items_of x ++ list_items isor r
  end.

Notation finish := finish_query.

Lemma fold_items_nil df grp grps :
  fold_items df [] false grp grps = finish (new_boolean BOr (rev (new_boolean BAnd (rev grp) :: grps))).
Proof. reflexivity. Qed.

Lemma fold_items_of df x its grp grps :
  fold_items df (items_of x ++ its) false grp grps = fold_items df its false (x :: grp) grps.
Proof. destruct x; reflexivity. Qed.

Lemma fold_and df ns : forall grp grps,
  fold_items df (list_items false ns) false grp grps = fold_items df [] false (rev ns ++ grp) grps.
Proof.
  induction ns as [|y ns IH]; intros grp grps; [reflexivity|].
  cbn [list_items]. cbn [fold_items]. rewrite fold_items_of, IH. cbn [rev]. rewrite <- app_assoc. reflexivity.
Qed.

Lemma fold_or df ns : forall g grps,
  fold_items df (list_items true ns) false [g] grps = finish (new_boolean BOr (rev grps ++ g :: ns)).
Proof.
  induction ns as [|y ns IH]; intros g grps.
  - rewrite fold_items_nil. reflexivity.
  - cbn [list_items]. cbn [fold_items]. rewrite fold_items_of, IH. cbn [rev new_boolean].
    rewrite <- app_assoc. reflexivity.
Qed.

Theorem fold_and_list df x y ns :
  fold_query df (items_of x ++ list_items false (y :: ns)) = VOk (NBool BAnd (x :: y :: ns)).
Proof.
  unfold fold_query. rewrite fold_items_of, fold_and, fold_items_nil.
  rewrite rev_app_distr, rev_involutive. reflexivity.
Qed.

Theorem fold_or_list df x y ns :
  fold_query df (items_of x ++ list_items true (y :: ns)) = VOk (NBool BOr (x :: y :: ns)).
Proof. unfold fold_query. rewrite fold_items_of, fold_or. reflexivity. Qed.

Theorem fold_single df x : fold_query df (items_of x) = finish x.
Proof.
  unfold fold_query. rewrite <- (app_nil_r (items_of x)), fold_items_of, fold_items_nil. reflexivity.
Qed.

(* ---------- the end of a (sub)query ---------- *)

Section End.
  Variable sub : bytes -> bytes -> option (list qitem * bytes).

  Lemma parse_next_end rest : group_end rest = true -> parse_next sub DEFAULT_FIELD (skip rest) = None.
  Proof.
    destruct rest as [|c r]; [reflexivity|]. cbn [group_end]. intros H. apply N.eqb_eq in H. subst c. reflexivity.
  Qed.

  Lemma parse_more_end fuel rest : group_end rest = true -> parse_more sub fuel DEFAULT_FIELD rest = ([], rest).
  Proof. intros H. destruct fuel; [reflexivity|]. cbn [parse_more]. rewrite parse_next_end by exact H. reflexivity. Qed.
End End.
